(* Closure of the FollowLinks result w.r.t. the independent resolver, for
   wildcard-free requests and link targets (result_closed_partial).

   Part 1 (this section): facts about the FINAL ghost state that need no temporal
   reasoning.  Every p that append was entered with ends up "walked": going through
   its components from the root, the first symlink met is in [resolved] and was
   expanded with exactly the remaining components (or the revisit was recorded), or
   no symlink is met and p itself is in [resolved]; every expansion has called append
   on each of its targets joined with its remainder. *)
From Coq Require Import List NArith Bool Lia Arith.
From FS Require Import Sx Model.Path Model.Stat Model.Tree Model.FollowLinks Proofs.Lex Proofs.PathP
     Proofs.FollowLinksP.
Import ListNotations.
Open Scope N_scope.
Open Scope bool_scope.

Lemma comps_eqb_eq a b : comps_eqb a b = true <-> a = b.
Proof.
  revert b; induction a as [|x a IH]; intros [|y b]; simpl; split; intros H; try discriminate; auto.
  - apply andb_true_iff in H. destruct H as [H1 H2]. apply bytes_eqb_eq in H1. apply IH in H2. congruence.
  - inversion H; subst. rewrite bytes_eqb_refl. apply IH. reflexivity.
Qed.

Lemma gent_eqb_eq (a b : gent) : gent_eqb a b = true <-> a = b.
Proof.
  destruct a as [[d1 c1] r1], b as [[d2 c2] r2]. simpl. rewrite !andb_true_iff, !comps_eqb_eq, bytes_eqb_eq.
  split; [intros [[-> ->] ->]; reflexivity|intros H; inversion H; auto].
Qed.

Lemma mem_exp_In e l : mem_exp e l = true -> In e l.
Proof.
  induction l as [|e' l IH]; simpl; [discriminate|]. intros H. apply orb_true_iff in H.
  destruct H as [H|H]; [left; symmetry; apply gent_eqb_eq; auto|right; auto].
Qed.

Section Exec.
Variable gmatch : bytes -> bytes -> bool.
Variable view : list node.

Definition ext (a b : fstate) : Prop :=
  sub (resolved a) (resolved b) /\ incl (g_calls a) (g_calls b) /\
  incl (g_expanded a) (g_expanded b) /\ incl (g_revisit a) (g_revisit b).

Lemma ext_refl a : ext a a.
Proof. repeat split; try apply incl_refl. apply sub_refl. Qed.
Lemma ext_trans a b c : ext a b -> ext b c -> ext a c.
Proof.
  intros (A1 & A2 & A3 & A4) (B1 & B2 & B3 & B4). repeat split.
  - eapply sub_trans; eauto.
  - eapply incl_tran; eauto.
  - eapply incl_tran; eauto.
  - eapply incl_tran; eauto.
Qed.

Definition ExpOk (st : fstate) (e : gent) : Prop :=
  match e with
  | (cur, c, rest) =>
    forall t, In t (read_symlink gmatch view cur c) -> In (norm_clamp (t ++ rest)) (g_calls st)
  end.

Fixpoint walk_ok (st : fstate) (cur p : list bytes) : Prop :=
  match p with
  | [] => True
  | c :: rest =>
    if negb (is_nil (read_symlink gmatch view cur c)) then
      mem (key (cur ++ [c])) (resolved st) = true /\
      (In (cur, c, rest) (g_expanded st) \/ In (cur, c, rest) (g_revisit st))
    else if is_nil rest then mem (key (cur ++ [c])) (resolved st) = true
    else walk_ok st (cur ++ [c]) rest
  end.

Definition Walked (st : fstate) (p : list bytes) : Prop :=
  match p with
  | [] => mem s_dot (resolved st) = true
  | _ => walk_ok st [] p
  end.

Lemma walk_ok_ext a b cur p : ext a b -> walk_ok a cur p -> walk_ok b cur p.
Proof.
  intros (E1 & E2 & E3 & E4). revert cur. induction p as [|c rest IH]; intros cur H; [exact I|].
  cbn [walk_ok] in *. destruct (negb (is_nil (read_symlink gmatch view cur c))).
  - destruct H as [H1 [H2|H2]]; split; auto.
  - destruct (is_nil rest); auto.
Qed.

Lemma Walked_ext a b p : ext a b -> Walked a p -> Walked b p.
Proof.
  intros E. destruct p as [|c r]; [destruct E as [E1 _]; apply E1|]. apply walk_ok_ext; auto.
Qed.

Lemma ExpOk_ext a b e : ext a b -> ExpOk a e -> ExpOk b e.
Proof. intros (_ & E2 & _) H. destruct e as [[cur c] rest]. intros t Ht. apply E2. apply H. exact Ht. Qed.

Definition new_calls (a b : fstate) : Prop :=
  forall q, In q (g_calls b) -> In q (g_calls a) \/ Walked b q.
Definition new_exps (a b : fstate) : Prop :=
  forall e, In e (g_expanded b) -> In e (g_expanded a) \/ ExpOk b e.

Lemma new_calls_trans a b c : ext b c -> new_calls a b -> new_calls b c -> new_calls a c.
Proof.
  intros E H1 H2 q Hq. destruct (H2 q Hq) as [Hb|Hw]; [|right; auto].
  destruct (H1 q Hb) as [Ha|Hw]; [left; auto|right; eapply Walked_ext; eauto].
Qed.
Lemma new_exps_trans a b c : ext b c -> new_exps a b -> new_exps b c -> new_exps a c.
Proof.
  intros E H1 H2 e He. destruct (H2 e He) as [Hb|Hw]; [|right; auto].
  destruct (H1 e Hb) as [Ha|Hw]; [left; auto|right; eapply ExpOk_ext; eauto].
Qed.

Definition spec_rec (rec : rec_t) : Prop :=
  forall st p st', rec st p = Ok st' ->
    ext st st' /\ In p (g_calls st') /\ new_calls st st' /\ new_exps st st'.

Lemma each_target_spec rec rest ts : spec_rec rec -> forall st st',
  each_target rec rest ts st = Ok st' ->
  ext st st' /\ (forall t, In t ts -> In (norm_clamp (t ++ rest)) (g_calls st')) /\
  new_calls st st' /\ new_exps st st'.
Proof.
  intros Hrec. induction ts as [|t ts IH]; intros st st' H; simpl in H.
  - inversion H; subst. split; [apply ext_refl|]. split; [intros ? []|].
    split; intros x Hx; left; exact Hx.
  - destruct (rec st (norm_clamp (t ++ rest))) as [st1|] eqn:E; [|discriminate].
    destruct (Hrec _ _ _ E) as (X1 & X2 & X3 & X4).
    destruct (IH _ _ H) as (Y1 & Y2 & Y3 & Y4).
    split; [eapply ext_trans; eauto|]. split.
    + intros t0 [<-|Ht0]; [destruct Y1 as (_ & Yc & _); apply Yc; exact X2|apply Y2; auto].
    + split; [eapply new_calls_trans; eauto|eapply new_exps_trans; eauto].
Qed.

Lemma ext_add_resolved k st : ext st (add_resolved k st).
Proof. repeat split; try apply incl_refl. apply sub_cons. Qed.
Lemma ext_add_call p st : ext st (add_call p st).
Proof. repeat split; try apply incl_refl; [apply sub_refl|apply incl_tl, incl_refl]. Qed.
Lemma ext_add_expanded e st : ext st (add_expanded e st).
Proof. repeat split; try apply incl_refl; [apply sub_refl|apply incl_tl, incl_refl]. Qed.
Lemma ext_add_revisit e st : ext st (add_revisit e st).
Proof. repeat split; try apply incl_refl; [apply sub_refl|apply incl_tl, incl_refl]. Qed.
Lemma ext_note_revisit h e st : ext st (note_revisit h e st).
Proof. unfold note_revisit. destruct (h && _); [apply ext_add_revisit|apply ext_refl]. Qed.

Lemma new_same_calls a b : g_calls b = g_calls a -> new_calls a b.
Proof. intros E q Hq. left. rewrite <- E. exact Hq. Qed.
Lemma new_same_exps a b : g_expanded b = g_expanded a -> new_exps a b.
Proof. intros E q Hq. left. rewrite <- E. exact Hq. Qed.

Lemma note_revisit_calls h e st : g_calls (note_revisit h e st) = g_calls st.
Proof. unfold note_revisit. destruct (h && _); reflexivity. Qed.
Lemma note_revisit_exps h e st : g_expanded (note_revisit h e st) = g_expanded st.
Proof. unfold note_revisit. destruct (h && _); reflexivity. Qed.

Lemma loop_spec rec : spec_rec rec -> forall p cur st st',
  loop gmatch view rec cur p st = Ok st' ->
  ext st st' /\ walk_ok st' cur p /\ new_calls st st' /\ new_exps st st'.
Proof.
  intros Hrec. induction p as [|c rest IH]; intros cur st st' H.
  - simpl in H. inversion H; subst. split; [apply ext_refl|]. split; [exact I|].
    split; intros x Hx; left; exact Hx.
  - cbn [loop] in H. cbn [walk_ok].
    set (k := key (cur ++ [c])) in *. set (ts := read_symlink gmatch view cur c) in *.
    destruct (mem k (resolved st)) eqn:Em.
    + destruct (is_nil rest || negb (is_nil ts)) eqn:Eo; cbn [andb] in H.
      * inversion H; subst. clear H.
        split; [apply ext_note_revisit|]. split.
        -- destruct (negb (is_nil ts)) eqn:Eh.
           ++ split; [rewrite resolved_note_revisit; exact Em|].
              unfold note_revisit. cbn [andb]. destruct (mem_exp (cur, c, rest) (g_expanded st)) eqn:Ee; cbn [negb].
              ** left. apply mem_exp_In. exact Ee.
              ** right. left. reflexivity.
           ++ rewrite orb_false_r in Eo. rewrite Eo. rewrite resolved_note_revisit. exact Em.
        -- split; [apply new_same_calls, note_revisit_calls|apply new_same_exps, note_revisit_exps].
      * apply orb_false_iff in Eo. destruct Eo as [E1 E2]. rewrite E2, E1 in H |- *. apply (IH _ _ _ H).
    + rewrite andb_false_r in H. destruct (negb (is_nil ts)) eqn:Eh.
      * set (st1 := add_expanded (cur, c, rest) (add_resolved k st)) in *.
        destruct (each_target_spec rec rest ts Hrec _ _ H) as (Y1 & Y2 & Y3 & Y4).
        assert (E01 : ext st st1) by (eapply ext_trans; [apply (ext_add_resolved k)|apply ext_add_expanded]).
        split; [eapply ext_trans; eauto|]. split.
        -- split.
           ++ destruct Y1 as (Yr & _). apply Yr. unfold st1. cbn [add_expanded add_resolved resolved mem].
              rewrite bytes_eqb_refl. reflexivity.
           ++ left. destruct Y1 as (_ & _ & Ye & _). apply Ye. unfold st1. left. reflexivity.
        -- split.
           ++ intros q Hq. destruct (Y3 q Hq) as [Hq1|Hw]; [left; exact Hq1|right; exact Hw].
           ++ intros e He. destruct (Y4 e He) as [He1|Hw]; [|right; exact Hw].
              unfold st1 in He1. cbn [add_expanded add_resolved g_expanded] in He1.
              destruct He1 as [<-|He1]; [right; exact Y2|left; exact He1].
      * destruct (is_nil rest) eqn:El.
        -- inversion H; subst. split; [apply ext_add_resolved|]. split.
           ++ cbn [add_resolved resolved mem]. fold k. rewrite bytes_eqb_refl. reflexivity.
           ++ split; [apply new_same_calls|apply new_same_exps]; reflexivity.
        -- apply (IH _ _ _ H).
Qed.

Lemma append_spec fuel : spec_rec (append gmatch view fuel).
Proof.
  induction fuel as [|f IH]; intros st p st' H; [discriminate|].
  cbn [append] in H. destruct p as [|c r].
  - inversion H; subst. clear H.
    set (st1 := add_call [] st).
    assert (E1 : ext st st1) by apply ext_add_call.
    change (resolved (add_call [] st)) with (resolved st). fold st1.
    destruct (mem s_dot (resolved st)) eqn:Em.
    + split; [exact E1|]. split; [left; reflexivity|]. split.
      * intros q [<-|Hq]; [right; exact Em|left; exact Hq].
      * apply new_same_exps. reflexivity.
    + split; [eapply ext_trans; [exact E1|apply ext_add_resolved]|]. split; [left; reflexivity|]. split.
      * intros q [<-|Hq]; [right|left; exact Hq]. cbn [Walked add_resolved resolved mem].
        rewrite bytes_eqb_refl. reflexivity.
      * apply new_same_exps. reflexivity.
  - destruct (loop_spec (append gmatch view f) IH _ _ _ _ H) as (Y1 & Y2 & Y3 & Y4).
    split; [eapply ext_trans; [apply (ext_add_call (c :: r))|exact Y1]|]. split.
    + destruct Y1 as (_ & Yc & _). apply Yc. left. reflexivity.
    + split.
      * intros q Hq. destruct (Y3 q Hq) as [[<-|Hq1]|Hw]; [right; exact Y2|left; exact Hq1|right; exact Hw].
      * intros e He. destruct (Y4 e He) as [He1|Hw]; [left; exact He1|right; exact Hw].
Qed.

Lemma follow_reqs_spec fuel reqs : forall st st',
  follow_reqs gmatch view fuel st reqs = Ok st' ->
  ext st st' /\ (forall r, In r reqs -> In (norm_clamp (comps r)) (g_calls st')) /\
  new_calls st st' /\ new_exps st st'.
Proof.
  induction reqs as [|r rs IH]; intros st st' H; simpl in H.
  - inversion H; subst. split; [apply ext_refl|]. split; [intros ? []|].
    split; intros x Hx; left; exact Hx.
  - destruct (append gmatch view fuel st (norm_clamp (comps r))) as [st1|] eqn:E; [|discriminate].
    destruct (append_spec _ _ _ _ E) as (X1 & X2 & X3 & X4).
    destruct (IH _ _ H) as (Y1 & Y2 & Y3 & Y4).
    split; [eapply ext_trans; eauto|]. split.
    + intros r0 [<-|Hr0]; [destruct Y1 as (_ & Yc & _); apply Yc; exact X2|apply Y2; auto].
    + split; [eapply new_calls_trans; eauto|eapply new_exps_trans; eauto].
Qed.

(* the final state *)
Lemma final_state_facts fuel reqs st :
  follow_state gmatch view fuel reqs = Ok st ->
  (forall r, In r reqs -> In (norm_clamp (comps r)) (g_calls st)) /\
  (forall q, In q (g_calls st) -> Walked st q) /\
  (forall e, In e (g_expanded st) -> ExpOk st e).
Proof.
  intros H. destruct (follow_reqs_spec _ _ _ _ H) as (_ & Y2 & Y3 & Y4).
  split; [exact Y2|]. split.
  - intros q Hq. destruct (Y3 q Hq) as [[]|Hw]. exact Hw.
  - intros e He. destruct (Y4 e He) as [[]|Hw]. exact Hw.
Qed.

End Exec.

(* ------------------------------------------------------------------ Part 2: the literal resolver *)
(* [cres1] = cresolve on wildcard-free todo lists, with a single outcome *)
Section Phys.
Variable gmatch : bytes -> bytes -> bool.
Variable view : list node.

Definition mkc (t : list (list bytes)) (o : outcome) : cres := {| traversed := t; final := o |}.

Fixpoint cres1 (follows : nat) (here todo : list bytes) (trav : list (list bytes)) {struct follows} : cres :=
  (fix walk (here todo : list bytes) {struct todo} : cres :=
     match todo with
     | [] => mkc trav (Reached here)
     | c :: rest =>
       match dir_at view here with
       | None => mkc trav Failed
       | Some kids =>
         if is_triv c then walk here rest
         else if is_dotdot c then walk (removelast here) rest
         else match find_kid c kids with
              | None => mkc trav Failed
              | Some n =>
                let p := here ++ [node_name n] in
                if node_is_symlink n then
                  match follows with
                  | O => mkc (p :: trav) Failed
                  | S f =>
                    let l := node_link n in
                    if is_nil l then mkc (p :: trav) Failed
                    else cres1 f (if is_abs l then [] else here) (comps l ++ rest) (p :: trav)
                  end
                else walk p rest
              end
       end
     end) here todo.

Lemma cres1_eq f here todo trav :
  cres1 f here todo trav =
  match todo with
  | [] => mkc trav (Reached here)
  | c :: rest =>
    match dir_at view here with
    | None => mkc trav Failed
    | Some kids =>
      if is_triv c then cres1 f here rest trav
      else if is_dotdot c then cres1 f (removelast here) rest trav
      else match find_kid c kids with
           | None => mkc trav Failed
           | Some n =>
             let p := here ++ [node_name n] in
             if node_is_symlink n then
               match f with
               | O => mkc (p :: trav) Failed
               | S f' =>
                 let l := node_link n in
                 if is_nil l then mkc (p :: trav) Failed
                 else cres1 f' (if is_abs l then [] else here) (comps l ++ rest) (p :: trav)
               end
             else cres1 f p rest trav
           end
    end
  end.
Proof. destruct f; destruct todo; reflexivity. Qed.

Lemma cresolve_eq f here todo trav :
  cresolve gmatch view f here todo trav =
  match todo with
  | [] => [mkc trav (Reached here)]
  | (c, g) :: rest =>
    match dir_at view here with
    | None => [mkc trav Failed]
    | Some kids =>
      let enter (n : node) : list cres :=
        let p := here ++ [node_name n] in
        if node_is_symlink n then
          match f with
          | O => [mkc (p :: trav) Failed]
          | S f' =>
            let l := node_link n in
            if is_nil l then [mkc (p :: trav) Failed]
            else cresolve gmatch view f' (if is_abs l then [] else here) (lit (comps l) ++ rest) (p :: trav)
          end
        else cresolve gmatch view f p rest trav in
      if is_triv c then cresolve gmatch view f here rest trav
      else if is_dotdot c then cresolve gmatch view f (removelast here) rest trav
      else if g && contains_wildcards c then
        flat_map (fun n => if gmatch c (node_name n) then enter n else []) kids
      else match find_kid c kids with
           | None => [mkc trav Failed]
           | Some n => enter n
           end
    end
  end.
Proof. destruct f; destruct todo as [|[c g] rest]; reflexivity. Qed.

(* a todo list whose flagged components are not patterns resolves like its literal reading *)
Definition flags_ok (todo : list (bytes * bool)) : Prop :=
  Forall (fun cg => snd cg = true -> contains_wildcards (fst cg) = false) todo.

Lemma flags_ok_lit cs : flags_ok (lit cs).
Proof. unfold flags_ok, lit. apply Forall_forall. intros x Hx. apply in_map_iff in Hx. destruct Hx as (c & <- & _). simpl. discriminate. Qed.

Lemma cresolve_literal : forall f todo here trav, flags_ok todo ->
  cresolve gmatch view f here todo trav = [cres1 f here (map fst todo) trav].
Proof.
  induction f as [f IHf] using lt_wf_ind. induction todo as [|[c g] rest IH]; intros here trav Hok.
  - rewrite cresolve_eq, cres1_eq. reflexivity.
  - rewrite cresolve_eq, cres1_eq. cbn [map fst]. inversion Hok as [|? ? Hc Hrest]; subst. simpl in Hc.
    destruct (dir_at view here) as [kids|]; [|reflexivity]. cbv zeta.
    destruct (is_triv c); [apply IH; auto|]. destruct (is_dotdot c); [apply IH; auto|].
    assert (Eg : g && contains_wildcards c = false).
    { destruct g; [rewrite Hc by reflexivity|]; reflexivity. }
    rewrite Eg. destruct (find_kid c kids) as [n|]; [|reflexivity].
    destruct (node_is_symlink n); [|apply IH; auto].
    destruct f as [|f']; [reflexivity|]. destruct (is_nil (node_link n)); [reflexivity|].
    rewrite (IHf f'); [|lia|apply Forall_app; split; [apply flags_ok_lit|exact Hrest]].
    rewrite map_app. unfold lit at 1. rewrite map_map. cbn [fst]. rewrite map_id. reflexivity.
Qed.

Lemma cres1_trav : forall f todo here trav, incl trav (traversed (cres1 f here todo trav)).
Proof.
  induction f as [f IHf] using lt_wf_ind. induction todo as [|c rest IH]; intros here trav.
  - rewrite cres1_eq. apply incl_refl.
  - rewrite cres1_eq. destruct (dir_at view here) as [kids|]; [|apply incl_refl].
    destruct (is_triv c); [apply IH|]. destruct (is_dotdot c); [apply IH|].
    destruct (find_kid c kids) as [n|]; [|apply incl_refl]. cbv zeta.
    destruct (node_is_symlink n); [|apply IH].
    destruct f as [|f']; [apply incl_tl, incl_refl|]. destruct (is_nil (node_link n)); [apply incl_tl, incl_refl|].
    eapply incl_tran; [|apply IHf; lia]. apply incl_tl, incl_refl.
Qed.

(* ---- outcomes: [a] asks for no more than [b] ---- *)
Definition refines (a b : cres) : Prop :=
  incl (traversed a) (traversed b) /\ (final a = Failed \/ final a = final b).
Lemma refines_refl a : refines a a.
Proof. split; [apply incl_refl|right; reflexivity]. Qed.
Lemma refines_trans a b c : refines a b -> refines b c -> refines a c.
Proof.
  intros [A1 A2] [B1 B2]. split; [eapply incl_tran; eauto|].
  destruct A2 as [A2|A2]; [left; auto|]. rewrite A2. exact B2.
Qed.

(* ---- dropping "" and "." components from the todo list ---- *)
Inductive dropt : list bytes -> list bytes -> Prop :=
| dropt_nil : dropt [] []
| dropt_keep c a b : dropt a b -> dropt (c :: a) (c :: b)
| dropt_drop c a b : is_triv c = true -> dropt a b -> dropt (c :: a) b.

Lemma dropt_refl a : dropt a a.
Proof. induction a; constructor; auto. Qed.
Lemma dropt_app_l x a b : dropt a b -> dropt (x ++ a) (x ++ b).
Proof. induction x; simpl; [auto|constructor; auto]. Qed.
Lemma dropt_app_r a b x : dropt a b -> dropt (a ++ x) (b ++ x).
Proof. induction 1; simpl; [apply dropt_refl|constructor; auto|apply dropt_drop; auto]. Qed.
Lemma dropt_filter a : dropt a (filter (fun c => negb (is_triv c)) a).
Proof.
  induction a as [|c a IH]; simpl; [constructor|].
  destruct (is_triv c) eqn:E; simpl; [apply dropt_drop; auto|constructor; auto].
Qed.

Lemma cres1_dropt : forall f a b, dropt a b -> forall here trav,
  refines (cres1 f here a trav) (cres1 f here b trav).
Proof.
  induction f as [f IHf] using lt_wf_ind. induction 1 as [|c a b Hab IH|c a b Hc Hab IH]; intros here trav.
  - apply refines_refl.
  - rewrite (cres1_eq f here (c :: a)), (cres1_eq f here (c :: b)).
    destruct (dir_at view here) as [kids|]; [|apply refines_refl].
    destruct (is_triv c); [apply IH|]. destruct (is_dotdot c); [apply IH|].
    destruct (find_kid c kids) as [n|]; [|apply refines_refl]. cbv zeta.
    destruct (node_is_symlink n); [|apply IH].
    destruct f as [|f']; [apply refines_refl|]. destruct (is_nil (node_link n)); [apply refines_refl|].
    apply IHf; [lia|]. apply dropt_app_l. exact Hab.
  - rewrite (cres1_eq f here (c :: a)).
    destruct (dir_at view here) as [kids|].
    + rewrite Hc. apply IH.
    + split; [apply cres1_trav|left; reflexivity].
Qed.

(* ---- directories ---- *)
Lemma dir_at_app kids a b :
  dir_at kids (a ++ b) = match dir_at kids a with Some k => dir_at k b | None => None end.
Proof.
  revert kids; induction a as [|c a IH]; intros kids; [reflexivity|]. simpl.
  destruct (find_kid c kids) as [n|]; [|reflexivity]. destruct (node_is_dir n); [apply IH|reflexivity].
Qed.

(* what a walk of cur/c reports is the entry found in the directory cur *)
Lemma lookup_dir_at kids cur c ks :
  dir_at kids cur = Some ks -> lookup kids (cur ++ [c]) = find_kid c ks.
Proof.
  revert kids; induction cur as [|d cur IH]; intros kids H.
  - simpl in H. inversion H; subst. simpl. destruct (find_kid c ks); reflexivity.
  - simpl in H. cbn [app lookup]. destruct (find_kid d kids) as [n|]; [|discriminate].
    destruct (node_is_dir n); [|discriminate]. rewrite (IH _ H).
    destruct (cur ++ [c]) eqn:E; [destruct cur; discriminate|reflexivity].
Qed.

End Phys.

(* ------------------------------------------------------------------ Part 3: lexical = physical where it matters *)
Lemma normal_iff c : normal c <-> is_triv c = false /\ is_dotdot c = false.
Proof.
  unfold normal, is_triv, is_dotdot. rewrite orb_false_iff, !bytes_eqb_neq. tauto.
Qed.

Lemma wf_node_eq n :
  wf_node n = name_ok (node_name n) && (node_is_dir n || is_nil (node_kids n)) &&
              negb (node_is_dir n && node_is_symlink n) && names_distinct (map node_name (node_kids n)) &&
              forallb wf_node (node_kids n).
Proof. destruct n as [a s c kids]. reflexivity. Qed.

Lemma wf_find_kid c kids n : forallb wf_node kids = true -> find_kid c kids = Some n -> wf_node n = true.
Proof.
  intros H E. apply find_kid_In in E. destruct E as [Hin _]. rewrite forallb_forall in H. auto.
Qed.

Lemma wf_dir_at kids h ks : forallb wf_node kids = true -> dir_at kids h = Some ks -> forallb wf_node ks = true.
Proof.
  revert kids; induction h as [|c h IH]; intros kids Hw H; simpl in H; [inversion H; subst; auto|].
  destruct (find_kid c kids) as [n|] eqn:E; [|discriminate]. destruct (node_is_dir n); [|discriminate].
  apply (IH (node_kids n)); auto. pose proof (wf_find_kid _ _ _ Hw E) as Hn. rewrite wf_node_eq in Hn.
  apply andb_true_iff in Hn. tauto.
Qed.

Lemma wf_dir_not_symlink n : wf_node n = true -> node_is_dir n = true -> node_is_symlink n = false.
Proof.
  intros Hw Hd. rewrite wf_node_eq in Hw. rewrite !andb_true_iff in Hw. destruct Hw as [[[_ H] _] _].
  rewrite Hd in H. simpl in H. destruct (node_is_symlink n); [discriminate|reflexivity].
Qed.

Lemma wf_view_forallb view : wf_view view = true -> forallb wf_node view = true.
Proof. unfold wf_view. intros H. apply andb_true_iff in H. tauto. Qed.

Section Lexical.
Variable view : list node.
Hypothesis Hwf : forallb wf_node view = true.

(* walking again from the root through real directories *)
Lemma cres1_rewalk : forall b h X f trav ks,
  dir_at view (h ++ b) = Some ks -> Forall normal b ->
  cres1 view f h (b ++ X) trav = cres1 view f (h ++ b) X trav.
Proof.
  induction b as [|c b IH]; intros h X f trav ks Hd Hn; [rewrite app_nil_r; reflexivity|].
  inversion Hn as [|? ? Hc Hb]; subst. apply normal_iff in Hc. destruct Hc as [Ht Hdd].
  cbn [app]. rewrite cres1_eq. rewrite dir_at_app in Hd.
  destruct (dir_at view h) as [kids0|] eqn:Eh; [|discriminate]. simpl in Hd.
  destruct (find_kid c kids0) as [n|] eqn:Ek; [|discriminate].
  destruct (node_is_dir n) eqn:Edir; [|discriminate].
  rewrite Ht, Hdd. cbv zeta.
  assert (Hns : node_is_symlink n = false).
  { apply wf_dir_not_symlink; auto.
    apply (wf_find_kid c kids0 n); [apply (wf_dir_at view h kids0 Hwf Eh)|exact Ek]. }
  rewrite Hns. destruct (find_kid_In _ _ _ Ek) as [_ Hname]. rewrite Hname.
  replace (h ++ c :: b) with ((h ++ [c]) ++ b) by (rewrite <- app_assoc; reflexivity).
  apply (IH (h ++ [c]) X f trav ks); auto.
  rewrite <- app_assoc. cbn [app]. rewrite dir_at_app, Eh. simpl. rewrite Ek, Edir. exact Hd.
Qed.

Lemma norm_clamp_app_base base cs :
  Forall normal base -> norm_clamp (base ++ cs) = rev (fold_left (cstep true) cs (rev base)).
Proof.
  intros H. unfold norm_clamp. rewrite fold_left_app, (fold_cstep_normal true base [] H), app_nil_r. reflexivity.
Qed.

Lemma norm_clamp_normal_id cs : Forall normal cs -> norm_clamp cs = cs.
Proof.
  intros H. unfold norm_clamp. rewrite (fold_cstep_normal true cs [] H), app_nil_r. apply rev_involutive.
Qed.

Lemma cstep_triv r stk c : is_triv c = true -> cstep r stk c = stk.
Proof. intros H. unfold cstep. unfold is_triv in H. rewrite H. reflexivity. Qed.

Lemma removelast_rev (base : list bytes) : rev (removelast base) = tl (rev base).
Proof.
  destruct base as [|x base] using rev_ind; [reflexivity|].
  rewrite removelast_last, rev_app_distr. reflexivity.
Qed.

Lemma cstep_dotdot_eq (stk : list bytes) :
  cstep true stk s_dotdot =
  match stk with [] => [] | t :: r => if bytes_eqb t s_dotdot then s_dotdot :: stk else r end.
Proof. destruct stk; reflexivity. Qed.

Lemma cstep_dotdot base c :
  Forall normal base -> is_dotdot c = true -> cstep true (rev base) c = rev (removelast base).
Proof.
  intros Hn Hc. unfold is_dotdot in Hc. apply bytes_eqb_eq in Hc. subst c.
  rewrite removelast_rev, cstep_dotdot_eq.
  destruct (rev base) as [|t r] eqn:E; [reflexivity|].
  assert (Ht : normal t).
  { rewrite Forall_forall in Hn. apply Hn. apply in_rev. rewrite E. left; reflexivity. }
  destruct Ht as (_ & _ & Ht). apply bytes_eqb_neq in Ht. rewrite Ht. reflexivity.
Qed.

Lemma fold_cstep_nodotdot l stk :
  no_dotdot l = true ->
  fold_left (cstep true) l stk = rev (filter (fun c => negb (is_triv c)) l) ++ stk.
Proof.
  revert stk; induction l as [|c l IH]; intros stk H; [reflexivity|].
  simpl in H. apply andb_true_iff in H. destruct H as [Hc Hl]. apply negb_true_iff in Hc.
  cbn [fold_left filter]. destruct (is_triv c) eqn:Et; cbn [negb].
  - rewrite cstep_triv by auto. apply IH; auto.
  - rewrite cstep_normal by (apply normal_iff; auto). rewrite IH by auto.
    cbn [rev]. rewrite <- app_assoc. reflexivity.
Qed.

Lemma forall_removelast {A} (P : A -> Prop) (l : list A) : Forall P l -> Forall P (removelast l).
Proof.
  intros H. destruct l as [|x l] using rev_ind; [constructor|].
  rewrite removelast_last. apply Forall_app in H. tauto.
Qed.

Lemma dir_at_removelast base ks : dir_at view base = Some ks -> exists ks', dir_at view (removelast base) = Some ks'.
Proof.
  destruct base as [|x base] using rev_ind; [eauto|]. rewrite removelast_last, dir_at_app.
  destruct (dir_at view base) as [k|]; [eauto|discriminate].
Qed.

(* link targets and requests whose ".." form a leading run: resolving cs from the real
   directory [base] asks for no more than resolving the cleaned path from the root *)
Lemma cres1_lexical : forall cs base f rest trav ks,
  dir_at view base = Some ks -> Forall normal base -> leading_dotdot_only cs = true ->
  refines (cres1 view f base (cs ++ rest) trav)
          (cres1 view f [] (norm_clamp (base ++ cs) ++ rest) trav).
Proof.
  induction cs as [|c cs IH]; intros base f rest trav ks Hd Hn Hl.
  - rewrite app_nil_r, norm_clamp_normal_id by auto.
    rewrite (cres1_rewalk base [] rest f trav ks) by auto. apply refines_refl.
  - cbn [leading_dotdot_only] in Hl. destruct (is_dotdot c) eqn:Edd; [|destruct (is_triv c) eqn:Et]; cbn [orb] in Hl.
    + assert (Et : is_triv c = false).
      { unfold is_dotdot in Edd. apply bytes_eqb_eq in Edd. subst c. reflexivity. }
      cbn [app]. rewrite (cres1_eq view f base (c :: cs ++ rest)), Hd, Et, Edd.
      destruct (dir_at_removelast base ks Hd) as [ks' Hd'].
      replace (norm_clamp (base ++ c :: cs)) with (norm_clamp (removelast base ++ cs)).
      * apply (IH (removelast base) f rest trav ks'); auto. apply forall_removelast; auto.
      * rewrite !norm_clamp_app_base by (auto; apply forall_removelast; auto).
        cbn [fold_left]. rewrite cstep_dotdot by auto. reflexivity.
    + cbn [app]. rewrite (cres1_eq view f base (c :: cs ++ rest)), Hd, Et.
      replace (norm_clamp (base ++ c :: cs)) with (norm_clamp (base ++ cs)).
      * apply (IH base f rest trav ks); auto.
      * rewrite !norm_clamp_app_base by auto. cbn [fold_left]. rewrite cstep_triv by auto. reflexivity.
    + assert (Hnd : no_dotdot (c :: cs) = true) by (cbn [no_dotdot]; rewrite Edd; exact Hl).
      rewrite norm_clamp_app_base by auto. rewrite fold_cstep_nodotdot by auto.
      rewrite rev_app_distr, !rev_involutive. rewrite <- app_assoc.
      rewrite (cres1_rewalk base [] _ f trav ks) by auto. cbn [app].
      apply cres1_dropt. apply (dropt_app_r (c :: cs) _ rest). apply dropt_filter.
Qed.

End Lexical.

(* ------------------------------------------------------------------ Part 4: shape of calls and keys *)
Lemma fold_cstep_normal_inv cs stk :
  Forall normal stk -> Forall normal (fold_left (cstep true) cs stk).
Proof.
  revert stk; induction cs as [|c cs IH]; intros stk H; [exact H|]. cbn [fold_left]. apply IH.
  destruct (is_triv c) eqn:Et; [rewrite cstep_triv by auto; exact H|].
  destruct (is_dotdot c) eqn:Ed.
  - unfold is_dotdot in Ed. apply bytes_eqb_eq in Ed. subst c. rewrite cstep_dotdot_eq.
    destruct stk as [|t r]; [constructor|]. inversion H as [|? ? Ht Hr]; subst.
    destruct Ht as (_ & _ & Ht). apply bytes_eqb_neq in Ht. rewrite Ht. exact Hr.
  - rewrite cstep_normal by (apply normal_iff; auto). constructor; auto. apply normal_iff; auto.
Qed.

Lemma norm_clamp_normal cs : Forall normal (norm_clamp cs).
Proof. unfold norm_clamp. apply Forall_rev. apply fold_cstep_normal_inv. constructor. Qed.

Section Shape.
Variable gmatch : bytes -> bytes -> bool.
Variable view : list node.
Variable reqs : list bytes.

Definition PCN (cs : list bytes) : Prop :=
  Forall (fun c => In c (comp_pool view reqs) /\ normal c) cs.

Lemma PCN_split cs : PCN cs <-> PC view reqs cs /\ Forall normal cs.
Proof.
  unfold PCN, PC. rewrite !Forall_forall. split.
  - intros H. split; intros c Hc; apply (H c Hc).
  - intros [H1 H2] c Hc. split; auto.
Qed.

Lemma PCN_app a b : PCN a -> PCN b -> PCN (a ++ b).
Proof. intros. apply Forall_app. split; auto. Qed.

Lemma norm_clamp_PCN cs : PC view reqs cs -> PCN (norm_clamp cs).
Proof. intros H. apply PCN_split. split; [apply norm_clamp_forall; exact H|apply norm_clamp_normal]. Qed.

Lemma read_symlink1_norm dirc name t : In t (read_symlink1 view dirc name) -> exists X, t = norm_clamp X.
Proof.
  unfold read_symlink1. destruct (stat_node view (dirc ++ [name])) as [n|]; [|intros []].
  destruct (node_is_symlink n); [|intros []]. intros [<-|[]]. unfold link_target. eauto.
Qed.

Lemma read_symlink_norm dirc c t : In t (read_symlink gmatch view dirc c) -> exists X, t = norm_clamp X.
Proof.
  unfold read_symlink. destruct (contains_wildcards c); [|apply read_symlink1_norm].
  destruct (read_dir view dirc) as [kids|]; [|intros []]. intros H. apply in_flat_map in H.
  destruct H as (k & _ & Hk). destruct (gmatch c (node_name k)); [|destruct Hk].
  eapply read_symlink1_norm; eauto.
Qed.

Lemma read_symlink_PCN dirc c : PCN dirc -> Forall PCN (read_symlink gmatch view dirc c).
Proof.
  intros H. apply PCN_split in H. destruct H as [H _].
  pose proof (read_symlink_PC gmatch view reqs dirc c H) as Hpc.
  rewrite Forall_forall in Hpc |- *. intros t Ht. apply PCN_split. split; [apply Hpc; auto|].
  destruct (read_symlink_norm _ _ _ Ht) as [X ->]. apply norm_clamp_normal.
Qed.

Definition goodkey (k : bytes) : Prop := k = s_dot \/ exists cs, cs <> [] /\ PCN cs /\ k = joinc cs.

Definition newc (a b : fstate) : Prop := forall q, In q (g_calls b) -> In q (g_calls a) \/ PCN q.
Definition newk (a b : fstate) : Prop := forall k, In k (resolved b) -> In k (resolved a) \/ goodkey k.

Lemma newc_refl a : newc a a. Proof. intros q H; left; exact H. Qed.
Lemma newk_refl a : newk a a. Proof. intros q H; left; exact H. Qed.
Lemma newc_trans a b c : newc a b -> newc b c -> newc a c.
Proof. intros H1 H2 q Hq. destruct (H2 q Hq) as [H|H]; [apply H1; exact H|right; exact H]. Qed.
Lemma newk_trans a b c : newk a b -> newk b c -> newk a c.
Proof. intros H1 H2 q Hq. destruct (H2 q Hq) as [H|H]; [apply H1; exact H|right; exact H]. Qed.

Definition shape_rec (rec : rec_t) : Prop :=
  forall st p st', PCN p -> rec st p = Ok st' -> newc st st' /\ newk st st'.

Lemma each_target_shape rec rest ts : shape_rec rec -> PCN rest -> Forall PCN ts -> forall st st',
  each_target rec rest ts st = Ok st' -> newc st st' /\ newk st st'.
Proof.
  intros Hrec Hrest. induction ts as [|t ts IH]; intros Hts st st' H; simpl in H.
  - inversion H; subst. split; [apply newc_refl|apply newk_refl].
  - inversion Hts as [|? ? Ht Hts']; subst.
    destruct (rec st (norm_clamp (t ++ rest))) as [st1|] eqn:E; [|discriminate].
    assert (Hp : PCN (norm_clamp (t ++ rest))).
    { apply norm_clamp_PCN. apply PCN_split. apply PCN_app; auto. }
    destruct (Hrec _ _ _ Hp E) as [X1 X2]. destruct (IH Hts' _ _ H) as [Y1 Y2].
    split; [eapply newc_trans; eauto|eapply newk_trans; eauto].
Qed.

Lemma key_good cs : cs <> [] -> PCN cs -> goodkey (key cs).
Proof. intros Hne H. right. exists cs. split; auto. split; auto. destruct cs; [congruence|reflexivity]. Qed.

Lemma newk_add k st : goodkey k -> newk st (add_resolved k st).
Proof. intros Hk q [<-|Hq]; [right; exact Hk|left; exact Hq]. Qed.

Lemma loop_shape rec : shape_rec rec -> forall p cur st st', PCN cur -> PCN p ->
  loop gmatch view rec cur p st = Ok st' -> newc st st' /\ newk st st'.
Proof.
  intros Hrec. induction p as [|c rest IH]; intros cur st st' Hcur Hp H.
  - simpl in H. inversion H; subst. split; [apply newc_refl|apply newk_refl].
  - inversion Hp as [|? ? Hc Hrest]; subst. cbn [loop] in H.
    assert (Hcur' : PCN (cur ++ [c])) by (apply PCN_app; auto; constructor; auto).
    assert (Hk : goodkey (key (cur ++ [c]))) by (apply key_good; auto; destruct cur; discriminate).
    set (k := key (cur ++ [c])) in *. set (ts := read_symlink gmatch view cur c) in *.
    destruct (mem k (resolved st)) eqn:Em.
    + destruct (is_nil rest || negb (is_nil ts)) eqn:Eo; cbn [andb] in H.
      * inversion H; subst. split; intros q Hq; left.
        -- rewrite note_revisit_calls in Hq. exact Hq.
        -- rewrite resolved_note_revisit in Hq. exact Hq.
      * apply orb_false_iff in Eo. destruct Eo as [E1 E2]. rewrite E2, E1 in H. apply (IH _ _ _ Hcur' Hrest H).
    + rewrite andb_false_r in H. destruct (negb (is_nil ts)) eqn:Eh.
      * destruct (each_target_shape rec rest ts Hrec Hrest (read_symlink_PCN cur c Hcur) _ _ H) as [Y1 Y2].
        split; [exact Y1|]. eapply newk_trans; [|exact Y2]. apply (newk_add k st Hk).
      * destruct (is_nil rest).
        -- inversion H; subst. split; [intros q Hq; left; exact Hq|apply newk_add; exact Hk].
        -- apply (IH _ _ _ Hcur' Hrest H).
Qed.

Lemma append_shape fuel : shape_rec (append gmatch view fuel).
Proof.
  induction fuel as [|f IH]; intros st p st' Hp H; [discriminate|].
  cbn [append] in H.
  assert (Hc : newc st (add_call p st)) by (intros q [<-|Hq]; [right; exact Hp|left; exact Hq]).
  destruct p as [|c r].
  - inversion H; subst. change (resolved (add_call [] st)) with (resolved st).
    destruct (mem s_dot (resolved st)); split; auto.
    + intros q Hq; left; exact Hq.
    + intros q [<-|Hq]; [right; left; reflexivity|left; exact Hq].
  - destruct (loop_shape _ IH _ _ _ _ (Forall_nil _) Hp H) as [Y1 Y2].
    split; [eapply newc_trans; eauto|exact Y2].
Qed.

Lemma follow_reqs_shape fuel rs : (forall r, In r rs -> In r reqs) -> forall st st',
  follow_reqs gmatch view fuel st rs = Ok st' -> newc st st' /\ newk st st'.
Proof.
  induction rs as [|r rs IH]; intros Hin st st' H; simpl in H.
  - inversion H; subst. split; [apply newc_refl|apply newk_refl].
  - destruct (append gmatch view fuel st (norm_clamp (comps r))) as [st1|] eqn:E; [|discriminate].
    assert (Hp : PCN (norm_clamp (comps r))).
    { apply norm_clamp_PCN. apply Forall_forall. intros c Hc. unfold comp_pool. apply in_or_app. left.
      apply in_flat_map. exists r. split; auto. apply Hin. left; reflexivity. }
    destruct (append_shape _ _ _ _ Hp E) as [X1 X2].
    destruct (IH (fun r0 Hr0 => Hin r0 (or_intror Hr0)) _ _ H) as [Y1 Y2].
    split; [eapply newc_trans; eauto|eapply newk_trans; eauto].
Qed.

Lemma final_state_shape fuel st :
  follow_state gmatch view fuel reqs = Ok st ->
  (forall q, In q (g_calls st) -> PCN q) /\ (forall k, In k (resolved st) -> goodkey k).
Proof.
  intros H. destruct (follow_reqs_shape fuel reqs (fun r Hr => Hr) _ _ H) as [Y1 Y2]. split.
  - intros q Hq. destruct (Y1 q Hq) as [[]|Hw]. exact Hw.
  - intros k Hk. destruct (Y2 k Hk) as [[]|Hw]. exact Hw.
Qed.

End Shape.

(* ------------------------------------------------------------------ Part 5: the main lemma *)
Section Main.
Variable gmatch : bytes -> bytes -> bool.
Variable view : list node.
Variable reqs : list bytes.
Variable F : fstate.
Hypothesis Hwf : forallb wf_node view = true.
Hypothesis HW : forall q, In q (g_calls F) -> Walked gmatch view F q.
Hypothesis HE : forall e, In e (g_expanded F) -> ExpOk gmatch view F e.
Hypothesis HR : g_revisit F = [].
Hypothesis HC : forall q, In q (g_calls F) -> PCN view reqs q.
Hypothesis Hlex : forall l, In l (forest_links view) -> leading_dotdot_only (comps l) = true.
Hypothesis Hlit : forall c, In c (comp_pool view reqs) -> contains_wildcards c = false.

(* [y] is, or lies below, a resolved key *)
Definition covR (y : list bytes) : Prop :=
  exists y' z, y = y' ++ z /\ y' <> [] /\ PCN view reqs y' /\ mem (key y') (resolved F) = true.

Definition post (trav : list (list bytes)) (r : cres) : Prop :=
  (forall x, In x (traversed r) -> In x trav \/ covR x) /\
  match final r with
  | Reached [] => mem s_dot (resolved F) = true
  | Reached y => covR y
  | Failed => True
  end.

Lemma post_refines trav a b : refines a b -> post trav b -> post trav a.
Proof.
  intros [R1 R2] [P1 P2]. split; [intros x Hx; apply P1; apply R1; exact Hx|].
  destruct R2 as [R2|R2]; rewrite R2; [exact I|exact P2].
Qed.

Lemma post_weaken x trav r : covR x -> post (x :: trav) r -> post trav r.
Proof.
  intros Hx [P1 P2]. split; [|exact P2]. intros y Hy. destruct (P1 y Hy) as [[<-|H]|H]; auto.
Qed.

Lemma post_failed trav : post trav (mkc trav Failed).
Proof. split; [intros x Hx; left; exact Hx|exact I]. Qed.

Lemma post_reached trav y : y <> [] -> covR y -> post trav (mkc trav (Reached y)).
Proof.
  intros Hne Hc. split; [intros x Hx; left; exact Hx|]. cbn [final mkc].
  destruct y; [congruence|exact Hc].
Qed.

Lemma PCN_normal cs : PCN view reqs cs -> Forall normal cs.
Proof. intros H. apply PCN_split in H. tauto. Qed.

Lemma inner : forall f,
  (forall f', (f' < f)%nat -> forall q trav, In q (g_calls F) -> post trav (cres1 view f' [] q trav)) ->
  forall rest cur trav, PCN view reqs cur -> PCN view reqs rest -> rest <> [] ->
    walk_ok gmatch view F cur rest -> post trav (cres1 view f cur rest trav).
Proof.
  intros f IHf. induction rest as [|c rest IH]; intros cur trav Hcur Hrest Hne Hwalk; [congruence|].
  inversion Hrest as [|? ? [Hcp Hcn] Hrest']; subst.
  rewrite cres1_eq. destruct (dir_at view cur) as [kids|] eqn:Ed; [|apply post_failed].
  apply normal_iff in Hcn. destruct Hcn as [Et Edd]. rewrite Et, Edd.
  destruct (find_kid c kids) as [n|] eqn:Ek; [|apply post_failed]. cbv zeta.
  destruct (find_kid_In _ _ _ Ek) as [_ Hname]. rewrite Hname.
  assert (Hlk : lookup view (cur ++ [c]) = Some n) by (rewrite (lookup_dir_at view cur c kids Ed); exact Ek).
  assert (Hrs : read_symlink gmatch view cur c =
                if node_is_symlink n then [link_target cur (node_link n)] else []).
  { unfold read_symlink. rewrite (Hlit c Hcp). unfold read_symlink1, stat_node. rewrite Hlk. reflexivity. }
  assert (Hcur' : PCN view reqs (cur ++ [c])).
  { apply PCN_app; auto. constructor; [|constructor]. split; auto. apply normal_iff; auto. }
  cbn [walk_ok] in Hwalk. rewrite Hrs in Hwalk.
  destruct (node_is_symlink n) eqn:Es.
  - cbn [is_nil negb] in Hwalk. destruct Hwalk as [Hm [Hexp|Hrev]]; [|rewrite HR in Hrev; destruct Hrev].
    assert (Hcov : covR (cur ++ [c])).
    { exists (cur ++ [c]), []. rewrite app_nil_r. repeat split; auto. destruct cur; discriminate. }
    assert (Hpf : forall t, post trav (mkc ((cur ++ [c]) :: t) Failed) \/ True) by (intros; right; exact I).
    assert (Hfail : post trav (mkc ((cur ++ [c]) :: trav) Failed)).
    { split; [|exact I]. intros x [<-|Hx]; [right; exact Hcov|left; exact Hx]. }
    destruct f as [|f']; [exact Hfail|]. destruct (is_nil (node_link n)); [exact Hfail|].
    set (l := node_link n) in *. set (base := if is_abs l then [] else cur).
    apply (post_weaken (cur ++ [c])); [exact Hcov|].
    assert (Hbase : exists ks, dir_at view base = Some ks /\ Forall normal base).
    { unfold base. destruct (is_abs l); [exists view; split; [reflexivity|constructor]|].
      exists kids. split; [exact Ed|apply PCN_normal; exact Hcur]. }
    destruct Hbase as (ks & Hbd & Hbn).
    assert (Hll : leading_dotdot_only (comps l) = true) by (apply Hlex; eapply lookup_link; eauto).
    eapply post_refines; [apply (cres1_lexical view Hwf (comps l) base f' rest _ ks Hbd Hbn Hll)|].
    apply IHf; [lia|].
    pose proof (HE _ Hexp) as Hok. cbn [ExpOk] in Hok. specialize (Hok (link_target cur l)).
    rewrite Hrs in Hok. specialize (Hok (or_introl eq_refl)).
    assert (Hid : norm_clamp (link_target cur l ++ rest) = link_target cur l ++ rest).
    { apply norm_clamp_normal_id. apply Forall_app. split; [apply norm_clamp_normal|apply PCN_normal; exact Hrest']. }
    rewrite Hid in Hok. exact Hok.
  - cbn [is_nil negb] in Hwalk. destruct rest as [|c2 rest2].
    + cbn [is_nil] in Hwalk. rewrite cres1_eq.
      assert (Hne' : cur ++ [c] <> []) by (destruct cur; discriminate).
      apply post_reached; [exact Hne'|].
      exists (cur ++ [c]), []. rewrite app_nil_r. repeat split; auto.
    + cbn [is_nil] in Hwalk. apply IH; auto. discriminate.
Qed.

Lemma main_lemma : forall f q trav, In q (g_calls F) -> post trav (cres1 view f [] q trav).
Proof.
  induction f as [f IHf] using lt_wf_ind. intros q trav Hq.
  destruct q as [|c r].
  - rewrite cres1_eq. split; [intros x Hx; left; exact Hx|]. exact (HW [] Hq).
  - apply (inner f IHf (c :: r) [] trav); [constructor|apply HC; exact Hq|discriminate|exact (HW _ Hq)].
Qed.

End Main.

(* ------------------------------------------------------------------ Part 6: from resolved keys to the result list *)
Lemma comps_joinc_app_sep a r :
  a <> [] -> Forall nosep a -> comps (joinc a ++ sep :: r) = a ++ comps r.
Proof.
  induction a as [|c a IH]; intros Hne Hs; [congruence|].
  inversion Hs as [|? ? Hc Ha]; subst. destruct a as [|c2 a].
  - simpl. apply comps_app_sep. exact Hc.
  - rewrite joinc_cons by discriminate. rewrite <- app_assoc. cbn [app].
    rewrite comps_app_sep by exact Hc. rewrite IH by (auto; discriminate). reflexivity.
Qed.

Lemma inside_joinc a b :
  a <> [] -> Forall nosep a -> Forall nosep b -> inside (joinc a) (joinc b) = true -> exists w, b = a ++ w.
Proof.
  intros Hne Ha Hb H. apply inside_split in H. destruct H as [r Hr].
  assert (Hbne : b <> []).
  { intro; subst b. simpl in Hr. destruct (joinc a); discriminate. }
  exists (comps r). rewrite <- (comps_joinc b Hbne Hb), Hr. apply comps_joinc_app_sep; auto.
Qed.

Lemma pat_prefix_literal gmatch a z :
  (forall c, In c a -> contains_wildcards c = false) -> pat_prefix gmatch a (a ++ z) = true.
Proof.
  induction a as [|c a IH]; intros H; [reflexivity|]. cbn [app pat_prefix].
  rewrite (H c (or_introl eq_refl)), bytes_eqb_refl. apply IH. intros; apply H; right; auto.
Qed.

Lemma pool_nosep view reqs c : In c (comp_pool view reqs) -> nosep c.
Proof.
  unfold comp_pool. intros H. apply in_app_or in H.
  destruct H as [H|H]; apply in_flat_map in H; destruct H as (x & _ & Hx);
    pose proof (comps_all_nosep x) as Hall; rewrite Forall_forall in Hall; auto.
Qed.

Section Final.
Variable gmatch : bytes -> bytes -> bool.
Variable view : list node.
Variable reqs : list bytes.

Lemma PCN_nosep cs : PCN view reqs cs -> Forall nosep cs.
Proof. intros H. eapply Forall_impl; [|exact H]. intros c [Hc _]. eapply pool_nosep; eauto. Qed.

Lemma cov_covered F res y :
  (forall c, In c (comp_pool view reqs) -> contains_wildcards c = false) ->
  (forall k, In k (resolved F) -> goodkey view reqs k) ->
  finish F = Some res -> covR view reqs F y -> covered gmatch res y = true.
Proof.
  intros Hlit Hgood Hfin (y' & z & -> & Hne & Hpcn & Hm).
  assert (Hkey : key y' = joinc y') by (destruct y'; [congruence|reflexivity]).
  apply mem_In in Hm. destruct (finish_covers F res Hfin _ Hm) as (e & He & Hc).
  unfold covered. apply existsb_exists. exists e. split; [exact He|].
  assert (Hlity : forall cs, PCN view reqs cs -> forall c, In c cs -> contains_wildcards c = false).
  { intros cs Hcs c Hc0. unfold PCN in Hcs. rewrite Forall_forall in Hcs. apply Hlit. apply (Hcs c Hc0). }
  destruct Hc as [->|Hin].
  - rewrite Hkey, (comps_joinc y' Hne (PCN_nosep _ Hpcn)). apply pat_prefix_literal. apply Hlity; auto.
  - pose proof (finish_subset F res Hfin e He) as HeR.
    destruct (Hgood e HeR) as [->|(ecs & Hene & Hepcn & ->)].
    + exfalso. assert (Hn : finish F = None) by (apply finish_none_iff; exact HeR). congruence.
    + rewrite Hkey in Hin.
      destruct (inside_joinc ecs y' Hene (PCN_nosep _ Hepcn) (PCN_nosep _ Hpcn) Hin) as [w ->].
      rewrite (comps_joinc ecs Hene (PCN_nosep _ Hepcn)). rewrite <- app_assoc.
      apply pat_prefix_literal. apply Hlity; auto.
Qed.

Lemma literal_only_pool :
  literal_only view reqs = true -> forall c, In c (comp_pool view reqs) -> contains_wildcards c = false.
Proof.
  unfold literal_only, links_literal, literal_path. intros H c Hc. apply andb_true_iff in H. destruct H as [H1 H2].
  rewrite forallb_forall in H1, H2. unfold comp_pool in Hc. apply in_app_or in Hc.
  destruct Hc as [Hc|Hc]; apply in_flat_map in Hc; destruct Hc as (x & Hx & Hcx).
  - specialize (H1 x Hx). rewrite forallb_forall in H1. apply negb_true_iff. apply H1. exact Hcx.
  - specialize (H2 x Hx). rewrite forallb_forall in H2. apply negb_true_iff. apply H2. exact Hcx.
Qed.

(* NEVER [unfold chroot_resolve_all in H]: the kernel then re-checks the conversion with the
   resolver unfolded on 40 on one side only, which does not terminate in practice. *)
Lemma chroot_resolve_all_eq p :
  chroot_resolve_all gmatch view p = cresolve gmatch view 40 [] (map (fun c => (c, true)) (comps p)) [].
Proof. reflexivity. Qed.

(* closure of one request, for ANY bound on the number of links followed by the
   independent resolver (kept abstract: the kernel must never unfold the resolver on 40) *)
Lemma closed_for_request : forall (follows fuel : nat) (res : list bytes) (F : fstate) (r : bytes),
  wf_view view = true ->
  follow_state gmatch view fuel reqs = Ok F ->
  finish F = Some res ->
  g_revisit F = [] ->
  lexical_safe view reqs = true ->
  literal_only view reqs = true ->
  In r reqs ->
  forall o, In o (cresolve gmatch view follows [] (map (fun c => (c, true)) (comps r)) []) ->
  closed_for gmatch false res o = true.
Proof.
  intros follows fuel res F r Hwf EF Hfin HR Hls Hlo Hr o Ho.
  destruct (final_state_facts gmatch view fuel reqs F EF) as (Hreq & HW & HE).
  destruct (final_state_shape gmatch view reqs fuel F EF) as (HC & HK).
  pose proof (wf_view_forallb view Hwf) as Hwf'.
  pose proof (literal_only_pool Hlo) as Hlit.
  unfold lexical_safe in Hls. apply andb_true_iff in Hls. destruct Hls as [Hls1 Hls2].
  rewrite forallb_forall in Hls1, Hls2.
  (* the outcome is the literal resolution of the request *)
  assert (Hflags : flags_ok (map (fun c => (c, true)) (comps r))).
  { unfold flags_ok. apply Forall_forall. intros x Hx. apply in_map_iff in Hx. destruct Hx as (c & <- & Hc).
    intros _. cbn [fst]. apply Hlit. unfold comp_pool. apply in_or_app. left. apply in_flat_map. eauto. }
  rewrite (cresolve_literal gmatch view follows _ [] [] Hflags) in Ho.
  rewrite map_map in Ho. cbn [fst] in Ho. rewrite map_id in Ho. destruct Ho as [<-|[]].
  (* it asks for no more than resolving the cleaned request from the root *)
  pose proof (cres1_lexical view Hwf' (comps r) [] follows [] [] view eq_refl (Forall_nil _) (Hls1 r Hr)) as Href.
  rewrite !app_nil_r in Href. cbn [app] in Href.
  pose proof (main_lemma gmatch view reqs F Hwf' HW HE HR HC Hls2 Hlit follows _ [] (Hreq r Hr)) as Hpost.
  apply (post_refines view reqs F [] _ _ Href) in Hpost. destruct Hpost as [P1 P2].
  unfold closed_for. apply andb_true_iff. split.
  - apply forallb_forall. intros x Hx. destruct (P1 x Hx) as [[]|Hc].
    eapply cov_covered; eauto.
  - destruct (final (cres1 view follows [] (comps r) [])) as [[|y0 ys]|]; [|eapply cov_covered; eauto|reflexivity].
    exfalso. apply mem_In in P2. assert (Hn : finish F = None) by (apply finish_none_iff; exact P2). congruence.
Qed.

Theorem result_closed_partial_proof : forall (fuel : nat) (isnil : bool) (res : list bytes),
  wf_view view = true ->
  follow_links_opt gmatch view fuel reqs = Ok (if isnil then None else Some res) ->
  no_revisit gmatch view fuel reqs = true ->
  lexical_safe view reqs = true ->
  literal_only view reqs = true ->
  closed_b gmatch view isnil res reqs = true.
Proof.
  intros fuel isnil res Hwf Hres Hnr Hls Hlo.
  unfold closed_b. apply forallb_forall. intros r Hr. apply forallb_forall. intros o Ho.
  destruct isnil; [reflexivity|].
  unfold follow_links_opt in Hres. unfold no_revisit in Hnr.
  destruct (follow_state gmatch view fuel reqs) as [F|] eqn:EF; [|discriminate].
  inversion Hres as [Hfin]. clear Hres.
  assert (HR : g_revisit F = []) by (destruct (g_revisit F); [reflexivity|discriminate]).
  rewrite chroot_resolve_all_eq in Ho.
  exact (closed_for_request 40 fuel res F r Hwf EF Hfin HR Hls Hlo Hr o Ho).
Qed.

End Final.
