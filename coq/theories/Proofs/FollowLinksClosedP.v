(* Closure of the FollowLinks result w.r.t. the independent resolver, for
   wildcard-free requests and link targets (result_closed_partial).

   Part 1 (this section): facts about the FINAL ghost state that need no temporal
   reasoning.  Every p that append was entered with ends up "walked": going through
   its components from the root, the first symlink met is in [resolved] and was
   expanded with exactly the remaining components (or the revisit was recorded), or
   no symlink is met and p itself is in [resolved]; every expansion has called append
   on each of its targets joined with its remainder. *)
From Coq Require Import List NArith Bool Lia Arith.
From FS Require Import Sx Model.Path Model.Stat Model.Tree Model.FollowLinks Proofs.Lex Proofs.PathP
     Proofs.FollowLinksP.
Import ListNotations.
Open Scope N_scope.
Open Scope bool_scope.

Lemma comps_eqb_eq a b : comps_eqb a b = true <-> a = b.
Proof.
  revert b; induction a as [|x a IH]; intros [|y b]; simpl; split; intros H; try discriminate; auto.
  - apply andb_true_iff in H. destruct H as [H1 H2]. apply bytes_eqb_eq in H1. apply IH in H2. congruence.
  - inversion H; subst. rewrite bytes_eqb_refl. apply IH. reflexivity.
Qed.

Lemma gent_eqb_eq (a b : gent) : gent_eqb a b = true <-> a = b.
Proof.
  destruct a as [[d1 c1] r1], b as [[d2 c2] r2]. simpl. rewrite !andb_true_iff, !comps_eqb_eq, bytes_eqb_eq.
  split; [intros [[-> ->] ->]; reflexivity|intros H; inversion H; auto].
Qed.

Lemma mem_exp_In e l : mem_exp e l = true -> In e l.
Proof.
  induction l as [|e' l IH]; simpl; [discriminate|]. intros H. apply orb_true_iff in H.
  destruct H as [H|H]; [left; symmetry; apply gent_eqb_eq; auto|right; auto].
Qed.

Section Exec.
Variable gmatch : bytes -> bytes -> bool.
Variable view : list node.

Definition ext (a b : fstate) : Prop :=
  sub (resolved a) (resolved b) /\ incl (g_calls a) (g_calls b) /\
  incl (g_expanded a) (g_expanded b) /\ incl (g_revisit a) (g_revisit b).

Lemma ext_refl a : ext a a.
Proof. repeat split; try apply incl_refl. apply sub_refl. Qed.
Lemma ext_trans a b c : ext a b -> ext b c -> ext a c.
Proof.
  intros (A1 & A2 & A3 & A4) (B1 & B2 & B3 & B4). repeat split.
  - eapply sub_trans; eauto.
  - eapply incl_tran; eauto.
  - eapply incl_tran; eauto.
  - eapply incl_tran; eauto.
Qed.

Definition ExpOk (st : fstate) (e : gent) : Prop :=
  match e with
  | (cur, c, rest) =>
    forall t, In t (read_symlink gmatch view cur c) -> In (norm_clamp (t ++ rest)) (g_calls st)
  end.

Fixpoint walk_ok (st : fstate) (cur p : list bytes) : Prop :=
  match p with
  | [] => True
  | c :: rest =>
    if negb (is_nil (read_symlink gmatch view cur c)) then
      mem (key (cur ++ [c])) (resolved st) = true /\
      (In (cur, c, rest) (g_expanded st) \/ In (cur, c, rest) (g_revisit st))
    else if is_nil rest then mem (key (cur ++ [c])) (resolved st) = true
    else walk_ok st (cur ++ [c]) rest
  end.

Definition Walked (st : fstate) (p : list bytes) : Prop :=
  match p with
  | [] => mem s_dot (resolved st) = true
  | _ => walk_ok st [] p
  end.

Lemma walk_ok_ext a b cur p : ext a b -> walk_ok a cur p -> walk_ok b cur p.
Proof.
  intros (E1 & E2 & E3 & E4). revert cur. induction p as [|c rest IH]; intros cur H; [exact I|].
  cbn [walk_ok] in *. destruct (negb (is_nil (read_symlink gmatch view cur c))).
  - destruct H as [H1 [H2|H2]]; split; auto.
  - destruct (is_nil rest); auto.
Qed.

Lemma Walked_ext a b p : ext a b -> Walked a p -> Walked b p.
Proof.
  intros E. destruct p as [|c r]; [destruct E as [E1 _]; apply E1|]. apply walk_ok_ext; auto.
Qed.

Lemma ExpOk_ext a b e : ext a b -> ExpOk a e -> ExpOk b e.
Proof. intros (_ & E2 & _) H. destruct e as [[cur c] rest]. intros t Ht. apply E2. apply H. exact Ht. Qed.

Definition new_calls (a b : fstate) : Prop :=
  forall q, In q (g_calls b) -> In q (g_calls a) \/ Walked b q.
Definition new_exps (a b : fstate) : Prop :=
  forall e, In e (g_expanded b) -> In e (g_expanded a) \/ ExpOk b e.

Lemma new_calls_trans a b c : ext b c -> new_calls a b -> new_calls b c -> new_calls a c.
Proof.
  intros E H1 H2 q Hq. destruct (H2 q Hq) as [Hb|Hw]; [|right; auto].
  destruct (H1 q Hb) as [Ha|Hw]; [left; auto|right; eapply Walked_ext; eauto].
Qed.
Lemma new_exps_trans a b c : ext b c -> new_exps a b -> new_exps b c -> new_exps a c.
Proof.
  intros E H1 H2 e He. destruct (H2 e He) as [Hb|Hw]; [|right; auto].
  destruct (H1 e Hb) as [Ha|Hw]; [left; auto|right; eapply ExpOk_ext; eauto].
Qed.

Definition spec_rec (rec : rec_t) : Prop :=
  forall st p st', rec st p = Ok st' ->
    ext st st' /\ In p (g_calls st') /\ new_calls st st' /\ new_exps st st'.

Lemma each_target_spec rec rest ts : spec_rec rec -> forall st st',
  each_target rec rest ts st = Ok st' ->
  ext st st' /\ (forall t, In t ts -> In (norm_clamp (t ++ rest)) (g_calls st')) /\
  new_calls st st' /\ new_exps st st'.
Proof.
  intros Hrec. induction ts as [|t ts IH]; intros st st' H; simpl in H.
  - inversion H; subst. split; [apply ext_refl|]. split; [intros ? []|].
    split; intros x Hx; left; exact Hx.
  - destruct (rec st (norm_clamp (t ++ rest))) as [st1|] eqn:E; [|discriminate].
    destruct (Hrec _ _ _ E) as (X1 & X2 & X3 & X4).
    destruct (IH _ _ H) as (Y1 & Y2 & Y3 & Y4).
    split; [eapply ext_trans; eauto|]. split.
    + intros t0 [<-|Ht0]; [destruct Y1 as (_ & Yc & _); apply Yc; exact X2|apply Y2; auto].
    + split; [eapply new_calls_trans; eauto|eapply new_exps_trans; eauto].
Qed.

Lemma ext_add_resolved k st : ext st (add_resolved k st).
Proof. repeat split; try apply incl_refl. apply sub_cons. Qed.
Lemma ext_add_call p st : ext st (add_call p st).
Proof. repeat split; try apply incl_refl; [apply sub_refl|apply incl_tl, incl_refl]. Qed.
Lemma ext_add_expanded e st : ext st (add_expanded e st).
Proof. repeat split; try apply incl_refl; [apply sub_refl|apply incl_tl, incl_refl]. Qed.
Lemma ext_add_revisit e st : ext st (add_revisit e st).
Proof. repeat split; try apply incl_refl; [apply sub_refl|apply incl_tl, incl_refl]. Qed.
Lemma ext_note_revisit h e st : ext st (note_revisit h e st).
Proof. unfold note_revisit. destruct (h && _); [apply ext_add_revisit|apply ext_refl]. Qed.

Lemma new_same_calls a b : g_calls b = g_calls a -> new_calls a b.
Proof. intros E q Hq. left. rewrite <- E. exact Hq. Qed.
Lemma new_same_exps a b : g_expanded b = g_expanded a -> new_exps a b.
Proof. intros E q Hq. left. rewrite <- E. exact Hq. Qed.

Lemma note_revisit_calls h e st : g_calls (note_revisit h e st) = g_calls st.
Proof. unfold note_revisit. destruct (h && _); reflexivity. Qed.
Lemma note_revisit_exps h e st : g_expanded (note_revisit h e st) = g_expanded st.
Proof. unfold note_revisit. destruct (h && _); reflexivity. Qed.

Lemma loop_spec rec : spec_rec rec -> forall p cur st st',
  loop gmatch view rec cur p st = Ok st' ->
  ext st st' /\ walk_ok st' cur p /\ new_calls st st' /\ new_exps st st'.
Proof.
  intros Hrec. induction p as [|c rest IH]; intros cur st st' H.
  - simpl in H. inversion H; subst. split; [apply ext_refl|]. split; [exact I|].
    split; intros x Hx; left; exact Hx.
  - cbn [loop] in H. cbn [walk_ok].
    set (k := key (cur ++ [c])) in *. set (ts := read_symlink gmatch view cur c) in *.
    destruct (mem k (resolved st)) eqn:Em.
    + destruct (is_nil rest || negb (is_nil ts)) eqn:Eo; cbn [andb] in H.
      * inversion H; subst. clear H.
        split; [apply ext_note_revisit|]. split.
        -- destruct (negb (is_nil ts)) eqn:Eh.
           ++ split; [rewrite resolved_note_revisit; exact Em|].
              unfold note_revisit. cbn [andb]. destruct (mem_exp (cur, c, rest) (g_expanded st)) eqn:Ee; cbn [negb].
              ** left. apply mem_exp_In. exact Ee.
              ** right. left. reflexivity.
           ++ rewrite orb_false_r in Eo. rewrite Eo. rewrite resolved_note_revisit. exact Em.
        -- split; [apply new_same_calls, note_revisit_calls|apply new_same_exps, note_revisit_exps].
      * apply orb_false_iff in Eo. destruct Eo as [E1 E2]. rewrite E2, E1 in H |- *. apply (IH _ _ _ H).
    + rewrite andb_false_r in H. destruct (negb (is_nil ts)) eqn:Eh.
      * set (st1 := add_expanded (cur, c, rest) (add_resolved k st)) in *.
        destruct (each_target_spec rec rest ts Hrec _ _ H) as (Y1 & Y2 & Y3 & Y4).
        assert (E01 : ext st st1) by (eapply ext_trans; [apply (ext_add_resolved k)|apply ext_add_expanded]).
        split; [eapply ext_trans; eauto|]. split.
        -- split.
           ++ destruct Y1 as (Yr & _). apply Yr. unfold st1. cbn [add_expanded add_resolved resolved mem].
              rewrite bytes_eqb_refl. reflexivity.
           ++ left. destruct Y1 as (_ & _ & Ye & _). apply Ye. unfold st1. left. reflexivity.
        -- split.
           ++ intros q Hq. destruct (Y3 q Hq) as [Hq1|Hw]; [left; exact Hq1|right; exact Hw].
           ++ intros e He. destruct (Y4 e He) as [He1|Hw]; [|right; exact Hw].
              unfold st1 in He1. cbn [add_expanded add_resolved g_expanded] in He1.
              destruct He1 as [<-|He1]; [right; exact Y2|left; exact He1].
      * destruct (is_nil rest) eqn:El.
        -- inversion H; subst. split; [apply ext_add_resolved|]. split.
           ++ cbn [add_resolved resolved mem]. fold k. rewrite bytes_eqb_refl. reflexivity.
           ++ split; [apply new_same_calls|apply new_same_exps]; reflexivity.
        -- apply (IH _ _ _ H).
Qed.

Lemma append_spec fuel : spec_rec (append gmatch view fuel).
Proof.
  induction fuel as [|f IH]; intros st p st' H; [discriminate|].
  cbn [append] in H. destruct p as [|c r].
  - inversion H; subst. clear H.
    set (st1 := add_call [] st).
    assert (E1 : ext st st1) by apply ext_add_call.
    change (resolved (add_call [] st)) with (resolved st). fold st1.
    destruct (mem s_dot (resolved st)) eqn:Em.
    + split; [exact E1|]. split; [left; reflexivity|]. split.
      * intros q [<-|Hq]; [right; exact Em|left; exact Hq].
      * apply new_same_exps. reflexivity.
    + split; [eapply ext_trans; [exact E1|apply ext_add_resolved]|]. split; [left; reflexivity|]. split.
      * intros q [<-|Hq]; [right|left; exact Hq]. cbn [Walked add_resolved resolved mem].
        rewrite bytes_eqb_refl. reflexivity.
      * apply new_same_exps. reflexivity.
  - destruct (loop_spec (append gmatch view f) IH _ _ _ _ H) as (Y1 & Y2 & Y3 & Y4).
    split; [eapply ext_trans; [apply (ext_add_call (c :: r))|exact Y1]|]. split.
    + destruct Y1 as (_ & Yc & _). apply Yc. left. reflexivity.
    + split.
      * intros q Hq. destruct (Y3 q Hq) as [[<-|Hq1]|Hw]; [right; exact Y2|left; exact Hq1|right; exact Hw].
      * intros e He. destruct (Y4 e He) as [He1|Hw]; [left; exact He1|right; exact Hw].
Qed.

Lemma follow_reqs_spec fuel reqs : forall st st',
  follow_reqs gmatch view fuel st reqs = Ok st' ->
  ext st st' /\ (forall r, In r reqs -> In (norm_clamp (comps r)) (g_calls st')) /\
  new_calls st st' /\ new_exps st st'.
Proof.
  induction reqs as [|r rs IH]; intros st st' H; simpl in H.
  - inversion H; subst. split; [apply ext_refl|]. split; [intros ? []|].
    split; intros x Hx; left; exact Hx.
  - destruct (append gmatch view fuel st (norm_clamp (comps r))) as [st1|] eqn:E; [|discriminate].
    destruct (append_spec _ _ _ _ E) as (X1 & X2 & X3 & X4).
    destruct (IH _ _ H) as (Y1 & Y2 & Y3 & Y4).
    split; [eapply ext_trans; eauto|]. split.
    + intros r0 [<-|Hr0]; [destruct Y1 as (_ & Yc & _); apply Yc; exact X2|apply Y2; auto].
    + split; [eapply new_calls_trans; eauto|eapply new_exps_trans; eauto].
Qed.

(* the final state *)
Lemma final_state_facts fuel reqs st :
  follow_state gmatch view fuel reqs = Ok st ->
  (forall r, In r reqs -> In (norm_clamp (comps r)) (g_calls st)) /\
  (forall q, In q (g_calls st) -> Walked st q) /\
  (forall e, In e (g_expanded st) -> ExpOk st e).
Proof.
  intros H. destruct (follow_reqs_spec _ _ _ _ H) as (_ & Y2 & Y3 & Y4).
  split; [exact Y2|]. split.
  - intros q Hq. destruct (Y3 q Hq) as [[]|Hw]. exact Hw.
  - intros e He. destruct (Y4 e He) as [[]|Hw]. exact Hw.
Qed.

End Exec.
