(* Refinement LTS (receiver side) -> receiver acceptor, part 4: the receive loop. *)
From Coq Require Import List NArith Bool Arith PeanoNat Lia ZifyBool.
From FS Require Import Model.Lts Proofs.LtsInv Proofs.LtsSafe Proofs.LtsTerm Proofs.LtsC08 Proofs.LtsTok
     Proofs.LtsContent Proofs.LtsContent2 Proofs.LtsContent3 Proofs.LtsClean1 Proofs.LtsClean3 Proofs.LtsClean5.
From FS Require Import Sx Model.Path Model.Stat Model.AccEvents Model.ReceiverAcc Model.LtsRAcc
     Proofs.AccEventsP Proofs.LtsRAccP1 Proofs.LtsRAccP2 Proofs.LtsRAccP3.
Import ListNotations.
Local Open Scope nat_scope.

Section RSimLoop.
  Variable p : Lts.params.
  Variable stats : list stat.
  Variable needs : bytes -> bool.
  Variable pay : nat -> nat -> bytes.
  Variable emsg smsg : bytes.
  Hypothesis Habs : rabs_ok p stats needs pay.

  Notation arun := (AccEvents.run (receiver_acc needs)).
  Notation evs := (receiver_events stats pay emsg smsg).

  Lemma rabs_wf : wf_params p.
  Proof.
    intros i E. destruct Habs as (Hl & Hf & Hk & _).
    destruct (nth_error stats i) as [s|] eqn:En.
    - rewrite (Hf i s En). specialize (Hk i s En). rewrite E in Hk. symmetry in Hk.
      unfold wanted, reqable in Hk. apply andb_prop in Hk. destruct Hk as [Hk _]. apply andb_prop in Hk. tauto.
    - exfalso. apply nth_error_None in En. unfold kind_of, entry_at in E.
      rewrite (proj2 (nth_error_None _ _)) in E by lia. discriminate.
  Qed.

  Variables st st' : Lts.state.
  Variable a : rstate.
  Hypothesis R : reachable p st.
  Hypothesis K : scal st.
  Hypothesis W : forall id, wq p id st.
  Hypothesis K' : scal st'.
  Hypothesis HI : RI stats st a.

  Ltac open_same :=
    match goal with Ho : keyed _ oval (OPP _) _ |- _ =>
      eapply keyed_iff; [|exact Ho]; intros ?i; symmetry; apply OPP_same; try reflexivity;
      intros; cbn; repeat match goal with E : rl_pc _ = _ |- _ => rewrite E end; reflexivity end.
  Ltac files_same :=
    match goal with Hf : keyed _ (fval _) (FKP _) _ |- _ =>
      eapply keyed_iff; [|exact Hf]; intros ?i; symmetry; apply FKP_same; reflexivity end.
  Ltac ri_triv Hrn :=
    try assumption; try reflexivity; try (split; [|split]; first [assumption|reflexivity]);
    try (cbn; rewrite Hrn; intros X; exfalso; apply X; reflexivity).

  Lemma recvloop_sim : step_recvloop p st = Some st' ->
    exists a', arun a (evs st LRecvLoop) = Some a' /\ RI stats st' a'.
  Proof.
    intros H. pose proof rabs_wf as WF. destruct HI as [Hi Hendm Hrl Herr Hfo Hret Hlive Hfiles Hopen].
    pose proof (k_rb st K) as Hrb. pose proof (k_cc st K) as Hcc. pose proof (k_re st' K') as Hre'.
    unfold step_recvloop in H. cbn [receiver_events].
    destruct (rl_pc st) eqn:Epc.
    - (* RL_Recv *)
      assert (Hr0 : r_ret a = None).
      { rewrite Hret. destruct (recv_ret st) eqn:E; [|reflexivity]. destruct Hlive as [X _]; congruence. }
      assert (Hrn : recv_ret st = None) by congruence.
      destruct Hrl as (Hfi & Hrd & Heof).
      unfold recv_events. rewrite Hrb in *.
      destruct (buf_sr st) as [|pk r] eqn:Eb.
      { destruct (sr_closed st); [|discriminate]. inv_some. subst st'. cbn in Hre'. discriminate. }
      inv_some. subst st'. cbn [AccEvents.run]. unfold receiver_acc. rewrite Hr0, Hrd. unfold on_in. rewrite Hfi.
      destruct pk; cbn [abs_rin].
      + (* STAT *)
        assert (Hlt : rl_i st < length stats).
        { pose proof (inv_rs_reachable p st R) as X. unfold inv_rs in X. rewrite Eb, count_stat_cons in X. cbn in X.
          destruct (inv_reachable _ _ R) as [_ _ (_ & (Y & _) & _) _ _ _ _]. unfold nentries in Y.
          destruct Habs as (Hl & _). clear - X Y Hl. lia. }
        destruct (nth_error stats (rl_i st)) as [s|] eqn:En; [|apply nth_error_None in En; clear - En Hlt; lia].
        rewrite Hendm, (stat_before_end p st R r Eb).
        assert (Hreg : is_file p (rl_i st) = mode_is_regular (st_mode s)) by (destruct Habs as (_ & Hf & _); apply Hf; exact En).
        assert (Hnew : ~ FKP st (rl_i st)).
        { unfold FKP. destruct (W (rl_i st)) as [_ _ _ _ WR _ _ _]. rewrite Nat.ltb_irrefl, andb_false_r in WR. cbn in WR.
          unfold wsum in *. rewrite wsum_cL_split in WR. clear - WR. lia. }
        eexists. split; [reflexivity|]. rewrite <- Hreg.
        destruct (is_file p (rl_i st)) eqn:Ef; constructor; cbn; rewrite ?Epc, ?Hi; try assumption; try reflexivity; try (split; [|split]; assumption); try (rewrite Hrn; intros X; exfalso; apply X; reflexivity).
        * eapply keyed_add; [exact Hfiles|exact Hnew| |exact En]. apply FKP_reg; reflexivity.
        * open_same.
        * open_same.
      + (* end marker *)
        rewrite Hendm, (end_once p st R r Eb).
        eexists. split; [reflexivity|].
        constructor; cbn; rewrite ?Epc, ?Hi; ri_triv Hrn.
        open_same.
      + (* DATA id *)
        destruct (memb id (pipes st)); [|cbn in Hre'; discriminate].
        destruct (data_open p WF st R W id r Eb) as [HW HL].
        assert (HO : OPP st id) by (unfold OPP; split; [clear - HW; lia|exact HL]).
        destruct (keyed_lookup _ _ _ _ _ Hopen HO) as (cs & Hl & _). rewrite Hl.
        destruct (pay id (count_occ Nat.eq_dec (written st) id)) as [|b d] eqn:Ep;
          [exfalso; destruct Habs as (_ & _ & _ & Hp); exact (Hp _ _ Ep)|].
        eexists. split; [reflexivity|].
        constructor; cbn; rewrite ?Epc, ?Hi; ri_triv Hrn.
        eapply keyed_iff; [|apply keyed_update; [exact Hopen|intros; exact Logic.I]].
        intros i. symmetry. apply OPP_same; try reflexivity. intros; cbn; rewrite Epc; reflexivity.
      + (* DATA id, empty: end of the file *)
        destruct (memb id (pipes st)); [|cbn in Hre'; discriminate].
        destruct (dataend_open p st R W id r Eb) as [HW HL].
        assert (HO : OPP st id) by (unfold OPP; split; [clear - HW; lia|exact HL]).
        destruct (keyed_lookup _ _ _ _ _ Hopen HO) as (cs & Hl & _). rewrite Hl.
        eexists. split; [reflexivity|].
        constructor; cbn; rewrite ?Epc, ?Hi; ri_triv Hrn.
        eapply keyed_remove; [exact Hopen|].
        intros i. unfold OPP, wsum, latec. cbn. rewrite Epc. cbn. unfold OPP, latec in HO. rewrite Epc in HO. cbn in HO.
        destruct (Nat.eqb_spec i id); cbn; [subst; clear; split; [intros [_ X]; lia|intros [_ X]; congruence]|].
        clear - n. split; [intros X; split; [exact X|exact n]|intros [X _]; exact X].
      + (* REQ from the sender: no case in the switch *)
        eexists. split; [reflexivity|].
        constructor; cbn; rewrite ?Epc, ?Hi; ri_triv Hrn.
      + (* FIN *)
        eexists. split; [reflexivity|].
        constructor; cbn; rewrite ?Epc, ?Hi; ri_triv Hrn. open_same.
      + (* ERR: no PErr is ever in flight in a fault-free run *)
        exfalso. pose proof (k_p1 st K) as X. rewrite Eb in X. cbn in X. discriminate.
    - (* RL_Upd *)
      rewrite Hcc in H. inv_some. subst st'. exists a. split; [reflexivity|].
      assert (Hrn : recv_ret st = None) by (destruct (recv_ret st) eqn:E; [destruct Hlive as [X _]; congruence|reflexivity]).
      constructor; cbn; rewrite ?Epc; ri_triv Hrn. open_same.
    - (* RL_Push *)
      destruct (room_walk p st); [|discriminate]. inv_some. subst st'. exists a. split; [reflexivity|].
      assert (Hrn : recv_ret st = None) by (destruct (recv_ret st) eqn:E; [destruct Hlive as [X _]; congruence|reflexivity]).
      constructor; cbn; rewrite ?Epc; ri_triv Hrn. open_same.
    - (* RL_UpdEnd *)
      rewrite Hcc in H. inv_some. subst st'. exists a. split; [reflexivity|].
      assert (Hrn : recv_ret st = None) by (destruct (recv_ret st) eqn:E; [destruct Hlive as [X _]; congruence|reflexivity]).
      constructor; cbn; rewrite ?Epc; ri_triv Hrn. open_same.
    - (* RL_Write id *)
      inv_some. subst st'. exists a. split; [reflexivity|].
      assert (Hrn : recv_ret st = None) by (destruct (recv_ret st) eqn:E; [destruct Hlive as [X _]; congruence|reflexivity]).
      constructor; cbn; rewrite ?Epc; ri_triv Hrn. open_same.
    - (* RL_CloseP id: the pipe is closed, the file is complete *)
      inv_some. subst st'. exists a. split; [reflexivity|].
      assert (Hrn : recv_ret st = None) by (destruct (recv_ret st) eqn:E; [destruct Hlive as [X _]; congruence|reflexivity]).
      constructor; cbn; rewrite ?Epc; ri_triv Hrn.
      eapply keyed_iff; [|exact Hopen]. intros i. unfold OPP, wsum, latec. cbn. rewrite Epc, cnt_cons. cbn.
      clear. split; intros [X Y]; (split; [exact X|lia]).
    - (* RL_Drain *)
      assert (Hr0 : r_ret a = None).
      { rewrite Hret. destruct (recv_ret st) eqn:E; [|reflexivity]. destruct Hlive as [X _]; congruence. }
      assert (Hrn : recv_ret st = None) by congruence.
      destruct Hrl as (Hfi & Hrd & Heof).
      unfold recv_events. rewrite Hrb in *.
      destruct (buf_sr st) as [|pk r] eqn:Eb.
      + destruct (sr_closed st); [|discriminate]. inv_some. subst st'. cbn [AccEvents.run]. unfold receiver_acc.
        rewrite Hr0, Hrd, Hfi. eexists. split; [reflexivity|].
        constructor; cbn; rewrite ?Epc; ri_triv Hrn; try open_same.
      + inv_some. subst st'. cbn [AccEvents.run]. unfold receiver_acc. rewrite Hr0, Hrd. unfold on_in. rewrite Hfi.
        eexists. split; [reflexivity|].
        constructor; cbn; rewrite ?Epc; ri_triv Hrn.
    - discriminate.
  Qed.
End RSimLoop.
