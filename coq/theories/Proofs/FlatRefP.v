(* For a nil map function the reference is, literally: filter the full walk by "selected, or
   an ancestor (by path prefix) of a selected entry".  Also: a map function that only rewrites
   commutes with the reference. *)
From Coq Require Import List NArith Lia Bool.
From FS Require Import Sx Model.Path Model.Stat Model.Tree Model.Pattern Model.FilterWalk
  Proofs.Lex Proofs.PathP Proofs.PatternP Proofs.FilterP Proofs.RefP.
Import ListNotations.
Open Scope bool_scope.

Lemma walk_node_eq dir name st ct kids :
  walk_node dir (Node name st ct kids) =
  (set_path st (child_path dir name), ct) :: walk_forest (child_path dir name) kids.
Proof.
  cbn [walk_node]. f_equal. induction kids as [|k r IH]; [reflexivity|].
  cbn [walk_forest]. rewrite <- IH. reflexivity.
Qed.

Lemma has_prefix_longer (a : bytes) x b : has_prefix (a ++ x :: b) a = false.
Proof. induction a as [|y a IH]; [reflexivity|]. simpl. rewrite N.eqb_refl. exact IH. Qed.

Lemma wf_tree_node_inv name st ct kids : wf_tree_node (Node name st ct kids) = true ->
  name <> [] /\ nosep name /\ (st_is_dir st = true \/ kids = []) /\
  distinct (map node_name kids) = true /\ forallb wf_tree_node kids = true.
Proof.
  cbn [wf_tree_node]. intros H. repeat (apply andb_true_iff in H; destruct H as [H ?]).
  repeat split; auto.
  - destruct name; discriminate.
  - apply no_sep_nosep; auto.
  - match goal with H : _ || _ = true |- _ => apply orb_true_iff in H; destruct H as [H|H]; auto end.
    right. destruct kids; [reflexivity|discriminate].
Qed.

(* names and paths *)
Notation epath e := (st_path (fst e)) (only parsing).

Lemma node_name_eq name st ct kids : node_name (Node name st ct kids) = name.
Proof. reflexivity. Qed.

Lemma walk_paths : forall n, wf_tree_node n = true -> forall dir e, In e (walk_node dir n) ->
  epath e = child_path dir (node_name n) \/
  has_prefix (child_path dir (node_name n) ++ [sep]) (epath e) = true.
Proof.
  induction n as [name st ct kids IHk] using node_ind2. intros Hwf dir e Hin.
  apply wf_tree_node_inv in Hwf. destruct Hwf as (Hne & Hns & _ & _ & Hkids).
  rewrite walk_node_eq in Hin. cbn [node_name]. set (p := child_path dir name) in *.
  destruct Hin as [<-|Hin]; [left; reflexivity|]. right.
  assert (Hp : p <> []) by (apply child_path_nonempty; auto).
  clear -IHk Hkids Hin Hp. induction kids as [|k r IH]; [destruct Hin|].
  cbn [walk_forest] in Hin. inversion IHk as [|? ? Hk Hr]; subst.
  cbn [forallb] in Hkids. apply andb_true_iff in Hkids. destruct Hkids as [Hwk Hwr].
  apply in_app_or in Hin. destruct Hin as [Hin|Hin]; [|apply IH; auto].
  assert (X : has_prefix (p ++ [sep]) (child_path p (node_name k) ++ [sep]) = true).
  { rewrite (child_path_cons p _ Hp).
    replace ((p ++ sep :: node_name k) ++ [sep]) with ((p ++ [sep]) ++ node_name k ++ [sep]) by (rewrite <- !app_assoc; reflexivity).
    apply has_prefix_app_r. }
  destruct (Hk Hwk p e Hin) as [E|E].
  - rewrite E. rewrite (child_path_cons p _ Hp).
    replace (p ++ sep :: node_name k) with ((p ++ [sep]) ++ node_name k) by (rewrite <- app_assoc; reflexivity).
    apply has_prefix_app_r.
  - eapply has_prefix_trans; eauto.
Qed.

(* entries of one sibling are not below another sibling *)
Lemma sibling_not_below dir n1 k : nosep n1 -> wf_tree_node k = true -> node_name k <> n1 ->
  forall e, In e (walk_node dir k) -> has_prefix (child_path dir n1 ++ [sep]) (epath e) = false.
Proof.
  intros Hn1 Hwk Hneq e Hin.
  assert (Hn2 : nosep (node_name k)).
  { destruct k as [name st ct kids]. apply wf_tree_node_inv in Hwk. cbn [node_name]. tauto. }
  destruct (has_prefix (child_path dir n1 ++ [sep]) (epath e)) eqn:E; auto. exfalso.
  destruct (walk_paths k Hwk dir e Hin) as [Hp|Hp].
  - rewrite Hp in E. rewrite (junk_not_prefix dir n1 _ (node_name k) Hn2 (has_prefix_refl _)) in E. discriminate.
  - assert (Y : has_prefix (n1 ++ [sep]) (node_name k ++ [sep]) = true \/ has_prefix (node_name k ++ [sep]) (n1 ++ [sep]) = true).
    { destruct (prefix_comparable _ _ _ E Hp) as [X|X]; [left|right];
      unfold child_path in X; destruct dir as [|a dir]; auto.
      - replace (((a :: dir) ++ sep :: n1) ++ [sep]) with (((a :: dir) ++ [sep]) ++ n1 ++ [sep]) in X by (rewrite <- !app_assoc; reflexivity).
        replace (((a :: dir) ++ sep :: node_name k) ++ [sep]) with (((a :: dir) ++ [sep]) ++ node_name k ++ [sep]) in X by (rewrite <- !app_assoc; reflexivity).
        rewrite has_prefix_app_same in X. exact X.
      - replace (((a :: dir) ++ sep :: n1) ++ [sep]) with (((a :: dir) ++ [sep]) ++ n1 ++ [sep]) in X by (rewrite <- !app_assoc; reflexivity).
        replace (((a :: dir) ++ sep :: node_name k) ++ [sep]) with (((a :: dir) ++ [sep]) ++ node_name k ++ [sep]) in X by (rewrite <- !app_assoc; reflexivity).
        rewrite has_prefix_app_same in X. exact X. }
    assert (Z : forall a b, nosep a -> nosep b -> has_prefix (a ++ [sep]) (b ++ [sep]) = true -> a = b).
    { intros a b Ha Hb H. apply has_prefix_iff in H. destruct H as [r Hr].
      rewrite <- app_assoc in Hr. cbn [app] in Hr.
      destruct (split_first_unique sep b a [] r) as [-> _]; auto. }
    destruct Y as [Y|Y]; [apply Z in Y|apply Z in Y]; auto.
Qed.

Section Flat.
Variable V : bytes -> bool.

Fixpoint has_sel (dir : bytes) (n : node) {struct n} : bool :=
  match n with
  | Node name _ _ kids => let p := child_path dir name in V p || existsb (has_sel p) kids
  end.

Lemma existsb_walk : forall n dir, existsb (fun e : stat * list N => V (epath e)) (walk_node dir n) = has_sel dir n.
Proof.
  induction n as [name st ct kids IHk] using node_ind2. intros dir.
  rewrite walk_node_eq. cbn [existsb has_sel]. f_equal.
  induction kids as [|k r IH]; [reflexivity|]. cbn [walk_forest existsb]. rewrite existsb_app.
  inversion IHk as [|? ? Hk Hr]; subst. f_equal; [apply Hk|apply IH; exact Hr].
Qed.

Definition sel_node (dir : bytes) (n : node) : list stat := fst (fst (ref_node V id_map false dir n)).

Lemma ref_id : forall n, wf_tree_node n = true -> forall dir,
  ref_node V id_map false dir n =
  (if has_sel dir n
   then set_path (node_stat n) (child_path dir (node_name n)) :: flat_map (sel_node (child_path dir (node_name n))) (node_kids n)
   else [],
   has_sel dir n, false).
Proof.
  induction n as [name st ct kids IHk] using node_ind2. intros Hwf dir.
  apply wf_tree_node_inv in Hwf. destruct Hwf as (Hne & Hns & Hdk & _ & Hkids).
  rewrite ref_node_eq. cbv zeta. cbn [node_stat node_name node_kids has_sel id_map fst snd].
  set (p := child_path dir name).
  assert (Hf : ref_forest V id_map false p kids = (flat_map (sel_node p) kids, existsb (has_sel p) kids)).
  { clear -IHk Hkids. induction kids as [|k r IH]; [reflexivity|]. cbn [ref_forest flat_map existsb].
    inversion IHk as [|? ? Hk Hr]; subst. cbn [forallb] in Hkids. apply andb_true_iff in Hkids. destruct Hkids as [Hwk Hwr].
    unfold sel_node at 1. rewrite (Hk Hwk p). cbn [fst snd]. rewrite (IH Hr Hwr). reflexivity. }
  assert (Hb : ref_below V id_map false (st_is_dir st) p kids = (flat_map (sel_node p) kids, existsb (has_sel p) kids)).
  { unfold ref_below. destruct Hdk as [->| ->]; [exact Hf|]. destruct (st_is_dir st); reflexivity. }
  assert (Hnil : existsb (has_sel p) kids = false -> flat_map (sel_node p) kids = []).
  { clear -IHk Hkids. induction kids as [|k r IH]; [reflexivity|]. cbn [flat_map existsb]. intros E.
    apply orb_false_iff in E. destruct E as [E1 E2].
    inversion IHk as [|? ? Hk Hr]; subst. cbn [forallb] in Hkids. apply andb_true_iff in Hkids. destruct Hkids as [Hwk Hwr].
    unfold sel_node at 1. rewrite (Hk Hwk p), E1. cbn [fst app]. apply IH; auto. }
  destruct (V p) eqn:EV.
  - rewrite Hb. cbn [fst snd orb app]. reflexivity.
  - cbn [orb negb andb]. rewrite Hb. cbn [fst snd]. rewrite !andb_true_r.
    destruct (existsb (has_sel p) kids); [reflexivity|]. rewrite Hnil by reflexivity. reflexivity.
Qed.

Lemma sel_node_nil n dir : wf_tree_node n = true -> has_sel dir n = false -> sel_node dir n = [].
Proof. intros Hwf H. unfold sel_node. rewrite (ref_id n Hwf dir), H. reflexivity. Qed.

Lemma ref_id_forest l dir : forallb wf_tree_node l = true ->
  ref_forest V id_map false dir l = (flat_map (sel_node dir) l, existsb (has_sel dir) l).
Proof.
  induction l as [|k r IH]; intros Hwf; [reflexivity|]. cbn [ref_forest flat_map existsb].
  cbn [forallb] in Hwf. apply andb_true_iff in Hwf. destruct Hwf as [Hwk Hwr].
  unfold sel_node at 1. rewrite (ref_id k Hwk dir). cbn [fst snd]. rewrite (IH Hwr). reflexivity.
Qed.

(* ---- the flat statement ---- *)
Definition soa (all : list entry) := selected_or_above V all.

Definition outside (p : bytes) (l : list (stat * list N)) : Prop :=
  forall e, In e l -> has_prefix (p ++ [sep]) (epath e) = false.

Lemma existsb_outside p l : outside p l ->
  existsb (fun e' : stat * list N => has_prefix (p ++ [sep]) (epath e') && V (epath e')) l = false.
Proof.
  intros H. induction l as [|e l IH]; [reflexivity|]. cbn [existsb].
  rewrite (H e (or_introl eq_refl)). cbn [andb orb]. apply IH. intros e' Hin. apply H. right; auto.
Qed.

Lemma existsb_inside p l : (forall e, In e l -> has_prefix (p ++ [sep]) (epath e) = true) ->
  existsb (fun e' : stat * list N => has_prefix (p ++ [sep]) (epath e') && V (epath e')) l = existsb (fun e : stat * list N => V (epath e)) l.
Proof.
  intros H. induction l as [|e l IH]; [reflexivity|]. cbn [existsb].
  rewrite (H e (or_introl eq_refl)). cbn [andb]. f_equal. apply IH. intros e' Hin. apply H. right; auto.
Qed.

Lemma outside_deeper p nm l : p <> [] -> outside p l -> outside (child_path p nm) l.
Proof.
  intros Hp H e Hin. specialize (H e Hin).
  destruct (has_prefix (child_path p nm ++ [sep]) (epath e)) eqn:E; auto.
  rewrite <- H. symmetry. eapply has_prefix_trans; [|exact E].
  rewrite (child_path_cons p nm Hp).
  replace ((p ++ sep :: nm) ++ [sep]) with ((p ++ [sep]) ++ nm ++ [sep]) by (rewrite <- !app_assoc; reflexivity).
  apply has_prefix_app_r.
Qed.

Definition flat_ok (n : node) : Prop :=
  wf_tree_node n = true -> forall dir before after all,
  all = before ++ walk_node dir n ++ after ->
  outside (child_path dir (node_name n)) (before ++ after) ->
  map fst (filter (soa all) (walk_node dir n)) = sel_node dir n.

Lemma flat_forest l : Forall flat_ok l -> forallb wf_tree_node l = true -> distinct (map node_name l) = true ->
  forall dir before after all,
  all = before ++ walk_forest dir l ++ after ->
  (forall k, In k l -> outside (child_path dir (node_name k)) (before ++ after)) ->
  map fst (filter (soa all) (walk_forest dir l)) = flat_map (sel_node dir) l.
Proof.
  induction l as [|k r IH]; intros HF Hwf Hdist dir before after all Hall Hout; [reflexivity|].
  pose proof (Forall_inv HF) as Hk. pose proof (Forall_inv_tail HF) as Hr.
  cbn [forallb] in Hwf. apply andb_true_iff in Hwf. destruct Hwf as [Hwk Hwr].
  cbn [map distinct] in Hdist. apply andb_true_iff in Hdist. destruct Hdist as [Hnk Hdr].
  assert (Hneq : forall k', In k' r -> node_name k' <> node_name k).
  { intros k' Hin E. apply negb_true_iff in Hnk.
    assert (X : existsb (bytes_eqb (node_name k)) (map node_name r) = true).
    { apply existsb_exists. exists (node_name k'). split; [apply in_map; auto|]. rewrite E. apply bytes_eqb_refl. }
    congruence. }
  assert (Hnsk : nosep (node_name k)).
  { destruct k as [name st ct kids]. apply wf_tree_node_inv in Hwk. cbn [node_name]. tauto. }
  assert (Hns_r : forall k', In k' r -> nosep (node_name k') /\ wf_tree_node k' = true).
  { intros k' Hin. rewrite forallb_forall in Hwr. specialize (Hwr k' Hin). split; auto.
    destruct k' as [name st ct kids]. apply wf_tree_node_inv in Hwr. cbn [node_name]. tauto. }
  cbn [walk_forest flat_map]. rewrite filter_app, map_app. f_equal.
  - (* k itself: the later siblings are outside *)
    apply (Hk Hwk dir before (walk_forest dir r ++ after) all).
    + rewrite Hall. cbn [walk_forest]. rewrite <- !app_assoc. reflexivity.
    + intros e Hin. apply in_app_or in Hin. destruct Hin as [Hin|Hin].
      * apply (Hout k (or_introl eq_refl)). apply in_or_app. left; auto.
      * apply in_app_or in Hin. destruct Hin as [Hin|Hin].
        -- clear -Hin Hneq Hns_r Hnsk. induction r as [|k' r IHr]; [destruct Hin|].
           cbn [walk_forest] in Hin. apply in_app_or in Hin. destruct Hin as [Hin|Hin].
           ++ destruct (Hns_r k' (or_introl eq_refl)) as [_ Hw']. eapply sibling_not_below; eauto. apply Hneq. left; auto.
           ++ apply IHr; auto. { intros; apply Hneq; right; auto. } { intros; apply Hns_r; right; auto. }
        -- apply (Hout k (or_introl eq_refl)). apply in_or_app. right; auto.
  - (* the rest: k's entries are outside of each later sibling *)
    apply (IH Hr Hwr Hdr dir (before ++ walk_node dir k) after).
    + cbn [walk_forest] in Hall. rewrite Hall. rewrite <- !app_assoc. reflexivity.
    + intros k' Hin e He. apply in_app_or in He. destruct He as [He|He].
      * apply in_app_or in He. destruct He as [He|He].
        -- apply (Hout k' (or_intror Hin)). apply in_or_app. left; auto.
        -- destruct (Hns_r k' Hin) as [Hn' _]. eapply sibling_not_below; eauto.
           intro E. apply (Hneq k' Hin). auto.
      * apply (Hout k' (or_intror Hin)). apply in_or_app. right; auto.
Qed.

Lemma flat_node : forall n, flat_ok n.
Proof.
  induction n as [name st ct kids IHk] using node_ind2. intros Hwf dir before after all Hall Hout.
  pose proof Hwf as Hwf0. apply wf_tree_node_inv in Hwf. destruct Hwf as (Hne & Hns & Hdk & Hdist & Hkids).
  cbn [node_name] in Hout. set (p := child_path dir name) in *.
  assert (Hp : p <> []) by (apply child_path_nonempty; auto).
  unfold sel_node. rewrite (ref_id _ Hwf0 dir). cbn [fst node_stat node_name node_kids]. fold p.
  rewrite walk_node_eq in *. fold p in Hall |- *. cbn [filter].
  (* the verdict for the entry itself *)
  assert (Hinside : forall e, In e (walk_forest p kids) -> has_prefix (p ++ [sep]) (epath e) = true).
  { intros e Hin. pose proof (walk_paths (Node name st ct kids) Hwf0 dir e) as X. cbn [node_name] in X. fold p in X.
    rewrite walk_node_eq in X. fold p in X. destruct (X (or_intror Hin)) as [E|E]; auto.
    (* an entry of the contents cannot have the path of the directory: it is below it *)
    exfalso. clear -Hin E Hkids Hp. induction kids as [|k r IHr]; [destruct Hin|].
    cbn [walk_forest] in Hin. cbn [forallb] in Hkids. apply andb_true_iff in Hkids. destruct Hkids as [Hwk Hwr].
    apply in_app_or in Hin. destruct Hin as [Hin|Hin]; [|apply IHr; auto].
    assert (Hlong : forall q, q = child_path p (node_name k) \/ has_prefix (child_path p (node_name k) ++ [sep]) q = true -> q <> p).
    { intros q [->|Hq] Eq.
      - rewrite (child_path_cons p _ Hp) in Eq. apply (f_equal (@length N)) in Eq. rewrite app_length in Eq. simpl in Eq. lia.
      - subst q. rewrite (child_path_cons p _ Hp) in Hq. rewrite <- app_assoc in Hq. cbn [app] in Hq.
        rewrite has_prefix_longer in Hq. discriminate. }
    apply (Hlong (epath e)); auto. apply walk_paths; auto. }
  assert (Hsoa : soa all (set_path st p, ct) = has_sel dir (Node name st ct kids)).
  { unfold soa, selected_or_above. cbn [fst st_path set_path has_sel]. fold p. f_equal.
    unfold entry in *. rewrite Hall. rewrite !existsb_app. cbn [existsb].
    change (epath (set_path st p, ct)) with p.
    rewrite (has_prefix_longer p sep []).
    cbn [andb orb].
    rewrite (existsb_outside p before) by (intros e Hin; apply Hout; apply in_or_app; left; auto).
    rewrite (existsb_outside p after) by (intros e Hin; apply Hout; apply in_or_app; right; auto).
    rewrite orb_false_r. cbn [orb].
    rewrite (existsb_inside p (walk_forest p kids) Hinside).
    clear. induction kids as [|k r IH]; [reflexivity|]. cbn [walk_forest existsb]. rewrite existsb_app.
    f_equal; [apply existsb_walk|exact IH]. }
  (* the contents *)
  assert (Hkids_flat : map fst (filter (soa all) (walk_forest p kids)) = flat_map (sel_node p) kids).
  { apply (flat_forest kids IHk Hkids Hdist p (before ++ [(set_path st p, ct)]) after all).
    - rewrite Hall. rewrite <- !app_assoc. reflexivity.
    - intros k Hin. apply outside_deeper; auto. intros e He.
      apply in_app_or in He. destruct He as [He|He]; [apply in_app_or in He; destruct He as [He|He]|].
      + apply Hout. apply in_or_app. left; auto.
      + destruct He as [<-|[]]. change (epath (set_path st p, ct)) with p.
        apply (has_prefix_longer p sep []).
      + apply Hout. apply in_or_app. right; auto. }
  rewrite Hsoa. destruct (has_sel dir (Node name st ct kids)) eqn:Ehs.
  - cbn [map fst]. f_equal. exact Hkids_flat.
  - rewrite Hkids_flat. (* nothing selected below: nothing listed *)
    cbn [has_sel] in Ehs. fold p in Ehs. apply orb_false_iff in Ehs. destruct Ehs as [_ Ek].
    clear -Ek Hkids. induction kids as [|k r IH]; [reflexivity|]. cbn [flat_map existsb forallb] in *.
    apply orb_false_iff in Ek. destruct Ek as [Ek1 Ek2]. apply andb_true_iff in Hkids. destruct Hkids as [Hwk Hwr].
    rewrite (sel_node_nil k p Hwk Ek1). cbn [app]. apply IH; auto.
Qed.

Theorem reference_nomap_flat_proof view : wf_tree view = true ->
  reference V id_map view = flat_reference V view.
Proof.
  unfold wf_tree. intros H. apply andb_true_iff in H. destruct H as [Hd Hw].
  unfold reference, flat_reference, walk_root. rewrite (ref_id_forest view [] Hw). cbn [fst].
  symmetry. apply (flat_forest view) with (before := []) (after := []); auto.
  - apply Forall_forall. intros n _. apply flat_node.
  - rewrite app_nil_r. reflexivity.
  - intros k _ e [].
Qed.
End Flat.

(* a map function that only rewrites commutes with the reference *)
Section Rewrite.
Variable V : bytes -> bool.
Variable mapfn : bytes -> stat -> mres * stat.
Hypothesis Hkeep : forall p s, fst (mapfn p s) = MKeep.
Let rw (s : stat) : stat := snd (mapfn (st_path s) s).

Lemma ref_rewrite_node : forall n dir,
  ref_node V mapfn false dir n =
  (map rw (fst (fst (ref_node V id_map false dir n))), snd (fst (ref_node V id_map false dir n)), snd (ref_node V id_map false dir n)).
Proof.
  induction n as [name st ct kids IHk] using node_ind2. intros dir.
  rewrite !ref_node_eq. cbv zeta. set (p := child_path dir name). rewrite Hkeep. cbn [id_map fst snd orb].
  assert (Hf : ref_forest V mapfn false p kids =
               (map rw (fst (ref_forest V id_map false p kids)), snd (ref_forest V id_map false p kids))).
  { clear -IHk. induction kids as [|k r IH]; [reflexivity|]. cbn [ref_forest].
    inversion IHk as [|? ? Hk Hr]; subst. rewrite (Hk p).
    destruct (ref_node V id_map false p k) as [[e f] cut]. cbn [fst snd]. destruct cut; [reflexivity|].
    rewrite (IH Hr). destruct (ref_forest V id_map false p r) as [e' f']. cbn [fst snd]. rewrite map_app. reflexivity. }
  assert (Hb : forall isd, ref_below V mapfn false isd p kids =
               (map rw (fst (ref_below V id_map false isd p kids)), snd (ref_below V id_map false isd p kids))).
  { intros isd. unfold ref_below. destruct isd; [exact Hf|reflexivity]. }
  assert (Hrw : snd (mapfn p (set_path st p)) = rw (set_path st p)) by reflexivity.
  destruct (V p).
  - rewrite Hb. cbn [fst snd app map]. rewrite Hrw. reflexivity.
  - rewrite Hb. cbn [fst snd]. rewrite map_app, Hrw.
    destruct (snd (ref_below V id_map false (st_is_dir st) p kids) && negb false && true); reflexivity.
Qed.

Theorem reference_rewrite_only_proof view :
  reference V mapfn view = map rw (reference V id_map view).
Proof.
  unfold reference. induction view as [|k r IH]; [reflexivity|]. cbn [ref_forest].
  rewrite ref_rewrite_node. destruct (ref_node V id_map false [] k) as [[e f] cut]. cbn [fst snd].
  destruct cut; [reflexivity|].
  destruct (ref_forest V mapfn false [] r) as [e1 f1]. destruct (ref_forest V id_map false [] r) as [e2 f2].
  cbn [fst] in *. rewrite map_app, IH. reflexivity.
Qed.
End Rewrite.
