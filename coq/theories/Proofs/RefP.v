(* The un-pruned filterFS.Walk reports exactly what the declarative reference says, with
   the verdict of a path being the one MatchesUsingParentResults yields when handed down
   from the root (keep_incr). *)
From Coq Require Import List NArith Lia Bool.
From FS Require Import Sx Model.Path Model.Stat Model.Tree Model.Pattern Model.FilterWalk
  Proofs.Lex Proofs.PathP Proofs.ValidatorP Proofs.PatternP Proofs.FilterP Proofs.IncrNaiveP.
Import ListNotations.
Open Scope bool_scope.

(* ---------- components of child paths ---------- *)
Lemma comps_snoc d name : nosep name -> comps (d ++ sep :: name) = comps d ++ [name].
Proof.
  intros Hn. induction d as [|a d IH].
  - cbn [app]. change (comps (sep :: name)) with ([] :: comps name). rewrite comps_nosep_single by auto. reflexivity.
  - cbn [app]. destruct (N.eqb a sep) eqn:Ea.
    + simpl. rewrite Ea. rewrite IH. reflexivity.
    + rewrite !comps_unfold_nosep by auto. rewrite IH.
      destruct (comps d) as [|x xs] eqn:E; [exfalso; eapply comps_nonempty; eauto|]. reflexivity.
Qed.

Lemma pcomps_child dir name : name <> [] -> nosep name -> pcomps (child_path dir name) = pcomps dir ++ [name].
Proof.
  intros Hne Hn. unfold child_path. destruct dir as [|a dir].
  - cbn [pcomps app]. unfold pcomps. destruct name; [congruence|]. apply comps_nosep_single; auto.
  - unfold pcomps at 1. destruct ((a :: dir) ++ sep :: name) eqn:E; [destruct dir; discriminate|]. rewrite <- E.
    rewrite comps_snoc by auto. reflexivity.
Qed.

(* ---------- the lazy parent loop ---------- *)
Section Lazy.
Variable mapfn : bytes -> stat -> mres * stat.

Notation lz := (lazy_parents mapfn).
Definition lz_stack (A : list vdir) : list vdir := fst (fst (lz A)).
Definition lz_em (A : list vdir) : list stat := snd (fst (lz A)).
Definition lz_ab (A : list vdir) : bool := snd (lz A).

Lemma lz_eta A : lz A = (lz_stack A, lz_em A, lz_ab A).
Proof. unfold lz_stack, lz_em, lz_ab. destruct (lz A) as [[? ?] ?]. reflexivity. Qed.

Lemma lazy_go_app l1 l2 :
  lazy_go mapfn (l1 ++ l2) =
  let '(l1', em1, ab1) := lazy_go mapfn l1 in
  if ab1 then (l1' ++ l2, em1, true)
  else let '(l2', em2, ab2) := lazy_go mapfn l2 in (l1' ++ l2', em1 ++ em2, ab2).
Proof.
  induction l1 as [|v r IH].
  - cbn [app lazy_go]. destruct (lazy_go mapfn l2) as [[? ?] ?]. reflexivity.
  - cbn [app lazy_go]. destruct (vd_skip v); [reflexivity|].
    destruct (vd_called v).
    + rewrite IH. destruct (lazy_go mapfn r) as [[r' em] ab]. destruct ab; [reflexivity|].
      destruct (lazy_go mapfn l2) as [[? ?] ?]. reflexivity.
    + destruct (mapfn (st_path (vd_stat v)) (vd_stat v)) as [[| |] s'].
      * rewrite IH. destruct (lazy_go mapfn r) as [[r' em] ab]. destruct ab; [reflexivity|].
        destruct (lazy_go mapfn l2) as [[? ?] ?]. reflexivity.
      * rewrite IH. destruct (lazy_go mapfn r) as [[r' em] ab]. destruct ab; [reflexivity|].
        destruct (lazy_go mapfn l2) as [[? ?] ?]. reflexivity.
      * reflexivity.
Qed.

Lemma lazy_go_idem l :
  lazy_go mapfn (fst (fst (lazy_go mapfn l))) = (fst (fst (lazy_go mapfn l)), [], snd (lazy_go mapfn l)).
Proof.
  induction l as [|v r IH]; [reflexivity|]. cbn [lazy_go].
  destruct (vd_skip v) eqn:Es.
  - cbn [fst snd lazy_go]. rewrite Es. reflexivity.
  - destruct (vd_called v) eqn:Ec.
    + destruct (lazy_go mapfn r) as [[r' em] ab]. cbn [fst snd] in *. cbn [lazy_go]. rewrite Es, Ec, IH. reflexivity.
    + destruct (mapfn (st_path (vd_stat v)) (vd_stat v)) as [[| |] s'] eqn:Em.
      * destruct (lazy_go mapfn r) as [[r' em] ab]. cbn [fst snd] in *. cbn [lazy_go].
        cbn [set_called vd_skip vd_called]. rewrite Es, IH. reflexivity.
      * destruct (lazy_go mapfn r) as [[r' em] ab]. cbn [fst snd] in *. cbn [lazy_go]. rewrite Es, Ec, Em, IH. reflexivity.
      * cbn [fst snd lazy_go set_skip vd_skip]. reflexivity.
Qed.

Lemma lz_idem A : lz (lz_stack A) = (lz_stack A, [], lz_ab A).
Proof.
  unfold lz_stack, lz_ab, lazy_parents.
  pose proof (lazy_go_idem (rev A)) as H.
  destruct (lazy_go mapfn (rev A)) as [[l em] ab]. cbn [fst snd] in *.
  rewrite rev_involutive, H. reflexivity.
Qed.

(* a directory that was itself reported or dropped (calledFn set) on top *)
Lemma lz_push_called v A : vd_called v = true -> vd_skip v = false ->
  lz (v :: A) = (v :: lz_stack A, lz_em A, lz_ab A).
Proof.
  intros Hc Hs. unfold lz_stack, lz_em, lz_ab, lazy_parents. cbn [rev]. rewrite lazy_go_app.
  destruct (lazy_go mapfn (rev A)) as [[l em] ab]. cbn [fst snd].
  destruct ab.
  - rewrite rev_app_distr. reflexivity.
  - cbn [lazy_go]. rewrite Hs, Hc. rewrite rev_app_distr, app_nil_r. reflexivity.
Qed.

(* a directory the patterns do not select (calledFn, skipFn clear) on top *)
Lemma lz_push_pending v A : vd_called v = false -> vd_skip v = false ->
  lz (v :: A) =
  if lz_ab A then (v :: lz_stack A, lz_em A, true)
  else match mapfn (st_path (vd_stat v)) (vd_stat v) with
       | (MExclude, _) => (v :: lz_stack A, lz_em A, false)
       | (MSkipDir, _) => (set_skip v :: lz_stack A, lz_em A, true)
       | (MKeep, s') => (set_called v :: lz_stack A, lz_em A ++ [s'], false)
       end.
Proof.
  intros Hc Hs. unfold lz_stack, lz_em, lz_ab, lazy_parents. cbn [rev]. rewrite lazy_go_app.
  destruct (lazy_go mapfn (rev A)) as [[l em] ab]. cbn [fst snd].
  destruct ab.
  - rewrite rev_app_distr. reflexivity.
  - cbn [lazy_go]. rewrite Hs, Hc.
    destruct (mapfn (st_path (vd_stat v)) (vd_stat v)) as [[| |] s']; rewrite rev_app_distr; cbn [rev app]; rewrite ?app_nil_r; reflexivity.
Qed.

(* infos are never touched *)
Lemma lazy_go_infos l :
  map vd_inc (fst (fst (lazy_go mapfn l))) = map vd_inc l /\ map vd_exc (fst (fst (lazy_go mapfn l))) = map vd_exc l.
Proof.
  induction l as [|v r [IH1 IH2]]; [split; reflexivity|]. cbn [lazy_go].
  destruct (vd_skip v); [split; reflexivity|].
  destruct (vd_called v).
  - destruct (lazy_go mapfn r) as [[r' em] ab]. cbn [fst snd map] in *. split; congruence.
  - destruct (mapfn (st_path (vd_stat v)) (vd_stat v)) as [[| |] s'].
    + destruct (lazy_go mapfn r) as [[r' em] ab]. cbn [fst snd map set_called vd_inc vd_exc] in *. split; congruence.
    + destruct (lazy_go mapfn r) as [[r' em] ab]. cbn [fst snd map] in *. split; congruence.
    + split; reflexivity.
Qed.

Lemma lz_top_infos A : top_inc (lz_stack A) = top_inc A /\ top_exc (lz_stack A) = top_exc A.
Proof.
  unfold lz_stack, lazy_parents. destruct (lazy_go_infos (rev A)) as [H1 H2].
  destruct (lazy_go mapfn (rev A)) as [[l em] ab]. cbn [fst snd] in *.
  assert (E1 : map vd_inc (rev l) = map vd_inc A) by (rewrite map_rev, H1, map_rev, rev_involutive; reflexivity).
  assert (E2 : map vd_exc (rev l) = map vd_exc A) by (rewrite map_rev, H2, map_rev, rev_involutive; reflexivity).
  destruct (rev l) as [|x xs], A as [|y ys]; try discriminate; cbn in *; split; congruence.
Qed.
End Lazy.

(* ---------- unfolding of the reference ---------- *)
Section RefUnfold.
Variable V : bytes -> bool.
Variable mapfn : bytes -> stat -> mres * stat.

Definition ref_below (b isd : bool) (p : bytes) (kids : list node) : list stat * bool :=
  if isd then ref_forest V mapfn b p kids else ([], false).

Lemma ref_node_eq blocked dir name st0 ct kids :
  ref_node V mapfn blocked dir (Node name st0 ct kids) =
  let p := child_path dir name in
  let st := set_path st0 p in
  let isd := st_is_dir st0 in
  if V p then
    match fst (mapfn p st) with
    | MSkipDir => ([], false, negb isd)
    | MExclude => (fst (ref_below blocked isd p kids), snd (ref_below blocked isd p kids), false)
    | MKeep => ((if blocked then [] else [snd (mapfn p st)]) ++ fst (ref_below blocked isd p kids), true, false)
    end
  else
    let b' := blocked || match fst (mapfn p st) with MSkipDir => true | _ => false end in
    ((if snd (ref_below b' isd p kids) && negb blocked && match fst (mapfn p st) with MKeep => true | _ => false end
      then [snd (mapfn p st)] else []) ++ fst (ref_below b' isd p kids),
     snd (ref_below b' isd p kids), false).
Proof.
  cbn [ref_node]. cbv zeta.
  set (p := child_path dir name). set (st := set_path st0 p).
  assert (E : forall b l,
     (fix kids_go (l : list node) : list stat * bool :=
        match l with
        | [] => ([], false)
        | k :: r => let '(e, f, cut) := ref_node V mapfn b p k in
                    if cut then (e, f) else let '(e', f') := kids_go r in (e ++ e', f || f')
        end) l = ref_forest V mapfn b p l).
  { induction l as [|k r IH]; [reflexivity|]. cbn [ref_forest].
    destruct (ref_node V mapfn b p k) as [[e f] cut]. destruct cut; auto. rewrite IH. reflexivity. }
  unfold ref_below. destruct (mapfn p st) as [res st'']. cbn [fst snd].
  destruct (V p).
  - destruct res; auto.
    + destruct (st_is_dir st0); [rewrite E|]; [destruct (ref_forest V mapfn blocked p kids)|]; reflexivity.
    + destruct (st_is_dir st0); [rewrite E|]; [destruct (ref_forest V mapfn blocked p kids)|]; reflexivity.
  - destruct (st_is_dir st0); [rewrite E|].
    + destruct (ref_forest V mapfn _ p kids). reflexivity.
    + reflexivity.
Qed.

Lemma ref_blocked_node : forall n dir, fst (fst (ref_node V mapfn true dir n)) = [].
Proof.
  induction n as [name st ct kids IHk] using node_ind2. intros dir.
  rewrite ref_node_eq. cbv zeta.
  assert (Hf : forall p, fst (ref_forest V mapfn true p kids) = []).
  { intros p. clear -IHk. induction kids as [|k r IH]; [reflexivity|]. cbn [ref_forest].
    inversion IHk as [|? ? Hk Hr]; subst. specialize (Hk p).
    destruct (ref_node V mapfn true p k) as [[e f] cut]. cbn [fst] in Hk. subst e.
    destruct cut; [reflexivity|]. specialize (IH Hr). destruct (ref_forest V mapfn true p r). cbn [fst] in *. subst. reflexivity. }
  assert (Hb : forall isd p, fst (ref_below true isd p kids) = []).
  { intros isd p. unfold ref_below. destruct isd; [apply Hf|reflexivity]. }
  destruct (V _).
  - destruct (fst (mapfn _ _)); cbn [fst]; rewrite ?Hb; reflexivity.
  - cbn [orb negb andb fst]. rewrite andb_false_r. cbn [andb]. rewrite Hb. reflexivity.
Qed.

Lemma ref_blocked_forest l dir : fst (ref_forest V mapfn true dir l) = [].
Proof.
  induction l as [|k r IH]; [reflexivity|]. cbn [ref_forest].
  pose proof (ref_blocked_node k dir) as Hk.
  destruct (ref_node V mapfn true dir k) as [[e f] cut]. cbn [fst] in Hk. subst e.
  destruct cut; [reflexivity|]. destruct (ref_forest V mapfn true dir r). cbn [fst] in *. subst. reflexivity.
Qed.
End RefUnfold.

(* ---------- the un-pruned structural walk is the reference ---------- *)
Section Main.
Variable pmatch : bytes -> bytes -> bool.
Variable mapfn : bytes -> stat -> mres * stat.
Variable c : cfg.
Hypothesis Hnp : c_prune c = false.

Notation V := (keep_incr pmatch c).
Notation lzs := (lz_stack mapfn).
Notation lze := (lz_em mapfn).
Notation lza := (lz_ab mapfn).

Definition info_ok (dir : bytes) (A : list vdir) : Prop :=
  (forall pats, c_inc c = Some pats -> top_inc A = snd (incr_chain pmatch pats (pcomps dir))) /\
  (forall pats, c_exc c = Some pats -> top_exc A = snd (incr_chain pmatch pats (pcomps dir))).

Lemma info_ok_root : info_ok [] [].
Proof. split; intros; reflexivity. Qed.

Lemma info_ok_lz dir A : info_ok dir A -> info_ok dir (lzs A).
Proof. intros [H1 H2]. destruct (lz_top_infos mapfn A) as [E1 E2]. split; intros; [rewrite E1|rewrite E2]; auto. Qed.

Lemma info_ok_nomatch dir A : use_match c = false -> info_ok dir A.
Proof.
  unfold use_match. intros H. apply orb_false_iff in H. destruct H as [H1 H2].
  split; intros pats E; rewrite E in *; discriminate.
Qed.

Lemma pruned_false A p isd : pruned pmatch c A p isd = false.
Proof.
  unfold pruned, prune_inc, prune_exc. rewrite Hnp.
  destruct (c_inc c), (c_exc c); rewrite ?andb_false_r; reflexivity.
Qed.

Section Child.
Variables (dir : bytes) (A : list vdir) (name : bytes).
Hypothesis Hinfo : info_ok dir A.
Hypothesis Hne : name <> [].
Hypothesis Hns : nosep name.
Let p := child_path dir name.

Lemma eval_inc_chain pats : c_inc c = Some pats -> eval_inc pmatch c p A = incr_chain pmatch pats (pcomps p).
Proof.
  intros Hc. unfold eval_inc. rewrite Hc. unfold p. rewrite pcomps_child by auto.
  rewrite incr_chain_snoc. rewrite <- pcomps_child by auto. rewrite joinc_pcomps.
  destruct Hinfo as [H _]. rewrite (H pats Hc). reflexivity.
Qed.

Lemma eval_exc_chain pats : c_exc c = Some pats -> eval_exc pmatch c p A = incr_chain pmatch pats (pcomps p).
Proof.
  intros Hc. unfold eval_exc. rewrite Hc. unfold p. rewrite pcomps_child by auto.
  rewrite incr_chain_snoc. rewrite <- pcomps_child by auto. rewrite joinc_pcomps.
  destruct Hinfo as [_ H]. rewrite (H pats Hc). reflexivity.
Qed.

Lemma skip_V : is_skip pmatch c A p = negb (V p).
Proof.
  unfold is_skip, keep_incr. rewrite negb_andb, negb_involutive. f_equal.
  - destruct (c_inc c) as [pats|] eqn:Hc.
    + rewrite (eval_inc_chain pats Hc). reflexivity.
    + unfold eval_inc. rewrite Hc. reflexivity.
  - destruct (c_exc c) as [pats|] eqn:Hc.
    + rewrite (eval_exc_chain pats Hc). reflexivity.
    + unfold eval_exc. rewrite Hc. reflexivity.
Qed.

Lemma info_ok_push st X : info_ok p (new_dir pmatch c A p st :: X).
Proof.
  split; intros pats Hc; cbn [top_inc top_exc new_dir vd_inc vd_exc].
  - rewrite (eval_inc_chain pats Hc). reflexivity.
  - rewrite (eval_exc_chain pats Hc). reflexivity.
Qed.
End Child.

Lemma V_nomatch p : use_match c = false -> V p = true.
Proof.
  unfold use_match, keep_incr. intros H. apply orb_false_iff in H. destruct H as [H1 H2].
  destruct (c_inc c); [discriminate|]. destruct (c_exc c); [discriminate|]. reflexivity.
Qed.

Definition node_ok (A : list vdir) (rr : list stat * bool * bool) (sr : list vdir * list stat * bool) : Prop :=
  if snd (fst rr)
  then fst (fst sr) = lzs A /\ snd (fst sr) = lze A ++ fst (fst rr) /\ (lza A = false -> snd sr = snd rr)
  else fst (fst sr) = A /\ snd (fst sr) = [] /\ fst (fst rr) = [] /\ snd sr = snd rr.

Definition forest_ok (B : list vdir) (rr : list stat * bool) (sr : list vdir * list stat) : Prop :=
  if snd rr then fst sr = lzs B /\ snd sr = lze B ++ fst rr
  else fst sr = B /\ snd sr = [] /\ fst rr = [].

Lemma lz_parts A s e a : lazy_parents mapfn A = (s, e, a) -> lzs A = s /\ lze A = e /\ lza A = a.
Proof. intros H. unfold lz_stack, lz_em, lz_ab. rewrite H. auto. Qed.

Lemma lzs_idem A : lzs (lzs A) = lzs A.
Proof. unfold lz_stack at 1. rewrite lz_idem. reflexivity. Qed.
Lemma lze_idem A : lze (lzs A) = [].
Proof. unfold lz_em. rewrite lz_idem. reflexivity. Qed.
Lemma lza_idem A : lza (lzs A) = lza A.
Proof. unfold lz_ab at 1. rewrite lz_idem. reflexivity. Qed.

Lemma forest_of_nodes dir l :
  (forall k, In k l -> forall A, info_ok dir A ->
     node_ok A (ref_node V mapfn (lza A) dir k) (sw_node pmatch mapfn c A dir k)) ->
  forall B, info_ok dir B ->
  forest_ok B (ref_forest V mapfn (lza B) dir l) (sw_forest pmatch mapfn c B dir l).
Proof.
  induction l as [|k rest IH]; intros H B HB.
  - cbn [ref_forest sw_forest]. unfold forest_ok. cbn [fst snd]. auto.
  - cbn [ref_forest sw_forest].
    pose proof (H k (or_introl eq_refl) B HB) as Hk.
    assert (Hrest : forall B', info_ok dir B' ->
              forest_ok B' (ref_forest V mapfn (lza B') dir rest) (sw_forest pmatch mapfn c B' dir rest)).
    { apply IH. intros k' Hin. apply H. right; auto. }
    assert (Hbk : lza B = true -> fst (fst (ref_node V mapfn (lza B) dir k)) = [])
      by (intros E; rewrite E; apply ref_blocked_node).
    assert (Hbr : lza B = true -> fst (ref_forest V mapfn (lza B) dir rest) = [])
      by (intros E; rewrite E; apply ref_blocked_forest).
    destruct (ref_node V mapfn (lza B) dir k) as [[e f] cut'].
    destruct (sw_node pmatch mapfn c B dir k) as [[B1 em1] cut].
    unfold node_ok in Hk. cbn [fst snd] in Hk.
    destruct f.
    + destruct Hk as (-> & -> & Hcut).
      pose proof (Hrest (lzs B) (info_ok_lz dir B HB)) as Hr. rewrite lza_idem in Hr.
      destruct (lza B) eqn:Eab.
      * (* blocked: nothing more is reported, whatever is skipped *)
        cbn [fst] in Hbk. rewrite (Hbk eq_refl) in *. clear Hbk.
        destruct (ref_forest V mapfn true dir rest) as [e' f']. cbn [fst] in Hbr. rewrite (Hbr eq_refl) in *. clear Hbr.
        destruct (sw_forest pmatch mapfn c (lzs B) dir rest) as [B2 em2].
        unfold forest_ok in Hr. cbn [fst snd] in Hr. rewrite lzs_idem, lze_idem in Hr.
        assert (HB2 : B2 = lzs B /\ em2 = []) by (destruct f'; tauto). destruct HB2 as [-> ->].
        unfold forest_ok. destruct cut', cut; cbn [fst snd orb]; rewrite ?app_nil_r; auto.
      * specialize (Hcut eq_refl). subst cut'.
        destruct cut.
        -- unfold forest_ok. cbn [fst snd]. auto.
        -- destruct (ref_forest V mapfn false dir rest) as [e' f'].
           destruct (sw_forest pmatch mapfn c (lzs B) dir rest) as [B2 em2].
           unfold forest_ok in *. cbn [fst snd orb] in *. rewrite lzs_idem, lze_idem in Hr.
           destruct f'.
           ++ destruct Hr as [-> ->]. split; [reflexivity|]. cbn [app]. rewrite <- app_assoc. reflexivity.
           ++ destruct Hr as (-> & -> & ->). rewrite !app_nil_r. auto.
    + destruct Hk as (-> & -> & -> & ->).
      destruct cut'.
      * unfold forest_ok. cbn [fst snd]. auto.
      * specialize (Hrest B HB).
        destruct (ref_forest V mapfn (lza B) dir rest) as [e' f'].
        destruct (sw_forest pmatch mapfn c B dir rest) as [B2 em2].
        unfold forest_ok in *. cbn [fst snd orb app] in *. exact Hrest.
Qed.

Lemma ref_sim_node : forall n, wf_node n = true -> forall dir A, info_ok dir A ->
  node_ok A (ref_node V mapfn (lza A) dir n) (sw_node pmatch mapfn c A dir n).
Proof.
  induction n as [name st ct kids IHk] using node_ind2.
  intros Hwf dir A Hinfo. apply wf_node_inv in Hwf. destruct Hwf as (Hne & Hns & Hkids).
  rewrite ref_node_eq, sw_node_eq. cbv zeta.
  set (p := child_path dir name). set (st' := set_path st p). remember (st_is_dir st) as isd eqn:Eisd.
  pose proof (skip_V dir A name Hinfo Hne Hns) as Hskip. fold p in Hskip.
  pose proof (pruned_false A p isd) as Hpr.
  assert (Hf : forall B, info_ok p B ->
            forest_ok B (ref_forest V mapfn (lza B) p kids) (sw_forest pmatch mapfn c B p kids)).
  { apply forest_of_nodes. intros k Hin B HB. rewrite Forall_forall in IHk. apply IHk; auto.
    rewrite forallb_forall in Hkids. auto. }
  set (nd := new_dir pmatch c A p st').
  assert (Hnd_called : vd_called nd = V p).
  { unfold nd, new_dir. cbn [vd_called]. fold (is_skip pmatch c A p). rewrite Hskip. apply negb_involutive. }
  assert (Hnd_skip : vd_skip nd = false) by reflexivity.
  assert (Hnd_info : forall X, info_ok p (nd :: X)) by (intros X; apply info_ok_push; auto).
  assert (Hnd_map : mapfn (st_path (vd_stat nd)) (vd_stat nd) = mapfn p st') by reflexivity.
  destruct (V p) eqn:EV.
  - (* selected *)
    cbn [negb] in Hskip. rewrite (core_map pmatch mapfn c) by auto.
    destruct (mapfn p st') as [res st''] eqn:Em. cbn [fst snd].
    destruct res.
    + (* keep *)
      rewrite (lz_eta mapfn A). destruct (lza A) eqn:Eab.
      * cbn [r_skip r_stack r_em]. unfold node_ok. cbn [fst snd app].
        assert (Hb : fst (ref_below V mapfn true isd p kids) = []).
        { unfold ref_below. destruct isd; [apply ref_blocked_forest|reflexivity]. }
        rewrite Hb, app_nil_r. repeat split; auto. congruence.
      * cbn [r_skip r_stack r_em r_push]. unfold ref_below. destruct isd.
        -- unfold pushed, push_of. cbn [r_push r_stack andb]. fold nd.
           destruct (use_match c) eqn:Eu.
           ++ pose proof (Hf (nd :: lzs A) (Hnd_info _)) as HB.
              assert (Hlz : lazy_parents mapfn (nd :: lzs A) = (nd :: lzs A, [], false)).
              { rewrite lz_push_called by auto. rewrite lzs_idem, lze_idem, lza_idem, Eab. reflexivity. }
              destruct (lz_parts _ _ _ _ Hlz) as (E1 & E2 & E3).
              unfold forest_ok in HB. rewrite E1, E2, E3 in HB.
              destruct (ref_forest V mapfn false p kids) as [e f].
              destruct (sw_forest pmatch mapfn c (nd :: lzs A) p kids) as [a2 em2].
              unfold node_ok. cbn [fst snd app tl] in *. rewrite Eab.
              destruct f.
              ** destruct HB as [-> ->]. cbn [tl app]. rewrite <- app_assoc. repeat split; auto.
              ** destruct HB as (-> & -> & ->). cbn [tl]. rewrite <- app_assoc. repeat split; auto.
           ++ pose proof (Hf (lzs A) (info_ok_nomatch p _ Eu)) as HB.
              unfold forest_ok in HB. rewrite lzs_idem, lze_idem, lza_idem, Eab in HB.
              destruct (ref_forest V mapfn false p kids) as [e f].
              destruct (sw_forest pmatch mapfn c (lzs A) p kids) as [a2 em2].
              unfold node_ok. cbn [fst snd app tl] in *. rewrite Eab.
              destruct f.
              ** destruct HB as [-> ->]. rewrite <- app_assoc. repeat split; auto.
              ** destruct HB as (-> & -> & ->). rewrite <- app_assoc. repeat split; auto.
        -- unfold node_ok. cbn [fst snd app]. rewrite Eab. repeat split; auto.
    + (* exclude: dropped, contents still walked *)
      cbn [r_skip r_stack r_em r_push]. unfold ref_below. destruct isd.
      * unfold pushed, push_of. cbn [r_push r_stack andb]. fold nd.
        destruct (use_match c) eqn:Eu.
        -- pose proof (Hf (nd :: A) (Hnd_info _)) as HB.
           assert (Hlz : lazy_parents mapfn (nd :: A) = (nd :: lzs A, lze A, lza A)) by (apply lz_push_called; auto).
           destruct (lz_parts _ _ _ _ Hlz) as (E1 & E2 & E3).
           unfold forest_ok in HB. rewrite E1, E2, E3 in HB.
           destruct (ref_forest V mapfn (lza A) p kids) as [e f].
           destruct (sw_forest pmatch mapfn c (nd :: A) p kids) as [a2 em2].
           unfold node_ok. cbn [fst snd app tl] in *.
           destruct f.
           ++ destruct HB as [-> ->]. cbn [tl]. repeat split; auto.
           ++ destruct HB as (-> & -> & ->). cbn [tl]. repeat split; auto.
        -- pose proof (Hf A (info_ok_nomatch p _ Eu)) as HB.
           unfold forest_ok in HB.
           destruct (ref_forest V mapfn (lza A) p kids) as [e f].
           destruct (sw_forest pmatch mapfn c A p kids) as [a2 em2].
           unfold node_ok. cbn [fst snd app tl] in *.
           destruct f.
           ++ destruct HB as [-> ->]. repeat split; auto.
           ++ destruct HB as (-> & -> & ->). repeat split; auto.
      * unfold node_ok. cbn [fst snd]. repeat split; auto.
    + (* skipdir *)
      cbn [r_skip r_stack r_em]. unfold node_ok. cbn [fst snd]. repeat split; auto.
  - (* not selected *)
    cbn [negb] in Hskip. rewrite (core_skip pmatch mapfn c) by auto.
    cbn [r_skip r_stack r_em r_push].
    assert (Eu : use_match c = true).
    { destruct (use_match c) eqn:Eu; auto. rewrite (V_nomatch p Eu) in EV. discriminate. }
    unfold ref_below. destruct isd.
    + unfold pushed, push_of. cbn [r_push r_stack andb]. rewrite Eu. fold nd.
      pose proof (Hf (nd :: A) (Hnd_info _)) as HB.
      pose proof (lz_push_pending mapfn nd A Hnd_called Hnd_skip) as Hlz. rewrite Hnd_map in Hlz.
      unfold forest_ok in HB.
      destruct (mapfn p st') as [res st''] eqn:Em. cbn [fst snd].
      destruct (lza A) eqn:Eab.
      * destruct (lz_parts _ _ _ _ Hlz) as (E1 & E2 & E3). rewrite E1, E2, E3 in HB.
        cbn [fst snd orb negb andb] in *. rewrite andb_false_r. cbn [andb].
        destruct (ref_forest V mapfn true p kids) as [e f].
        destruct (sw_forest pmatch mapfn c (nd :: A) p kids) as [a2 em2].
        unfold node_ok. cbn [fst snd app tl] in *.
        destruct f.
        -- destruct HB as [-> ->]. cbn [tl]. repeat split; auto.
        -- destruct HB as (-> & -> & ->). cbn [tl]. repeat split; auto.
      * cbn [orb negb] in *. rewrite andb_true_r.
        destruct res; destruct (lz_parts _ _ _ _ Hlz) as (E1 & E2 & E3); rewrite E1, E2, E3 in HB.
        -- destruct (ref_forest V mapfn false p kids) as [e f].
           destruct (sw_forest pmatch mapfn c (nd :: A) p kids) as [a2 em2].
           unfold node_ok. cbn [fst snd app tl] in *. rewrite andb_true_r.
           destruct f.
           ++ destruct HB as [-> ->]. cbn [tl]. rewrite <- app_assoc. repeat split; auto.
           ++ destruct HB as (-> & -> & ->). cbn [tl]. repeat split; auto.
        -- destruct (ref_forest V mapfn false p kids) as [e f].
           destruct (sw_forest pmatch mapfn c (nd :: A) p kids) as [a2 em2].
           unfold node_ok. cbn [fst snd app tl] in *. rewrite andb_false_r.
           destruct f.
           ++ destruct HB as [-> ->]. cbn [tl]. repeat split; auto.
           ++ destruct HB as (-> & -> & ->). cbn [tl]. repeat split; auto.
        -- destruct (ref_forest V mapfn true p kids) as [e f].
           destruct (sw_forest pmatch mapfn c (nd :: A) p kids) as [a2 em2].
           unfold node_ok. cbn [fst snd app tl] in *. rewrite andb_false_r.
           destruct f.
           ++ destruct HB as [-> ->]. cbn [tl]. repeat split; auto.
           ++ destruct HB as (-> & -> & ->). cbn [tl]. repeat split; auto.
    + unfold node_ok. cbn [fst snd andb app]. repeat split; auto.
Qed.

Theorem sw_walk_reference view : wf_view view = true ->
  sw_walk pmatch mapfn c view = reference V mapfn view.
Proof.
  intros Hwf. unfold sw_walk, reference.
  assert (H : forest_ok [] (ref_forest V mapfn (lza []) [] view) (sw_forest pmatch mapfn c [] [] view)).
  { apply forest_of_nodes; [|apply info_ok_root]. intros k Hin A HA. apply ref_sim_node; auto.
    unfold wf_view in Hwf. rewrite forallb_forall in Hwf. auto. }
  change (lza []) with false in H. unfold forest_ok in H.
  destruct (ref_forest V mapfn false [] view) as [e f]. destruct (sw_forest pmatch mapfn c [] [] view) as [B em].
  cbn [fst snd] in *. destruct f.
  - destruct H as [_ ->]. reflexivity.
  - destruct H as (_ & -> & ->). reflexivity.
Qed.

End Main.

(* for the walk as the code runs it *)
Theorem filter_walk_reference_proof pmatch mapfn c view : wf_view view = true ->
  filter_walk pmatch mapfn (no_prune c) view = reference (keep_incr pmatch c) mapfn view.
Proof.
  intros Hwf. rewrite filter_walk_structural by auto.
  rewrite (sw_walk_reference pmatch mapfn (no_prune c) eq_refl view Hwf). reflexivity.
Qed.
