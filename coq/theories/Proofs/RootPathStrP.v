(* C14 — string facts used by the RootPath proofs: filepath.Join / Clean on rendered
   component lists, and the parsing of a rendered path by Fs.resolve. *)
From Coq Require Import List NArith Lia Bool.
From FS Require Import Sx Model.Path Model.Fs Model.RootPath Proofs.Lex Proofs.PathP.
Import ListNotations.
Open Scope N_scope.
Open Scope bool_scope.

(* a name: what [name_ok] decides *)
Definition nm (x : bytes) : Prop := normal x /\ nosep x.

Lemma forallb_nosep x : forallb (fun b => negb (N.eqb b sep)) x = true <-> nosep x.
Proof.
  unfold nosep. induction x as [|a x IH]; simpl.
  - split; auto.
  - rewrite andb_true_iff, IH. split.
    + intros [H1 H2] [E|H]; [subst; rewrite N.eqb_refl in H1; discriminate|auto].
    + intros H. split; [|intro; apply H; auto].
      destruct (N.eqb a sep) eqn:E; auto. apply N.eqb_eq in E. exfalso. apply H. auto.
Qed.

Lemma lex_name_ok_nm x : lex_name_ok x = true <-> nm x.
Proof.
  unfold lex_name_ok, nm, normal. rewrite !andb_true_iff, !negb_true_iff, !bytes_eqb_neq, forallb_nosep.
  destruct x; simpl; intuition congruence.
Qed.

Lemma forallb_lex_name_ok cs : forallb lex_name_ok cs = true <-> Forall nm cs.
Proof. rewrite forallb_forall, Forall_forall. split; intros H x Hx; apply lex_name_ok_nm; auto. Qed.

(* no NUL byte *)
Definition nonul (x : bytes) : Prop := has_nul x = false.

Lemma forallb_name_ok cs : forallb name_ok cs = true <-> Forall nm cs /\ Forall nonul cs.
Proof.
  rewrite forallb_forall, !Forall_forall. unfold name_ok, nonul. split.
  - intros H. split; intros x Hx; specialize (H x Hx); apply andb_true_iff in H; destruct H as [H1 H2].
    + apply lex_name_ok_nm; auto.
    + apply negb_true_iff; auto.
  - intros [H1 H2] x Hx. apply andb_true_iff. split; [apply lex_name_ok_nm; auto|].
    apply negb_true_iff. apply H2; auto.
Qed.

Lemma has_nul_app a b : has_nul (a ++ b) = has_nul a || has_nul b.
Proof. unfold has_nul. apply existsb_app. Qed.

Lemma has_nul_joinc cs : has_nul (joinc cs) = existsb has_nul cs.
Proof.
  induction cs as [|c cs IH]; [reflexivity|].
  destruct cs as [|d cs].
  - simpl. rewrite orb_false_r. reflexivity.
  - rewrite joinc_cons by discriminate. rewrite has_nul_app.
    change (has_nul (sep :: joinc (d :: cs))) with (has_nul (joinc (d :: cs))).
    rewrite IH. reflexivity.
Qed.

Lemma has_nul_render cs : has_nul (render cs) = false <-> Forall nonul cs.
Proof.
  unfold render. change (has_nul (sep :: joinc cs)) with (has_nul (joinc cs)).
  rewrite has_nul_joinc. unfold nonul. induction cs as [|c cs IH]; simpl.
  - split; auto.
  - rewrite orb_false_iff, IH. split.
    + intros [H1 H2]. constructor; auto.
    + intros H. inversion H; auto.
Qed.

Lemma nm_nonempty x : nm x -> x <> []. Proof. intros [[H _] _]; auto. Qed.

Lemma Forall_nm_normal cs : Forall nm cs -> Forall normal cs.
Proof. apply Forall_impl. intros a [H _]; auto. Qed.
Lemma Forall_nm_nosep cs : Forall nm cs -> Forall nosep cs.
Proof. apply Forall_impl. intros a [_ H]; auto. Qed.

(* ---- comps of a concatenation ---- *)
Lemma comps_app_sep_gen a b : comps (a ++ sep :: b) = comps a ++ comps b.
Proof.
  induction a as [|x a IH].
  - reflexivity.
  - simpl app. destruct (N.eqb x sep) eqn:E.
    + simpl. rewrite E. rewrite IH. reflexivity.
    + rewrite !comps_unfold_nosep by auto. rewrite IH.
      destruct (comps a) as [|c cs] eqn:Ea; [exfalso; eapply comps_nonempty; eauto|reflexivity].
Qed.

Lemma cstep_nil rooted stk : cstep rooted stk [] = stk. Proof. reflexivity. Qed.

(* the stack Clean builds for an absolute path *)
Definition stk_from (stk : list bytes) (s : bytes) : list bytes := fold_left (cstep true) (comps s) stk.

Lemma clean_abs s : clean (sep :: s) = render (rev (stk_from [] s)).
Proof.
  unfold clean, render, stk_from. cbn [is_abs]. rewrite N.eqb_refl.
  change (sep :: s) with ([] ++ sep :: s). rewrite comps_app_sep_gen. reflexivity.
Qed.

Lemma stk_from_app stk a b : stk_from stk (a ++ sep :: b) = stk_from (stk_from stk a) b.
Proof. unfold stk_from. rewrite comps_app_sep_gen, fold_left_app. reflexivity. Qed.

Lemma stk_from_joinc stk cs : Forall nm cs -> stk_from stk (joinc cs) = rev cs ++ stk.
Proof.
  intros H. unfold stk_from. destruct cs as [|c cs].
  - reflexivity.
  - rewrite comps_joinc by (try discriminate; apply Forall_nm_nosep; auto).
    apply fold_cstep_normal. apply Forall_nm_normal; auto.
Qed.

Lemma stk_from_render stk cs : Forall nm cs -> stk_from stk (render cs) = rev cs ++ stk.
Proof.
  intros H. unfold render. change (sep :: joinc cs) with ([] ++ sep :: joinc cs).
  rewrite stk_from_app. change (stk_from stk []) with stk. apply stk_from_joinc; auto.
Qed.

Lemma stk_from_single stk x : nosep x -> stk_from stk x = cstep true stk x.
Proof. intros H. unfold stk_from. rewrite comps_nosep_single by auto. reflexivity. Qed.

Lemma render_nonempty cs : render cs <> []. Proof. discriminate. Qed.

Lemma clean_render cs : Forall nm cs -> clean (render cs) = render cs.
Proof.
  intros H. unfold render at 1. rewrite clean_abs, stk_from_joinc by auto.
  rewrite app_nil_r, rev_involutive. reflexivity.
Qed.

(* Join(render a, t) *)
Lemma join2_render a t : Forall nm a ->
  join2 (render a) t = render (rev (stk_from (rev a) t)).
Proof.
  intros H. unfold join2. unfold render at 1.
  destruct t as [|b t].
  - fold (render a). rewrite clean_render by auto. unfold stk_from. cbn [comps fold_left].
    rewrite cstep_nil, rev_involutive. reflexivity.
  - change (clean ((sep :: joinc a) ++ sep :: b :: t) = render (rev (stk_from (rev a) (b :: t)))).
    change ((sep :: joinc a) ++ sep :: b :: t) with (sep :: (joinc a ++ sep :: b :: t)).
    rewrite clean_abs, stk_from_app, stk_from_joinc by auto. rewrite app_nil_r. reflexivity.
Qed.

(* Join("/", t) *)
Lemma join2_root t : join2 [sep] t = render (rev (stk_from [] t)).
Proof. apply (join2_render [] t). constructor. Qed.

(* the stack stays a stack of names *)
Lemma cstep_nm stk x : Forall nm stk -> nosep x -> Forall nm (cstep true stk x).
Proof.
  intros Hs Hx. unfold cstep.
  destruct (bytes_eqb x []) eqn:E1; [auto|]. destruct (bytes_eqb x s_dot) eqn:E2; [auto|]. simpl.
  destruct (bytes_eqb x s_dotdot) eqn:E3.
  - destruct stk as [|t r]; auto. inversion Hs; subst.
    destruct (bytes_eqb t s_dotdot) eqn:E4; auto.
    apply bytes_eqb_eq in E4. destruct H1 as [(_ & _ & H) _]. congruence.
  - constructor; auto. apply bytes_eqb_neq in E1, E2, E3. repeat split; auto.
Qed.

Lemma stk_from_nm stk s : Forall nm stk -> Forall nm (stk_from stk s).
Proof.
  unfold stk_from. intros H. pose proof (comps_all_nosep s) as Hc.
  revert stk H. induction Hc as [|x cs Hx _ IH]; intros stk H; [exact H|].
  simpl. apply IH. apply cstep_nm; auto.
Qed.

(* what cstep does to a stack of names *)
Lemma cstep_cases stk x : Forall nm stk -> nosep x ->
  (cstep true stk x = stk) \/ (cstep true stk x = tl stk) \/ (nm x /\ cstep true stk x = x :: stk).
Proof.
  intros Hs Hx. unfold cstep.
  destruct (bytes_eqb x []) eqn:E1; [auto|]. destruct (bytes_eqb x s_dot) eqn:E2; [auto|]. simpl.
  destruct (bytes_eqb x s_dotdot) eqn:E3.
  - destruct stk as [|t r]; auto. inversion Hs; subst.
    destruct (bytes_eqb t s_dotdot) eqn:E4; auto.
    apply bytes_eqb_eq in E4. destruct H1 as [(_ & _ & H) _]. congruence.
  - right; right. apply bytes_eqb_neq in E1, E2, E3. repeat split; auto.
Qed.

Lemma joinc_names_nonempty cs : Forall nm cs -> cs <> [] -> joinc cs <> [].
Proof.
  intros H Hne E. apply joinc_nil_iff in E; auto.
  eapply Forall_impl; [|exact H]. intros a Ha. apply nm_nonempty; auto.
Qed.

Lemma render_eq_sep cs : Forall nm cs -> bytes_eqb (render cs) [sep] = true <-> cs = [].
Proof.
  intros H. rewrite bytes_eqb_eq. split.
  - intros E. destruct cs as [|c cs]; auto. exfalso.
    apply (joinc_names_nonempty (c :: cs)); auto; [discriminate|]. unfold render in E. congruence.
  - intros ->. reflexivity.
Qed.

Lemma render_inj a b : Forall nm a -> Forall nm b -> render a = render b -> a = b.
Proof.
  intros Ha Hb E. unfold render in E. injection E as E.
  destruct a as [|x a], b as [|y b]; auto.
  - exfalso. symmetry in E. revert E. apply joinc_names_nonempty; auto. discriminate.
  - exfalso. revert E. apply joinc_names_nonempty; auto. discriminate.
  - rewrite <- (comps_joinc (x :: a)), <- (comps_joinc (y :: b)), E; auto using Forall_nm_nosep; discriminate.
Qed.

(* ---- how Fs.resolve parses a rendered path ---- *)
Lemma filter_all_id {A} (p : A -> bool) l : (forall x, In x l -> p x = true) -> filter p l = l.
Proof.
  induction l as [|a l IH]; intros H; [reflexivity|]. simpl. rewrite (H a) by (left; auto).
  rewrite IH; auto. intros x Hx. apply H. right; auto.
Qed.

Lemma pcs_render cs : Forall nm cs -> pcs (render cs) = cs.
Proof.
  intros H. unfold pcs, render. change (sep :: joinc cs) with ([] ++ sep :: joinc cs).
  rewrite comps_app_sep_gen. simpl.
  destruct cs as [|c cs]; [reflexivity|].
  rewrite comps_joinc by (try discriminate; apply Forall_nm_nosep; auto).
  apply filter_all_id. intros x Hx.
  rewrite Forall_forall in H. specialize (H x Hx). apply nm_nonempty in H. destruct x; auto; congruence.
Qed.

Lemma ends_with_sep_snoc q b : ends_with_sep (q ++ [b]) = N.eqb b sep.
Proof. unfold ends_with_sep. rewrite rev_unit. reflexivity. Qed.

Lemma ends_with_sep_render cs : Forall nm cs -> cs <> [] -> ends_with_sep (render cs) = false.
Proof.
  intros H Hne. destruct (exists_last Hne) as (d & c & ->).
  apply Forall_app in H. destruct H as [_ Hc]. inversion Hc as [|? ? Hc1 _]; subst.
  destruct (exists_last (nm_nonempty _ Hc1)) as (c' & b & ->).
  assert (Hb : N.eqb b sep = false).
  { apply N.eqb_neq. intros ->. destruct Hc1 as [_ Hns]. apply Hns. apply in_or_app. right. left. reflexivity. }
  unfold render. destruct d as [|x d].
  - simpl joinc. change (sep :: c' ++ [b]) with ((sep :: c') ++ [b]). rewrite ends_with_sep_snoc. exact Hb.
  - rewrite joinc_snoc by discriminate.
    replace (sep :: joinc (x :: d) ++ sep :: c' ++ [b]) with ((sep :: joinc (x :: d) ++ sep :: c') ++ [b]).
    + rewrite ends_with_sep_snoc. exact Hb.
    + simpl. rewrite <- app_assoc. reflexivity.
Qed.

(* ---- lstat of a rendered path ---- *)
Lemma resolve_render c f cs fl : Forall nm cs -> Forall nonul cs -> cs <> [] ->
  resolve c f (render cs) fl = walk rfuel f (c_root c) (c_root c) cs fl 0.
Proof.
  intros H Hnul Hne. unfold resolve. unfold render at 1.
  apply has_nul_render in Hnul. fold (render cs). rewrite Hnul. unfold render at 1.
  rewrite ends_with_sep_render by auto. rewrite pcs_render by auto.
  unfold render. cbn [is_abs]. rewrite N.eqb_refl. rewrite orb_false_r.
  destruct (walk rfuel f (c_root c) (c_root c) cs fl 0); reflexivity.
Qed.

