From Coq Require Import List Arith Bool PeanoNat Lia ZifyBool.
From FS Require Import Model.Lts Model.LtsExplore Proofs.LtsInv Proofs.LtsSafe Proofs.LtsTerm Proofs.LtsC08 Proofs.LtsTok Proofs.LtsContent Proofs.LtsContent2 Proofs.LtsContent3.
From FS Require Import Proofs.LtsClean1 Proofs.LtsClean2.
Import ListNotations.

Definition wf_params (p : params) : Prop := forall i, kind_of p i = ENeed -> is_file p i = true.

Lemma cnt_pos_memb : forall id l, 1 <= cnt id l -> memb id l = true.
Proof.
  intros id l H. unfold cnt in H. induction l; cbn in H; [lia|].
  rewrite memb_cons. destruct (Nat.eqb id a); cbn in *; auto.
Qed.

Lemma wsum_pos_exists : forall c id l, 1 <= sumf (wsel c id) l ->
  exists j w, nth_error l j = Some w /\ wr_id w = id.
Proof.
  induction l; intro H; [unfold sumf in H; cbn in H; lia|].
  unfold sumf in H; cbn [fold_right] in H.
  destruct (wsel c id a) eqn:E.
  - destruct IHl as (j & w & A & B); [exact H|]. exists (S j), w. auto.
  - exists 0, a. split; auto. unfold wsel in E. destruct (Nat.eqb_spec id (wr_id a)); auto. discriminate.
Qed.

(* a writer's id lies below what the receive loop has counted, and the walker has registered it *)
Lemma writer_id_bounds : forall p st id,
  scal st -> inv3 st -> inv9a st -> inv_rs st -> inv7a p st ->
  (exists j w, nth_error (wrs st) j = Some w /\ wr_id w = id) ->
  kind_of p id = ENeed /\ id < rl_i st /\ id < sw_bound st.
Proof.
  intros p st id K J3 (I91 & I92 & _) Irs I7 (j & w & E & Eid).
  destruct K. destruct J3 as (_ & _ & _ & _ & _ & _ & _ & B8).
  assert (In id (wr_ids st)) by (unfold wr_ids; subst id; apply in_map; eapply nth_error_In; eauto).
  apply I92 in H. split; [subst id; eapply I7; eauto|].
  assert (dl_bound st <= dl_i st).
  { clear - I91. unfold dl_bound. destruct (dl_pc st); try apply Nat.le_refl. rewrite I91. apply Nat.le_succ_diag_r. }
  assert (rl_i st = rl_holds st + walk_n st + fl_holds st + c2_n st + dl_i st).
  { apply B8; auto; try (destruct (fl_pc st) as [| |[]|[]|]; auto). }
  unfold inv_rs in Irs. unfold sw_bound. clear - H H0 H1 Irs. destruct (sw_pc st); lia.
Qed.

Section Protocol.
  Variables (p : params) (st : state).
  Hypothesis WF : wf_params p.
  Hypothesis K : scal st.
  Hypothesis J3 : inv3 st.
  Hypothesis I9 : inv9a st.
  Hypothesis Irs : inv_rs st.
  Hypothesis I7 : inv7a p st.
  Hypothesis TK : tokinv st.
  Hypothesis WQ : forall id, wq p id st.
  Hypothesis CI : forall id, cinv p id st.
  Hypothesis NI : forall id, kind_of p id <> ENeed -> ninv id st.

  Lemma proto_start : forall j id, nth_error (wrs st) j = Some {| wr_id := id; wr_pc := WR_Start |} ->
    memb id (rfiles st) = true.
  Proof.
    intros j id E. destruct (WQ id) as [Wu _ _ _ WR _ _ _].
    destruct (writer_id_bounds p st id K J3 I9 Irs I7) as (Kd & Lt & _); [eauto|].
    pose proof (sumf_ge_nth _ (wsel cS id) _ _ _ E) as Y.
    assert (V: wsel cS id {| wr_id := id; wr_pc := WR_Start |} = 1) by (unfold wsel; cbn; rewrite Nat.eqb_refl; reflexivity).
    rewrite V in Y.
    unfold wsum in *. rewrite wsum_split in Wu. apply cnt_pos_memb.
    rewrite (WF _ Kd) in WR. apply Nat.ltb_lt in Lt. rewrite Lt in WR. cbn in WR. lia.
  Qed.

  Lemma proto_req : forall id l, buf_rs st = PReq id :: l -> memb id (sfiles st) = true.
  Proof.
    intros id l E. destruct (WQ id) as [Wu _ WS WQ' _ _ _ _]. unfold wsum in *.
    rewrite wsum_split in Wu. rewrite E, cntQ_cons in WQ'. cbn in WQ'. rewrite Nat.eqb_refl in WQ'. cbn in WQ'.
    assert (X: 1 <= sumf (wsel cAll id) (wrs st)) by (rewrite wsum_split; lia).
    destruct (writer_id_bounds p st id K J3 I9 Irs I7 (wsum_pos_exists _ _ _ X)) as (Kd & _ & Lt).
    rewrite (WF _ Kd) in WS. apply Nat.ltb_lt in Lt. rewrite Lt in WS. cbn in WS.
    apply cnt_pos_memb. unfold tok, down in *. lia.
  Qed.

  Lemma proto_dataend : forall id l, buf_sr st = PDataEnd id :: l -> memb id (pipes st) = true.
  Proof.
    intros id l E. destruct (WQ id) as [_ _ _ WQ' _ WP WC _]. destruct TK as [_ T2]. specialize (T2 id).
    unfold wsum, tok, down in *. rewrite E, cntE_cons in *. cbn in *. rewrite Nat.eqb_refl in *. cbn in *.
    apply cnt_pos_memb. lia.
  Qed.

  Lemma proto_data : forall id l, buf_sr st = PData id :: l -> memb id (pipes st) = true.
  Proof.
    intros id l E. destruct (kind_of p id) eqn:Kd.
    1,2: (exfalso; assert (N: kind_of p id <> ENeed) by congruence; destruct (NI id N) as [Nw _];
          unfold Wc, Fc in Nw; rewrite E, cntD_cons in Nw; cbn in Nw; rewrite Nat.eqb_refl in Nw; cbn in Nw; lia).
    destruct (WQ id) as [_ _ WS WQ' _ WP WC _]. destruct TK as [_ T2]. specialize (T2 id).
    destruct (CI id) as [Za _ _ _ Ne _].
    unfold wsum, tok, down, Wc, Fc, early, latec in *. rewrite E, cntD_cons in *. cbn in *. rewrite Nat.eqb_refl in *. cbn in *.
    rewrite (WF _ Kd) in WS. cbn in WS.
    apply cnt_pos_memb. destruct (Nat.ltb_spec id (sw_bound st)); change b2n with Nat.b2n in *; lia.
  Qed.
End Protocol.

(* ---------- FIN bookkeeping (holds in every reachable state) ---------- *)
Definition inv_fin (st : state) : Prop :=
  (sr_closed st = true -> send_ret st <> None) /\
  (g_fin_sr st = true -> has_fin (buf_sr st) = true \/ g_got_fin_r st = true).

Lemma inv_fin_step : forall p st l st', inv1 st -> inv_fin st -> step p st l = Some st' -> inv_fin st'.
Proof.
  intros p st l st' J1 (A & B) H. unfold inv_fin.
  destruct J1 as (_ & _ & _ & _ & _ & _ & _ & _ & J9 & _).
  destruct l; unfold_steps H; step_split H; inv_some; subst;
  repeat match goal with w : writer |- _ => destruct w; cbn in * end; subst; cbn;
  repeat match goal with E : buf_sr _ = _ |- _ => rewrite E in * end;
  unfold has_fin in *; rewrite ?existsb_app in *; cbn in *; rewrite ?orb_false_r, ?orb_true_r in *;
  split; intros; auto; try congruence; try (destruct (send_ret st); [discriminate | discriminate]);
  try (intuition congruence).
  all: try (right; match goal with E : rl_pc _ = RL_Drain |- _ => rewrite E in J9; exact J9 end).
Qed.

Lemma inv_fin_reachable : forall p st, reachable p st -> inv_fin st.
Proof.
  induction 1.
  - split; cbn; intro X; discriminate X.
  - eapply inv_fin_step; eauto. apply (inv_reachable _ _ H).
Qed.
