(* Replay does not depend on the order in which notifications arrive, as long as a
   notification never arrives before a notification for one of its ancestors
   ("ancestors first").  Every real schedule has that shape: notifications emitted inside
   HandleChange come in path order (ancestors sort first), and the notification of a regular
   file comes from a goroutine started by its own HandleChange call, i.e. after the
   notifications of all its ancestor directories.

   Key idea: what replay leaves at a path p is a function of the sub-list of notifications at
   p or above p ([chain p]); two lists with the same chains replay alike. *)
From Coq Require Import List NArith Lia Bool Sorting.Sorted Sorting.Permutation.
From FS Require Import Sx Model.Path Model.Stat Model.Diff Model.AbsDest
  Proofs.Lex Proofs.PathP Proofs.DiffP Proofs.AbsDestP.
Import ListNotations.
Open Scope N_scope.
Open Scope bool_scope.

Definition npath (n : notif) : bytes := snd (fst n).

(* ---------------------------------------------------------------- prefixes *)
Lemma app_eq_prefix (a b c e : bytes) : a ++ b = c ++ e -> exists t, a = c ++ t \/ c = a ++ t.
Proof.
  revert c; induction a as [|x a IH]; intros c Hq.
  - exists c. right. reflexivity.
  - destruct c as [|y c].
    + exists (x :: a). left. reflexivity.
    + simpl in Hq. inversion Hq; subst. destruct (IH c H1) as [t [->| ->]]; exists t; auto.
Qed.

Lemma at_or_below_refl p : at_or_below p p = true.
Proof. unfold at_or_below. rewrite bytes_eqb_refl. reflexivity. Qed.

Lemma at_or_below_trans a b c : at_or_below a b = true -> at_or_below b c = true -> at_or_below a c = true.
Proof.
  rewrite !at_or_below_iff. intros [->|H1] [->|H2]; auto. right. eapply above_trans; eauto.
Qed.

(* two paths at or above the same path are comparable *)
Lemma at_or_below_comparable q1 q2 p :
  at_or_below q1 p = true -> at_or_below q2 p = true ->
  at_or_below q1 q2 = true \/ at_or_below q2 q1 = true.
Proof.
  rewrite !at_or_below_iff, !above_iff.
  intros [->|[r1 E1]] [->|[r2 E2]].
  - left. left. reflexivity.
  - right. right. eauto.
  - left. right. eauto.
  - assert (Hq : q1 ++ sep :: r1 = q2 ++ sep :: r2) by congruence.
    destruct (app_eq_prefix _ _ _ _ Hq) as [t [Ht|Ht]].
    + (* q1 = q2 ++ t *)
      destruct t as [|x t]; [left; left; rewrite app_nil_r in Ht; auto|].
      right. right. rewrite Ht, <- app_assoc in Hq. apply app_inv_head in Hq. simpl in Hq.
      inversion Hq; subst x. exists t. exact Ht.
    + destruct t as [|x t]; [left; left; rewrite app_nil_r in Ht; auto|].
      left. right. rewrite Ht, <- app_assoc in Hq. apply app_inv_head in Hq. simpl in Hq.
      inversion Hq; subst x. exists t. exact Ht.
Qed.

Lemma above_irrefl p : above p p = false.
Proof.
  destruct (above p p) eqn:E; auto. apply above_lt in E. rewrite compare_path_refl in E. discriminate.
Qed.

Lemma above_asym p q : above p q = true -> above q p = true -> False.
Proof. intros H1 H2. apply above_lt in H1, H2. eapply compare_path_asym; eauto. Qed.

(* ---------------------------------------------------------------- one step, by lookups *)
Definition flips (M : nmap) (q : bytes) (st : stat) : bool :=
  match alookup q M with
  | Some (old, _) => negb (Bool.eqb (st_is_dir old) (st_is_dir st))
  | None => false
  end.

Definition step_lookup (M : nmap) (n : notif) (p : bytes) : option (stat * bytes) :=
  match n with
  | (KDelete, q, _) => if at_or_below q p then None else alookup p M
  | (_, q, Some (st, dg)) =>
      if bytes_eqb q p then Some (st, dg)
      else if flips M q st && at_or_below q p then None else alookup p M
  | (_, _, None) => alookup p M
  end.

Lemma replay_step_lookup M n p : alookup p (replay_step M n) = step_lookup M n p.
Proof.
  destruct n as [[k q] [[st dg]|]].
  - assert (Hbody : alookup p (aset q (st, dg)
              match alookup q M with
              | Some (old, _) => if Bool.eqb (st_is_dir old) (st_is_dir st) then M
                                 else aremove_if (at_or_below q) M
              | None => M
              end) =
            (if bytes_eqb q p then Some (st, dg)
             else if flips M q st && at_or_below q p then None else alookup p M)).
    { rewrite alookup_aset. destruct (bytes_eqb q p); auto. unfold flips.
      destruct (alookup q M) as [[old dg0]|]; auto.
      destruct (Bool.eqb (st_is_dir old) (st_is_dir st)); simpl; auto.
      rewrite alookup_aremove_if. reflexivity. }
    destruct k; simpl; auto. apply alookup_aremove_if.
  - destruct k; simpl; auto. apply alookup_aremove_if.
Qed.

(* ---------------------------------------------------------------- chains *)
Definition in_chain (p : bytes) (n : notif) : bool := at_or_below (npath n) p.
Definition chain (p : bytes) (ns : list notif) : list notif := filter (in_chain p) ns.

(* two views agree at p and everywhere above p *)
Definition agree (p : bytes) (M1 M2 : nmap) : Prop :=
  forall q, at_or_below q p = true -> alookup q M1 = alookup q M2.

Lemma step_agree_in p M1 M2 n :
  agree p M1 M2 -> in_chain p n = true -> agree p (replay_step M1 n) (replay_step M2 n).
Proof.
  intros Ha Hn q Hq. rewrite !replay_step_lookup. unfold in_chain in Hn.
  destruct n as [[k x] [[st dg]|]]; unfold npath in Hn; simpl in Hn.
  - assert (Hf : flips M1 x st = flips M2 x st) by (unfold flips; rewrite (Ha x Hn); reflexivity).
    destruct k; simpl; rewrite ?Hf, (Ha q Hq); reflexivity.
  - destruct k; simpl; rewrite (Ha q Hq); reflexivity.
Qed.

Lemma step_agree_out p M1 M2 n :
  agree p M1 M2 -> in_chain p n = false -> agree p (replay_step M1 n) M2.
Proof.
  intros Ha Hn q Hq. rewrite replay_step_lookup, <- (Ha q Hq). unfold in_chain in Hn.
  assert (Hx : at_or_below (npath n) q = false).
  { destruct (at_or_below (npath n) q) eqn:E; auto.
    rewrite (at_or_below_trans _ _ _ E Hq) in Hn. discriminate. }
  destruct n as [[k x] [[st dg]|]]; unfold npath in Hx; simpl in Hx.
  - assert (Hb : bytes_eqb x q = false).
    { unfold at_or_below in Hx. apply orb_false_iff in Hx. tauto. }
    destruct k; simpl; rewrite ?Hb, ?Hx, ?andb_false_r; reflexivity.
  - destruct k; simpl; rewrite ?Hx; reflexivity.
Qed.

Lemma replay_chain p : forall ns M1 M2,
  agree p M1 M2 -> agree p (replay ns M1) (replay (chain p ns) M2).
Proof.
  induction ns as [|n ns IH]; intros M1 M2 Ha; [exact Ha|].
  unfold replay, chain in *. simpl. destruct (in_chain p n) eqn:E; simpl.
  - apply IH. apply step_agree_in; auto.
  - apply IH. apply step_agree_out; auto.
Qed.

Theorem replay_same_chains ns ns' :
  (forall p, chain p ns' = chain p ns) ->
  forall M p, alookup p (replay ns' M) = alookup p (replay ns M).
Proof.
  intros Hc M p.
  rewrite (replay_chain p ns' M M (fun _ _ => eq_refl) p (at_or_below_refl p)).
  rewrite (replay_chain p ns M M (fun _ _ => eq_refl) p (at_or_below_refl p)).
  rewrite Hc. reflexivity.
Qed.

(* ---------------------------------------------------------------- ancestors first *)
(* no notification is followed by a notification for one of its ancestors *)
Fixpoint ancestors_first (ns : list notif) : Prop :=
  match ns with
  | [] => True
  | m :: r => (forall x, In x r -> above (npath x) (npath m) = false) /\ ancestors_first r
  end.

Definition nabove (x y : notif) : Prop := above (npath x) (npath y) = true.

Lemma filter_perm {X} (f : X -> bool) l l' : Permutation l l' -> Permutation (filter f l) (filter f l').
Proof.
  induction 1; simpl.
  - constructor.
  - destruct (f x); auto.
  - destruct (f x), (f y); auto. apply perm_swap.
  - eapply perm_trans; eauto.
Qed.

Lemma chain_sorted p ns :
  NoDup (map npath ns) -> ancestors_first ns -> StronglySorted nabove (chain p ns).
Proof.
  induction ns as [|m r IH]; intros Hnd Haf; simpl; [constructor|].
  inversion Hnd as [|? ? Hnotin Hnd']; subst. destruct Haf as [Hm Haf].
  unfold chain in *. simpl. destruct (in_chain p m) eqn:Em; [|apply IH; auto].
  constructor; [apply IH; auto|]. apply Forall_forall. intros x Hx. apply filter_In in Hx.
  destruct Hx as [Hxr Hxp]. unfold in_chain in *.
  destruct (at_or_below_comparable _ _ _ Em Hxp) as [Hc|Hc]; apply at_or_below_iff in Hc.
  - destruct Hc as [Hc|Hc]; [|exact Hc]. exfalso. apply Hnotin. rewrite Hc. apply (in_map npath); auto.
  - destruct Hc as [Hc|Hc].
    + exfalso. apply Hnotin. rewrite <- Hc. apply (in_map npath); auto.
    + rewrite (Hm x Hxr) in Hc. discriminate.
Qed.

(* a permutation of a list sorted by a relation without 2-cycles, itself sorted, is the list *)
Lemma sorted_perm_eq {X} (R : X -> X -> Prop) :
  (forall x, ~ R x x) -> (forall x y, R x y -> R y x -> False) ->
  forall l l', StronglySorted R l -> StronglySorted R l' -> Permutation l l' -> l = l'.
Proof.
  intros Hirr Hasym. induction l as [|a l IH]; intros l' S S' HP.
  - apply Permutation_nil in HP. auto.
  - destruct l' as [|b l']; [apply Permutation_sym, Permutation_nil in HP; discriminate|].
    inversion S as [|? ? Sl Fa]; subst. inversion S' as [|? ? Sl' Fb]; subst.
    rewrite Forall_forall in Fa, Fb.
    assert (a = b).
    { assert (Ha : In a (b :: l')) by (eapply Permutation_in; [exact HP|left; auto]).
      assert (Hb : In b (a :: l)) by (eapply Permutation_in; [apply Permutation_sym; exact HP|left; auto]).
      destruct Ha as [->|Ha]; auto. destruct Hb as [->|Hb]; auto.
      exfalso. apply (Hasym a b); auto. }
    subst b. f_equal. apply IH; auto. eapply Permutation_cons_inv; eauto.
Qed.

Theorem replay_order_independent ns ns' :
  NoDup (map npath ns) -> ancestors_first ns -> Permutation ns ns' -> ancestors_first ns' ->
  forall M p, alookup p (replay ns' M) = alookup p (replay ns M).
Proof.
  intros Hnd Haf HP Haf'. apply replay_same_chains. intros p.
  assert (Hnd' : NoDup (map npath ns')).
  { eapply Permutation_NoDup; [|exact Hnd]. apply Permutation_map. exact HP. }
  symmetry. apply (sorted_perm_eq nabove).
  - intros x Hx. unfold nabove in Hx. rewrite above_irrefl in Hx. discriminate.
  - intros x y. apply above_asym.
  - apply chain_sorted; auto.
  - apply chain_sorted; auto.
  - apply filter_perm. exact HP.
Qed.

(* a list in strictly ascending path order is ancestors-first and has no duplicate path *)
Lemma sorted_ancestors_first ns :
  StronglySorted (fun a b => compare_path (npath a) (npath b) = Lt) ns ->
  ancestors_first ns /\ NoDup (map npath ns).
Proof.
  induction 1 as [|m r S [IH1 IH2] F]; simpl; [split; [exact I|constructor]|].
  rewrite Forall_forall in F. split; [split; auto|].
  - intros x Hx. destruct (above (npath x) (npath m)) eqn:E; auto.
    apply above_lt in E. exfalso. eapply compare_path_asym; [exact E|apply F; auto].
  - constructor; auto. intros Hin. apply in_map_iff in Hin. destruct Hin as (x & Ex & Hx).
    specialize (F x Hx). rewrite Ex, compare_path_refl in F. discriminate.
Qed.
