(* Generic lemmas for the endpoint acceptors: running over appended traces, byte-prefix
   stripping, id-keyed association lists, trace projections, boolean equalities. *)
From Coq Require Import List NArith Bool Lia.
From FS Require Import Sx Model.Stat Model.AccEvents.
Import ListNotations.
Open Scope N_scope.

(* ---- run ---- *)
Section RunP.
  Context {St : Type}.
  Variable step : St -> event -> option St.

  Lemma run_app : forall a b s,
    run step s (a ++ b) = match run step s a with Some s' => run step s' b | None => None end.
  Proof.
    induction a as [|e a IH]; intros b s; simpl; [reflexivity|].
    destruct (step s e); [apply IH|reflexivity].
  Qed.

  Lemma run_snoc : forall a e s,
    run step s (a ++ [e]) = match run step s a with Some s' => step s' e | None => None end.
  Proof.
    intros. rewrite run_app. destruct (run step s a); [|reflexivity].
    simpl. destruct (step s0 e); reflexivity.
  Qed.

  (* an accepted trace splits at any event into an accepted prefix, a step, and the rest *)
  Lemma run_split : forall pre e post s s',
    run step s (pre ++ e :: post) = Some s' ->
    exists s1 s2, run step s pre = Some s1 /\ step s1 e = Some s2 /\ run step s2 post = Some s'.
  Proof.
    intros pre e post s s' H. rewrite run_app in H.
    destruct (run step s pre) as [s1|] eqn:E1; [|discriminate].
    simpl in H. destruct (step s1 e) as [s2|] eqn:E2; [|discriminate].
    exists s1, s2. auto.
  Qed.

  (* a property of states that every step preserves holds at the end of a run *)
  Lemma run_preserves : forall (P : St -> Prop),
    (forall s e s', step s e = Some s' -> P s -> P s') ->
    forall tr s s', run step s tr = Some s' -> P s -> P s'.
  Proof.
    intros P HP. induction tr as [|e tr IH]; intros s s' H Hs; simpl in H.
    - inversion H; subst; assumption.
    - destruct (step s e) as [s1|] eqn:E; [|discriminate]. eapply IH; eauto.
  Qed.

  (* invariants relating the trace read so far to the state *)
  Lemma run_invariant : forall (I : list event -> St -> Prop) s0,
    I [] s0 ->
    (forall tr s e s', I tr s -> step s e = Some s' -> I (tr ++ [e]) s') ->
    forall tr s, run step s0 tr = Some s -> I tr s.
  Proof.
    intros I s0 H0 Hstep tr. induction tr as [|e tr IH] using rev_ind; intros s H.
    - simpl in H. inversion H; subst. exact H0.
    - rewrite run_snoc in H. destruct (run step s0 tr) as [s1|] eqn:E; [|discriminate].
      eapply Hstep; eauto.
  Qed.

  (* a state property that, once true, constrains every later event *)
  Lemma run_forall : forall (P : St -> Prop) (Q : event -> Prop),
    (forall s e s', step s e = Some s' -> P s -> Q e /\ P s') ->
    forall tr s s', run step s tr = Some s' -> P s -> Forall Q tr /\ P s'.
  Proof.
    intros P Q HP. induction tr as [|e tr IH]; intros s s' H Hs; simpl in H.
    - inversion H; subst. split; [constructor|assumption].
    - destruct (step s e) as [s1|] eqn:E; [|discriminate].
      destruct (HP _ _ _ E Hs) as [Hq Hp1]. destruct (IH _ _ H Hp1) as [Hf Hp']. split; [constructor; assumption|assumption].
  Qed.
End RunP.

(* ---- bytes ---- *)
Lemma bytes_eqb_eq : forall a b, bytes_eqb a b = true -> a = b.
Proof.
  induction a as [|x a IH]; destruct b as [|y b]; simpl; intros H; try discriminate; [reflexivity|].
  apply andb_true_iff in H. destruct H as [H1 H2]. apply N.eqb_eq in H1. subst. f_equal. auto.
Qed.

Lemma bytes_eqb_refl : forall a, bytes_eqb a a = true.
Proof. induction a; simpl; [reflexivity|]. rewrite N.eqb_refl. assumption. Qed.

Lemma strip_prefix_some : forall p s r, strip_prefix p s = Some r -> s = p ++ r.
Proof.
  induction p as [|a p IH]; intros s r H; simpl in H.
  - inversion H. reflexivity.
  - destruct s as [|b s]; [discriminate|].
    destruct (N.eqb a b) eqn:E; [|discriminate]. apply N.eqb_eq in E. subst.
    simpl. f_equal. auto.
Qed.

Lemma strip_prefix_app : forall p r, strip_prefix p (p ++ r) = Some r.
Proof. induction p; intros; simpl; [reflexivity|]. rewrite N.eqb_refl. auto. Qed.

Lemma strip_chunks_some : forall cs s r, strip_chunks cs s = Some r -> s = concat cs ++ r.
Proof.
  induction cs as [|c cs IH]; intros s r H; simpl in H.
  - inversion H. reflexivity.
  - destruct (strip_prefix c s) as [s'|] eqn:E; [|discriminate].
    apply strip_prefix_some in E. apply IH in H. subst. simpl. rewrite app_assoc. reflexivity.
Qed.

Lemma strip_chunks_concat : forall cs r, strip_chunks cs (concat cs ++ r) = Some r.
Proof.
  induction cs as [|c cs IH]; intros r; simpl; [reflexivity|].
  rewrite <- app_assoc. rewrite strip_prefix_app. apply IH.
Qed.

Lemma is_nil_true : forall A (l : list A), is_nil l = true -> l = [].
Proof. destruct l; simpl; intros; [reflexivity|discriminate]. Qed.

(* ---- stat equality ---- *)
Lemma xattrs_eqb_eq : forall a b, xattrs_eqb a b = true -> a = b.
Proof.
  induction a as [|[k1 v1] a IH]; destruct b as [|[k2 v2] b]; simpl; intros H; try discriminate; [reflexivity|].
  apply andb_true_iff in H. destruct H as [H H3]. apply andb_true_iff in H. destruct H as [H1 H2].
  apply bytes_eqb_eq in H1. apply bytes_eqb_eq in H2. subst. f_equal. auto.
Qed.

Lemma stat_eqb_eq : forall a b, stat_eqb a b = true -> a = b.
Proof.
  intros [p1 m1 u1 g1 s1 t1 l1 a1 b1 x1] [p2 m2 u2 g2 s2 t2 l2 a2 b2 x2]. unfold stat_eqb. simpl. intros H.
  repeat (apply andb_true_iff in H; let H' := fresh "H" in destruct H as [H H']).
  repeat match goal with
         | E : N.eqb _ _ = true |- _ => apply N.eqb_eq in E
         | E : bytes_eqb _ _ = true |- _ => apply bytes_eqb_eq in E
         | E : xattrs_eqb _ _ = true |- _ => apply xattrs_eqb_eq in E
         end.
  subst. reflexivity.
Qed.

(* ---- association lists keyed by N ---- *)
Lemma nlookup_nupdate_same : forall A (k : N) (v : A) m,
  nlookup k m <> None -> nlookup k (nupdate k v m) = Some v.
Proof.
  induction m as [|[k' v'] m IH]; simpl; intros H; [congruence|].
  destruct (N.eqb k k') eqn:E; simpl; rewrite E; [reflexivity|auto].
Qed.

Lemma nlookup_nupdate_other : forall A (k k2 : N) (v : A) m,
  k2 <> k -> nlookup k2 (nupdate k v m) = nlookup k2 m.
Proof.
  induction m as [|[k' v'] m IH]; simpl; intros H; [reflexivity|].
  destruct (N.eqb k k') eqn:E; simpl.
  - apply N.eqb_eq in E. subst k'. destruct (N.eqb k2 k) eqn:E2; [apply N.eqb_eq in E2; congruence|reflexivity].
  - destruct (N.eqb k2 k'); auto.
Qed.

Lemma nlookup_nupdate_keys : forall A (k k2 : N) (v : A) m,
  nlookup k2 (nupdate k v m) <> None <-> nlookup k2 m <> None.
Proof.
  induction m as [|[k' v'] m IH]; simpl; [tauto|].
  destruct (N.eqb k k') eqn:E; simpl.
  - destruct (N.eqb k2 k'); [split; congruence|tauto].
  - destruct (N.eqb k2 k'); [split; congruence|exact IH].
Qed.

Lemma nlookup_nremove_same : forall A (k : N) (m : list (N * A)),
  NoDup (map fst m) -> nlookup k (nremove k m) = None.
Proof.
  induction m as [|[k' v'] m IH]; simpl; intros H; [reflexivity|].
  inversion H as [|? ? Hn Hd]; subst.
  destruct (N.eqb k k') eqn:E; simpl.
  - apply N.eqb_eq in E. subst k'.
    clear - Hn. induction m as [|[k2 v2] m IH]; simpl; [reflexivity|].
    destruct (N.eqb k k2) eqn:E2.
    + apply N.eqb_eq in E2. subst. exfalso. apply Hn. simpl. auto.
    + apply IH. intros Hin. apply Hn. simpl. auto.
  - rewrite E. auto.
Qed.

Lemma nlookup_nremove_other : forall A (k k2 : N) (m : list (N * A)),
  k2 <> k -> nlookup k2 (nremove k m) = nlookup k2 m.
Proof.
  induction m as [|[k' v'] m IH]; simpl; intros H; [reflexivity|].
  destruct (N.eqb k k') eqn:E; simpl.
  - apply N.eqb_eq in E. subst k'. destruct (N.eqb k2 k) eqn:E2; [apply N.eqb_eq in E2; congruence|reflexivity].
  - destruct (N.eqb k2 k'); auto.
Qed.

Lemma nlookup_in : forall A (k : N) (v : A) m, nlookup k m = Some v -> In (k, v) m.
Proof.
  induction m as [|[k' v'] m IH]; simpl; intros H; [discriminate|].
  destruct (N.eqb k k') eqn:E.
  - apply N.eqb_eq in E. inversion H. subst. auto.
  - auto.
Qed.

Lemma nlookup_none_notin : forall A (k : N) (m : list (N * A)), nlookup k m = None -> ~ In k (map fst m).
Proof.
  induction m as [|[k' v'] m IH]; simpl; intros H; [tauto|].
  destruct (N.eqb k k') eqn:E; [discriminate|].
  apply N.eqb_neq in E. intros [H1|H1]; [congruence|]. apply IH; assumption.
Qed.

Lemma map_fst_nupdate : forall A (k : N) (v : A) m, map fst (nupdate k v m) = map fst m.
Proof.
  induction m as [|[k' v'] m IH]; simpl; [reflexivity|].
  destruct (N.eqb k k'); simpl; [reflexivity|]. f_equal. assumption.
Qed.

Lemma in_map_fst_nremove : forall A (k x : N) (m : list (N * A)), In x (map fst (nremove k m)) -> In x (map fst m).
Proof.
  induction m as [|[k' v'] m IH]; simpl; intros H; [tauto|].
  destruct (N.eqb k k'); simpl in *; [auto|]. destruct H; auto.
Qed.

Lemma nodup_map_fst_nremove : forall A (k : N) (m : list (N * A)), NoDup (map fst m) -> NoDup (map fst (nremove k m)).
Proof.
  induction m as [|[k' v'] m IH]; simpl; intros H; [constructor|].
  inversion H; subst. destruct (N.eqb k k'); simpl; [assumption|].
  constructor; [|auto]. intros Hin. apply in_map_fst_nremove in Hin. contradiction.
Qed.

(* ---- projections over appended traces ---- *)
Lemma stats_out_app : forall a b, stats_out (a ++ b) = stats_out a ++ stats_out b.
Proof. intros. unfold stats_out. apply flat_map_app. Qed.
Lemma stats_in_app : forall a b, stats_in (a ++ b) = stats_in a ++ stats_in b.
Proof. intros. unfold stats_in. apply flat_map_app. Qed.
Lemma data_out_app : forall n a b, data_out n (a ++ b) = data_out n a ++ data_out n b.
Proof. intros. unfold data_out. apply flat_map_app. Qed.
Lemma data_in_app : forall n a b, data_in n (a ++ b) = data_in n a ++ data_in n b.
Proof. intros. unfold data_in. apply flat_map_app. Qed.
Lemma progress_of_app : forall a b, progress_of (a ++ b) = progress_of a ++ progress_of b.
Proof. intros. unfold progress_of. apply flat_map_app. Qed.
Lemma some_stats_app : forall a b, some_stats (a ++ b) = some_stats a ++ some_stats b.
Proof. intros. unfold some_stats. apply flat_map_app. Qed.

Lemma firstn_snoc_nth : forall A (l : list A) k x,
  nth_error l k = Some x -> firstn (S k) l = firstn k l ++ [x].
Proof.
  induction l as [|a l IH]; intros k x H.
  - destruct k; discriminate.
  - destruct k; simpl in *.
    + inversion H. reflexivity.
    + f_equal. apply IH. assumption.
Qed.

Lemma nth_error_lt : forall A (l : list A) k x, nth_error l k = Some x -> (k < length l)%nat.
Proof. intros. apply nth_error_Some. congruence. Qed.
