(* Witnesses for the refutations of C10 (evaluated by vm_compute) and the matcher used by the
   closed examples. *)
From Coq Require Import List NArith Lia Bool String Ascii.
From FS Require Import Sx Model.Path Model.Stat Model.Tree Model.Pattern Model.FilterWalk
  Proofs.Lex Proofs.PathP Proofs.PatternP.
Import ListNotations.
Open Scope bool_scope.

Definition bs (s : string) : list N := map N_of_ascii (list_ascii_of_string s).

Definition st_dir : stat :=
  {| st_path := []; st_mode := (ModeDir + 493)%N; st_uid := 0%N; st_gid := 0%N; st_size := 0%N; st_mtime := 0%N;
     st_linkname := []; st_devmajor := 0%N; st_devminor := 0%N; st_xattrs := [] |}.
Definition st_file : stat :=
  {| st_path := []; st_mode := 420%N; st_uid := 1000%N; st_gid := 1000%N; st_size := 1%N; st_mtime := 0%N;
     st_linkname := []; st_devmajor := 0%N; st_devminor := 0%N; st_xattrs := [] |}.
Definition D (name : string) (kids : list node) : node := Node (bs name) st_dir [] kids.
Definition F (name : string) : node := Node (bs name) st_file [120%N] [].
Definition ip (s : string) : pat := {| p_excl := false; p_str := bs s |}.
Definition xp (s : string) : pat := {| p_excl := true; p_str := bs s |}.
Definition paths (l : list stat) : list (list N) := map st_path l.

(* a matcher that reads prefix-only patterns literally and knows no other pattern *)
Definition pm_lit : bytes -> bytes -> bool := lit_pmatch (fun _ _ => false).

(* ---- K1: [d, !d/c, d] ---- *)
Definition k1_pats : list pat := [ip "d"; xp "d/c"; ip "d"].
Definition k1_cs : list (list N) := [bs "d"; bs "c"].
Definition k1_view : list node := [D "d" [F "c"; F "e"]].
Definition k1_cfg : cfg := {| c_inc := Some k1_pats; c_exc := None; c_prune := true |}.

Lemma k1_okc : okc k1_cs.
Proof.
  split; [discriminate|]. split.
  - repeat constructor; discriminate.
  - repeat constructor; intros [H|[]]; discriminate.
Qed.

Lemma k1_incr_ne_naive : incr_path pm_lit k1_pats k1_cs <> naive pm_lit k1_pats (joinc k1_cs).
Proof. vm_compute. discriminate. Qed.

Lemma k1_shadow : no_late_shadow pm_lit k1_pats k1_cs = false.
Proof. vm_compute. reflexivity. Qed.

Lemma k1_walk_ne_reference :
  filter_walk pm_lit id_map k1_cfg k1_view <> reference (keep_naive pm_lit k1_cfg) id_map k1_view.
Proof. vm_compute. discriminate. Qed.

(* what the two sides are *)
Lemma k1_walk_paths :
  paths (filter_walk pm_lit id_map k1_cfg k1_view) = [bs "d"; bs "d/e"] /\
  paths (reference (keep_naive pm_lit k1_cfg) id_map k1_view) = [bs "d"; bs "d/c"; bs "d/e"].
Proof. vm_compute. split; reflexivity. Qed.

(* ---- K5: a{2}/* is classified prefix-only, the library matches it as the regular
        expression ^a{2}/[^/]*$ (the values below are what the real library answers) ---- *)
Definition k5_pat : bytes := bs "a{2}/*".
Definition pm_k5 (P q : bytes) : bool :=
  if bytes_eqb P k5_pat then bytes_eqb q (bs "aa/x") else pm_lit P q.
Definition k5_cfg : cfg := {| c_inc := Some [ip "a{2}/*"]; c_exc := None; c_prune := true |}.
Definition k5_view : list node := [D "aa" [F "x"]].

Lemma pm_k5_semantics : prefix_semantics pm_k5.
Proof.
  destruct (lit_pmatch_prefix_semantics (fun _ _ => false)) as (H1 & H2 & H3).
  repeat split.
  - intros P q E. unfold pm_k5. destruct (bytes_eqb P k5_pat) eqn:Ew; [|apply H1; auto].
    apply bytes_eqb_eq in Ew. subst P. vm_compute in E. discriminate.
  - intros P L q E. unfold pm_k5. destruct (bytes_eqb P k5_pat) eqn:Ew; [|apply H2; auto].
    apply bytes_eqb_eq in Ew. subst P. vm_compute in E. discriminate.
  - intros P L q E Hs. unfold pm_k5. destruct (bytes_eqb P k5_pat) eqn:Ew; [|apply H3; auto].
    apply bytes_eqb_eq in Ew. subst P. vm_compute in E. injection E as <-. vm_compute in Hs. discriminate.
Qed.

Lemma k5_prune_observable :
  filter_walk pm_k5 id_map k5_cfg k5_view <> filter_walk pm_k5 id_map (no_prune k5_cfg) k5_view.
Proof. vm_compute. discriminate. Qed.

Lemma k5_not_safe : cfg_star_safe k5_cfg = false.
Proof. vm_compute. reflexivity. Qed.

(* ---- the tree of filter_test.go (TestWalkerDoublestarInclude) ---- *)
Definition ft_view : list node :=
  [ D "a" [ D "b" [ D "bar" [F "foo"; F "fop"]; D "baz" [] ] ];
    D "bar" [F "foo"];
    D "baz" [];
    D "foo" [ D "bar" [F "bee"] ];
    F "foo2" ].

(* glob patterns used by the examples, as the real library answers on the paths of ft_view
   (kind 1001 corpus cases examples.case run the same inputs against the real code) *)
Definition pm_ex : bytes -> bytes -> bool :=
  lit_pmatch (fun P q =>
    if bytes_eqb P (bs "**/bar") then
      bytes_eqb q (bs "bar") || match strip_suffix (bs "/bar") q with Some _ => true | None => false end
    else if bytes_eqb P (bs "**/fo?") then
      existsb (bytes_eqb q) [bs "foo"; bs "a/b/bar/foo"; bs "a/b/bar/fop"; bs "bar/foo"]
    else false).
