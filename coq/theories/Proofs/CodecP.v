(* Proofs about Model/Codec.v: round trip of the VT codec for every map order, sizes. *)
From Coq Require Import List NArith ZArith Bool Lia ZifyN ZifyNat ZifyBool Permutation.
From FS Require Import Sx Model.Path Model.Stat Model.Varint Model.Codec Proofs.Lex Proofs.VarintP.
Import ListNotations.
Open Scope N_scope.

Ltac Zify.zify_post_hook ::= Z.div_mod_to_equations.

(* ------------------------------------------------------------------ slices *)
Lemma firstn_len_app (a b : bytes) : firstn (N.to_nat (len a)) (a ++ b) = a.
Proof.
  rewrite len_length, Nat2N.id, firstn_app, Nat.sub_diag, firstn_all. cbn [firstn]. apply app_nil_r.
Qed.
Lemma skipn_len_app (a b : bytes) : skipn (N.to_nat (len a)) (a ++ b) = b.
Proof.
  rewrite len_length, Nat2N.id, skipn_app, Nat.sub_diag, skipn_all. reflexivity.
Qed.
Lemma take_n_app a b : take_n (len a) (a ++ b) = Some (a, b).
Proof.
  unfold take_n. rewrite len_app.
  destruct (N.leb_spec (len a) (len a + len b)); [|lia].
  rewrite firstn_len_app, skipn_len_app. reflexivity.
Qed.
Lemma get_bytes_put b rest :
  len b < two64 -> get_bytes (put_varint (len b) ++ b ++ rest) = Some (b, rest).
Proof. intros H. unfold get_bytes. rewrite get_put_varint by exact H. apply take_n_app. Qed.

(* ------------------------------------------------------------------ one field, by tag *)
Lemma sf_tag10 l : dec_sfield (10 :: l) = bytes_field 2 l SF_path. Proof. reflexivity. Qed.
Lemma sf_tag16 l : dec_sfield (16 :: l) = varint_field 0 l (fun v => SF_mode (v mod two32)). Proof. reflexivity. Qed.
Lemma sf_tag24 l : dec_sfield (24 :: l) = varint_field 0 l (fun v => SF_uid (v mod two32)). Proof. reflexivity. Qed.
Lemma sf_tag32 l : dec_sfield (32 :: l) = varint_field 0 l (fun v => SF_gid (v mod two32)). Proof. reflexivity. Qed.
Lemma sf_tag40 l : dec_sfield (40 :: l) = varint_field 0 l SF_size. Proof. reflexivity. Qed.
Lemma sf_tag48 l : dec_sfield (48 :: l) = varint_field 0 l SF_mtime. Proof. reflexivity. Qed.
Lemma sf_tag58 l : dec_sfield (58 :: l) = bytes_field 2 l SF_linkname. Proof. reflexivity. Qed.
Lemma sf_tag64 l : dec_sfield (64 :: l) = varint_field 0 l SF_devmajor. Proof. reflexivity. Qed.
Lemma sf_tag72 l : dec_sfield (72 :: l) = varint_field 0 l SF_devminor. Proof. reflexivity. Qed.
Lemma sf_tag82 l : dec_sfield (82 :: l) = xattr_field 2 l. Proof. reflexivity. Qed.

Lemma pf_tag8 l : dec_pfield (8 :: l) = varint_field 0 l (fun v => PF_type (v mod two32)). Proof. reflexivity. Qed.
Lemma pf_tag18 l : dec_pfield (18 :: l) = bytes_field 2 l PF_stat. Proof. reflexivity. Qed.
Lemma pf_tag24 l : dec_pfield (24 :: l) = varint_field 0 l (fun v => PF_id (v mod two32)). Proof. reflexivity. Qed.
Lemma pf_tag34 l : dec_pfield (34 :: l) = bytes_field 2 l PF_data. Proof. reflexivity. Qed.

Lemma varint_field_put {F} (mk : N -> F) v rest :
  v < two64 -> varint_field 0 (put_varint v ++ rest) mk = Some (mk v, rest).
Proof. intros H. unfold varint_field. cbn [N.eqb]. rewrite get_put_varint by exact H. reflexivity. Qed.
Lemma bytes_field_put {F} (mk : bytes -> F) b rest :
  len b < two64 -> bytes_field 2 (put_varint (len b) ++ b ++ rest) mk = Some (mk b, rest).
Proof. intros H. unfold bytes_field. change (2 =? 2) with true. cbv iota. rewrite get_bytes_put by exact H. reflexivity. Qed.

(* ------------------------------------------------------------------ fuel *)
Lemma dec_entry_mono f : forall f' stop cur k v x,
  dec_entry f stop cur k v = Some x -> (f <= f')%nat -> dec_entry f' stop cur k v = Some x.
Proof.
  induction f; intros f' stop cur k v x H Hle.
  - destruct f'; cbn [dec_entry] in *; destruct (len cur <=? stop); auto; discriminate.
  - destruct f' as [|f']; [lia|]. cbn [dec_entry] in *.
    destruct (len cur <=? stop); auto.
    destruct (get_tag cur) as [[[fn wt] r]|]; [|discriminate].
    destruct (fn =? 1).
    { destruct (get_bytes r) as [[k' r']|]; [|discriminate]. apply IHf; [exact H|lia]. }
    destruct (fn =? 2).
    { destruct (get_bytes r) as [[k' r']|]; [|discriminate]. apply IHf; [exact H|lia]. }
    destruct (skip cur) as [r'|]; [|discriminate].
    destruct (len r' <? stop); [discriminate|]. apply IHf; [exact H|lia].
Qed.

Section FoldP.
  Context {F St : Type}.
  Variable decf : bytes -> option (F * bytes).
  Variable app : St -> F -> option St.

  Lemma fold_fields_mono f : forall f' l st x,
    fold_fields decf app f l st = Some x -> (f <= f')%nat -> fold_fields decf app f' l st = Some x.
  Proof.
    induction f; intros f' l st x H Hle.
    - destruct l; cbn [fold_fields] in *; [destruct f'; exact H|discriminate].
    - destruct f' as [|f']; [lia|]. destruct l as [|b l]; cbn [fold_fields] in *; [exact H|].
      destruct (decf (b :: l)) as [[fld r]|]; [|discriminate].
      destruct (app st fld) as [st'|]; [|discriminate].
      apply IHf; [exact H|lia].
  Qed.

  Definition Dec (l : bytes) (st R : St) : Prop :=
    exists f, (f <= length l)%nat /\ fold_fields decf app f l st = Some R.

  Lemma Dec_nil st : Dec [] st st.
  Proof. exists O. split; [cbn; lia|reflexivity]. Qed.

  Lemma Dec_field fb rest fld st st' R :
    fb <> [] -> decf (fb ++ rest) = Some (fld, rest) -> app st fld = Some st' ->
    Dec rest st' R -> Dec (fb ++ rest) st R.
  Proof.
    intros Hne Hd Ha [f [Hf He]]. exists (S f). split.
    - rewrite app_length. destruct fb; [congruence|]. cbn [length]. lia.
    - destruct fb as [|b fb]; [congruence|]. cbn [List.app fold_fields] in *.
      rewrite Hd, Ha. exact He.
  Qed.

  Lemma Dec_run l st R : Dec l st R -> fold_fields decf app (length l) l st = Some R.
  Proof. intros [f [Hf He]]. eapply fold_fields_mono; eauto. Qed.
End FoldP.

(* ------------------------------------------------------------------ one map entry *)
Lemma get_tag_10 l : get_tag (10 :: l) = Some (1, 2, l). Proof. reflexivity. Qed.
Lemma get_tag_18 l : get_tag (18 :: l) = Some (2, 2, l). Proof. reflexivity. Qed.

Definition entry_ok (kv : bytes * bytes) : Prop :=
  len (fst kv) < two64 /\ len (snd kv) < two64 /\ len (entry_body kv) < two64.

Lemma dec_entry_body k v tail k0 v0 f :
  len k < two64 -> len v < two64 ->
  dec_entry (S (S f)) (len tail) (entry_body (k, v) ++ tail) k0 v0 = Some (k, v).
Proof.
  intros Hk Hv. unfold entry_body. cbn [fst snd].
  set (l2 := 18 :: put_varint (len v) ++ v).
  assert (E1 : (10 :: put_varint (len k) ++ k ++ l2) ++ tail = 10 :: put_varint (len k) ++ k ++ (l2 ++ tail)).
  { cbn [List.app]. rewrite <- !app_assoc. reflexivity. }
  rewrite E1. clear E1.
  cbn [dec_entry].
  destruct (N.leb_spec (len (10 :: put_varint (len k) ++ k ++ l2 ++ tail)) (len tail)) as [H|H].
  { rewrite len_cons, !len_app in H. lia. }
  rewrite get_tag_10. change (1 =? 1) with true. cbv iota.
  rewrite get_bytes_put by exact Hk.
  destruct (N.leb_spec (len (l2 ++ tail)) (len tail)) as [H2|H2].
  { unfold l2 in H2. cbn [List.app] in H2. rewrite len_cons, !len_app in H2. lia. }
  unfold l2. cbn [List.app]. rewrite <- app_assoc. rewrite get_tag_18.
  change (2 =? 1) with false. change (2 =? 2) with true. cbv iota.
  rewrite get_bytes_put by exact Hv.
  destruct f; cbn [dec_entry]; rewrite N.leb_refl; reflexivity.
Qed.

Lemma entry_body_len_ge kv : 4 <= len (entry_body kv).
Proof.
  unfold entry_body. rewrite len_cons, !len_app, len_cons, !len_app, !put_varint_len.
  pose proof (size_varint_pos (len (fst kv))). pose proof (size_varint_pos (len (snd kv))). lia.
Qed.

Lemma xattr_field_put kv rest :
  entry_ok kv ->
  xattr_field 2 (put_varint (len (entry_body kv)) ++ entry_body kv ++ rest) = Some (SF_xattr (fst kv) (snd kv), rest).
Proof.
  intros (Hk & Hv & Hb). unfold xattr_field. change (2 =? 2) with true. cbv iota.
  rewrite get_put_varint by exact Hb.
  destruct (N.leb_spec (len (entry_body kv)) (len (entry_body kv ++ rest))) as [H|H];
    [|rewrite len_app in H; lia].
  replace (len (entry_body kv ++ rest) - len (entry_body kv)) with (len rest) by (rewrite len_app; lia).
  rewrite skipn_len_app.
  destruct kv as [k v]. cbn [fst snd] in *.
  rewrite (dec_entry_mono 2 (length (entry_body (k, v) ++ rest)) (len rest) _ [] [] (k, v)).
  - reflexivity.
  - apply dec_entry_body; assumption.
  - pose proof (entry_body_len_ge (k, v)) as Hl. rewrite len_length in Hl. rewrite app_length. lia.
Qed.

(* ------------------------------------------------------------------ Stat: the chain of fields *)
Section StatChain.
  Variable ins : bytes -> bytes -> list (bytes * bytes) -> list (bytes * bytes).
  Notation sdec := (Dec dec_sfield (apply_sfield ins)).

  Lemma sdec_tag_varint tag v (mk : N -> sfield) st st' R rest :
    (forall l, dec_sfield (tag :: l) = varint_field 0 l mk) -> v < two64 ->
    (v <> 0 -> apply_sfield ins st (mk v) = Some st') -> (v = 0 -> st' = st) ->
    sdec rest st' R -> sdec (put_tag_varint tag v ++ rest) st R.
  Proof.
    intros Ht Hv Ha Hz H. unfold put_tag_varint. destruct (N.eqb_spec v 0) as [E|E].
    - rewrite (Hz E) in H. exact H.
    - apply Dec_field with (fb := tag :: put_varint v) (fld := mk v) (st' := st'); auto; [discriminate|].
      cbn [List.app]. rewrite Ht. apply varint_field_put. exact Hv.
  Qed.

  Lemma sdec_tag_bytes tag b (mk : bytes -> sfield) st st' R rest :
    (forall l, dec_sfield (tag :: l) = bytes_field 2 l mk) -> len b < two64 ->
    (b <> [] -> apply_sfield ins st (mk b) = Some st') -> (b = [] -> st' = st) ->
    sdec rest st' R -> sdec (put_tag_bytes tag b ++ rest) st R.
  Proof.
    intros Ht Hv Ha Hz H. unfold put_tag_bytes. destruct b as [|x b].
    - rewrite (Hz eq_refl) in H. exact H.
    - apply Dec_field with (fb := tag :: put_varint (len (x :: b)) ++ x :: b) (fld := mk (x :: b)) (st' := st');
        auto; [discriminate| |apply Ha; discriminate].
      cbn [List.app]. rewrite <- app_assoc. rewrite Ht. apply bytes_field_put. exact Hv.
  Qed.

  Definition insf (acc : list (bytes * bytes)) (kv : bytes * bytes) := ins (fst kv) (snd kv) acc.

  Lemma sdec_entries xs : forall s u rest R,
    Forall entry_ok xs ->
    sdec rest (set_xattrs s (fold_left insf xs (st_xattrs s)), u) R ->
    sdec (concat (map put_entry xs) ++ rest) (s, u) R.
  Proof.
    induction xs as [|kv xs IH]; intros s u rest R Hok H.
    - cbn [map concat List.app fold_left] in *. destruct s. exact H.
    - inversion Hok as [|? ? Hkv Hxs]; subst.
      cbn [map concat]. rewrite <- app_assoc.
      apply Dec_field with (fld := SF_xattr (fst kv) (snd kv))
                           (st' := (set_xattrs s (ins (fst kv) (snd kv) (st_xattrs s)), u)).
      + unfold put_entry. discriminate.
      + unfold put_entry. cbn [List.app]. rewrite <- app_assoc. rewrite sf_tag82.
        apply xattr_field_put. exact Hkv.
      + reflexivity.
      + apply IH; [exact Hxs|]. exact H.
  Qed.

  Lemma sdec_encode xs s u rest R :
    st_mode s < two32 -> st_uid s < two32 -> st_gid s < two32 ->
    st_size s < two64 -> st_mtime s < two64 -> st_devmajor s < two64 -> st_devminor s < two64 ->
    len (st_path s) < two64 -> len (st_linkname s) < two64 -> Forall entry_ok xs ->
    sdec rest (set_xattrs s (fold_left insf xs []), u) R ->
    sdec (encode_stat_ord xs s ++ rest) (empty_stat, u) R.
  Proof.
    destruct s as [p m ui g sz mt ln dj dn xa]. cbn [st_path st_mode st_uid st_gid st_size st_mtime st_linkname st_devmajor st_devminor st_xattrs].
    intros Hm Hu Hg Hsz Hmt Hdj Hdn Hp Hln Hxs H.
    unfold encode_stat_ord. cbn [st_path st_mode st_uid st_gid st_size st_mtime st_linkname st_devmajor st_devminor st_xattrs].
    rewrite <- !app_assoc.
    unfold two32, two64 in *.
    eapply sdec_tag_bytes; [exact sf_tag10 | exact Hp | intros _; reflexivity | intros ->; reflexivity | ].
    eapply sdec_tag_varint; [exact sf_tag16 | unfold two64; lia
      | intros _; cbn [apply_sfield]; rewrite N.mod_small by (unfold two32; lia); reflexivity | intros ->; reflexivity | ].
    eapply sdec_tag_varint; [exact sf_tag24 | unfold two64; lia
      | intros _; cbn [apply_sfield]; rewrite N.mod_small by (unfold two32; lia); reflexivity | intros ->; reflexivity | ].
    eapply sdec_tag_varint; [exact sf_tag32 | unfold two64; lia
      | intros _; cbn [apply_sfield]; rewrite N.mod_small by (unfold two32; lia); reflexivity | intros ->; reflexivity | ].
    eapply sdec_tag_varint; [exact sf_tag40 | exact Hsz | intros _; reflexivity | intros ->; reflexivity | ].
    eapply sdec_tag_varint; [exact sf_tag48 | exact Hmt | intros _; reflexivity | intros ->; reflexivity | ].
    eapply sdec_tag_bytes; [exact sf_tag58 | exact Hln | intros _; reflexivity | intros ->; reflexivity | ].
    eapply sdec_tag_varint; [exact sf_tag64 | exact Hdj | intros _; reflexivity | intros ->; reflexivity | ].
    eapply sdec_tag_varint; [exact sf_tag72 | exact Hdn | intros _; reflexivity | intros ->; reflexivity | ].
    apply sdec_entries; [exact Hxs|]. exact H.
  Qed.
End StatChain.

(* ------------------------------------------------------------------ the sorted map *)
Lemma cb_eq a b : cmp_bytes a b = Eq <-> a = b.
Proof. rewrite <- cmpb_is_cmp_bytes. apply cmpb_eq. Qed.
Lemma cb_refl a : cmp_bytes a a = Eq. Proof. apply cb_eq; reflexivity. Qed.
Lemma cb_opp a b : cmp_bytes b a = CompOpp (cmp_bytes a b).
Proof. rewrite <- !cmpb_is_cmp_bytes. apply cmpb_opp. Qed.
Lemma cb_trans a b c : cmp_bytes a b = Lt -> cmp_bytes b c = Lt -> cmp_bytes a c = Lt.
Proof. rewrite <- !cmpb_is_cmp_bytes. apply cmpb_trans. Qed.
Lemma cb_gt_lt a b : cmp_bytes a b = Gt -> cmp_bytes b a = Lt.
Proof. intros H. rewrite cb_opp, H. reflexivity. Qed.
Lemma cb_lt_gt a b : cmp_bytes a b = Lt -> cmp_bytes b a = Gt.
Proof. intros H. rewrite cb_opp, H. reflexivity. Qed.

Ltac cb_norm := repeat match goal with
  | H : cmp_bytes ?a ?b = Eq |- _ => apply cb_eq in H; subst
  | H : cmp_bytes ?a ?b = Gt |- _ => apply cb_gt_lt in H
  end.
Ltac cb_sat := repeat match goal with
  | H1 : cmp_bytes ?a ?b = Lt, H2 : cmp_bytes ?b ?c = Lt |- _ =>
    lazymatch goal with
    | _ : cmp_bytes a c = Lt |- _ => fail
    | _ => pose proof (cb_trans _ _ _ H1 H2)
    end
  end.
Ltac cb_contra := cb_norm; cb_sat;
  match goal with
  | H : cmp_bytes ?a ?a = Lt |- _ => rewrite cb_refl in H; discriminate
  | H : ?a <> ?a |- _ => congruence
  end.
(* rewrite every comparison in the goal using the Lt facts at hand *)
Ltac cb_rw := repeat match goal with
  | H : cmp_bytes ?a ?b = Lt |- context [cmp_bytes ?a ?b] => rewrite H
  | H : cmp_bytes ?a ?b = Lt |- context [cmp_bytes ?b ?a] => rewrite (cb_lt_gt _ _ H)
  | |- context [cmp_bytes ?a ?a] => rewrite cb_refl
  end.

Lemma xinsert_comm k1 v1 k2 v2 : k1 <> k2 ->
  forall l, xinsert k1 v1 (xinsert k2 v2 l) = xinsert k2 v2 (xinsert k1 v1 l).
Proof.
  intros Hne. induction l as [|[k' v'] r IH].
  - cbn [xinsert]. destruct (cmp_bytes k1 k2) eqn:E; try cb_contra; cb_norm; cb_rw; reflexivity.
  - cbn [xinsert].
    destruct (cmp_bytes k2 k') eqn:E2; destruct (cmp_bytes k1 k') eqn:E1;
    destruct (cmp_bytes k1 k2) eqn:E12; try cb_contra; cb_norm; cbn [xinsert]; cb_rw; cbn [xinsert]; cb_rw;
    try reflexivity; try (rewrite IH; reflexivity).
Qed.

Notation xins := (insf xinsert).

Lemma fold_xinsert_perm xs ys :
  Permutation xs ys -> NoDup (map fst xs) ->
  forall acc, fold_left xins xs acc = fold_left xins ys acc.
Proof.
  induction 1 as [|x l l' HP IH|x y l|l l' l'' HP1 IH1 HP2 IH2]; intros Hnd acc.
  - reflexivity.
  - cbn [fold_left]. apply IH. cbn [map] in Hnd. inversion Hnd; assumption.
  - cbn [fold_left]. unfold insf at 2 3 5 6. rewrite xinsert_comm; [reflexivity|].
    cbn [map] in Hnd. inversion Hnd as [|? ? Hni _]; subst. intros E. apply Hni. left. exact E.
  - rewrite IH1 by exact Hnd. apply IH2.
    eapply Permutation_NoDup; [apply Permutation_map; exact HP1|exact Hnd].
Qed.

(* every key of [l] is below k *)
Definition all_lt (l : list (bytes * bytes)) (k : bytes) : Prop :=
  Forall (fun kv => cmp_bytes (fst kv) k = Lt) l.

Lemma xinsert_last k v l : all_lt l k -> xinsert k v l = l ++ [(k, v)].
Proof.
  induction l as [|[k' v'] r IH]; intros H; [reflexivity|].
  inversion H as [|? ? Hk Hr]; subst. cbn [fst] in Hk.
  cbn [xinsert]. rewrite (cb_lt_gt _ _ Hk). cbn [List.app]. rewrite IH by exact Hr. reflexivity.
Qed.

Lemma keys_sorted_head_lt k v r : keys_sorted ((k, v) :: r) -> Forall (fun kv => cmp_bytes k (fst kv) = Lt) r.
Proof.
  revert k v. induction r as [|[k' v'] r IH]; intros k v H; [constructor|].
  cbn [keys_sorted] in H. destruct H as [Hk Hr]. constructor; [exact Hk|].
  pose proof (IH k' v' Hr) as H2. eapply Forall_impl; [|exact H2].
  intros kv Hkv. cbn beta in *. eapply cb_trans; eauto.
Qed.
Lemma keys_sorted_tail x r : keys_sorted (x :: r) -> keys_sorted r.
Proof. destruct x. cbn [keys_sorted]. tauto. Qed.

Lemma fold_xinsert_sorted l : forall acc,
  keys_sorted l -> (forall kv, In kv l -> all_lt acc (fst kv)) ->
  fold_left xins l acc = acc ++ l.
Proof.
  induction l as [|[k v] r IH]; intros acc Hs Hacc; [cbn; rewrite app_nil_r; reflexivity|].
  cbn [fold_left]. unfold insf at 2. cbn [fst snd].
  rewrite xinsert_last by (apply (Hacc (k, v)); left; reflexivity).
  rewrite IH.
  - rewrite <- app_assoc. reflexivity.
  - eapply keys_sorted_tail; exact Hs.
  - intros kv Hin. unfold all_lt. apply Forall_app. split.
    + apply Hacc. right. exact Hin.
    + constructor; [|constructor]. cbn [fst].
      pose proof (keys_sorted_head_lt k v r Hs) as HF. rewrite Forall_forall in HF. apply HF. exact Hin.
Qed.

Lemma keys_sorted_nodup l : keys_sorted l -> NoDup (map fst l).
Proof.
  induction l as [|[k v] r IH]; intros H; [constructor|].
  cbn [map fst]. constructor.
  - intros Hin. apply in_map_iff in Hin. destruct Hin as [kv [E Hin]].
    pose proof (keys_sorted_head_lt k v r H) as HF. rewrite Forall_forall in HF.
    specialize (HF kv Hin). rewrite E, cb_refl in HF. discriminate.
  - apply IH. eapply keys_sorted_tail; exact H.
Qed.

Theorem canonical_map xs l :
  keys_sorted l -> Permutation xs l -> fold_left xins xs [] = l.
Proof.
  intros Hs HP.
  rewrite (fold_xinsert_perm xs l HP).
  - rewrite fold_xinsert_sorted; [reflexivity|exact Hs|]. intros; constructor.
  - eapply Permutation_NoDup; [apply Permutation_map, Permutation_sym; exact HP|].
    apply keys_sorted_nodup; exact Hs.
Qed.

(* ------------------------------------------------------------------ sizes *)
Lemma put_tag_varint_len tag v : len (put_tag_varint tag v) = size_tag_varint v.
Proof.
  unfold put_tag_varint, size_tag_varint. destruct (v =? 0); [reflexivity|].
  rewrite len_cons, put_varint_len. reflexivity.
Qed.
Lemma put_tag_bytes_len tag b : len (put_tag_bytes tag b) = size_tag_bytes b.
Proof.
  unfold put_tag_bytes, size_tag_bytes. destruct b as [|x b]; [reflexivity|].
  rewrite len_cons, len_app, put_varint_len. lia.
Qed.
Lemma entry_body_len kv :
  len (entry_body kv) = 1 + len (fst kv) + size_varint (len (fst kv)) + (1 + len (snd kv) + size_varint (len (snd kv))).
Proof. unfold entry_body. rewrite len_cons, !len_app, len_cons, !len_app, !put_varint_len. lia. Qed.
Lemma put_entry_len kv : len (put_entry kv) = size_entry kv.
Proof.
  unfold put_entry, size_entry. rewrite len_cons, len_app, put_varint_len, entry_body_len. cbv zeta. lia.
Qed.
Lemma entries_len xs : len (concat (map put_entry xs)) = size_entries xs.
Proof.
  induction xs as [|kv xs IH]; [reflexivity|]. cbn [map concat size_entries].
  rewrite len_app, put_entry_len, IH. reflexivity.
Qed.
Lemma size_entries_perm xs ys : Permutation xs ys -> size_entries xs = size_entries ys.
Proof. induction 1; cbn [size_entries]; lia. Qed.

Definition size_scalars (s : stat) : N :=
  size_tag_bytes (st_path s) + size_tag_varint (st_mode s) + size_tag_varint (st_uid s) +
  size_tag_varint (st_gid s) + size_tag_varint (st_size s) + size_tag_varint (st_mtime s) +
  size_tag_bytes (st_linkname s) + size_tag_varint (st_devmajor s) + size_tag_varint (st_devminor s).

Lemma encode_stat_ord_len xs s : len (encode_stat_ord xs s) = size_scalars s + size_entries xs.
Proof.
  unfold encode_stat_ord, size_scalars.
  rewrite !len_app, !put_tag_varint_len, !put_tag_bytes_len, entries_len. lia.
Qed.

Theorem size_stat_any_order xs s :
  Permutation xs (st_xattrs s) -> len (encode_stat_ord xs s) = size_stat s.
Proof.
  intros HP. rewrite encode_stat_ord_len, (size_entries_perm _ _ HP). reflexivity.
Qed.
Theorem size_stat_correct s : len (encode_stat s) = size_stat s.
Proof. unfold encode_stat. exact (size_stat_any_order (st_xattrs s) s (Permutation_refl _)). Qed.

Lemma size_tag_bytes_ge b : len b <= size_tag_bytes b.
Proof. unfold size_tag_bytes. destruct b; [cbn; lia|]. lia. Qed.

Lemma size_entry_ok kv : size_entry kv < two64 -> entry_ok kv.
Proof.
  unfold entry_ok. rewrite entry_body_len. unfold size_entry. cbv zeta.
  pose proof (size_varint_pos (len (fst kv))). pose proof (size_varint_pos (len (snd kv))). lia.
Qed.
Lemma size_entries_ok xs : size_entries xs < two64 -> Forall entry_ok xs.
Proof.
  induction xs as [|kv xs IH]; intros H; [constructor|]. cbn [size_entries] in H.
  constructor; [apply size_entry_ok; lia|apply IH; lia].
Qed.

(* ------------------------------------------------------------------ Stat round trip *)
Lemma set_xattrs_id s : set_xattrs s (st_xattrs s) = s.
Proof. destruct s; reflexivity. Qed.

Theorem stat_roundtrip_any_order s xs :
  wf_stat s -> Permutation xs (st_xattrs s) ->
  decode_stat_u (encode_stat_ord xs s) = Some (s, []).
Proof.
  intros (Hm & Hu & Hg & Hsz & Hmt & Hdj & Hdn & Hks & Hsize) HP.
  unfold decode_stat_u, decode_stat_into. apply Dec_run.
  rewrite <- (app_nil_r (encode_stat_ord xs s)).
  assert (Hsc : size_scalars s + size_entries (st_xattrs s) < two64) by exact Hsize.
  pose proof (size_tag_bytes_ge (st_path s)). pose proof (size_tag_bytes_ge (st_linkname s)).
  apply sdec_encode; try assumption.
  - unfold size_scalars in Hsc. lia.
  - unfold size_scalars in Hsc. lia.
  - apply size_entries_ok. rewrite (size_entries_perm _ _ HP). lia.
  - rewrite (canonical_map xs (st_xattrs s) Hks HP), set_xattrs_id. apply Dec_nil.
Qed.

Theorem stat_roundtrip_u s : wf_stat s -> decode_stat_u (encode_stat s) = Some (s, []).
Proof. intros H. unfold encode_stat. exact (stat_roundtrip_any_order s (st_xattrs s) H (Permutation_refl _)). Qed.

(* ------------------------------------------------------------------ Packet round trip *)
Section GenericChain.
  Context {F St : Type}.
  Variable decf : bytes -> option (F * bytes).
  Variable app : St -> F -> option St.

  Lemma Dec_tag_varint tag v (mk : N -> F) st st' R rest :
    (forall l, decf (tag :: l) = varint_field 0 l mk) -> v < two64 ->
    (v <> 0 -> app st (mk v) = Some st') -> (v = 0 -> st' = st) ->
    Dec decf app rest st' R -> Dec decf app (put_tag_varint tag v ++ rest) st R.
  Proof.
    intros Ht Hv Ha Hz H. unfold put_tag_varint. destruct (N.eqb_spec v 0) as [E|E].
    - rewrite (Hz E) in H. exact H.
    - apply Dec_field with (fb := tag :: put_varint v) (fld := mk v) (st' := st'); auto; [discriminate|].
      cbn [List.app]. rewrite Ht. apply varint_field_put. exact Hv.
  Qed.

  Lemma Dec_tag_bytes tag b (mk : bytes -> F) st st' R rest :
    (forall l, decf (tag :: l) = bytes_field 2 l mk) -> len b < two64 ->
    (b <> [] -> app st (mk b) = Some st') -> (b = [] -> st' = st) ->
    Dec decf app rest st' R -> Dec decf app (put_tag_bytes tag b ++ rest) st R.
  Proof.
    intros Ht Hv Ha Hz H. unfold put_tag_bytes. destruct b as [|x b].
    - rewrite (Hz eq_refl) in H. exact H.
    - apply Dec_field with (fb := tag :: put_varint (len (x :: b)) ++ x :: b) (fld := mk (x :: b)) (st' := st');
        auto; [discriminate| |apply Ha; discriminate].
      cbn [List.app]. rewrite <- app_assoc. rewrite Ht. apply bytes_field_put. exact Hv.
  Qed.
End GenericChain.

Lemma sext32_props t : t < two32 -> sext32 t < two64 /\ sext32 t mod two32 = t /\ (sext32 t = 0 -> t = 0).
Proof.
  unfold sext32, two31, two32, two64. intros H.
  destruct (N.ltb_spec t 2147483648); lia.
Qed.

Lemma packet_size_bounds p :
  size_packet p < two64 ->
  len (pdata p) < two64 /\ match pstat p with Some s => size_stat s < two64 | None => True end.
Proof.
  unfold size_packet. pose proof (size_tag_bytes_ge (pdata p)).
  destruct (pstat p); intros; split; auto; lia.
Qed.

Theorem packet_roundtrip_any_order p xs :
  wf_packet p -> Permutation xs (pxattrs p) ->
  decode_packet_u (encode_packet_ord xs p) = Some (p, [], []).
Proof.
  intros (Ht & Hid & Hst & Hsize) HP.
  destruct (packet_size_bounds p Hsize) as [Hdata Hss].
  destruct (sext32_props _ Ht) as (Hs64 & Hsmod & Hs0).
  unfold decode_packet_u, decode_packet_into.
  rewrite (Dec_run dec_pfield (apply_pfield xinsert) (encode_packet_ord xs p) empty_pstate
             {| q_type := ptype p; q_stat := option_map (fun s => (s, [])) (pstat p);
                q_id := pid p; q_data := pdata p; q_unk := [] |}).
  { destruct p as [t os i d]. cbn [option_map packet_of q_type q_stat q_id q_data q_unk ptype pstat pid pdata].
    destruct os; reflexivity. }
  rewrite <- (app_nil_r (encode_packet_ord xs p)).
  destruct p as [t os i d]. unfold pxattrs in HP.
  cbn [ptype pstat pid pdata] in *. unfold encode_packet_ord. cbn [ptype pstat pid pdata].
  rewrite <- !app_assoc.
  eapply Dec_tag_varint; [exact pf_tag8 | exact Hs64
    | intros _; cbn [apply_pfield]; rewrite Hsmod; reflexivity
    | intros E; rewrite (Hs0 E); reflexivity | ].
  cbn [q_type q_stat q_id q_data q_unk empty_pstate].
  (* the nested Stat *)
  assert (Hstat : Dec dec_pfield (apply_pfield xinsert)
            (put_tag_varint 24 i ++ put_tag_bytes 34 d ++ [])
            {| q_type := t; q_stat := option_map (fun s => (s, [])) os; q_id := 0; q_data := []; q_unk := [] |}
            {| q_type := t; q_stat := option_map (fun s => (s, [])) os; q_id := i; q_data := d; q_unk := [] |}).
  { eapply Dec_tag_varint; [exact pf_tag24 | unfold two32, two64 in *; lia
      | intros _; cbn [apply_pfield]; rewrite N.mod_small by exact Hid; reflexivity
      | intros ->; reflexivity | ].
    cbn [q_type q_stat q_id q_data q_unk].
    eapply Dec_tag_bytes; [exact pf_tag34 | exact Hdata | intros _; reflexivity | intros ->; reflexivity | ].
    apply Dec_nil. }
  destruct os as [s|]; cbn [put_stat_field option_map] in *.
  - assert (Hlen : len (encode_stat_ord xs s) < two64) by (rewrite (size_stat_any_order xs s HP); exact Hss).
    apply Dec_field with (fb := 18 :: put_varint (len (encode_stat_ord xs s)) ++ encode_stat_ord xs s)
                         (fld := PF_stat (encode_stat_ord xs s))
                         (st' := {| q_type := t; q_stat := Some (s, []); q_id := 0; q_data := []; q_unk := [] |}).
    + discriminate.
    + cbn [List.app]. rewrite <- app_assoc. rewrite pf_tag18. apply bytes_field_put. exact Hlen.
    + cbn [apply_pfield q_stat q_type q_id q_data q_unk].
      pose proof (stat_roundtrip_any_order s xs Hst HP) as Hrt. unfold decode_stat_u in Hrt. rewrite Hrt. reflexivity.
    + exact Hstat.
  - cbn [List.app]. exact Hstat.
Qed.

Theorem packet_roundtrip_u p : wf_packet p -> decode_packet_u (encode_packet p) = Some (p, [], []).
Proof. intros H. unfold encode_packet. exact (packet_roundtrip_any_order p (pxattrs p) H (Permutation_refl _)). Qed.

Lemma encode_packet_ord_len xs p :
  Permutation xs (pxattrs p) -> len (encode_packet_ord xs p) = size_packet p.
Proof.
  intros HP. unfold encode_packet_ord, size_packet. unfold pxattrs in HP.
  rewrite !len_app, !put_tag_varint_len, put_tag_bytes_len.
  destruct (pstat p) as [s|]; cbn [put_stat_field].
  - rewrite len_cons, len_app, put_varint_len, (size_stat_any_order xs s HP). lia.
  - cbn [len]. lia.
Qed.
Theorem size_packet_correct p : len (encode_packet p) = size_packet p.
Proof. unfold encode_packet. exact (encode_packet_ord_len (pxattrs p) p (Permutation_refl _)). Qed.

(* ------------------------------------------------------------------ statements as used by Properties/C20.v *)
Theorem stat_roundtrip_proof s :
  wf_stat s -> decode_stat (encode_stat s) = Some s /\ decode_stat_u (encode_stat s) = Some (s, []).
Proof.
  intros H. pose proof (stat_roundtrip_u s H) as E. split; [|exact E].
  unfold decode_stat. rewrite E. reflexivity.
Qed.

Theorem packet_roundtrip_proof p :
  wf_packet p -> decode_packet (encode_packet p) = Some p /\ decode_packet_u (encode_packet p) = Some (p, [], []).
Proof.
  intros H. pose proof (packet_roundtrip_u p H) as E. split; [|exact E].
  unfold decode_packet. rewrite E. reflexivity.
Qed.

Theorem size_correct_proof :
  (forall s, len (encode_stat s) = size_stat s) /\ (forall p, len (encode_packet p) = size_packet p).
Proof. split; [exact size_stat_correct|exact size_packet_correct]. Qed.

(* every order in which Go's map iteration may emit the entries decodes to the same value and
   has the same length *)
Theorem canonical_any_order_proof :
  (forall s xs, wf_stat s -> Permutation xs (st_xattrs s) ->
     decode_stat (encode_stat_ord xs s) = Some s /\ decode_stat_u (encode_stat_ord xs s) = Some (s, []) /\
     len (encode_stat_ord xs s) = size_stat s) /\
  (forall p xs, wf_packet p -> Permutation xs (pxattrs p) ->
     decode_packet (encode_packet_ord xs p) = Some p /\ decode_packet_u (encode_packet_ord xs p) = Some (p, [], []) /\
     len (encode_packet_ord xs p) = size_packet p).
Proof.
  split.
  - intros s xs H HP. pose proof (stat_roundtrip_any_order s xs H HP) as E.
    split; [unfold decode_stat; rewrite E; reflexivity|]. split; [exact E|]. apply size_stat_any_order; exact HP.
  - intros p xs H HP. pose proof (packet_roundtrip_any_order p xs H HP) as E.
    split; [unfold decode_packet; rewrite E; reflexivity|]. split; [exact E|]. apply encode_packet_ord_len; exact HP.
Qed.
