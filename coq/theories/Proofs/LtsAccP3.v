(* Refinement LTS (sender side) -> sender acceptor, part 3: the walker goroutine. *)
From Coq Require Import List NArith Bool Arith PeanoNat Lia ZifyN ZifyNat ZifyBool Permutation.
From FS Require Import Model.Lts Proofs.LtsInv.
From FS Require Import Sx Model.Path Model.Stat Model.Tree Model.AccEvents Model.SenderAcc Model.LtsAcc
     Proofs.AccEventsP Proofs.LtsAccP1 Proofs.LtsAccP2.
Import ListNotations.
Local Open Scope nat_scope.

Ltac li_destruct H :=
  destruct H as [Hk Hwalk Hreq Hfiles Htasks Hkeys Hsend Hcancel Herr Haerr Hclosed Hwdone Hnwk Hprog];
  destruct Hprog as (Hp0 & Hfin & Hret).
Ltac unf_all :=
  unfold walker_rel, req_rel, files_rel, acc_k, reg, rq_live, lts_bad, rq_failed, tasks in *.

Lemma reg_files : forall (F U : nat -> bool) fs i (b : bool),
  (forall id, memb id fs = (id <? i) && F id && U id) -> U i = true -> F i = b ->
  forall id, memb id (if b then i :: fs else fs) = (id <? S i) && F id && U id.
Proof.
  intros F U fs i b H HU HF id. destruct b.
  - rewrite memb_cons, H. destruct (Nat.eqb_spec id i) as [E|E]; cbn [orb].
    + rewrite E, HU, HF. destruct (Nat.ltb_spec i (S i)); [reflexivity|lia].
    + destruct (Nat.ltb_spec id i), (Nat.ltb_spec id (S i)); try lia; reflexivity.
  - rewrite H. destruct (Nat.eqb_spec id i) as [E|E].
    + rewrite E, HF, !andb_false_r. reflexivity.
    + destruct (Nat.ltb_spec id i), (Nat.ltb_spec id (S i)); try lia; reflexivity.
Qed.

Ltac clear_big :=
  repeat match goal with
  | H : context [tasks_ok] |- _ => clear H
  | H : context [nlookup] |- _ => clear H
  | H : context [memb] |- _ => clear H
  | H : context [NoDup] |- _ => clear H
  | H : context [nth_error] |- _ => clear H
  | H : context [acc_bad] |- _ => clear H
  end.
Ltac fin := repeat match goal with H : _ /\ _ |- _ => destruct H end;
  repeat match goal with |- _ /\ _ => split end; auto; try (timeout 2 congruence);
  try match goal with
      | |- (_ <= _)%nat => clear_big; timeout 5 lia
      | |- (_ < _)%nat => clear_big; timeout 5 lia
      | |- @eq nat _ _ => clear_big; timeout 5 lia
      end.

Section Sim.
  Variable p : Lts.params.
  Variable exp : list Tree.entry.
  Variable ch : nat -> list bytes.
  Variable emsg rmsg : bytes.
  Variable fprog : N.
  Hypothesis Habs : abs_ok p exp ch.

  Notation arun := (AccEvents.run (sender_acc exp)).
  Notation evs := (sender_events exp ch emsg rmsg fprog).
  Notation INV := (inv p exp ch).

  Lemma nentries_exp : nentries p = length exp.
  Proof. unfold nentries. apply Habs. Qed.

  Lemma returned_quiet : forall st a b, INV st a -> send_ret st = Some b ->
    sw_pc st = SW_Done /\ rq_pc st = RQ_Done /\ forallb wk_done (wks st) = true.
  Proof.
    intros st a b [_ H] E. rewrite E in H. destruct H as [_ Hq].
    unfold sender_quiet, sw_is_done, rq_is_done in Hq.
    apply andb_true_iff in Hq. destruct Hq as [Hq H3]. apply andb_true_iff in Hq. destruct Hq as [H1 H2].
    destruct (sw_pc st); try discriminate. destruct (rq_pc st); try discriminate. auto.
  Qed.

  Lemma walker_sim : forall st st' a, INV st a -> step_walker p st = Some st' ->
    exists a', arun a (evs st LSWalk) = Some a' /\ INV st' a'.
  Proof.
    intros st st' a HI H.
    destruct (send_ret st) eqn:Eret.
    { destruct (returned_quiet _ _ _ HI Eret) as (E & _). unfold step_walker in H. rewrite E in H. discriminate. }
    destruct HI as [Hb HI]. rewrite Eret in HI. li_destruct HI.
    unfold step_walker in H. cbn [sender_events].
    destruct (sw_pc st) eqn:Epc.
    - (* SW_Next *)
      exists a. split; [reflexivity|].
      destruct Hwalk as [Hle Hw]. rewrite Epc in Hw.
      (* the walk checks its context once per entry, not after the last one *)
      destruct (Nat.ltb_spec (sw_i st) (nentries p)) as [Hlt|Hge]; rewrite nentries_exp in *.
      + destruct (s_cancel st) eqn:Ec.
        * inv_some. subst st'. split; [exact Hb|]. cbn. rewrite Eret.
          constructor; unf_all; cbn; rewrite ?Epc in *; auto.
        * inv_some. subst st'. split; [destruct (is_file p (sw_i st)); exact Hb|].
          assert (Eret' : send_ret (set_sw_pc (SW_Lock KStat) (if is_file p (sw_i st) then set_sfiles (sw_i st :: sfiles st) st else st)) = None)
            by (destruct (is_file p (sw_i st)); exact Eret).
          rewrite Eret'.
          assert (HF' : rq_live st = true ->
             (forall id, memb id (if is_file p (sw_i st) then sw_i st :: sfiles st else sfiles st)
                         = (id <? S (sw_i st)) && is_file p id && unrequested a id) /\
             (forall id, S (sw_i st) <= id -> nlookup (N.of_nat id) (s_req a) = None)).
          { intros Hl. unf_all. rewrite Epc in Hfiles. destruct (Hfiles Hl) as [HF HG]. split.
            - apply reg_files; [exact HF| |reflexivity]. unfold unrequested. rewrite HG; [reflexivity|lia].
            - intros id Hid. apply HG. lia. }
          constructor; unf_all; destruct (is_file p (sw_i st)) eqn:Ef; cbn; rewrite ?Epc in *; fin.
      + inv_some. subst st'. split; [exact Hb|]. cbn. rewrite Eret.
        constructor; unf_all; cbn; rewrite ?Epc in *; fin.
    - (* SW_Lock k: the mutex is taken, Stream.SendMsg is called *)
      unfold lock_s in H. cbn in H. destruct (s_mu st); [discriminate|]. inv_some. subst st'.
      destruct Hwalk as [Hle Hw]. rewrite Epc in Hw.
      unfold acc_k in Hk. rewrite Epc in Hk.
      destruct k; cbn [abs_walk AccEvents.run].
      + (* STAT *)
        destruct Hw as [Hendm Hlt]. destruct (nth_error exp (sw_i st)) as [en|] eqn:En;
          [|apply nth_error_None in En; lia].
        unfold sender_acc. rewrite Hret, Hfin, Hendm, Hk, En, stat_eqb_refl.
        eexists. split; [reflexivity|]. split; [exact Hb|]. cbn. rewrite Eret.
        constructor; unf_all; cbn; rewrite ?Epc in *; fin.
      + (* end of the STATs *)
        destruct Hw as [Hendm Heq].
        unfold sender_acc. rewrite Hret, Hfin, Hendm, Hk, Heq, Nat.eqb_refl.
        eexists. split; [reflexivity|]. split; [exact Hb|]. cbn. rewrite Eret.
        constructor; unf_all; cbn; rewrite ?Epc in *; fin.
      + (* ERR *)
        unfold sender_acc. rewrite Hret, Hfin.
        assert (Hbad : SenderAcc.s_err a || s_soft a = true) by (destruct Hw as [E|E]; rewrite E; auto using orb_true_r).
        rewrite Hbad.
        eexists. split; [reflexivity|]. split; [exact Hb|]. cbn. rewrite Eret.
        constructor; unf_all; cbn; rewrite ?Epc in *; fin.
    - (* SW_Send k: SendMsg completes *)
      unfold send_s in H. rewrite Hb in H. destruct (room_sr p st); [|discriminate].
      exists a. split; [reflexivity|].
      destruct Hwalk as [Hle Hw]. rewrite Epc in Hw.
      unfold acc_k in Hk. rewrite Epc in Hk.
      destruct k; inv_some; subst st'; (split; [exact Hb|]); cbn; rewrite Eret.
      + constructor; unf_all; cbn; rewrite ?Epc in *; fin.
      + constructor; unf_all; cbn; rewrite ?Epc in *; fin.
      + constructor; unf_all; cbn; rewrite ?Epc in *; fin.
        destruct (rq_pc st) as [| | | | |[]|[]|]; intuition auto.
    - discriminate.
  Qed.
End Sim.
