(* Refinement LTS (receiver side) -> receiver acceptor, part 2: association lists of the
   acceptor (r_files, r_open) characterised by a predicate on LTS ids. *)
From Coq Require Import List NArith Bool Arith PeanoNat Lia.
From FS Require Import Sx Model.Stat Model.AccEvents Proofs.AccEventsP.
Import ListNotations.
Local Open Scope nat_scope.

Lemma nodup_in_nlookup : forall A (m : list (N * A)) k v, NoDup (map fst m) -> In (k, v) m -> nlookup k m = Some v.
Proof.
  induction m as [|[k' v'] m IH]; intros k v Hd Hin; [destruct Hin|].
  cbn in Hd. inversion Hd as [|? ? Hn Hd']; subst. cbn. destruct Hin as [E|Hin].
  - inversion E; subst. rewrite N.eqb_refl. reflexivity.
  - destruct (N.eqb_spec k k'); [|apply IH; assumption]. subst. exfalso. apply Hn.
    apply (in_map fst) in Hin. exact Hin.
Qed.

Lemma in_nremove : forall A (k : N) (x : N * A) m, In x (nremove k m) -> In x m.
Proof.
  induction m as [|[k' v'] m IH]; cbn; intros H; [exact H|].
  destruct (N.eqb k k'); [right; exact H|]. destruct H as [H|H]; [left; exact H|right; apply IH; exact H].
Qed.

Lemma in_nremove_key : forall A (k : N) (v : A) m, NoDup (map fst m) -> In (k, v) (nremove k m) -> False.
Proof.
  intros A k v m Hd Hin. pose proof (nodup_map_fst_nremove _ k m Hd) as Hd'.
  apply (nodup_in_nlookup _ _ _ _ Hd') in Hin. rewrite nlookup_nremove_same in Hin by exact Hd. discriminate.
Qed.

Lemma in_nupdate : forall A (k : N) (v : A) (x : N * A) m, In x (nupdate k v m) -> In x m \/ x = (k, v).
Proof.
  induction m as [|[k' v'] m IH]; cbn; intros H; [destruct H|].
  destruct (N.eqb_spec k k').
  - subst. destruct H as [H|H]; [right; symmetry; exact H|left; right; exact H].
  - destruct H as [H|H]; [left; left; exact H|]. destruct (IH H); [left; right; assumption|right; assumption].
Qed.

Section Keyed.
  Variable V : Type.
  Variable val : nat -> V -> Prop.

  (* the keys of m are exactly (the images of) the ids satisfying P, with values allowed by val *)
  Definition keyed (P : nat -> Prop) (m : list (N * V)) : Prop :=
    NoDup (map fst m) /\
    (forall k v, In (k, v) m -> exists i, k = N.of_nat i /\ P i /\ val i v) /\
    (forall i, P i -> nlookup (N.of_nat i) m <> None).

  Lemma keyed_iff : forall P P' m, (forall i, P i <-> P' i) -> keyed P m -> keyed P' m.
  Proof.
    intros P P' m H (Hd & H1 & H2). split; [exact Hd|]. split.
    - intros k v Hin. destruct (H1 k v Hin) as (i & E & Hp & Hv). exists i. split; [exact E|]. split; [apply H; exact Hp|exact Hv].
    - intros i Hp. apply H2. apply H. exact Hp.
  Qed.

  Lemma keyed_lookup : forall P m i, keyed P m -> P i -> exists v, nlookup (N.of_nat i) m = Some v /\ val i v.
  Proof.
    intros P m i (Hd & H1 & H2) Hp. destruct (nlookup (N.of_nat i) m) as [v|] eqn:E; [|exfalso; apply (H2 i Hp); exact E].
    exists v. split; [reflexivity|]. apply nlookup_in in E. destruct (H1 _ _ E) as (i' & Ek & _ & Hv).
    apply Nat2N.inj in Ek. subst i'. exact Hv.
  Qed.

  Lemma keyed_none : forall P m i, keyed P m -> ~ P i -> nlookup (N.of_nat i) m = None.
  Proof.
    intros P m i (Hd & H1 & H2) Hn. destruct (nlookup (N.of_nat i) m) as [v|] eqn:E; [|reflexivity].
    apply nlookup_in in E. destruct (H1 _ _ E) as (i' & Ek & Hp & _). apply Nat2N.inj in Ek. subst i'. contradiction.
  Qed.

  Lemma keyed_some : forall P m k v, keyed P m -> nlookup k m = Some v -> exists i, k = N.of_nat i /\ P i /\ val i v.
  Proof. intros P m k v (_ & H1 & _) E. apply H1. apply nlookup_in. exact E. Qed.

  Lemma keyed_add : forall P P' m i0 v,
    keyed P m -> ~ P i0 -> (forall i, P' i <-> P i \/ i = i0) -> val i0 v -> keyed P' ((N.of_nat i0, v) :: m).
  Proof.
    intros P P' m i0 v Hk Hn H Hv. pose proof (keyed_none _ _ _ Hk Hn) as Hnone. destruct Hk as (Hd & H1 & H2).
    split; [cbn; constructor; [apply nlookup_none_notin; exact Hnone|exact Hd]|]. split.
    - intros k w [E|Hin].
      + inversion E; subst. exists i0. split; [reflexivity|]. split; [apply H; right; reflexivity|exact Hv].
      + destruct (H1 k w Hin) as (i & E & Hp & Hw). exists i. split; [exact E|]. split; [apply H; left; exact Hp|exact Hw].
    - intros i Hp. cbn. destruct (N.eqb_spec (N.of_nat i) (N.of_nat i0)); [discriminate|].
      apply H2. apply H in Hp. destruct Hp as [Hp|Hp]; [exact Hp|subst; congruence].
  Qed.

  Lemma keyed_remove : forall P P' m i0,
    keyed P m -> (forall i, P' i <-> P i /\ i <> i0) -> keyed P' (nremove (N.of_nat i0) m).
  Proof.
    intros P P' m i0 (Hd & H1 & H2) H. split; [apply nodup_map_fst_nremove; exact Hd|]. split.
    - intros k v Hin. destruct (H1 k v (in_nremove _ _ _ _ Hin)) as (i & E & Hp & Hv). exists i. split; [exact E|].
      split; [|exact Hv]. apply H. split; [exact Hp|]. intros X. subst. eapply in_nremove_key; eauto.
    - intros i Hp. apply H in Hp. destruct Hp as [Hp Hne]. rewrite nlookup_nremove_other.
      + apply H2. exact Hp.
      + intros E. apply Nat2N.inj in E. contradiction.
  Qed.

  Lemma keyed_update : forall P m k v,
    keyed P m -> (forall i, k = N.of_nat i -> val i v) -> keyed P (nupdate k v m).
  Proof.
    intros P m k v (Hd & H1 & H2) Hv. split; [rewrite map_fst_nupdate; exact Hd|]. split.
    - intros k' w Hin. destruct (in_nupdate _ _ _ _ _ Hin) as [Hin'|E].
      + apply H1. exact Hin'.
      + inversion E; subst k' w. clear E.
        assert (Hk : In k (map fst (nupdate k v m))) by (apply (in_map fst) in Hin; exact Hin).
        rewrite map_fst_nupdate in Hk. apply in_map_iff in Hk. destruct Hk as ([k0 w0] & E0 & Hin0). cbn in E0. subst k0.
        destruct (H1 _ _ Hin0) as (i & E & Hp & _). exists i. split; [exact E|]. split; [exact Hp|apply Hv; exact E].
    - intros i Hp. apply nlookup_nupdate_keys. apply H2. exact Hp.
  Qed.

  Lemma keyed_nil : forall P m, keyed P m -> (forall i, ~ P i) -> m = [].
  Proof.
    intros P m (_ & H1 & _) Hn. destruct m as [|[k v] m]; [reflexivity|].
    destruct (H1 k v (or_introl eq_refl)) as (i & _ & Hp & _). exfalso. exact (Hn i Hp).
  Qed.
End Keyed.
