(* C15 — repeating a successful copy changes nothing (one literal source, no link groups). *)
From Coq Require Import List NArith Bool Lia ZifyN ZifyNat ZifyBool.
From FS Require Import Sx Model.Path Model.SymMode Model.Copier Model.CopySpec Proofs.Lex
  Proofs.CopierP Proofs.CopyOpsP Proofs.CopyDentP Proofs.CopyNodeP Proofs.CopyMkdirP Proofs.CopyConflictP
  Proofs.CopyTopP Proofs.CopyThmP Proofs.CopyFaithP.
Import ListNotations.
Open Scope N_scope.
Open Scope bool_scope.

(* ------------------------------------------------------------------ copying over a copy *)
Definition feq (a b : dent) : Prop :=
  d_mode a = d_mode b /\ d_uid a = d_uid b /\ d_gid a = d_gid b /\ d_mtime a = d_mtime b /\
  d_rdev a = d_rdev b /\ d_target a = d_target b /\ d_xattrs a = d_xattrs b /\ d_content a = d_content b.
Lemma feq_refl a : feq a a. Proof. repeat split. Qed.
Lemma feq_sym a b : feq a b -> feq b a. Proof. unfold feq. intuition. Qed.
Lemma feq_trans a b c : feq a b -> feq b c -> feq a c. Proof. unfold feq. intuition congruence. Qed.

Section Again.
  Variable o : copts.
  Variable ms : option (list bitcmd).
  Variable multi : N -> bool.
  Notation copied := (copied o ms multi).
  Notation new_entry := (new_entry o ms multi).

  Lemma new_entry_ftype s p : ftype (x_d (new_entry s p)) = copy_type (sdent s).
  Proof.
    unfold CopySpec.new_entry, ftype. cbn [x_d d_mode]. apply ftype_mk; [apply copy_type_fmt|].
    destruct (is_lnk (sdent s)); [rewrite <- perm12_idem|rewrite <- info_mode_idem]; apply land_all_fmt.
  Qed.

  Lemma feq_merged_again sd d0 d1 : xsorted (d_xattrs sd) ->
    feq d1 (merged_d o ms sd d0) -> feq (merged_d o ms sd d1) d1.
  Proof.
    intros Hx (A1 & A2 & A3 & A4 & A5 & A6 & A7 & A8). unfold merged_d in *.
    cbn [set_xattrs set_mtime set_perm set_owner d_mode d_uid d_gid d_mtime d_rdev d_target d_xattrs d_content] in *.
    change (ftype (set_owner (fst (info_owner o sd)) (snd (info_owner o sd)) d0)) with (ftype d0) in A1.
    change (ftype (set_owner (fst (info_owner o sd)) (snd (info_owner o sd)) d1)) with (ftype d1).
    unfold feq. cbn [set_xattrs set_mtime set_perm set_owner d_mode d_uid d_gid d_mtime d_rdev d_target d_xattrs d_content].
    change (ftype (set_owner (fst (info_owner o sd)) (snd (info_owner o sd)) d1)) with (ftype d1).
    repeat split; auto.
    - rewrite A1. f_equal. unfold ftype. rewrite A1. apply ftype_mk; [apply land_idem2|apply land_all_fmt].
    - rewrite A7. apply merge_idem; auto.
  Qed.

  Lemma copied_again s old top p d1 e' :
    wf_dent (sdent s) -> x_d e' = d1 -> feq d1 (x_d (copied s old top p)) ->
    feq (x_d (copied s (Some e') top p)) d1.
  Proof.
    intros (Hz & Hl & Htg & Hx) He' Hf. set (sd := sdent s) in *.
    assert (New : feq d1 (x_d (new_entry s p)) -> feq (x_d (copied s (Some e') top p)) d1).
    { intro Hn. unfold CopySpec.copied. fold sd. rewrite He'.
      assert (Hft : ftype d1 = copy_type sd).
      { pose proof (new_entry_ftype s p) as Hne. fold sd in Hne. rewrite <- Hne. apply ftype_mode. apply Hn. }
      destruct (is_dir sd) eqn:Hd; cbn [andb]; [|apply feq_sym; auto].
      destruct (type_facts sd) as (_ & _ & TD). destruct (TD Hd) as (C1 & C2 & C3 & C4 & C5).
      assert (Hd1 : is_dir d1 = true) by (unfold is_dir; rewrite Hft, C5; reflexivity).
      rewrite Hd1. destruct Hn as (A1 & A2 & A3 & A4 & A5 & A6 & A7 & A8).
      unfold CopySpec.new_entry in *. fold sd in A1, A2, A3, A4, A5, A6, A7, A8.
      cbn [x_d d_mode d_uid d_gid d_mtime d_rdev d_target d_xattrs d_content] in *. rewrite C2 in A1.
      destruct top; cbn [x_d].
      - unfold feq. cbn [set_mtime d_mode d_uid d_gid d_mtime d_rdev d_target d_xattrs d_content]. repeat split; auto.
      - unfold feq. cbn [set_xattrs set_mtime set_perm set_owner d_mode d_uid d_gid d_mtime d_rdev d_target d_xattrs d_content].
        change (ftype (set_owner (fst (info_owner o sd)) (snd (info_owner o sd)) d1)) with (ftype d1).
        rewrite Hft, C5, info_mode_idem. repeat split; auto.
        + rewrite A1, C5. auto.
        + rewrite A7. apply merge_self; auto. }
    unfold CopySpec.copied in Hf. fold sd in Hf.
    destruct old as [e|]; auto.
    destruct (is_dir sd && is_dir (x_d e)) eqn:Eb; auto.
    apply andb_true_iff in Eb as [Hd Hde].
    unfold CopySpec.copied. fold sd. rewrite He', Hd. cbn [andb].
    destruct top; cbn [x_d] in Hf |- *.
    - assert (Hd1 : is_dir d1 = true).
      { rewrite <- Hde. apply is_dir_ftype, ftype_mode. destruct Hf as (A1 & _). rewrite A1. reflexivity. }
      rewrite Hd1. cbn [x_d]. destruct Hf as (A1 & A2 & A3 & A4 & A5 & A6 & A7 & A8).
      unfold feq. cbn [set_mtime d_mode d_uid d_gid d_mtime d_rdev d_target d_xattrs d_content] in *. repeat split; auto.
    - assert (Hd1 : is_dir d1 = true).
      { rewrite <- Hde. apply is_dir_ftype. rewrite (ftype_mode _ _ (proj1 Hf)).
        fold (merged_d o ms sd (x_d e)). unfold merged_d. rewrite ftype_set_xattrs, ftype_set_mtime, ftype_set_perm. reflexivity. }
      rewrite Hd1. cbn [x_d]. apply (feq_merged_again sd (x_d e) d1 Hx Hf).
  Qed.
End Again.

(* ------------------------------------------------------------------ specification-side facts *)
Lemma snoc_ne_self' (P : list (list N)) a : P <> P ++ [a].
Proof. intro E. symmetry in E. revert E. apply snoc_ne_self. Qed.
Lemma sr_fold_inr V l e : fold_left (sr_step V) l (inr e) = inr e.
Proof. induction l; simpl; auto. Qed.

Lemma spec_resolve_lex V p q : spec_resolve V p = inl q -> q = rooted p.
Proof.
  rewrite spec_resolve_fold. unfold rooted.
  generalize (@nil (list N)) as stk. induction (comps p) as [|c l IH]; intros stk; cbn [fold_left].
  - intro H; inversion H; auto.
  - cbn [sr_step]. cbv zeta. destruct (lex_step stk c) as [|x s] eqn:E.
    + rewrite <- E. intro H. rewrite E in H. apply IH in H. rewrite E. auto.
    + destruct (V (parent (x :: s))) as [pe|].
      * destruct (is_dir (x_d pe)).
        -- destruct (match V (x :: s) with Some e => is_lnk (x_d e) | None => false end).
           ++ rewrite sr_fold_inr. discriminate.
           ++ apply IH.
        -- rewrite sr_fold_inr. discriminate.
      * apply IH.
Qed.

Lemma make_dirs_keep o r : forall pre V V1, make_dirs o pre r V = inl V1 ->
  forall p e0, V p = Some e0 -> exists e, V1 p = Some e /\ x_d e = x_d e0.
Proof.
  induction r as [|c r IH]; intros pre V V1.
  - rewrite make_dirs_nil. destruct (V pre) as [e|]; [|discriminate].
    destruct (negb (is_dir (x_d e))); [discriminate|]. intro H; inversion H; subst. eauto.
  - rewrite make_dirs_cons. destruct (V pre) as [e|] eqn:Ep; [|discriminate].
    destruct (negb (is_dir (x_d e))); [discriminate|].
    destruct (V (pre ++ [c])) eqn:En; intros H p e0 Hp.
    + eapply IH; eauto.
    + assert (Hne : p <> pre ++ [c]) by (intro; subst; congruence).
      destruct (path_dec p pre) as [->|Hn2].
      * rewrite Ep in Hp. inversion Hp; subst e0.
        destruct (IH _ _ _ H pre (touched o e)) as (e1 & A & B).
        { rewrite xupd_other by auto. rewrite touch_same, Ep. auto. }
        exists e1. split; auto. rewrite B, touched_d. auto.
      * eapply IH; eauto. rewrite xupd_other, touch_other; auto.
Qed.

Lemma make_dirs_prefix_dirs o r : forall pre V V1, make_dirs o pre r V = inl V1 ->
  forall q, In q (prefixes pre r) -> x_isdir (V1 q) = true.
Proof.
  induction r as [|c r IH]; intros pre V V1.
  - rewrite make_dirs_nil. destruct (V pre) as [e|] eqn:Ep; [|discriminate].
    destruct (is_dir (x_d e)) eqn:Ed; [|discriminate]. intro H; inversion H; subst.
    intros q [<-|[]]. unfold x_isdir. rewrite Ep. auto.
  - rewrite make_dirs_cons. destruct (V pre) as [e|] eqn:Ep; [|discriminate].
    destruct (is_dir (x_d e)) eqn:Ed; [|discriminate]. cbn [negb prefixes].
    destruct (V (pre ++ [c])) eqn:En; intros H q [<-|Hq]; try (eapply IH; eauto; fail).
    + eapply make_dirs_mono; eauto. unfold x_isdir. rewrite Ep. auto.
    + eapply make_dirs_mono; eauto. rewrite xupd_other by apply snoc_ne_self'.
      rewrite touch_isdir. unfold x_isdir. rewrite Ep. auto.
Qed.

Lemma prefixes_in r : forall pre q, In q (prefixes pre r) <-> exists r1 r2, r = r1 ++ r2 /\ q = pre ++ r1.
Proof.
  induction r as [|c r IH]; intros pre q; cbn [prefixes].
  - split.
    + intros [<-|[]]. exists [], []. split; [reflexivity|rewrite app_nil_r; reflexivity].
    + intros (r1 & r2 & E & ->). symmetry in E. apply app_eq_nil in E as [-> _]. rewrite app_nil_r. left; auto.
  - split.
    + intros [<-|H].
      * exists [], (c :: r). split; [reflexivity|rewrite app_nil_r; reflexivity].
      * apply IH in H. destruct H as (r1 & r2 & -> & ->). exists (c :: r1), r2. rewrite <- app_assoc. auto.
    + intros (r1 & r2 & E & ->). destruct r1 as [|c' r1].
      * left. rewrite app_nil_r. auto.
      * simpl in E. inversion E; subst. right. apply IH. exists r1, r2. rewrite <- app_assoc. auto.
Qed.

Lemma copied_known o ms multi s old top p : x_known (copied o ms multi s old top p) = true.
Proof.
  unfold copied, new_entry. destruct old as [e|]; auto.
  destruct (is_dir (sdent s) && is_dir (x_d e)); auto. destruct top; auto.
Qed.

Definition same_dF (a b : option xdent) : Prop :=
  match a, b with
  | None, None => True
  | Some e1, Some e2 => feq (x_d e1) (x_d e2)
  | _, _ => False
  end.

Section Idem.
  Variable o : copts.
  Variable sroot : snode.
  Hypothesis Hsrc : wf_src sroot.
  Notation multi := (multi_of sroot).

  Lemma touch_d P V p : same_dF (touch o P V p) (V p).
  Proof.
    destruct (path_dec p P) as [->|Hn].
    - rewrite touch_same. destruct (V P); simpl; auto. rewrite touched_d. apply feq_refl.
    - rewrite touch_other by auto. destruct (V p); simpl; auto. apply feq_refl.
  Qed.
  Lemma same_dF_refl a : same_dF a a.
  Proof. destruct a; simpl; auto. apply feq_refl. Qed.
  Lemma same_dF_trans a b c : same_dF a b -> same_dF b c -> same_dF a c.
  Proof. destruct a, b, c; simpl; try tauto. apply feq_trans. Qed.

  Lemma res_unrel_d ms sn L tp V p : strip_prefix L p = None ->
    same_dF (CopyNodeP.res o ms multi sn L tp V p) (V p).
  Proof.
    intro H. unfold CopyNodeP.res. destruct (_ && _).
    - rewrite ov_unrel by auto. apply same_dF_refl.
    - eapply same_dF_trans; [apply touch_d|]. rewrite ov_unrel by auto. apply same_dF_refl.
  Qed.

  Lemma res_below_nonsource ms sn L V rel :
    (L = [] -> is_dir (sdent sn) = true /\ x_isdir (V []) = true) ->
    s_lookup sn rel = None ->
    CopyNodeP.res o ms multi sn L true V (L ++ rel) = if shadowed sn rel then None else V (L ++ rel).
  Proof.
    intros HL Hs. unfold CopyNodeP.res.
    assert (E : ov o ms multi sn L true V (L ++ rel) = if shadowed sn rel then None else V (L ++ rel)).
    { unfold ov. rewrite strip_prefix_app, Hs. auto. }
    assert (rel <> []) by (intro; subst; destruct sn; discriminate).
    destruct (path_snoc_cases L) as [->|(P & a & ->)].
    - destruct (HL eq_refl) as [-> ->]. auto.
    - destruct (_ && _); auto. rewrite parent_snoc, touch_other; auto. rewrite <- app_assoc. apply snoc_ne_self.
  Qed.

  (* copying the same source again over a view that holds the result of the first copy *)
  Lemma second_view ms sn L V1 Vs :
    wf_s sn ->
    (L = [] -> is_dir (sdent sn) = true /\ x_isdir (Vs []) = true) ->
    (forall rel s, s_lookup sn rel = Some s ->
       exists e', Vs (L ++ rel) = Some e' /\
                  feq (x_d e') (x_d (copied o ms multi s (V1 (L ++ rel)) (match rel with [] => true | _ => false end) (L ++ rel)))) ->
    (forall rel, s_lookup sn rel = None -> shadowed sn rel = true -> Vs (L ++ rel) = None) ->
    forall p, same_dF (CopyNodeP.res o ms multi sn L true Vs p) (Vs p).
  Proof.
    intros Hwf HL HA HB p. destruct (path_cases L p) as [(rel & ->)|Hu]; [|apply res_unrel_d; auto].
    destruct (s_lookup sn rel) as [s|] eqn:Es.
    - rewrite (res_at_source o sroot ms sn L Vs rel s HL Es).
      destruct (HA rel s Es) as (e' & E1 & E2). rewrite E1. simpl.
      eapply copied_again; eauto. eapply wf_s_dent, s_lookup_wf; eauto.
    - rewrite (res_below_nonsource ms sn L Vs rel HL Es).
      destruct (shadowed sn rel) eqn:Esh; [rewrite (HB rel Es Esh); simpl; auto|apply same_dF_refl].
  Qed.
End Idem.

(* the fields two dentries share when only the time may differ *)
Definition same_but_time (a b : dent) : Prop :=
  d_mode a = d_mode b /\ d_uid a = d_uid b /\ d_gid a = d_gid b /\ d_rdev a = d_rdev b /\
  d_target a = d_target b /\ d_xattrs a = d_xattrs b /\ d_content a = d_content b.

Section IdemThm.
  Variable o : copts.
  Variable sroot : snode.
  Hypothesis Hsrc : wf_src sroot.
  Hypothesis Hlc : links_consistent sroot.
  Notation multi := (multi_of sroot).

  Theorem copy_idempotent_partial_proof fs src dst r1 st1 r2 ms sn L :
    o_wild o = false -> wf_fs fs ->
    overlay_all o sroot (view_of_fs fs) src dst = inl r1 ->
    copy_top o sel_all sroot fs src dst = (st1, None) ->
    parse_of o = Some ms -> s_resolve sroot (rooted src) = inl sn ->
    xr_landings r1 = [L] -> landing_clear r1 sn L ->
    overlay_all o sroot (view_of_fs (c_fs st1)) src dst = inl r2 -> xr_landings r2 = [L] ->
    exists st2, copy_top o sel_all sroot (c_fs st1) src dst = (st2, None) /\
      forall p, match view_of_fs (c_fs st1) p, view_of_fs (c_fs st2) p with
                | None, None => True
                | Some (_, d1), Some (_, d2) =>
                    same_but_time d1 d2 /\
                    (d_mtime d1 = d_mtime d2 \/ exists e, xr_view r2 p = Some e /\ x_known e = false)
                | _, _ => False
                end.
  Proof.
    intros Hw Hfs Eo1 Ec1 Hp Hs HL1 Hclear Eo2 HL2.
    (* first run *)
    destruct (top o sroot Hsrc Hlc (or_intror Hw) fs src dst Hfs) as (sdof1 & T1). rewrite Eo1 in T1.
    destruct T1 as (st1' & Ec1' & I1 & S1 & _). rewrite Ec1 in Ec1'. inversion Ec1'; subst st1'. clear Ec1'.
    destruct (inv_init o fs Hfs) as (_ & Hroot0 & _).
    destruct (overlay_all_single o sroot Hsrc _ src dst r1 Hw Hroot0 Eo1)
      as (X1 & eps & ms1 & sn1 & D & V1 & B1 & B2 & B3 & B4 & B5 & B6 & B7 & B8 & B9 & B10 & B11 & B12).
    rewrite Hp in B2. inversion B2; subst ms1. rewrite Hs in B3. inversion B3; subst sn1.
    rewrite HL1 in B10. inversion B10 as [HLa]. rewrite <- HLa in *. clear HLa B10.
    set (target := if o_dircontents o && is_dir (sdent sn) && negb (x_exists (X1 D)) then L else parent L) in *.
    (* second run *)
    set (fs1 := c_fs st1) in *.
    assert (Hfs1 : wf_fs fs1) by (eapply (copy_preserves_wf_proof o sroot Hsrc Hlc); eauto).
    destruct (top o sroot Hsrc Hlc (or_intror Hw) fs1 src dst Hfs1) as (sdof2 & T2). rewrite Eo2 in T2.
    destruct T2 as (st2 & Ec2 & I2 & S2 & _). exists st2. split; auto.
    destruct (inv_init o fs1 Hfs1) as (I0' & Hroot0' & _).
    destruct (overlay_all_single o sroot Hsrc _ src dst r2 Hw Hroot0' Eo2)
      as (X1' & eps' & ms2 & sn2 & D' & V1' & C1 & C2 & C3 & C4 & C5 & C6 & C7 & C8 & C9 & C10 & C11 & C12).
    rewrite Hp in C2. inversion C2; subst ms2. rewrite Hs in C3. inversion C3; subst sn2.
    rewrite HL2 in C10. inversion C10 as [HLb]. rewrite <- HLb in *. clear HLb C10.
    set (target' := if o_dircontents o && is_dir (sdent sn) && negb (x_exists (X1' D')) then L else parent L) in *.
    set (X0' := xview_of (view_of_fs fs1)) in *.
    pose proof (s_resolve_wf_src sroot Hsrc _ _ Hs) as Hwfn.
    (* what exists after the first run *)
    assert (Ex1 : forall q, res o ms multi sn L true V1 q <> None -> X0' q <> None).
    { intros q Hq. rewrite <- B8 in Hq. unfold X0', xview_of, view_of_fs.
      destruct (names fs1 q) eqn:En; [discriminate|]. rewrite (i_none _ _ _ I1 _ En) in Hq. congruence. }
    assert (ExV1 : forall q, x_isdir (V1 q) = true -> In q (xr_paths r1) -> X0' q <> None).
    { intros q Hq Hin. apply Ex1. destruct (path_cases L q) as [(rel & ->)|Hu].
      - destruct (s_lookup sn rel) as [s|] eqn:Es.
        + rewrite (res_at_source o sroot ms sn L V1 rel s B7 Es). discriminate.
        + exfalso. assert (rel <> []) by (intro; subst; destruct sn; discriminate).
          apply (Hclear rel H Hin Es).
      - pose proof (res_unrel_d o sroot ms sn L true V1 q Hu) as Hd.
        unfold x_isdir in Hq. destruct (V1 q); [|discriminate].
        destruct (res o ms multi sn L true V1 q); [discriminate|contradiction]. }
    (* the directories the second run wants exist already *)
    assert (Pfx1 : forall q, In q (prefixes [] target) -> x_isdir (V1 q) = true).
    { intros q Hq. eapply make_dirs_prefix_dirs; eauto. }
    assert (PfxL : forall q, In q (prefixes [] L) -> X0' q <> None).
    { intros q Hq. apply prefixes_in in Hq. destruct Hq as (r1' & r2' & EL & ->). simpl.
      destruct r2' as [|c r2'] using rev_ind.
      - rewrite app_nil_r in EL. subst r1'. apply Ex1.
        rewrite <- (app_nil_r L) at 2. destruct sn as [nm ino sd kids] eqn:Esn.
        rewrite (res_at_source o sroot ms _ L V1 [] _ B7 eq_refl). discriminate.
      - apply ExV1.
        + apply Pfx1. apply prefixes_in. unfold target.
          destruct (o_dircontents o && is_dir (sdent sn) && negb (x_exists (X1 D))).
          * exists r1', (r2' ++ [c]). auto.
          * exists r1', r2'. split; auto. rewrite EL, app_assoc. rewrite parent_snoc. auto.
        + rewrite B12. apply in_or_app. right. apply in_or_app. left. apply prefixes_in. unfold target.
          destruct (o_dircontents o && is_dir (sdent sn) && negb (x_exists (X1 D))).
          * exists r1', (r2' ++ [c]). auto.
          * exists r1', r2'. split; auto. rewrite EL, app_assoc. rewrite parent_snoc. auto. }
    assert (PfxT' : forall q, In q (prefixes [] target') -> X0' q <> None).
    { intros q Hq. apply PfxL. unfold target' in Hq.
      destruct (o_dircontents o && is_dir (sdent sn) && negb (x_exists (X1' D'))); auto.
      apply prefixes_in in Hq. destruct Hq as (r1' & r2' & EL & ->). apply prefixes_in.
      destruct (path_snoc_cases L) as [->|(P & a & ->)].
      - simpl in EL. symmetry in EL. apply app_eq_nil in EL as [-> ->]. exists [], []. auto.
      - rewrite parent_snoc in EL. exists r1', (r2' ++ [a]). rewrite EL, app_assoc. auto. }
    assert (PfxE' : forall q, In q eps' -> X0' q <> None).
    { intros q Hq. destruct C1 as [(_ & _ & ->)|(Hne & ep' & Esr' & _ & ->)]; [destruct Hq|].
      destruct B1 as [(Hnil & _)|(_ & ep & Esr & EMe & Eeps)]; [congruence|].
      assert (ep' = ep) by (rewrite (spec_resolve_lex _ _ _ Esr'), (spec_resolve_lex _ _ _ Esr); auto). subst ep'.
      apply ExV1.
      - eapply make_dirs_mono; eauto. eapply make_dirs_prefix_dirs; eauto.
      - rewrite B12, Eeps. apply in_or_app. auto. }
    assert (A1 : forall q, V1' q <> None -> X0' q <> None).
    { intros q Hq. destruct (make_dirs_dom _ _ _ _ _ C5 q Hq) as [Hq1|Hq1]; [|apply PfxT'; auto].
      destruct C1 as [(_ & -> & _)|(_ & ep' & _ & EMe' & Ee')]; auto.
      destruct (make_dirs_dom _ _ _ _ _ EMe' q Hq1) as [Hq2|Hq2]; auto. apply PfxE'. rewrite Ee'. auto. }
    assert (A2 : forall q e0, X0' q = Some e0 -> exists e, V1' q = Some e /\ x_d e = x_d e0).
    { intros q e0 Hq.
      assert (exists e1, X1' q = Some e1 /\ x_d e1 = x_d e0) as (e1 & E1 & E2).
      { destruct C1 as [(_ & -> & _)|(_ & ep' & _ & EMe' & _)]; eauto. eapply make_dirs_keep; eauto. }
      destruct (make_dirs_keep _ _ _ _ _ C5 q e1 E1) as (e & E3 & E4). exists e. split; auto. congruence. }
    (* the second overlay leaves every dentry as it is *)
    assert (SV : forall p, same_dF (res o ms multi sn L true V1' p) (V1' p)).
    { apply (second_view o sroot ms sn L V1 V1'); auto.
      - intros rel s Es.
        pose proof (B8 (L ++ rel)) as Ex. rewrite (res_at_source o sroot ms sn L V1 rel s B7 Es) in Ex.
        destruct (inv_x_some _ _ _ _ _ I1 Ex) as (i & Hi & Hdm & _).
        assert (HX0 : X0' (L ++ rel) = Some {| x_d := inodes fs1 i; x_known := true; x_key := KDst i; x_mk := false |}).
        { unfold X0', xview_of, view_of_fs. rewrite Hi. auto. }
        destruct (A2 _ _ HX0) as (e' & E1 & E2). exists e'. split; auto. rewrite E2. cbn [x_d].
        pose proof (S1 _ _ _ Hi Ex (copied_known _ _ _ _ _ _ _)) as Ht.
        destruct Hdm as (D1 & D2 & D3 & _ & D5 & D6 & D7 & D8). repeat split; auto.
      - intros rel Es Esh.
        pose proof (B8 (L ++ rel)) as Ex. rewrite (res_below_nonsource o sroot ms sn L V1 rel B7 Es), Esh in Ex.
        destruct (V1' (L ++ rel)) eqn:EV; auto. exfalso.
        assert (X0' (L ++ rel) <> None) by (apply A1; congruence).
        apply H. unfold X0', xview_of, view_of_fs. rewrite (inv_x_none _ _ _ _ I1 Ex). auto. }
    intro p. unfold view_of_fs.
    destruct (names fs1 p) as [i1|] eqn:En1.
    - assert (HX0 : X0' p = Some {| x_d := inodes fs1 i1; x_known := true; x_key := KDst i1; x_mk := false |}).
      { unfold X0', xview_of, view_of_fs. rewrite En1. auto. }
      destruct (A2 _ _ HX0) as (e' & E1 & E2). cbn [x_d] in E2.
      pose proof (SV p) as Hsv. rewrite E1 in Hsv. rewrite <- C8 in Hsv.
      destruct (xr_view r2 p) as [e2|] eqn:E2v; [|contradiction]. simpl in Hsv. rewrite E2 in Hsv.
      destruct (inv_x_some _ _ _ _ _ I2 E2v) as (i2 & Hi2 & Hdm2 & _). rewrite Hi2.
      destruct Hsv as (F1 & F2 & F3 & F4 & F5 & F6 & F7 & F8).
      destruct Hdm2 as (G1 & G2 & G3 & _ & G5 & G6 & G7 & G8).
      split; [unfold same_but_time; repeat split; congruence|].
      destruct (x_known e2) eqn:Ek.
      + left. rewrite (S2 _ _ _ Hi2 E2v Ek). auto.
      + right. exists e2. auto.
    - assert (HX0 : X0' p = None) by (unfold X0', xview_of, view_of_fs; rewrite En1; auto).
      assert (EV : V1' p = None) by (destruct (V1' p) eqn:E; auto; exfalso; apply (A1 p); congruence).
      pose proof (SV p) as Hsv. rewrite EV in Hsv. rewrite <- C8 in Hsv.
      destruct (xr_view r2 p) eqn:E2v; [contradiction|]. rewrite (inv_x_none _ _ _ _ I2 E2v). auto.
  Qed.
End IdemThm.
