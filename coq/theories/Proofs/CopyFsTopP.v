(* C14 — MkdirAll, prepareTargetDir and Copy's loop: from the RootPath results (symlink-free
   below dstRoot) to the targets of copy_rec. *)
From Coq Require Import List Arith NArith Lia Bool ZifyN ZifyNat ZifyBool.
From FS Require Import Sx Model.Path Model.Fs Model.RootPath Model.CopyFs Model.CopyFsSpec
  Proofs.Lex Proofs.PathP Proofs.FsP Proofs.RootPathStrP Proofs.FsCopyFrameP Proofs.FsCopyInvP
  Proofs.FsCopySafeP Proofs.FsCopyLinksP Proofs.FsCopySysP Proofs.CopyFsP Proofs.CopyRecP.
Import ListNotations.
Open Scope N_scope.
Open Scope bool_scope.

Local Opaque rfuel.

(* ---- chains and the vocabulary of Model/RootPath.v ---- *)
Lemma chain_plain_dir f : forall cs a e, chain f a cs e -> plain_dir f a cs = Some e.
Proof.
  induction 1 as [d Hd|d x i cs e Hb Hi Hc IH].
  - unfold plain_dir. cbn [plain_lookup]. unfold is_dir in Hd.
    destruct (dir_of f d) as [[p es]|] eqn:E; [|discriminate]. cbn [l_ino]. unfold is_dir. rewrite E. reflexivity.
  - unfold plain_dir in *. cbn [plain_lookup]. unfold dents in Hb.
    destruct (dir_of f d) as [[p es]|] eqn:E; [|discriminate]. rewrite Hb.
    unfold is_dir, dir_of in Hi. destruct (get f i) as [[[p0 es0|?|?|? ?] m]|] eqn:Eg; try discriminate.
    destruct cs as [|y cs].
    + inversion Hc; subst. cbn [is_nil l_ino]. unfold is_dir, dir_of. rewrite Eg. reflexivity.
    + cbn [is_nil]. exact IH.
Qed.

Lemma plain_dir_chain f : forall cs a e, plain_dir f a cs = Some e -> chain f a cs e.
Proof.
  induction cs as [|x cs IH]; intros a e H; unfold plain_dir in H; cbn [plain_lookup] in H.
  - destruct (dir_of f a) as [[p es]|] eqn:E; [|discriminate]. cbn [l_ino] in H.
    destruct (is_dir f a) eqn:Ed; inversion H; subst. constructor; auto.
  - destruct (dir_of f a) as [[p es]|] eqn:E; [|discriminate].
    destruct (blookup x es) as [i|] eqn:Eb.
    + assert (Hb : blookup x (dents f a) = Some i) by (unfold dents; rewrite E; auto).
      destruct (get f i) as [[[p0 es0|dd|t|ty rd] m]|] eqn:Eg.
      * assert (Hi : is_dir f i = true) by (unfold is_dir, dir_of; rewrite Eg; reflexivity).
        destruct cs as [|y cs].
        -- cbn [is_nil l_ino] in H. rewrite Hi in H. inversion H; subst. econstructor; eauto; constructor; auto.
        -- cbn [is_nil] in H. econstructor; eauto.
      * destruct cs as [|y cs]; cbn [is_nil l_ino] in H.
        -- unfold is_dir, dir_of in H. rewrite Eg in H. discriminate.
        -- cbn [plain_lookup] in H. unfold dir_of in H. rewrite Eg in H. discriminate.
      * rewrite andb_false_r in H. discriminate.
      * destruct cs as [|y cs]; cbn [is_nil l_ino] in H.
        -- unfold is_dir, dir_of in H. rewrite Eg in H. discriminate.
        -- cbn [plain_lookup] in H. unfold dir_of in H. rewrite Eg in H. discriminate.
      * destruct cs as [|y cs]; cbn [is_nil l_ino] in H.
        -- unfold is_dir, dir_of in H. rewrite Eg in H. discriminate.
        -- cbn [plain_lookup] in H. unfold dir_of in H. rewrite Eg in H. discriminate.
    + destruct (is_nil cs); cbn [l_ino] in H; discriminate.
Qed.

(* a successful lookup along a symlink-free path that ends on a directory is a chain *)
Lemma link_free_walk_chain f : forall fuel cs a rt fl n r i,
  link_free f a cs = true -> Forall nm cs -> is_dir f a = true ->
  walk fuel f rt a cs fl n = inl r -> l_ino r = Some i -> is_dir f i = true -> chain f a cs i.
Proof.
  induction fuel as [|fuel IH]; intros cs a rt fl n r i Hlf Hcs Ha H Hi Hd; [discriminate|].
  cbn [walk] in H. destruct (dir_of f a) as [[par ents]|] eqn:Ed; [|discriminate].
  destruct cs as [|x rest].
  - inversion H; subst. simpl in Hi. inversion Hi; subst. constructor; auto.
  - inversion Hcs as [|? ? Hx Hrest]; subst. destruct Hx as [(N1 & N2 & N3) _].
    apply bytes_eqb_neq in N2, N3. rewrite N2, N3 in H.
    cbn [link_free] in Hlf. rewrite Ed in Hlf.
    destruct (blookup x ents) as [i0|] eqn:Eb.
    + assert (Hb : blookup x (dents f a) = Some i0) by (unfold dents; rewrite Ed; auto).
      destruct (get f i0) as [[[p0 es0|dd|t|ty rd] m]|] eqn:Eg; try discriminate.
      * assert (Hi0 : is_dir f i0 = true) by (unfold is_dir, dir_of; rewrite Eg; reflexivity).
        destruct rest as [|y rest].
        -- simpl in H. inversion H; subst. simpl in Hi. inversion Hi; subst. econstructor; eauto. constructor; auto.
        -- cbn [is_nil] in H. econstructor; eauto.
      * destruct rest as [|y rest]; cbn [is_nil] in H.
        -- inversion H; subst. simpl in Hi. inversion Hi; subst. unfold is_dir, dir_of in Hd. rewrite Eg in Hd. discriminate.
        -- destruct fuel; [discriminate|]. cbn [walk] in H. unfold dir_of in H. rewrite Eg in H. discriminate.
      * destruct rest as [|y rest]; cbn [is_nil] in H.
        -- inversion H; subst. simpl in Hi. inversion Hi; subst. unfold is_dir, dir_of in Hd. rewrite Eg in Hd. discriminate.
        -- destruct fuel; [discriminate|]. cbn [walk] in H. unfold dir_of in H. rewrite Eg in H. discriminate.
      * destruct rest as [|y rest]; cbn [is_nil] in H.
        -- inversion H; subst. simpl in Hi. inversion Hi; subst. unfold is_dir, dir_of in Hd. rewrite Eg in Hd. discriminate.
        -- destruct fuel; [discriminate|]. cbn [walk] in H. unfold dir_of in H. rewrite Eg in H. discriminate.
    + destruct (is_nil rest); [|discriminate]. inversion H; subst. simpl in Hi. discriminate.
Qed.

(* walking a chain first *)
Lemma walk_chain_prefix f : forall p a m, chain f a p m -> Forall nm p -> forall rest, rest <> [] ->
  forall fuel rt fl n, walk (length p + fuel) f rt a (p ++ rest) fl n = walk fuel f rt m rest fl n.
Proof.
  induction 1 as [d Hd|d x i cs e Hb Hi Hc IH]; intros Hp rest Hne fuel rt fl n; [reflexivity|].
  inversion Hp as [|? ? Hx Hcs]; subst. destruct Hx as [(N1 & N2 & N3) _].
  apply bytes_eqb_neq in N2, N3.
  simpl length. simpl app. cbn [plus walk]. unfold dents in Hb.
  destruct (dir_of f d) as [[par ents]|] eqn:Ed; [|discriminate]. rewrite N2, N3, Hb.
  unfold is_dir, dir_of in Hi. destruct (get f i) as [[[p0 es0|?|?|? ?] m]|] eqn:Eg; try discriminate.
  replace (is_nil (cs ++ rest)) with false by (destruct cs; [destruct rest; [congruence|reflexivity]|reflexivity]).
  apply IH; auto.
Qed.

(* a chain walked with enough fuel reaches its end *)
Lemma walk_chain_full f : forall p a m, chain f a p m -> Forall nm p -> p <> [] ->
  forall fuel rt fl n, (length p <= fuel)%nat ->
  exists r, walk fuel f rt a p fl n = inl r /\ l_ino r = Some m.
Proof.
  induction 1 as [d Hd|d x i cs e Hb Hi Hc IH]; intros Hp Hne fuel rt fl n Hf; [congruence|].
  inversion Hp as [|? ? Hx Hcs]; subst. destruct Hx as [(N1 & N2 & N3) _].
  apply bytes_eqb_neq in N2, N3.
  destruct fuel as [|fuel]; [simpl in Hf; lia|]. cbn [walk]. unfold dents in Hb.
  destruct (dir_of f d) as [[par ents]|] eqn:Ed; [|discriminate]. rewrite N2, N3, Hb.
  unfold is_dir, dir_of in Hi. destruct (get f i) as [[[p0 es0|?|?|? ?] m]|] eqn:Eg; try discriminate.
  destruct cs as [|y cs].
  - inversion Hc; subst. cbn [is_nil]. eexists. split; reflexivity.
  - cbn [is_nil]. apply IH; auto; [discriminate|simpl in *; lia].
Qed.

Lemma rfuel_S : exists k, rfuel = S k.
Proof. Local Transparent rfuel. unfold rfuel. simpl. eexists. reflexivity. Local Opaque rfuel. Qed.

(* ---- strings: the parent path MkdirAll recurses on ---- *)
Lemma strip_render l x : Forall nm (l ++ [x]) -> strip_trailing_seps (render (l ++ [x])) = render (l ++ [x]).
Proof.
  intros H. apply Forall_app in H. destruct H as [_ Hx]. inversion Hx as [|? ? Hx1 _]; subst.
  destruct (exists_last (nm_nonempty _ Hx1)) as (x' & a & ->).
  assert (Ha : a <> sep).
  { intros ->. destruct Hx1 as [_ Hns]. apply Hns. apply in_or_app. right. left. reflexivity. }
  unfold render. destruct l as [|y l].
  - simpl joinc. change (sep :: x' ++ [a]) with ((sep :: x') ++ [a]). apply strip_trailing_seps_id; auto.
  - rewrite joinc_snoc by discriminate.
    replace (sep :: joinc (y :: l) ++ sep :: x' ++ [a]) with ((sep :: joinc (y :: l) ++ sep :: x') ++ [a]).
    + apply strip_trailing_seps_id; auto.
    + simpl. rewrite <- app_assoc. reflexivity.
Qed.

Lemma mk_parent_render l x : Forall nm (l ++ [x]) ->
  mk_parent (render (l ++ [x])) = match l with [] => None | _ => Some (render l) end.
Proof.
  intros H. unfold mk_parent. rewrite strip_render by auto. unfold render. cbn [split_last].
  rewrite split_last_joinc by (apply Forall_nm_nosep; auto).
  destruct l as [|y l].
  - rewrite N.eqb_refl. reflexivity.
  - cbn [length]. replace (Nat.ltb 1 (S (length (joinc (y :: l) ++ [sep])))) with true.
    + change (sep :: joinc (y :: l) ++ [sep]) with ((sep :: joinc (y :: l)) ++ [sep]). rewrite removelast_last. reflexivity.
    + symmetry. apply Nat.ltb_lt. rewrite app_length. simpl. lia.
Qed.

Section Top.
  Variables (c : ctx) (f0 : fs) (dr : N) (dcs : list bytes).
  Notation Ctx := (Ctx c f0 dr dcs).
  Notation tpath := (tpath dcs).
  Notation SS := (SS f0 dr).
  Notation Tgt := (Tgt c f0 dr dcs).
  Notation names_ss := (names_ss f0 dr).
  Notation stays := (stays c f0 dr dcs).
  Notation stays_ok := (stays_ok c f0 dr dcs).
  Notation mstep := (mstep c f0 dr dcs).
  Notation lok := (lok f0 dr dcs).
  Notation keeps_new := (keeps_new dr (f_next f0)).
  Notation gnew := (gnew dr (f_next f0)).
  Let rt := c_root c.
  Let b := f_next f0.

  (* ---- stat of the root and of symlink-free paths below it ---- *)
  Lemma resolve_root f fl : Ctx f -> exists r, resolve c f (render dcs) fl = inl r /\ l_ino r = Some dr.
  Proof.
    intros C. pose proof (cx_root _ _ _ _ f C) as Hc. fold rt in Hc.
    pose proof (cx_dcs _ _ _ _ f C) as Hd. pose proof (cx_dnul _ _ _ _ f C) as Hn.
    pose proof (cx_len _ _ _ _ f C) as Hl.
    destruct dcs as [|y l] eqn:E.
    - inversion Hc; subst. destruct rfuel_S as [k Ek].
      unfold resolve, render. cbn [joinc has_nul existsb ends_with_sep rev app is_abs pcs comps filter nonempty].
      change (N.eqb 0 sep) with false. cbn [orb]. rewrite N.eqb_refl. cbn [filter nonempty orb].
      rewrite orb_true_r. rewrite Ek. cbn [walk]. unfold is_dir in H. fold rt.
      destruct (dir_of f rt) as [[par ents]|] eqn:Ed; [|discriminate].
      cbn [l_ino]. unfold is_dir. rewrite Ed. eexists. split; reflexivity.
    - rewrite <- E in *. rewrite resolve_render by (auto; rewrite E; discriminate).
      apply walk_chain_full; auto; [rewrite E; discriminate|lia].
  Qed.

  Lemma stat_root f : Ctx f -> exists n, snd (sys_stat c f (render dcs)) = RStat dr n /\ kind_is_dir n = true.
  Proof.
    intros C. destruct (resolve_root f true C) as (r & E & Hi).
    unfold sys_stat, resolve_ino. rewrite E, Hi.
    pose proof (chain_end_dir _ _ _ _ (cx_root _ _ _ _ f C)) as Hd. unfold is_dir, dir_of in Hd.
    destruct (get f dr) as [[[p es|?|?|? ?] m]|] eqn:Eg; try discriminate.
    eexists. split; [reflexivity|reflexivity].
  Qed.

  Lemma stat_dir_chain f cs i n : Ctx f -> Forall nm cs -> Forall nonul cs -> link_free f dr cs = true ->
    snd (sys_stat c f (render (dcs ++ cs))) = RStat i n -> kind_is_dir n = true -> chain f dr cs i.
  Proof.
    intros C Hcs Hnul Hlf H Hk.
    pose proof (cx_root _ _ _ _ f C) as Hc. fold rt in Hc.
    pose proof (cx_dcs _ _ _ _ f C) as Hd. pose proof (cx_dnul _ _ _ _ f C) as Hn.
    pose proof (cx_len _ _ _ _ f C) as Hl.
    destruct cs as [|x cs].
    - rewrite app_nil_r in H. destruct (stat_root f C) as (n' & E & _). rewrite E in H. inversion H; subst.
      constructor. eapply chain_end_dir; eauto.
    - unfold sys_stat, resolve_ino in H.
      rewrite resolve_render in H; [|apply Forall_app; auto|apply Forall_app; auto|destruct dcs; discriminate].
      destruct (walk rfuel f (c_root c) (c_root c) (dcs ++ x :: cs) true 0) as [r|e] eqn:E; [|discriminate].
      destruct (l_ino r) as [j|] eqn:Ej; [|discriminate].
      destruct (get f j) as [nn|] eqn:Eg; [|discriminate]. cbn [snd] in H. inversion H; subst j nn.
      replace rfuel with (length dcs + (rfuel - length dcs))%nat in E by lia.
      rewrite (walk_chain_prefix f dcs rt dr Hc Hd (x :: cs) ltac:(discriminate)) in E.
      eapply link_free_walk_chain; eauto.
      + eapply chain_end_dir; eauto.
      + unfold is_dir, dir_of. rewrite Eg. unfold kind_is_dir in Hk. destruct n as [[? ?|?|?|? ?] ?]; simpl in *; auto; discriminate.
  Qed.

  (* ---- MkdirAll ---- *)
  (* a directory MkdirAll created: whatever stands at that path later was put there by the copier *)
  Definition created_ok (f : fs) (p : bytes) : Prop :=
    exists cs x, p = tpath cs x /\ Forall nm cs /\ Forall nonul cs /\ nm x /\ nonul x /\ gnew f cs x.

  Lemma created_ok_keeps f f' p : keeps_new f f' -> created_ok f p -> created_ok f' p.
  Proof. intros K (cs & x & E & H1 & H2 & H3 & H4 & G). exists cs, x. do 5 (split; [assumption|]). apply K. exact G. Qed.

  Lemma stays_below d d1 q s s' : chain (s_fs s) d q d1 -> stays d1 s s' -> stays d s s'.
  Proof. intros Hq (C & A & L & K). split; auto. split; auto. eapply above_mono; eauto. Qed.

  Lemma stays_keeps d s s' : stays d s s' -> keeps_new (s_fs s) (s_fs s').
  Proof. intros (_ & _ & _ & K). exact K. Qed.

  Lemma chown_fixed_spec s s' r cs d x i o : Tgt (s_fs s) cs d x -> names_ss (s_fs s) d x i ->
    chown_fixed c o (tpath cs x) s = (s', r) -> mstep s s'.
  Proof.
    intros T Hn H. unfold chown_fixed in H. destruct (o_chown o) as [[u g]|].
    - rewrite bind_run, sys_run in H. cbn [fst snd] in H.
      destruct (sys_lchown c (s_fs s) (tpath cs x) u g) as [f1 r1] eqn:E1. cbn [fst snd] in H.
      pose proof (t_lchown c f0 dr dcs _ cs d x i _ _ f1 r1 T Hn E1) as M1.
      rewrite expect_ok_run in H. injection H as <- <-. apply mstep_mk; auto.
    - cbn [ret] in H. injection H as <- <-. apply mstep_refl. apply T.
  Qed.

  Lemma utimes_opt_spec s s' r cs d x i tm : Tgt (s_fs s) cs d x -> names_ss (s_fs s) d x i ->
    utimes_opt c (tpath cs x) tm s = (s', r) -> mstep s s'.
  Proof.
    intros T Hn H. unfold utimes_opt in H. destruct tm as [t|].
    - rewrite bind_run, sys_run in H. cbn [fst snd] in H.
      destruct (sys_utimens c (s_fs s) (tpath cs x) t) as [f1 r1] eqn:E1. cbn [fst snd] in H.
      pose proof (t_utimens c f0 dr dcs _ cs d x i _ f1 r1 T Hn E1) as M1.
      rewrite expect_ok_run in H. injection H as <- <-. apply mstep_mk; auto.
    - cbn [ret] in H. injection H as <- <-. apply mstep_refl. apply T.
  Qed.

  Lemma link_free_removelast f : forall cs d x, link_free f d (cs ++ [x]) = true -> link_free f d cs = true.
  Proof.
    induction cs as [|y cs IH]; intros d x H; [reflexivity|].
    simpl app in H. cbn [link_free] in *. destruct (dir_of f d) as [[p es]|]; auto.
    destruct (blookup y es) as [i|]; auto. destruct (get f i) as [[[? ?|?|?|? ?] ?]|]; eauto.
  Qed.

  Definition mk_post (cs : list bytes) (s s' : cst) (r : list bytes + N) : Prop :=
    stays dr s s' /\ s_links s' = s_links s /\
    (forall created, r = inl created ->
       (exists d, chain (s_fs s') dr cs d) /\ Forall (created_ok (s_fs s')) created).

  (* after the parent exists: Lstat, Mkdir, Chown, Utimes *)
  Lemma mkdir_tail o cs x s s2 s' created r :
    mk_post cs s s2 (inl created) -> is_dir (s_fs s) dr = true ->
    Forall nm cs -> Forall nonul cs -> nm x -> nonul x ->
    (r1 <~ sys (fun f => sys_lstat c f (render (dcs ++ cs ++ [x]))) ;;
     if match r1 with RStat _ n1 => kind_is_dir n1 | _ => false end then ret created
     else
       r2 <~ sys (fun f => sys_mkdir c f (render (dcs ++ cs ++ [x])) (dir_mode o)) ;;
       match r2 with
       | ROk =>
         chown_fixed c o (render (dcs ++ cs ++ [x])) ;;;
         utimes_opt c (render (dcs ++ cs ++ [x])) (o_utime o) ;;;
         ret (created ++ [render (dcs ++ cs ++ [x])])
       | _ =>
         r3 <~ sys (fun f => sys_lstat c f (render (dcs ++ cs ++ [x]))) ;;
         if match r3 with RStat _ n3 => kind_is_dir n3 | _ => false end then ret created
         else fail E_SYS
       end) s2 = (s', r) ->
    mk_post (cs ++ [x]) s s' r.
  Proof.
    intros (S2 & L2 & P2) Hdr Hcs Hnul Hx Hxn H.
    destruct (P2 created eq_refl) as ((dpar & Hcp) & Hcr).
    assert (C2 : Ctx (s_fs s2)) by apply S2.
    assert (T2 : Tgt (s_fs s2) cs dpar x) by (constructor; auto).
    change (render (dcs ++ cs ++ [x])) with (tpath cs x) in H.
    assert (Hdr2 : is_dir (s_fs s2) dr = true) by (eapply chain_end_dir; apply (cx_root _ _ _ _ _ C2)).
    (* the directory is there: done *)
    assert (Hdone : forall s3 i n, s_fs s3 = s_fs s2 -> s_links s3 = s_links s2 ->
              blookup x (dents (s_fs s2) dpar) = Some i -> get (s_fs s2) i = Some n -> kind_is_dir n = true ->
              mk_post (cs ++ [x]) s s3 (inl created)).
    { intros s3 i n F3 L3 Hb Hg Hk. split; [eapply stays_trans; [exact Hdr|exact S2|apply stays_same; auto]|].
      split; [congruence|]. intros cr Hc. inversion Hc; subst cr. rewrite F3. split; [|exact Hcr].
      exists i. eapply chain_snoc; eauto. unfold is_dir, dir_of. rewrite Hg. unfold kind_is_dir in Hk.
      destruct n as [[? ?|?|?|? ?] ?]; simpl in *; auto; discriminate. }
    rewrite bind_run, sys_run in H. cbn [fst snd] in H. rewrite sys_lstat_fs in H.
    pose proof (t_lstat c f0 dr dcs (s_fs s2) cs dpar x T2) as Hl1.
    set (s3 := {| s_fs := s_fs s2; s_links := s_links s2; s_reads := s_reads s2 |}) in H.
    assert (S3 : stays dr s s3) by (eapply stays_trans; [exact Hdr|exact S2|apply stays_same; auto]).
    destruct (match snd (sys_lstat c (s_fs s2) (tpath cs x)) with RStat _ n1 => kind_is_dir n1 | _ => false end) eqn:Ek1.
    { cbn [ret] in H. injection H as <- <-.
      destruct (snd (sys_lstat c (s_fs s2) (tpath cs x))) as [|?|i n|?|?|?]; try discriminate.
      destruct Hl1 as [Hb Hg]. eapply Hdone; eauto. }
    clear Hl1 Ek1.
    rewrite bind_run, sys_run in H. cbn [fst snd] in H. change (s_fs s3) with (s_fs s2) in H.
    destruct (sys_mkdir c (s_fs s2) (tpath cs x) (dir_mode o)) as [f4 r4] eqn:E4. cbn [fst snd] in H.
    pose proof (g_mkdir c f0 dr dcs _ cs dpar x _ f4 r4 T2 E4) as G4.
    pose proof (k_mkdir c f0 dr dcs _ cs dpar x _ f4 r4 T2 E4) as K4.
    destruct (t_mkdir c f0 dr dcs _ cs dpar x _ f4 r4 T2 E4) as (C4 & A4 & P4).
    fold (mk s3 f4) in H.
    assert (S4 : stays dpar s3 (mk s3 f4)) by (apply stays_grows; auto).
    assert (S4r : stays dr s (mk s3 f4)).
    { eapply stays_trans; [exact Hdr|exact S3|]. eapply stays_below; [|exact S4]. exact Hcp. }
    destruct P4 as [[e ->]|[-> [Hc Hi]]].
    - (* Mkdir failed: look again *)
      rewrite bind_run, sys_run in H. cbn [fst snd] in H. rewrite sys_lstat_fs in H.
      assert (T4 : Tgt f4 cs dpar x) by (eapply (tgt_stays c f0 dr dcs s3 (mk s3 f4)); eauto).
      pose proof (t_lstat c f0 dr dcs f4 cs dpar x T4) as Hl3. cbn [s_fs mk] in H.
      set (s5 := {| s_fs := f4; s_links := _; s_reads := _ |}) in H.
      destruct (match snd (sys_lstat c f4 (tpath cs x)) with RStat _ n3 => kind_is_dir n3 | _ => false end) eqn:Ek3.
      + cbn [ret] in H. injection H as <- <-.
        destruct (snd (sys_lstat c f4 (tpath cs x))) as [|?|i n|?|?|?]; try discriminate.
        destruct Hl3 as [Hb Hg]. split; [eapply stays_trans; [exact Hdr|exact S4r|apply stays_same; auto; apply S4r]|].
        split; [simpl; congruence|]. intros cr Hc. inversion Hc; subst cr. cbn [s_fs]. split.
        * exists i. assert (Hi3 : is_dir f4 i = true).
          { unfold is_dir, dir_of. rewrite Hg. unfold kind_is_dir in Ek3.
            destruct n as [[? ?|?|?|? ?] ?]; simpl in *; auto; discriminate. }
          eapply chain_snoc; [apply T4|exact Hb|exact Hi3].
        * eapply Forall_impl; [|exact Hcr]. intros p. apply created_ok_keeps. eapply stays_keeps. exact S4.
      + unfold fail in H. injection H as <- <-.
        split; [eapply stays_trans; [exact Hdr|exact S4r|apply stays_same; auto; apply S4r]|]. split; [simpl; congruence|discriminate].
    - (* created: Chown, Utimes *)
      set (nw := f_next (s_fs s3)) in *.
      assert (T4 : Tgt (s_fs (mk s3 f4)) cs dpar x) by (eapply (tgt_stays c f0 dr dcs s3 (mk s3 f4)); eauto).
      assert (N4 : names_ss (s_fs (mk s3 f4)) dpar x nw) by (split; [apply Hc|right; apply Hc]).
      rewrite bind_run in H.
      destruct (chown_fixed c o (tpath cs x) (mk s3 f4)) as [s5 [[]|e]] eqn:E5.
      2:{ injection H as <- <-. pose proof (chown_fixed_spec _ _ _ cs dpar x nw o T4 N4 E5) as M5.
          split; [eapply stays_trans; [exact Hdr|exact S4r|apply mstep_stays; auto]|]. split; [|discriminate].
          destruct M5 as [_ E]. rewrite E. simpl. congruence. }
      pose proof (chown_fixed_spec _ _ _ cs dpar x nw o T4 N4 E5) as M5.
      rewrite bind_run in H.
      assert (T5 := mstep_tgt c f0 dr dcs _ _ _ _ _ T4 M5). assert (N5 := mstep_names c f0 dr dcs _ _ _ _ _ N4 M5).
      destruct (utimes_opt c (tpath cs x) (o_utime o) s5) as [s6 [[]|e]] eqn:E6.
      2:{ injection H as <- <-. pose proof (utimes_opt_spec _ _ _ cs dpar x nw _ T5 N5 E6) as M6.
          split; [eapply stays_trans; [exact Hdr|exact S4r|apply mstep_stays; eapply mstep_trans; eauto]|]. split; [|discriminate].
          destruct M5 as [_ E], M6 as [_ E']. rewrite E', E. simpl. congruence. }
      pose proof (utimes_opt_spec _ _ _ cs dpar x nw _ T5 N5 E6) as M6.
      cbn [ret] in H. injection H as <- <-.
      assert (M46 : mstep (mk s3 f4) s6) by (eapply mstep_trans; eauto).
      assert (S46 : stays dpar (mk s3 f4) s6) by (apply mstep_stays; auto).
      split; [eapply stays_trans; [exact Hdr|exact S4r|apply mstep_stays; auto]|].
      split; [destruct M46 as [_ E]; rewrite E; simpl; congruence|].
      intros cr Hcr2. inversion Hcr2; subst cr.
      assert (T6 := mstep_tgt c f0 dr dcs _ _ _ _ _ T4 M46). assert (N6 := mstep_names c f0 dr dcs _ _ _ _ _ N4 M46).
      assert (Hi6 : is_dir (s_fs s6) nw = true).
      { destruct M46 as [(_ & _ & _ & I6 & _) _]. rewrite I6. exact Hi. }
      split.
      + exists nw. eapply chain_snoc; [apply T6|apply N6|exact Hi6].
      + apply Forall_app. split.
        * eapply Forall_impl; [|exact Hcr]. intros p Hp.
          eapply created_ok_keeps; [eapply stays_keeps; exact S46|].
          eapply created_ok_keeps; [eapply stays_keeps; exact S4|exact Hp].
        * constructor; [|constructor]. exists cs, x. do 5 (split; [auto|]).
          intros d' Hd'. rewrite (chain_fun _ _ _ _ Hd' _ (tg_chain _ _ _ _ _ _ _ _ T6)).
          unfold bind_new. destruct N6 as [Hb6 _]. rewrite Hb6. apply Hc.
  Qed.

  Lemma mkdir_slow_spec recur o cs x s s' r :
    (forall s1 s2 r2, Ctx (s_fs s1) -> link_free (s_fs s1) dr cs = true ->
        recur (render (dcs ++ cs)) s1 = (s2, r2) -> mk_post cs s1 s2 r2) ->
    Ctx (s_fs s) -> Forall nm cs -> Forall nonul cs -> nm x -> nonul x -> link_free (s_fs s) dr (cs ++ [x]) = true ->
    mkdir_slow recur c o (render (dcs ++ cs ++ [x])) s = (s', r) -> mk_post (cs ++ [x]) s s' r.
  Proof.
    intros Hrec C Hcs Hnul Hx Hxn Hlf H. unfold mkdir_slow in H.
    assert (Hdr : is_dir (s_fs s) dr = true) by (eapply chain_end_dir; apply (cx_root _ _ _ _ _ C)).
    assert (Hall : Forall nm ((dcs ++ cs) ++ [x])).
    { apply Forall_app; split; [apply Forall_app; split; [apply (cx_dcs _ _ _ _ _ C)|auto]|constructor; auto]. }
    rewrite bind_run in H. rewrite app_assoc in H. rewrite mk_parent_render in H by auto.
    (* the parent *)
    assert (Hpar : forall s2 (r2 : list bytes + N),
              (match dcs ++ cs with [] => None | _ => Some (render (dcs ++ cs)) end = None -> s2 = s /\ r2 = inl [] /\ cs = []) ->
              (match dcs ++ cs with [] => None | _ => Some (render (dcs ++ cs)) end <> None -> recur (render (dcs ++ cs)) s = (s2, r2)) ->
              mk_post cs s s2 r2).
    { intros s2 r2 H1 H2. destruct (dcs ++ cs) as [|y0 l0] eqn:El.
      - destruct (H1 eq_refl) as (-> & -> & ->). split; [apply stays_refl; auto|]. split; auto.
        intros cr Hc. inversion Hc; subst. split; [|constructor]. exists dr. constructor; auto.
      - rewrite <- El in *. apply Hrec; auto; [eapply link_free_removelast; eauto|apply H2; discriminate]. }
    destruct ((match dcs ++ cs with [] => None | _ => Some (render (dcs ++ cs)) end)) as [par|] eqn:Epar.
    - assert (Epp : par = render (dcs ++ cs)) by (destruct (dcs ++ cs); inversion Epar; reflexivity). subst par.
      destruct (recur (render (dcs ++ cs)) s) as [s2 [created|e]] eqn:E2.
      + assert (P2 : mk_post cs s s2 (inl created)) by (apply Hpar; [discriminate|auto]).
        eapply (mkdir_tail o cs x s s2 s' created r); eauto. rewrite <- app_assoc in H. exact H.
      + assert (P2 : mk_post cs s s2 (inr e)) by (apply Hpar; [discriminate|auto]).
        injection H as <- <-. destruct P2 as (S2 & L2 & _). split; auto. split; auto. discriminate.
    - cbn [ret] in H.
      assert (P2 : mk_post cs s s (inl [])) by (apply Hpar; [intros _; repeat split; auto; destruct (dcs ++ cs) eqn:E; [apply app_eq_nil in E; apply E|discriminate]|congruence]).
      eapply (mkdir_tail o cs x s s s' [] r); eauto. rewrite <- app_assoc in H. exact H.
  Qed.

  Lemma mkdir_all_spec : forall k o cs s s' r,
    Ctx (s_fs s) -> Forall nm cs -> Forall nonul cs -> link_free (s_fs s) dr cs = true ->
    mkdir_all k c o (render (dcs ++ cs)) s = (s', r) -> mk_post cs s s' r.
  Proof.
    induction k as [|k IH]; intros o cs s s' r C Hcs Hnul Hlf H.
    { cbn [mkdir_all] in H. unfold fail in H. injection H as <- <-.
      split; [apply stays_refl; auto|split; auto; discriminate]. }
    cbn [mkdir_all] in H. rewrite bind_run, sys_run in H. cbn [fst snd] in H. rewrite sys_stat_fs in H.
    assert (Hdr : is_dir (s_fs s) dr = true) by (eapply chain_end_dir; apply (cx_root _ _ _ _ _ C)).
    set (s1 := {| s_fs := s_fs s; s_links := s_links s; s_reads := s_reads s |}) in H.
    assert (S1 : stays dr s s1) by (apply stays_same; auto).
    assert (Hslow : forall r0, snd (sys_stat c (s_fs s) (render (dcs ++ cs))) = r0 -> (forall i n, r0 <> RStat i n) ->
              mkdir_slow (mkdir_all k c o) c o (render (dcs ++ cs)) s1 = (s', r) -> mk_post cs s s' r).
    { intros r0 Est Hno H1.
      assert (Hne : cs <> []).
      { intros ->. rewrite app_nil_r in Est. destruct (stat_root (s_fs s) C) as (n' & E' & _). rewrite E' in Est.
        subst r0. eapply Hno; reflexivity. }
      destruct (exists_last Hne) as (cs' & x & ->).
      apply Forall_app in Hcs. destruct Hcs as [Hcs' Hx]. inversion Hx as [|? ? Hx1 _]; subst.
      apply Forall_app in Hnul. destruct Hnul as [Hnul' Hxn]. inversion Hxn as [|? ? Hxn1 _]; subst.
      assert (P : mk_post (cs' ++ [x]) s1 s' r).
      { apply (mkdir_slow_spec (mkdir_all k c o) o cs' x s1 s' r); auto.
        intros sa sb rb Ca La Ha. apply (IH o cs' sa sb rb); auto. }
      destruct P as (Sa & La & Pa). split; [eapply stays_trans; [exact Hdr|exact S1|exact Sa]|]. split; [exact La|exact Pa]. }
    destruct (snd (sys_stat c (s_fs s) (render (dcs ++ cs)))) as [|e0|i n|b0|l0|i0] eqn:Est.
    3:{ destruct (kind_is_dir n) eqn:Ek.
        - cbn [ret] in H. injection H as <- <-. split; auto. split; auto. intros created Hc. inversion Hc; subst.
          split; [|constructor]. exists i. eapply stat_dir_chain; eauto.
        - unfold fail in H. injection H as <- <-. split; auto. split; auto. discriminate. }
    all: eapply Hslow; eauto; intros; discriminate.
  Qed.
End Top.
