(* Refinement LTS (receiver side) -> receiver acceptor, part 6: the diff loop, receiver.run's
   first goroutine (FIN), the return of Receive, and the theorem. *)
From Coq Require Import List NArith Bool Arith PeanoNat Lia ZifyBool.
From FS Require Import Model.Lts Proofs.LtsInv Proofs.LtsSafe Proofs.LtsTerm Proofs.LtsC08 Proofs.LtsTok
     Proofs.LtsContent Proofs.LtsContent2 Proofs.LtsContent3 Proofs.LtsClean1 Proofs.LtsClean3 Proofs.LtsClean5.
From FS Require Import Sx Model.Path Model.Stat Model.AccEvents Model.ReceiverAcc Model.LtsRAcc
     Proofs.AccEventsP Proofs.LtsRAccP1 Proofs.LtsRAccP2 Proofs.LtsRAccP3 Proofs.LtsRAccP4 Proofs.LtsRAccP5.
Import ListNotations.
Local Open Scope nat_scope.

Lemma none_wanted_forall : forall needs (f : list (N * stat)),
  (forall k s, In (k, s) f -> wanted needs s = false) -> none_wanted needs f = true.
Proof.
  induction f as [|[k s] f IH]; intros H; [reflexivity|]. cbn.
  rewrite (H k s (or_introl eq_refl)). cbn. apply IH. intros k' s' Hin. apply (H k' s'). right. exact Hin.
Qed.

(* a new writer (at WR_Start) does not change the classes the invariant looks at *)
Lemma wsum_new_writer : forall c i l i0, c WR_Start = false ->
  sumf (wsel c i) (l ++ [{| wr_id := i0; wr_pc := WR_Start |}]) = sumf (wsel c i) l.
Proof. intros c i l i0 Hc. rewrite sumf_snoc, wsel_eq, Hc, andb_false_r. cbn. lia. Qed.

Section RSimRest.
  Variable p : Lts.params.
  Variable stats : list stat.
  Variable needs : bytes -> bool.
  Variable pay : nat -> nat -> bytes.
  Variable emsg smsg : bytes.
  Hypothesis Habs : rabs_ok p stats needs pay.

  Notation arun := (AccEvents.run (receiver_acc needs)).
  Notation evs := (receiver_events stats pay emsg smsg).

  Lemma diff_sim : forall st st' a, RI stats st a -> step_diff p st = Some st' -> RI stats st' a.
  Proof.
    intros st st' a HI H. unfold step_diff in H.
    destruct (dl_pc st) eqn:Epc.
    - destruct (c2_n st); [destruct (c2_closed st); [|discriminate]|]; inv_some; subst st';
        (eapply RI_frame; [|exact HI]); unfold same_receiver; cbn; repeat split; reflexivity.
    - destruct (kind_of p i); inv_some; subst st'.
      + eapply RI_frame; [|exact HI]. unfold same_receiver; cbn; repeat split; reflexivity.
      + eapply RI_frame; [|exact HI]. unfold same_receiver, dl_fail, d_fail. destruct (dw_canc st); cbn; repeat split; reflexivity.
      + destruct (dw_canc st).
        * eapply RI_frame; [|exact HI]. unfold same_receiver, dl_fail, d_fail. cbn. repeat split; reflexivity.
        * destruct HI as [Hi Hendm Hrl Herr Hfo Hret Hlive Hfiles Hopen].
          constructor; cbn; try assumption.
          -- eapply keyed_iff; [|exact Hfiles]. intros k. unfold FKP, wsum. cbn. rewrite wsum_new_writer by reflexivity. tauto.
          -- eapply keyed_iff; [|exact Hopen]. intros k. unfold OPP, wsum, latec. cbn.
             rewrite !wsum_new_writer by reflexivity. tauto.
    - discriminate.
  Qed.

  Variables st st' : Lts.state.
  Variable a : rstate.
  Hypothesis R : reachable p st.
  Hypothesis K : scal st.
  Hypothesis W : forall id, wq p id st.
  Hypothesis K' : scal st'.
  Hypothesis HI : RI stats st a.

  Lemma diffouter_sim : step_diffouter p st = Some st' ->
    exists a', arun a (evs st LDiffOuter) = Some a' /\ RI stats st' a'.
  Proof.
    intros H. pose proof (rabs_wf p stats needs pay Habs) as WF.
    destruct HI as [Hi Hendm Hrl Herr Hfo Hret Hlive Hfiles Hopen].
    pose proof (k_rb st K) as Hrb. pose proof (k_do st K) as Hdo.
    unfold step_diffouter in H. cbn [receiver_events].
    assert (Hrn : do_pc st <> DO_Done -> recv_ret st = None).
    { intros X. destruct (recv_ret st) eqn:E; [|reflexivity]. destruct Hlive as [_ Y]; congruence. }
    destruct (do_pc st) eqn:Epc; try contradiction.
    - (* DO_WaitDiff *)
      destruct (fl_is_done st && dl_is_done st); [|discriminate]. inv_some. subst st'.
      exists a. split; [reflexivity|].
      constructor; cbn; try assumption.
      + rewrite Hfo. destruct (d_err st); reflexivity.
      + intros X. rewrite Hrn in X by discriminate. congruence.
    - (* DO_WaitW *)
      destruct (forallb wr_done (wrs st)); [|discriminate]. inv_some. subst st'.
      exists a. split; [reflexivity|].
      constructor; cbn; try assumption.
      + rewrite Hfo. destruct (eg_err st); reflexivity.
      + intros X. rewrite Hrn in X by discriminate. congruence.
    - (* DO_LockFin: SendMsg(FIN) is called *)
      unfold lock_r in H. cbn in H. destruct (r_mu st); [discriminate|]. inv_some. subst st'.
      assert (Hr0 : r_ret a = None) by (rewrite Hret; apply Hrn; discriminate).
      destruct (fin_ready p st R K W Epc) as (HG & HZ & HN).
      assert (Hnil : r_open a = []).
      { eapply keyed_nil; [exact Hopen|]. intros i [X _]. specialize (HZ i). clear - X HZ. lia. }
      assert (Hnw : none_wanted needs (r_files a) = true).
      { apply none_wanted_forall. intros k s Hin. destruct Hfiles as (_ & F1 & _).
        destruct (F1 k s Hin) as (i & _ & HF & Hs). destruct (wanted needs s) eqn:Ew; [|reflexivity]. exfalso.
        destruct Habs as (_ & _ & Hk & _). specialize (Hk i s Hs). rewrite Ew in Hk.
        assert (E : kind_of p i = ENeed) by (destruct (kind_of p i); [discriminate|discriminate|reflexivity]).
        unfold FKP in HF. specialize (HZ i). specialize (HN i E). clear - HF HZ HN. lia. }
      cbn [AccEvents.run]. unfold receiver_acc. rewrite Hr0, Hendm, HG, Hnil, Hfo, Hnw. cbn [is_nil andb negb].
      eexists. split; [reflexivity|].
      constructor; cbn; try assumption; try reflexivity.
      intros X. rewrite Hrn in X by discriminate. congruence.
    - (* DO_SendFin: SendMsg(FIN) completes *)
      unfold send_r in H. rewrite Hrb in H. destruct (room_rs p st); [|discriminate]. inv_some. subst st'.
      exists a. split; [reflexivity|].
      constructor; cbn; try assumption.
      intros X. rewrite Hrn in X by discriminate. congruence.
    - discriminate.
  Qed.

  Lemma recvret_sim : step_recv_ret st = Some st' ->
    exists a', arun a (evs st LRecvRet) = Some a' /\ RI stats st' a'.
  Proof.
    intros H. destruct HI as [Hi Hendm Hrl Herr Hfo Hret Hlive Hfiles Hopen].
    unfold step_recv_ret, do_is_done, rl_is_done, is_none in H. cbn [receiver_events]. rewrite (k_re st K) in *. cbn [negb] in *.
    destruct (do_pc st) eqn:Ed; cbn in H; try discriminate. destruct (rl_pc st) eqn:El; cbn in H; try discriminate.
    destruct (recv_ret st) eqn:Er; cbn in H; [discriminate|]. inv_some. subst st'.
    destruct Hrl as (Hfi & Hrd & Heof).
    cbn [AccEvents.run]. unfold receiver_acc. rewrite Hret, Hfo, Hfi, Heof, Herr. cbn [andb negb].
    eexists. split; [reflexivity|].
    constructor; cbn; rewrite ?Ed, ?El; try assumption; try reflexivity; auto.
  Qed.
End RSimRest.

Section RMain.
  Variable p : Lts.params.
  Variable stats : list stat.
  Variable needs : bytes -> bool.
  Variable pay : nat -> nat -> bytes.
  Variable emsg smsg : bytes.
  Hypothesis Habs : rabs_ok p stats needs pay.

  Notation arun := (AccEvents.run (receiver_acc needs)).
  Notation evs := (receiver_events stats pay emsg smsg).

  Lemma no_fault_ff : forall l, no_fault l = fault_free_label l.
  Proof. destruct l; reflexivity. Qed.

  Lemma RI_init : RI stats (init p) rinit.
  Proof.
    constructor; cbn; try reflexivity; try (repeat split; reflexivity).
    - intros X. congruence.
    - split; [constructor|]. split; [intros k v []|]. intros i X. unfold FKP, wsum, cnt, sumf in X. cbn in X. lia.
    - split; [constructor|]. split; [intros k v []|]. intros i [X _]. unfold wsum, sumf in X. cbn in X. lia.
  Qed.

  Lemma rstep_sim : forall st l st' a,
    reachable p st -> scal st -> (forall id, wq p id st) -> scal st' ->
    RI stats st a -> no_fault l = true -> Lts.step p st l = Some st' ->
    exists a', arun a (evs st l) = Some a' /\ RI stats st' a'.
  Proof.
    intros st l st' a R K W K' HI Hf H.
    destruct l; try discriminate Hf;
      try (exists a; split; [reflexivity|]; eapply RI_frame; [eapply frame_step_same_receiver; [|exact H]; reflexivity|exact HI]);
      cbn [Lts.step] in H.
    - eapply recvloop_sim; eauto.
    - (* w.update: closeCh is never closed in a fault-free run *)
      exfalso. unfold step_recvloop_closed in H. rewrite (k_cc st K) in H. destruct (rl_pc st); discriminate.
    - exists a. split; [reflexivity|]. eapply diff_sim; eauto.
    - eapply diffouter_sim; eauto.
    - eapply writer_sim; eauto.
    - (* a writer gives up on ctx.Done: it would set the error flag *)
      exfalso. unfold step_writer_ctx in H. destruct (nth_error (wrs st) j) as [w|]; [|discriminate].
      destruct (wr_pc w); try discriminate. destruct (eg_canc st); [|discriminate]. inv_some. subst st'.
      pose proof (k_ee _ K') as X. cbn in X. discriminate.
    - eapply recvret_sim; eauto.
  Qed.

  Lemma rrun_sim : forall ls st0 a0 st,
    reachable p st0 -> scal st0 -> (forall id, wq p id st0) -> RI stats st0 a0 ->
    no_faults ls = true -> Lts.run p st0 ls = Some st ->
    exists a, arun a0 (lts_rtrace p stats pay emsg smsg st0 ls) = Some a /\ RI stats st a.
  Proof.
    induction ls as [|l ls IH]; intros st0 a0 st R K W HI Hff H; cbn in H.
    - inversion H; subst. exists a0. split; [reflexivity|exact HI].
    - cbn [lts_rtrace]. destruct (Lts.step p st0 l) as [st1|] eqn:E; [|discriminate].
      unfold no_faults, forallb in Hff. fold (forallb no_fault ls) in Hff. apply andb_true_iff in Hff. destruct Hff as [Hf Hff].
      assert (F1 : fault_free [l]).
      { unfold fault_free, forallb. rewrite <- (no_fault_ff l), Hf. reflexivity. }
      assert (H1 : Lts.run p st0 [l] = Some st1) by (cbn; rewrite E; reflexivity).
      destruct (ff_run_from p [l] st0 st1 (rabs_wf p stats needs pay Habs) R K W F1 H1) as [K1 W1].
      destruct (rstep_sim _ _ _ _ R K W K1 HI Hf E) as (a1 & R1 & HI1).
      assert (Rr : reachable p st1) by (econstructor; eauto).
      destruct (IH _ _ _ Rr K1 W1 HI1 Hff H) as (a & Ra & HIa).
      exists a. split; [|exact HIa]. rewrite run_app, R1. exact Ra.
  Qed.

  Lemma receiver_lts_refines_acc_proof : forall ls st,
    no_faults ls = true -> Lts.run p (init p) ls = Some st ->
    exists a, receiver_run needs (lts_rtrace p stats pay emsg smsg (init p) ls) = Some a /\ r_ret a = recv_ret st.
  Proof.
    intros ls st Hff H.
    destruct (rrun_sim ls _ _ _ (reach_init p) (scal_init p) (wq_init p) RI_init Hff H) as (a & Ra & HI).
    exists a. split; [exact Ra|]. apply HI.
  Qed.
End RMain.
