(* C13 / C15 — the dentry a copied entry ends up with, field by field: the metadata phase
   applied to a freshly created inode gives [new_entry]; applied to an existing directory it
   gives the merged entry of the overlay rules. *)
From Coq Require Import List NArith Bool Lia ZifyN ZifyNat ZifyBool.
From FS Require Import Sx Model.Path Model.SymMode Model.Copier Model.CopySpec Proofs.Lex Proofs.CopierP Proofs.CopyOpsP.
Import ListNotations.
Open Scope N_scope.
Open Scope bool_scope.

Lemma ftype_idem d : N.land (ftype d) S_IFMT = ftype d.
Proof. unfold ftype. apply land_idem2. Qed.
Lemma perm12_idem d : N.land (perm12 d) allBits = perm12 d.
Proof. unfold perm12. apply land_idem2. Qed.

Lemma new_perm_fmt umask m12 : N.land (andnot (N.land m12 allBits) umask) S_IFMT = 0.
Proof. unfold andnot. rewrite land_ldiff_comm, land_all_fmt. apply N.ldiff_0_l. Qed.

Lemma ftype_new_dent umask pd typ m12 rdev tg ct : N.land typ S_IFMT = typ ->
  ftype (new_dent umask pd typ m12 rdev tg ct) = typ.
Proof.
  intro H. unfold ftype, new_dent. cbn [d_mode]. apply ftype_mk; auto.
  destruct (N.eqb typ S_IFDIR && has_sgid pd); [|apply new_perm_fmt].
  rewrite land_lor_distr, new_perm_fmt. reflexivity.
Qed.

Section Dent.
  Variable o : copts.
  Variable ms : option (list bitcmd).
  Variable multi : N -> bool.

  Lemma info_mode_idem sd : N.land (info_mode o ms sd) allBits = info_mode o ms sd.
  Proof.
    unfold info_mode. destruct ms; [unfold apply_mode; apply land_idem2|].
    destruct (o_mode o); [apply land_idem2|apply perm12_idem].
  Qed.

  Lemma is_lnk_type sd : is_lnk sd = true -> ftype sd = S_IFLNK.
  Proof. unfold is_lnk. apply N.eqb_eq. Qed.
  Lemma is_dir_type sd : is_dir sd = true -> ftype sd = S_IFDIR.
  Proof. unfold is_dir. apply N.eqb_eq. Qed.
  Lemma is_reg_type sd : is_reg sd = true -> ftype sd = S_IFREG.
  Proof. unfold is_reg. apply N.eqb_eq. Qed.
  Lemma is_sock_type sd : is_sock sd = true -> ftype sd = S_IFSOCK.
  Proof. unfold is_sock. apply N.eqb_eq. Qed.

  (* the metadata phase on an inode that is a fresh copy of [sd] as far as creation goes *)
  Lemma dm_finfo_fresh s T d :
    wf_dent (sdent s) ->
    ftype d = copy_type (sdent s) ->
    (is_lnk (sdent s) = true -> d_mode d = N.lor S_IFLNK 511) ->
    d_rdev d = (if is_dev (sdent s) then d_rdev (sdent s) else 0) ->
    d_target d = d_target (sdent s) -> d_xattrs d = [] ->
    d_content d = (if is_reg (sdent s) then d_content (sdent s) else []) ->
    dm o (finfo o ms (sdent s) d) (new_entry o ms multi s T).
  Proof.
    intros (Hz & Hl & Ht & Hx) Hty Hlm Hr Htg Hxa Hc. set (sd := sdent s) in *.
    unfold dm, new_entry, finfo. fold sd. cbn [x_d x_known x_mk eff_known d_mode d_uid d_gid d_mtime d_rdev d_target d_xattrs d_content].
    destruct (is_lnk sd) eqn:El.
    - cbn [set_xattrs set_mtime set_owner d_mode d_uid d_gid d_mtime d_rdev d_target d_xattrs d_content].
      rewrite Hxa, (merge_nil _ Hx), Hlm, (Hl eq_refl) by auto.
      unfold copy_type. assert (is_sock sd = false) as ->.
      { unfold is_sock. rewrite (is_lnk_type _ El). reflexivity. }
      rewrite (is_lnk_type _ El). repeat split; auto.
    - cbn [set_xattrs set_mtime set_perm set_owner d_mode d_uid d_gid d_mtime d_rdev d_target d_xattrs d_content].
      rewrite Hxa, (merge_nil _ Hx), info_mode_idem.
      change (ftype (set_owner (fst (info_owner o sd)) (snd (info_owner o sd)) d)) with (ftype d). rewrite Hty.
      repeat split; auto.
  Qed.

  (* ... on an existing directory met below the landing path *)
  Definition merged_d (sd d0 : dent) : dent :=
    set_xattrs (merge_xattrs (d_xattrs sd) (d_xattrs d0))
      (set_mtime (info_time o sd) (set_perm (info_mode o ms sd) (set_owner (fst (info_owner o sd)) (snd (info_owner o sd)) d0))).

  Lemma dm_finfo_merge sd d d0 k m :
    is_lnk sd = false -> ftype d = ftype d0 -> d_rdev d = d_rdev d0 -> d_target d = d_target d0 ->
    d_xattrs d = d_xattrs d0 -> d_content d = d_content d0 ->
    dm o (finfo o ms sd d) {| x_d := merged_d sd d0; x_known := true; x_key := k; x_mk := m |}.
  Proof.
    intros El Ht Hr Htg Hx Hc. unfold dm, finfo, merged_d. rewrite El.
    cbn [x_d set_xattrs set_mtime set_perm set_owner d_mode d_uid d_gid d_mtime d_rdev d_target d_xattrs d_content].
    change (ftype (set_owner (fst (info_owner o sd)) (snd (info_owner o sd)) d)) with (ftype d).
    change (ftype (set_owner (fst (info_owner o sd)) (snd (info_owner o sd)) d0)) with (ftype d0).
    rewrite Ht, Hx. repeat split; auto.
  Qed.

  Lemma dm_set_mtime d e t k m :
    dm o d e -> dm o (set_mtime t d) {| x_d := set_mtime t (x_d e); x_known := true; x_key := k; x_mk := m |}.
  Proof. clear ms multi. unfold dm. cbn [x_d set_mtime d_mode d_uid d_gid d_mtime d_rdev d_target d_xattrs d_content]. intuition. Qed.

  Lemma dm_set_perm d e p :
    dm o d e -> dm o (set_perm p d) {| x_d := set_perm p (x_d e); x_known := x_known e; x_key := x_key e; x_mk := x_mk e |}.
  Proof.
    clear ms multi. intro H. pose proof (dm_ftype _ _ _ H) as Hf. revert H. unfold dm, eff_known.
    cbn [x_d x_known x_mk set_perm d_mode d_uid d_gid d_mtime d_rdev d_target d_xattrs d_content].
    rewrite Hf. intuition.
  Qed.
End Dent.
