(* C14 — the copier's hard-link map: every recorded path names a regular file the copier created.
   [grows]: lookups, directories and regular files persist; [shrinks]: all but one entry do. *)
From Coq Require Import List NArith Lia Bool ZifyN ZifyNat ZifyBool.
From FS Require Import Sx Model.Path Model.Fs Model.RootPath Model.CopyFs Model.CopyFsSpec
  Proofs.Lex Proofs.PathP Proofs.FsP Proofs.RootPathStrP Proofs.FsCopyFrameP Proofs.FsCopyInvP
  Proofs.FsCopySafeP.
Import ListNotations.
Open Scope N_scope.
Open Scope bool_scope.

Definition isfile (f : fs) (i : N) : Prop := exists data m, get f i = Some {| i_kind := KFile data; i_meta := m |}.

Record shrinks (f f' : fs) (d : N) (x : bytes) : Prop := {
  sh_dent : forall j n i, (j <> d \/ n <> x) -> blookup n (dents f j) = Some i -> blookup n (dents f' j) = Some i;
  sh_dir : forall j, is_dir f j = true -> is_dir f' j = true;
  sh_file : forall i, isfile f i -> isfile f' i
}.
Record grows (f f' : fs) : Prop := {
  gr_dent : forall j n i, blookup n (dents f j) = Some i -> blookup n (dents f' j) = Some i;
  gr_dir : forall j, is_dir f j = true -> is_dir f' j = true;
  gr_file : forall i, isfile f i -> isfile f' i
}.

Lemma grows_refl f : grows f f. Proof. constructor; auto. Qed.
Lemma grows_trans f1 f2 f3 : grows f1 f2 -> grows f2 f3 -> grows f1 f3.
Proof. intros A B. constructor; intros; [apply B, A|apply B, A|apply B, A]; auto. Qed.
Lemma grows_shrinks f f' d x : grows f f' -> shrinks f f' d x.
Proof. intros A. constructor; intros; apply A; auto. Qed.

Lemma chain_grows f f' : grows f f' -> forall a cs e, chain f a cs e -> chain f' a cs e.
Proof.
  intros G. induction 1 as [d Hd|d x i cs e Hb Hi Hc IH].
  - constructor. apply G; auto.
  - econstructor; [apply G; eauto|apply G; auto|auto].
Qed.

(* a chain none of whose steps is the removed entry *)
Fixpoint steps_avoid (f : fs) (a : N) (cs : list bytes) (d : N) (x : bytes) : Prop :=
  match cs with
  | [] => True
  | y :: r => (a <> d \/ y <> x) /\
              match blookup y (dents f a) with Some i => steps_avoid f i r d x | None => True end
  end.

Lemma chain_shrinks f f' d x : shrinks f f' d x -> forall a cs e, chain f a cs e -> steps_avoid f a cs d x -> chain f' a cs e.
Proof.
  intros S. induction 1 as [d0 Hd|d0 y i cs e Hb Hi Hc IH]; intros Ha.
  - constructor. apply S; auto.
  - simpl in Ha. destruct Ha as [Hne Hr]. rewrite Hb in Hr.
    econstructor; [eapply (sh_dent _ _ _ _ S); eauto|apply S; auto|auto].
Qed.

(* ---- the primitives ---- *)
Lemma grows_create_at f r isdir k mode : alloc_ok f -> is_dir f (l_dir r) = true -> leaf_kind k ->
  grows f (fst (create_at f r isdir k mode)).
Proof.
  intros Ha Hd Hleaf. pose proof (dir_lt_next f r Ha Hd) as Hlt. constructor.
  - intros j n i Hb. rewrite (create_at_dents f r isdir k mode Ha Hd j Hleaf).
    destruct (N.eqb_spec j (l_dir r)) as [->|]; [rewrite blookup_app, Hb; reflexivity|].
    destruct (N.eqb_spec j (f_next f)) as [->|]; auto.
    exfalso. pose proof (dents_some_dir _ _ _ _ Hb) as Hj. apply is_dir_exists in Hj. apply Hj. apply Ha. lia.
  - intros j Hj. rewrite (create_at_is_dir f r isdir k mode Ha Hd).
    destruct (N.eqb_spec j (f_next f)) as [->|]; auto.
    exfalso. apply is_dir_exists in Hj. apply Hj. apply Ha. lia.
  - intros i (data & m & Hg).
    assert (i <> f_next f) by (intros ->; rewrite (Ha (f_next f)) in Hg by lia; discriminate).
    assert (i <> l_dir r).
    { intros ->. unfold is_dir, dir_of in Hd. rewrite Hg in Hd. discriminate. }
    exists data, m. rewrite create_at_other; auto.
Qed.

Lemma grows_add_ent f d x i : is_dir f d = true -> grows f (add_ent f d x i).
Proof.
  intros Hd. constructor.
  - intros j n k Hb. rewrite (add_ent_dents f d x i j Hd).
    destruct (N.eqb_spec j d) as [->|]; auto. rewrite blookup_app, Hb. reflexivity.
  - intros j Hj. rewrite is_dir_add_ent. exact Hj.
  - intros k (data & m & Hg). exists data, m. rewrite add_ent_other; auto.
    intros ->. unfold is_dir, dir_of in Hd. rewrite Hg in Hd. discriminate.
Qed.

Lemma shrinks_del_ent f d x : NoDup (map fst (dents f d)) -> shrinks f (del_ent f d x) d x.
Proof.
  intros Hn. destruct (is_dir f d) eqn:Hd; [|rewrite del_ent_nondir; auto; apply grows_shrinks, grows_refl].
  constructor.
  - intros j n i Hne Hb. rewrite (del_ent_dents f d x j Hd).
    destruct (N.eqb_spec j d) as [->|]; auto.
    rewrite blookup_bremove_other; auto. destruct Hne; congruence.
  - intros j Hj. rewrite is_dir_del_ent. exact Hj.
  - intros k (data & m & Hg). exists data, m. rewrite del_ent_other; auto.
    intros ->. unfold is_dir, dir_of in Hd. rewrite Hg in Hd. discriminate.
Qed.

Lemma grows_put f i n n' : get f i = Some n -> same_shape n n' -> grows f (put f i n').
Proof.
  intros Hg Hsh.
  assert (Hdents : forall j, dents (put f i n') j = dents f j).
  { intros j. unfold dents, dir_of. destruct (N.eq_dec j i) as [->|Hne]; [|rewrite get_put_other; auto].
    rewrite get_put_same, Hg. unfold same_shape in Hsh.
    destruct n as [[p es|x|t|ty rd] m], n' as [[p' es'|x'|t'|ty' rd'] m']; simpl in *; try tauto.
    destruct Hsh; subst; reflexivity. }
  constructor.
  - intros j nme k Hb. rewrite Hdents. exact Hb.
  - intros j Hj. unfold is_dir, dir_of in *. destruct (N.eq_dec j i) as [->|Hne]; [|rewrite get_put_other; auto].
    rewrite get_put_same. rewrite Hg in Hj. unfold same_shape in Hsh.
    destruct n as [[p es|x|t|ty rd] m], n' as [[p' es'|x'|t'|ty' rd'] m']; simpl in *; try tauto; discriminate.
  - intros k (data & m & Hk). destruct (N.eq_dec k i) as [->|Hne].
    + rewrite Hg in Hk. inversion Hk; subst. unfold same_shape in Hsh. simpl in Hsh.
      destruct n' as [[p' es'|x'|t'|ty' rd'] m']; simpl in *; try tauto.
      exists x', m'. apply get_put_same.
    + exists data, m. rewrite get_put_other; auto.
Qed.

(* ---- strings: a path below another one ---- *)
Lemma joinc_app l r : l <> [] -> r <> [] -> joinc (l ++ r) = joinc l ++ sep :: joinc r.
Proof.
  induction l as [|a l IH]; intros Hl Hr; [congruence|].
  destruct l as [|a2 l].
  - simpl app. rewrite joinc_cons by auto. reflexivity.
  - change ((a :: a2 :: l) ++ r) with (a :: (a2 :: l) ++ r).
    rewrite joinc_cons by discriminate. rewrite IH by (auto; discriminate).
    rewrite (joinc_cons a (a2 :: l)) by discriminate. rewrite <- app_assoc. reflexivity.
Qed.

Lemma has_prefix_self_app a r : has_prefix a (a ++ r) = true.
Proof. induction a as [|x a IH]; simpl; auto. rewrite N.eqb_refl. exact IH. Qed.

Lemma forget_path_below (l r : list bytes) : l <> [] -> forget_path (render l) (render (l ++ r)) = true.
Proof.
  intros Hl. unfold forget_path. destruct r as [|r0 r].
  - rewrite app_nil_r, bytes_eqb_refl. reflexivity.
  - apply orb_true_iff. right. unfold render. rewrite joinc_app by (auto; discriminate).
    replace (sep :: joinc l ++ sep :: joinc (r0 :: r)) with (((sep :: joinc l) ++ [sep]) ++ joinc (r0 :: r)).
    + apply has_prefix_self_app.
    + simpl. rewrite <- app_assoc. reflexivity.
Qed.

Section Links.
  Variables (c : ctx) (f0 : fs) (dr : N) (dcs : list bytes).
  Notation Ctx := (Ctx c f0 dr dcs).
  Notation tpath := (tpath dcs).
  Let b := f_next f0.

  Definition link_ok (f : fs) (p : bytes) : Prop :=
    exists cs x d i, p = tpath cs x /\ Forall nm cs /\ Forall nonul cs /\ nm x /\ nonul x /\
      chain f dr cs d /\ blookup x (dents f d) = Some i /\ b <= i /\ isfile f i.
  Definition links_ok (f : fs) (l : list (N * bytes)) : Prop := forall e, In e l -> link_ok f (snd e).

  Lemma link_ok_grows f f' p : grows f f' -> link_ok f p -> link_ok f' p.
  Proof.
    intros G (cs & x & d & i & E & H1 & H2 & H3 & H4 & Hc & Hb & Hi & Hf).
    exists cs, x, d, i. do 5 (split; [assumption|]). split; [|split; [|split; [assumption|]]].
    - eapply chain_grows; eauto.
    - apply G; auto.
    - apply G; auto.
  Qed.

  Lemma links_ok_grows f f' l : grows f f' -> links_ok f l -> links_ok f' l.
  Proof. intros G H e He. eapply link_ok_grows; eauto. Qed.

  Lemma steps_avoid_chain f cs' d' y : Inv f0 dr f -> acyclic f -> chain f dr cs' d' ->
    forall a suf e, chain f a suf e -> forall pre, chain f dr pre a ->
    (forall s1 n s2, suf = s1 ++ n :: s2 -> ~ (pre ++ s1 = cs' /\ n = y)) ->
    steps_avoid f a suf d' y.
  Proof.
    intros I Hac Hc'. induction 1 as [d0 Hd|d0 n i cs e Hb Hi Hc IH]; intros pre Hpre Hno; simpl; auto.
    split.
    - destruct (N.eq_dec d0 d') as [->|]; auto. destruct (bytes_eqb n y) eqn:E; [|right; apply bytes_eqb_neq; auto].
      apply bytes_eqb_eq in E. subst n. exfalso. apply (Hno [] y cs eq_refl). split; auto.
      rewrite app_nil_r. eapply chain_unique; eauto.
    - rewrite Hb. apply (IH (pre ++ [n])).
      + eapply chain_snoc; eauto.
      + intros s1 n1 s2 E [E1 E2]. apply (Hno (n :: s1) n1 s2); [rewrite E; reflexivity|].
        split; auto. rewrite <- app_assoc in E1. exact E1.
  Qed.

  Lemma link_ok_shrinks f f' cs' d' y p : Ctx f -> shrinks f f' d' y -> chain f dr cs' d' ->
    link_ok f p -> forget_path (tpath cs' y) p = false -> link_ok f' p.
  Proof.
    intros C S Hc' (cs & x & d & i & E & H1 & H2 & H3 & H4 & Hc & Hb & Hi & Hf) Hfg.
    pose proof (cx_inv _ _ _ _ f C) as I. pose proof (ctx_acyclic _ _ _ _ f C) as Hac.
    assert (Hnot : forall s2, cs ++ [x] <> cs' ++ y :: s2).
    { intros s2 E2. subst p. unfold FsCopySafeP.tpath in Hfg.
      replace (dcs ++ cs ++ [x]) with ((dcs ++ cs' ++ [y]) ++ s2) in Hfg.
      - rewrite forget_path_below in Hfg; [discriminate|]. destruct dcs; [destruct cs'|]; discriminate.
      - rewrite E2. rewrite <- !app_assoc. reflexivity. }
    exists cs, x, d, i. do 5 (split; [assumption|]). split; [|split; [|split; [assumption|]]].
    - eapply chain_shrinks; eauto. eapply (steps_avoid_chain f cs' d' y I Hac Hc' dr cs d Hc []).
      + constructor. eapply chain_start_dir; eauto.
      + intros s1 n s2 E1 [E2 E3]. simpl in E2. subst s1 n. apply (Hnot (s2 ++ [x])).
        rewrite E1. rewrite <- app_assoc. reflexivity.
    - apply (sh_dent _ _ _ _ S); auto.
      destruct (N.eq_dec d d') as [->|]; auto. destruct (bytes_eqb x y) eqn:Ex; [|right; apply bytes_eqb_neq; auto].
      apply bytes_eqb_eq in Ex. subst y. exfalso. apply (Hnot []).
      rewrite (chain_unique f0 dr f I Hac dr cs d' Hc cs' Hc'). reflexivity.
    - apply S; auto.
  Qed.
End Links.

(* ---- where a path of names leads from dr, the binding of one more name is absent or NEW ----
   (ghost invariant for the directories MkdirAll created: whatever stands at such a path later was
   put there by the copier) *)
Section NewBindings.
  Variables (dr b : N).

  Definition bind_new (f : fs) (d : N) (x : bytes) : Prop :=
    match blookup x (dents f d) with Some c => b <= c | None => True end.
  Definition gnew (f : fs) (cs : list bytes) (x : bytes) : Prop := forall d', chain f dr cs d' -> bind_new f d' x.
  Definition keeps_new (f f' : fs) : Prop := forall cs x, gnew f cs x -> gnew f' cs x.

  Lemma keeps_new_refl f : keeps_new f f. Proof. intros cs x H. exact H. Qed.
  Lemma keeps_new_trans f1 f2 f3 : keeps_new f1 f2 -> keeps_new f2 f3 -> keeps_new f1 f3.
  Proof. intros A B cs x H. apply B, A, H. Qed.

  (* same entries, same directories: same chains *)
  Lemma kn_same f f' : (forall j, dents f' j = dents f j) -> (forall j, is_dir f' j = is_dir f j) -> keeps_new f f'.
  Proof.
    intros Hd Hi cs x H d' Hc. unfold bind_new. rewrite Hd. apply H.
    apply (chain_stable f' f (fun _ => False)); auto.
    - intros j. rewrite Hi. auto.
  Qed.

  Lemma kn_del_ent f d x0 : NoDup (map fst (dents f d)) -> keeps_new f (del_ent f d x0).
  Proof.
    intros Hn. destruct (is_dir f d) eqn:Hd; [|rewrite del_ent_nondir; auto; apply keeps_new_refl].
    assert (Hsub : forall j n c, blookup n (dents (del_ent f d x0) j) = Some c -> blookup n (dents f j) = Some c).
    { intros j n c H. rewrite (del_ent_dents f d x0 j Hd) in H. destruct (N.eqb_spec j d) as [->|]; auto.
      eapply blookup_bremove_sub; eauto. }
    assert (Hch : forall a cs e, chain (del_ent f d x0) a cs e -> chain f a cs e).
    { induction 1 as [d0 H0|d0 y i cs e Hb Hi Hc IH].
      - constructor. rewrite is_dir_del_ent in H0. exact H0.
      - econstructor; eauto. rewrite is_dir_del_ent in Hi. exact Hi. }
    intros cs x H d' Hc. specialize (H d' (Hch _ _ _ Hc)). unfold bind_new in *.
    destruct (blookup x (dents (del_ent f d x0) d')) as [c|] eqn:E; auto. rewrite (Hsub _ _ _ E) in H. exact H.
  Qed.

  Lemma kn_add_ent f d x0 i : is_dir f d = true -> is_dir f i = false -> b <= i -> keeps_new f (add_ent f d x0 i).
  Proof.
    intros Hd Hi Hbi.
    assert (Hcase : forall j n c, blookup n (dents (add_ent f d x0 i) j) = Some c ->
              blookup n (dents f j) = Some c \/ c = i).
    { intros j n c H. rewrite (add_ent_dents f d x0 i j Hd) in H. destruct (N.eqb_spec j d) as [->|]; auto.
      rewrite blookup_app in H. destruct (blookup n (dents f d)); auto.
      simpl in H. destruct (bytes_eqb n x0); inversion H; auto. }
    assert (Hch : forall a cs e, chain (add_ent f d x0 i) a cs e -> chain f a cs e).
    { induction 1 as [d0 H0|d0 y j cs e Hb Hj Hc IH].
      - constructor. rewrite is_dir_add_ent in H0. exact H0.
      - rewrite is_dir_add_ent in Hj. destruct (Hcase _ _ _ Hb) as [K| ->]; [econstructor; eauto|congruence]. }
    intros cs x H d' Hc. specialize (H d' (Hch _ _ _ Hc)). unfold bind_new in *.
    destruct (blookup x (dents (add_ent f d x0 i) d')) as [c|] eqn:E; auto.
    destruct (Hcase _ _ _ E) as [K| ->]; [rewrite K in H; exact H|exact Hbi].
  Qed.

  Lemma kn_create_at f r isdir k mode : alloc_ok f -> is_dir f (l_dir r) = true -> leaf_kind k -> b <= f_next f ->
    keeps_new f (fst (create_at f r isdir k mode)).
  Proof.
    intros Ha Hd Hleaf Hb. set (f' := fst (create_at f r isdir k mode)). set (nw := f_next f).
    pose proof (dir_lt_next f r Ha Hd) as Hlt.
    assert (Hdents := fun j => create_at_dents f r isdir k mode Ha Hd j Hleaf). fold f' nw in Hdents.
    assert (Hisdir := create_at_is_dir f r isdir k mode Ha Hd). fold f' nw in Hisdir.
    assert (Hcase : forall j n c, blookup n (dents f' j) = Some c -> blookup n (dents f j) = Some c \/ c = nw).
    { intros j n c H. rewrite Hdents in H. destruct (N.eqb_spec j (l_dir r)) as [->|].
      - rewrite blookup_app in H. destruct (blookup n (dents f (l_dir r))); auto.
        simpl in H. destruct (bytes_eqb n (l_name r)); inversion H; auto.
      - destruct (N.eqb_spec j nw); [discriminate|auto]. }
    assert (Hnw : dents f' nw = []).
    { rewrite Hdents. destruct (N.eqb_spec nw (l_dir r)); [unfold nw in *; lia|]. rewrite N.eqb_refl. reflexivity. }
    assert (Hch : forall a cs e, chain f' a cs e -> a <> nw -> chain f a cs e \/ e = nw).
    { induction 1 as [d0 H0|d0 y j cs e Hbl Hj Hc IH]; intros Hne.
      - left. constructor. rewrite Hisdir in H0. apply N.eqb_neq in Hne. rewrite Hne in H0. exact H0.
      - destruct (N.eq_dec j nw) as [->|Hj2].
        + right. inversion Hc as [|? ? ? ? ? Hb2]; subst; auto. rewrite Hnw in Hb2. discriminate.
        + destruct (Hcase _ _ _ Hbl) as [K|K]; [|congruence].
          destruct (IH Hj2) as [G|G]; auto. left. econstructor; eauto.
          rewrite Hisdir in Hj. apply N.eqb_neq in Hj2. rewrite Hj2 in Hj. exact Hj. }
    intros cs x H d' Hc. unfold bind_new.
    destruct (N.eq_dec dr nw) as [E|Hne].
    - (* dr itself would be the new inode: impossible, it has no entries and chains start there *)
      destruct (blookup x (dents f' d')) as [c|] eqn:Eb; auto.
      destruct (Hcase _ _ _ Eb) as [K| ->]; [|exact Hb].
      assert (d' = nw).
      { inversion Hc as [|? ? ? ? ? Hb2]; subst; auto. rewrite E, Hnw in Hb2. discriminate. }
      subst d'. pose proof (dents_some_dir _ _ _ _ K) as Hx. apply is_dir_exists in Hx. exfalso. apply Hx. apply Ha. unfold nw. lia.
    - destruct (Hch _ _ _ Hc Hne) as [G| ->]; [|rewrite Hnw; exact I].
      specialize (H d' G). unfold bind_new in H.
      destruct (blookup x (dents f' d')) as [c|] eqn:Eb; auto.
      destruct (Hcase _ _ _ Eb) as [K| ->]; [rewrite K in H; exact H|exact Hb].
  Qed.
End NewBindings.
