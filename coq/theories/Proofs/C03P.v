(* C03 — the statements of Properties/C03.v, assembled from the proof files. *)
From Coq Require Import List Arith NArith Bool Lia ZifyN ZifyNat ZifyBool.
From FS Require Import Sx Model.Path Model.Stat Model.Validator Model.Fs Model.DiskWriterFs.
From FS Require Import Proofs.Lex Proofs.PathP Proofs.FsP Proofs.FsReachP Proofs.RecvP Proofs.FsWfP Proofs.RecvOldP.
Import ListNotations.
Open Scope N_scope.
Open Scope bool_scope.

(* Everything that is not a directory inside D keeps its whole inode record (type, entries /
   bytes / target, mode, owner, mtime, xattrs) — in particular every inode outside D, whether or
   not it also has a name inside D — and D itself keeps its parent, mode, owner and xattrs
   (its entry list and mtime are what a transfer into D changes). *)
Definition outside_unchanged (D : N) (f f' : fs) : Prop :=
  (forall i, i < f_next f -> (~ reach D f i \/ is_dir f i = false) -> get f' i = get f i)
  /\ dir_kept D f f'.

Lemma step_outside D T f f' : step D T (f_next f) f f' -> outside_unchanged D f f'.
Proof.
  intros S. split; [|apply (st_D _ _ _ _ _ S)].
  intros i Hi [H|H]; [apply (st_frame _ _ _ _ _ S i H Hi)|apply (st_nd _ _ _ _ _ S i Hi H)].
Qed.

Theorem receiver_contained_merge :
  forall (f : fs) (root D : N) (dl : bool) (tmps : list bytes) (pks : list packet) (j : nat),
    wf D f -> (forall t, tmpname tmps t -> okname t) -> tmp_unused D f tmps ->
    Forall (clean_packet tmps) pks ->
    outside_unchanged D f (recv_fs_prefix f root D dl true tmps pks j).
Proof.
  intros f root D dl tmps pks j W Ht Hu Hc. unfold recv_fs_prefix.
  apply (step_outside D TAll). apply (recv_merge_step D root f tmps dl W Ht pks (Some j) Hu Hc).
Qed.

(* both settings of ReceiveOpt.Merge: without Merge the old content of dest is walked first and
   diffed against the stream (entries the stream does not name are removed, entries it names
   with the same metadata are left alone); Proofs/RecvOldP.v carries the invariant of that
   listing through the loop *)
Theorem receiver_contained_proof :
  forall (f : fs) (root D : N) (dl merge : bool) (tmps : list bytes) (pks : list packet) (j : nat),
    wf D f -> (forall t, tmpname tmps t -> okname t) -> tmp_unused D f tmps ->
    Forall (clean_packet tmps) pks ->
    outside_unchanged D f (recv_fs_prefix f root D dl merge tmps pks j).
Proof.
  intros f root D dl merge tmps pks j W Ht Hu Hc. destruct merge.
  - apply receiver_contained_merge; auto.
  - unfold recv_fs_prefix. apply (step_outside D TAll).
    apply (recv_nomerge_step D root f tmps dl W Ht Hu pks (Some j) Hc).
Qed.

(* the same with the hypotheses in executable form *)
Definition domain_b (fuel : nat) (f : fs) (D : N) (tmps : list bytes) (pks : list packet) : bool :=
  wf_b fuel f D && tmps_ok_b tmps && tmp_unused_b fuel f D tmps && forallb (clean_packet_b tmps) pks.

Lemma domain_b_ok fuel f D tmps pks : domain_b fuel f D tmps pks = true ->
  wf D f /\ (forall t, tmpname tmps t -> okname t) /\ tmp_unused D f tmps /\ Forall (clean_packet tmps) pks.
Proof.
  unfold domain_b. intros H.
  apply andb_true_iff in H. destruct H as [H H4].
  apply andb_true_iff in H. destruct H as [H H3].
  apply andb_true_iff in H. destruct H as [H1 H2].
  split; [apply (wf_b_ok fuel); auto|]. split; [apply tmps_ok_b_ok; auto|].
  split; [apply (tmp_unused_b_ok fuel); auto|apply clean_packets_b_ok; auto].
Qed.
