(* C03 — the statements of Properties/C03.v, assembled from the proof files. *)
From Coq Require Import List Arith NArith Bool Lia ZifyN ZifyNat ZifyBool.
From FS Require Import Sx Model.Path Model.Stat Model.Validator Model.Fs Model.DiskWriterFs.
From FS Require Import Proofs.Lex Proofs.PathP Proofs.ValidatorP Proofs.FsP Proofs.FsReachP Proofs.RecvP Proofs.FsWfP Proofs.RecvOldP.
Import ListNotations.
Open Scope N_scope.
Open Scope bool_scope.

(* Everything that is not a directory inside D keeps its whole inode record (type, entries /
   bytes / target, mode, owner, mtime, xattrs) — in particular every inode outside D, whether or
   not it also has a name inside D — and D itself keeps its parent, mode, owner and xattrs
   (its entry list and mtime are what a transfer into D changes). *)
Definition outside_unchanged (D : N) (f f' : fs) : Prop :=
  (forall i, i < f_next f -> (~ reach D f i \/ is_dir f i = false) -> get f' i = get f i)
  /\ dir_kept D f f'.

Lemma step_outside D T f f' : step D T (f_next f) f f' -> outside_unchanged D f f'.
Proof.
  intros S. split; [|apply (st_D _ _ _ _ _ S)].
  intros i Hi [H|H]; [apply (st_frame _ _ _ _ _ S i H Hi)|apply (st_nd _ _ _ _ _ S i Hi H)].
Qed.

(* what the theorems ask of ReceiveOpt.Filter: the copy of the stat keeps type bits and link name,
   and what is rejected is rejected with everything below it *)
Definition filter_ok (fl : rfilter) : Prop :=
  (forall s, st_mode (f_map fl s) = st_mode s) /\ (forall s, st_linkname (f_map fl s) = st_linkname s)
  /\ (forall p q, ok_path p = true -> ok_path q = true -> f_rej fl p = true ->
        is_prefix (comps p) (comps q) -> f_rej fl q = true).

Lemma no_filter_ok : filter_ok no_filter.
Proof. split; [reflexivity|]. split; [reflexivity|]. intros p q _ _ H. discriminate. Qed.

(* both settings of ReceiveOpt.Merge: without Merge the old content of dest is walked first and
   diffed against the stream (entries the stream does not name are removed, entries it names
   with the same metadata are left alone); Proofs/RecvOldP.v carries the invariant of that
   listing through the loop *)
Theorem receiver_contained_f :
  forall (fl : rfilter) (f : fs) (root D : N) (dl merge : bool) (tmps : list bytes) (pks : list packet) (j : nat),
    filter_ok fl ->
    wf D f -> (forall t, tmpname tmps t -> okname t) -> tmp_unused D f tmps ->
    Forall (clean_packet tmps fl) pks ->
    outside_unchanged D f (r_fs (recv_run_f fl f root D dl merge tmps pks (Some j))).
Proof.
  intros fl f root D dl merge tmps pks j (H1 & H2 & H3) W Ht Hu Hc. apply (step_outside D TAll). destruct merge.
  - apply (recv_merge_step D root f tmps dl W fl H1 H2 H3 Ht pks (Some j) Hu Hc).
  - apply (recv_nomerge_step D root f tmps dl W fl H1 H2 H3 Ht Hu pks (Some j) Hc).
Qed.

Theorem receiver_contained_proof :
  forall (f : fs) (root D : N) (dl merge : bool) (tmps : list bytes) (pks : list packet) (j : nat),
    wf D f -> (forall t, tmpname tmps t -> okname t) -> tmp_unused D f tmps ->
    Forall (clean_packet tmps no_filter) pks ->
    outside_unchanged D f (recv_fs_prefix f root D dl merge tmps pks j).
Proof.
  intros. unfold recv_fs_prefix, recv_run. apply receiver_contained_f; auto. apply no_filter_ok.
Qed.

(* the same with the hypotheses in executable form *)
Definition domain_b (fuel : nat) (f : fs) (D : N) (tmps : list bytes) (pks : list packet) : bool :=
  wf_b fuel f D && tmps_ok_b tmps && tmp_unused_b fuel f D tmps && forallb (clean_packet_b tmps no_filter) pks.

Lemma domain_b_ok fuel f D tmps pks : domain_b fuel f D tmps pks = true ->
  wf D f /\ (forall t, tmpname tmps t -> okname t) /\ tmp_unused D f tmps /\ Forall (clean_packet tmps no_filter) pks.
Proof.
  unfold domain_b. intros H.
  apply andb_true_iff in H. destruct H as [H H4].
  apply andb_true_iff in H. destruct H as [H H3].
  apply andb_true_iff in H. destruct H as [H1 H2].
  split; [apply (wf_b_ok fuel); auto|]. split; [apply tmps_ok_b_ok; auto|].
  split; [apply (tmp_unused_b_ok fuel); auto|apply clean_packets_b_ok; auto].
Qed.
