(* C03 — the statements of Properties/C03.v, assembled from the proof files. *)
From Coq Require Import List Arith NArith Bool Lia ZifyN ZifyNat ZifyBool String Ascii.
From FS Require Proofs.MetaOnlyP.
From FS Require Import Sx Model.Path Model.Stat Model.Validator Model.Fs Model.DiskWriterFs Model.RecvMeta.
From FS Require Import Proofs.Lex Proofs.PathP Proofs.ValidatorP Proofs.FsP Proofs.FsReachP Proofs.RecvP Proofs.FsWfP Proofs.RecvOldP Proofs.RecvMetaP.
Import ListNotations.
Open Scope N_scope.
Open Scope bool_scope.

(* Everything that is not a directory inside D keeps its whole inode record (type, entries /
   bytes / target, mode, owner, mtime, xattrs) — in particular every inode outside D, whether or
   not it also has a name inside D — and D itself keeps its parent, mode, owner and xattrs
   (its entry list and mtime are what a transfer into D changes). *)
Definition outside_unchanged (D : N) (f f' : fs) : Prop :=
  (forall i, i < f_next f -> (~ reach D f i \/ is_dir f i = false) -> get f' i = get f i)
  /\ dir_kept D f f'.

Lemma step_outside D T f f' : step D T (f_next f) f f' -> outside_unchanged D f f'.
Proof.
  intros S. split; [|apply (st_D _ _ _ _ _ S)].
  intros i Hi [H|H]; [apply (st_frame _ _ _ _ _ S i H Hi)|apply (st_nd _ _ _ _ _ S i Hi H)].
Qed.

(* what the theorems ask of ReceiveOpt.Filter: the copy of the stat keeps type bits and link name,
   and what is rejected is rejected with everything below it *)
Definition filter_ok (fl : rfilter) : Prop :=
  (forall s, st_mode (f_map fl s) = st_mode s) /\ (forall s, st_linkname (f_map fl s) = st_linkname s)
  /\ (forall p q, ok_path p = true -> ok_path q = true -> f_rej fl p = true ->
        is_prefix (comps p) (comps q) -> f_rej fl q = true).

Lemma no_filter_ok : filter_ok no_filter.
Proof. split; [reflexivity|]. split; [reflexivity|]. intros p q _ _ H. discriminate. Qed.

(* both settings of ReceiveOpt.Merge: without Merge the old content of dest is walked first and
   diffed against the stream (entries the stream does not name are removed, entries it names
   with the same metadata are left alone); Proofs/RecvOldP.v carries the invariant of that
   listing through the loop *)
Theorem receiver_contained_f :
  forall (fl : rfilter) (f : fs) (root D : N) (dl merge : bool) (tmps : list bytes) (pks : list packet) (j : nat),
    filter_ok fl ->
    wf D f -> (forall t, tmpname tmps t -> okname t) -> tmp_unused D f tmps ->
    Forall (clean_packet tmps fl) pks ->
    outside_unchanged D f (r_fs (recv_run_f fl f root D dl merge tmps pks (Some j))).
Proof.
  intros fl f root D dl merge tmps pks j (H1 & H2 & H3) W Ht Hu Hc. apply (step_outside D TAll). destruct merge.
  - apply (recv_merge_step D root f tmps dl W fl H1 H2 H3 Ht pks (Some j) Hu Hc).
  - apply (recv_nomerge_step D root f tmps dl W fl H1 H2 H3 Ht Hu pks (Some j) Hc).
Qed.

Theorem receiver_contained_proof :
  forall (f : fs) (root D : N) (dl merge : bool) (tmps : list bytes) (pks : list packet) (j : nat),
    wf D f -> (forall t, tmpname tmps t -> okname t) -> tmp_unused D f tmps ->
    Forall (clean_packet tmps no_filter) pks ->
    outside_unchanged D f (recv_fs_prefix f root D dl merge tmps pks j).
Proof.
  intros. unfold recv_fs_prefix, recv_run. apply receiver_contained_f; auto. apply no_filter_ok.
Qed.

(* Receive with its options: MetadataOnly (the metadata branch of the loop and the epilogue that
   writes dest/.fsutil-metadata, Proofs/RecvMetaP.v) and Filter *)
Theorem receiver_contained_opt :
  forall (fl : rfilter) (mo : option (stat -> bool)) (f : fs) (root D : N) (dl merge : bool) (tmps : list bytes)
         (pks : list packet) (j : nat),
    filter_ok fl ->
    wf D f -> (forall t, tmpname tmps t -> okname t) -> tmp_unused D f tmps ->
    Forall (clean_packet tmps fl) pks ->
    outside_unchanged D f (recv_fs_prefix_opt f root D dl merge mo fl tmps pks j).
Proof.
  intros fl mo f root D dl merge tmps pks j Hf W Ht Hu Hc. unfold recv_fs_prefix_opt. destruct mo as [sel|].
  - destruct Hf as (H1 & H2 & H3). apply (step_outside D TAll).
    apply (recv_meta_step D root f tmps dl merge fl sel W H1 H2 H3 Ht Hu pks (Some j) Hc).
  - cbn [recv_run_opt]. apply receiver_contained_f; auto.
Qed.

(* the filters of the correspondence run meet the hypothesis *)
Lemma below_any_closed ps p q : ok_path p = true -> ok_path q = true ->
  below_any ps p = true -> is_prefix (comps p) (comps q) -> below_any ps q = true.
Proof.
  intros Hp Hq Hb [y Hy]. unfold below_any in *. apply existsb_exists in Hb. destruct Hb as (r & Hr & Hb).
  apply existsb_exists. exists r. split; [exact Hr|].
  destruct y as [|y0 y'].
  - rewrite app_nil_r in Hy. apply comps_inj in Hy. subst q. exact Hb.
  - assert (Hu : MetaOnly.under p q = true).
    { apply MetaOnlyP.under_prefix. exists (y0 :: y'). split; [discriminate|exact Hy]. }
    unfold MetaOnly.under in Hu. apply orb_true_iff. right.
    apply orb_true_iff in Hb. destruct Hb as [Hb|Hb].
    + apply bytes_eqb_eq in Hb. subst r. exact Hu.
    + apply PathP.has_prefix_app in Hb. destruct Hb as [t Ht]. apply PathP.has_prefix_app in Hu. destruct Hu as [u Hu].
      subst q p.
      assert (E : (((r ++ [sep]) ++ t) ++ [sep]) ++ u = (r ++ [sep]) ++ (t ++ [sep] ++ u)) by (rewrite <- !app_assoc; reflexivity).
      rewrite E. apply MetaOnlyP.has_prefix_self.
Qed.

Lemma subtree_filter_ok ps ua ga : filter_ok (subtree_filter ps ua ga).
Proof.
  split; [reflexivity|]. split; [reflexivity|]. intros p q Hp Hq Hb Hpre. cbn in *. apply (below_any_closed ps p q); auto.
Qed.

(* the same with the hypotheses in executable form *)
Definition domain_b (fuel : nat) (f : fs) (D : N) (tmps : list bytes) (fl : rfilter) (pks : list packet) : bool :=
  wf_b fuel f D && tmps_ok_b tmps && tmp_unused_b fuel f D tmps && forallb (clean_packet_b tmps fl) pks.

Lemma domain_b_ok fuel f D tmps fl pks : domain_b fuel f D tmps fl pks = true ->
  wf D f /\ (forall t, tmpname tmps t -> okname t) /\ tmp_unused D f tmps /\ Forall (clean_packet tmps fl) pks.
Proof.
  unfold domain_b. intros H.
  apply andb_true_iff in H. destruct H as [H H4].
  apply andb_true_iff in H. destruct H as [H H3].
  apply andb_true_iff in H. destruct H as [H1 H2].
  split; [apply (wf_b_ok fuel); auto|]. split; [apply tmps_ok_b_ok; auto|].
  split; [apply (tmp_unused_b_ok fuel); auto|apply clean_packets_b_ok; auto].
Qed.


(* ---- a Filter that rejects a directory but not what lies below it ---- *)
Fixpoint bs (s : string) : bytes :=
  match s with EmptyString => [] | String a r => N_of_ascii a :: bs r end.

Definition run1 (x : fs * result) : fs := fst x.
(* /out ; /w/dest with d -> /out (symlink) *)
Definition rf_fs : fs :=
  let c := ctx_init in
  let f := run1 (sys_mkdir c fs_init (bs "/out") 493) in
  let f := run1 (sys_mkdir c f (bs "/w") 493) in
  let f := run1 (sys_mkdir c f (bs "/w/dest") 493) in
  run1 (sys_symlink c f (bs "/out") (bs "/w/dest/d")).
Definition rf_D : N := match resolve_ino ctx_init rf_fs (bs "/w/dest") true with inl i => i | inr _ => 0 end.
Definition rf_stat (p : string) (mode : N) : stat :=
  {| st_path := bs p; st_mode := mode; st_uid := 0; st_gid := 0; st_size := 0; st_mtime := 1000000;
     st_linkname := []; st_devmajor := 0; st_devminor := 0; st_xattrs := [] |}.
Definition rf_pks : list packet :=
  [ PStat (Some (rf_stat "d" (ModeDir + 493))); PStat (Some (rf_stat "d/x" 420)); PStat None; PFin ].
Definition rf_fl : rfilter := exact_filter [bs "d"] 0 0.

Theorem receiver_contained_any_filter_refuted_proof :
  exists (fl : rfilter) (f : fs) (root D : N) (tmps : list bytes) (pks : list packet) (j : nat),
    (forall s, st_mode (f_map fl s) = st_mode s) /\ (forall s, st_linkname (f_map fl s) = st_linkname s)
    /\ wf D f /\ (forall t, tmpname tmps t -> okname t) /\ tmp_unused D f tmps
    /\ Forall (clean_packet tmps fl) pks
    /\ ~ outside_unchanged D f (recv_fs_prefix_opt f root D false true None fl tmps pks j).
Proof.
  exists rf_fl, rf_fs, 1, rf_D, [], rf_pks, 10%nat.
  split; [reflexivity|]. split; [reflexivity|].
  split; [apply (wf_b_ok 8); vm_compute; reflexivity|].
  split; [apply tmps_ok_b_ok; vm_compute; reflexivity|].
  split; [apply (tmp_unused_b_ok 8); vm_compute; reflexivity|].
  split; [apply clean_packets_b_ok; vm_compute; reflexivity|].
  intros [H _].
  assert (Hnr : ~ reach rf_D rf_fs 2).
  { intros R. pose proof (closed_reach rf_fs rf_D (ins 8 rf_fs rf_D) (ins_head 8 rf_fs rf_D) ltac:(vm_compute; reflexivity) 2 R) as Hin.
    apply memN_In in Hin. vm_compute in Hin. discriminate. }
  specialize (H 2 ltac:(vm_compute; reflexivity) (or_introl Hnr)).
  vm_compute in H. discriminate.
Qed.
