(* Proofs about Model/AbsDest.v, part 1: association lists; hard-link metadata ([link_stat]);
   one replay step on the consumer's view simulates one HandleChange on the destination when
   the change is honest (a hard-link entry carries the metadata of the inode it joins), so
   replaying the notifications of ANY honest run of apply_all — complete or stopped by an
   error — rebuilds the view of the destination; requests and notifications are functions of
   the change list. *)
From Coq Require Import List NArith Lia Bool.
From FS Require Import Sx Model.Path Model.Stat Model.Diff Model.AbsDest Proofs.Lex Proofs.PathP Proofs.DiffP
  Proofs.DiffSpecP.
Import ListNotations.
Open Scope N_scope.
Open Scope bool_scope.

(* ---------------------------------------------------------------- association lists *)
Section AMapP.
Context {V : Type}.
Implicit Types M : amap V.

Lemma alookup_cons k v M p :
  alookup p ((k, v) :: M) = if bytes_eqb k p then Some v else alookup p M.
Proof. unfold alookup. simpl. destruct (bytes_eqb k p); reflexivity. Qed.

Lemma alookup_aremove_if f M p :
  alookup p (aremove_if f M) = if f p then None else alookup p M.
Proof.
  induction M as [|[k v] M IH].
  - simpl. destruct (f p); reflexivity.
  - unfold aremove_if in *. simpl filter. destruct (f k) eqn:Ek; simpl negb; cbv iota.
    + rewrite IH, alookup_cons. destruct (bytes_eqb k p) eqn:E; auto.
      apply bytes_eqb_eq in E. subst. rewrite Ek. reflexivity.
    + rewrite !alookup_cons, IH. destruct (bytes_eqb k p) eqn:E; auto.
      apply bytes_eqb_eq in E. subst. rewrite Ek. reflexivity.
Qed.

Lemma alookup_aset k v M p :
  alookup p (aset k v M) = if bytes_eqb k p then Some v else alookup p M.
Proof.
  unfold aset. rewrite alookup_cons, alookup_aremove_if. destruct (bytes_eqb k p); reflexivity.
Qed.

Lemma alookup_aset_same k v M : alookup k (aset k v M) = Some v.
Proof. rewrite alookup_aset, bytes_eqb_refl. reflexivity. Qed.

Lemma alookup_aset_other k v M p : k <> p -> alookup p (aset k v M) = alookup p M.
Proof. intros H. rewrite alookup_aset. apply bytes_eqb_neq in H. rewrite H. reflexivity. Qed.
End AMapP.

Lemma alookup_map_val {V W} (g : V -> W) (M : amap V) p :
  alookup p (map (fun kv => (fst kv, g (snd kv))) M) = option_map g (alookup p M).
Proof.
  induction M as [|[k v] M IH]; [reflexivity|].
  simpl map. rewrite !alookup_cons, IH. destruct (bytes_eqb k p); reflexivity.
Qed.

Lemma aremove_if_map_val {V W} (g : V -> W) f (M : amap V) :
  aremove_if f (map (fun kv => (fst kv, g (snd kv))) M) = map (fun kv => (fst kv, g (snd kv))) (aremove_if f M).
Proof.
  induction M as [|[k v] M IH]; [reflexivity|].
  unfold aremove_if in *. simpl. destruct (f k); simpl; rewrite IH; reflexivity.
Qed.

Lemma aset_map_val {V W} (g : V -> W) k v (M : amap V) :
  aset k (g v) (map (fun kv => (fst kv, g (snd kv))) M) = map (fun kv => (fst kv, g (snd kv))) (aset k v M).
Proof. unfold aset. rewrite aremove_if_map_val. reflexivity. Qed.

Lemma at_or_below_iff q p : at_or_below q p = true <-> q = p \/ above q p = true.
Proof. unfold at_or_below. rewrite orb_true_iff, bytes_eqb_eq. tauto. Qed.

Lemma at_or_below_le q p : at_or_below q p = true -> compare_path p q <> Lt.
Proof.
  intros H. apply at_or_below_iff in H. destruct H as [->|H].
  - rewrite compare_path_refl. discriminate.
  - apply above_lt in H. rewrite compare_path_opp, H. discriminate.
Qed.

(* ---------------------------------------------------------------- hard-link metadata *)
Lemma ino_meta_eqb_iff t s : ino_meta_eqb t s = true <-> ino_meta_eq t s.
Proof. unfold ino_meta_eqb, ino_meta_eq. rewrite !andb_true_iff, !N.eqb_eq, xattrs_eqb_eq. tauto. Qed.

Lemma ino_meta_eq_refl s : ino_meta_eq s s.
Proof. unfold ino_meta_eq. tauto. Qed.

Lemma ino_meta_eq_sym t s : ino_meta_eq t s -> ino_meta_eq s t.
Proof. unfold ino_meta_eq. intros (H1 & H2 & H3 & H4 & H5 & H6 & H7 & H8). repeat split; congruence. Qed.

Lemma ino_meta_eq_trans a b c : ino_meta_eq a b -> ino_meta_eq b c -> ino_meta_eq a c.
Proof.
  unfold ino_meta_eq. intros (H1 & H2 & H3 & H4 & H5 & H6 & H7 & H8) (K1 & K2 & K3 & K4 & K5 & K6 & K7 & K8).
  repeat split; congruence.
Qed.

Lemma is_reg_mode_eq a b : st_mode a = st_mode b -> is_reg a = is_reg b.
Proof. intros E. unfold is_reg, st_is_dir, is_special. rewrite E. reflexivity. Qed.

Lemma is_node_mode_eq a b : st_mode a = st_mode b -> is_node a = is_node b.
Proof. intros E. unfold is_node, st_is_dir. rewrite E. reflexivity. Qed.

Lemma is_reg_is_node st : is_reg st = true -> is_node st = true.
Proof. unfold is_reg, is_node. rewrite !andb_true_iff. tauto. Qed.

Lemma is_node_not_dir st : is_node st = true -> st_is_dir st = false.
Proof. unfold is_node. rewrite andb_true_iff, !negb_true_iff. tauto. Qed.

Lemma is_hardlink_node st : is_hardlink st = true -> is_node st = true /\ st_linkname st <> [].
Proof.
  unfold is_hardlink. rewrite andb_true_iff, negb_true_iff. intros [H1 H2]. split; auto.
  intros E. rewrite E in H2. discriminate.
Qed.

(* an honest announcement is what the new name shows *)
Lemma link_stat_honest t s : ino_meta_eq t s -> link_stat t s = s.
Proof.
  intros (H1 & H2 & H3 & H4 & H5 & H6 & H7 & H8). unfold link_stat. destruct (is_node t); [|reflexivity].
  destruct s; simpl in *. subst. reflexivity.
Qed.

Lemma link_stat_path t s : st_path (link_stat t s) = st_path s.
Proof. unfold link_stat. destruct (is_node t); reflexivity. Qed.

Lemma link_stat_linkname t s : st_linkname (link_stat t s) = st_linkname s.
Proof. unfold link_stat. destruct (is_node t); reflexivity. Qed.

(* the new name shows the metadata of the inode it joined *)
Lemma link_stat_meta t s : is_node t = true -> ino_meta_eq (link_stat t s) t.
Proof. intros E. unfold link_stat. rewrite E. unfold ino_meta_eq. simpl. tauto. Qed.

(* a new name is a hard-link entry again, never a directory *)
Lemma link_stat_is_hardlink t s : is_hardlink s = true -> is_hardlink (link_stat t s) = true.
Proof.
  intros Hs. unfold link_stat. destruct (is_node t) eqn:Et; [|exact Hs].
  unfold is_hardlink in *. apply andb_true_iff in Hs. destruct Hs as [_ Hl].
  apply andb_true_iff. split; [|exact Hl].
  rewrite <- Et. apply is_node_mode_eq. reflexivity.
Qed.

Lemma link_stat_not_dir t s : is_hardlink s = true -> st_is_dir (link_stat t s) = false.
Proof.
  intros Hs. apply (link_stat_is_hardlink t) in Hs. apply is_hardlink_node in Hs.
  apply is_node_not_dir. tauto.
Qed.

(* ---------------------------------------------------------------- replay simulates apply *)
Section Sim.
Variable src : bytes -> bytes.
Variable H : bytes -> bytes.
Variable hdr : stat -> bytes.

Notation nview := (nview H hdr).
Notation digest := (digest H hdr).
Notation notif_of := (notif_of src H hdr).

Definition nval (e : dentry) : stat * bytes := (de_stat e, digest (de_stat e) (de_bytes e)).

Lemma nview_is_map D : nview D = map (fun kv => (fst kv, nval (snd kv))) D.
Proof. reflexivity. Qed.

Lemma digest_no_content st x y : wants_content st = false -> digest st x = digest st y.
Proof. unfold AbsDest.digest. intros ->. reflexivity. Qed.

Lemma is_hardlink_no_content st : is_hardlink st = true -> wants_content st = false.
Proof.
  unfold is_hardlink, wants_content. intros E. apply andb_true_iff in E. destruct E as [E1 E2].
  apply negb_true_iff in E2. rewrite E2. apply andb_false_r.
Qed.

Lemma dir_no_content st : st_is_dir st = true -> wants_content st = false.
Proof. unfold wants_content, is_reg. intros ->. reflexivity. Qed.

Lemma alookup_nview D p : alookup p (nview D) = option_map nval (alookup p D).
Proof. rewrite nview_is_map. apply alookup_map_val. Qed.

Lemma nview_aremove_if f D : aremove_if f (nview D) = nview (aremove_if f D).
Proof. rewrite !nview_is_map. apply aremove_if_map_val. Qed.

Lemma nview_aset p e D : aset p (nval e) (nview D) = nview (aset p e D).
Proof. rewrite !nview_is_map. apply (aset_map_val nval). Qed.

(* the writer that records the stat AS SENT at a hard link: what apply_map does on honest
   entries (proof device: one replay step simulates it unconditionally) *)
Definition apply_map_sent (D : dmap) (next : N) (c : change) : option (dmap * N) :=
  match c with
  | (KDelete, p, _) => Some (aremove_if (at_or_below p) D, next)
  | (_, _, None) => None
  | (k, p, Some st) =>
    let old := alookup p D in
    match old, k with
    | None, KModify => None
    | _, _ =>
      match old with
      | Some o =>
        if st_is_dir st && st_is_dir (de_stat o) then
          Some (aset p {| de_stat := st; de_bytes := de_bytes o; de_ino := de_ino o |} D, next)
        else
          let D1 := if Bool.eqb (st_is_dir (de_stat o)) (st_is_dir st) then D
                    else aremove_if (at_or_below p) D in
          if is_hardlink st then
            match alookup (st_linkname st) D with
            | Some t => if st_is_dir (de_stat t) then None
                        else Some (aset p {| de_stat := st; de_bytes := de_bytes t; de_ino := de_ino t |} D1, next)
            | None => None
            end
          else Some (aset p {| de_stat := st; de_bytes := if wants_content st then src p else [];
                               de_ino := next |} D1, next + 1)
      | None =>
          if is_hardlink st then
            match alookup (st_linkname st) D with
            | Some t => if st_is_dir (de_stat t) then None
                        else Some (aset p {| de_stat := st; de_bytes := de_bytes t; de_ino := de_ino t |} D, next)
            | None => None
            end
          else Some (aset p {| de_stat := st; de_bytes := if wants_content st then src p else [];
                               de_ino := next |} D, next + 1)
      end
    end
  end.

Lemma honest_change_link D k p st t :
  k <> KDelete -> honest_change D (k, p, Some st) = true -> is_hardlink st = true ->
  alookup (st_linkname st) D = Some t -> link_stat (de_stat t) st = st.
Proof.
  intros Hk Hh Hl Ht. unfold honest_change, honest_change_by in Hh.
  destruct k; [| |congruence]; rewrite Hl, Ht in Hh; apply stat_eqb_eq in Hh; exact Hh.
Qed.

Lemma apply_map_honest D next c :
  honest_change D c = true -> apply_map src D next c = apply_map_sent D next c.
Proof.
  destruct c as [[k p] [st|]]; [|reflexivity]. intros Hh.
  assert (Hl : k <> KDelete -> is_hardlink st = true -> forall t, alookup (st_linkname st) D = Some t ->
               link_stat (de_stat t) st = st).
  { intros Hk Hhl t Ht. eapply honest_change_link; eauto. }
  clear Hh.
  destruct k; [| |reflexivity]; cbn [apply_map apply_map_sent].
  - destruct (alookup p D) as [o|].
    + destruct (st_is_dir st && st_is_dir (de_stat o)); [reflexivity|]. cbv zeta.
      destruct (is_hardlink st) eqn:Ehl; [|reflexivity].
      destruct (alookup (st_linkname st) D) as [t|] eqn:Et; [|reflexivity].
      rewrite (Hl ltac:(discriminate) eq_refl t eq_refl). reflexivity.
    + destruct (is_hardlink st) eqn:Ehl; [|reflexivity].
      destruct (alookup (st_linkname st) D) as [t|] eqn:Et; [|reflexivity].
      rewrite (Hl ltac:(discriminate) eq_refl t eq_refl). reflexivity.
  - destruct (alookup p D) as [o|]; [|reflexivity].
    destruct (st_is_dir st && st_is_dir (de_stat o)); [reflexivity|]. cbv zeta.
    destruct (is_hardlink st) eqn:Ehl; [|reflexivity].
    destruct (alookup (st_linkname st) D) as [t|] eqn:Et; [|reflexivity].
    rewrite (Hl ltac:(discriminate) eq_refl t eq_refl). reflexivity.
Qed.

Lemma replay_step_sim_sent D next c D' next' :
  apply_map_sent D next c = Some (D', next') -> replay_step (nview D) (notif_of c) = nview D'.
Proof.
  destruct c as [[k p] [st|]].
  2:{ destruct k; simpl; try discriminate. intros E. inversion E; subst.
      rewrite !nview_is_map. apply aremove_if_map_val. }
  assert (Hdel : k = KDelete ->
           apply_map_sent D next (k, p, Some st) = Some (D', next') ->
           replay_step (nview D) (notif_of (k, p, Some st)) = nview D').
  { intros -> E. simpl in E. inversion E; subst. simpl. rewrite !nview_is_map. apply aremove_if_map_val. }
  (* the add / modify body, common to both kinds *)
  assert (Hbody : forall k', k' <> KDelete ->
    (match alookup p D with
     | Some o =>
        if st_is_dir st && st_is_dir (de_stat o) then
          Some (aset p {| de_stat := st; de_bytes := de_bytes o; de_ino := de_ino o |} D, next)
        else
          let D1 := if Bool.eqb (st_is_dir (de_stat o)) (st_is_dir st) then D
                    else aremove_if (at_or_below p) D in
          if is_hardlink st then
            match alookup (st_linkname st) D with
            | Some t => if st_is_dir (de_stat t) then None
                        else Some (aset p {| de_stat := st; de_bytes := de_bytes t; de_ino := de_ino t |} D1, next)
            | None => None
            end
          else Some (aset p {| de_stat := st; de_bytes := if wants_content st then src p else [];
                               de_ino := next |} D1, next + 1)
     | None =>
          if is_hardlink st then
            match alookup (st_linkname st) D with
            | Some t => if st_is_dir (de_stat t) then None
                        else Some (aset p {| de_stat := st; de_bytes := de_bytes t; de_ino := de_ino t |} D, next)
            | None => None
            end
          else Some (aset p {| de_stat := st; de_bytes := if wants_content st then src p else [];
                               de_ino := next |} D, next + 1)
     end) = Some (D', next') ->
    replay_step (nview D) (if wants_content st then KAdd else k', p, Some (st, digest st (src p))) = nview D').
  { intros k' Hk' E.
    assert (Hstep : forall M, replay_step M (if wants_content st then KAdd else k', p, Some (st, digest st (src p))) =
              aset p (st, digest st (src p))
                (match alookup p M with
                 | Some (old, _) => if Bool.eqb (st_is_dir old) (st_is_dir st) then M
                                    else aremove_if (at_or_below p) M
                 | None => M
                 end)).
    { intros M. destruct (wants_content st); [reflexivity|]. destruct k'; try reflexivity. congruence. }
    rewrite Hstep. rewrite alookup_nview.
    assert (Hdg : digest st (src p) = digest st (if wants_content st then src p else [])).
    { destruct (wants_content st) eqn:Ew; auto. apply digest_no_content; auto. }
    destruct (alookup p D) as [o|] eqn:Eo; simpl option_map; cbv iota beta.
    - unfold nval at 1. cbv iota beta.
      destruct (st_is_dir st && st_is_dir (de_stat o)) eqn:Edd.
      + apply andb_true_iff in Edd. destruct Edd as [Ed1 Ed2]. inversion E; subst.
        rewrite Ed1, Ed2. simpl Bool.eqb. cbv iota.
        rewrite (digest_no_content st (src p) (de_bytes o)) by (apply dir_no_content; auto).
        rewrite !nview_is_map. apply (aset_map_val nval p {| de_stat := st; de_bytes := de_bytes o; de_ino := de_ino o |}).
      + cbv zeta in E.
        destruct (Bool.eqb (st_is_dir (de_stat o)) (st_is_dir st)) eqn:Eeq;
          rewrite ?nview_aremove_if;
          (destruct (is_hardlink st) eqn:Ehl;
           [ destruct (alookup (st_linkname st) D) as [t|]; [|discriminate];
             destruct (st_is_dir (de_stat t)); [discriminate|]; inversion E; subst;
             rewrite (digest_no_content st (src p) (de_bytes t)) by (apply is_hardlink_no_content; auto);
             apply (nview_aset p {| de_stat := st; de_bytes := de_bytes t; de_ino := de_ino t |})
           | inversion E; subst; rewrite Hdg;
             apply (nview_aset p {| de_stat := st; de_bytes := if wants_content st then src p else []; de_ino := next |}) ]).
    - destruct (is_hardlink st) eqn:Ehl.
      + destruct (alookup (st_linkname st) D) as [t|]; [|discriminate].
        destruct (st_is_dir (de_stat t)); [discriminate|]. inversion E; subst.
        rewrite (digest_no_content st (src p) (de_bytes t)) by (apply is_hardlink_no_content; auto).
        apply (nview_aset p {| de_stat := st; de_bytes := de_bytes t; de_ino := de_ino t |}).
      + inversion E; subst. rewrite Hdg.
        apply (nview_aset p {| de_stat := st; de_bytes := if wants_content st then src p else []; de_ino := next |}). }
  destruct k.
  - intros E. apply (Hbody KAdd); [discriminate|]. simpl in E. destruct (alookup p D); exact E.
  - intros E. apply (Hbody KModify); [discriminate|]. simpl in E. destruct (alookup p D); [exact E|discriminate].
  - apply Hdel. reflexivity.
Qed.

(* one replay step on the consumer's view simulates one honest HandleChange *)
Theorem replay_step_sim D next c D' next' :
  apply_map src D next c = Some (D', next') -> honest_change D c = true ->
  replay_step (nview D) (notif_of c) = nview D'.
Proof.
  intros E Hh. rewrite (apply_map_honest _ _ _ Hh) in E. eapply replay_step_sim_sent; eauto.
Qed.

Lemma apply_all_spec : forall cs D next D' next' done e,
  apply_all src cs D next = (D', next', done, e) ->
  (exists rest, cs = done ++ rest /\ (e = false -> rest = [])) /\
  (honest_run src cs D next = true -> replay (map notif_of done) (nview D) = nview D').
Proof.
  induction cs as [|c cs IH]; intros D next D' next' done e E; simpl in E.
  - inversion E; subst. split; [exists []; auto|reflexivity].
  - destruct (apply_map src D next c) as [[D1 n1]|] eqn:Ea.
    + destruct (apply_all src cs D1 n1) as [[[D2 n2] dn] e2] eqn:Er. inversion E; subst.
      destruct (IH _ _ _ _ _ _ Er) as [(rest & -> & Hrest) Hrep]. split.
      * exists rest. split; auto.
      * intros Hh. unfold honest_run in Hh. cbn [honest_run_by] in Hh. rewrite Ea in Hh.
        apply andb_true_iff in Hh. destruct Hh as [Hh1 Hh2].
        simpl. unfold replay in *. simpl. rewrite (replay_step_sim _ _ _ _ _ Ea Hh1). exact (Hrep Hh2).
    + inversion E; subst. split; [exists (c :: cs); split; [reflexivity|discriminate]|reflexivity].
Qed.

End Sim.

(* ---------------------------------------------------------------- the old destination as a map *)
Lemma dest_from_view : forall A i seen,
  map (fun kv => (fst kv, (de_stat (snd kv), de_bytes (snd kv)))) (dest_from A i seen)
  = map (fun e => (st_path (fst e), e)) A.
Proof.
  induction A as [|[st bs] A IH]; intros i seen; [reflexivity|].
  simpl. rewrite IH. reflexivity.
Qed.

Definition dview (D : dmap) (p : bytes) : option entry :=
  option_map (fun e => (de_stat e, de_bytes e)) (alookup p D).

Lemma alookup_keyed (A : list entry) p :
  alookup p (map (fun e => (st_path (fst e), e)) A) = efind p A.
Proof.
  induction A as [|e A IH]; [reflexivity|].
  simpl map. rewrite alookup_cons, IH. unfold efind. simpl. destruct (bytes_eqb (st_path (fst e)) p); reflexivity.
Qed.

Lemma dview_dest_of A p : dview (dest_of A) p = efind p A.
Proof.
  unfold dview, dest_of. rewrite <- alookup_map_val, dest_from_view. apply alookup_keyed.
Qed.

Lemma efind_some p E e : efind p E = Some e -> In e E /\ st_path (fst e) = p.
Proof.
  unfold efind. intros Hf. apply find_some in Hf. destruct Hf as [H1 H2]. split; auto. apply bytes_eqb_eq; auto.
Qed.

Lemma efind_none p E : efind p E = None -> forall e, In e E -> st_path (fst e) <> p.
Proof.
  unfold efind. intros Hf e He Ep. pose proof (find_none _ _ Hf _ He) as H1. simpl in H1.
  rewrite Ep, bytes_eqb_refl in H1. discriminate.
Qed.

Lemma efind_in_sorted E e : sorted (map fst E) -> In e E -> efind (st_path (fst e)) E = Some e.
Proof.
  intros HS He. destruct (efind (st_path (fst e)) E) as [e'|] eqn:Ef.
  - apply efind_some in Ef. destruct Ef as [He' Ep]. f_equal.
    clear -HS He He' Ep. induction E as [|x E IH]; [destruct He|].
    simpl in HS. apply sorted_inv in HS. destruct HS as [HS Hx].
    destruct He as [->|He], He' as [->|He']; auto.
    + exfalso. specialize (Hx (fst e') (in_map fst _ _ He')). unfold plt in Hx.
      rewrite <- Ep, compare_path_refl in Hx. discriminate.
    + exfalso. specialize (Hx (fst e) (in_map fst _ _ He)). unfold plt in Hx.
      rewrite Ep, compare_path_refl in Hx. discriminate.
  - exfalso. eapply efind_none; eauto.
Qed.
