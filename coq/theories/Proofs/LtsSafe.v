(* Safety over all reachable states of the goroutine LTS: assembly of the invariants of
   LtsInv.v into no_false_success, plus writers, single receiver, payload ownership. *)
From Coq Require Import List Arith Bool PeanoNat Lia.
From FS Require Import Model.Lts Proofs.LtsInv.
Import ListNotations.

(* ---------- writers ---------- *)
Lemma memb_cons : forall x y l, memb x (y :: l) = Nat.eqb x y || memb x l.
Proof. reflexivity. Qed.

Definition wr_ok (st : state) (w : writer) : Prop :=
  match wr_pc w with
  | WR_Notify => memb (wr_id w) (completed st) = true
  | WR_Done => eg_err st = true \/ memb (wr_id w) (completed st) = true
  | _ => True
  end.
Definition inv4 (st : state) : Prop :=
  forall j w, nth_error (wrs st) j = Some w -> wr_ok st w.

Lemma inv4_step : forall p st l st', inv4 st -> step p st l = Some st' -> inv4 st'.
Proof.
  intros p st l st' I H. unfold inv4 in *.
  destruct l; unfold_steps H; step_split H; inv_some; subst;
  repeat match goal with w : writer |- _ => destruct w; cbn in * end; subst;
  intros j' w' Hn; cbn in Hn; unfold setwr in Hn; cbn in Hn.
  all: try (apply I in Hn; unfold wr_ok in *; cbn; destruct (wr_pc w'); cbn in *;
            rewrite ?memb_cons; intuition (auto with bool); fail).
  all: try (match type of Hn with context [set_nth ?j _ _] =>
              match goal with E : nth_error _ j = Some _ |- _ =>
                rewrite (nth_error_set_nth _ _ _ j' _ _ E) in Hn; pose proof (I _ _ E) as IE end end;
            destruct (Nat.eqb_spec j j');
            [ inv_some; subst; unfold wr_ok in *; cbn in *; intuition (auto with bool)
            | apply I in Hn; unfold wr_ok in *; cbn; destruct (wr_pc w'); cbn in *; intuition (auto with bool)]; fail).
  rewrite nth_error_snoc in Hn. destruct (j' <? length (wrs st)).
  - apply I in Hn. unfold wr_ok in *; cbn. destruct (wr_pc w'); auto.
  - destruct (j' =? length (wrs st)); inv_some; subst; try discriminate. unfold wr_ok; cbn. auto.
Qed.

Lemma inv4_init : forall p, inv4 (init p).
Proof. intros p j w H. destruct j; discriminate H. Qed.


Definition has_writer (l : list writer) (i : nat) : Prop :=
  exists j w, nth_error l j = Some w /\ wr_id w = i.
Lemma has_writer_snoc_old : forall l x i, has_writer l i -> has_writer (l ++ [x]) i.
Proof.
  intros l x i (j & w & A & B). exists j, w. split; auto.
  rewrite nth_error_app1; auto. eapply nth_error_some_lt; eauto.
Qed.
Lemma has_writer_snoc_new : forall l x, has_writer (l ++ [x]) (wr_id x).
Proof.
  intros. exists (length l), x. split; auto. rewrite nth_error_app2 by lia.
  rewrite Nat.sub_diag. reflexivity.
Qed.
Lemma has_writer_set_nth : forall l j w0 x i,
  nth_error l j = Some w0 -> wr_id x = wr_id w0 -> has_writer l i -> has_writer (set_nth j x l) i.
Proof.
  intros l j w0 x i E Hid (j' & w & A & B).
  destruct (Nat.eqb_spec j j').
  - subst j'. exists j, x. split. apply nth_error_set_nth_eq. eapply nth_error_some_lt; eauto. congruence.
  - exists j', w. split; auto. rewrite nth_error_set_nth_neq; auto.
Qed.

Definition inv5 (p : params) (st : state) : Prop :=
  d_err st = false -> forall i, i < dl_i st -> kind_of p i = ENeed ->
  dl_pc st = DL_Handle i \/ has_writer (wrs st) i.

Lemma inv5_step : forall p st l st', inv5 p st -> step p st l = Some st' -> inv5 p st'.
Proof.
  intros p st l st' I H. unfold inv5 in *.
  destruct l; unfold_steps H; step_split H; inv_some; subst;
  repeat match goal with w : writer |- _ => destruct w; cbn in * end; subst;
  cbn; unfold setwr; cbn; intros Hd ii Hi Hk; try discriminate Hd.
  all: try (specialize (I Hd ii Hi Hk); destruct I as [I|I]; [left; congruence | right; auto]; fail).
  all: try (specialize (I Hd ii Hi Hk); destruct I as [I|I]; [left; congruence | right];
            eapply has_writer_set_nth; eauto; fail).
  - destruct (Nat.eq_dec ii (dl_i st)); [left; congruence|].
    assert (ii < dl_i st) by lia. destruct (I Hd ii H Hk); [discriminate | right; auto].
  - destruct (I Hd ii Hi Hk) as [X|X].
    + right. injection X as X. subst. apply (has_writer_snoc_new (wrs st) {| wr_id := ii; wr_pc := WR_Start |}).
    + right. apply has_writer_snoc_old; auto.
  - congruence.
  - destruct (I eq_refl ii Hi Hk); [discriminate | right; auto].
Qed.

Lemma inv5_init : forall p, inv5 p (init p).
Proof. intros p _ i H. cbn in H. lia. Qed.

(* ---------- walker result ---------- *)
Definition inv6 (st : state) : Prop :=
  sw_pc st = SW_Done -> s_err st = true \/ g_end_sr st = true.
Lemma inv6_step : forall p st l st', inv6 st -> step p st l = Some st' -> inv6 st'.
Proof.
  intros p st l st' I H. unfold inv6 in *.
  destruct l; unfold_steps H; step_split H; inv_some; subst; cbn;
  repeat match goal with E : _ = _ |- _ => rewrite E in * end; cbn in *;
  intuition (try discriminate; try congruence; auto).
Qed.

(* ---------- all invariants hold in every reachable state ---------- *)
Record inv (p : params) (st : state) : Prop := {
  i_mu : mutex_inv st; i_1 : inv1 st; i_2 : inv2 p st; i_3 : inv3 st; i_4 : inv4 st;
  i_5 : inv5 p st; i_6 : inv6 st }.

Lemma inv_reachable : forall p st, reachable p st -> inv p st.
Proof.
  induction 1.
  - constructor; [apply mutex_inv_init | apply inv1_init | apply inv2_init | apply inv3_init
                 | apply inv4_init | apply inv5_init | intro X; discriminate X].
  - destruct IHreachable. constructor.
    + destruct i_mu0. split; [eapply mutex_s_step | eapply mutex_r_step]; eauto.
    + eapply inv1_step; eauto.
    + eapply inv2_step; eauto.
    + eapply inv3_step; eauto.
    + eapply inv4_step; eauto.
    + eapply inv5_step; eauto.
    + eapply inv6_step; eauto.
Qed.

(* ---------- no_false_success ---------- *)
Definition recv_ok_spec (p : params) (st : state) : Prop :=
  g_got_end_r st = true /\
  (forall i, i < nentries p -> kind_of p i = ENeed -> memb i (completed st) = true) /\
  (dl_pc st = DL_Done /\ d_err st = false /\ dl_i st = nentries p) /\
  g_fin_rs st = true.
Definition send_ok_spec (st : state) : Prop :=
  g_got_fin_s st = true /\ g_fin_sr st = true /\ g_end_sr st = true.

Lemma no_false_success_proof : forall p st, reachable p st ->
  (recv_ret st = Some true -> recv_ok_spec p st) /\
  (send_ret st = Some true -> send_ok_spec st).
Proof.
  intros p st R. destruct (inv_reachable _ _ R) as [_ J1 J2 J3 J4 J5 J6].
  unfold inv1 in J1. destruct J1 as (A1 & A2 & A3 & A4 & A5 & A6 & A7 & A8 & A9 & A10 & A11).
  split.
  - intro Rk.
    assert (Re: r_err st = false) by auto.
    destruct A10 as [Dd Rd]; [congruence|].
    rewrite Rd in A9. destruct A9 as [X|Gf]; [congruence|].
    assert (Frs: g_fin_rs st = true) by auto.
    unfold inv3, wok in J3. destruct J3 as (B1 & B2 & B3 & B4 & B5 & B6 & B7 & B8).
    destruct (B4 Frs) as (_ & De & Ee & Wd).
    rewrite Dd in B1. destruct B1 as [Fd Ld].
    rewrite Fd in B5, B8. destruct (B5 De) as [Wc Wn].
    destruct (B7 Ld De) as [_ Cn].
    unfold inv2 in J2. destruct J2 as (_ & _ & _ & _ & C5 & _ & C7 & _ & _).
    assert (Ge: g_got_end_r st = true) by auto.
    destruct (C5 Ge) as (_ & _ & Ri).
    specialize (B8 Re De I). unfold rl_holds, fl_holds in B8. rewrite Rd, Fd, Wn, Cn in B8. cbn in B8.
    assert (Di: dl_i st = nentries p) by lia.
    unfold recv_ok_spec. repeat split; auto.
    intros i Hi Hk. unfold inv5 in J5. rewrite <- Di in Hi.
    destruct (J5 De i Hi Hk) as [X|(j & w & Hn & Hid)]; [congruence|].
    pose proof (J4 _ _ Hn) as Wk. pose proof (forallb_nth _ _ _ _ _ Wd Hn) as Wdn.
    unfold wr_ok in Wk. unfold wr_done in Wdn. destruct (wr_pc w); try discriminate.
    subst i. destruct Wk; [congruence | auto].
  - intro Sk. assert (Se: s_err st = false) by auto.
    destruct A1 as (Sw & Rq & _); [congruence|].
    rewrite Rq in A3. destruct A3 as [X|[G1 G2]]; [congruence|].
    unfold send_ok_spec. repeat split; auto.
    destruct (J6 Sw); [congruence | auto].
Qed.

(* ---------- single receiver per side; payload ownership ---------- *)
Lemma app_length_lt : forall A (l : list A) x, length (l ++ [x]) < length l -> False.
Proof. intros. rewrite app_length in H. cbn in H. lia. Qed.

Lemma single_recv_proof : forall p st l st', step p st l = Some st' ->
  (buf_rs st' <> buf_rs st -> (exists pk, buf_rs st' = buf_rs st ++ [pk]) \/
                              (l = LReq /\ rq_pc st = RQ_Recv /\ exists pk, buf_rs st = pk :: buf_rs st')) /\
  (buf_sr st' <> buf_sr st -> (exists pk, buf_sr st' = buf_sr st ++ [pk]) \/
                              (l = LRecvLoop /\ (rl_pc st = RL_Recv \/ rl_pc st = RL_Drain) /\
                               exists pk, buf_sr st = pk :: buf_sr st')).
Proof.
  intros p st l st' H.
  destruct l; unfold_steps H; step_split H; inv_some; subst;
  repeat match goal with w : writer |- _ => destruct w; cbn in * end; subst; cbn;
  split; intro X; try congruence; eauto 8.
Qed.

Lemma payload_consumed_proof : forall p st id,
  rl_pc st = RL_Write id ->
  (* the only move of the receive loop is the write to the pipe ... *)
  (forall st', step p st LRecvLoop = Some st' ->
     written st' = id :: written st /\ rl_pc st' = RL_Recv /\ buf_sr st' = buf_sr st) /\
  step p st LRecvLoopClosed = None /\
  (* ... and no other label moves the receive loop or consumes from its stream *)
  (forall l st', step p st l = Some st' -> l <> LRecvLoop ->
     rl_pc st' = RL_Write id /\ written st' = written st /\
     (buf_sr st' = buf_sr st \/ exists pk, buf_sr st' = buf_sr st ++ [pk])).
Proof.
  intros p st id Hpc. repeat split.
  - cbn in H. unfold step_recvloop in H. rewrite Hpc in H. inv_some. subst. reflexivity.
  - cbn in H. unfold step_recvloop in H. rewrite Hpc in H. inv_some. subst. reflexivity.
  - cbn in H. unfold step_recvloop in H. rewrite Hpc in H. inv_some. subst. reflexivity.
  - cbn. unfold step_recvloop_closed. rewrite Hpc. reflexivity.
  - destruct l; try congruence; unfold_steps H; step_split H; inv_some; subst;
    repeat match goal with w : writer |- _ => destruct w; cbn in * end; subst; cbn; congruence.
  - destruct l; try congruence; unfold_steps H; step_split H; inv_some; subst;
    repeat match goal with w : writer |- _ => destruct w; cbn in * end; subst; cbn; congruence.
  - destruct l; try congruence; unfold_steps H; step_split H; inv_some; subst;
    repeat match goal with w : writer |- _ => destruct w; cbn in * end; subst; cbn; eauto; congruence.
Qed.

(* ---------- fault_reaches_peer ---------- *)
Lemma run_reachable : forall p ls st st', reachable p st -> run p st ls = Some st' -> reachable p st'.
Proof.
  induction ls; intros st st' R H; cbn in H.
  - injection H as H. subst. auto.
  - destruct (step p st a) eqn:E; try discriminate. eapply IHls; [|eauto]. econstructor; eauto.
Qed.

(* sender: the walker is on its way to SendMsg(ERR) *)
Definition err_path_s (st : state) : Prop := sw_pc st = SW_Lock KErr \/ sw_pc st = SW_Send KErr.
(* receiver: the first goroutine of receiver.run is on its way to SendMsg(ERR) *)
Definition err_path_r (st : state) : Prop :=
  (do_pc st = DO_WaitDiff /\ d_err st = true) \/ do_pc st = DO_LockErr \/ do_pc st = DO_SendErr.

Lemma fault_reaches_peer_sender : forall p st,
  (* a walk error (or the walker seeing its context cancelled, or a failed SendMsg(STAT)) puts
     the walker on the error path ... *)
  (forall st', step p st LSWalkErr = Some st' -> err_path_s st') /\
  (sw_pc st = SW_Next -> sw_i st < nentries p -> s_cancel st = true -> forall st', step p st LSWalk = Some st' -> err_path_s st') /\
  (forall k, sw_pc st = SW_Send k -> s_broken st = true -> forall st', step p st LSWalk = Some st' ->
     err_path_s st' \/ k = KErr) /\
  (* ... on which its only move is LSWalk, no other label changes its pc, and the move is either
     taking the mutex or completing SendMsg(ERR): the ERR packet is appended to the stream
     unless this endpoint has failed. *)
  (err_path_s st ->
     step p st LSWalkErr = None /\
     (forall l st', step p st l = Some st' -> l <> LSWalk -> sw_pc st' = sw_pc st) /\
     (forall st', step p st LSWalk = Some st' ->
        (sw_pc st = SW_Lock KErr /\ sw_pc st' = SW_Send KErr /\ buf_sr st' = buf_sr st) \/
        (sw_pc st = SW_Send KErr /\ sw_pc st' = SW_Done /\
         (s_broken st = false -> buf_sr st' = buf_sr st ++ [PErr])))).
Proof.
  intros p st. repeat split.
  - intros st' H. unfold_steps H; step_split H; inv_some; subst; left; reflexivity.
  - intros A Lt B st' H. unfold_steps H. apply Nat.ltb_lt in Lt. rewrite A, Lt, B in H. inv_some. subst. left. reflexivity.
  - intros k A B st' H. unfold_steps H. rewrite A, B in H. cbn in H. destruct k; inv_some; subst; cbn;
    [left; left; reflexivity | left; left; reflexivity | right; reflexivity].
  - destruct H as [H|H]; unfold step, step_walker_err; rewrite H; reflexivity.
  - intros l st' S NL. destruct l; try congruence; unfold_steps S; step_split S; inv_some; subst;
    repeat match goal with w : writer |- _ => destruct w; cbn in * end; subst; cbn; try reflexivity;
    destruct H; congruence.
  - intros st' S. destruct H as [H|H]; unfold_steps S; rewrite H in S; step_split S; inv_some; subst; cbn.
    + left. auto.
    + right. repeat split; auto. intro; discriminate.
    + right. repeat split; auto.
Qed.

Lemma fault_reaches_peer_receiver : forall p st, reachable p st ->
  (* an error inside HandleChange (callback / syscall) ends the diff loop with an error while the
     parent goroutine is still waiting for doubleWalkDiff ... *)
  (forall st', step p st LDiffCbErr = Some st' -> err_path_r st') /\
  (* ... from there every move of that goroutine stays on the error path or completes
     SendMsg(ERR); no other label takes it off the path. *)
  (err_path_r st ->
     (forall l st', step p st l = Some st' -> l <> LDiffOuter -> err_path_r st') /\
     (forall st', step p st LDiffOuter = Some st' ->
        err_path_r st' \/
        (do_pc st = DO_SendErr /\ do_pc st' = DO_Done /\
         (r_broken st = false -> buf_rs st' = buf_rs st ++ [PErr])))).
Proof.
  intros p st R. pose proof (inv_reachable _ _ R) as J. destruct J as [_ _ _ J3 _ _ _].
  destruct J3 as (B1 & _). repeat split.
  - intros st' H. unfold_steps H; step_split H; inv_some; subst; unfold err_path_r; cbn;
    destruct (do_pc st) eqn:D; try (destruct B1 as [_ B1]; congruence); left; auto.
  - intros l st' S NL. unfold err_path_r in *.
    destruct l; try congruence; unfold_steps S; step_split S; inv_some; subst;
    repeat match goal with w : writer |- _ => destruct w; cbn in * end; subst; cbn; auto;
    try (destruct H as [[A B]|[A|A]]; [left; auto | right; left; auto | right; right; auto]; fail).
    destruct H as [[A B]|[A|A]]; discriminate.
  - intros st' S. unfold err_path_r in *.
    destruct H as [[A B]|[A|A]]; unfold_steps S; rewrite A in S; step_split S; inv_some; subst; cbn; auto;
    try congruence.
    all: try (right; repeat split; auto; intro; discriminate).
Qed.
