(* C14 — containment theorems about Model/CopyFs.v, stated in the vocabulary of Model/CopyFsSpec.v. *)
From Coq Require Import List Arith NArith Lia Bool ZifyN ZifyNat ZifyBool.
From FS Require Import Sx Model.Path Model.Fs Model.RootPath Model.CopyFs Model.CopyFsSpec
  Proofs.Lex Proofs.PathP Proofs.FsP Proofs.RootPathStrP Proofs.FsCopyFrameP Proofs.FsCopyInvP
  Proofs.FsCopySafeP Proofs.FsCopyLinksP Proofs.FsCopySysP Proofs.CopyFsP Proofs.CopyRecP Proofs.CopyFsRec2P Proofs.CopyFsTopP.
Import ListNotations.
Open Scope N_scope.
Open Scope bool_scope.

Lemma wf_inv f0 dr : fs_wf f0 -> Inv f0 dr f0.
Proof.
  intros W. apply inv_init.
  - apply W.
  - intros j _. apply W.
  - intros j. pose proof (wf_names f0 W j) as H. unfold entry_name_ok in H.
    apply forallb_name_ok in H. destruct H as [H1 H2].
    clear -H1 H2. induction (map fst (dents f0 j)) as [|a l IH]; [constructor|].
    inversion H1; inversion H2; subst. constructor; [split; auto|auto].
  - apply W.
  - apply W.
Qed.

Lemma wf_ctx c f0 dr dcs : fs_wf f0 -> forallb name_ok dcs = true -> chain f0 (c_root c) dcs dr ->
  (length dcs < rfuel)%nat -> Ctx c f0 dr dcs f0.
Proof.
  intros W Hn Hc Hl. apply forallb_name_ok in Hn. destruct Hn as [H1 H2].
  constructor; auto; [apply W|eapply chain_end_dir; eauto|apply wf_inv; auto].
Qed.

Lemma lok_init (c : ctx) f0 dr dcs : lok f0 dr dcs (cst_init f0).
Proof. intros e He. destruct He. Qed.

Lemma deferred_targets_eq dcs : forall pend cs, deferred_targets dcs cs pend = pend_paths dcs cs pend.
Proof. induction pend as [|p r IH]; intros cs; [reflexivity|]. cbn [deferred_targets pend_paths]. rewrite IH. reflexivity. Qed.

Lemma lok_parents (c : ctx) f0 dr dcs ps : lok f0 dr dcs (cst_with_parents f0 ps).
Proof. intros e He. destruct He. Qed.

(* the recursive copy into "<dstRoot>/cs/pend/x": cs real directories, pend the directories whose
   creation is deferred (the uncopied entries of the parentDirs stack), any selector, any flags:
   of the inodes that existed before, only directories at or below dstRoot (reached through real
   directories) can have changed *)
Theorem copy_rec_contained_proof fuel c o sl src comps ow pinc pexc f0 dr dcs cs pend x d ps s' r :
  fs_wf f0 ->
  forallb name_ok dcs = true -> chain f0 (c_root c) dcs dr -> (length dcs < rfuel)%nat ->
  forallb name_ok cs = true -> forallb name_ok pend = true -> name_ok x = true -> chain f0 dr cs d ->
  uncopied_targets ps = deferred_targets dcs cs pend ->
  copy_rec fuel c o sl src comps (render (dcs ++ cs ++ pend ++ [x])) ow pinc pexc (cst_with_parents f0 ps) = (s', r) ->
  forall i, i < f_next f0 -> ~ inside_dir f0 dr i -> get (s_fs s') i = get f0 i.
Proof.
  intros W Hdn Hdc Hl Hcn Hpn Hxn Hc Hps H i Hi Hout.
  pose proof (wf_ctx c f0 dr dcs W Hdn Hdc Hl) as C.
  apply forallb_name_ok in Hcn. destruct Hcn as [Hc1 Hc2].
  apply forallb_name_ok in Hpn. destruct Hpn as [Hp1 Hp2].
  assert (Hx : nm x /\ nonul x).
  { assert (G : forallb name_ok [x] = true) by (simpl; rewrite Hxn; reflexivity).
    apply forallb_name_ok in G. destruct G as [G1 G2]. inversion G1; inversion G2; auto. }
  destruct Hx as [Hx1 Hx2].
  rewrite deferred_targets_eq in Hps.
  destruct (copy_rec_spec c f0 dr dcs fuel o sl src comps cs d pend x ow pinc pexc (cst_with_parents f0 ps) s' r
              C Hc Hc1 Hc2 Hp1 Hp2 Hx1 Hx2 Hps (lok_parents c f0 dr dcs ps) H) as ((C' & _) & _).
  apply (inv_frame f0 dr (s_fs s') (cx_inv _ _ _ _ _ C')); auto.
Qed.

From FS Require Import Proofs.CopyFsTop2P Proofs.CopyFsTop3P.

Local Opaque rfuel.

(* srcRoot stays a directory: it is the destination root itself, or lies outside it *)
Lemma src_root_dir c f0 dr dcs scs sr f : alloc_ok f0 ->
  Ctx c f0 dr dcs f -> forallb name_ok scs = true -> chain f0 (c_root c) scs sr -> (length scs < rfuel)%nat ->
  (scs = dcs \/ ~ inside_dir f0 dr sr) ->
  forall ino fi, snd (sys_lstat c f (render scs)) = RStat ino fi -> kind_is_dir fi = true.
Proof.
  intros Ha0 C Hn Hc Hl [->|Hout] ino fi H.
  - destruct (lstat_root c f0 dr dcs f C) as (n & E & Hk). rewrite E in H. inversion H; subst. exact Hk.
  - apply forallb_name_ok in Hn. destruct Hn as [Hn1 Hn2].
    pose proof (cx_inv _ _ _ _ _ C) as I.
    (* the chain to srcRoot is untouched *)
    assert (Hnode : forall p s m, scs = p ++ s -> chain f0 (c_root c) p m -> m < f_next f0 /\ ~ S0 f0 dr m).
    { intros p s m E Hp. split.
      - apply (exists_lt_next f0 m Ha0). apply is_dir_exists. eapply chain_end_dir; eauto.
      - intros (cs & Hcs). apply Hout. subst scs.
        destruct (chain_split f0 p (c_root c) s sr Hc) as (m' & P & Q).
        rewrite (chain_fun _ _ _ _ P _ Hp) in Q. exists (cs ++ s). eapply chain_app; eauto. }
    assert (Hc' : chain f (c_root c) scs sr).
    { apply (chain_stable f0 f (SS f0 dr)); auto.
      - intros j Hj. unfold dents, dir_of. rewrite (inv_frame f0 dr f I j); auto.
        + destruct (N.lt_ge_cases j (f_next f0)); auto. exfalso. apply Hj. right. auto.
        + intros Hs. apply Hj. left. auto.
      - intros j Hj. assert (j < f_next f0).
        { apply (exists_lt_next f0 j Ha0). apply is_dir_exists; auto. }
        rewrite (is_dir_old f0 dr f j I); auto.
      - intros p s m E Hs Hp [Hm|Hm]; destruct (Hnode p s m E Hp) as [G1 G2]; [auto|lia]. }
    destruct (resolve_chain c f0 f scs sr false Hc' Hn1 Hn2 Hl) as (r & E & Hi).
    unfold sys_lstat, resolve_ino in H. rewrite E, Hi in H.
    destruct (Hnode scs [] sr (eq_sym (app_nil_r scs)) Hc) as [G1 G2].
    rewrite (inv_frame f0 dr f I sr G1 G2) in H.
    pose proof (chain_end_dir _ _ _ _ Hc) as Hd. unfold is_dir, dir_of in Hd.
    destruct (get f0 sr) as [[[pp es|?|?|? ?] mm]|] eqn:Eg; try discriminate.
    cbn [snd] in H. inversion H; subst. reflexivity.
Qed.

(* Copy: of the inodes that existed before, only directories at or below dstRoot can have changed *)
Theorem copy_contained_proof fuel c o osl scs src dcs dst matches f0 dr sr s' res :
  fs_wf f0 ->
  forallb name_ok dcs = true -> chain f0 (c_root c) dcs dr -> (length dcs < rfuel)%nat ->
  forallb name_ok scs = true -> chain f0 (c_root c) scs sr -> (length scs < rfuel)%nat ->
  (scs = dcs \/ ~ inside_dir f0 dr sr) ->
  has_nul src = false -> (forall l, matches = Some l -> forallb (fun m => negb (has_nul m)) l = true) ->
  copy_top fuel c o osl (render scs) src (render dcs) dst matches (cst_init f0) = (s', res) ->
  forall i, i < f_next f0 -> ~ inside_dir f0 dr i -> get (s_fs s') i = get f0 i.
Proof.
  intros W Hdn Hdc Hdl Hsn Hsc Hsl Hsd Hnul Hm H i Hi Hout.
  pose proof (wf_ctx c f0 dr dcs W Hdn Hdc Hdl) as C.
  assert (Hsr : forall f, Ctx c f0 dr dcs f -> forall ino fi, snd (sys_lstat c f (render scs)) = RStat ino fi -> kind_is_dir fi = true).
  { intros f Cf. eapply src_root_dir; eauto. apply W. }
  assert (Hm' : forall l, matches = Some l -> Forall (fun m => has_nul m = false) l).
  { intros l El. specialize (Hm l El). rewrite forallb_forall in Hm. apply Forall_forall. intros x Hx.
    apply negb_true_iff. apply Hm. exact Hx. }
  pose proof (copy_top_spec c f0 dr dcs (render scs) Hsr fuel o osl src dst matches (cst_init f0) s' res C (lok_init c f0 dr dcs) eq_refl Hnul Hm' H) as C'.
  apply (inv_frame f0 dr (s_fs s') (cx_inv _ _ _ _ _ C')); auto.
Qed.

From FS Require Import Proofs.CopyFsSrcP.

(* Copy with disjoint roots: every inode the copier reads through a source path (Lstat, the
   directory listings, os.Open of regular files, os.Stat of deferred parents, xattrs) is srcRoot, a
   directory below it, or an entry of such a directory — in the INITIAL file system: the tree below
   srcRoot does not change during the copy, and no symlink is followed on the way. *)
Theorem copy_reads_inside_proof fuel c o osl scs src dcs dst matches f0 dr sr s' res :
  fs_wf f0 ->
  forallb name_ok dcs = true -> chain f0 (c_root c) dcs dr -> (length dcs < rfuel)%nat ->
  forallb name_ok scs = true -> chain f0 (c_root c) scs sr -> (length scs < rfuel)%nat ->
  ~ inside_dir f0 dr sr -> ~ inside_dir f0 sr dr ->
  has_nul src = false -> (forall l, matches = Some l -> forallb (fun m => negb (has_nul m)) l = true) ->
  copy_top fuel c o osl (render scs) src (render dcs) dst matches (cst_init f0) = (s', res) ->
  forall i, In i (s_reads s') -> src_reach f0 sr i.
Proof.
  intros W Hdn Hdc Hdl Hsn Hsc Hsl D1 D2 Hnul Hm H.
  pose proof (wf_ctx c f0 dr dcs W Hdn Hdc Hdl) as C.
  assert (Hsr : forall f, Ctx c f0 dr dcs f -> forall ino fi, snd (sys_lstat c f (render scs)) = RStat ino fi -> kind_is_dir fi = true).
  { intros f Cf. eapply src_root_dir; eauto. apply W. }
  assert (Hm' : forall l, matches = Some l -> Forall (fun m => has_nul m = false) l).
  { intros l El. specialize (Hm l El). rewrite forallb_forall in Hm. apply Forall_forall. intros x Hx.
    apply negb_true_iff. apply Hm. exact Hx. }
  apply forallb_name_ok in Hsn. destruct Hsn as [Hs1 Hs2].
  assert (Rk0 : rok (Rc f0 sr) (cst_init f0)) by (intros i Hi; destruct Hi).
  destruct (copy_top_spec_r c f0 dr dcs (render scs) Hsr (Rc f0 sr) (SPc f0 scs sr) (SPNc f0 scs sr)
              (fun f p i Cf => src_HA c f0 dr scs sr W Hs1 Hs2 Hsc Hsl D1 D2 f p i (cx_inv _ _ _ _ _ Cf))
              (fun f p i n Cf => src_HB c f0 dr scs sr W Hs1 Hs2 Hsc Hsl D1 D2 f p i n (cx_inv _ _ _ _ _ Cf))
              (fun f p j Cf => src_HC c f0 dr scs sr W Hs1 Hs2 Hsc Hsl D1 D2 f p j (cx_inv _ _ _ _ _ Cf))
              (fun f p j pp es n Cf => src_HD c f0 dr scs sr W Hs1 Hs2 Hsc Hsl D1 D2 f p j pp es n (cx_inv _ _ _ _ _ Cf))
              (src_HN f0 scs sr) (fun _ _ => True)
              (fun f src0 follow sf Cf _ => src_HE c f0 dr scs sr W Hs1 Hs2 Hsc Hsl D1 D2 f src0 follow sf (cx_inv _ _ _ _ _ Cf))
              fuel o osl src dst matches (cst_init f0) s' res C (lok_init c f0 dr dcs) eq_refl Hnul Hm' (fun _ => I)
              (fun l _ => proj2 (Forall_forall _ l) (fun _ _ => I)) Rk0 H) as (_ & Rk).
  exact Rk.
Qed.

(* ---- overlapping roots: what is static whatever the roots ----
   A directory that existed before the copy and is reached from a (below srcRoot, say) through real
   directories in a state of the copy was reached by the same names initially: the copier never links or
   moves an old directory, and new directories contain no old ones. *)
Lemma inv_chain_old f0 dr f : Inv f0 dr f -> forall a ns d, chain f a ns d -> d < f_next f0 ->
  chain f0 a ns d /\ a < f_next f0.
Proof.
  intros I. induction 1 as [d Hd|d x i cs e Hb Hi Hc IH]; intros Hold.
  - split; auto. constructor. rewrite <- (is_dir_old f0 dr f d I Hold). exact Hd.
  - destruct (IH Hold) as [Hc0 Hio].
    destruct (inv_dent f0 dr f I d x i Hb Hi) as [[H1 _]|(Hd & _ & Hb0)]; [lia|].
    split; auto. econstructor; eauto. rewrite <- (is_dir_old f0 dr f i I Hio). exact Hi.
Qed.

Theorem copy_old_dirs_static_proof fuel c o osl scs src dcs dst matches f0 dr sr s' res :
  fs_wf f0 ->
  forallb name_ok dcs = true -> chain f0 (c_root c) dcs dr -> (length dcs < rfuel)%nat ->
  forallb name_ok scs = true -> chain f0 (c_root c) scs sr -> (length scs < rfuel)%nat ->
  (scs = dcs \/ ~ inside_dir f0 dr sr) ->
  has_nul src = false -> (forall l, matches = Some l -> forallb (fun m => negb (has_nul m)) l = true) ->
  copy_top fuel c o osl (render scs) src (render dcs) dst matches (cst_init f0) = (s', res) ->
  forall a ns d, chain (s_fs s') a ns d -> d < f_next f0 -> chain f0 a ns d.
Proof.
  intros W Hdn Hdc Hdl Hsn Hsc Hsl Hsd Hnul Hm H a ns d Hch Hold.
  pose proof (wf_ctx c f0 dr dcs W Hdn Hdc Hdl) as C.
  assert (Hsr : forall f, Ctx c f0 dr dcs f -> forall ino fi, snd (sys_lstat c f (render scs)) = RStat ino fi -> kind_is_dir fi = true).
  { intros f Cf. eapply src_root_dir; eauto. apply W. }
  assert (Hm' : forall l, matches = Some l -> Forall (fun m => has_nul m = false) l).
  { intros l El. specialize (Hm l El). rewrite forallb_forall in Hm. apply Forall_forall. intros x Hx.
    apply negb_true_iff. apply Hm. exact Hx. }
  pose proof (copy_top_spec c f0 dr dcs (render scs) Hsr fuel o osl src dst matches (cst_init f0) s' res C (lok_init c f0 dr dcs) eq_refl Hnul Hm' H) as C'.
  apply (inv_chain_old f0 dr (s_fs s') (cx_inv _ _ _ _ _ C') a ns d Hch Hold).
Qed.

(* ---- overlapping roots, a case that closes: dstRoot may lie below srcRoot; the source argument is a
   single name y that names a directory st of srcRoot, disjoint from dstRoot; no wildcards, no
   FollowLinks.  Then the walk stays in the static tree below st. ---- *)
Lemma root_path_sep_render c f m : Forall nm m -> root_path c f (render m) [sep] = inl (render m).
Proof.
  intros H. remember (render m) as r eqn:Er. unfold root_path, root_path_fuel. cbn. subst r.
  rewrite join2_render_sep by auto. reflexivity.
Qed.

Lemma copy_root_path_name c f scs y sf : Forall nm scs -> nm y ->
  copy_root_path c f (render scs) y false = inl sf -> sf = render (scs ++ [y]).
Proof.
  intros Hs Hy H. unfold copy_root_path in H.
  assert (E : join2 [sep] y = render [y]) by (apply (join2_names [] y); auto).
  rewrite E in H.
  assert (Hne : bytes_eqb (render [y]) [sep] = false).
  { apply bytes_eqb_neq. unfold render. simpl. intros Q. injection Q as Q. apply (nm_nonempty _ Hy). exact Q. }
  rewrite Hne in H.
  pose proof (RootPathP.split_path_render [] y (Forall_cons y Hy (Forall_nil _))) as Esp. simpl app in Esp. rewrite Esp in H.
  rewrite root_path_sep_render in H by auto. injection H as <-.
  apply join2_render_name; auto.
Qed.

Theorem copy_reads_inside_overlap_partial_proof fuel c o osl scs y dcs dst f0 dr sr st s' res :
  fs_wf f0 ->
  forallb name_ok dcs = true -> chain f0 (c_root c) dcs dr -> (length dcs < rfuel)%nat ->
  forallb name_ok scs = true -> chain f0 (c_root c) scs sr -> (length scs + 1 < rfuel)%nat ->
  ~ inside_dir f0 dr sr ->
  name_ok y = true -> blookup y (dents f0 sr) = Some st -> is_dir f0 st = true ->
  ~ inside_dir f0 dr st -> ~ inside_dir f0 st dr ->
  o_follow o = false ->
  copy_top fuel c o osl (render scs) y (render dcs) dst None (cst_init f0) = (s', res) ->
  forall i, In i (s_reads s') -> src_reach f0 st i.
Proof.
  intros W Hdn Hdc Hdl Hsn Hsc Hsl Dsr Hyn Hby Hdt D1 D2 Hfo H.
  pose proof (wf_ctx c f0 dr dcs W Hdn Hdc Hdl) as C.
  assert (Hsl0 : (length scs < rfuel)%nat) by lia.
  assert (Hsr : forall f, Ctx c f0 dr dcs f -> forall ino fi, snd (sys_lstat c f (render scs)) = RStat ino fi -> kind_is_dir fi = true).
  { intros f Cf. eapply (src_root_dir c f0 dr dcs scs sr); eauto. apply W. }
  apply forallb_name_ok in Hsn. destruct Hsn as [Hs1 Hs2].
  assert (Hy : nm y /\ nonul y).
  { assert (G : forallb name_ok [y] = true) by (simpl; rewrite Hyn; reflexivity).
    apply forallb_name_ok in G. destruct G as [G1 G2]. inversion G1; inversion G2; auto. }
  destruct Hy as [Hy1 Hy2].
  assert (Ht1 : Forall nm (scs ++ [y])) by (apply Forall_app; split; auto).
  assert (Ht2 : Forall nonul (scs ++ [y])) by (apply Forall_app; split; auto).
  assert (Htc : chain f0 (c_root c) (scs ++ [y]) st) by (eapply chain_snoc; eauto).
  assert (Htl : (length (scs ++ [y]) < rfuel)%nat) by (rewrite app_length; simpl; lia).
  assert (Hnul : has_nul y = false) by exact Hy2.
  assert (Rk0 : rok (Rc f0 st) (cst_init f0)) by (intros i Hi; destruct Hi).
  destruct (copy_top_spec_r c f0 dr dcs (render scs) Hsr (Rc f0 st) (SPc f0 (scs ++ [y]) st) (SPNc f0 (scs ++ [y]) st)
              (fun f p i Cf => src_HA c f0 dr (scs ++ [y]) st W Ht1 Ht2 Htc Htl D1 D2 f p i (cx_inv _ _ _ _ _ Cf))
              (fun f p i n Cf => src_HB c f0 dr (scs ++ [y]) st W Ht1 Ht2 Htc Htl D1 D2 f p i n (cx_inv _ _ _ _ _ Cf))
              (fun f p j Cf => src_HC c f0 dr (scs ++ [y]) st W Ht1 Ht2 Htc Htl D1 D2 f p j (cx_inv _ _ _ _ _ Cf))
              (fun f p j pp es n Cf => src_HD c f0 dr (scs ++ [y]) st W Ht1 Ht2 Htc Htl D1 D2 f p j pp es n (cx_inv _ _ _ _ _ Cf))
              (src_HN f0 (scs ++ [y]) st) (fun src0 follow => src0 = y /\ follow = false)
              (fun f src0 follow sf Cf Hp E =>
                 match Hp with conj Es Ef =>
                   eq_ind_r (fun q => SPc f0 (scs ++ [y]) st q)
                     (src_root_SP f0 (scs ++ [y]) st)
                     (copy_root_path_name c f scs y sf Hs1 Hy1
                        (eq_ind src0 (fun a => copy_root_path c f (render scs) a false = inl sf)
                           (eq_ind follow (fun b => copy_root_path c f (render scs) src0 b = inl sf) E false Ef) y Es))
                 end)
              fuel o osl y dst None (cst_init f0) s' res C (lok_init c f0 dr dcs) eq_refl Hnul
              (fun l El => ltac:(discriminate El)) (fun _ => conj eq_refl Hfo)
              (fun l El => ltac:(discriminate El)) Rk0 H) as (_ & Rk).
  exact Rk.
Qed.
