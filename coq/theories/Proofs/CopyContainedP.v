(* C14 — containment theorems about Model/CopyFs.v, stated in the vocabulary of Model/CopyFsSpec.v. *)
From Coq Require Import List Arith NArith Lia Bool ZifyN ZifyNat ZifyBool.
From FS Require Import Sx Model.Path Model.Fs Model.RootPath Model.CopyFs Model.CopyFsSpec
  Proofs.Lex Proofs.PathP Proofs.FsP Proofs.RootPathStrP Proofs.FsCopyFrameP Proofs.FsCopyInvP
  Proofs.FsCopySafeP Proofs.FsCopyLinksP Proofs.FsCopySysP Proofs.CopyFsP Proofs.CopyRecP Proofs.CopyFsTopP.
Import ListNotations.
Open Scope N_scope.
Open Scope bool_scope.

Lemma wf_inv f0 dr : fs_wf f0 -> Inv f0 dr f0.
Proof.
  intros W. apply inv_init.
  - apply W.
  - intros j _. apply W.
  - intros j. pose proof (wf_names f0 W j) as H. unfold entry_name_ok in H.
    apply forallb_name_ok in H. destruct H as [H1 H2].
    clear -H1 H2. induction (map fst (dents f0 j)) as [|a l IH]; [constructor|].
    inversion H1; inversion H2; subst. constructor; [split; auto|auto].
  - apply W.
  - apply W.
Qed.

Lemma wf_ctx c f0 dr dcs : fs_wf f0 -> forallb name_ok dcs = true -> chain f0 (c_root c) dcs dr ->
  (length dcs < rfuel)%nat -> Ctx c f0 dr dcs f0.
Proof.
  intros W Hn Hc Hl. apply forallb_name_ok in Hn. destruct Hn as [H1 H2].
  constructor; auto; [apply W|eapply chain_end_dir; eauto|apply wf_inv; auto].
Qed.

Lemma lok_init (c : ctx) f0 dr dcs : lok f0 dr dcs (cst_init f0).
Proof. intros e He. destruct He. Qed.

(* the recursive copy into "<dstRoot>/cs/x", cs real directories: of the inodes that existed before,
   only directories at or below dstRoot (reached through real directories) can have changed *)
Theorem copy_rec_contained_proof fuel c o src ow f0 dr dcs cs x d s' r :
  fs_wf f0 ->
  forallb name_ok dcs = true -> chain f0 (c_root c) dcs dr -> (length dcs < rfuel)%nat ->
  forallb name_ok cs = true -> name_ok x = true -> chain f0 dr cs d ->
  copy_rec fuel c o src (render (dcs ++ cs ++ [x])) ow (cst_init f0) = (s', r) ->
  forall i, i < f_next f0 -> ~ inside_dir f0 dr i -> get (s_fs s') i = get f0 i.
Proof.
  intros W Hdn Hdc Hl Hcn Hxn Hc H i Hi Hout.
  pose proof (wf_ctx c f0 dr dcs W Hdn Hdc Hl) as C.
  apply forallb_name_ok in Hcn. destruct Hcn as [Hc1 Hc2].
  assert (Hx : nm x /\ nonul x).
  { assert (G : forallb name_ok [x] = true) by (simpl; rewrite Hxn; reflexivity).
    apply forallb_name_ok in G. destruct G as [G1 G2]. inversion G1; inversion G2; auto. }
  assert (T : Tgt c f0 dr dcs (s_fs (cst_init f0)) cs d x) by (constructor; auto; apply Hx).
  destruct (copy_rec_spec c f0 dr dcs fuel o src cs d x ow (cst_init f0) s' r T (lok_init c f0 dr dcs) H) as (C' & _).
  apply (inv_frame f0 dr (s_fs s') (cx_inv _ _ _ _ _ C')); auto.
Qed.
