(* Proofs about the tar export model (Model/TarHdr.v), part 2: extraction of the whole
   archive gives back the listing. *)
From Coq Require Import List NArith ZArith Bool Lia ZifyN ZifyNat ZifyBool.
From FS Require Import Sx Model.Path Model.Stat Model.Tree Model.Hardlinks Model.TarHdr Proofs.Lex Proofs.TarP.
Import ListNotations.
Open Scope N_scope.

(* ------------------------------------------------------------------ *)
(* extraction of the whole archive *)
Lemma extracted_path : forall s, st_path (extracted_stat s) = st_path s.
Proof. intro s. unfold extracted_stat. destruct (mode_is_regular (st_mode s)); reflexivity. Qed.

Lemma find_entry_map : forall p l,
  find_entry p (map extracted l) = option_map extracted (find_entry p l).
Proof.
  intros p l. unfold find_entry. induction l as [| e r IH]; [reflexivity |].
  cbn [map find]. unfold extracted at 1. cbn [fst]. rewrite extracted_path.
  destruct (bytes_eqb (st_path (fst e)) p); [reflexivity | exact IH].
Qed.

Lemma set_size_header_only : forall s, set_size (round_mtime_to_second (header_size_only s)) (st_size s) = round_mtime_to_second s.
Proof. intro s. unfold round_mtime_to_second, header_size_only, set_mtime, set_size. reflexivity. Qed.

Lemma extract_member_ok : forall done e,
  wf_entry_b e = true -> link_target_ok done e = true ->
  extract_member (map extracted done) (archived_member (member_of_entry e)) = extracted e.
Proof.
  intros done e Hwf Hlt.
  destruct (wf_entry_parts e Hwf) as [Hst [Hsz _]].
  destruct (wf_stat_parts _ Hst) as [Hm [Hlk _]].
  unfold extract_member, archived_member, member_of_entry. cbn [fst snd].
  replace (h_typeflag (archived (hdr_of_stat (fst e)))) with (hdr_typeflag (st_mode (fst e)) (st_linkname (fst e))) by reflexivity.
  replace (h_linkname (archived (hdr_of_stat (fst e)))) with (st_linkname (fst e)) by reflexivity.
  rewrite typeflag_link_iff, (hdr_roundtrip_proof _ Hst), has_payload_spec.
  unfold link_target_ok in Hlt. unfold extracted, extracted_stat.
  destruct (carries_size (fst e)) eqn:C.
  - (* regular, not a link member *)
    pose proof C as C'. unfold carries_size in C'. apply andb_true_iff in C'. destruct C' as [Hnil Hreg].
    rewrite Hnil, Hreg. cbn [negb andb]. rewrite (header_size_only_id _ C).
    destruct (Hsz eq_refl) as [Hlt63 Heq].
    destruct (Z.ltb_spec 0 (sint (st_size (fst e)))) as [Hpos | Hnpos]; [reflexivity |].
    rewrite (sint_small _ Hlt63) in Hnpos.
    assert (E0 : blen (snd e) = 0) by lia. rewrite (blen_0 _ E0). reflexivity.
  - cbn [andb]. destruct (mode_is_regular (st_mode (fst e))) eqn:Hreg.
    + (* hard-link member *)
      unfold carries_size in C. rewrite Hreg, andb_true_r in C.
      rewrite C, (regular_not_symlink _ Hreg). cbn [negb andb].
      rewrite find_entry_map.
      destruct (find_entry (st_linkname (fst e)) done) as [t |]; [| discriminate].
      apply andb_true_iff in Hlt. destruct Hlt as [Hlt Hc]. apply andb_true_iff in Hlt. destruct Hlt as [Ct Hs].
      apply N.eqb_eq in Hs. apply bytes_eqb_eq in Hc.
      cbn [option_map]. unfold extracted, extracted_stat. cbn [fst snd].
      unfold carries_size in Ct. apply andb_true_iff in Ct. destruct Ct as [_ Ct]. rewrite Ct.
      replace (st_size (round_mtime_to_second (fst t))) with (st_size (fst t)) by reflexivity.
      rewrite Hs, Hc, set_size_header_only. reflexivity.
    + (* directory, symlink, device, fifo *)
      assert (Hnl : negb (is_nil (st_linkname (fst e))) && negb (mode_is_symlink (st_mode (fst e))) = false).
      { unfold link_ok in Hlk. rewrite Hreg, orb_false_r in Hlk.
        destruct (is_nil (st_linkname (fst e))); [reflexivity |].
        cbn [orb] in Hlk. rewrite Hlk. reflexivity. }
      rewrite Hnl. unfold header_size_only, carries_size. rewrite Hreg, andb_false_r.
      destruct (snd e); [reflexivity | discriminate].
Qed.

Lemma extract_loop_ok : forall l done,
  wf_listing_b l = true -> links_closed_from done l = true ->
  extract_loop (map archived_member (tar_of_listing l)) (map extracted done) = map extracted l.
Proof.
  induction l as [| e r IH]; intros done Hwf Hcl; [reflexivity |].
  cbn [wf_listing_b forallb] in Hwf. apply andb_true_iff in Hwf. destruct Hwf as [He Hr].
  cbn [links_closed_from] in Hcl. apply andb_true_iff in Hcl. destruct Hcl as [Ht Hcl].
  cbn [tar_of_listing map extract_loop].
  rewrite (extract_member_ok done e He Ht). f_equal.
  replace (map extracted done ++ [extracted e]) with (map extracted (done ++ [e])) by (rewrite map_app; reflexivity).
  apply IH; assumption.
Qed.

Lemma extract_roundtrip_proof : forall v,
  wf_listing_b (walk_root v) = true -> links_closed (walk_root v) = true ->
  extract (archive v) = map extracted (walk_root v).
Proof.
  intros v H C.
  pose proof (reset_entries_closed _ (wf_links_wf _ H) C) as R.
  unfold extract, archive, tar_members, tar_members_listing. rewrite R.
  apply (extract_loop_ok (walk_root v) [] H C).
Qed.

(* filtered listings: the same for ANY listing handed to WriteTar; what comes back is the
   listing WriteTar ends up walking, i.e. the listing after its hard-link reset *)
Lemma extract_listing_roundtrip_proof : forall l,
  wf_listing_b (reset_entries l) = true -> links_closed (reset_entries l) = true ->
  extract (map archived_member (tar_members_listing l)) = map extracted (reset_entries l).
Proof. intros l H C. unfold tar_members_listing. apply (extract_loop_ok (reset_entries l) [] H C). Qed.

(* ... which is the listing itself when its own links are closed *)
Lemma extract_closed_listing_roundtrip_proof : forall l,
  wf_listing_b l = true -> links_closed l = true ->
  extract (map archived_member (tar_members_listing l)) = map extracted l.
Proof.
  intros l H C. pose proof (reset_entries_closed _ (wf_links_wf _ H) C) as R.
  rewrite <- R at 2. apply extract_listing_roundtrip_proof; rewrite R; assumption.
Qed.
