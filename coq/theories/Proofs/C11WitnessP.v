(* Witnesses for C11: refutations (evaluated by vm_compute) and closed examples. *)
From Coq Require Import List NArith Lia Bool String Ascii.
From FS Require Import Sx Model.Path Model.Stat Model.Tree Model.Pattern Model.FilterWalk
  Model.Hardlinks Model.Validator Model.Diff Model.AbsDest Model.SenderView
  Proofs.Lex Proofs.PathP Proofs.PatternP Proofs.WitnessP Proofs.DiffP Proofs.SenderViewP.
Import ListNotations.
Open Scope bool_scope.

Lemma groups_coherent_b_sound view : groups_coherent_b view = true -> groups_coherent view.
Proof.
  unfold groups_coherent_b, groups_coherent. intros H s b t b' Hs Ht Hp Hp' Eo.
  rewrite forallb_forall in H. specialize (H _ Hs). rewrite forallb_forall in H. specialize (H _ Ht).
  cbn [fst snd] in H. rewrite Hp, Hp', Eo, bytes_eqb_refl in H. cbn [andb negb orb] in H.
  apply andb_true_iff in H. destruct H as [H1 H2]. apply bytes_eqb_eq in H1. apply N.eqb_eq in H2. auto.
Qed.

Lemma id_map_keeps_shape : map_keeps_shape id_map.
Proof. intros p s. cbn. auto. Qed.
Lemma id_map_keeps_special : map_keeps_special id_map.
Proof. intros p s. reflexivity. Qed.
Lemma id_map_never_drops : map_never_drops_dirs id_map.
Proof. intros p s _. discriminate. Qed.
Lemma id_map_keeps_all : forall p (s : stat), fst (id_map p s) = MKeep.
Proof. reflexivity. Qed.

(* ---- K1 seen by the walk/Open pair: include [d, !d/c, d], tree d/{c,e}: the walk hides d/c,
        Open serves it ---- *)
Definition k1_q : list N := bs "d/c".

Lemma k1_walk_open_disagree :
  wf_source k1_view = true /\ source_file k1_view k1_q = true /\
  reported pm_lit id_map k1_cfg k1_view k1_q = false /\ filter_open pm_lit k1_cfg k1_q = true.
Proof. vm_compute. repeat split; reflexivity. Qed.

(* ---- the harmful direction: the same list as EXCLUDE patterns: the walk announces d/c,
        Open refuses it, the sender delivers an empty file ---- *)
Definition k1x_cfg : cfg := {| c_inc := None; c_exc := Some k1_pats; c_prune := true |}.

Lemma k1x_announced_unopenable :
  wf_source k1_view = true /\ source_links_ok k1_view = true /\ groups_coherent_b k1_view = true /\
  cfg_star_safe k1x_cfg = true /\
  paths (sender_view pm_lit id_map k1x_cfg k1_view) = [bs "d"; bs "d/c"] /\
  filter_open pm_lit k1x_cfg k1_q = false /\
  content_at k1_view k1_q = [120%N] /\ sent_content pm_lit k1x_cfg k1_view k1_q = [].
Proof. vm_compute. repeat split; reflexivity. Qed.

Definition Hid (b : list N) : list N := b.
Definition hid (s : stat) : list N := st_path s.

Lemma k1x_transfer_loses_content :
  let r := receive_abs Hid hid Fresh DMetadata [] (sender_entries pm_lit id_map k1x_cfg k1_view) in
  ds_err r = false /\
  ~ view_equiv (alookup k1_q (ds_map r)) (efind k1_q (filtered_entries pm_lit id_map k1x_cfg k1_view)).
Proof.
  cbv zeta. split; [vm_compute; reflexivity|].
  intros Hv. vm_compute in Hv. destruct Hv as [_ Hv]. specialize (Hv eq_refl). discriminate.
Qed.

(* ---- a map function that drops a directory but keeps its contents: the stream is rejected ---- *)
Definition drop_d (p : list N) (s : stat) : mres * stat :=
  if bytes_eqb p (bs "d") then (MExclude, s) else (MKeep, s).
Definition nopat_cfg : cfg := {| c_inc := None; c_exc := None; c_prune := true |}.

Lemma drop_d_keeps_shape : map_keeps_shape drop_d.
Proof. intros p s. unfold drop_d. destruct (bytes_eqb p (bs "d")); cbn; auto. Qed.

Lemma drop_d_stream_rejected :
  wf_source k1_view = true /\ source_links_ok k1_view = true /\
  paths (sender_view pm_lit drop_d nopat_cfg k1_view) = [bs "d/c"; bs "d/e"] /\
  run_validator (items (sender_view pm_lit drop_d nopat_cfg k1_view)) = Some 0%nat.
Proof. vm_compute. repeat split; reflexivity. Qed.

(* ---- a source with a link group spread over excluded and included paths ----
     a (inode X), b -> a, d/ { c -> a, e }, f (own inode), g -> f ;   exclude [a] *)
Definition Lk (name target : string) : node := Node (bs name) (set_linkname st_file (bs target)) [120%N] [].
Definition G (name : string) : node := Node (bs name) st_file [121%N] [].
Definition hl_view : list node :=
  [ F "a"; Lk "b" "a"; D "d" [Lk "c" "a"; F "e"]; G "f"; Node (bs "g") (set_linkname st_file (bs "f")) [121%N] [] ].
Definition hl_cfg : cfg := {| c_inc := None; c_exc := Some [ip "a"]; c_prune := true |}.

(* ---- the refutations, as stated in Properties/C11.v ---- *)
Lemma map_drop_refuted_proof :
  exists pmatch mapfn c view,
    map_keeps_shape mapfn /\
    wf_source view = true /\ source_links_ok view = true /\
    run_validator (items (sender_view pmatch mapfn c view)) = Some 0%nat.
Proof.
  exists pm_lit, drop_d, nopat_cfg, k1_view.
  destruct drop_d_stream_rejected as (H1 & H2 & _ & H4).
  split; [apply drop_d_keeps_shape|].
  split; [exact H1|]. split; [exact H2|exact H4].
Qed.

Lemma walk_open_agree_refuted_proof :
  exists pmatch mapfn c view q,
    prefix_semantics pmatch /\ cfg_star_safe c = true /\ map_keeps_shape mapfn /\
    (forall p s, fst (mapfn p s) = MKeep) /\ wf_source view = true /\ source_file view q = true /\
    reported pmatch mapfn c view q <> filter_open pmatch c q.
Proof.
  exists pm_lit, id_map, k1_cfg, k1_view, k1_q.
  destruct k1_walk_open_disagree as (H1 & H2 & H3 & H4).
  split; [apply lit_pmatch_prefix_semantics|]. split; [reflexivity|].
  split; [apply id_map_keeps_shape|]. split; [apply id_map_keeps_all|].
  split; [exact H1|]. split; [exact H2|]. rewrite H3, H4. discriminate.
Qed.

Lemma transfer_late_shadow_refuted_proof :
  exists pmatch mapfn c view (H : bytes -> bytes) (hdr : stat -> bytes) q,
    map_keeps_shape mapfn /\ map_never_drops_dirs mapfn /\ map_keeps_special mapfn /\
    wf_source view = true /\ source_links_ok view = true /\ groups_coherent view /\
    let r := receive_abs H hdr Fresh DMetadata [] (sender_entries pmatch mapfn c view) in
    ds_err r = false /\
    ~ view_equiv (alookup q (ds_map r)) (efind q (filtered_entries pmatch mapfn c view)).
Proof.
  exists pm_lit, id_map, k1x_cfg, k1_view, Hid, hid, k1_q.
  destruct k1x_announced_unopenable as (H1 & H2 & H3 & _).
  split; [apply id_map_keeps_shape|]. split; [apply id_map_never_drops|]. split; [apply id_map_keeps_special|].
  split; [exact H1|]. split; [exact H2|]. split; [apply groups_coherent_b_sound; exact H3|].
  exact k1x_transfer_loses_content.
Qed.

(* ---- order-sensitive include lists with FollowPaths (regression of the fixed finding
        dedupe-order-sensitive-includes: dedupePaths used to drop a/x/y "below a") ----
   tree a/{k, x/{y,z}}, l -> t, t;  IncludePatterns [a, !a/x, a/x/y], FollowPaths [l]:
   the matcher gets [a, !a/x, a/x/y, l, t]; a/x/y is reported and can be opened *)
From FS Require Model.FollowLinks Model.FilterOpt.
Definition st_sym (target : string) : stat :=
  {| st_path := []; st_mode := (ModeSymlink + 511)%N; st_uid := 0%N; st_gid := 0%N; st_size := 1%N; st_mtime := 0%N;
     st_linkname := bs target; st_devmajor := 0%N; st_devminor := 0%N; st_xattrs := [] |}.
Definition dd_view : list node :=
  [ D "a" [F "k"; D "x" [F "y"; F "z"]]; Node (bs "l") (st_sym "t") [] []; F "t" ].
Definition dd_inc : list (list N) := [bs "a"; bs "!a/x"; bs "a/x/y"].
Definition dd_follow : list (list N) := [bs "l"].
Definition dd_cfg (l : list (list N)) : cfg :=
  match mk_cfg l [] with Some c => c | None => nopat_cfg end.

Lemma dd_assembled :
  wf_source dd_view = true /\
  FilterOpt.assemble_includes dd_view dd_inc [] = FollowLinks.Ok dd_inc /\
  FilterOpt.assemble_includes dd_view dd_inc dd_follow = FollowLinks.Ok [bs "a"; bs "!a/x"; bs "a/x/y"; bs "l"; bs "t"] /\
  paths (sender_view pm_lit id_map (dd_cfg [bs "a"; bs "!a/x"; bs "a/x/y"; bs "l"; bs "t"]) dd_view)
    = [bs "a"; bs "a/k"; bs "a/x"; bs "a/x/y"; bs "l"; bs "t"] /\
  filter_open pm_lit (dd_cfg [bs "a"; bs "!a/x"; bs "a/x/y"; bs "l"; bs "t"]) (bs "a/x/y") = true /\
  filter_open pm_lit (dd_cfg [bs "a"; bs "!a/x"; bs "a/x/y"; bs "l"; bs "t"]) (bs "a/x/z") = false.
Proof. vm_compute. repeat split; reflexivity. Qed.
