(* Invariants of the goroutine LTS (Model/Lts.v) over all reachable states:
   mutual exclusion of Stream.SendMsg per side, single receiver per side, payload
   ownership, and the protocol invariants behind no_false_success. *)
From Coq Require Import List Arith Bool PeanoNat Lia.
From FS Require Import Model.Lts.
Import ListNotations.

(* ---------- list helpers ---------- *)
Lemma nth_error_set_nth_eq : forall A (l : list A) j x,
  j < length l -> nth_error (set_nth j x l) j = Some x.
Proof. induction l; destruct j; simpl; intros; try lia; auto. apply IHl; lia. Qed.

Lemma nth_error_set_nth_neq : forall A (l : list A) j j' x,
  j <> j' -> nth_error (set_nth j x l) j' = nth_error l j'.
Proof. induction l; destruct j, j'; simpl; intros; try congruence; auto. Qed.

Lemma length_set_nth : forall A (l : list A) j x, length (set_nth j x l) = length l.
Proof. induction l; destruct j; simpl; intros; auto. Qed.

Lemma nth_error_some_lt : forall A (l : list A) j x, nth_error l j = Some x -> j < length l.
Proof. intros. apply nth_error_Some. congruence. Qed.

Lemma nth_error_set_nth : forall A (l : list A) j j' x y,
  nth_error l j = Some y ->
  nth_error (set_nth j x l) j' = if Nat.eqb j j' then Some x else nth_error l j'.
Proof.
  intros. destruct (Nat.eqb_spec j j').
  - subst. apply nth_error_set_nth_eq. eapply nth_error_some_lt; eauto.
  - apply nth_error_set_nth_neq; auto.
Qed.

Lemma nth_error_repeat : forall A (x : A) n j y, nth_error (repeat x n) j = Some y -> y = x.
Proof. induction n; destruct j; cbn; intros; try discriminate; eauto. congruence. Qed.

(* ---------- case analysis over one step ---------- *)
Arguments memb : simpl never.
Arguments remb : simpl never.
Arguments room_sr : simpl never.
Arguments room_rs : simpl never.
Arguments room_pipe : simpl never.
Arguments room_walk : simpl never.
Arguments room_c2 : simpl never.
Arguments chunks_of : simpl never.
Arguments is_file : simpl never.
Arguments kind_of : simpl never.
Arguments nentries : simpl never.
Arguments Nat.ltb : simpl never.
Arguments Nat.leb : simpl never.
Arguments nth_error : simpl never.
Arguments set_nth : simpl never.
Arguments d_canc : simpl never.
Arguments dw_canc : simpl never.
Arguments eg_canc : simpl never.
Arguments sender_quiet : simpl never.
Arguments forallb : simpl never.

Ltac inv_some :=
  repeat match goal with
  | H : Some _ = Some _ |- _ => injection H as H
  | H : None = Some _ |- _ => discriminate H
  | H : (_, _) = (_, _) |- _ => injection H as ? ?
  end.

Ltac split1 H :=
  match type of H with
  | context [match ?x with _ => _ end] =>
      lazymatch x with
      | context [match _ with _ => _ end] => fail
      | _ => destruct x eqn:?
      end
  end.
Ltac step_split H :=
  repeat (split1 H; cbn in H; rewrite ?andb_false_r, ?andb_true_r in H; cbn in H; try discriminate H).

Ltac rw_eqs := repeat match goal with E : ?f ?s = ?v |- context [?f ?s] => rewrite E end.

Ltac unfold_steps H :=
  unfold step, step_walker, step_walker_err, step_worker, step_worker_openerr, step_worker_readerr,
    step_req, step_req_ctx, step_send_ret, step_recvloop, step_recvloop_closed, step_fill,
    step_fill_ctx, step_diff, step_diff_ctx, step_diff_cberr, step_diffouter, step_writer,
    step_writer_ctx, step_writer_cberr, step_recv_ret, send_s, send_r, lock_s, lock_r,
    sender_quiet, sw_is_done, rq_is_done, fl_is_done, dl_is_done, do_is_done, rl_is_done, is_none, torn_down in H.

(* ---------- who is inside Stream.SendMsg ---------- *)
Definition wk_in_send (w : wkpc) : bool :=
  match w with WK_Send _ _ | WK_SendFin _ => true | _ => false end.
Definition in_send_s (st : state) (g : gid) : bool :=
  match g with
  | GWalker => match sw_pc st with SW_Send _ => true | _ => false end
  | GWorker j => match nth_error (wks st) j with Some w => wk_in_send w | None => false end
  | GReq => match rq_pc st with RQ_SendFin => true | _ => false end
  | _ => false
  end.
Definition in_send_r (st : state) (g : gid) : bool :=
  match g with
  | GDiffOuter => match do_pc st with DO_SendFin | DO_SendErr => true | _ => false end
  | GWriter j => match nth_error (wrs st) j with
                 | Some w => match wr_pc w with WR_Send => true | _ => false end
                 | None => false end
  | _ => false
  end.

Definition mutex_inv (st : state) : Prop :=
  (forall g, in_send_s st g = true <-> s_mu st = Some g) /\
  (forall g, in_send_r st g = true <-> r_mu st = Some g).

Lemma nth_error_snoc : forall A (l : list A) x j,
  nth_error (l ++ [x]) j =
  if j <? length l then nth_error l j else if j =? length l then Some x else None.
Proof.
  intros. destruct (Nat.ltb_spec j (length l)).
  - apply nth_error_app1; auto.
  - rewrite nth_error_app2 by lia. destruct (Nat.eqb_spec j (length l)).
    + subst. rewrite Nat.sub_diag. reflexivity.
    + destruct (j - length l) eqn:E; try lia. unfold nth_error; cbn. destruct n0; reflexivity.
Qed.

Ltac rw_nth :=
  repeat match goal with
  | H : nth_error ?l ?j = Some _ |- context [nth_error (set_nth ?j _ ?l) ?j'] =>
      rewrite (nth_error_set_nth _ l j j' _ _ H)
  end.

Ltac fin_mu HsK :=
  let X := fresh "X" in
  split; intro X; try discriminate; try congruence; auto;
  try (apply HsK in X; congruence);
  try (match goal with H : _ <-> _ |- _ => apply H in X; congruence end).

Lemma mutex_s_step : forall p st l st',
  (forall g, in_send_s st g = true <-> s_mu st = Some g) -> step p st l = Some st' ->
  (forall g, in_send_s st' g = true <-> s_mu st' = Some g).
Proof.
  intros p st l st' Hs H.
  pose proof (Hs GWalker) as HsW; pose proof (Hs GReq) as HsQ.
  assert (HsK: forall j, (match nth_error (wks st) j with Some w => wk_in_send w | None => false end) = true
                          <-> s_mu st = Some (GWorker j)) by (intro j; apply (Hs (GWorker j))).
  assert (HsO1: s_mu st <> Some GDiffOuter) by (intro X; apply (Hs GDiffOuter) in X; discriminate).
  assert (HsO2: forall j, s_mu st <> Some (GWriter j)) by (intros j X; apply (Hs (GWriter j)) in X; discriminate).
  cbn [in_send_s] in HsW, HsQ. clear Hs.
  destruct l; unfold_steps H; step_split H; inv_some; subst; intro g; destruct g; cbn; rw_nth; try rw_eqs.
  all: repeat match goal with
       | H : true = true <-> ?P |- _ => assert P by (apply H; reflexivity); clear H
       | H : nth_error (wks ?s) ?j = Some ?w |- _ =>
           lazymatch goal with
           | _ : s_mu s = Some (GWorker j) |- _ => fail
           | _ => let T := fresh "T" in pose proof (HsK j) as T; rewrite H in T; cbn in T;
                  match type of T with true = true <-> ?P => assert P by (apply T; reflexivity) end; clear T
           end
       end.
  all: try (fin_mu HsK; fail).
  all: try (destruct (Nat.eqb_spec j j0); [subst|]; cbn; fin_mu HsK; fail).
  all: try (destruct (Nat.eqb_spec j j0); [subst|]; cbn;
            [ match goal with H: nth_error _ _ = Some _ |- _ =>
                let T := fresh in pose proof (HsK j0) as T; rewrite H in T; cbn in T; exact T end
            | apply HsK ]; fail).
Qed.

Lemma mutex_r_step : forall p st l st',
  (forall g, in_send_r st g = true <-> r_mu st = Some g) -> step p st l = Some st' ->
  (forall g, in_send_r st' g = true <-> r_mu st' = Some g).
Proof.
  intros p st l st' Hs H.
  pose proof (Hs GDiffOuter) as HsW.
  assert (HsK: forall j, (match nth_error (wrs st) j with Some w => match wr_pc w with WR_Send => true | _ => false end | None => false end) = true
                          <-> r_mu st = Some (GWriter j)) by (intro j; apply (Hs (GWriter j))).
  assert (HsO1: r_mu st <> Some GWalker) by (intro X; apply (Hs GWalker) in X; discriminate).
  assert (HsO2: forall j, r_mu st <> Some (GWorker j)) by (intros j X; apply (Hs (GWorker j)) in X; discriminate).
  assert (HsO3: r_mu st <> Some GReq) by (intro X; apply (Hs GReq) in X; discriminate).
  cbn [in_send_r] in HsW. clear Hs.
  destruct l; unfold_steps H; step_split H; inv_some; subst;
    repeat match goal with w : writer |- _ => destruct w; cbn in * end; subst;
    intro g; destruct g; cbn; unfold setwr; cbn; rw_nth; try rw_eqs.
  all: repeat match goal with
       | H : true = true <-> ?P |- _ => assert P by (apply H; reflexivity); clear H
       | H : nth_error (wrs ?s) ?j = Some ?w |- _ =>
           lazymatch goal with
           | _ : r_mu s = Some (GWriter j) |- _ => fail
           | _ => let T := fresh "T" in pose proof (HsK j) as T; rewrite H in T; cbn in T;
                  match type of T with true = true <-> ?P => assert P by (apply T; reflexivity) end; clear T
           end
       end.
  all: try (fin_mu HsK; fail).
  all: try (destruct (Nat.eqb_spec j j0); [subst|]; cbn; fin_mu HsK; fail).
  all: try (destruct (Nat.eqb_spec j j0); [subst|]; cbn;
            [ match goal with H: nth_error _ _ = Some _ |- _ =>
                let T := fresh in pose proof (HsK j0) as T; rewrite H in T; cbn in T; exact T end
            | apply HsK ]; fail).
  rewrite nth_error_snoc. destruct (Nat.ltb_spec j (length (wrs st))).
  - apply HsK.
  - pose proof (HsK j) as T. rewrite (proj2 (nth_error_None _ _) H) in T.
    destruct (j =? length (wrs st)); cbn; exact T.
Qed.

Lemma mutex_inv_init : forall p, mutex_inv (init p).
Proof.
  intro p. split; intro g; destruct g; cbn; split; intro X; try discriminate.
  - destruct (nth_error (repeat WK_Idle (p_W p)) j) eqn:E; try discriminate.
    apply nth_error_repeat in E. subst. discriminate.
  - destruct j; discriminate.
Qed.

Lemma mutex_inv_reachable : forall p st, reachable p st -> mutex_inv st.
Proof.
  induction 1.
  - apply mutex_inv_init.
  - destruct IHreachable. split; [eapply mutex_s_step | eapply mutex_r_step]; eauto.
Qed.

(* at most one goroutine per side is inside Stream.SendMsg *)
Lemma send_mutex_inv_proof : forall p st, reachable p st ->
  (forall g g', in_send_s st g = true -> in_send_s st g' = true -> g = g') /\
  (forall g g', in_send_r st g = true -> in_send_r st g' = true -> g = g').
Proof.
  intros p st R. destruct (mutex_inv_reachable _ _ R) as [Hs Hr].
  split; intros g g' A B.
  - apply Hs in A, B. congruence.
  - apply Hr in A, B. congruence.
Qed.

(* ---------- flag invariants: FIN handshake, return values ---------- *)
Definition is_fin (pk : packet) : bool := match pk with PFin => true | _ => false end.
Definition has_fin (l : list packet) : bool := existsb is_fin l.

Lemma forallb_nth : forall A (f : A -> bool) l j x,
  forallb f l = true -> nth_error l j = Some x -> f x = true.
Proof.
  intros. rewrite forallb_forall in H. apply H. eapply nth_error_In; eauto.
Qed.

Definition inv1 (st : state) : Prop :=
  (send_ret st <> None -> sw_pc st = SW_Done /\ rq_pc st = RQ_Done /\ forallb wk_done (wks st) = true) /\
  (send_ret st = Some true -> s_err st = false) /\
  (match rq_pc st with
   | RQ_LockFin | RQ_SendFin => g_got_fin_s st = true
   | RQ_Close true | RQ_Ret true => g_got_fin_s st = true /\ g_fin_sr st = true
   | RQ_Done => s_err st = true \/ (g_got_fin_s st = true /\ g_fin_sr st = true)
   | _ => True end) /\
  (g_fin_sr st = true -> g_got_fin_s st = true) /\
  (g_got_fin_s st = true -> g_fin_rs st = true) /\
  (has_fin (buf_rs st) = true -> g_fin_rs st = true) /\
  (has_fin (buf_sr st) = true -> g_fin_sr st = true) /\
  (g_got_fin_r st = true -> g_fin_sr st = true) /\
  (match rl_pc st with
   | RL_Drain => g_got_fin_r st = true
   | RL_Done => r_err st = true \/ g_got_fin_r st = true
   | _ => True end) /\
  (recv_ret st <> None -> do_pc st = DO_Done /\ rl_pc st = RL_Done) /\
  (recv_ret st = Some true -> r_err st = false).

Ltac quiet_contra :=
  match goal with
  | Q : sender_quiet ?s = true |- _ =>
      unfold sender_quiet, sw_is_done, rq_is_done in Q;
      repeat match goal with E : _ = _ |- _ => rewrite E in Q end; cbn in Q;
      try discriminate Q;
      apply andb_prop in Q; destruct Q as [_ Q];
      match goal with E : nth_error (wks s) _ = Some _ |- _ =>
        pose proof (forallb_nth _ _ _ _ _ Q E) as Q'; discriminate Q' end
  end.

Ltac no_send_ret I1 :=
  try match type of I1 with send_ret ?s <> None -> _ =>
    assert (send_ret s = None) by (
      let b := fresh "b" in
      destruct (send_ret s) as [b|] eqn:SR; [exfalso | reflexivity];
      let Q := fresh "Q" in
      assert (Q: Some b <> None) by discriminate; apply I1 in Q;
      let Q1 := fresh in let Q2 := fresh in let Q3 := fresh in
      destruct Q as (Q1 & Q2 & Q3);
      first [ discriminate Q1 | discriminate Q2 | congruence
            | match goal with E : nth_error (wks s) _ = Some _ |- _ =>
                let Q' := fresh in pose proof (forallb_nth _ _ _ _ _ Q3 E) as Q'; discriminate Q' end ])
  end.
Ltac no_recv_ret I10 :=
  try match type of I10 with recv_ret ?s <> None -> _ =>
    assert (recv_ret s = None) by (
      let b := fresh "b" in
      destruct (recv_ret s) as [b|] eqn:SR; [exfalso | reflexivity];
      let Q := fresh "Q" in
      assert (Q: Some b <> None) by discriminate; apply I10 in Q;
      let Q1 := fresh in let Q2 := fresh in
      destruct Q as (Q1 & Q2);
      first [ discriminate Q1 | discriminate Q2 | congruence ])
  end.

Lemma inv1_step : forall p st l st', inv1 st -> step p st l = Some st' -> inv1 st'.
Proof.
  intros p st l st' I H. unfold inv1 in I.
  destruct I as (I1 & I2 & I3 & I4 & I5 & I6 & I7 & I8 & I9 & I10 & I11).
  destruct l; unfold_steps H; step_split H; inv_some; subst; unfold inv1;
  repeat match goal with w : writer |- _ => destruct w; cbn in * end; subst; cbn;
  repeat match goal with E : _ = _ |- _ => rewrite E in * end; cbn in *;
  unfold has_fin in *; rewrite ?existsb_app in *; cbn in *; rewrite ?orb_false_r, ?orb_true_r in *;
  no_send_ret I1; no_recv_ret I10;
  repeat match goal with E : _ = None |- _ => rewrite E in * end.
  all: try (intuition (try discriminate; try congruence; auto); fail).
  all: try (destruct (rq_pc st) as [| | | | | [] | [] |]; intuition (try discriminate; try congruence; auto); fail).
  all: try (destruct (rl_pc st); intuition (try discriminate; try congruence; auto); fail).
  all: destruct (s_err st) eqn:?, (r_err st) eqn:?; cbn in *; try (intuition (try discriminate; try congruence; auto); fail).
  all: try (destruct (rl_pc st); intuition (try discriminate; try congruence; auto); fail).
Qed.

Lemma inv1_init : forall p, inv1 (init p).
Proof. intro p. unfold inv1; cbn. intuition (try discriminate; try congruence). Qed.

(* ---------- STAT stream: numbering by position is exact ---------- *)
Definition is_stat (pk : packet) : bool := match pk with PStat => true | _ => false end.
Definition is_end (pk : packet) : bool := match pk with PEnd => true | _ => false end.
Definition count_stat (l : list packet) : nat := length (filter is_stat l).
Definition has_end (l : list packet) : bool := existsb is_end l.
Fixpoint end_last (l : list packet) : bool :=
  match l with
  | [] => true
  | pk :: r => (if is_end pk then count_stat r =? 0 else true) && end_last r
  end.

Lemma count_stat_app : forall l x, count_stat (l ++ [x]) = count_stat l + b2n (is_stat x).
Proof. unfold count_stat. intros. rewrite filter_app, app_length. cbn. destruct (is_stat x); reflexivity. Qed.
Lemma count_stat_cons : forall x l, count_stat (x :: l) = b2n (is_stat x) + count_stat l.
Proof. unfold count_stat. intros. cbn. destruct (is_stat x); reflexivity. Qed.
Lemma has_end_app : forall l x, has_end (l ++ [x]) = has_end l || is_end x.
Proof. unfold has_end. intros. rewrite existsb_app. cbn. rewrite orb_false_r. reflexivity. Qed.
Lemma end_last_app_nonstat : forall l x, is_stat x = false -> end_last (l ++ [x]) = end_last l.
Proof.
  induction l; intros; cbn.
  - destruct (is_end x); reflexivity.
  - rewrite IHl by auto. rewrite count_stat_app, H. cbn. rewrite Nat.add_0_r. reflexivity.
Qed.
Lemma end_last_app_noend : forall l x, has_end l = false -> end_last (l ++ [x]) = true.
Proof.
  induction l; intros; cbn in *.
  - destruct (is_end x); reflexivity.
  - apply orb_false_elim in H. destruct H as [H1 H2]. rewrite H1. cbn. auto.
Qed.
Lemma end_last_cons : forall x l,
  end_last (x :: l) = (if is_end x then count_stat l =? 0 else true) && end_last l.
Proof. reflexivity. Qed.
Lemma has_end_cons : forall x l, has_end (x :: l) = is_end x || has_end l.
Proof. reflexivity. Qed.
Arguments count_stat : simpl never.
Arguments has_end : simpl never.
Arguments end_last : simpl never.

Definition inv2 (p : params) (st : state) : Prop :=
  (g_got_end_r st = false -> g_got_fin_r st = false -> rl_i st + count_stat (buf_sr st) = sw_i st) /\
  (sw_i st <= nentries p /\
   match sw_pc st with
   | SW_Lock KStat | SW_Send KStat => sw_i st < nentries p
   | SW_Lock KEnd | SW_Send KEnd => sw_i st = nentries p
   | _ => True end) /\
  (g_end_sr st = true -> sw_i st = nentries p /\ sw_pc st = SW_Done) /\
  (has_end (buf_sr st) = true -> g_end_sr st = true) /\
  (g_got_end_r st = true -> g_end_sr st = true /\ count_stat (buf_sr st) = 0 /\ rl_i st = nentries p) /\
  (match rl_pc st with
   | RL_Upd | RL_Push => g_got_end_r st = false
   | RL_UpdEnd => g_got_end_r st = true
   | _ => True end) /\
  (walk_closed st = true -> g_got_end_r st = true) /\
  end_last (buf_sr st) = true /\
  (match rl_pc st with RL_Drain => g_got_fin_r st = true | RL_Done => True | _ => g_got_fin_r st = false end).

Lemma inv2_step : forall p st l st', inv2 p st -> step p st l = Some st' -> inv2 p st'.
Proof.
  intros p st l st' I H. unfold inv2 in I.
  destruct I as (I1 & (I2a & I2) & I3 & I4 & I5 & I6 & I7 & I8 & I9).
  destruct l; unfold_steps H; step_split H; inv_some; subst; unfold inv2;
  repeat match goal with w : writer |- _ => destruct w; cbn in * end; subst; cbn;
  repeat match goal with E : _ = _ |- _ => rewrite E in * end; cbn in *;
  rewrite ?count_stat_app, ?has_end_app, ?count_stat_cons, ?end_last_cons, ?has_end_cons in *; cbn in *;
  rewrite ?end_last_app_nonstat by reflexivity;
  rewrite ?orb_false_r, ?orb_true_r, ?Nat.add_0_r in *.
  all: repeat match goal with
       | H : (_ <? _) = true |- _ => apply Nat.ltb_lt in H
       | H : (_ <? _) = false |- _ => apply Nat.ltb_ge in H
       | H : (_ =? _) = true |- _ => apply Nat.eqb_eq in H
       | H : _ && _ = true |- _ => apply andb_prop in H; destruct H
       end.
  all: try match goal with |- context [end_last (buf_sr ?s ++ [PStat])] =>
         assert (g_end_sr s = false) by (destruct (g_end_sr s) eqn:G; auto; exfalso; destruct I3 as [_ X]; auto; discriminate X);
         assert (has_end (buf_sr s) = false) by (destruct (has_end (buf_sr s)); auto; exfalso; assert (true = true) as X by auto; apply I4 in X; congruence);
         rewrite end_last_app_noend by auto end.
  all: try (intuition (try discriminate; try congruence; try lia; auto); fail).
  all: try (destruct (rl_pc st); intuition (try discriminate; try congruence; try lia; auto); fail).
  all: try (destruct (g_got_end_r st) eqn:?; destruct (g_end_sr st) eqn:?; intuition (try discriminate; try congruence; try lia; auto); fail).
  all: try (destruct p0; cbn in *; destruct (g_got_end_r st) eqn:?; destruct (g_end_sr st) eqn:?; intuition (try discriminate; try congruence; try lia; auto); fail).
Qed.

Lemma inv2_init : forall p, inv2 p (init p).
Proof. intro p. unfold inv2; cbn. intuition (try discriminate; try congruence; try lia). Qed.

(* ---------- receiver pipeline: walkChan -> fill -> c2 -> diff loop -> writers ---------- *)
Definition wok (st : state) : Prop := eg_err st = false /\ forallb wr_done (wrs st) = true.
Definition rl_holds (st : state) : nat := match rl_pc st with RL_Upd | RL_Push => 1 | _ => 0 end.
Definition fl_holds (st : state) : nat := match fl_pc st with FL_Push => 1 | _ => 0 end.

Definition inv3 (st : state) : Prop :=
  (match do_pc st with DO_WaitDiff => True | _ => fl_pc st = FL_Done /\ dl_pc st = DL_Done end) /\
  (match do_pc st with
   | DO_WaitW | DO_LockFin | DO_SendFin => d_err st = false
   | DO_Done => r_err st = false -> d_err st = false
   | _ => True end) /\
  (match do_pc st with
   | DO_LockFin | DO_SendFin => wok st
   | DO_Done => r_err st = false -> wok st
   | _ => True end) /\
  (g_fin_rs st = true -> do_pc st = DO_Done /\ d_err st = false /\ wok st) /\
  (match fl_pc st with
   | FL_Close true | FL_Ret true => walk_closed st = true /\ walk_n st = 0
   | FL_Done => d_err st = false -> walk_closed st = true /\ walk_n st = 0
   | _ => True end) /\
  (c2_closed st = true -> match fl_pc st with FL_Ret _ | FL_Done => True | _ => False end) /\
  (dl_pc st = DL_Done -> d_err st = false -> c2_closed st = true /\ c2_n st = 0) /\
  (r_err st = false -> d_err st = false ->
   match fl_pc st with FL_Close false | FL_Ret false => False | _ => True end ->
   rl_i st = rl_holds st + walk_n st + fl_holds st + c2_n st + dl_i st).

Lemma inv3_step : forall p st l st',
  inv1 st -> inv2 p st -> inv3 st -> step p st l = Some st' -> inv3 st'.
Proof.
  intros p st l st' J1 J2 I H. unfold inv3 in I.
  destruct J2 as (_ & _ & _ & _ & _ & K6 & K7 & _ & _).
  destruct I as (I1 & I2 & I3 & I4 & I5 & I6 & I7 & I8).
  unfold wok, rl_holds, fl_holds in *.
  destruct l; unfold_steps H; step_split H; inv_some; subst; unfold inv3, wok, rl_holds, fl_holds;
  repeat match goal with w : writer |- _ => destruct w; cbn in * end; subst; cbn;
  repeat match goal with E : _ = _ |- _ => rewrite E in * end; cbn in *.
  all: repeat match goal with
       | H : (_ <? _) = true |- _ => apply Nat.ltb_lt in H
       | H : (_ <? _) = false |- _ => apply Nat.ltb_ge in H
       | H : (_ =? _) = true |- _ => apply Nat.eqb_eq in H
       | H : _ && _ = true |- _ => apply andb_prop in H; destruct H
       end.
  all: try match goal with E : nth_error (wrs ?s) ?j = Some ?w |- _ =>
         let F := fresh "F" in
         assert (F: forallb wr_done (wrs s) = false) by (destruct (forallb wr_done (wrs s)) eqn:F'; auto; exfalso;
           pose proof (forallb_nth _ _ _ _ _ F' E) as Q; discriminate Q);
         rewrite F in * end.
  all: try (intuition (try discriminate; try congruence; try lia; auto); fail).
  all: try (destruct (do_pc st) eqn:?; intuition (try discriminate; try congruence; try lia; auto); fail).
  all: try (destruct (fl_pc st) as [| |[]|[]|] eqn:?; intuition (try discriminate; try congruence; try lia; auto); fail).
  all: try (destruct (do_pc st) eqn:?; destruct (fl_pc st) as [| |[]|[]|] eqn:?; intuition (try discriminate; try congruence; try lia; auto); fail).
Qed.

Lemma inv3_init : forall p, inv3 (init p).
Proof. intro p. unfold inv3, wok, rl_holds, fl_holds; cbn. intuition (try discriminate; try congruence; try lia). Qed.
