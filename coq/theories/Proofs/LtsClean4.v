From Coq Require Import List Arith Bool PeanoNat Lia ZifyBool.
From FS Require Import Model.Lts Model.LtsExplore Proofs.LtsInv Proofs.LtsSafe Proofs.LtsTerm Proofs.LtsC08 Proofs.LtsTok Proofs.LtsContent Proofs.LtsContent2 Proofs.LtsContent3.
From FS Require Import Proofs.LtsClean1 Proofs.LtsClean2 Proofs.LtsClean3.
Import ListNotations.

Lemma L_sc : forall st, scal st -> inv1 st -> s_cancel st = true ->
  sw_pc st = SW_Done /\ rq_pc st = RQ_Done /\ forallb wk_done (wks st) = true.
Proof.
  intros st K (I1 & _) C. pose proof (k_sc st K) as Ksc. rewrite C in Ksc. apply I1.
  destruct (send_ret st); [discriminate | discriminate Ksc].
Qed.

Lemma L_rc : forall st, scal st -> inv1 st -> inv3 st -> r_cancel st = true ->
  do_pc st = DO_Done /\ rl_pc st = RL_Done /\ fl_pc st = FL_Done /\ dl_pc st = DL_Done /\
  forallb wr_done (wrs st) = true.
Proof.
  intros st K (_ & _ & _ & _ & _ & _ & _ & _ & _ & I10 & _) (B1 & _ & B3 & _) C.
  pose proof (k_rc st K) as Krc. rewrite C in Krc. destruct I10 as [D R]. { destruct (recv_ret st); [discriminate | discriminate Krc]. }
  rewrite D in B1, B3. destruct B1. destruct (B3 (k_re st K)). auto.
Qed.

Lemma L_dc : forall st, scal st -> inv1 st -> inv3 st -> d_canc st = true ->
  fl_pc st = FL_Done /\ dl_pc st = DL_Done.
Proof.
  intros st K J1 J3 C. unfold d_canc in C. apply orb_prop in C. destruct C as [C|C].
  - destruct (L_rc st K J1 J3 C) as (_ & _ & A & B & _). auto.
  - pose proof (k_dc st K C) as Kdc. destruct J3 as (B1 & _). destruct (do_pc st); try contradiction; auto.
Qed.

Lemma L_dw : forall st, scal st -> inv1 st -> inv3 st -> dw_canc st = true ->
  dl_pc st = DL_Done.
Proof.
  intros st K J1 J3 C. unfold dw_canc in C. rewrite (k_dw st K), orb_false_r in C.
  destruct (L_rc st K J1 J3 C) as (_ & _ & _ & B & _). auto.
Qed.

Lemma L_eg : forall st, scal st -> inv1 st -> inv3 st -> eg_canc st = true ->
  forallb wr_done (wrs st) = true.
Proof.
  intros st K J1 J3 C. unfold eg_canc in C. rewrite (k_dw st K), (k_eg st K), !orb_false_r in C.
  destruct (L_rc st K J1 J3 C) as (_ & _ & _ & _ & B). auto.
Qed.

Lemma L_eof : forall p st, scal st -> inv1 st -> inv2 p st -> inv_fin st ->
  rl_pc st = RL_Recv -> buf_sr st = [] -> sr_closed st = true -> False.
Proof.
  intros p st K (I1 & _ & I3 & _) (_ & _ & _ & _ & _ & _ & _ & _ & I9) (F1 & F2) R B C. pose proof (k_se st K) as k_se0.
  destruct (I1 (F1 C)) as (_ & Rq & _). rewrite Rq in I3. rewrite R in I9.
  destruct I3 as [X|[_ Fs]]; [congruence|]. destruct (F2 Fs) as [X|X].
  - rewrite B in X. discriminate.
  - congruence.
Qed.

Lemma existsb_snoc : forall A (f : A -> bool) l x, existsb f (l ++ [x]) = existsb f l || f x.
Proof. intros. rewrite existsb_app. cbn. rewrite orb_false_r. reflexivity. Qed.

Ltac scal_triv :=
  try match goal with K : scal _ |- _ => destruct K end;
  constructor; cbn;
  repeat match goal with E : ?f ?s = ?v |- _ => match type of s with state => rewrite E in * end end; cbn in *;
  rewrite ?existsb_snoc, ?orb_false_r in *; cbn in *;
  try match goal with P : _ || existsb is_perr _ = false |- _ => apply orb_false_elim in P; destruct P end;
  first [assumption | reflexivity | exact Logic.I | congruence | tauto].

Section ScalStep.
  Variables (p : params) (st : state).
  Hypothesis WF : wf_params p.
  Hypothesis K : scal st.
  Hypothesis J1 : inv1 st.
  Hypothesis J2 : inv2 p st.
  Hypothesis J3 : inv3 st.
  Hypothesis JF : inv_fin st.
  Hypothesis I9 : inv9a st.
  Hypothesis Irs : inv_rs st.
  Hypothesis I7 : inv7a p st.
  Hypothesis TK : tokinv st.
  Hypothesis WQ : forall id, wq p id st.
  Hypothesis CI : forall id, cinv p id st.
  Hypothesis NI : forall id, kind_of p id <> ENeed -> ninv id st.

  Ltac contra :=
    exfalso;
    try match goal with C : s_cancel st && _ = true |- _ => apply andb_prop in C; destruct C as [C _] end;
    try match goal with C : s_cancel st = true |- _ => destruct (L_sc st K J1 C) as (? & ? & ?) end;
    try match goal with C : d_canc st = true |- _ => destruct (L_dc st K J1 J3 C) as (? & ?) end;
    try match goal with C : dw_canc st = true |- _ => pose proof (L_dw st K J1 J3 C) end;
    try match goal with C : eg_canc st = true |- _ => pose proof (L_eg st K J1 J3 C) end;
    try match goal with E : buf_rs st = PReq ?id :: _ |- _ => assert (memb id (sfiles st) = true) by (eapply proto_req; eauto) end;
    try match goal with E : buf_sr st = PData ?id :: _ |- _ => assert (memb id (pipes st) = true) by (eapply proto_data; eauto) end;
    try match goal with E : buf_sr st = PDataEnd ?id :: _ |- _ => assert (memb id (pipes st) = true) by (eapply proto_dataend; eauto) end;
    try match goal with E : nth_error (wrs st) _ = Some {| wr_id := ?id; wr_pc := WR_Start |} |- _ =>
          assert (memb id (rfiles st) = true) by (eapply proto_start; eauto) end;
    try match goal with E : buf_sr st = [], R : rl_pc st = RL_Recv, C : sr_closed st = true |- _ =>
          exact (L_eof p st K J1 J2 JF R E C) end;
    try match goal with E : nth_error (wks st) _ = Some _, A : forallb wk_done (wks st) = true |- _ =>
          let Q := fresh in pose proof (forallb_nth _ _ _ _ _ A E) as Q; discriminate Q end;
    try match goal with E : nth_error (wrs st) _ = Some _, A : forallb wr_done (wrs st) = true |- _ =>
          let Q := fresh in pose proof (forallb_nth _ _ _ _ _ A E) as Q; discriminate Q end;
    try (pose proof (k_p1 st K) as P1; pose proof (k_p2 st K) as P2;
         repeat match goal with E : buf_sr st = _ |- _ => rewrite E in P1 end;
         repeat match goal with E : buf_rs st = _ |- _ => rewrite E in P2 end;
         cbn in P1, P2; first [discriminate P1 | discriminate P2]);
    try (destruct K; congruence).

  Lemma scal_step : forall l st', fault_free_label l = true -> step p st l = Some st' -> scal st'.
  Proof.
    intros l st' FF H.
    destruct l; try discriminate FF; clear FF; unfold_steps H; step_split H; inv_some; subst;
    repeat match goal with w : writer |- _ => destruct w; cbn in * end; subst.
    all: first [ solve [contra] | solve [scal_triv] | idtac ].
  Qed.
End ScalStep.
