(* Second part of the content invariants (split for build time): the remaining labels,
   reachability, and the content theorem. *)
From Coq Require Import List Arith Bool PeanoNat Lia ZifyBool.
From FS Require Import Model.Lts Model.LtsExplore Proofs.LtsInv Proofs.LtsSafe Proofs.LtsTerm Proofs.LtsC08 Proofs.LtsTok Proofs.LtsContent.
Import ListNotations.

Lemma cinv_step_rl : forall p id st st',
  tokinv st -> invW p st -> cinv p id st -> step p st LRecvLoop = Some st' -> cinv p id st'.
Proof. intros p id st st'. cinv_label p id. Qed.
Lemma cinv_step_rlc : forall p id st st',
  tokinv st -> invW p st -> cinv p id st -> step p st LRecvLoopClosed = Some st' -> cinv p id st'.
Proof. intros p id st st'. cinv_label p id. Qed.
Lemma cinv_step_sw : forall p id st st',
  tokinv st -> invW p st -> cinv p id st -> step p st LSWalk = Some st' -> cinv p id st'.
Proof. intros p id st st'. cinv_label p id. Qed.
Lemma cinv_step_swe : forall p id st st',
  tokinv st -> invW p st -> cinv p id st -> step p st LSWalkErr = Some st' -> cinv p id st'.
Proof. intros p id st st'. cinv_label p id. Qed.
Lemma cinv_step_rq : forall p id st st',
  tokinv st -> invW p st -> cinv p id st -> step p st LReq = Some st' -> cinv p id st'.
Proof. intros p id st st'. cinv_label p id. Qed.
Lemma cinv_step_rqc : forall p id st st',
  tokinv st -> invW p st -> cinv p id st -> step p st LReqCtx = Some st' -> cinv p id st'.
Proof. intros p id st st'. cinv_label p id. Qed.

(* the remaining labels touch none of the counted components *)
Definition other_label (l : label) : bool :=
  match l with
  | LSWalk | LSWalkErr | LWorker _ | LWorkerOpenErr _ | LWorkerReadErr _ | LReq | LReqCtx
  | LRecvLoop | LRecvLoopClosed => false
  | _ => true
  end.
Lemma cinv_step_other : forall p id st l st', other_label l = true ->
  tokinv st -> invW p st -> cinv p id st -> step p st l = Some st' -> cinv p id st'.
Proof. intros p id st l st' O. destruct l; try discriminate O; clear O; cinv_label p id. Qed.

Lemma cinv_step : forall p id st l st',
  tokinv st -> invW p st -> cinv p id st -> step p st l = Some st' -> cinv p id st'.
Proof.
  intros p id st l st' T W C H. destruct (other_label l) eqn:O.
  - eapply cinv_step_other; eauto.
  - destruct l; try discriminate O.
    + eapply cinv_step_sw; eauto.
    + eapply cinv_step_swe; eauto.
    + eapply cinv_step_wk; eauto.
    + eapply cinv_step_wko; eauto.
    + eapply cinv_step_wkr; eauto.
    + eapply cinv_step_rq; eauto.
    + eapply cinv_step_rqc; eauto.
    + eapply cinv_step_rl; eauto.
    + eapply cinv_step_rlc; eauto.
Qed.

Lemma sumf_pg_repeat_idle : forall p id n, sumf (pg p id) (repeat WK_Idle n) = 0.
Proof. induction n; cbn; auto. Qed.

Lemma cinv_init : forall p id, cinv p id (init p).
Proof.
  intros p id. constructor; unfold Wc, Fc, Pgc, early, heldc, donec, latec; cbn;
  rewrite ?sumf_repeat_idle, ?sumf_pg_repeat_idle; intros; repeat split; try reflexivity; unfold cnt, cntE, cntD in *; cbn in *; try lia.
Qed.

Lemma cinv_reachable : forall p id st, reachable p st -> cinv p id st.
Proof.
  induction 1.
  - apply cinv_init.
  - eapply cinv_step; eauto. eapply tokinv_reachable; eauto. eapply invW_reachable; eauto.
Qed.

(* When Receive has returned nil and no Open error was injected, every requested file has
   received exactly its chunks: the content of the destination is a function of the
   parameters, not of the schedule. *)
Lemma success_content_proof : forall p st, reachable p st ->
  recv_ret st = Some true -> g_open_err st = false ->
  forall id, In id (need_ids p) -> cnt id (written st) = chunks_of p id.
Proof.
  intros p st R Ok Oe id Hin.
  destruct (success_outcome_proof _ _ R Ok id) as [A _].
  apply A in Hin. apply cnt_memb in Hin.
  destruct (cinv_reachable p id st R) as [_ _ _ _ _ Jf].
  apply Jf; auto. unfold latec. lia.
Qed.
