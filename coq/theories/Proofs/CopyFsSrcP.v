(* C14 — the source side: when srcRoot and dstRoot are disjoint, the tree below srcRoot is the same
   in every state the copier goes through, and source paths resolve inside it. *)
From Coq Require Import List Arith NArith Lia Bool ZifyN ZifyNat ZifyBool.
From FS Require Import Sx Model.Path Model.Fs Model.RootPath Model.CopyFs Model.CopyFsSpec
  Proofs.Lex Proofs.PathP Proofs.FsP Proofs.RootPathStrP Proofs.FsCopyFrameP Proofs.FsCopyInvP
  Proofs.FsCopySafeP Proofs.FsCopyLinksP Proofs.FsCopySysP Proofs.CopyFsP Proofs.CopyRecP Proofs.CopyFsTopP
  Proofs.CopyFsTop2P.
From FS Require Proofs.RootPathP.
Import ListNotations.
Open Scope N_scope.
Open Scope bool_scope.

Local Opaque rfuel.

(* two chains to the same directory: one start lies below the other *)
Lemma chain_common f : (forall j1 j2 n1 n2 i, blookup n1 (dents f j1) = Some i -> blookup n2 (dents f j2) = Some i ->
                          is_dir f i = true -> j1 = j2 /\ n1 = n2) ->
  forall ns a d, chain f a ns d -> forall ms b, chain f b ms d -> inside_dir f a b \/ inside_dir f b a.
Proof.
  intros Hs ns. induction ns as [|x ns IH] using rev_ind; intros a d Ha ms b Hb.
  - inversion Ha; subst. right. exists ms. exact Hb.
  - destruct ms as [|y ms _] using rev_ind.
    + inversion Hb; subst. left. eexists. exact Ha.
    + destruct (chain_split f ns a [x] d Ha) as (m & P & Q).
      destruct (chain_split f ms b [y] d Hb) as (m' & P' & Q').
      inversion Q as [|? ? i ? ? Bx Dx Rx]; subst. inversion Rx; subst.
      inversion Q' as [|? ? i' ? ? By Dy Ry]; subst. inversion Ry; subst.
      destruct (Hs _ _ _ _ _ Bx By Dx) as [-> _]. eapply IH; eauto.
Qed.

(* a chain is symlink-free *)
Lemma chain_link_free f : forall a ns d, chain f a ns d -> link_free f a ns = true.
Proof.
  induction 1 as [d Hd|d x i cs e Hb Hi Hc IH]; [reflexivity|].
  cbn [link_free]. unfold dents in Hb. destruct (dir_of f d) as [[p es]|]; [|reflexivity]. rewrite Hb.
  unfold is_dir, dir_of in Hi. destruct (get f i) as [[[? ?|?|?|? ?] ?]|]; try discriminate. exact IH.
Qed.

Lemma resolve_no_nul c f p fl r : resolve c f p fl = inl r -> has_nul p = false.
Proof. unfold resolve. destruct p; [discriminate|]. destruct (has_nul (n :: p)); [discriminate|reflexivity]. Qed.

(* a successful no-follow lookup whose directory part is symlink-free: the parent is a chain *)
Lemma lf_walk_parent f : forall fuel cs a x rt n r i,
  link_free f a cs = true -> Forall nm cs -> nm x ->
  walk fuel f rt a (cs ++ [x]) false n = inl r -> l_ino r = Some i ->
  exists d', chain f a cs d' /\ blookup x (dents f d') = Some i.
Proof.
  induction fuel as [|fuel IH]; intros cs a x rt n r i Hlf Hcs Hx H Hi; [discriminate|].
  destruct cs as [|y rest]; simpl app in *; cbn [walk] in H;
    (destruct (dir_of f a) as [[par ents]|] eqn:Ed; [|discriminate]);
    assert (Ha : is_dir f a = true) by (unfold is_dir; rewrite Ed; reflexivity).
  - destruct Hx as [(N1 & N2 & N3) _]. apply bytes_eqb_neq in N2, N3. rewrite N2, N3 in H.
    destruct (blookup x ents) as [i0|] eqn:Eb.
    + assert (Hb : blookup x (dents f a) = Some i0) by (unfold dents; rewrite Ed; auto).
      destruct (get f i0) as [[[? ?|?|?|? ?] ?]|]; cbn [is_nil andb negb] in H; inversion H; subst; simpl in Hi; inversion Hi; subst;
        exists a; split; auto; constructor; auto.
    + cbn [is_nil] in H. inversion H; subst. simpl in Hi. discriminate.
  - inversion Hcs as [|? ? Hy Hrest]; subst. destruct Hy as [(N1 & N2 & N3) _].
    apply bytes_eqb_neq in N2, N3. rewrite N2, N3 in H.
    cbn [link_free] in Hlf. rewrite Ed in Hlf.
    destruct (blookup y ents) as [i0|] eqn:Eb.
    + assert (Hb : blookup y (dents f a) = Some i0) by (unfold dents; rewrite Ed; auto).
      replace (is_nil (rest ++ [x])) with false in H by (destruct rest; reflexivity).
      destruct (get f i0) as [[[p0 es0|dd|t|ty rd] m]|] eqn:Eg; try discriminate.
      * assert (Hi0 : is_dir f i0 = true) by (unfold is_dir, dir_of; rewrite Eg; reflexivity).
        destruct (IH rest i0 x rt n r i Hlf Hrest Hx H Hi) as (d' & Hc & Hbx).
        exists d'. split; auto. econstructor; eauto.
      * destruct fuel; [discriminate|]. cbn [walk] in H. unfold dir_of in H. rewrite Eg in H. discriminate.
      * destruct fuel; [discriminate|]. cbn [walk] in H. unfold dir_of in H. rewrite Eg in H. discriminate.
      * destruct fuel; [discriminate|]. cbn [walk] in H. unfold dir_of in H. rewrite Eg in H. discriminate.
    + replace (is_nil (rest ++ [x])) with false in H by (destruct rest; reflexivity). discriminate.
Qed.

Section Src.
  Variables (c : ctx) (f0 : fs) (dr : N) (dcs scs : list bytes) (sr : N).
  Notation Ctx := (Ctx c f0 dr dcs).
  Hypothesis W : fs_wf f0.
  Hypothesis Hs1 : Forall nm scs.
  Hypothesis Hs2 : Forall nonul scs.
  Hypothesis Hsc : chain f0 (c_root c) scs sr.
  Hypothesis Hsl : (length scs < rfuel)%nat.
  Hypothesis D1 : ~ inside_dir f0 dr sr.
  Hypothesis D2 : ~ inside_dir f0 sr dr.

  (* ---- nothing at or below srcRoot, and nothing on the way to it, lies inside dstRoot ---- *)
  Lemma below_src_outside ns d : chain f0 sr ns d -> ~ inside_dir f0 dr d.
  Proof.
    intros H (ms & Hm). destruct (chain_common f0 (wf_single f0 W) ns sr d H ms dr Hm) as [G|G]; auto.
  Qed.

  Lemma above_src_outside p s m : scs = p ++ s -> chain f0 (c_root c) p m -> ~ inside_dir f0 dr m.
  Proof.
    intros E Hp (cs & Hcs). apply D1. subst scs.
    destruct (chain_split f0 p (c_root c) s sr Hsc) as (m' & P & Q).
    rewrite (chain_fun _ _ _ _ P _ Hp) in Q. exists (cs ++ s). eapply chain_app; eauto.
  Qed.

  Lemma dir_old d : is_dir f0 d = true -> d < f_next f0.
  Proof. intros H. apply (exists_lt_next f0 d (wf_alloc f0 W)). apply is_dir_exists. exact H. Qed.

  Section State.
    Variable f : fs.
    Hypothesis I : Inv f0 dr f.

    Lemma st_dir ns d : chain f0 sr ns d -> get f d = get f0 d.
    Proof.
      intros H. apply (inv_frame f0 dr f I).
      - apply dir_old. eapply chain_end_dir; eauto.
      - eapply below_src_outside; eauto.
    Qed.

    Lemma st_child ns d x i : chain f0 sr ns d -> blookup x (dents f0 d) = Some i -> get f i = get f0 i.
    Proof.
      intros H Hb. apply (inv_frame f0 dr f I).
      - eapply (wf_target f0 W); eauto.
      - intros Hin. assert (Hd : is_dir f0 i = true) by (destruct Hin as (cs & Hcs); eapply chain_end_dir; eauto).
        apply (below_src_outside (ns ++ [x]) i); auto. eapply chain_snoc; eauto.
    Qed.

    Lemma get_dents j : get f j = get f0 j -> dents f j = dents f0 j.
    Proof. intros E. unfold dents, dir_of. rewrite E. reflexivity. Qed.
    Lemma get_is_dir j : get f j = get f0 j -> is_dir f j = is_dir f0 j.
    Proof. intros E. unfold is_dir, dir_of. rewrite E. reflexivity. Qed.
    Lemma get_dir_of j : get f j = get f0 j -> dir_of f j = dir_of f0 j.
    Proof. intros E. unfold dir_of. rewrite E. reflexivity. Qed.

    Lemma st_chain : forall a ns d, chain f0 a ns d -> forall pre, chain f0 sr pre a -> chain f a ns d.
    Proof.
      induction 1 as [d Hd|d x i cs e Hb Hi Hc IH]; intros pre Hp.
      - constructor. rewrite (get_is_dir d (st_dir pre d Hp)). exact Hd.
      - econstructor.
        + rewrite (get_dents d (st_dir pre d Hp)). exact Hb.
        + rewrite (get_is_dir i (st_child pre d x i Hp Hb)). exact Hi.
        + apply (IH (pre ++ [x])). eapply chain_snoc; eauto.
    Qed.

    Lemma st_chain_rev : forall a ns d, chain f a ns d -> forall pre, chain f0 sr pre a -> chain f0 a ns d.
    Proof.
      induction 1 as [d Hd|d x i cs e Hb Hi Hc IH]; intros pre Hp.
      - constructor. rewrite <- (get_is_dir d (st_dir pre d Hp)). exact Hd.
      - rewrite (get_dents d (st_dir pre d Hp)) in Hb.
        rewrite (get_is_dir i (st_child pre d x i Hp Hb)) in Hi.
        econstructor; eauto. apply (IH (pre ++ [x])). eapply chain_snoc; eauto.
    Qed.

    Lemma st_root_chain : chain f (c_root c) scs sr.
    Proof.
      assert (G : forall a s e, chain f0 a s e -> forall p, scs = p ++ s -> chain f0 (c_root c) p a -> e = sr -> chain f a s e).
      { induction 1 as [d Hd|d x i cs e Hb Hi Hc IH]; intros p E Hp Ee.
        - constructor. subst d. rewrite (get_is_dir sr (st_dir [] sr (chain_nil _ _ Hd))). exact Hd.
        - assert (Gd : get f d = get f0 d).
          { apply (inv_frame f0 dr f I); [apply dir_old; eapply chain_end_dir; eauto|eapply above_src_outside; eauto]. }
          assert (Hpi : chain f0 (c_root c) (p ++ [x]) i) by (eapply chain_snoc; eauto).
          assert (Gi : get f i = get f0 i).
          { apply (inv_frame f0 dr f I); [apply dir_old; auto|].
            eapply (above_src_outside (p ++ [x]) cs); eauto. rewrite <- app_assoc. exact E. }
          econstructor; [rewrite (get_dents d Gd); exact Hb|rewrite (get_is_dir i Gi); exact Hi|].
          eapply (IH (p ++ [x])); eauto. rewrite <- app_assoc. exact E. }
      eapply (G _ _ _ Hsc []); auto. constructor. eapply chain_start_dir; eauto.
    Qed.

    Lemma st_link_free : forall cs a pre, chain f0 sr pre a -> link_free f a cs = link_free f0 a cs.
    Proof.
      induction cs as [|x rest IH]; intros a pre Hp; [reflexivity|].
      cbn [link_free]. rewrite (get_dir_of a (st_dir pre a Hp)).
      destruct (dir_of f0 a) as [[pp es]|] eqn:Ed; [|reflexivity].
      destruct (blookup x es) as [i|] eqn:Eb; [|reflexivity].
      assert (Hb : blookup x (dents f0 a) = Some i) by (unfold dents; rewrite Ed; exact Eb).
      rewrite (st_child pre a x i Hp Hb).
      destruct (get f0 i) as [[[p0 es0|dd|t|ty rd] m]|] eqn:Eg; try reflexivity.
      - apply (IH i (pre ++ [x])). eapply chain_snoc; eauto. unfold is_dir, dir_of. rewrite Eg. reflexivity.
      - destruct rest; [reflexivity|]. cbn [link_free]. unfold dir_of. rewrite (st_child pre a x i Hp Hb), Eg. reflexivity.
      - destruct rest; [reflexivity|]. cbn [link_free]. unfold dir_of. rewrite (st_child pre a x i Hp Hb), Eg. reflexivity.
      - destruct rest; [reflexivity|]. cbn [link_free]. unfold dir_of. rewrite (st_child pre a x i Hp Hb), Eg. reflexivity.
    Qed.
  End State.

  (* ---- source paths ---- *)
  (* "<srcRoot>/ps" where no proper prefix of ps is a symlink (in the initial, hence in every, state) *)
  Definition SPc (p : bytes) : Prop :=
    exists ps, p = render (scs ++ ps) /\ Forall nm ps /\ link_free f0 sr (removelast ps) = true.
  (* ps names inode i: srcRoot itself, or an entry of a directory below srcRoot *)
  Definition sres (ps : list bytes) (i : N) : Prop :=
    (ps = [] /\ i = sr) \/ exists ns x d, ps = ns ++ [x] /\ chain f0 sr ns d /\ blookup x (dents f0 d) = Some i.
  (* a source path that names something that is not a symlink *)
  Definition SPNc (p : bytes) : Prop :=
    exists ps i n, p = render (scs ++ ps) /\ Forall nm ps /\ Forall nonul ps /\ sres ps i /\
                   get f0 i = Some n /\ kind_is_link n = false.
  Definition Rc (i : N) : Prop := src_reach f0 sr i.

  Lemma sr_dir : is_dir f0 sr = true.
  Proof. eapply chain_end_dir; eauto. Qed.
  Lemma sr_chain : chain f0 sr [] sr.
  Proof. constructor. apply sr_dir. Qed.

  Lemma sres_reach ps i : sres ps i -> Rc i.
  Proof.
    intros [[-> ->]|(ns & x & d & -> & Hc & Hb)].
    - exists [], sr. split; [apply sr_chain|left; reflexivity].
    - exists ns, d. split; auto. right. eauto.
  Qed.

  Lemma sres_get f ps i : Inv f0 dr f -> sres ps i -> get f i = get f0 i.
  Proof.
    intros I [[-> ->]|(ns & x & d & -> & Hc & Hb)].
    - apply (st_dir f I [] sr sr_chain).
    - eapply st_child; eauto.
  Qed.

  Lemma sres_link_free ps i : sres ps i -> link_free f0 sr (removelast ps) = true.
  Proof.
    intros [[-> ->]|(ns & x & d & -> & Hc & Hb)]; [reflexivity|].
    rewrite removelast_last. eapply chain_link_free; eauto.
  Qed.

  Lemma sres_dir_chain ps i : sres ps i -> is_dir f0 i = true -> chain f0 sr ps i.
  Proof.
    intros [[-> ->]|(ns & x & d & -> & Hc & Hb)] Hd; [apply sr_chain|]. eapply chain_snoc; eauto.
  Qed.

  Lemma rfuel_split : rfuel = (length scs + (rfuel - length scs))%nat.
  Proof. lia. Qed.

  (* the no-follow lookup of a source path *)
  Lemma res_nf f p i : Inv f0 dr f -> SPc p -> resolve_ino c f p false = inl i ->
    exists ps, p = render (scs ++ ps) /\ Forall nm ps /\ Forall nonul ps /\ sres ps i.
  Proof.
    intros I (ps & -> & Hn & Hlf) H. unfold resolve_ino in H.
    destruct (resolve c f (render (scs ++ ps)) false) as [r|e] eqn:Er; [|discriminate].
    destruct (l_ino r) as [j|] eqn:Ej; [|discriminate]. injection H as ->.
    pose proof (resolve_no_nul _ _ _ _ _ Er) as Hnul. apply has_nul_render in Hnul.
    apply Forall_app in Hnul. destruct Hnul as [_ Hpn].
    exists ps. split; [reflexivity|]. split; [exact Hn|]. split; [exact Hpn|].
    destruct ps as [|x ns _] using rev_ind.
    - left. split; [reflexivity|]. rewrite app_nil_r in Er.
      destruct (resolve_chain c f0 f scs sr false (st_root_chain f I) Hs1 Hs2 Hsl) as (r' & E' & Hi').
      rewrite E' in Er. injection Er as <-. congruence.
    - right. rewrite removelast_last in Hlf.
      apply Forall_app in Hn. destruct Hn as [Hn Hx]. inversion Hx as [|? ? Hx1 _]; subst.
      apply Forall_app in Hpn. destruct Hpn as [Hpn Hxn].
      rewrite resolve_render in Er;
        [|repeat (apply Forall_app; split; auto)|repeat (apply Forall_app; split; auto)|destruct scs; [destruct ns|]; discriminate].
      rewrite rfuel_split in Er.
      rewrite (walk_chain_prefix f scs (c_root c) sr (st_root_chain f I) Hs1 (ns ++ [x])) in Er by (destruct ns; discriminate).
      rewrite <- (st_link_free f I ns sr [] sr_chain) in Hlf.
      destruct (lf_walk_parent f _ ns sr x _ _ r i Hlf Hn Hx1 Er Ej) as (d' & Hc & Hb).
      pose proof (st_chain_rev f I sr ns d' Hc [] sr_chain) as Hc0.
      exists ns, x, d'. split; [reflexivity|]. split; [exact Hc0|].
      rewrite <- (get_dents f d' (st_dir f I ns d' Hc0)). exact Hb.
  Qed.

  (* the following lookup of a source path that does not name a symlink *)
  Lemma res_fl f p j : Inv f0 dr f -> SPNc p -> resolve_ino c f p true = inl j ->
    exists ps n, p = render (scs ++ ps) /\ Forall nm ps /\ Forall nonul ps /\ sres ps j /\ get f0 j = Some n.
  Proof.
    intros I (ps & i & n & -> & Hn & Hpn & Hs & Hg & Hk) H.
    exists ps, n. split; [reflexivity|]. split; [exact Hn|]. split; [exact Hpn|].
    assert (E : j = i); [|subst j; auto].
    unfold resolve_ino in H.
    destruct (resolve c f (render (scs ++ ps)) true) as [r|e] eqn:Er; [|discriminate].
    destruct (l_ino r) as [j'|] eqn:Ej; [|discriminate]. injection H as ->.
    destruct Hs as [[-> ->]|(ns & x & d & -> & Hc & Hb)].
    - rewrite app_nil_r in Er.
      destruct (resolve_chain c f0 f scs sr true (st_root_chain f I) Hs1 Hs2 Hsl) as (r' & E' & Hi').
      rewrite E' in Er. injection Er as <-. congruence.
    - apply Forall_app in Hn. destruct Hn as [Hn Hx]. inversion Hx as [|? ? Hx1 _]; subst.
      apply Forall_app in Hpn. destruct Hpn as [Hpn Hxn].
      rewrite resolve_render in Er;
        [|repeat (apply Forall_app; split; auto)|repeat (apply Forall_app; split; auto)|destruct scs; [destruct ns|]; discriminate].
      assert (Hcf : chain f (c_root c) (scs ++ ns) d).
      { eapply chain_app; [apply (st_root_chain f I)|]. apply (st_chain f I sr ns d Hc [] sr_chain). }
      rewrite app_assoc in Er.
      assert (Hbf : blookup x (dents f d) = Some i) by (rewrite (get_dents f d (st_dir f I ns d Hc)); exact Hb).
      destruct (walk_chain f (c_root c) (scs ++ ns) d Hcf (proj2 (Forall_app _ _ _) (conj Hs1 Hn)) x Hx1 _ _ _ _ _ Er)
        as [(_ & _ & Hl)|(_ & i' & Hb' & Hlk)].
      + rewrite Hl, Hbf in Ej. congruence.
      + exfalso. rewrite Hbf in Hb'. injection Hb' as <-.
        unfold FsP.is_link in Hlk. rewrite (st_child f I ns d x i Hc Hb), Hg in Hlk.
        unfold kind_is_link in Hk. destruct n as [[? ?|?|?|? ?] ?]; simpl in *; discriminate.
  Qed.

  (* ---- the five facts the walk needs ---- *)
  Lemma src_HA f p i : Inv f0 dr f -> SPc p -> resolve_ino c f p false = inl i -> Rc i.
  Proof. intros I Hp H. destruct (res_nf f p i I Hp H) as (ps & _ & _ & _ & Hs). eapply sres_reach; eauto. Qed.

  Lemma src_HB f p i n : Inv f0 dr f -> SPc p -> resolve_ino c f p false = inl i -> get f i = Some n ->
    kind_is_link n = false -> SPNc p.
  Proof.
    intros I Hp H Hg Hk. destruct (res_nf f p i I Hp H) as (ps & -> & Hn & Hpn & Hs).
    exists ps, i, n. repeat (split; auto). rewrite <- (sres_get f ps i I Hs). exact Hg.
  Qed.

  Lemma src_HC f p j : Inv f0 dr f -> SPNc p -> resolve_ino c f p true = inl j -> Rc j.
  Proof. intros I Hp H. destruct (res_fl f p j I Hp H) as (ps & n & _ & _ & _ & Hs & _). eapply sres_reach; eauto. Qed.

  Lemma src_HD f p j pp es n : Inv f0 dr f -> SPNc p -> resolve_ino c f p true = inl j ->
    dir_of f j = Some (pp, es) -> In n (map fst es) -> SPc (join2 p n).
  Proof.
    intros I Hp H Hd Hin. destruct (res_fl f p j I Hp H) as (ps & n0 & -> & Hn & Hpn & Hs & Hg).
    rewrite (get_dir_of f j (sres_get f ps j I Hs)) in Hd.
    assert (Hdj : is_dir f0 j = true) by (unfold is_dir; rewrite Hd; reflexivity).
    pose proof (sres_dir_chain ps j Hs Hdj) as Hc.
    assert (Hnn : nm n).
    { pose proof (wf_names f0 W j) as Hw. unfold dents in Hw. rewrite Hd in Hw.
      unfold entry_name_ok in Hw. apply forallb_name_ok in Hw. destruct Hw as [Hw _].
      rewrite Forall_forall in Hw. apply Hw. exact Hin. }
    exists (ps ++ [n]). split; [|split].
    - rewrite join2_names by (try apply Forall_app; auto). rewrite <- app_assoc. reflexivity.
    - apply Forall_app; split; auto.
    - rewrite removelast_last. eapply chain_link_free; eauto.
  Qed.

  Lemma src_HN p : SPNc p -> SPc p.
  Proof.
    intros (ps & i & n & -> & Hn & Hpn & Hs & _). exists ps. split; [reflexivity|]. split; [exact Hn|].
    eapply sres_link_free; eauto.
  Qed.

  (* the source argument, resolved by rootPath *)
  Lemma src_HE f src follow sf : Inv f0 dr f -> copy_root_path c f (render scs) src follow = inl sf -> SPc sf.
  Proof.
    intros I H.
    assert (Hnm : forallb name_ok scs = true) by (apply forallb_name_ok; split; auto).
    pose proof (chain_plain_dir f scs (c_root c) sr (st_root_chain f I)) as Hpd.
    destruct (RootPathP.copy_rootpath_result_link_free_proof c f scs sr src follow sf Hnm Hpd H) as (cs & -> & Hlex & _ & Hlf).
    exists cs. split; [reflexivity|]. split; [apply forallb_lex_name_ok; exact Hlex|].
    rewrite <- (st_link_free f I (removelast cs) sr [] sr_chain).
    destruct follow; [apply link_free_removelast_gen|]; exact Hlf.
  Qed.

  Lemma src_root_SP : SPc (render scs).
  Proof. exists []. rewrite app_nil_r. split; [reflexivity|]. split; [constructor|reflexivity]. Qed.
End Src.
