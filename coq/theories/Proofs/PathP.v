(* Facts about the path model: ComparePath is the component-wise order, a strict
   total order; comps/joinc are inverse; characterisation of the fixed points of Clean. *)
From Coq Require Import List NArith Lia Bool.
From FS Require Import Sx Model.Path Proofs.Lex.
Import ListNotations.
Open Scope N_scope.
Open Scope bool_scope.

Lemma comps_nonempty p : comps p <> [].
Proof. destruct p as [|a p]; simpl; [discriminate|]. destruct (N.eqb a sep); [discriminate|]. destruct (comps p); discriminate. Qed.

Lemma comps_cons_nosep a p : N.eqb a sep = false ->
  exists c cs, comps p = c :: cs /\ comps (a :: p) = (a :: c) :: cs.
Proof.
  intros H. simpl. rewrite H. destruct (comps p) as [|c cs] eqn:E.
  - exfalso. eapply comps_nonempty; eauto.
  - eauto.
Qed.

Lemma cmp_bytes_refl a : cmp_bytes a a = Eq.
Proof. induction a as [|x a IH]; simpl; auto. rewrite N.compare_refl. exact IH. Qed.

(* head component of a path starting with non-sep a vs other *)
Theorem compare_path_componentwise : forall p q, compare_path p q = lex_cmp (comps p) (comps q).
Proof.
  induction p as [|a p IH]; intros q.
  - destruct q as [|b q]; simpl; auto.
    destruct (N.eqb b sep) eqn:Hb.
    + simpl. destruct (comps q) eqn:E; [exfalso; eapply comps_nonempty; eauto|]. reflexivity.
    + destruct (comps q) as [|c cs] eqn:E; [exfalso; eapply comps_nonempty; eauto|]. simpl. reflexivity.
  - destruct q as [|b q].
    + simpl. destruct (N.eqb a sep) eqn:Ha.
      * simpl. destruct (comps p) eqn:E; [exfalso; eapply comps_nonempty; eauto|]. reflexivity.
      * destruct (comps p) as [|c cs] eqn:E; [exfalso; eapply comps_nonempty; eauto|]. simpl. reflexivity.
    + cbn [compare_path].
      destruct (N.eqb a b) eqn:Hab.
      * apply N.eqb_eq in Hab. subst b. rewrite IH.
        simpl. destruct (N.eqb a sep) eqn:Ha.
        -- simpl. reflexivity.
        -- destruct (comps p) as [|c cs] eqn:E1; [exfalso; eapply comps_nonempty; eauto|].
           destruct (comps q) as [|d ds] eqn:E2; [exfalso; eapply comps_nonempty; eauto|].
           simpl. rewrite N.compare_refl. reflexivity.
      * apply N.eqb_neq in Hab.
        simpl comps.
        destruct (N.eqb a sep) eqn:Ha; destruct (N.eqb b sep) eqn:Hb.
        -- apply N.eqb_eq in Ha, Hb. congruence.
        -- (* a is sep: p component empty vs b::... *)
           simpl. destruct (comps q) as [|d ds] eqn:E2; [exfalso; eapply comps_nonempty; eauto|].
           simpl. rewrite orb_true_r. reflexivity.
        -- simpl. destruct (comps p) as [|c cs] eqn:E1; [exfalso; eapply comps_nonempty; eauto|].
           simpl. reflexivity.
        -- destruct (comps p) as [|c cs] eqn:E1; [exfalso; eapply comps_nonempty; eauto|].
           destruct (comps q) as [|d ds] eqn:E2; [exfalso; eapply comps_nonempty; eauto|].
           simpl. rewrite orb_false_r.
           destruct (N.compare a b) eqn:C.
           ++ apply N.compare_eq in C. congruence.
           ++ apply N.compare_lt_iff in C. apply N.ltb_lt in C. rewrite C. reflexivity.
           ++ apply N.compare_gt_iff in C. assert (N.ltb a b = false) by (apply N.ltb_ge; lia). rewrite H. reflexivity.
Qed.

(* ---------- comps / joinc ---------- *)
Definition nosep (c : bytes) : Prop := ~ In sep c.

Lemma comps_unfold_nosep a p : N.eqb a sep = false ->
  comps (a :: p) = (a :: hd [] (comps p)) :: tl (comps p).
Proof.
  intros H. simpl. rewrite H. destruct (comps p) eqn:E; [exfalso; eapply comps_nonempty; eauto|reflexivity].
Qed.

Lemma joinc_cons c cs : cs <> [] -> joinc (c :: cs) = c ++ sep :: joinc cs.
Proof. destruct cs; [congruence|reflexivity]. Qed.

Lemma joinc_comps p : joinc (comps p) = p.
Proof.
  induction p as [|a p IH]; [reflexivity|].
  destruct (N.eqb a sep) eqn:Ha.
  - simpl. rewrite Ha. apply N.eqb_eq in Ha. subst a.
    rewrite joinc_cons by apply comps_nonempty. simpl. rewrite IH. reflexivity.
  - rewrite comps_unfold_nosep by auto.
    destruct (comps p) as [|c cs] eqn:E; [exfalso; eapply comps_nonempty; eauto|].
    simpl hd. simpl tl. destruct cs as [|c2 cs].
    + simpl in *. congruence.
    + rewrite joinc_cons in * by discriminate. simpl. rewrite <- IH. reflexivity.
Qed.

Lemma comps_inj p q : comps p = comps q -> p = q.
Proof. intros H. rewrite <- (joinc_comps p), <- (joinc_comps q), H. reflexivity. Qed.

Lemma comps_nosep_single c : nosep c -> comps c = [c].
Proof.
  induction c as [|a c IH]; intros H; [reflexivity|].
  assert (Ha : N.eqb a sep = false) by (apply N.eqb_neq; intro; subst; apply H; left; auto).
  rewrite comps_unfold_nosep by auto. rewrite IH; [reflexivity|]. intro; apply H; right; auto.
Qed.

Lemma comps_app_sep c p : nosep c -> comps (c ++ sep :: p) = c :: comps p.
Proof.
  induction c as [|a c IH]; intros H.
  - simpl. reflexivity.
  - assert (Ha : N.eqb a sep = false) by (apply N.eqb_neq; intro; subst; apply H; left; auto).
    rewrite <- app_comm_cons. rewrite comps_unfold_nosep by auto. rewrite IH; [reflexivity|].
    intro; apply H; right; auto.
Qed.

Lemma comps_joinc cs : cs <> [] -> Forall nosep cs -> comps (joinc cs) = cs.
Proof.
  induction cs as [|c cs IH]; intros Hne Hf; [congruence|].
  inversion Hf as [|? ? Hc Hcs]; subst.
  destruct cs as [|c2 cs].
  - simpl. apply comps_nosep_single; auto.
  - rewrite joinc_cons by discriminate. rewrite comps_app_sep by auto. rewrite IH; auto. discriminate.
Qed.

Lemma comps_all_nosep p : Forall nosep (comps p).
Proof.
  induction p as [|a p IH]; simpl.
  - constructor; [intros []|constructor].
  - destruct (N.eqb a sep) eqn:Ha.
    + constructor; [intros []|auto].
    + destruct (comps p) as [|c cs]; [constructor; [|constructor]|].
      * intros [E|[]]. subst. rewrite N.eqb_refl in Ha. discriminate.
      * inversion IH; subst. constructor; auto. intros [E|Hi]; [subst; rewrite N.eqb_refl in Ha; discriminate|auto].
Qed.

(* ---------- ComparePath is a strict total order equal to the component-wise order ---------- *)
Lemma compare_path_lex p q : compare_path p q = lex (comps p) (comps q).
Proof. rewrite lex_is_lex_cmp. apply compare_path_componentwise. Qed.

Lemma compare_path_eq p q : compare_path p q = Eq <-> p = q.
Proof.
  rewrite compare_path_lex, lex_eq. split; [apply comps_inj|congruence].
Qed.

Lemma compare_path_refl p : compare_path p p = Eq.
Proof. apply compare_path_eq; reflexivity. Qed.

Lemma compare_path_opp p q : compare_path q p = CompOpp (compare_path p q).
Proof. rewrite !compare_path_lex. apply lex_opp. Qed.

Lemma compare_path_trans p q r :
  compare_path p q = Lt -> compare_path q r = Lt -> compare_path p r = Lt.
Proof. rewrite !compare_path_lex. apply lex_trans. Qed.

Lemma compare_path_irrefl p : compare_path p p <> Lt.
Proof. rewrite compare_path_refl. discriminate. Qed.

Lemma compare_path_total p q : compare_path p q = Lt \/ p = q \/ compare_path q p = Lt.
Proof.
  destruct (compare_path p q) eqn:E; auto.
  - right; left. apply compare_path_eq; auto.
  - right; right. rewrite compare_path_opp, E. reflexivity.
Qed.

(* ---------- Clean ---------- *)
Definition normal (c : bytes) : Prop := c <> [] /\ c <> s_dot /\ c <> s_dotdot.

Lemma cstep_normal rooted stk c : normal c -> cstep rooted stk c = c :: stk.
Proof.
  intros (H1 & H2 & H3). unfold cstep.
  apply bytes_eqb_neq in H1, H2, H3. rewrite H1, H2, H3. reflexivity.
Qed.

Lemma fold_cstep_normal rooted cs stk :
  Forall normal cs -> fold_left (cstep rooted) cs stk = rev cs ++ stk.
Proof.
  revert stk; induction cs as [|c cs IH]; intros stk H; [reflexivity|].
  inversion H; subst. simpl. rewrite cstep_normal by auto. rewrite IH by auto.
  rewrite <- app_assoc. reflexivity.
Qed.

Lemma cstep_len rooted stk c : (length (cstep rooted stk c) <= S (length stk))%nat.
Proof.
  unfold cstep. destruct (bytes_eqb c [] || bytes_eqb c s_dot); [lia|].
  destruct (bytes_eqb c s_dotdot); [|simpl; lia].
  destruct stk as [|t r]; [destruct rooted; simpl; lia|].
  destruct (bytes_eqb t s_dotdot); simpl; lia.
Qed.

Lemma fold_cstep_len rooted cs stk :
  (length (fold_left (cstep rooted) cs stk) <= length stk + length cs)%nat.
Proof.
  revert stk; induction cs as [|c cs IH]; intros stk; simpl; [lia|].
  specialize (IH (cstep rooted stk c)). pose proof (cstep_len rooted stk c). lia.
Qed.

(* all entries of the stack are ".." *)
Definition alldd (stk : list bytes) : Prop := Forall (fun c => c = s_dotdot) stk.

(* if no component is lost, every component was pushed: then each component is
   normal, or it is ".." pushed on a stack made only of ".." *)
Lemma fold_cstep_full cs stk :
  length (fold_left (cstep false) cs stk) = (length stk + length cs)%nat ->
  fold_left (cstep false) cs stk = rev cs ++ stk /\
  (alldd stk -> Forall (fun c => normal c \/ c = s_dotdot) cs /\
                (forall c r, cs = c :: r -> normal c -> Forall normal cs)).
Proof.
  revert stk; induction cs as [|c cs IH]; intros stk Hlen.
  - simpl. split; [reflexivity|]. intros _. split; [constructor|]. intros; discriminate.
  - simpl in Hlen.
    pose proof (fold_cstep_len false cs (cstep false stk c)) as Hle.
    pose proof (cstep_len false stk c) as Hc.
    assert (Hpush : length (cstep false stk c) = S (length stk)) by (simpl in *; lia).
    assert (Hcs : cstep false stk c = c :: stk /\ (normal c \/ (c = s_dotdot /\ (stk = [] \/ exists r, stk = s_dotdot :: r)))).
    { unfold cstep in *. destruct (bytes_eqb c []) eqn:E1; [simpl in Hpush; lia|].
      destruct (bytes_eqb c s_dot) eqn:E2; [simpl in Hpush; lia|]. simpl in *.
      destruct (bytes_eqb c s_dotdot) eqn:E3.
      - apply bytes_eqb_eq in E3. destruct stk as [|t r]; [split; auto|].
        destruct (bytes_eqb t s_dotdot) eqn:E4; [|simpl in Hpush; lia].
        apply bytes_eqb_eq in E4. subst t. split; auto. right. split; auto. right. eauto.
      - split; auto. left. apply bytes_eqb_neq in E1, E2, E3. repeat split; auto. }
    destruct Hcs as [Hcs Hkind]. simpl. rewrite Hcs in *.
    destruct (IH (c :: stk)) as [IH1 IH2]; [simpl in *; lia|].
    split; [rewrite IH1, <- app_assoc; reflexivity|].
    intros Hdd. split.
    + constructor; [destruct Hkind as [?|[? _]]; auto|].
      destruct Hkind as [Hn|[-> _]].
      * (* c normal: the rest must be normal too, since a ".." after it would pop *)
        clear IH2. clear Hle Hc Hpush Hcs.
        assert (G : forall cs stk0, (exists t r, stk0 = t :: r /\ normal t) ->
                   length (fold_left (cstep false) cs stk0) = (length stk0 + length cs)%nat ->
                   Forall normal cs).
        { clear. induction cs as [|c cs IH]; intros stk0 (t & r & -> & Ht) Hlen; [constructor|].
          simpl in Hlen.
          pose proof (fold_cstep_len false cs (cstep false (t :: r) c)) as Hle.
          pose proof (cstep_len false (t :: r) c) as Hc.
          assert (Hpush : length (cstep false (t :: r) c) = S (length (t :: r))) by (simpl in *; lia).
          assert (Hn : normal c).
          { unfold cstep in Hpush. destruct (bytes_eqb c []) eqn:E1; [simpl in Hpush; lia|].
            destruct (bytes_eqb c s_dot) eqn:E2; [simpl in Hpush; lia|]. simpl in Hpush.
            destruct (bytes_eqb c s_dotdot) eqn:E3.
            - destruct Ht as (_ & _ & Ht). apply bytes_eqb_neq in Ht. rewrite Ht in Hpush. simpl in Hpush. lia.
            - apply bytes_eqb_neq in E1, E2, E3. repeat split; auto. }
          constructor; auto. rewrite cstep_normal in Hlen by auto.
          apply (IH (c :: t :: r)); [eauto|simpl in *; lia]. }
        assert (Forall normal cs) as Hall by (apply (G cs (c :: stk)); [eauto|simpl in *; lia]).
        eapply Forall_impl; [|exact Hall]. auto.
      * apply IH2. constructor; auto.
    + intros c0 r0 E Hn. inversion E; subst c0 r0.
      assert (G : forall cs stk0, (exists t r, stk0 = t :: r /\ normal t) ->
                   length (fold_left (cstep false) cs stk0) = (length stk0 + length cs)%nat ->
                   Forall normal cs).
      { clear. induction cs as [|c cs IH]; intros stk0 (t & r & -> & Ht) Hlen; [constructor|].
        simpl in Hlen.
        pose proof (fold_cstep_len false cs (cstep false (t :: r) c)) as Hle.
        pose proof (cstep_len false (t :: r) c) as Hc.
        assert (Hpush : length (cstep false (t :: r) c) = S (length (t :: r))) by (simpl in *; lia).
        assert (Hn : normal c).
        { unfold cstep in Hpush. destruct (bytes_eqb c []) eqn:E1; [simpl in Hpush; lia|].
          destruct (bytes_eqb c s_dot) eqn:E2; [simpl in Hpush; lia|]. simpl in Hpush.
          destruct (bytes_eqb c s_dotdot) eqn:E3.
          - destruct Ht as (_ & _ & Ht). apply bytes_eqb_neq in Ht. rewrite Ht in Hpush. simpl in Hpush. lia.
          - apply bytes_eqb_neq in E1, E2, E3. repeat split; auto. }
        constructor; auto. rewrite cstep_normal in Hlen by auto.
        apply (IH (c :: t :: r)); [eauto|simpl in *; lia]. }
      constructor; auto. apply (G cs (c :: stk)); [eauto|simpl in *; lia].
Qed.

Lemma fold_cstep_forall (P : bytes -> Prop) rooted cs stk :
  Forall P cs -> Forall P stk -> Forall P (fold_left (cstep rooted) cs stk).
Proof.
  revert stk; induction cs as [|c cs IH]; intros stk Hc Hs; [exact Hs|].
  inversion Hc; subst. simpl. apply IH; auto.
  unfold cstep. destruct (bytes_eqb c [] || bytes_eqb c s_dot); auto.
  destruct (bytes_eqb c s_dotdot); [|constructor; auto].
  destruct stk as [|t r]; [destruct rooted; auto|].
  destruct (bytes_eqb t s_dotdot); [constructor; auto|inversion Hs; auto].
Qed.

Lemma joinc_nil_iff cs : Forall (fun c => c <> []) cs -> joinc cs = [] -> cs = [].
Proof.
  destruct cs as [|c cs]; auto. intros H E. inversion H; subst.
  destruct cs; simpl in E; [congruence|]. destruct c; [congruence|discriminate].
Qed.

Definition okc (cs : list bytes) : Prop := cs <> [] /\ Forall normal cs /\ Forall nosep cs.

(* a relative fixed point of Clean other than "." and not starting with ".."
   consists of normal components only *)
Lemma clean_fixpoint_normal p :
  is_abs p = false -> clean p = p -> p <> s_dot -> p <> s_dotdot ->
  has_prefix s_dotdotsep p = false -> okc (comps p).
Proof.
  intros Habs Hcl Hd Hdd Hpre. unfold clean in Hcl. rewrite Habs in Hcl.
  remember (fold_left (cstep false) (comps p) []) as stk eqn:Estk.
  assert (Hout : joinc (rev stk) = p).
  { destruct (joinc (rev stk)) eqn:E; [congruence|exact Hcl]. }
  assert (Hns : Forall nosep stk).
  { rewrite Estk. apply fold_cstep_forall; [apply comps_all_nosep|constructor]. }
  assert (Hne : stk <> []).
  { intros E. rewrite E in Hout, Hcl. simpl in Hout, Hcl. unfold s_dot in Hcl. congruence. }
  assert (Hcomps : comps p = rev stk).
  { rewrite <- Hout at 1. apply comps_joinc.
    - intro E. apply Hne. rewrite <- (rev_involutive stk), E. reflexivity.
    - apply Forall_rev; auto. }
  assert (Hlen : length stk = (length (@nil bytes) + length (comps p))%nat).
  { rewrite Hcomps, rev_length. reflexivity. }
  rewrite Estk in Hlen. destruct (fold_cstep_full (comps p) [] Hlen) as [_ H2].
  destruct (H2 (Forall_nil _)) as [Hall Hfirst].
  split; [apply comps_nonempty|]. split; [|apply comps_all_nosep].
  destruct (comps p) as [|c r] eqn:Ec; [constructor|].
  apply (Hfirst c r eq_refl).
  inversion Hall as [|c' r' [Hn|Hc] _ [Ec' Er']]; auto.
  exfalso. rewrite Hc in Ec. assert (Hp : p = joinc (s_dotdot :: r)) by (rewrite <- Ec, joinc_comps; reflexivity).
  destruct r as [|c2 r].
  - simpl in Hp. congruence.
  - rewrite joinc_cons in Hp by discriminate. rewrite Hp in Hpre. unfold s_dotdotsep, s_dotdot, dot, sep in Hpre. simpl in Hpre. discriminate.
Qed.

Lemma okc_first_byte cs : okc cs -> exists a r, joinc cs = a :: r /\ a <> sep.
Proof.
  intros (Hne & Hn & Hs). destruct cs as [|c cs]; [congruence|].
  inversion Hn as [|? ? (Hc & _) _]; subst. inversion Hs as [|? ? Hc2 _]; subst.
  destruct c as [|a c]; [congruence|]. exists a.
  destruct cs; [exists c|eexists]; simpl; (split; [reflexivity|]); intro; subst; apply Hc2; left; auto.
Qed.

Lemma okc_clean cs : okc cs -> clean (joinc cs) = joinc cs /\ is_abs (joinc cs) = false.
Proof.
  intros H. pose proof H as (Hne & Hn & Hs).
  destruct (okc_first_byte cs H) as (a & r & E & Ha).
  assert (Habs : is_abs (joinc cs) = false) by (rewrite E; simpl; apply N.eqb_neq; auto).
  split; auto. unfold clean. rewrite Habs, comps_joinc by auto.
  rewrite fold_cstep_normal by auto. rewrite app_nil_r, rev_involutive. rewrite E. reflexivity.
Qed.

Lemma has_prefix_app pre s : has_prefix pre s = true -> exists r, s = pre ++ r.
Proof.
  revert s; induction pre as [|a pre IH]; intros s H; [exists s; reflexivity|].
  destruct s as [|b s]; [discriminate|]. simpl in H. apply andb_true_iff in H. destruct H as [H1 H2].
  apply N.eqb_eq in H1. subst b. destruct (IH _ H2) as [r ->]. exists r. reflexivity.
Qed.

Lemma comps_dot : comps s_dot = [s_dot]. Proof. reflexivity. Qed.
Lemma comps_dotdot : comps s_dotdot = [s_dotdot]. Proof. reflexivity. Qed.

Lemma okc_not_special cs : okc cs ->
  joinc cs <> [] /\ joinc cs <> s_dot /\ joinc cs <> s_dotdot /\ has_prefix s_dotdotsep (joinc cs) = false.
Proof.
  intros H. pose proof H as (Hne & Hn & Hs).
  destruct (okc_first_byte cs H) as (a & r & E & Ha).
  assert (Hc : comps (joinc cs) = cs) by (apply comps_joinc; auto).
  split; [rewrite E; discriminate|].
  split; [intro E2; rewrite E2, comps_dot in Hc; subst cs; inversion Hn as [|? ? (_ & Hx & _) _]; congruence|].
  split; [intro E2; rewrite E2, comps_dotdot in Hc; subst cs; inversion Hn as [|? ? (_ & _ & Hx) _]; congruence|].
  destruct (has_prefix s_dotdotsep (joinc cs)) eqn:Hp; auto. exfalso.
  apply has_prefix_app in Hp. destruct Hp as [rest Hp].
  change (s_dotdotsep ++ rest) with (s_dotdot ++ sep :: rest) in Hp. rewrite Hp in Hc.
  rewrite comps_app_sep in Hc.
  - subst cs. inversion Hn as [|? ? (_ & _ & Hx) _]. congruence.
  - intros [E1|[E1|[]]]; discriminate.
Qed.

(* ---------- Dir / Base on clean relative paths ---------- *)
Lemma split_last_nosep c : nosep c -> split_last c = None.
Proof.
  induction c as [|a c IH]; intros H; [reflexivity|]. simpl. rewrite IH by (intro; apply H; right; auto).
  destruct (N.eqb a sep) eqn:E; auto. apply N.eqb_eq in E. subst. exfalso. apply H. left; auto.
Qed.

Lemma split_last_app_sep c q :
  split_last (c ++ sep :: q) =
  match split_last q with Some (x, y) => Some (c ++ sep :: x, y) | None => Some (c ++ [sep], q) end.
Proof.
  induction c as [|a c IH].
  - simpl. destruct (split_last q) as [[x y]|]; reflexivity.
  - rewrite <- app_comm_cons. simpl. rewrite IH. destruct (split_last q) as [[x y]|]; reflexivity.
Qed.

Lemma joinc_snoc d b : d <> [] -> joinc (d ++ [b]) = joinc d ++ sep :: b.
Proof.
  induction d as [|c d IH]; intros H; [congruence|].
  destruct d as [|c2 d].
  - reflexivity.
  - change ((c :: c2 :: d) ++ [b]) with (c :: ((c2 :: d) ++ [b])).
    rewrite (joinc_cons c ((c2 :: d) ++ [b])) by (simpl; discriminate).
    rewrite IH by discriminate.
    rewrite (joinc_cons c (c2 :: d)) by discriminate. rewrite <- app_assoc. reflexivity.
Qed.

Lemma split_last_joinc d b : Forall nosep (d ++ [b]) ->
  split_last (joinc (d ++ [b])) = match d with [] => None | _ => Some (joinc d ++ [sep], b) end.
Proof.
  intros H. apply Forall_app in H. destruct H as [Hd Hb]. inversion Hb; subst.
  destruct d as [|c d]; [simpl; apply split_last_nosep; auto|].
  rewrite joinc_snoc by discriminate. remember (c :: d) as d0.
  clear Heqd0 c d Hb. revert H1. generalize (joinc d0). intros j Hb.
  assert (G : forall j, split_last (j ++ sep :: b) = Some (j ++ [sep], b)).
  { induction j0 as [|a j0 IH]; simpl.
    - rewrite split_last_nosep by auto. reflexivity.
    - rewrite IH. reflexivity. }
  apply G.
Qed.

Lemma comps_snoc_sep p : comps (p ++ [sep]) = comps p ++ [[]].
Proof.
  induction p as [|a p IH]; [reflexivity|].
  rewrite <- app_comm_cons. destruct (N.eqb a sep) eqn:E.
  - simpl. rewrite E, IH. reflexivity.
  - rewrite !comps_unfold_nosep by auto. rewrite IH.
    destruct (comps p) eqn:Ec; [exfalso; eapply comps_nonempty; eauto|reflexivity].
Qed.

Lemma okc_prefix d b : d <> [] -> okc (d ++ [b]) -> okc d.
Proof.
  intros Hne (_ & Hn & Hs). apply Forall_app in Hn, Hs. destruct Hn, Hs. repeat split; auto.
Qed.

Lemma cstep_empty rooted stk : cstep rooted stk [] = stk. Proof. reflexivity. Qed.

Lemma dir_joinc d b : okc (d ++ [b]) ->
  dir (joinc (d ++ [b])) = match d with [] => s_dot | _ => joinc d end.
Proof.
  intros H. pose proof H as (_ & Hn & Hs). unfold dir. rewrite split_last_joinc by auto.
  destruct d as [|c d]; [reflexivity|]. lazy beta iota.
  remember (c :: d) as d0. assert (Hd0 : d0 <> []) by (subst; discriminate).
  pose proof (okc_prefix _ _ Hd0 H) as Hok. pose proof Hok as (_ & Hn0 & Hs0).
  destruct (okc_first_byte _ Hok) as (a & r & E & Ha).
  unfold clean. assert (Habs : is_abs (joinc d0 ++ [sep]) = false) by (rewrite E; simpl; apply N.eqb_neq; auto).
  rewrite Habs, comps_snoc_sep. rewrite (comps_joinc d0 Hd0 Hs0).
  rewrite fold_left_app. rewrite (fold_cstep_normal false d0 [] Hn0). rewrite app_nil_r.
  cbn [fold_left]. rewrite !cstep_empty. rewrite rev_involutive.
  rewrite E. reflexivity.
Qed.

Lemma strip_trailing_seps_id p x : x <> sep -> strip_trailing_seps (p ++ [x]) = p ++ [x].
Proof.
  intros H. unfold strip_trailing_seps. rewrite rev_app_distr. simpl.
  apply N.eqb_neq in H. rewrite H. simpl. rewrite rev_involutive. reflexivity.
Qed.

Lemma base_split p pre x : p = pre ++ [x] -> x <> sep ->
  base p = match split_last p with Some (_, b) => b | None => p end.
Proof.
  intros Hp Hx. unfold base.
  assert (Hst : strip_trailing_seps p = p) by (rewrite Hp; apply strip_trailing_seps_id; auto).
  rewrite Hst. destruct p; [destruct pre; discriminate|reflexivity].
Qed.

Lemma base_joinc d b : okc (d ++ [b]) -> base (joinc (d ++ [b])) = b.
Proof.
  intros H. pose proof H as (_ & Hn & Hs).
  assert (Hb : normal b /\ nosep b).
  { apply Forall_app in Hn, Hs. destruct Hn as [_ Hn], Hs as [_ Hs]. inversion Hn; inversion Hs; auto. }
  destruct Hb as [(Hbne & _) Hbs].
  destruct b as [|x bp _] using rev_ind; [congruence|].
  assert (Hx : x <> sep) by (intro; subst; apply Hbs; apply in_or_app; right; left; auto).
  assert (Hp : exists pre, joinc (d ++ [bp ++ [x]]) = pre ++ [x]).
  { destruct d as [|c d]; [exists bp; reflexivity|].
    rewrite joinc_snoc by discriminate. exists (joinc (c :: d) ++ sep :: bp).
    rewrite <- app_assoc. reflexivity. }
  destruct Hp as [pre Hp].
  etransitivity; [apply (base_split _ pre x Hp Hx)|].
  pose proof (split_last_joinc d (bp ++ [x]) Hs) as Hsl.
  destruct d as [|c d].
  - simpl in Hsl |- *. rewrite Hsl. reflexivity.
  - cbv beta iota in Hsl. rewrite Hsl. reflexivity.
Qed.

Lemma normal_dot_ne c : normal c -> c <> s_dot. Proof. intros (_ & H & _); auto. Qed.
