(* Every file id is served at most once: a counting ("token") invariant over the places
   where an id can be between its registration by the walker and its completion by the
   receive loop.  Used for C08 (no file is completed twice). *)
From Coq Require Import List Arith Bool PeanoNat Lia Permutation.
From FS Require Import Model.Lts Model.LtsExplore Proofs.LtsInv Proofs.LtsSafe Proofs.LtsTerm Proofs.LtsC08.
Import ListNotations.

Definition cnt (id : nat) (l : list nat) : nat := length (filter (Nat.eqb id) l).
Definition is_dend (id : nat) (pk : packet) : bool :=
  match pk with PDataEnd x => Nat.eqb id x | _ => false end.
Definition cntE (id : nat) (l : list packet) : nat := length (filter (is_dend id) l).
Definition held (id : nat) (w : wkpc) : nat :=
  match w with
  | WK_Ctx h | WK_Open h | WK_Read h _ | WK_Lock h _ | WK_Send h _ | WK_LockFin h | WK_SendFin h =>
      b2n (Nat.eqb id h)
  | _ => 0
  end.
Definition rq_h (id : nat) (pc : rqpc) : nat := match pc with RQ_Push x => b2n (Nat.eqb id x) | _ => 0 end.
Definition rl_h (id : nat) (pc : rlpc) : nat := match pc with RL_CloseP x => b2n (Nat.eqb id x) | _ => 0 end.

Definition tok (id : nat) (st : state) : nat :=
  cnt id (sfiles st) + rq_h id (rq_pc st) + cnt id (pipe st) + sumf (held id) (wks st)
  + cntE id (buf_sr st) + rl_h id (rl_pc st) + cnt id (completed st).

Definition sw_bound (st : state) : nat := match sw_pc st with SW_Next => sw_i st | _ => S (sw_i st) end.

Lemma cnt_cons : forall id x l, cnt id (x :: l) = b2n (Nat.eqb id x) + cnt id l.
Proof. intros. unfold cnt. cbn. destruct (Nat.eqb id x); reflexivity. Qed.
Lemma cnt_app : forall id l x, cnt id (l ++ [x]) = cnt id l + b2n (Nat.eqb id x).
Proof. intros. unfold cnt. rewrite filter_app, app_length. cbn. destruct (Nat.eqb id x); reflexivity. Qed.
Lemma cnt_remb_same : forall id l, cnt id (remb id l) = 0.
Proof.
  intros. unfold cnt, remb. induction l; cbn; auto.
  destruct (Nat.eqb_spec id a); cbn; auto. destruct (Nat.eqb_spec id a); try contradiction. cbn. auto.
Qed.
Lemma cnt_remb_other : forall id x l, id <> x -> cnt id (remb x l) = cnt id l.
Proof.
  intros id x l N. unfold cnt, remb. induction l; cbn; auto.
  destruct (Nat.eqb_spec x a); cbn.
  - subst. destruct (Nat.eqb_spec id a); try contradiction. auto.
  - destruct (Nat.eqb id a); cbn; auto.
Qed.
Lemma cnt_memb : forall id l, memb id l = true -> 1 <= cnt id l.
Proof.
  intros id l H. unfold cnt. induction l.
  - discriminate.
  - rewrite memb_cons in H. cbn. destruct (Nat.eqb id a); cbn; [lia|]. apply IHl. exact H.
Qed.
Lemma cntE_cons : forall id x l, cntE id (x :: l) = b2n (is_dend id x) + cntE id l.
Proof. intros. unfold cntE. cbn. destruct (is_dend id x); reflexivity. Qed.
Lemma cntE_app : forall id l x, cntE id (l ++ [x]) = cntE id l + b2n (is_dend id x).
Proof. intros. unfold cntE. rewrite filter_app, app_length. cbn. destruct (is_dend id x); reflexivity. Qed.

Arguments cnt : simpl never.
Arguments cntE : simpl never.

(* one step changes the token count of an id by at most the registration of a fresh id *)
Lemma tok_step : forall id p st l st', step p st l = Some st' ->
  sw_bound st <= sw_bound st' /\
  (tok id st' <= tok id st \/
   (sw_pc st = SW_Next /\ id = sw_i st /\ tok id st' = S (tok id st) /\ sw_bound st' = S (sw_i st))).
Proof.
  intros id p st l st' H.
  destruct l; unfold_steps H; step_split H; inv_some; subst;
  repeat match goal with w : writer |- _ => destruct w; cbn in * end; subst;
  unfold tok, sw_bound, setw, setwr, s_fail, r_fail, d_fail, eg_fail, rl_fail, dl_fail, wr_fail; cbn;
  repeat match goal with E : ?f ?s = ?v |- context [?f ?s] => rewrite E end; cbn;
  try match goal with E : nth_error ?l ?j = Some ?w |- context [sumf ?f (set_nth ?j ?x ?l)] =>
        let X := fresh "X" in pose proof (sumf_set_nth _ f l j w x E) as X; cbn [held] in X end;
  rewrite ?cnt_cons, ?cnt_app, ?cntE_cons, ?cntE_app; cbn [is_dend b2n].
  all: try (split; [lia | left; lia]).
  all: try (split; [lia|]; destruct (Nat.eqb_spec id (sw_i st)); cbn; [right; repeat split; auto; lia | left; lia]).
  all: try (split; [lia|]; left; destruct (Nat.eqb id h); cbn in *; lia).
  all: try (split; [lia|]; left;
            match goal with M : memb ?x (sfiles _) = true |- _ =>
              destruct (Nat.eqb_spec id x);
              [ subst; rewrite cnt_remb_same; pose proof (cnt_memb _ _ M); cbn; lia
              | rewrite cnt_remb_other by auto; cbn; lia ] end).
  all: try (split; [lia|]; left; destruct (Nat.eqb id id0); cbn in *; lia).
  all: try (split; [lia|]; left; destruct (Nat.eqb id n); cbn in *; lia).
Qed.

Definition tokinv (st : state) : Prop :=
  (forall id, sw_bound st <= id -> tok id st = 0) /\ (forall id, tok id st <= 1).

Lemma sumf_repeat_idle : forall id n, sumf (held id) (repeat WK_Idle n) = 0.
Proof. induction n; cbn; auto. Qed.

Lemma tokinv_init : forall p, tokinv (init p).
Proof.
  intro p. assert (Z: forall id, tok id (init p) = 0).
  { intro id. unfold tok. cbn. rewrite sumf_repeat_idle. reflexivity. }
  split; intros; rewrite Z; lia.
Qed.

Lemma tokinv_step : forall p st l st', tokinv st -> step p st l = Some st' -> tokinv st'.
Proof.
  intros p st l st' (I1 & I2) H. split; intros id.
  - intro B. destruct (tok_step id _ _ _ _ H) as (Bd & [Le|(Pc & Eq & _ & Bs)]).
    + assert (tok id st = 0) by (apply I1; lia). lia.
    + exfalso. subst id. rewrite Bs in B. lia.
  - destruct (tok_step id _ _ _ _ H) as (_ & [Le|(Pc & Eq & E & _)]).
    + specialize (I2 id). lia.
    + assert (tok id st = 0). { apply I1. unfold sw_bound. rewrite Pc. lia. } lia.
Qed.

Lemma tokinv_reachable : forall p st, reachable p st -> tokinv st.
Proof. induction 1. apply tokinv_init. eapply tokinv_step; eauto. Qed.

Lemma cnt_le1_nodup : forall l, (forall id, cnt id l <= 1) -> NoDup l.
Proof.
  induction l; intro H.
  - constructor.
  - constructor.
    + intro X. specialize (H a). rewrite cnt_cons, Nat.eqb_refl in H. cbn in H.
      assert (1 <= cnt a l) by (apply cnt_memb; apply memb_true_iff; auto). lia.
    + apply IHl. intro id. specialize (H id). rewrite cnt_cons in H. lia.
Qed.

(* no file is completed twice *)
Lemma completed_nodup_proof : forall p st, reachable p st -> NoDup (completed st).
Proof.
  intros p st R. destruct (tokinv_reachable _ _ R) as [_ I2].
  apply cnt_le1_nodup. intro id. specialize (I2 id). unfold tok in I2. lia.
Qed.

Lemma success_completed_permutation_proof : forall p st, reachable p st -> recv_ret st = Some true ->
  Permutation (completed st) (need_ids p).
Proof.
  intros p st R Ok. apply NoDup_Permutation.
  - eapply completed_nodup_proof; eauto.
  - apply need_ids_from_nodup.
  - intro id. destruct (success_outcome_proof _ _ R Ok id) as [A _].
    rewrite <- A. symmetry. apply memb_true_iff.
Qed.
