(* C01 — sync convergence of the level-A receiver model: the destination map left by
   receive_abs (Model/AbsDest.v), seen through [view_of], satisfies the convergence relation
   [approx] of Model/Converge.v with respect to the source listing.
   Built on receive_fresh_proof (Proofs/ReceiveP.v, C02/C05) for identity keys, bytes and
   in-place entries; the exact stat of re-created entries and the whole hard-link partition
   (inode classes) come from the generic invariants of Proofs/ApplyInoP.v. *)
From Coq Require Import List NArith Lia Bool Sorting.Sorted.
From FS Require Import Sx Model.Path Model.Stat Model.Diff Model.AbsDest Model.Converge Model.ConvergeA
  Proofs.Lex Proofs.PathP Proofs.DiffP Proofs.DiffSpecP Proofs.AbsDestP Proofs.ReceiveP Proofs.ApplyInoP Proofs.OracleP.
Import ListNotations.
Open Scope N_scope.
Open Scope bool_scope.

Notation idf := (fun s : stat => s).

(* ---------------------------------------------------------------- small bridges *)
Lemma bytes_eqb_sym a b : bytes_eqb a b = bytes_eqb b a.
Proof.
  destruct (bytes_eqb a b) eqn:E.
  - apply bytes_eqb_eq in E. subst. symmetry. apply bytes_eqb_refl.
  - apply bytes_eqb_neq in E. symmetry. apply bytes_eqb_neq. congruence.
Qed.

Lemma find_obs_view_of p D : find_obs p (view_of D) = option_map (obs_of_dentry p) (alookup p D).
Proof.
  induction D as [|[k v] D IH]; [reflexivity|].
  simpl view_of. simpl find_obs. rewrite alookup_cons, bytes_eqb_sym.
  destruct (bytes_eqb k p) eqn:E.
  - apply bytes_eqb_eq in E. subst. reflexivity.
  - exact IH.
Qed.

Lemma compare_stat_fields a b : compare_stat a b = true ->
  st_mode a = st_mode b /\ st_uid a = st_uid b /\ st_gid a = st_gid b /\
  st_devmajor a = st_devmajor b /\ st_devminor a = st_devminor b /\ st_linkname a = st_linkname b.
Proof.
  unfold compare_stat. rewrite !andb_true_iff, !N.eqb_eq, bytes_eqb_eq. tauto.
Qed.

Lemma same_file_fields d a b : same_file d a b = true ->
  d = DMetadata /\ compare_stat a b = true /\
  (st_is_dir a = false -> st_size a = st_size b /\ st_mtime a = st_mtime b).
Proof.
  destruct d; simpl; [|discriminate]. destruct (st_is_dir a); simpl.
  - intros H. split; auto. split; auto. discriminate.
  - destruct (N.eqb_spec (st_size a) (st_size b)); simpl; [|discriminate].
    destruct (N.eqb_spec (st_mtime a) (st_mtime b)); simpl; [|discriminate]. auto.
Qed.

Lemma same_file_intro a b :
  compare_stat a b = true -> (st_is_dir a = false -> st_size a = st_size b /\ st_mtime a = st_mtime b) ->
  same_file DMetadata a b = true.
Proof.
  intros Hc Hn. simpl. destruct (st_is_dir a); simpl; auto.
  destruct (Hn eq_refl) as [-> ->]. rewrite !N.eqb_refl. simpl. exact Hc.
Qed.

Lemma is_hardlink_cong a b : st_mode a = st_mode b -> st_linkname a = st_linkname b ->
  is_hardlink a = is_hardlink b.
Proof.
  intros Em El. unfold is_hardlink, is_node, st_is_dir. rewrite Em, El. reflexivity.
Qed.

Lemma is_reg_cong a b : st_mode a = st_mode b -> AbsDest.is_reg a = AbsDest.is_reg b.
Proof. intros Em. unfold AbsDest.is_reg, st_is_dir, is_special. rewrite Em. reflexivity. Qed.

(* (name kept; since hard links of devices and fifos: a further name of ANY non-directory,
   non-symlink inode) *)
Lemma is_hardlink_reg s : is_hardlink s = true -> is_node s = true /\ st_linkname s <> [].
Proof. apply is_hardlink_node. Qed.

Lemma is_node_cong a b : st_mode a = st_mode b -> is_node a = is_node b.
Proof. apply is_node_mode_eq. Qed.

(* Converge.is_linkable (type neither S_IFDIR nor S_IFLNK) is AbsDest.is_node *)
Lemma conv_linkable_node s : Converge.is_linkable s = true -> is_node s = true.
Proof.
  unfold Converge.is_linkable, is_node, st_is_dir, mode_is_dir, mode_is_symlink, unix_type_of_gomode.
  destruct (has_bits (st_mode s) ModeDir); [discriminate|].
  destruct (has_bits (st_mode s) ModeSymlink); [discriminate|]. reflexivity.
Qed.

Lemma nolink_not_hardlink s : st_linkname s = [] -> is_hardlink s = false.
Proof. intros E. unfold is_hardlink. rewrite E. simpl. apply andb_false_r. Qed.

(* Converge.is_reg (st_mode type S_IFREG) is the narrower notion *)
Lemma conv_reg_abs_reg s : Converge.is_reg s = true -> AbsDest.is_reg s = true.
Proof.
  unfold Converge.is_reg. rewrite N.eqb_eq. intros H. apply unix_type_reg in H.
  destruct H as (H1 & H2 & H3 & H4).
  unfold AbsDest.is_reg, st_is_dir, mode_is_dir, is_special, mode_is_symlink. rewrite H1, H2, H3, H4. reflexivity.
Qed.

Lemma links_canon_ok B : links_canon B -> AbsDest.links_ok B.
Proof.
  intros H sb bb Hin Hl. destruct (H sb bb Hin Hl) as (st & bt & H1 & H2 & H3 & H4 & _ & Hm & H5).
  exists st, bt. repeat split; auto. intros Hr. rewrite (is_reg_cong st sb); auto. apply Hm.
Qed.

(* canonical links are honest: a link entry carries the metadata of the entry it names
   (hypothesis AbsDest.links_meta of receive_fresh_proof, C02/C05) *)
Lemma links_canon_meta B : sorted (map fst B) -> links_canon B -> AbsDest.links_meta B.
Proof.
  intros HS H sb bb st bt Hin Hl Ht Ep.
  destruct (H sb bb Hin Hl) as (st' & bt' & H1 & H2 & _ & _ & _ & Hm & _).
  assert (st' = st).
  { apply (sorted_unique (map fst B)); auto; [apply (in_map fst _ _ H1)|apply (in_map fst _ _ Ht)|congruence]. }
  subst st'. exact Hm.
Qed.

Lemma link_meta_eqb_iff t s : link_meta_eqb t s = true <-> link_meta_eq t s.
Proof. unfold link_meta_eqb, link_meta_eq. rewrite !andb_true_iff, !N.eqb_eq, DiffSpecP.xattrs_eqb_eq. tauto. Qed.

Lemma links_canon_b_sound B : links_canon_b B = true -> links_canon B.
Proof.
  unfold links_canon_b, links_canon. rewrite forallb_forall. intros H sb bb Hin Hl.
  specialize (H _ Hin). simpl in H. rewrite Hl in H. simpl in H.
  apply existsb_exists in H. destruct H as ([st bt] & Ht & Hc). simpl in Hc.
  rewrite !andb_true_iff in Hc. destruct Hc as [[[[[H1 H2] H3] H4] H5] H6].
  apply bytes_eqb_eq in H1, H6. apply path_ltb_iff in H2. apply link_meta_eqb_iff in H5.
  exists st, bt. repeat split; auto; try apply H5. destruct (st_linkname st); [reflexivity|discriminate].
Qed.

Lemma wf_entries_b_sound E : wf_entries_b E = true -> wf_entries E.
Proof.
  unfold wf_entries_b, wf_entries. rewrite andb_true_iff. intros [H1 H2]. split.
  - apply listing_ok_b_iff; auto.
  - apply links_canon_b_sound; auto.
Qed.

(* ---------------------------------------------------------------- the old destination: inode classes *)
Lemma dest_from_nonlink_ge : forall A i seen p e,
  alookup p (dest_from A i seen) = Some e -> is_hardlink (de_stat e) = false -> i <= de_ino e.
Proof.
  induction A as [|[st bs] A IH]; intros i seen p e He Hn; [discriminate|].
  simpl dest_from in He. rewrite alookup_cons in He. destruct (bytes_eqb (st_path st) p).
  - inversion He; subst. simpl in *. rewrite Hn. lia.
  - specialize (IH _ _ _ _ He Hn). lia.
Qed.

Lemma dest_from_nonlink_inj : forall A i seen, nonlink_inj (dest_from A i seen).
Proof.
  induction A as [|[st bs] A IH]; intros i seen p q e1 e2 Hpq H1 H2 L1 L2; [discriminate|].
  simpl dest_from in H1, H2. rewrite alookup_cons in H1, H2.
  destruct (bytes_eqb (st_path st) p) eqn:Ep, (bytes_eqb (st_path st) q) eqn:Eq.
  - apply bytes_eqb_eq in Ep, Eq. congruence.
  - inversion H1; subst. simpl in *. rewrite L1. pose proof (dest_from_nonlink_ge _ _ _ _ _ H2 L2). lia.
  - inversion H2; subst. simpl in *. rewrite L2. pose proof (dest_from_nonlink_ge _ _ _ _ _ H1 L1). lia.
  - eapply IH; eauto.
Qed.

Lemma dest_of_ino_lt A : ino_lt (dest_of A) (N.of_nat (length A)).
Proof. intros p e. apply dest_of_ino_bound. Qed.

(* a link entry after its target: the class recorded for the target is found in [seen] *)
Lemma dest_from_link_seen : forall A i (seen : amap N) sb bb j,
  In (sb, bb) A -> is_hardlink sb = true -> alookup (st_linkname sb) seen = Some j ->
  NoDup (map (fun e => st_path (fst e)) A) ->
  (forall e, In e A -> st_path (fst e) <> st_linkname sb) ->
  exists e, alookup (st_path sb) (dest_from A i seen) = Some e /\ de_ino e = j.
Proof.
  induction A as [|[st bs] A IH]; intros i seen sb bb j Hin Hl Hs Hnd Hno; [destruct Hin|].
  simpl in Hnd. inversion Hnd as [|? ? Hni Hnd']; subst.
  simpl dest_from. rewrite alookup_cons. destruct Hin as [E|Hin].
  - inversion E; subst. rewrite bytes_eqb_refl, Hl, Hs. eexists. split; [reflexivity|reflexivity].
  - assert (Hne : st_path st <> st_path sb).
    { intros E. apply Hni. rewrite E. apply (in_map (fun e => st_path (fst e)) _ _ Hin). }
    apply bytes_eqb_neq in Hne. rewrite Hne.
    apply (IH (i + 1) _ sb bb j); auto.
    + rewrite alookup_cons.
      assert (Hne2 : st_path st <> st_linkname sb) by (apply (Hno (st, bs)); left; auto).
      apply bytes_eqb_neq in Hne2. rewrite Hne2. exact Hs.
    + intros e He. apply Hno. right; auto.
Qed.

Lemma dest_from_link : forall A1 A2 i seen st bt sb bb,
  NoDup (map (fun e => st_path (fst e)) (A1 ++ (st, bt) :: A2)) ->
  is_hardlink st = false -> In (sb, bb) A2 -> is_hardlink sb = true -> st_linkname sb = st_path st ->
  exists t e, alookup (st_path st) (dest_from (A1 ++ (st, bt) :: A2) i seen) = Some t /\
              alookup (st_path sb) (dest_from (A1 ++ (st, bt) :: A2) i seen) = Some e /\
              de_ino e = de_ino t.
Proof.
  induction A1 as [|[s0 b0] A1 IH]; intros A2 i seen st bt sb bb Hnd Hn Hin Hl El.
  - simpl app. simpl dest_from. rewrite Hn. simpl in Hnd. inversion Hnd as [|? ? Hni Hnd']; subst.
    rewrite !alookup_cons, bytes_eqb_refl.
    assert (Hne : st_path st <> st_path sb).
    { intros E. apply Hni. rewrite E. apply (in_map (fun e => st_path (fst e)) _ _ Hin). }
    apply bytes_eqb_neq in Hne. rewrite Hne.
    destruct (dest_from_link_seen A2 (i + 1) ((st_path st, i) :: seen) sb bb i Hin Hl) as (e & He & Ei); auto.
    + rewrite El, alookup_cons, bytes_eqb_refl. reflexivity.
    + intros e He E. apply Hni. rewrite El in E. rewrite <- E. apply (in_map (fun e => st_path (fst e)) _ _ He).
    + eexists. exists e. split; [reflexivity|]. split; auto.
  - simpl app in *. simpl dest_from. simpl in Hnd. inversion Hnd as [|? ? Hni Hnd']; subst.
    rewrite !alookup_cons.
    assert (H1 : st_path s0 <> st_path st).
    { intros E. apply Hni. rewrite E. apply (in_map (fun e => st_path (fst e)) _ (st, bt)). apply in_or_app. right; left; auto. }
    assert (H2 : st_path s0 <> st_path sb).
    { intros E. apply Hni. rewrite E. apply (in_map (fun e => st_path (fst e)) _ (sb, bb)). apply in_or_app. right; right; auto. }
    apply bytes_eqb_neq in H1, H2. rewrite H1, H2. apply (IH A2 _ _ st bt sb bb); auto.
Qed.

Lemma sorted_nodup_paths (E : list AbsDest.entry) :
  sorted (map fst E) -> NoDup (map (fun e => st_path (fst e)) E).
Proof.
  induction E as [|e E IH]; simpl; intros HS; [constructor|].
  apply sorted_inv in HS. destruct HS as [HS Hlt]. constructor; auto.
  intros Hin. apply in_map_iff in Hin. destruct Hin as (e' & Ep & He').
  specialize (Hlt (fst e') (in_map fst _ _ He')). unfold plt in Hlt.
  rewrite Ep, compare_path_refl in Hlt. discriminate.
Qed.

Lemma sorted_split_after (E : list AbsDest.entry) x y :
  sorted (map fst E) -> In x E -> In y E -> compare_path (st_path (fst x)) (st_path (fst y)) = Lt ->
  exists E1 E2, E = E1 ++ x :: E2 /\ In y E2.
Proof.
  intros HS Hx Hy Hlt. apply in_split in Hx. destruct Hx as (E1 & E2 & ->). exists E1, E2. split; auto.
  apply in_app_or in Hy. destruct Hy as [Hy|[<-|Hy]]; auto; exfalso.
  - rewrite map_app in HS. simpl in HS. apply sorted_app_inv in HS. destruct HS as (_ & _ & H12).
    specialize (H12 (fst y) (fst x) (in_map fst _ _ Hy) (or_introl eq_refl)). unfold plt in H12.
    eapply compare_path_asym; eauto.
  - rewrite compare_path_refl in Hlt. discriminate.
Qed.

(* in the old destination a canonical link entry shows the class of its target *)
Lemma dest_of_link A sb bb st bt :
  sorted (map fst A) -> In (sb, bb) A -> In (st, bt) A -> is_hardlink sb = true ->
  st_linkname sb = st_path st -> st_linkname st = [] -> compare_path (st_path st) (st_path sb) = Lt ->
  exists t e, alookup (st_path st) (dest_of A) = Some t /\ alookup (st_path sb) (dest_of A) = Some e /\
              de_ino e = de_ino t.
Proof.
  intros HS Hb Ht Hl El En Hlt.
  destruct (sorted_split_after A (st, bt) (sb, bb) HS Ht Hb Hlt) as (A1 & A2 & -> & Hin).
  apply dest_from_link with (bb := bb) (bt := bt); auto.
  - apply sorted_nodup_paths; auto.
  - apply nolink_not_hardlink; auto.
Qed.

(* ---------------------------------------------------------------- the main theorem, fresh / dirty mode *)
Section Fresh.
Variable H : bytes -> bytes.
Variable hdr : stat -> bytes.
Variable d : differ.
Variables A B : list AbsDest.entry.
Notation LA := (map fst A).
Notation LB := (map fst B).
Hypothesis HwA : wf_listing LA.
Hypothesis HwB : wf_listing LB.
Hypothesis HlA : links_canon A.
Hypothesis HlB : links_canon B.
Hypothesis Hfaith : AbsDest.identity_faithful d A B.

Let r := receive_abs H hdr Fresh d A B.
Let R := ds_map r.
Let n0 := N.of_nat (length A).

Lemma fresh_run :
  exists nR, apply_all (src_of B) (diff idf d LA LB) (dest_of A) n0 = (R, nR, diff idf d LA LB, false).
Proof.
  destruct (apply_all (src_of B) (diff idf d LA LB) (dest_of A) n0) as [[[D n] dn] e] eqn:E.
  pose proof (receive_abs_unfold H hdr d A B Fresh D n dn e E) as Hu. cbv zeta in Hu.
  destruct (receive_fresh_proof H hdr d A B HwA HwB (links_canon_ok _ HlB) Hfaith (links_canon_meta _ (proj1 HwB) HlB)) as (He & Hc & _).
  cbv zeta in He, Hc. rewrite Hu in He, Hc. simpl in He, Hc. subst e dn.
  exists n. unfold R, r. rewrite Hu. reflexivity.
Qed.

Lemma fresh_view p : view_equiv (alookup p R) (efind p B).
Proof.
  destruct (receive_fresh_proof H hdr d A B HwA HwB (links_canon_ok _ HlB) Hfaith (links_canon_meta _ (proj1 HwB) HlB)) as (_ & _ & Hv & _).
  apply Hv.
Qed.

Lemma fresh_unchanged p : unchanged d A B p -> alookup p R = alookup p (dest_of A).
Proof.
  destruct (receive_fresh_proof H hdr d A B HwA HwB (links_canon_ok _ HlB) Hfaith (links_canon_meta _ (proj1 HwB) HlB)) as (_ & _ & _ & Hu & _).
  apply Hu.
Qed.

Lemma fresh_nonlink_inj : nonlink_inj R.
Proof.
  destruct fresh_run as [nR E].
  destruct (apply_all_inv _ _ _ _ _ _ _ _ E (dest_of_ino_lt A) (dest_from_nonlink_inj A 0 [])) as (_ & _ & Hi).
  exact Hi.
Qed.

(* every source entry is either unchanged (in place) or the subject of an add/modify *)
Lemma fresh_cases b : In b LB ->
  (exists a, In a LA /\ st_path a = st_path b /\ same_file d a b = true) \/
  (exists k, k <> KDelete /\ In (k, st_path b, Some b) (diff idf d LA LB)).
Proof.
  intros Hb. destruct HwA as [HsA HcA], HwB as [HsB HcB].
  destruct (lookup (st_path b) LA) as [a|] eqn:El.
  - apply lookup_some in El. destruct El as [Ha Ea].
    destruct (same_file d a b) eqn:Es; [left; exists a; auto|].
    right. exists KModify. split; [discriminate|].
    apply diff_changes_exact_proof; auto. simpl. split; auto. split; auto. exists a. auto.
  - right. exists KAdd. split; [discriminate|].
    apply diff_changes_exact_proof; auto. simpl. split; auto. split; auto.
    exact (lookup_none _ _ El).
Qed.

(* a re-created entry holds exactly the source's stat — except a hard link, which shows the
   metadata of the inode it joined (AbsDest.link_stat) under its own path *)
Lemma fresh_changed k b : k <> KDelete -> In (k, st_path b, Some b) (diff idf d LA LB) ->
  exists e, alookup (st_path b) R = Some e /\ (is_hardlink b = false -> de_stat e = b) /\
    (is_hardlink b = true -> compare_path (st_linkname b) (st_path b) = Lt ->
       exists t, alookup (st_linkname b) R = Some t /\ de_ino e = de_ino t /\
                 de_stat e = link_stat (de_stat t) b).
Proof.
  intros Hk Hin. destruct fresh_run as [nR E]. destruct HwA as [HsA HcA], HwB as [HsB HcB].
  destruct (changed_final _ _ _ _ _ _ _ _ _ _ (diff_sorted_proof idf d LA LB HsA HsB HcB (fun s => eq_refl)) E Hin Hk)
    as (e & He & Es & Hl & _).
  exists e. split; auto. split; auto. intros Hh Hlt. destruct (Hl Hh Hlt) as (t & Ht & _ & Ei & _ & Est). eauto.
Qed.

Lemma B_entry s c : In (s, c) B -> efind (st_path s) B = Some (s, c).
Proof. intros Hin. destruct HwB as [HsB _]. apply (efind_in_sorted B (s, c) HsB Hin). Qed.

Lemma fresh_at s c : In (s, c) B ->
  exists x, alookup (st_path s) R = Some x /\ same_file DMetadata (de_stat x) s = true /\
            (AbsDest.is_reg s = true -> de_bytes x = c).
Proof.
  intros Hin. pose proof (fresh_view (st_path s)) as Hv. rewrite (B_entry _ _ Hin) in Hv.
  destruct (alookup (st_path s) R) as [x|]; [|destruct Hv]. exists x. simpl in Hv. tauto.
Qed.

(* created_by_transfer (absent from the prior listing, or another type there) => the entry is the
   subject of an add/modify, hence re-created with exactly the source's stat *)
Lemma fresh_created_change s c : In (s, c) B -> created_by_transfer A s = true ->
  exists k, k <> KDelete /\ In (k, st_path s, Some s) (diff idf d LA LB).
Proof.
  intros Hin Hc. assert (Hb : In s LB) by (apply (in_map fst _ _ Hin)).
  destruct (fresh_cases s Hb) as [(a & Ha & Ea & Es)|(k & Hk & Hd)]; [|eauto].
  exfalso. unfold created_by_transfer in Hc.
  destruct (find_entry (st_path s) A) as [[ps pc]|] eqn:Ef.
  - apply find_entry_some in Ef. destruct Ef as [Hps Ep]. simpl in Ep.
    assert (ps = a).
    { destruct HwA as [HsA _]. apply (sorted_unique LA); auto; [apply (in_map fst _ _ Hps)|congruence]. }
    subst ps. apply negb_true_iff in Hc. unfold same_type in Hc.
    rewrite (same_file_mode _ _ _ Es), N.eqb_refl in Hc. discriminate.
  - apply in_map_iff in Ha. destruct Ha as ([a' ba] & E1 & Ha). simpl in E1. subst a'.
    eapply (find_entry_none _ _ Ef (a, ba)); eauto.
Qed.

Lemma fresh_created s c : In (s, c) B -> created_by_transfer A s = true -> is_hardlink s = false ->
  exists e, alookup (st_path s) R = Some e /\ de_stat e = s.
Proof.
  intros Hin Hc Hn. destruct (fresh_created_change s c Hin Hc) as (k & Hk & Hd).
  destruct (fresh_changed k s Hk Hd) as (e & He & Es & _). eauto.
Qed.

(* ... also for a hard link whose whole inode the transfer created: the first name of its group
   was re-created with the source's stat, and a canonical link entry carries the same metadata *)
Lemma fresh_created_inode s c : In (s, c) B -> inode_created A B s = true ->
  Converge.is_reg s = true \/ is_hardlink s = false ->
  exists e, alookup (st_path s) R = Some e /\ de_stat e = s.
Proof.
  intros Hin Hic Hty. unfold inode_created in Hic. apply andb_true_iff in Hic. destruct Hic as [Hc1 Hc2].
  destruct (is_hardlink s) eqn:Hh; [|apply (fresh_created s c); auto].
  destruct Hty as [Hcreg|?]; [|discriminate]. rewrite Hcreg in Hc2.
  pose proof HwB as [HsB HcB].
  destruct (HlB s c Hin Hh) as (st & bt & Hst & Ep & Hlt & _ & Ent & Hmeta & _).
  destruct (is_hardlink_reg _ Hh) as [_ Hln].
  destruct (st_linkname s) as [|l0 l] eqn:El; [congruence|].
  destruct (find_entry (l0 :: l) B) as [[t' ct']|] eqn:Ef; [|discriminate].
  apply find_entry_some in Ef. destruct Ef as [Ht' Ep']. simpl in Ep'.
  assert (t' = st).
  { apply (sorted_unique LB); auto; [apply (in_map fst _ _ Ht')|apply (in_map fst _ _ Hst)|congruence]. }
  subst t'.
  destruct (fresh_created st bt Hst Hc2 (nolink_not_hardlink _ Ent)) as (et & Het & Est).
  destruct (fresh_created_change s c Hin Hc1) as (k & Hk & Hd).
  destruct (fresh_changed k s Hk Hd) as (e & He & _ & Hl).
  destruct (Hl Hh) as (t & Ht & _ & Es); [rewrite El, <- Ep; exact Hlt|].
  rewrite El, <- Ep, Het in Ht. inversion Ht; subst t.
  exists e. split; auto. rewrite Es, Est. apply link_stat_honest. exact Hmeta.
Qed.

Lemma fresh_entry_ok s c : In (s, c) B ->
  exists dd, find_obs (st_path s) (view_of R) = Some dd /\ entry_ok (inode_created A B s) s c dd.
Proof.
  intros Hin. destruct (fresh_at s c Hin) as (x & Hx & Hs & Hb).
  exists (obs_of_dentry (st_path s) x). rewrite find_obs_view_of, Hx. split; [reflexivity|].
  destruct (same_file_fields _ _ _ Hs) as (_ & Hc & Hnd).
  destruct (compare_stat_fields _ _ Hc) as (Em & Eu & Eg & Ema & Emi & El).
  assert (Hcr : inode_created A B s = true -> Converge.is_reg s = true \/ is_hardlink s = false -> de_stat x = s).
  { intros Hcr Hty. destruct (fresh_created_inode s c Hin Hcr Hty) as (e & He & Es). rewrite Hx in He. inversion He; subst. auto. }
  unfold entry_ok, obs_of_dentry. cbv zeta. simpl.
  rewrite Em. split; [reflexivity|]. split; [reflexivity|]. split; [reflexivity|].
  split; [auto|]. split; [auto|].
  split.
  { intros Hn. apply Hnd. unfold st_is_dir. rewrite Em.
    destruct (mode_is_dir (st_mode s)) eqn:Ed; auto. exfalso. apply Hn. apply unix_type_dir; auto. }
  split.
  { intros Hty Hcr'. rewrite (Hcr Hcr'); [reflexivity|]. right.
    apply unix_type_dir in Hty. unfold is_hardlink, is_node, st_is_dir. rewrite Hty. reflexivity. }
  split.
  { intros Hr. apply Hb. apply conv_reg_abs_reg. unfold Converge.is_reg. rewrite Hr. apply N.eqb_refl. }
  split; [auto|]. split; [auto|].
  intros Hcr' Hty. rewrite (Hcr Hcr'); [reflexivity|]. destruct Hty as [Hty|Hty].
  - left. unfold Converge.is_reg. rewrite Hty. reflexivity.
  - right. apply unix_type_dir in Hty. unfold is_hardlink, is_node, st_is_dir. rewrite Hty. reflexivity.
Qed.

(* a link entry that is unchanged has an unchanged target: the old listing holds a canonical link
   pair at the same two paths with the same identity keys *)
Lemma unchanged_link_target s c a ba st bt :
  In (s, c) B -> is_hardlink s = true -> In (a, ba) A -> st_path a = st_path s -> same_file d a s = true ->
  In (st, bt) B -> st_path st = st_linkname s -> st_linkname st = [] -> link_meta_eq st s ->
  exists at_ bat, In (at_, bat) A /\ st_path at_ = st_path st /\ same_file d at_ st = true /\
                  is_hardlink a = true /\ st_linkname a = st_path at_ /\ st_linkname at_ = [] /\
                  compare_path (st_path at_) (st_path a) = Lt.
Proof.
  intros Hin Hh Ha Ea Es Ht Ep Ent Hmeta.
  destruct (same_file_fields _ _ _ Es) as (Ed & Hc & Hnd).
  destruct (compare_stat_fields _ _ Hc) as (Em & Eu & Eg & Ema & Emi & Eln).
  assert (Hha : is_hardlink a = true) by (rewrite (is_hardlink_cong a s Em Eln); auto).
  destruct (HlA a ba Ha Hha) as (at_ & bat & Hat & Epa & Hlta & Hrta & Enta & Hma & _).
  destruct Hmeta as (M1 & M2 & M3 & M4 & M5 & M6 & M7 & _).
  destruct Hma as (N1 & N2 & N3 & N4 & N5 & N6 & N7 & _).
  assert (Hda : st_is_dir a = false) by (apply is_node_not_dir; apply is_hardlink_reg; auto).
  destruct (Hnd Hda) as [Esz Emt].
  exists at_, bat. split; auto. split; [congruence|]. split; [|auto].
  rewrite Ed. apply same_file_intro.
  - unfold compare_stat. rewrite N1, N2, N3, N6, N7, Enta, Em, Eu, Eg, Ema, Emi, <- M1, <- M2, <- M3, <- M6, <- M7, Ent.
    rewrite !N.eqb_refl. reflexivity.
  - intros _. rewrite N4, N5, Esz, Emt, M4, M5. auto.
Qed.

(* every entry that is neither a directory nor a symbolic link shows the inode class of the first
   name of its link group, which is not a link *)
Lemma fresh_rep s c x : In (s, c) B -> is_node s = true -> alookup (st_path s) R = Some x ->
  exists t, alookup (group_rep s) R = Some t /\ de_ino t = de_ino x /\ is_hardlink (de_stat t) = false.
Proof.
  intros Hin Hreg Hx. unfold group_rep.
  destruct (st_linkname s) as [|l0 l] eqn:El.
  - exists x. split; auto. split; auto.
    destruct (fresh_at s c Hin) as (x' & Hx' & Hs & _). rewrite Hx in Hx'. inversion Hx'; subst x'.
    destruct (same_file_fields _ _ _ Hs) as (_ & Hc & _).
    destruct (compare_stat_fields _ _ Hc) as (_ & _ & _ & _ & _ & E). apply nolink_not_hardlink. congruence.
  - rewrite <- El.
    assert (Hh : is_hardlink s = true).
    { unfold is_hardlink. rewrite Hreg, El. reflexivity. }
    destruct (HlB s c Hin Hh) as (st & bt & Ht & Ep & Hlt & Hrt & Ent & Hmeta & Eb).
    destruct (fresh_at st bt Ht) as (t & Hxt & Hst & _).
    assert (Htn : is_hardlink (de_stat t) = false).
    { destruct (same_file_fields _ _ _ Hst) as (_ & Hc & _).
      destruct (compare_stat_fields _ _ Hc) as (_ & _ & _ & _ & _ & E). apply nolink_not_hardlink. congruence. }
    rewrite <- Ep. exists t. split; auto. split; auto.
    assert (Hb : In s LB) by (apply (in_map fst _ _ Hin)).
    destruct (fresh_cases s Hb) as [(a & Ha & Ea & Es)|(k & Hk & Hd)].
    + (* the link entry is unchanged: so is its target, and the old map has them in one class *)
      apply in_map_iff in Ha. destruct Ha as ([a' ba] & E1 & Ha). simpl in E1. subst a'.
      destruct (unchanged_link_target s c a ba st bt Hin Hh Ha Ea Es Ht Ep Ent Hmeta)
        as (at_ & bat & Hat & Epa & Hsame & Hha & Ela & Enta & Hlta).
      assert (Hun : unchanged d A B (st_path st)).
      { exists at_, st. split; [apply (in_map fst _ _ Hat)|]. split; [apply (in_map fst _ _ Ht)|]. auto. }
      assert (Hus : unchanged d A B (st_path s)).
      { exists a, s. split; [apply (in_map fst _ _ Ha)|]. split; auto. }
      rewrite (fresh_unchanged _ Hun) in Hxt. rewrite (fresh_unchanged _ Hus) in Hx.
      destruct HwA as [HsA _].
      destruct (dest_of_link A a ba at_ bat HsA Ha Hat Hha Ela Enta Hlta) as (t' & e' & Ht' & He' & Ei).
      rewrite Epa, Hxt in Ht'. rewrite Ea, Hx in He'. inversion Ht'; inversion He'; subst. auto.
    + destruct (fresh_changed k s Hk Hd) as (e & He & _ & Hl).
      rewrite Hx in He. inversion He; subst e.
      destruct (Hl Hh) as (t' & Ht' & Ei & _); [rewrite <- Ep; exact Hlt|].
      rewrite <- Ep, Hxt in Ht'. inversion Ht'; subst. auto.
Qed.

Lemma fresh_partition : link_partition B (view_of R).
Proof.
  intros [s1 c1] [s2 c2] d1 d2 H1 H2 R1 R2 F1 F2. simpl fst in *.
  rewrite find_obs_view_of in F1, F2.
  destruct (alookup (st_path s1) R) as [x1|] eqn:X1; [|discriminate].
  destruct (alookup (st_path s2) R) as [x2|] eqn:X2; [|discriminate].
  simpl in F1, F2. inversion F1; inversion F2; subst d1 d2. simpl o_ino.
  apply conv_linkable_node in R1, R2.
  destruct (fresh_rep s1 c1 x1 H1 R1 X1) as (t1 & T1 & I1 & L1).
  destruct (fresh_rep s2 c2 x2 H2 R2 X2) as (t2 & T2 & I2 & L2).
  rewrite <- I1, <- I2. split.
  - intros Ei. destruct (list_eq_dec N.eq_dec (group_rep s1) (group_rep s2)) as [E|E]; auto.
    exfalso. apply (fresh_nonlink_inj _ _ _ _ E T1 T2 L1 L2 Ei).
  - intros E. rewrite E, T2 in T1. inversion T1; subst. reflexivity.
Qed.

Lemma fresh_nodup_keys : nodup_keys R.
Proof.
  destruct fresh_run as [nR E]. destruct HwA as [HsA _].
  eapply apply_all_nodup_keys; [exact E|].
  unfold nodup_keys, dest_of.
  assert (Hk : forall A0 i seen, map fst (dest_from A0 i seen) = map (fun e => st_path (fst e)) A0).
  { induction A0 as [|[st bs] A0 IH]; intros i seen; simpl; [reflexivity|]. rewrite IH. reflexivity. }
  rewrite Hk. apply sorted_nodup_paths; auto.
Qed.

(* not created: some entry of the same type is listed at the path *)
Lemma not_created_if_same_file a s : In a LA -> st_path a = st_path s -> same_file d a s = true ->
  created_by_transfer A s = false.
Proof.
  intros Ha Ea Es. unfold created_by_transfer.
  destruct (find_entry (st_path s) A) as [[ps pc]|] eqn:Ef.
  - apply find_entry_some in Ef. destruct Ef as [Hps Ep]. simpl in Ep.
    assert (ps = a).
    { destruct HwA as [HsA _]. apply (sorted_unique LA); auto; [apply (in_map fst _ _ Hps)|congruence]. }
    subst ps. apply negb_false_iff. unfold same_type. rewrite (same_file_mode _ _ _ Es). apply N.eqb_refl.
  - exfalso. apply in_map_iff in Ha. destruct Ha as ([a' ba] & E1 & Ha). simpl in E1. subst a'.
    eapply (find_entry_none _ _ Ef (a, ba)); eauto.
Qed.

(* xattrs per inode: when the inode shown at a regular entry was created by this transfer, EVERY
   name of that inode class in the final map carries the xattrs of that entry's stat *)
Lemma fresh_group_xattrs s c x : In (s, c) B -> Converge.is_reg s = true -> inode_created A B s = true ->
  alookup (st_path s) R = Some x ->
  forall q v, In (q, v) R -> de_ino v = de_ino x -> st_xattrs (de_stat v) = st_xattrs s.
Proof.
  intros Hin Hcreg Hic Hx q v Hqv Hino. pose proof (conv_reg_abs_reg _ Hcreg) as Hreg.
  pose proof (nodup_keys_lookup R q v fresh_nodup_keys Hqv) as Hq.
  pose proof HwB as [HsB HcB].
  (* the first name of the group of s *)
  assert (Hrep : exists srep crep erep, In (srep, crep) B /\ st_path srep = group_rep s /\
            created_by_transfer A srep = true /\ alookup (st_path srep) R = Some erep /\
            de_ino erep = de_ino x /\ is_hardlink (de_stat erep) = false /\ st_xattrs srep = st_xattrs s /\
            is_hardlink srep = false).
  { unfold inode_created in Hic. apply andb_true_iff in Hic. destruct Hic as [Hc1 Hc2].
    destruct (fresh_rep s c x Hin (is_reg_is_node _ Hreg) Hx) as (t & Ht & Hit & Htn).
    unfold group_rep in *. destruct (st_linkname s) as [|l0 l] eqn:El.
    - exists s, c, t. repeat split; auto. apply nolink_not_hardlink; auto.
    - assert (Hh : is_hardlink s = true) by (unfold is_hardlink; rewrite (is_reg_is_node _ Hreg), El; reflexivity).
      destruct (HlB s c Hin Hh) as (st & bt & Hst & Ep & _ & _ & Ent & Hmeta & _).
      rewrite El in Ep. rewrite Hcreg in Hc2.
      destruct (find_entry (l0 :: l) B) as [[t' ct']|] eqn:Ef; [|discriminate].
      apply find_entry_some in Ef. destruct Ef as [Ht' Ep']. simpl in Ep'.
      assert (t' = st).
      { apply (sorted_unique LB); auto; [apply (in_map fst _ _ Ht')|apply (in_map fst _ _ Hst)|congruence]. }
      subst t'. exists st, bt, t. rewrite Ep. repeat split; auto; [apply Hmeta|apply nolink_not_hardlink; auto]. }
  destruct Hrep as (srep & crep & erep & Hsrep & EP & Hcr & Herep & Hirep & Hnrep & Exr & Hnl).
  destruct (fresh_created srep crep Hsrep Hcr Hnl) as (e' & He' & Es'). rewrite Herep in He'. inversion He'; subst e'.
  destruct (list_eq_dec N.eq_dec q (st_path srep)) as [Eq|Nq].
  { subst q. rewrite Herep in Hq. inversion Hq; subst v. rewrite Es'. exact Exr. }
  (* another name of that inode: a link entry of the group *)
  pose proof (fresh_view q) as Hv. rewrite Hq in Hv.
  destruct (efind q B) as [[sq cq]|] eqn:Efq; [|destruct Hv]. unfold view_equiv in Hv. destruct Hv as [Hsf _].
  apply efind_some in Efq. destruct Efq as [Hsq Epq]. simpl in Epq.
  destruct (same_file_fields _ _ _ Hsf) as (_ & Hcs & _).
  destruct (compare_stat_fields _ _ Hcs) as (Em & _ & _ & _ & _ & Eln).
  destruct (is_hardlink (de_stat v)) eqn:Hhv.
  2:{ exfalso. apply (fresh_nonlink_inj q (st_path srep) v erep Nq Hq Herep Hhv Hnrep). congruence. }
  assert (Hhq : is_hardlink sq = true) by (rewrite <- (is_hardlink_cong _ _ Em Eln); auto).
  destruct (is_hardlink_reg _ Hhq) as [Hrq Hlnq].
  rewrite <- Epq in Hq.
  destruct (fresh_rep sq cq v Hsq Hrq Hq) as (tq & Htq & Hitq & Hntq).
  assert (Egr : group_rep sq = st_path srep).
  { destruct (list_eq_dec N.eq_dec (group_rep sq) (st_path srep)) as [E|E]; auto. exfalso.
    apply (fresh_nonlink_inj _ _ tq erep E Htq Herep Hntq Hnrep). congruence. }
  destruct (HlB sq cq Hsq Hhq) as (st' & bt' & Hst' & Ep' & Hlt' & _ & Ent' & Hmeta' & _).
  assert (Eg2 : group_rep sq = st_linkname sq).
  { unfold group_rep. destruct (st_linkname sq); [congruence|reflexivity]. }
  assert (st' = srep).
  { apply (sorted_unique LB); auto; [apply (in_map fst _ _ Hst')|apply (in_map fst _ _ Hsrep)|congruence]. }
  subst st'.
  assert (Hb : In sq LB) by (apply (in_map fst _ _ Hsq)).
  destruct (fresh_cases sq Hb) as [(a & Ha & Ea & Es)|(k & Hk & Hd)].
  - exfalso. apply in_map_iff in Ha. destruct Ha as ([a' ba] & E1 & Ha). simpl in E1. subst a'.
    destruct (unchanged_link_target sq cq a ba srep bt' Hsq Hhq Ha Ea Es Hst' Ep' Ent' Hmeta')
      as (at_ & bat & Hat & Epa & Hsame & _).
    rewrite (not_created_if_same_file at_ srep (in_map fst _ _ Hat) Epa Hsame) in Hcr. discriminate.
  - destruct (fresh_changed k sq Hk Hd) as (e & He & _ & Hle). rewrite Hq in He. inversion He; subst e.
    destruct (Hle Hhq) as (t & Ht & _ & Ese); [rewrite <- Ep'; exact Hlt'|].
    rewrite <- Ep', Herep in Ht. inversion Ht; subst t.
    rewrite Ese, Es', (link_stat_honest _ _ Hmeta'). destruct Hmeta' as (_ & _ & _ & _ & _ & _ & _ & Ex'). congruence.
Qed.

Theorem diff_apply_converges_proof : ds_err r = false /\ approx A B (view_of R).
Proof.
  split.
  - destruct (receive_fresh_proof H hdr d A B HwA HwB (links_canon_ok _ HlB) Hfaith (links_canon_meta _ (proj1 HwB) HlB)) as (He & _). exact He.
  - split; [|split].
    + intros p. rewrite find_obs_view_of. pose proof (fresh_view p) as Hv. split.
      * intros [dd Hd]. destruct (alookup p R) as [x|]; [|discriminate].
        destruct (efind p B) as [e|] eqn:Ee; [|destruct Hv]. apply efind_some in Ee. exists e. exact Ee.
      * intros (e & He & Ep). destruct HwB as [HsB _].
        pose proof (efind_in_sorted B e HsB He) as Ef. rewrite Ep in Ef. rewrite Ef in Hv.
        destruct (alookup p R) as [x|]; [|destruct Hv]. simpl. eauto.
    + intros s c Hin. apply fresh_entry_ok; auto.
    + apply fresh_partition.
Qed.

End Fresh.

(* ---------------------------------------------------------------- corollaries *)
(* the model's own result passes the executable oracle the harness applies to the real snapshot *)
Theorem model_passes_oracle_proof H hdr d A B :
  wf_entries A -> wf_entries B -> AbsDest.identity_faithful d A B ->
  converged_o false A B (view_of (ds_map (receive_abs H hdr Fresh d A B))) = true.
Proof.
  intros [HwA HlA] [HwB HlB] Hf. apply oracle_iff_proof.
  apply (diff_apply_converges_proof H hdr d A B HwA HwB HlA HlB Hf).
Qed.

(* a sufficient condition for identity_faithful that every crash state of the writer meets: a
   file of the old destination that does not hold the source's bytes differs from the source's
   entry in size or mtime (a partially written file carries the time of its last write) *)
Lemma faithful_from_stamps d A B :
  (forall sa ba sb bb, In (sa, ba) A -> In (sb, bb) B -> st_path sa = st_path sb -> AbsDest.is_reg sb = true ->
     ba = bb \/ st_size sa <> st_size sb \/ st_mtime sa <> st_mtime sb \/ st_mode sa <> st_mode sb) ->
  AbsDest.identity_faithful d A B.
Proof.
  intros Hs sa ba sb bb Ha Hb Ep Hsf Hr.
  destruct (same_file_fields _ _ _ Hsf) as (_ & Hc & Hnd).
  destruct (compare_stat_fields _ _ Hc) as (Em & _).
  assert (Hda : st_is_dir sa = false).
  { unfold st_is_dir. rewrite Em. apply is_reg_not_dir in Hr. exact Hr. }
  destruct (Hnd Hda) as [Esz Emt].
  destruct (Hs sa ba sb bb Ha Hb Ep Hr) as [E|[E|[E|E]]]; auto; contradiction.
Qed.

(* ---------------------------------------------------------------- identity_faithful is necessary *)
Definition mkst (p : bytes) (mode uid gid size mtime : N) (ln : bytes) : stat :=
  {| st_path := p; st_mode := mode; st_uid := uid; st_gid := gid; st_size := size; st_mtime := mtime;
     st_linkname := ln; st_devmajor := 0; st_devminor := 0; st_xattrs := [] |}.
(* one regular file "f", same size, mtime, mode, owner on both sides — other bytes *)
Definition collide_A : list AbsDest.entry := [ (mkst [102] 420 0 0 3 5 [], [1; 1; 1]) ].
Definition collide_B : list AbsDest.entry := [ (mkst [102] 420 0 0 3 5 [], [2; 2; 2]) ].

Theorem unrestricted_convergence_refuted_proof :
  exists A B, wf_entries A /\ wf_entries B /\
    forall H hdr, let r := receive_abs H hdr Fresh DMetadata A B in
      ds_err r = false /\ ds_reqs r = [] /\ ~ approx A B (view_of (ds_map r)).
Proof.
  exists collide_A, collide_B.
  split; [apply wf_entries_b_sound; vm_compute; reflexivity|].
  split; [apply wf_entries_b_sound; vm_compute; reflexivity|].
  intros H hdr. cbv zeta. split; [vm_compute; reflexivity|]. split; [vm_compute; reflexivity|].
  intros Ha. apply oracle_iff_proof in Ha. vm_compute in Ha. discriminate.
Qed.
