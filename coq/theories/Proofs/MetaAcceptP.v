(* C19 — acceptance by the receiver's validators when the hard-link validator is shown only the
   forwarded entries (repair of the C03 finding): accepted <=> the order validator accepts the
   handled stream and the hard-link validator accepts its SELECTED part; for a stream the sender
   may announce this is exactly link-closedness of the selection; a selection that forwards a
   link without its source is rejected before anything of the link is handed to the writer. *)
From Coq Require Import List NArith Bool Lia.
From FS Require Import Sx Model.Path Model.Stat Model.Validator Model.Hardlinks Model.MetaOnly
  Proofs.Lex Proofs.PathP Proofs.ValidatorP Proofs.MetaOnlyP Proofs.MetaRewriteP.
Import ListNotations.
Open Scope bool_scope.

(* ---- the sequential run = the two validators separately ---- *)
Lemma fr_iff dl : forall stk sp i i1 i2,
  first_reject_d stk sp dl i = None <->
  (vrun stk (map (fun x => vitem_of (snd x)) dl) i1 = None /\ hl_run sp (map snd (filter fst dl)) i2 = None).
Proof.
  induction dl as [|[d s] r IH]; intros stk sp i i1 i2; [cbn; tauto|].
  cbn [first_reject_d map vrun snd fst filter]. destruct (vstep stk (vitem_of s)) as [stk'|].
  - destruct d; cbn [map hl_run snd].
    + destruct (hl_step sp s) as [sp'|]; [apply IH|]. split; [discriminate|intros [_ H]; discriminate].
    + apply IH.
  - split; [discriminate|intros [H _]; discriminate].
Qed.

Lemma filter_deco (sel : stat -> bool) l : map snd (filter fst (map (fun s => (sel s, s)) l)) = filter sel l.
Proof.
  induction l as [|s l IH]; [reflexivity|]. cbn [map filter fst]. destruct (sel s); cbn [map snd]; rewrite IH; reflexivity.
Qed.

Lemma first_reject_iff sel l :
  first_reject sel l = None <-> (valid_stream l /\ hardlink_check (filter sel l) = None).
Proof.
  unfold first_reject, valid_stream, run_validator, hardlink_check.
  rewrite (fr_iff _ vinit [] 0 0 0), map_map, filter_deco. cbn [snd]. reflexivity.
Qed.

Theorem accepts_iff_proof sel stats :
  recv_accepts sel stats = true <->
  (valid_stream (recv_stream stats) /\ hardlink_check (filter sel (recv_stream stats)) = None).
Proof.
  unfold recv_accepts. rewrite <- first_reject_iff. destruct (first_reject sel (recv_stream stats)); split; intros; auto; discriminate.
Qed.

(* ---- rewriting selectors ---- *)
Lemma first_reject_rw_sim sel rw sel' l : (forall s, In s l -> sel' (seen rw s) = sel s) ->
  first_reject_rw sel rw l = first_reject sel' (map (seen rw) l).
Proof.
  intros H. unfold first_reject_rw, first_reject. rewrite map_map. f_equal.
  apply map_ext_in. intros s Hs. rewrite (H s Hs). reflexivity.
Qed.

Theorem accepts_rw_sim_proof sel rw sel' stats : (forall s, In s stats -> sel' (seen rw s) = sel s) ->
  recv_accepts_rw sel rw stats = recv_accepts sel' (map (seen rw) stats).
Proof.
  intros H. unfold recv_accepts_rw, recv_accepts. rewrite recv_stream_seen.
  rewrite (first_reject_rw_sim sel rw sel'); [reflexivity|].
  intros s Hs. apply H. unfold recv_stream in Hs. apply filter_In in Hs. tauto.
Qed.

(* ---- distinct paths ---- *)
Lemma cvalid_unique l : forall acc, cvalid acc l ->
  forall u t, In u l -> In t l -> st_path u = st_path t -> u = t.
Proof.
  induction l as [|s r IH]; intros acc H u t Hu Ht E; [destruct Hu|].
  assert (Hne : forall x, In x r -> st_path s <> st_path x).
  { intros x Hx Ex. pose proof (cvalid_head_lt acc s r H x Hx) as L. unfold cp in L. rewrite Ex, lex_refl in L. discriminate. }
  destruct Hu as [<-|Hu], Ht as [<-|Ht]; auto.
  - exfalso. apply (Hne t Ht E).
  - exfalso. apply (Hne u Hu). symmetry. exact E.
  - destruct H as [_ Hr]. apply (IH _ Hr); auto.
Qed.

Lemma valid_paths_unique l : valid_stream l ->
  forall u t, In u l -> In t l -> st_path u = st_path t -> u = t.
Proof. intros H. apply (cvalid_unique l []). apply valid_stream_cvalid. exact H. Qed.

Lemma cvalid_nodup l : forall acc, cvalid acc l -> NoDup (map st_path l).
Proof.
  induction l as [|s r IH]; intros acc H; [constructor|]. cbn [map]. constructor.
  - intros Hin. apply in_map_iff in Hin. destruct Hin as (x & Ex & Hx).
    pose proof (cvalid_head_lt acc s r H x Hx) as L. unfold cp in L. rewrite Ex, lex_refl in L. discriminate.
  - destruct H as [_ Hr]. apply (IH _ Hr).
Qed.

Lemma valid_nodup l : valid_stream l -> NoDup (map st_path l).
Proof. intros H. apply (cvalid_nodup l []). apply valid_stream_cvalid. exact H. Qed.

Lemma in_firstn {X} (z : X) k : forall l, In z (firstn k l) -> In z l.
Proof.
  induction k as [|k IH]; intros l H; [destruct H|]. destruct l as [|a l]; [destruct H|].
  cbn [firstn] in H. destruct H as [<-|H]; [left; reflexivity|right; apply IH; exact H].
Qed.

Section Accept.
Variable sel : stat -> bool.

(* ---- accepted => every selected link has a selected source ---- *)
Lemma hl_mem_src l : forall sp i, hl_run sp (filter sel l) i = None ->
  forall x, In x l -> sel x = true -> hl_plain x = true -> has_link x = true ->
  mem_bytes (st_linkname x) sp = true \/ exists u, In u l /\ sel u = true /\ st_path u = st_linkname x.
Proof.
  induction l as [|s r IH]; intros sp i H x Hx Hs Hp Hl; [destruct Hx|].
  cbn [filter] in H. destruct (sel s) eqn:Es.
  - cbn [hl_run] in H. destruct (hl_step sp s) as [sp'|] eqn:E; [|discriminate].
    destruct Hx as [<-|Hx].
    + unfold hl_step in E. rewrite Hp, Hl in E. cbn [negb] in E.
      destruct (mem_bytes (st_linkname s) sp) eqn:Em; [left; reflexivity|discriminate].
    + destruct (IH sp' (S i) H x Hx Hs Hp Hl) as [Hm|(u & Hu & Hsu & Eu)].
      * unfold hl_step in E. destruct (negb (hl_plain s)); [inversion E; subst sp'; left; exact Hm|].
        destruct (has_link s).
        -- destruct (mem_bytes (st_linkname s) sp); [|discriminate]. inversion E; subst sp'. left. exact Hm.
        -- inversion E; subst sp'. cbn [mem_bytes] in Hm. apply orb_true_iff in Hm. destruct Hm as [Hm|Hm]; [|left; exact Hm].
           right. exists s. split; [left; reflexivity|]. split; [exact Es|]. apply bytes_eqb_eq in Hm. auto.
      * right. exists u. split; [right; exact Hu|auto].
  - destruct Hx as [<-|Hx]; [rewrite Es in Hs; discriminate|].
    destruct (IH sp i H x Hx Hs Hp Hl) as [Hm|(u & Hu & Hsu & Eu)]; [left; exact Hm|].
    right. exists u. split; [right; exact Hu|auto].
Qed.

Lemma accept_closed l :
  (forall u t, In u l -> In t l -> st_path u = st_path t -> u = t) ->
  hardlink_check (filter sel l) = None -> link_closed sel l = true.
Proof.
  intros Hu H. unfold link_closed. apply forallb_forall. intros x Hx.
  destruct (sel x && hl_plain x && has_link x) eqn:E; [|reflexivity]. cbn [negb orb].
  apply andb_true_iff in E. destruct E as [E Hl]. apply andb_true_iff in E. destruct E as [Hs Hp].
  apply forallb_forall. intros t Ht. destruct (bytes_eqb (st_path t) (st_linkname x)) eqn:Eb; [|reflexivity].
  cbn [negb orb]. apply bytes_eqb_eq in Eb.
  destruct (hl_mem_src l [] 0 H x Hx Hs Hp Hl) as [Hm|(u & Hin & Hsu & Eu)]; [discriminate|].
  rewrite <- (Hu u t Hin Ht); [exact Hsu|]. rewrite Eu, Eb. reflexivity.
Qed.

(* ---- a link-closed selection of a stream the full validator accepts is accepted ---- *)
Lemma closed_accept l : hardlink_check l = None -> link_closed sel l = true -> hardlink_check (filter sel l) = None.
Proof.
  intros H Hlc. unfold hardlink_check in *. apply (hl_filter sel l) with (seen := []) (i := 0); auto;
    try (intros p Hp; cbn in Hp; discriminate).
  intros s Hs Hf Hp Hl t Ht Et. unfold link_closed in Hlc. rewrite forallb_forall in Hlc.
  specialize (Hlc s Hs). rewrite Hf, Hp, Hl in Hlc. cbn in Hlc. rewrite forallb_forall in Hlc. specialize (Hlc t Ht).
  rewrite Et, bytes_eqb_refl in Hlc. exact Hlc.
Qed.

Theorem accepts_link_closed_proof stats :
  recv_accepts sel stats = true -> link_closed sel (recv_stream stats) = true.
Proof.
  intros H. apply accepts_iff_proof in H. destruct H as [Hv Hh].
  apply accept_closed; [apply valid_paths_unique; exact Hv|exact Hh].
Qed.

Theorem link_closed_accepts_proof stats :
  valid_stream (recv_stream stats) -> hardlink_check (recv_stream stats) = None ->
  link_closed sel (recv_stream stats) = true -> recv_accepts sel stats = true.
Proof. intros Hv Hh Hlc. apply accepts_iff_proof. split; [exact Hv|apply closed_accept; auto]. Qed.

(* ---- what is forwarded is again accepted by both validators ---- *)
Lemma hl_filter_agree (f g : stat -> bool) l : (forall s, In s l -> hl_plain s = true -> f s = g s) ->
  forall sp i j, hl_run sp (filter f l) i = None -> hl_run sp (filter g l) j = None.
Proof.
  induction l as [|s r IH]; intros Hag sp i j H; [reflexivity|].
  assert (Hag' : forall x, In x r -> hl_plain x = true -> f x = g x) by (intros; apply Hag; auto; right; auto).
  cbn [filter] in *. destruct (hl_plain s) eqn:Ep.
  - rewrite <- (Hag s (or_introl eq_refl) Ep). destruct (f s); [|apply (IH Hag' sp i j H)].
    cbn [hl_run] in *. destruct (hl_step sp s) as [sp'|]; [|discriminate]. apply (IH Hag' sp' (S i) (S j) H).
  - assert (Hst : hl_step sp s = Some sp) by (unfold hl_step; rewrite Ep; reflexivity).
    destruct (f s), (g s); cbn [hl_run] in *; rewrite ?Hst in *.
    + apply (IH Hag' sp (S i) (S j) H).
    + apply (IH Hag' sp (S i) j H).
    + apply (IH Hag' sp i (S j) H).
    + apply (IH Hag' sp i j H).
Qed.

Theorem forwarded_valid_proof stats :
  recv_accepts sel stats = true ->
  valid_stream (r_forwarded (meta_recv sel stats)) /\ hardlink_check (r_forwarded (meta_recv sel stats)) = None.
Proof.
  intros H. apply accepts_iff_proof in H. destruct H as [Hv Hh].
  rewrite (forwarded_exact_proof sel stats Hv). split.
  - apply valid_filter; [exact Hv|]. intros x q Hx Hn Hq. apply (needed_parent_closed sel _ Hv x q); auto.
  - unfold hardlink_check in *. apply (hl_filter_agree sel (needed sel (recv_stream stats)) _) with (i := 0%nat); [|exact Hh].
    intros s _ Hp. symmetry. apply needed_plain. exact Hp.
Qed.

(* ---- a selection that forwards a link but not its source is rejected, at or before the link,
        and nothing with the link's path has been handed to the writer ---- *)
Lemma fr_prefix x post pre : forall stk sp i,
  sel x = true -> hl_plain x = true -> has_link x = true ->
  mem_bytes (st_linkname x) sp = false ->
  (forall u, In u pre -> sel u = true -> st_path u <> st_linkname x) ->
  exists k, first_reject_d stk sp (map (fun s => (sel s, s)) (pre ++ x :: post)) i = Some k /\ (k <= i + length pre)%nat.
Proof.
  induction pre as [|u pre IH]; intros stk sp i Hs Hp Hl Hm Hne; cbn [app map first_reject_d].
  - destruct (vstep stk (vitem_of x)); [|exists i; split; [reflexivity|lia]].
    rewrite Hs. unfold hl_step. rewrite Hp, Hl, Hm. cbn [negb]. exists i. split; [reflexivity|lia].
  - destruct (vstep stk (vitem_of u)) as [stk'|]; [|exists i; split; [reflexivity|lia]].
    assert (Hne' : forall v, In v pre -> sel v = true -> st_path v <> st_linkname x) by (intros; apply Hne; auto; right; auto).
    destruct (sel u) eqn:Eu.
    + destruct (hl_step sp u) as [sp'|] eqn:E; [|exists i; split; [reflexivity|lia]].
      assert (Hm' : mem_bytes (st_linkname x) sp' = false).
      { unfold hl_step in E. destruct (negb (hl_plain u)); [inversion E; subst; exact Hm|].
        destruct (has_link u).
        - destruct (mem_bytes (st_linkname u) sp); [|discriminate]. inversion E; subst. exact Hm.
        - inversion E; subst sp'. cbn [mem_bytes]. rewrite Hm, orb_false_r. apply bytes_eqb_neq.
          intros Ex. apply (Hne u (or_introl eq_refl) Eu). symmetry. exact Ex. }
      destruct (IH stk' sp' (S i) Hs Hp Hl Hm' Hne') as (k & Hk & Hle). exists k. split; [exact Hk|cbn [length]; lia].
    + destruct (IH stk' sp (S i) Hs Hp Hl Hm Hne') as (k & Hk & Hle). exists k. split; [exact Hk|cbn [length]; lia].
Qed.

Lemma mpop_sub p stk : forall y, In y (mpop p stk) -> In y stk.
Proof.
  induction stk as [|t stk' IHs]; intros y Hy; [destruct Hy|]. cbn [mpop] in Hy.
  destruct (bytes_eqb p (st_path t)); [exact Hy|right; apply IHs; exact Hy].
Qed.

Lemma forwarded_subset l : forall i stk z, In z (r_forwarded (mrun sel i stk l)) -> In z stk \/ In z l.
Proof.
  induction l as [|s r IH]; intros i stk z Hz; [destruct Hz|]. cbn [mrun] in Hz.
  pose proof (fun p y => mpop_sub p stk y) as Hpop.
  destruct (is_listing s).
  - destruct (IH _ _ _ Hz); auto. right. right. auto.
  - destruct (sel s); cbn [r_forwarded] in Hz.
    + apply in_app_or in Hz. destruct Hz as [Hz|[<-|Hz]].
      * left. apply in_rev in Hz. eapply Hpop; eauto.
      * right. left. reflexivity.
      * destruct (IH _ _ _ Hz) as [[]|Hz']. right. right. exact Hz'.
    + destruct (IH _ _ _ Hz) as [Hz'|Hz']; [|right; right; exact Hz'].
      destruct (st_is_dir s); [destruct Hz' as [<-|Hz']; [right; left; reflexivity|]|]; left; eapply Hpop; eauto.
Qed.

Theorem unsourced_link_rejected_proof stats x t :
  valid_stream (recv_stream stats) ->
  In x (recv_stream stats) -> sel x = true -> hl_plain x = true -> has_link x = true ->
  In t (recv_stream stats) -> st_path t = st_linkname x -> sel t = false ->
  recv_accepts sel stats = false /\
  exists k, first_reject sel (recv_stream stats) = Some k /\
    applied sel (recv_stream stats) = r_forwarded (meta_recv sel (firstn k (recv_stream stats))) /\
    forall z, In z (applied sel (recv_stream stats)) -> st_path z <> st_path x.
Proof.
  intros Hv Hx Hs Hp Hl Ht Et Hst. set (L := recv_stream stats) in *.
  pose proof (valid_paths_unique L Hv) as Hu.
  destruct (in_split x L Hx) as (pre & post & EL).
  assert (Hne : forall u, In u pre -> sel u = true -> st_path u <> st_linkname x).
  { intros u Hin Hsu Eu. assert (u = t).
    { apply Hu; [rewrite EL; apply in_or_app; left; exact Hin|exact Ht|rewrite Eu, Et; reflexivity]. }
    subst u. rewrite Hst in Hsu. discriminate. }
  destruct (fr_prefix x post pre vinit [] 0%nat Hs Hp Hl eq_refl Hne) as (k & Hk & Hle).
  rewrite <- EL in Hk. fold (first_reject sel L) in Hk.
  split; [unfold recv_accepts; fold L; rewrite Hk; reflexivity|].
  exists k. split; [exact Hk|]. unfold applied. rewrite Hk. split; [reflexivity|].
  intros z Hz Ez. unfold meta_recv in Hz. destruct (forwarded_subset _ _ _ _ Hz) as [[]|Hz'].
  assert (Hzp : In z pre).
  { rewrite EL in Hz'. rewrite firstn_app in Hz'. replace (k - length pre)%nat with 0%nat in Hz' by lia.
    cbn [firstn] in Hz'. rewrite app_nil_r in Hz'. eapply in_firstn; eauto. }
  pose proof (valid_nodup L Hv) as HN. rewrite EL, map_app in HN. cbn [map] in HN.
  apply NoDup_remove_2 in HN. apply HN. apply in_or_app. left. rewrite <- Ez. apply in_map. exact Hzp.
Qed.
End Accept.
