(* The model component evaluated by the correspondence of kind 0906 (Glue.C09G.nested_judge) IS
   Model.Walk.walk_nested, encoded: the theorems about walk_nested (Proofs/WalkNest.v) speak about
   exactly what is compared with the real nested SubDirFS. *)
From Coq Require Import List NArith Bool.
From FS Require Import Sx Model.Path Model.Stat Model.Walk Glue.C09G.
Import ListNotations.
Open Scope N_scope.
Open Scope bool_scope.

Definition enc_walk_result (o : option (list (bytes * stat) * bool)) : sx :=
  match o with
  | None => SL [SL []; SN 2]
  | Some (out, e) => SL [SL (map enc_cb out); SN (if e then 1 else 0)]
  end.

Lemma cut_sep_before_after s : cut_sep s = (before_sep s, after_sep s).
Proof.
  induction s as [|a r IH]; cbn [cut_sep before_sep after_sep]; [reflexivity|].
  destruct (N.eqb a sep); [reflexivity|]. rewrite IH. reflexivity.
Qed.

Theorem nested_judge_model_proof ost zs target cbs err :
  fst (nested_judge ost zs target cbs err) = enc_walk_result (walk_nested ost (map fst zs) target).
Proof.
  unfold nested_judge, walk_nested. cbn [fst]. rewrite cut_sep_before_after.
  destruct (negb (bytes_eqb (base (st_path ost)) (st_path ost))); [reflexivity|].
  destruct (walk_subdirs (map fst zs) []); [|reflexivity].
  rewrite negb_orb.
  destruct (negb (bytes_eqb (before_sep target) []) && negb (bytes_eqb (before_sep target) (st_path ost))); [reflexivity|].
  destruct (negb (st_is_dir ost)); [reflexivity|].
  destruct (walk_subdirs (map fst zs) (after_sep target)) as [[out e]|]; reflexivity.
Qed.

Theorem subdir_judge_model_proof zs target cbs err :
  fst (subdir_judge zs target cbs err) = enc_walk_result (walk_subdirs (map fst zs) target).
Proof.
  unfold subdir_judge, subdir_model. cbn [fst].
  destruct (walk_subdirs (map fst zs) target) as [[out e]|]; reflexivity.
Qed.
