(* C19 — selectors that write into the stat they are handed (Model/MetaOnly.v mrun_rw): the
   listing is unaffected; everything else is the pure-selector transcript [meta_recv] of the
   stream as the selector left it ([seen rw]), so the theorems of Proofs/MetaOnlyP.v carry over. *)
From Coq Require Import List NArith Bool.
From FS Require Import Sx Model.Path Model.Stat Model.Validator Model.Hardlinks Model.MetaOnly
  Proofs.MetaOnlyP.
Import ListNotations.
Open Scope bool_scope.

Lemma seen_path rw s : st_path (seen rw s) = st_path s.
Proof. reflexivity. Qed.

Lemma seen_listing rw s : is_listing (seen rw s) = is_listing s.
Proof. reflexivity. Qed.

Lemma seen_id s : seen (fun x => x) s = s.
Proof. destruct s; reflexivity. Qed.

Lemma recv_stream_seen rw l : recv_stream (map (seen rw) l) = map (seen rw) (recv_stream l).
Proof.
  induction l as [|s l IH]; [reflexivity|]. cbn [map recv_stream filter]. rewrite seen_listing.
  destruct (is_listing s); cbn [negb map]; unfold recv_stream in IH; rewrite IH; reflexivity.
Qed.

Section Rw.
Variable sel : stat -> bool.
Variable rw : stat -> stat.

(* the listing records the stats as announced, whatever the selector writes *)
Lemma listing_rw_gen l : forall i stk, r_listing (mrun_rw sel rw i stk l) = recv_stream l.
Proof.
  induction l as [|s l IH]; intros i stk; [reflexivity|]. cbn [mrun_rw recv_stream filter].
  destruct (is_listing s); cbn [negb]; [apply IH|].
  destruct (sel s); cbn [r_listing]; f_equal; apply IH.
Qed.

Theorem listing_exact_rw_proof stats :
  r_listing (meta_recv_rw sel rw stats) = filter (fun s => negb (bytes_eqb (st_path s) listing_name)) stats.
Proof. unfold meta_recv_rw. rewrite listing_rw_gen. reflexivity. Qed.

(* registrations and forwarded entries: those of the pure transcript on the rewritten stream,
   for any selector sel' that decides on the rewritten stat as sel did on the announced one
   (e.g. every selector that looks at the path only) *)
Lemma rewrite_sim_gen (sel' : stat -> bool) l : (forall s, In s l -> sel' (seen rw s) = sel s) ->
  forall i stk,
  r_files (mrun_rw sel rw i stk l) = r_files (mrun sel' i stk (map (seen rw) l)) /\
  r_forwarded (mrun_rw sel rw i stk l) = r_forwarded (mrun sel' i stk (map (seen rw) l)).
Proof.
  induction l as [|s l IH]; intros Hs i stk; [split; reflexivity|].
  assert (Hl : forall x, In x l -> sel' (seen rw x) = sel x) by (intros; apply Hs; right; auto).
  cbn [map mrun_rw mrun]. rewrite seen_listing. destruct (is_listing s); [apply IH; exact Hl|].
  rewrite (Hs s (or_introl eq_refl)). destruct (sel s); cbn [r_files r_forwarded].
  - destruct (IH Hl (S i) []) as [E1 E2]. rewrite E1, E2. split; reflexivity.
  - apply IH. exact Hl.
Qed.

Theorem rewrite_sim_proof (sel' : stat -> bool) stats :
  (forall s, In s stats -> sel' (seen rw s) = sel s) ->
  r_files (meta_recv_rw sel rw stats) = r_files (meta_recv sel' (map (seen rw) stats)) /\
  r_forwarded (meta_recv_rw sel rw stats) = r_forwarded (meta_recv sel' (map (seen rw) stats)).
Proof. intros H. apply rewrite_sim_gen. exact H. Qed.

(* hence: what is handed to the diff / writer is the needed part of the REWRITTEN stream *)
Theorem forwarded_exact_rw_proof (sel' : stat -> bool) stats :
  (forall s, In s stats -> sel' (seen rw s) = sel s) ->
  valid_stream (map (seen rw) (recv_stream stats)) ->
  r_forwarded (meta_recv_rw sel rw stats)
  = filter (needed sel' (map (seen rw) (recv_stream stats))) (map (seen rw) (recv_stream stats)).
Proof.
  intros H Hv. rewrite (proj2 (rewrite_sim_proof sel' stats H)). rewrite <- recv_stream_seen in *.
  apply forwarded_exact_proof. exact Hv.
Qed.
End Rw.

(* a pure predicate: the transcript is [meta_recv] *)
Lemma pure_gen sel l : forall i stk, mrun_rw sel (fun x => x) i stk l = mrun sel i stk l.
Proof.
  induction l as [|s l IH]; intros i stk; [reflexivity|]. cbn [mrun_rw mrun]. rewrite seen_id.
  destruct (is_listing s); [apply IH|]. destruct (sel s); rewrite IH; reflexivity.
Qed.

Theorem pure_selector_proof sel stats : meta_recv_rw sel (fun x => x) stats = meta_recv sel stats.
Proof. apply pure_gen. Qed.
