(* SubDirFS walks of a sub-target: the target's first component selects the sub-root by EQUALITY
   of whole names; the remainder is handed to the inner walk (walk_at); every other sub-root —
   also one whose name is a string prefix of that component or has it as a prefix — contributes
   nothing. *)
From Coq Require Import List NArith Bool Lia Sorting.Permutation Sorting.Sorted.
From FS Require Import Sx Model.Path Model.Stat Model.Tree Model.Walk Proofs.Lex Proofs.PathP Proofs.WalkP Proofs.WalkHL.
Import ListNotations.
Open Scope N_scope.
Open Scope bool_scope.

(* the WalkDir sequence behind walk_at *)
Definition walk_at_seq (t : tree) (target : bytes) : list (bytes * lrec) :=
  match target_comps target with
  | [] => entries_root (sort_tree t)
  | cs => match lookup (sort_tree t) cs with Some k => entries_node (joinc cs) k | None => [] end
  end.

Lemma walk_at_scan t target : walk_at t target = scan [] (walk_at_seq t target).
Proof.
  unfold walk_at, walk_at_seq, walk. destruct (target_comps target); [reflexivity|].
  destruct (lookup _ _); reflexivity.
Qed.

Lemma walk_at_seq_nodes t target : wf_tree t ->
  forall p r, In (p, r) (walk_at_seq t target) -> exists cs, cs <> [] /\ p = joinc cs /\ tree_at t cs r.
Proof.
  intros Hwf p r. unfold walk_at_seq. destruct (target_comps target) as [|c0 cs'] eqn:E.
  - intros H. apply entries_in in H. exact H.
  - destruct (lookup (sort_tree t) (c0 :: cs')) as [k|] eqn:El; [|contradiction]. intros H.
    apply (entries_at_in t _ k Hwf) in H; [|discriminate|exact El]. destruct H as (c & -> & Hat).
    exists ((c0 :: cs') ++ c). split; [discriminate|]. auto.
Qed.

(* a path made of well-formed names *)
Definition wf_path (p : bytes) : Prop := exists cs, cs <> [] /\ Forall wf_name cs /\ p = joinc cs.

Lemma scan_shape l : (forall p r, In (p, r) l -> wf_path p) ->
  forall st, In st (scan [] l) ->
  wf_path (st_path st) /\
  (mode_is_symlink (st_mode st) = false -> st_linkname st = [] \/ wf_path (st_linkname st)).
Proof.
  intros Hl st Hin. apply scan_in in Hin. destruct Hin as (pre & p & r & post & E & ->).
  assert (Hp : wf_path p) by (apply (Hl p r); rewrite E; apply in_or_app; right; simpl; auto).
  pose proof (mkstat_fields p r (seen_after [] pre)) as F. cbv zeta in F.
  destruct F as (F0 & F1 & _ & _ & _ & _ & _ & _ & _ & F9).
  split; [rewrite F0; exact Hp|].
  intros Hm. rewrite F1, mode_symlink_nosock in Hm. fold (is_symlink r) in Hm. rewrite F9, Hm.
  destruct (is_dir r); auto. unfold hl_name.
  destruct (N.ltb 1 (l_nlink r)); auto.
  destruct (ilookup (l_ino r) (seen_after [] pre)) as [q|] eqn:El; auto.
  right. apply seen_after_paths in El. apply in_map_iff in El. destruct El as ([q' r1] & <- & Hi).
  apply (Hl q' r1). rewrite E. apply in_or_app; auto.
Qed.

Lemma walk_at_shape t target st : wf_tree t -> In st (walk_at t target) ->
  wf_path (st_path st) /\
  (mode_is_symlink (st_mode st) = false -> st_linkname st = [] \/ wf_path (st_linkname st)).
Proof.
  intros Hwf Hin. rewrite walk_at_scan in Hin. eapply scan_shape; [|exact Hin].
  intros p r Hi. destruct (walk_at_seq_nodes t target Hwf p r Hi) as (cs & Hne & -> & Hat).
  exists cs. repeat split; auto. eapply tree_at_names; eauto.
Qed.

Lemma sub_rewrite_prefix_gen d st : wf_name d -> wf_path (st_path st) ->
  (mode_is_symlink (st_mode st) = false -> st_linkname st = [] \/ wf_path (st_linkname st)) ->
  join2 d (st_path st) = d ++ sep :: st_path st /\ sub_rewrite d st = prefix_stat d st.
Proof.
  intros Hd (cs & Hne & Hcs & Hp) Hln.
  assert (Hj : join2 d (st_path st) = d ++ sep :: st_path st) by (rewrite Hp; apply join2_wf; auto).
  split; auto. unfold sub_rewrite, prefix_stat. rewrite Hj.
  destruct (st_linkname st) as [|a ln] eqn:El; auto.
  destruct (mode_is_symlink (st_mode st)) eqn:Em.
  - cbn [has_prefix is_abs]. rewrite andb_true_r, N.eqb_sym. destruct (N.eqb a sep); reflexivity.
  - destruct (Hln eq_refl) as [E0|(cs0 & Hne0 & Hcs0 & E0)]; [congruence|].
    rewrite E0. rewrite join2_wf; auto.
Qed.

Definition sel_block (name rest : bytes) (d : subdir) : list (bytes * stat) :=
  if bytes_eqb name (sd_name d) then sd_block_at d rest else [].

Lemma walk_sds_select l name rest : name <> [] -> Forall sd_ok l ->
  walk_sds l name rest = (flat_map (sel_block name rest) l, false).
Proof.
  intros Hn. induction l as [|d l IH]; intros H; [reflexivity|].
  inversion H as [|? ? (Hw & Hd & Hwf) H']; subst. cbn [walk_sds flat_map]. unfold sel_block at 1.
  assert (En : bytes_eqb name [] = false).
  { destruct (bytes_eqb name []) eqn:E; auto. apply bytes_eqb_eq in E. congruence. }
  rewrite En. cbn [negb andb]. destruct (bytes_eqb name (sd_name d)) eqn:Ed; cbn [negb].
  - rewrite Hd. cbn [negb]. rewrite (IH H'). f_equal. unfold sd_block_at. cbn [app]. f_equal. f_equal.
    apply map_ext_in. intros st Hin. destruct (walk_at_shape _ _ _ Hwf Hin) as [Hp Hl].
    destruct (sub_rewrite_prefix_gen _ _ Hw Hp Hl) as [-> ->]. reflexivity.
  - rewrite (IH H'). reflexivity.
Qed.

Lemma sel_none {B} (f : subdir -> list B) name l :
  (forall d, In d l -> sd_name d <> name) ->
  flat_map (fun d => if bytes_eqb name (sd_name d) then f d else []) l = [].
Proof.
  induction l as [|a l IH]; intros H; [reflexivity|]. cbn [flat_map].
  destruct (bytes_eqb name (sd_name a)) eqn:E.
  - apply bytes_eqb_eq in E. exfalso. apply (H a); simpl; auto.
  - rewrite IH; auto. intros d Hd. apply H. simpl; auto.
Qed.

Lemma sel_one {B} (f : subdir -> list B) name l d :
  NoDup (map sd_name l) -> In d l -> sd_name d = name ->
  flat_map (fun d => if bytes_eqb name (sd_name d) then f d else []) l = f d.
Proof.
  induction l as [|a l IH]; intros Hnd Hin Hname; [contradiction|].
  simpl in Hnd. inversion Hnd as [|? ? Ha Hnd']; subst. cbn [flat_map]. destruct Hin as [->|Hin].
  - rewrite bytes_eqb_refl. rewrite sel_none; [apply app_nil_r|].
    intros d' Hd' E. apply Ha. rewrite <- E. apply in_map. exact Hd'.
  - destruct (bytes_eqb (sd_name d) (sd_name a)) eqn:E.
    + apply bytes_eqb_eq in E. exfalso. apply Ha. rewrite <- E. apply in_map. exact Hin.
    + rewrite IH; auto.
Qed.

Lemma cut_sep_app name rest : ~ In sep name -> cut_sep (name ++ sep :: rest) = (name, rest).
Proof.
  induction name as [|a n IH]; intros H; cbn [app cut_sep].
  - rewrite N.eqb_refl. reflexivity.
  - destruct (N.eqb a sep) eqn:E; [apply N.eqb_eq in E; exfalso; apply H; simpl; auto|].
    rewrite IH; [reflexivity|]. intro; apply H; simpl; auto.
Qed.

Lemma cut_sep_nosep name : ~ In sep name -> cut_sep name = (name, []).
Proof.
  induction name as [|a n IH]; intros H; cbn [cut_sep]; [reflexivity|].
  destruct (N.eqb a sep) eqn:E; [apply N.eqb_eq in E; exfalso; apply H; simpl; auto|].
  rewrite IH; [reflexivity|]. intro; apply H; simpl; auto.
Qed.

Theorem subdir_walk_at_proof ds name rest target : sd_wf ds -> wf_name name ->
  (target = name ++ sep :: rest \/ (target = name /\ rest = [])) ->
  (forall d, In d ds -> sd_name d = name -> walk_subdirs ds target = Some (sd_block_at d rest, false)) /\
  ((forall d, In d ds -> sd_name d <> name) -> walk_subdirs ds target = Some ([], false)).
Proof.
  intros [Hok Hnd] Hname Ht.
  pose proof (isort_sd_perm ds) as Hp.
  assert (Hok' : Forall sd_ok (isort_sd ds)).
  { apply Forall_forall. intros d Hd. rewrite Forall_forall in Hok. apply Hok. eapply Permutation_in; eauto. }
  assert (Hnd' : NoDup (map sd_name (isort_sd ds))).
  { eapply Permutation_NoDup; [apply Permutation_sym, Permutation_map; exact Hp|exact Hnd]. }
  destruct Hname as (Hne & Hns & Hdot & Hdd).
  assert (Hcut : cut_sep target = (name, rest)).
  { destruct Ht as [->|[-> ->]]; [apply cut_sep_app|apply cut_sep_nosep]; auto. }
  assert (Hw : walk_subdirs ds target = Some (flat_map (sel_block name rest) (isort_sd ds), false)).
  { unfold walk_subdirs. rewrite subdirs_ok_true; auto.
    - rewrite Hcut. rewrite walk_sds_select; auto.
    - eapply Forall_impl; [|exact Hok']. intros d (H & _). exact H. }
  rewrite Hw. split.
  - intros d Hd En. f_equal. f_equal. unfold sel_block.
    apply (sel_one (fun d => sd_block_at d rest)); auto. eapply Permutation_in; [apply Permutation_sym; exact Hp|exact Hd].
  - intros Hno. f_equal. f_equal. unfold sel_block. apply sel_none.
    intros d Hd. apply Hno. eapply Permutation_in; eauto.
Qed.
