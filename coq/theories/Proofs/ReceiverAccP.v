(* Proofs about the receiver acceptor (Model/ReceiverAcc.v): a state-only well-formedness
   invariant, an invariant tying the state to the trace read so far (for traces whose
   incoming packets come from a legal sender), and the C07 statements derived from them. *)
From Coq Require Import List Arith NArith Bool Lia.
From FS Require Import Sx Model.Path Model.Stat Model.AccEvents Model.ReceiverAcc Proofs.AccEventsP.
Import ListNotations.
Open Scope N_scope.

Definition keys {A} (m : list (N * A)) : list N := map fst m.
Definition nonempty (d : bytes) : Prop := d <> [].

Lemma in_keys_nremove_iff : forall A (k x : N) (m : list (N * A)),
  NoDup (keys m) -> (List.In x (keys (nremove k m)) <-> List.In x (keys m) /\ x <> k).
Proof.
  unfold keys. induction m as [|[k' v'] m IH]; simpl; intros Hd; [tauto|].
  inversion Hd as [|? ? Hn Hd']; subst.
  destruct (N.eqb k k') eqn:E.
  - apply N.eqb_eq in E. subst k'. split.
    + intros Hx. split; [auto|]. intros ->. contradiction.
    + intros [[Hx|Hx] Hne]; [congruence|assumption].
  - apply N.eqb_neq in E. simpl. rewrite (IH Hd'). split.
    + intros [Hx|[Hx Hne]]; [subst; split; auto|split; auto].
    + intros [[Hx|Hx] Hne]; [auto|auto].
Qed.

Lemma nlookup_in_keys : forall A (k : N) (v : A) m, nlookup k m = Some v -> List.In k (keys m).
Proof. intros. apply nlookup_in in H. unfold keys. apply in_map_iff. exists (k, v). auto. Qed.

Lemma in_keys_nlookup : forall A (k : N) (m : list (N * A)), List.In k (keys m) -> nlookup k m <> None.
Proof.
  intros A k m H C. apply nlookup_none_notin in C. contradiction.
Qed.

Section ReceiverP.
  Variable needs : bytes -> bool.
  Notation step := (receiver_acc needs).
  Notation wanted := (wanted needs).
  Notation none_wanted := (none_wanted needs).

  Lemma none_wanted_lookup : forall f n st, none_wanted f = true -> nlookup n f = Some st -> wanted st = false.
  Proof.
    induction f as [|[k v] f IH]; simpl; intros n st H Hl; [discriminate|].
    apply andb_true_iff in H. destruct H as [H1 H2].
    destruct (N.eqb n k); [injection Hl as <-; apply negb_true_iff; assumption|eauto].
  Qed.

  Lemma none_wanted_nremove : forall f n, none_wanted f = true -> none_wanted (nremove n f) = true.
  Proof.
    induction f as [|[k v] f IH]; simpl; intros n H; [reflexivity|].
    apply andb_true_iff in H. destruct H as [H1 H2].
    destruct (N.eqb n k); [assumption|]. simpl. rewrite H1. simpl. auto.
  Qed.

  (* ---- what one step does, event by event ---- *)
  Lemma racc_frame : forall s e s', step s e = Some s' ->
    r_ret s = None /\
    match e with
    | Inp p => r_rdclosed s = false /\ s' = on_in s p
    | InEof => r_rdclosed s = false /\
               ((r_fin_in s = true /\ s' = rset_eof s) \/ (r_fin_in s = false /\ s' = rset_fail s))
    | Out (PReq n) => exists st, nlookup n (r_files s) = Some st /\ wanted st = true /\ s' = rset_request s n
    | Out PFin => r_endm s = true /\ r_open s = [] /\ r_fin_out s = false /\ none_wanted (r_files s) = true /\
                  s' = rset_fin_out s
    | Out (PErr _) => r_err s = true /\ s' = s
    | Out _ => False
    | Fault => s' = rset_err s
    | Progress _ _ => s' = s
    | Return true => r_fin_out s = true /\ r_fin_in s = true /\ r_eof s = true /\ r_err s = false /\ s' = rset_ret s true
    | Return false => r_err s = true /\ s' = rset_ret s false
    end.
  Proof.
    intros s e s' H. unfold receiver_acc in H.
    destruct (r_ret s); [discriminate|]. split; [reflexivity|].
    destruct e as [p|p| | |n l|b].
    - destruct p as [o|n|n d| |m]; try discriminate.
      + destruct (nlookup n (r_files s)) as [st|]; [|discriminate].
        destruct (ReceiverAcc.wanted needs st) eqn:E; [|discriminate]. injection H as <-. exists st. auto.
      + destruct (r_endm s && is_nil (r_open s) && negb (r_fin_out s) && ReceiverAcc.none_wanted needs (r_files s))%bool eqn:E; [|discriminate].
        injection H as <-. repeat (apply andb_true_iff in E; destruct E as [E ?]).
        repeat split; auto. apply is_nil_true; assumption. apply negb_true_iff; assumption.
      + destruct (r_err s) eqn:E; [|discriminate]. injection H as <-. auto.
    - destruct (r_rdclosed s); [discriminate|]. injection H as <-. auto.
    - destruct (r_rdclosed s); [discriminate|]. split; [reflexivity|].
      destruct (r_fin_in s); injection H as <-; auto.
    - injection H as <-. reflexivity.
    - injection H as <-. reflexivity.
    - destruct b.
      + destruct (r_fin_out s && r_fin_in s && r_eof s && negb (r_err s))%bool eqn:E; [|discriminate].
        injection H as <-. repeat (apply andb_true_iff in E; destruct E as [E ?]).
        repeat split; auto. apply negb_true_iff; assumption.
      + destruct (r_err s) eqn:E; [|discriminate]. injection H as <-. auto.
  Qed.

  (* the cases of on_in *)
  Inductive on_in_case (s : rstate) (p : pkt) (s' : rstate) : Prop :=
  | OiDrain : r_fin_in s = true -> s' = s -> on_in_case s p s'
  | OiStat : forall st, r_fin_in s = false -> p = PStat (Some st) -> r_endm s = false ->
      s' = rset_stat s (if mode_is_regular (st_mode st) then (N.of_nat (r_i s), st) :: r_files s else r_files s) ->
      on_in_case s p s'
  | OiEnd : r_fin_in s = false -> p = PStat None -> r_endm s = false -> s' = rset_endm s -> on_in_case s p s'
  | OiChunk : forall n d cs, r_fin_in s = false -> p = PData n d -> d <> [] -> nlookup n (r_open s) = Some cs ->
      s' = rset_open s (nupdate n (d :: cs) (r_open s)) -> on_in_case s p s'
  | OiTerm : forall n cs, r_fin_in s = false -> p = PData n [] -> nlookup n (r_open s) = Some cs ->
      s' = rset_close s n cs -> on_in_case s p s'
  | OiFin : r_fin_in s = false -> p = PFin -> s' = rset_fin_in s -> on_in_case s p s'
  | OiReq : forall n, r_fin_in s = false -> p = PReq n -> s' = s -> on_in_case s p s'
  | OiFail : r_fin_in s = false -> (forall st, p <> PStat (Some st) \/ r_endm s = true) ->
      p <> PFin -> (forall n, p <> PReq n) -> s' = rset_fail s -> on_in_case s p s'.

  Lemma on_in_cases : forall s p, on_in_case s p (on_in s p).
  Proof.
    intros s p. unfold on_in. destruct (r_fin_in s) eqn:Ef; [apply OiDrain; auto|].
    destruct p as [[st|]|n|n d| |m].
    - destruct (r_endm s) eqn:Ee.
      + apply OiFail; auto; try discriminate.
      + eapply OiStat; eauto.
    - destruct (r_endm s) eqn:Ee.
      + apply OiFail; auto; try discriminate; try (intros; left; discriminate).
      + apply OiEnd; auto.
    - eapply OiReq; eauto.
    - destruct (nlookup n (r_open s)) as [cs|] eqn:El.
      + destruct d as [|b d].
        * eapply OiTerm; eauto.
        * eapply OiChunk; eauto. discriminate.
      + apply OiFail; auto; try discriminate; try (intros; left; discriminate).
    - apply OiFin; auto.
    - apply OiFail; auto; try discriminate; try (intros; left; discriminate).
  Qed.

  (* ================= W. state-only well-formedness ================= *)
  Record rwf (s : rstate) : Prop := {
    wf_files_nodup : NoDup (keys (r_files s));
    wf_files_lt : forall m, List.In m (keys (r_files s)) -> m < N.of_nat (r_i s);
    wf_reqd_lt : forall m, List.In m (r_reqd s) -> m < N.of_nat (r_i s);
    wf_reqd_single : forall m, List.In m (r_reqd s) -> ~ List.In m (keys (r_files s));
    wf_reqd_split : forall m, List.In m (r_reqd s) <-> List.In m (keys (r_open s)) \/ List.In m (keys (r_stored s));
    wf_open_nodup : NoDup (keys (r_open s));
    wf_open_stored : forall m, List.In m (keys (r_open s)) -> ~ List.In m (keys (r_stored s));
    wf_fin : r_fin_out s = true -> r_open s = [] /\ none_wanted (r_files s) = true /\ r_endm s = true
  }.

  Lemma rwf_init : rwf rinit.
  Proof.
    constructor; simpl; try constructor; try tauto; try (intros; contradiction); try discriminate.
  Qed.

  Lemma rwf_on_in : forall s p, rwf s -> rwf (on_in s p).
  Proof.
    intros s p W. destruct W as [W1 W2 W3 W4 W5 W6 W7 W8].
    destruct (on_in_cases s p) as [Hf ->|st Hf -> He ->|Hf -> He ->|n d cs Hf -> Hd Hl ->|n cs Hf -> Hl ->|Hf -> ->|n Hf -> ->|Hf _ _ _ ->].
    - constructor; assumption.
    - (* STAT *)
      assert (Hfo : r_fin_out s = false).
      { destruct (r_fin_out s) eqn:E; [|reflexivity]. destruct (W8 eq_refl) as [_ [_ C]]. congruence. }
      constructor; simpl; auto.
      + destruct (mode_is_regular (st_mode st)); [|assumption]. simpl. constructor; [|assumption].
        intros C. apply W2 in C. lia.
      + intros m Hm. destruct (mode_is_regular (st_mode st)).
        * simpl in Hm. destruct Hm as [<-|Hm]; [lia|]. apply W2 in Hm. lia.
        * apply W2 in Hm. lia.
      + intros m Hm. apply W3 in Hm. lia.
      + intros m Hm. destruct (mode_is_regular (st_mode st)); [|auto].
        simpl. intros [C|C]; [apply W3 in Hm; lia|]. eapply W4; eauto.
      + intros C. congruence.
    - (* end marker *)
      constructor; simpl; auto. intros Hfo. destruct (W8 Hfo) as [A [B _]]. auto.
    - (* chunk *)
      constructor; simpl; auto; unfold keys in *; try rewrite map_fst_nupdate; auto.
      intros Hfo. destruct (W8 Hfo) as [A _]. rewrite A in Hl. discriminate.
    - (* terminator *)
      assert (Hin : List.In n (keys (r_open s))) by (eapply nlookup_in_keys; eauto).
      constructor; simpl; auto.
      + intros m. rewrite W5. rewrite (in_keys_nremove_iff _ n m _ W6). split.
        * intros [Hm|Hm]; [|auto]. destruct (N.eq_dec m n); [subst; auto|auto].
        * intros [[Hm _]|[<-|Hm]]; auto.
      + apply nodup_map_fst_nremove. assumption.
      + intros m Hm. apply (in_keys_nremove_iff _ n m _ W6) in Hm. destruct Hm as [Hm Hne].
        intros [C|C]; [congruence|]. eapply W7; eauto.
      + intros Hfo. destruct (W8 Hfo) as [A _]. rewrite A in Hl. discriminate.
    - constructor; simpl; auto.
    - constructor; assumption.
    - constructor; simpl; auto.
  Qed.

  Lemma rwf_step : forall s e s', step s e = Some s' -> rwf s -> rwf s'.
  Proof.
    intros s e s' H W. apply racc_frame in H. destruct H as [_ H].
    destruct e as [p|p| | |n l|b].
    - destruct p as [o|n|n d| |m]; try contradiction.
      + (* REQ *)
        destruct H as [st [Hl [Hw ->]]]. destruct W as [W1 W2 W3 W4 W5 W6 W7 W8].
        assert (Hin : List.In n (keys (r_files s))) by (eapply nlookup_in_keys; eauto).
        assert (Hnr : ~ List.In n (r_reqd s)) by (intros C; eapply W4; eauto).
        constructor; simpl; auto.
        * apply nodup_map_fst_nremove. assumption.
        * intros m Hm. apply in_map_fst_nremove in Hm. auto.
        * intros m [<-|Hm]; auto.
        * intros m [<-|Hm].
          -- intros C. apply (in_keys_nremove_iff _ n n _ W1) in C. destruct C as [_ C]. congruence.
          -- intros C. apply in_map_fst_nremove in C. eapply W4; eauto.
        * intros m. rewrite W5. tauto.
        * constructor; [|assumption]. intros C. apply Hnr. apply W5. auto.
        * intros m [<-|Hm]; [|auto]. intros C. apply Hnr. apply W5. auto.
        * intros Hfo. destruct (W8 Hfo) as [_ [B _]]. rewrite (none_wanted_lookup _ _ _ B Hl) in Hw. discriminate.
      + (* FIN *)
        destruct H as [He [Ho [Hfo [Hn ->]]]]. destruct W. constructor; simpl; auto.
      + destruct H as [_ ->]. assumption.
    - destruct H as [_ ->]. apply rwf_on_in. assumption.
    - destruct H as [_ [[_ ->]|[_ ->]]]; destruct W; constructor; simpl; auto.
    - subst s'. destruct W; constructor; simpl; auto.
    - subst s'. assumption.
    - destruct b; [destruct H as [_ [_ [_ [_ ->]]]]|destruct H as [_ ->]]; destruct W; constructor; simpl; auto.
  Qed.

  Lemma rwf_run : forall tr s, receiver_run needs tr = Some s -> rwf s.
  Proof.
    intros tr s H. unfold receiver_run in H.
    eapply (run_preserves step rwf); [|exact H|exact rwf_init].
    intros. eapply rwf_step; eauto.
  Qed.

  (* ================= T. trace/state relation, for legal senders ================= *)
  Lemma legal_prefix : forall tr e, legal_sender (tr ++ [e]) -> legal_sender tr.
  Proof.
    intros tr e [L1 L2]. split.
    - intros pre o post Ht. apply (L1 pre o (post ++ [e])). rewrite Ht, <- app_assoc. reflexivity.
    - intros pre p post Ht. apply (L2 pre p (post ++ [e])). rewrite Ht, <- app_assoc. reflexivity.
  Qed.

  Lemma legal_prefix_app : forall a b, legal_sender (a ++ b) -> legal_sender a.
  Proof.
    intros a b. induction b as [|e b IH] using rev_ind; [rewrite app_nil_r; auto|].
    rewrite app_assoc. intros H. apply legal_prefix in H. auto.
  Qed.

  Lemma legal_last_stat : forall tr o, legal_sender (tr ++ [Inp (PStat o)]) -> ~ List.In (Inp (PStat None)) tr.
  Proof. intros tr o [L1 _]. apply (L1 tr o []). reflexivity. Qed.

  Lemma legal_last_in : forall tr p, legal_sender (tr ++ [Inp p]) -> ~ List.In (Inp PFin) tr.
  Proof. intros tr p [_ L2]. apply (L2 tr p []). reflexivity. Qed.

  Lemma rstats_snoc_stat : forall tr st, rstats (tr ++ [Inp (PStat (Some st))]) = rstats tr ++ [st].
  Proof. intros. unfold rstats. rewrite stats_in_app, some_stats_app. reflexivity. Qed.

  Lemma rstats_snoc_other : forall tr e, (forall st, e <> Inp (PStat (Some st))) -> rstats (tr ++ [e]) = rstats tr.
  Proof.
    intros tr e H. unfold rstats. rewrite stats_in_app, some_stats_app.
    destruct e as [p|p| | | |]; simpl; try apply app_nil_r.
    destruct p as [[st|]|n|n d| |m]; simpl; try apply app_nil_r. exfalso. eapply H. reflexivity.
  Qed.

  Lemma data_in_snoc_other : forall n tr e, (forall d, e <> Inp (PData n d)) -> data_in n (tr ++ [e]) = data_in n tr.
  Proof.
    intros n tr e H. rewrite data_in_app. unfold data_in at 2. simpl.
    destruct e as [p|p| | | |]; simpl; try apply app_nil_r.
    destruct p as [o|m|m d| |m]; simpl; try apply app_nil_r.
    destruct (N.eqb m n) eqn:E; simpl; try apply app_nil_r.
    apply N.eqb_eq in E. subst. exfalso. eapply H. reflexivity.
  Qed.

  Lemma data_in_snoc_same : forall n tr d, data_in n (tr ++ [Inp (PData n d)]) = data_in n tr ++ [d].
  Proof. intros. rewrite data_in_app. unfold data_in at 2. simpl. rewrite N.eqb_refl. reflexivity. Qed.

  Lemma in_snoc : forall (x e : event) tr, List.In x (tr ++ [e]) <-> List.In x tr \/ x = e.
  Proof. intros. rewrite in_app_iff. simpl. split; intros [H|H]; auto. destruct H; auto; contradiction. Qed.

  Record J (tr : list event) (s : rstate) : Prop := {
    j_i : r_i s = length (rstats tr);
    j_files : forall n st, nlookup n (r_files s) = Some st ->
              nth_error (rstats tr) (N.to_nat n) = Some st /\ mode_is_regular (st_mode st) = true;
    j_cover : forall k st, nth_error (rstats tr) k = Some st -> mode_is_regular (st_mode st) = true ->
              nlookup (N.of_nat k) (r_files s) = Some st \/ List.In (N.of_nat k) (r_reqd s);
    j_reqd : forall n, List.In n (r_reqd s) <-> List.In (Out (PReq n)) tr;
    j_endm : r_endm s = true -> List.In (Inp (PStat None)) tr;
    j_fin_in : r_fin_in s = true -> List.In (Inp PFin) tr;
    j_fin_out : r_fin_out s = true <-> List.In (Out PFin) tr;
    j_term : forall n, List.In n (keys (r_stored s)) -> List.In (Inp (PData n [])) tr;
    j_data : r_err s = false -> forall n,
      (forall cs, nlookup n (r_open s) = Some cs -> data_in n tr = rev cs /\ Forall nonempty cs) /\
      (forall cs, nlookup n (r_stored s) = Some cs -> data_in n tr = rev cs ++ [[]] /\ Forall nonempty cs) /\
      (~ List.In n (r_reqd s) -> data_in n tr = [])
  }.

  Lemma J_init : J [] rinit.
  Proof.
    constructor; simpl; try reflexivity; try discriminate; try tauto.
    - intros k st H. destruct k; discriminate.
    - split; [discriminate|tauto].
    - intros _ n. repeat split; try discriminate; auto.
  Qed.

  (* steps that leave the tables alone *)
  Lemma J_frame : forall tr s e s',
    J tr s ->
    r_i s' = r_i s -> r_files s' = r_files s -> r_reqd s' = r_reqd s -> r_open s' = r_open s -> r_stored s' = r_stored s ->
    (r_endm s' = true -> r_endm s = true \/ e = Inp (PStat None)) ->
    (r_fin_in s' = true -> r_fin_in s = true \/ e = Inp PFin) ->
    (r_fin_out s' = true <-> r_fin_out s = true \/ e = Out PFin) ->
    (forall st, e <> Inp (PStat (Some st))) -> (forall n, e <> Out (PReq n)) ->
    (r_err s' = false -> r_err s = false /\ forall n d, e <> Inp (PData n d)) ->
    J (tr ++ [e]) s'.
  Proof.
    intros tr s e s' [J1 J2 J3 J4 J5 J6 J7 J8 J9] Hi Hf Hr Ho Hs He Hfi Hfo Hst Hrq Herr.
    constructor; rewrite ?Hi, ?Hf, ?Hr, ?Ho, ?Hs, ?(rstats_snoc_other _ _ Hst); auto.
    - intros n. rewrite J4, in_snoc. split; [auto|]. intros [H|H]; [auto|]. exfalso. eapply Hrq. eauto.
    - intros H. apply in_snoc. destruct (He H); auto.
    - intros H. apply in_snoc. destruct (Hfi H); auto.
    - rewrite Hfo, J7, in_snoc. split; intros [H|H]; auto.
    - intros n H. apply in_snoc. auto.
    - intros H n. destruct (Herr H) as [H1 H2]. rewrite data_in_snoc_other by (intros; apply H2). apply J9. assumption.
  Qed.

  Lemma J_step : forall tr s e s',
    rwf s -> legal_sender (tr ++ [e]) -> J tr s -> step s e = Some s' -> J (tr ++ [e]) s'.
  Proof.
    intros tr s e s' W L I H. apply racc_frame in H. destruct H as [_ H].
    destruct e as [p|p| | |n l|b].
    - destruct p as [o|n|n d| |m]; try contradiction.
      + (* Out REQ n *)
        destruct H as [st [Hl [Hw ->]]]. destruct W as [W1 W2 W3 W4 W5 W6 W7 W8].
        destruct I as [J1 J2 J3 J4 J5 J6 J7 J8 J9].
        assert (Hin : List.In n (keys (r_files s))) by (eapply nlookup_in_keys; eauto).
        assert (Hnr : ~ List.In n (r_reqd s)) by (intros C; eapply W4; eauto).
        constructor; simpl; rewrite ?rstats_snoc_other by discriminate; auto.
        * intros m st' Hm. destruct (N.eq_dec m n) as [->|Hne].
          -- rewrite nlookup_nremove_same in Hm by assumption. discriminate.
          -- rewrite nlookup_nremove_other in Hm by assumption. auto.
        * intros k st' Hk Hreg. destruct (J3 k st' Hk Hreg) as [Hc|Hc]; [|auto].
          destruct (N.eq_dec (N.of_nat k) n) as [->|Hne]; [auto|].
          left. rewrite nlookup_nremove_other by assumption. assumption.
        * intros m. rewrite in_snoc, <- J4. split.
          -- intros [<-|Hm]; auto.
          -- intros [Hm|Hm]; [auto|]. injection Hm as ->. auto.
        * intros Hx. apply in_snoc. auto.
        * intros Hx. apply in_snoc. auto.
        * rewrite J7, in_snoc. split; [auto|]. intros [Hx|Hx]; [auto|discriminate].
        * intros m Hm. apply in_snoc. auto.
        * intros Herr m. rewrite data_in_snoc_other by discriminate.
          destruct (J9 Herr m) as [D1 [D2 D3]]. split; [|split].
          -- intros cs. destruct (N.eqb m n) eqn:E.
             ++ apply N.eqb_eq in E. subst m. intros Hc. injection Hc as <-. rewrite (D3 Hnr). simpl. split; [reflexivity|constructor].
             ++ apply D1.
          -- apply D2.
          -- intros Hm. apply D3. intros C. apply Hm. auto.
      + (* Out FIN *)
        destruct H as [He [Ho [Hfo [Hn ->]]]].
        eapply J_frame; eauto; simpl; try discriminate; auto.
        * split; [auto|]. intros _. reflexivity.
        * intros Herr. split; [assumption|]. discriminate.
      + (* Out ERR *)
        destruct H as [_ ->].
        eapply J_frame; eauto; simpl; try discriminate; auto.
        * split; [auto|]. intros [Hx|Hx]; [assumption|discriminate].
        * intros Herr. split; [assumption|]. discriminate.
    - (* Inp p *)
      destruct H as [_ ->].
      pose proof (legal_last_in _ _ L) as Lfin.
      assert (Hnf : r_fin_in s = false).
      { destruct (r_fin_in s) eqn:E; [|reflexivity]. exfalso. apply Lfin. apply (j_fin_in _ _ I). assumption. }
      destruct (on_in_cases s p) as [Hf _|st _ -> He ->|_ -> He ->|n d cs _ -> Hd Hl ->|n cs _ -> Hl ->|_ -> ->|n _ -> ->|_ Hfail _ _ ->];
        [congruence| | | | | | |].
      + (* STAT st *)
        destruct W as [W1 W2 W3 W4 W5 W6 W7 W8]. destruct I as [J1 J2 J3 J4 J5 J6 J7 J8 J9].
        constructor; simpl; rewrite ?rstats_snoc_stat; auto.
        * rewrite app_length. simpl. lia.
        * intros m st' Hm.
          assert (Hold : nlookup m (r_files s) = Some st' -> nth_error (rstats tr ++ [st]) (N.to_nat m) = Some st' /\ mode_is_regular (st_mode st') = true).
          { intros Hm'. destruct (J2 _ _ Hm') as [A B]. split; [|assumption]. rewrite nth_error_app1; [assumption|].
            apply nth_error_Some. congruence. }
          destruct (mode_is_regular (st_mode st)) eqn:Er; [|auto].
          simpl in Hm. destruct (N.eqb m (N.of_nat (r_i s))) eqn:E; [|auto].
          apply N.eqb_eq in E. subst m. injection Hm as <-. rewrite Nat2N.id, J1.
          rewrite nth_error_app2 by lia. rewrite Nat.sub_diag. auto.
        * intros k st' Hk Hreg.
          destruct (Nat.lt_ge_cases k (length (rstats tr))) as [Hlt|Hge].
          -- rewrite nth_error_app1 in Hk by assumption. destruct (J3 k st' Hk Hreg) as [Hc|Hc]; [|auto].
             left. destruct (mode_is_regular (st_mode st)); [|assumption]. simpl.
             destruct (N.eqb (N.of_nat k) (N.of_nat (r_i s))) eqn:E; [|assumption].
             apply N.eqb_eq in E. apply Nat2N.inj in E. lia.
          -- rewrite nth_error_app2 in Hk by assumption.
             destruct (k - length (rstats tr))%nat as [|j] eqn:Ej; [|destruct j; discriminate].
             simpl in Hk. injection Hk as <-. assert (k = r_i s) by lia. subst k.
             left. rewrite Hreg. simpl. rewrite N.eqb_refl. reflexivity.
        * intros m. rewrite in_snoc, <- J4. split; [auto|]. intros [Hx|Hx]; [auto|discriminate].
        * intros Hx. congruence.
        * intros Hx. apply in_snoc. auto.
        * rewrite J7, in_snoc. split; [auto|]. intros [Hx|Hx]; [auto|discriminate].
        * intros m Hm. apply in_snoc. auto.
        * intros Herr m. rewrite data_in_snoc_other by discriminate. apply J9. assumption.
      + (* end marker *)
        eapply J_frame; eauto; simpl; try discriminate; auto.
        * split; [auto|]. intros [Hx|Hx]; [assumption|discriminate].
        * intros Herr. split; [assumption|]. discriminate.
      + (* chunk *)
        destruct W as [W1 W2 W3 W4 W5 W6 W7 W8]. destruct I as [J1 J2 J3 J4 J5 J6 J7 J8 J9].
        constructor; simpl; rewrite ?rstats_snoc_other by discriminate; auto.
        * intros m. rewrite in_snoc, <- J4. split; [auto|]. intros [Hx|Hx]; [auto|discriminate].
        * intros Hx. apply in_snoc. auto.
        * intros Hx. apply in_snoc. auto.
        * rewrite J7, in_snoc. split; [auto|]. intros [Hx|Hx]; [auto|discriminate].
        * intros m Hm. apply in_snoc. auto.
        * intros Herr m. destruct (J9 Herr m) as [D1 [D2 D3]].
          destruct (N.eq_dec m n) as [->|Hne].
          -- rewrite data_in_snoc_same. split; [|split].
             ++ intros cs'. rewrite nlookup_nupdate_same by congruence. intros Hc. injection Hc as <-.
                destruct (D1 _ Hl) as [A B]. simpl. rewrite A. split; [reflexivity|]. constructor; assumption.
             ++ intros cs' Hc. exfalso. apply (W7 n); [eapply nlookup_in_keys; eauto|eapply nlookup_in_keys; eauto].
             ++ intros Hm. exfalso. apply Hm. apply W5. left. eapply nlookup_in_keys; eauto.
          -- rewrite data_in_snoc_other by (intros d' C; injection C as C; congruence).
             rewrite nlookup_nupdate_other by assumption. auto.
      + (* terminator *)
        destruct W as [W1 W2 W3 W4 W5 W6 W7 W8]. destruct I as [J1 J2 J3 J4 J5 J6 J7 J8 J9].
        constructor; simpl; rewrite ?rstats_snoc_other by discriminate; auto.
        * intros m. rewrite in_snoc, <- J4. split; [auto|]. intros [Hx|Hx]; [auto|discriminate].
        * intros Hx. apply in_snoc. auto.
        * intros Hx. apply in_snoc. auto.
        * rewrite J7, in_snoc. split; [auto|]. intros [Hx|Hx]; [auto|discriminate].
        * intros m [<-|Hm]; apply in_snoc; auto.
        * intros Herr m. destruct (J9 Herr m) as [D1 [D2 D3]].
          destruct (N.eq_dec m n) as [->|Hne].
          -- rewrite data_in_snoc_same. rewrite N.eqb_refl. split; [|split].
             ++ intros cs'. rewrite nlookup_nremove_same by assumption. discriminate.
             ++ intros cs' Hc. injection Hc as <-. destruct (D1 _ Hl) as [A B]. rewrite A. auto.
             ++ intros Hm. exfalso. apply Hm. apply W5. left. eapply nlookup_in_keys; eauto.
          -- rewrite data_in_snoc_other by (intros d' C; injection C as C; congruence).
             rewrite nlookup_nremove_other by assumption.
             destruct (N.eqb m n) eqn:E; [apply N.eqb_eq in E; congruence|]. auto.
      + (* FIN in *)
        eapply J_frame; eauto; simpl; try discriminate; auto.
        * split; [auto|]. intros [Hx|Hx]; [assumption|discriminate].
        * intros Herr. split; [assumption|]. discriminate.
      + (* REQ in: ignored *)
        eapply J_frame; eauto; simpl; try discriminate; auto.
        * split; [auto|]. intros [Hx|Hx]; [assumption|discriminate].
        * intros Herr. split; [assumption|]. discriminate.
      + (* fail *)
        eapply J_frame; eauto; simpl; try discriminate; auto.
        * split; [auto|]. intros [Hx|Hx]; [assumption|discriminate].
        * intros st C. injection C as ->. destruct (Hfail st) as [C|C]; [congruence|].
          apply (legal_last_stat _ _ L). apply (j_endm _ _ I). assumption.
    - (* InEof *)
      destruct H as [_ [[_ ->]|[_ ->]]]; eapply J_frame; eauto; simpl; try discriminate; auto;
        try (split; [auto|]; intros [Hx|Hx]; [assumption|discriminate]).
      intros Herr. split; [assumption|]. discriminate.
    - (* Fault *)
      subst s'. eapply J_frame; eauto; simpl; try discriminate; auto.
      split; [auto|]. intros [Hx|Hx]; [assumption|discriminate].
    - (* Progress *)
      subst s'. eapply J_frame; eauto; simpl; try discriminate; auto.
      + split; [auto|]. intros [Hx|Hx]; [assumption|discriminate].
      + intros Herr. split; [assumption|]. discriminate.
    - (* Return *)
      destruct b; [destruct H as [_ [_ [_ [_ ->]]]]|destruct H as [_ ->]];
        eapply J_frame; eauto; simpl; try discriminate; auto;
        try (split; [auto|]; intros [Hx|Hx]; [assumption|discriminate]);
        intros Herr; (split; [assumption|]; discriminate).
  Qed.

  Lemma J_run : forall tr s, receiver_run needs tr = Some s -> legal_sender tr -> rwf s /\ J tr s.
  Proof.
    intros tr s H. unfold receiver_run in H.
    apply (run_invariant step (fun tr s => legal_sender tr -> rwf s /\ J tr s) rinit); [| |exact H].
    - intros _. split; [exact rwf_init|exact J_init].
    - intros tr0 s0 e s1 IH Hs L. destruct (IH (legal_prefix _ _ L)) as [W I].
      split; [eapply rwf_step; eauto|eapply J_step; eauto].
  Qed.

  (* ================= F. flags: monotone facts and what they certify ================= *)
  (* every successor state in explicit form, for flag bookkeeping *)
  Lemma step_flags : forall s e s', step s e = Some s' ->
    r_ret s = None /\
    (r_err s = true -> r_err s' = true) /\
    (r_fin_out s = true -> r_fin_out s' = true) /\
    (forall n, List.In n (r_reqd s) -> List.In n (r_reqd s')) /\
    (r_fin_in s' = true -> r_fin_in s = true \/ e = Inp PFin) /\
    (r_fin_out s' = true -> r_fin_out s = true \/ e = Out PFin) /\
    (r_eof s' = true -> r_eof s = true \/ e = InEof) /\
    (r_ret s' = Some true -> r_fin_out s' = true /\ r_fin_in s' = true /\ r_eof s' = true /\ r_err s' = false) /\
    (r_ret s' = Some false -> r_err s' = true).
  Proof.
    intros s e s' H. apply racc_frame in H. destruct H as [Hr H]. split; [assumption|].
    destruct e as [p|p| | |n l|b].
    - destruct p as [o|n|n d| |m]; try contradiction.
      + destruct H as [st [_ [_ ->]]]. simpl. repeat split; auto; intros; congruence.
      + destruct H as [_ [_ [_ [_ ->]]]]. simpl. repeat split; auto; intros; congruence.
      + destruct H as [_ ->]. repeat split; auto; intros; congruence.
    - destruct H as [_ ->].
      destruct (on_in_cases s p) as [Hf ->|st _ -> He ->|_ -> He ->|n d cs _ -> Hd Hl ->|n cs _ -> Hl ->|_ -> ->|n _ -> ->|_ _ _ _ ->];
        simpl; repeat split; auto; intros; congruence.
    - destruct H as [_ [[_ ->]|[_ ->]]]; simpl; repeat split; auto; intros; congruence.
    - subst s'. simpl. repeat split; auto; intros; congruence.
    - subst s'. repeat split; auto; intros; congruence.
    - destruct b.
      + destruct H as [A [B [C [D ->]]]]. simpl. repeat split; auto; intros; congruence.
      + destruct H as [A ->]. simpl. repeat split; auto; intros; congruence.
  Qed.

  Definition flags_inv (tr : list event) (s : rstate) : Prop :=
    (r_fin_in s = true -> List.In (Inp PFin) tr) /\
    (r_fin_out s = true -> List.In (Out PFin) tr) /\
    (r_eof s = true -> List.In InEof tr) /\
    (r_ret s = Some true -> r_fin_out s = true /\ r_fin_in s = true /\ r_eof s = true /\ r_err s = false) /\
    (r_ret s = Some false -> r_err s = true).

  Lemma flags_inv_run : forall tr s, receiver_run needs tr = Some s -> flags_inv tr s.
  Proof.
    intros tr s H. unfold receiver_run in H.
    eapply (run_invariant step flags_inv rinit); [| |exact H].
    - unfold flags_inv. simpl. repeat split; intros; discriminate.
    - intros tr0 s0 e s1 [F1 [F2 [F3 _]]] Hs.
      destruct (step_flags _ _ _ Hs) as [_ [_ [_ [_ [G1 [G2 [G3 [G4 G5]]]]]]]].
      unfold flags_inv. repeat split; auto.
      + intros Hx. apply in_snoc. destruct (G1 Hx); auto.
      + intros Hx. apply in_snoc. destruct (G2 Hx); auto.
      + intros Hx. apply in_snoc. destruct (G3 Hx); auto.
      + apply G4; assumption.
      + apply G4; assumption.
      + apply G4; assumption.
      + apply G4; assumption.
  Qed.

  (* ================= the C07 statements ================= *)
  Lemma wanted_split : forall st, wanted st = true -> reqable st = true /\ needs (st_path st) = true.
  Proof. intros st H. unfold ReceiverAcc.wanted in H. apply andb_true_iff in H. assumption. Qed.

  Lemma req_exactly_needed_proof : forall tr s pre n post,
    receiver_run needs tr = Some s -> legal_sender tr -> tr = pre ++ Out (PReq n) :: post ->
    (exists st, nth_error (rstats pre) (N.to_nat n) = Some st /\ reqable st = true /\ needs (st_path st) = true) /\
    ~ List.In (Out (PReq n)) pre /\ ~ List.In (Out (PReq n)) post.
  Proof.
    intros tr s pre n post H L Htr. subst tr.
    unfold receiver_run in H. apply run_split in H. destruct H as [s1 [s2 [H1 [H2 H3]]]].
    destruct (J_run _ _ H1 (legal_prefix_app _ _ L)) as [W I].
    pose proof (rwf_step _ _ _ H2 W) as W2.
    apply racc_frame in H2. destruct H2 as [_ [st [Hl [Hw ->]]]].
    destruct (wanted_split _ Hw) as [Hq Hn].
    split; [|split].
    - exists st. destruct (j_files _ _ I _ _ Hl) as [A _]. auto.
    - intros C. apply (j_reqd _ _ I) in C. apply (wf_reqd_single _ W _ C). eapply nlookup_in_keys; eauto.
    - destruct (run_forall step (fun st0 => rwf st0 /\ List.In n (r_reqd st0)) (fun e => e <> Out (PReq n)))
        with (tr := post) (s := rset_request s1 n) (s' := s) as [Hall _]; [|exact H3|split; [assumption|simpl; auto]|].
      + intros st0 e st1 Hst [P1 P2]. split; [|split; [eapply rwf_step; eauto|]].
        * intros ->. apply racc_frame in Hst. destruct Hst as [_ [st' [Hl' _]]].
          apply (wf_reqd_single _ P1 _ P2). eapply nlookup_in_keys; eauto.
        * apply (step_flags _ _ _ Hst). assumption.
      + intros C. rewrite Forall_forall in Hall. apply (Hall _ C). reflexivity.
  Qed.

  Lemma needed_all_requested_proof : forall tr s pre post,
    receiver_run needs tr = Some s -> legal_sender tr -> tr = pre ++ Out PFin :: post ->
    forall k st, nth_error (rstats pre) k = Some st -> reqable st = true -> needs (st_path st) = true ->
    List.In (Out (PReq (N.of_nat k))) pre.
  Proof.
    intros tr s pre post H L Htr k st Hk Hq Hn. subst tr.
    unfold receiver_run in H. apply run_split in H. destruct H as [s1 [s2 [H1 [H2 H3]]]].
    destruct (J_run _ _ H1 (legal_prefix_app _ _ L)) as [W I].
    apply racc_frame in H2. destruct H2 as [_ [_ [_ [_ [Hnw _]]]]].
    assert (Hreg : mode_is_regular (st_mode st) = true).
    { unfold reqable in Hq. apply andb_true_iff in Hq. tauto. }
    destruct (j_cover _ _ I k st Hk Hreg) as [Hc|Hc].
    - pose proof (none_wanted_lookup _ _ _ Hnw Hc) as C. unfold ReceiverAcc.wanted in C. rewrite Hq, Hn in C. discriminate.
    - apply (j_reqd _ _ I). assumption.
  Qed.

  Lemma stored_is_concat_proof : forall tr s,
    receiver_run needs tr = Some s -> legal_sender tr -> r_err s = false ->
    forall n,
      (forall cs, nlookup n (r_open s) = Some cs -> data_in n tr = rev cs /\ Forall nonempty cs) /\
      (forall cs, nlookup n (r_stored s) = Some cs -> data_in n tr = rev cs ++ [[]] /\ Forall nonempty cs) /\
      (~ List.In (Out (PReq n)) tr -> data_in n tr = []).
  Proof.
    intros tr s H L He n. destruct (J_run _ _ H L) as [W I].
    destruct (j_data _ _ I He n) as [D1 [D2 D3]]. split; [assumption|]. split; [assumption|].
    intros C. apply D3. intros C2. apply C. apply (j_reqd _ _ I). assumption.
  Qed.

  Lemma stored_on_success_proof : forall tr s,
    receiver_run needs tr = Some s -> legal_sender tr -> r_ret s = Some true ->
    forall n, List.In (Out (PReq n)) tr ->
    exists cs, nlookup n (r_stored s) = Some cs /\ data_in n tr = rev cs ++ [[]] /\ Forall nonempty cs /\
               concat (data_in n tr) = concat (rev cs).
  Proof.
    intros tr s H L Hr n Hin. destruct (J_run _ _ H L) as [W I].
    destruct (flags_inv_run _ _ H) as [_ [_ [_ [F4 _]]]]. destruct (F4 Hr) as [Hfo [_ [_ He]]].
    destruct (wf_fin _ W Hfo) as [Ho _].
    apply (j_reqd _ _ I) in Hin. apply (wf_reqd_split _ W) in Hin. rewrite Ho in Hin. simpl in Hin.
    destruct Hin as [[]|Hin]. apply in_keys_nlookup in Hin.
    destruct (nlookup n (r_stored s)) as [cs|] eqn:El; [|congruence].
    exists cs. destruct (j_data _ _ I He n) as [_ [D2 _]]. destruct (D2 _ El) as [A B].
    repeat split; auto. rewrite A, concat_app. simpl. apply app_nil_r.
  Qed.

  Lemma fin_after_everything_proof : forall tr s pre post,
    receiver_run needs tr = Some s -> legal_sender tr -> tr = pre ++ Out PFin :: post ->
    List.In (Inp (PStat None)) pre /\
    (forall n, List.In (Out (PReq n)) pre -> List.In (Inp (PData n [])) pre) /\
    ~ List.In (Out PFin) pre /\ ~ List.In (Out PFin) post /\ (forall n, ~ List.In (Out (PReq n)) post).
  Proof.
    intros tr s pre post H L Htr. subst tr.
    unfold receiver_run in H. apply run_split in H. destruct H as [s1 [s2 [H1 [H2 H3]]]].
    destruct (J_run _ _ H1 (legal_prefix_app _ _ L)) as [W I].
    pose proof (rwf_step _ _ _ H2 W) as W2.
    apply racc_frame in H2. destruct H2 as [_ [He [Ho [Hfo [Hnw ->]]]]].
    split; [apply (j_endm _ _ I); assumption|]. split; [|split].
    - intros n Hin. apply (j_reqd _ _ I) in Hin. apply (wf_reqd_split _ W) in Hin. rewrite Ho in Hin.
      destruct Hin as [[]|Hin]. apply (j_term _ _ I). assumption.
    - intros C. apply (j_fin_out _ _ I) in C. congruence.
    - destruct (run_forall step (fun st0 => rwf st0 /\ r_fin_out st0 = true)
                  (fun e => e <> Out PFin /\ forall n, e <> Out (PReq n)))
        with (tr := post) (s := rset_fin_out s1) (s' := s) as [Hall _]; [|exact H3|split; [assumption|reflexivity]|].
      + intros st0 e st1 Hst [P1 P2]. split; [|split; [eapply rwf_step; eauto|destruct (step_flags _ _ _ Hst) as [_ [_ [Mfo _]]]; auto]].
        split.
        * intros ->. apply racc_frame in Hst. destruct Hst as [_ [_ [_ [C _]]]]. congruence.
        * intros n ->. apply racc_frame in Hst. destruct Hst as [_ [st' [Hl' [Hw' _]]]].
          destruct (wf_fin _ P1 P2) as [_ [Hn' _]]. rewrite (none_wanted_lookup _ _ _ Hn' Hl') in Hw'. discriminate.
      + rewrite Forall_forall in Hall. split.
        * intros C. destruct (Hall _ C) as [C1 _]. apply C1. reflexivity.
        * intros n C. destruct (Hall _ C) as [_ C2]. apply (C2 n). reflexivity.
  Qed.

  Lemma eof_before_fin_is_error_proof : forall tr s pre post,
    receiver_run needs tr = Some s -> tr = pre ++ InEof :: post -> ~ List.In (Inp PFin) pre ->
    r_err s = true /\ r_ret s <> Some true.
  Proof.
    intros tr s pre post H Htr Hnf. subst tr.
    destruct (flags_inv_run _ _ H) as [_ [_ [_ [F4 _]]]].
    unfold receiver_run in H. apply run_split in H. destruct H as [s1 [s2 [H1 [H2 H3]]]].
    destruct (flags_inv_run _ _ H1) as [F1 _].
    apply racc_frame in H2. destruct H2 as [_ [_ [[C _]|[_ ->]]]]; [exfalso; auto|].
    assert (He : r_err s = true).
    { eapply (run_preserves step (fun st => r_err st = true)); [|exact H3|reflexivity].
      intros st e st' Hst. apply (step_flags _ _ _ Hst). }
    split; [assumption|]. intros C. destruct (F4 C) as [_ [_ [_ C2]]]. congruence.
  Qed.

  Lemma success_shape_proof : forall tr s,
    receiver_run needs tr = Some s -> r_ret s = Some true ->
    List.In (Out PFin) tr /\ List.In (Inp PFin) tr /\ List.In InEof tr /\ r_err s = false.
  Proof.
    intros tr s H Hr. destruct (flags_inv_run _ _ H) as [F1 [F2 [F3 [F4 _]]]].
    destruct (F4 Hr) as [A [B [C D]]]. auto.
  Qed.

  Lemma failure_latched_proof : forall tr s,
    receiver_run needs tr = Some s -> r_ret s = Some false -> r_err s = true.
  Proof. intros tr s H Hr. destruct (flags_inv_run _ _ H) as [_ [_ [_ [_ F5]]]]. auto. Qed.
End ReceiverP.
