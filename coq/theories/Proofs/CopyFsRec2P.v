(* C14 — copier.copy (copy_rec) with include / exclude selection and deferred parent directories
   keeps the containment invariant.  The target is "<dstRoot>/cs/pend/x": cs real directories,
   pend the parents whose creation is still deferred (the uncopied entries of the stack). *)
From Coq Require Import List NArith Lia Bool ZifyN ZifyNat ZifyBool.
From FS Require Import Sx Model.Path Model.Fs Model.RootPath Model.CopyFs Model.CopyFsSpec
  Proofs.Lex Proofs.PathP Proofs.FsP Proofs.RootPathStrP Proofs.FsCopyFrameP Proofs.FsCopyInvP
  Proofs.FsCopySafeP Proofs.FsCopyLinksP Proofs.FsCopySysP Proofs.CopyFsP Proofs.CopyFsNrP Proofs.CopyRecP.
Import ListNotations.
Open Scope N_scope.
Open Scope bool_scope.

Section Rec2.
  Variables (c : ctx) (f0 : fs) (dr : N) (dcs : list bytes).
  Notation Ctx := (Ctx c f0 dr dcs).
  Notation tpath := (tpath dcs).
  Notation SS := (SS f0 dr).
  Notation Tgt := (Tgt c f0 dr dcs).
  Notation names_ss := (names_ss f0 dr).
  Notation stays := (stays c f0 dr dcs).
  Notation stays_ok := (stays_ok c f0 dr dcs).
  Notation mstep := (mstep c f0 dr dcs).
  Notation lok := (lok f0 dr dcs).
  Notation made := (made f0 dr).
  Notation forgotten := CopyFsP.forgotten.
  Notation uncopied := CopyRecP.uncopied.
  Notation pend_paths := (CopyRecP.pend_paths dcs).
  Notation allc := CopyRecP.allc.
  Notation stack_post := (CopyRecP.stack_post dr).
  Notation setp := CopyRecP.setp.

  Lemma stays_parents d s s' : stays d s s' -> s_parents s' = s_parents s.
  Proof. intros (_ & _ & _ & _ & Q). exact Q. Qed.

  Lemma stays_ok_of_parts {A} d s s' (r : A + N) : Ctx (s_fs s') -> above d (s_fs s) (s_fs s') ->
    (lok s -> lok s') -> FsCopyLinksP.keeps_new dr (f_next f0) (s_fs s) (s_fs s') -> stays_ok d s s' r.
  Proof. intros C0 A0 L0 K0. split; auto. Qed.

  Section Reads.
    Variable R : N -> Prop.
    Variables SP SPN : bytes -> Prop.
    Hypothesis HA : forall f p i, Ctx f -> SP p -> resolve_ino c f p false = inl i -> R i.
    Hypothesis HB : forall f p i n, Ctx f -> SP p -> resolve_ino c f p false = inl i -> get f i = Some n ->
      kind_is_link n = false -> SPN p.
    Hypothesis HC : forall f p j, Ctx f -> SPN p -> resolve_ino c f p true = inl j -> R j.
    Hypothesis HD : forall f p j pp es n, Ctx f -> SPN p -> resolve_ino c f p true = inl j ->
      dir_of f j = Some (pp, es) -> In n (map fst es) -> SP (join2 p n).
    Hypothesis HN : forall p, SPN p -> SP p.
    Notation rok := (CopyRecP.rok R).
    Notation pok := (CopyRecP.pok SPN).

  Lemma readdir_children f src names : Ctx f -> SPN src -> snd (sys_readdir c f src) = RNames names ->
    Forall (fun n => SP (join2 src n)) names.
  Proof.
    intros C Hs H. unfold sys_readdir in H. destruct (resolve_ino c f src true) as [j|e] eqn:Er; [|discriminate].
    destruct (dir_of f j) as [[pp es]|] eqn:Ed; [|discriminate]. cbn [snd] in H. injection H as <-.
    apply Forall_forall. intros n Hn. eapply HD; eauto.
  Qed.

  (* the directory read that follows the listing *)
  Lemma log_dir_reads ff src sX : Ctx ff -> SPN src ->
    exists sY, (match resolve_ino c ff src true with inl di => log_read di | inr _ => ret tt end) sX = (sY, inl tt)
               /\ s_fs sY = s_fs sX /\ s_links sY = s_links sX /\ s_parents sY = s_parents sX /\ (rok sX -> rok sY).
  Proof.
    intros C Hs. destruct (resolve_ino c ff src true) as [di|e] eqn:Er; [rewrite log_read_run|cbn [ret]];
      eexists; (split; [reflexivity|]); (split; [reflexivity|]); (split; [reflexivity|]); (split; [reflexivity|]); auto.
    intros Rk. eapply rok_cons; [reflexivity| |exact Rk]. eapply HC; eauto.
  Qed.

  (* the included, non-directory kinds and the tail of the directory case share this *)
  Lemma copy_rec_spec_r fuel : forall o sl src comps cs d pend x ow pinc pexc s s' r,
    Ctx (s_fs s) -> chain (s_fs s) dr cs d ->
    Forall nm cs -> Forall nonul cs -> Forall nm pend -> Forall nonul pend -> nm x -> nonul x ->
    uncopied (s_parents s) = pend_paths cs pend -> lok s ->
    SP src -> pok (s_parents s) -> rok s ->
    copy_rec fuel c o sl src comps (render (dcs ++ cs ++ pend ++ [x])) ow pinc pexc s = (s', r) ->
    (stays_ok d s s' r /\ (ok_res r -> stack_post cs pend s s')) /\ rok s'.
  Proof.
    induction fuel as [|k IH]; intros o sl src comps cs d pend x ow pinc pexc s s' r C Hc Hcs Hcn Hp Hpn Hx Hxn Hu L Hsp Hpk Rk H.
    { cbn [copy_rec] in H. unfold fail in H. injection H as <- <-. split; [|exact Rk]. split; [apply stays_stays_ok, stays_refl; auto|].
      intros [a Ha]; discriminate. }
    cbn [copy_rec] in H. rewrite bind_run in H. unfold get_fs at 1 in H.
    rewrite bind_run, sys_run in H. cbn [fst snd] in H. rewrite sys_lstat_fs in H.
    pose proof (cx_dcs _ _ _ _ _ C) as Hdn.
    assert (Hd : is_dir (s_fs s) d = true) by (eapply chain_end_dir; eauto).
    assert (Hsame : forall s1 (r1 : unit + N), s_fs s1 = s_fs s -> s_links s1 = s_links s -> s_parents s1 = s_parents s ->
              stays_ok d s s1 r1 /\ (ok_res r1 -> stack_post cs pend s s1)).
    { intros s1 r1 E1 E2 E3. split; [apply stays_stays_ok; apply stays_same; auto|]. intros _. left. exact E3. }
    destruct (snd (sys_lstat c (s_fs s) src)) as [|e|ino fi| | |] eqn:El;
      try (unfold fail in H; injection H as <- <-; split; [apply Hsame; reflexivity|exact Rk]).
    destruct (sys_lstat_ino c _ _ _ _ El) as [Elr Elg].
    assert (Hspn : kind_is_link fi = false -> SPN src) by (intros Hk; eapply HB; eauto).
    rewrite bind_run, log_read_run in H. cbn [s_fs s_links s_parents s_reads] in H.
    set (s1 := {| s_fs := s_fs s; s_links := s_links s; s_parents := s_parents s; s_reads := ino :: s_reads s |}) in *.
    assert (Rk1 : rok s1) by (eapply rok_cons; [reflexivity| |exact Rk]; eapply HA; eauto).
    rewrite bind_run in H.
    set (target := render (dcs ++ cs ++ pend ++ [x])) in *.
    destruct (lstat_opt_nd c target s1) as [s2 [tfi|e]] eqn:E2.
    2:{ injection H as <- <-. destruct (lstat_opt_nd_pure c _ _ _ _ E2) as (F2 & L2 & P2).
        split; [apply Hsame; auto|]. eapply rok_nr; [apply NR_lstat_opt_nd|exact E2|exact Rk1]. }
    assert (Rk2 : rok s2) by (eapply rok_nr; [apply NR_lstat_opt_nd|exact E2|exact Rk1]).
    destruct (lstat_opt_nd_pure c _ _ _ _ E2) as (F2 & L2 & P2). cbn [s_fs s_links s_parents s1] in F2, L2, P2.
    assert (C2 : Ctx (s_fs s2)) by (rewrite F2; auto).
    assert (Lk2 : lok s2) by (unfold CopyFsP.lok; rewrite F2, L2; exact L).
    assert (Hc2 : chain (s_fs s2) dr cs d) by (rewrite F2; auto).
    assert (S02 : stays d s s2) by (apply stays_same; auto).
    assert (Hpk2 : pok (s_parents s2)) by (rewrite P2; exact Hpk).
    cbv zeta in H.
    set (ri := if is_nil comps then (true, []) else sl_inc sl comps pinc) in H.
    set (re := if is_nil comps then (false, []) else sl_exc sl comps pexc) in H.
    assert (Hall : Forall nm (dcs ++ cs ++ pend ++ [x])).
    { repeat (apply Forall_app; split; auto). }
    assert (Hj : forall n, okn n -> join2 target n = render (dcs ++ cs ++ pend ++ [x] ++ [n])).
    { intros n [Hn1 _]. unfold target. rewrite join2_names by auto. rewrite <- !app_assoc. reflexivity. }
    destruct (fst ri && negb (fst re)) eqn:Einc.
    - (* selected: the deferred parents are created first *)
      rewrite bind_run in H.
      assert (Hu2 : uncopied (s_parents s2) = pend_paths cs pend) by (rewrite P2; exact Hu).
      destruct (create_parent_dirs c o ow s2) as [s3 [[]|e]] eqn:E3.
      2:{ injection H as <- <-.
          destruct (create_parent_dirs_spec_r c f0 dr dcs R SP SPN HA HC HN o ow cs d pend s2 s3 _ C2 Hc2 Hcs Hcn Hp Hpn Hu2 E3) as ((S3 & _) & Rd3).
          split; [|apply Rd3; auto].
          split; [eapply stays_ok_pre; [exact Hd|exact S02|exact S3]|intros [a Ha]; discriminate]. }
      destruct (create_parent_dirs_spec_r c f0 dr dcs R SP SPN HA HC HN o ow cs d pend s2 s3 _ C2 Hc2 Hcs Hcn Hp Hpn Hu2 E3) as ((S3 & Lk3 & EL3 & P3) & Rd3).
      assert (Rk3 : rok s3) by (apply Rd3; auto).
      destruct (P3 eq_refl) as (Pa3 & d2 & Hc3).
      assert (C3 : Ctx (s_fs s3)) by apply S3.
      assert (Hpk3 : pok (s_parents s3)) by (rewrite Pa3; apply pok_allc; exact Hpk2).
      assert (Lok3 : lok s3) by auto.
      set (cs2 := cs ++ pend) in *.
      assert (Etgt : target = tpath cs2 x).
      { unfold target, cs2, FsCopySafeP.tpath. rewrite <- !app_assoc. reflexivity. }
      assert (Hcs2 : Forall nm cs2) by (apply Forall_app; auto).
      assert (Hcn2 : Forall nonul cs2) by (apply Forall_app; auto).
      assert (T3 : Tgt (s_fs s3) cs2 d2 x) by (constructor; auto).
      (* from here on everything happens at or below d2, itself below d *)
      assert (Hq : chain (s_fs s3) d pend d2).
      { assert (Hc3d : chain (s_fs s3) dr cs d).
        { destruct S3 as (_ & A3 & _). apply (A3 dr cs d []); auto. constructor. rewrite F2. exact Hd. }
        destruct (chain_split (s_fs s3) cs dr pend d2 Hc3) as (m & P & Q). rewrite (chain_fun _ _ _ _ P _ Hc3d) in Q. exact Q. }
      assert (Hfrom3 : forall s9 (r9 : unit + N), stays_ok d2 s3 s9 r9 -> (ok_res r9 -> s_parents s9 = s_parents s3) ->
                stays_ok d s s9 r9 /\ (ok_res r9 -> stack_post cs pend s s9)).
      { intros s9 r9 S9 P9. split.
        - eapply stays_ok_pre; [exact Hd|exact S02|].
          destruct S3 as (C3' & A3 & _ & K3).
          assert (S39 : stays_ok d s3 s9 r9) by (eapply stays_ok_below; eauto).
          destruct S39 as (C9 & A9 & L9 & K9). split; auto. split; [|split].
          + eapply above_trans; eauto. rewrite F2. exact Hd.
          + intros Hr Lx. apply L9; auto.
          + eapply keeps_new_trans; eauto.
        - intros Hr. right. rewrite (P9 Hr), Pa3, P2. split; auto.
          exists d2. destruct S9 as (_ & A9 & _). apply (A9 dr cs2 d2 []); auto. constructor. eapply chain_end_dir; eauto. }
      rewrite bind_run in H. rewrite Etgt in H.
      assert (Hforg : tfi = None -> forgotten s3 (tpath cs2 x)).
      { intros ->. intros e He. rewrite EL3 in He.
        assert (G : forgotten s1 (tpath cs2 x)).
        { apply (tfi_none_forgotten c f0 dr dcs s1 s2 cs2 x); auto. rewrite Etgt in E2. exact E2. }
        apply G. cbn [s_links s1]. rewrite <- L2. exact He. }
      destruct (prep_rest c o (tpath cs2 x) fi tfi s3) as [s4 [[]|e]] eqn:E4.
      2:{ injection H as <- <-. destruct (prep_rest_spec c f0 dr dcs s3 s4 _ cs2 d2 x o fi tfi T3 Hforg E4) as (S4 & Pa4 & _).
          split; [|eapply rok_nr; [apply NR_prep_rest|exact E4|exact Rk3]].
          apply Hfrom3; [apply stays_stays_ok; exact S4|intros [a Ha]; discriminate]. }
      assert (Rk4 : rok s4) by (eapply rok_nr; [apply NR_prep_rest|exact E4|exact Rk3]).
      destruct (prep_rest_spec c f0 dr dcs s3 s4 _ cs2 d2 x o fi tfi T3 Hforg E4) as (S4 & Pa4 & P4).
      assert (T4 : Tgt (s_fs s4) cs2 d2 x) by (eapply tgt_stays; eauto).
      assert (Lok4 : lok s4) by (apply S4; auto).
      assert (Hd3 : is_dir (s_fs s3) d2 = true) by (eapply tgt_dir; eauto).
      assert (Hd4 : is_dir (s_fs s4) d2 = true) by (eapply tgt_dir; eauto).
      assert (Hfrom4 : forall s9 (r9 : unit + N), stays_ok d2 s4 s9 r9 -> (ok_res r9 -> s_parents s9 = s_parents s4) ->
                stays_ok d s s9 r9 /\ (ok_res r9 -> stack_post cs pend s s9)).
      { intros s9 r9 S9 P9. apply Hfrom3; [eapply stays_ok_pre; eauto|]. intros Hr. rewrite (P9 Hr). exact Pa4. }
      (* the common tail: finish_meta after a creation step *)
      assert (Hfin : forall s5 i, stays d2 s4 s5 -> rok s5 ->
                names_ss (s_fs s5) d2 x i -> (kind_is_link fi = false -> FsP.is_link (s_fs s5) i = false) ->
                forall s6 r6, finish_meta c o fi src (tpath cs2 x) s5 = (s6, r6) ->
                (stays_ok d s s6 r6 /\ (ok_res r6 -> stack_post cs pend s s6)) /\ rok s6).
      { intros s5 i S5 Rk5 Hn Hl s6 r6 H6.
        assert (T5 : Tgt (s_fs s5) cs2 d2 x) by (eapply tgt_stays; eauto).
        pose proof (finish_meta_spec c f0 dr dcs s5 s6 r6 cs2 d2 x i o fi src T5 Hn Hl H6) as M6.
        assert (S56 : stays d2 s5 s6) by (apply mstep_stays; exact M6).
        split; [|eapply (finish_meta_reads c f0 dr dcs R SP HA s5 s6 r6 cs2 d2 x i o fi src); eauto].
        apply Hfrom4; [apply stays_stays_ok; eapply stays_trans; eauto|].
        intros _. rewrite (stays_parents _ _ _ S56). apply (stays_parents _ _ _ S5). }
      destruct (i_kind fi) as [pp es|data|t|typ rdev] eqn:Ek.
      + (* directory *)
        rewrite bind_run in H.
        destruct (copy_directory_only c (tpath cs2 x) fi ow s4) as [s5 [created|e]] eqn:E5.
        2:{ injection H as <- <-. destruct (copy_directory_only_spec c f0 dr dcs s4 s5 _ cs2 d2 x fi ow T4 E5) as (S5 & _).
            split; [|eapply rok_nr; [apply NR_copy_directory_only|exact E5|exact Rk4]].
            apply Hfrom4; [apply stays_stays_ok; exact S5|intros [a Ha]; discriminate]. }
        assert (Rk5 : rok s5) by (eapply rok_nr; [apply NR_copy_directory_only|exact E5|exact Rk4]).
        assert (Hsn : SPN src) by (apply Hspn; unfold kind_is_link; rewrite Ek; reflexivity).
        destruct (copy_directory_only_spec c f0 dr dcs s4 s5 _ cs2 d2 x fi ow T4 E5) as (S5 & EL5 & P5).
        destruct (P5 created eq_refl) as (d1 & Hb1 & Hd1).
        assert (T5 : Tgt (s_fs s5) cs2 d2 x) by (eapply tgt_stays; eauto).
        assert (Lok5 : lok s5) by (apply S5; auto).
        rewrite bind_run, push_parent_run in H.
        set (Pst := s_parents s5 ++ [(src, tpath cs2 x, true)]) in H.
        set (s6 := setp s5 Pst) in H.
        assert (HPst : uncopied Pst = []).
        { unfold Pst. rewrite uncopied_app. rewrite (stays_parents _ _ _ S5), Pa4, Pa3. rewrite uncopied_allc. reflexivity. }
        rewrite bind_run, sys_run in H. cbn [fst snd] in H. rewrite sys_readdir_fs in H.
        (* every way out from here *)
        assert (Hout : forall s9 (r9 : unit + N), stays_ok d2 s5 s9 r9 -> (ok_res r9 -> s_parents s9 = s_parents s5) ->
                  stays_ok d s s9 r9 /\ (ok_res r9 -> stack_post cs pend s s9)).
        { intros s9 r9 S9 P9. apply Hfrom4; [eapply stays_ok_pre; eauto|]. intros Hr. rewrite (P9 Hr). apply (stays_parents _ _ _ S5). }
        destruct (snd (sys_readdir c (s_fs s6) src)) as [|e|i0 n0|b0|names|i0] eqn:Er;
          try (unfold fail in H; injection H as <- <-; split; [|exact Rk5]; apply Hout; [apply stays_ok_setp; apply T5|intros [a Ha]; discriminate]).
        pose proof (readdir_names c f0 dr (s_fs s6) src names (tgt_inv _ _ _ _ _ _ _ _ T5) Er) as Hnames.
        pose proof (readdir_children (s_fs s6) src names (tg_ctx _ _ _ _ _ _ _ _ T5) Hsn Er) as Hkids.
        rewrite bind_run in H. unfold get_fs at 1 in H. rewrite bind_run in H.
        match type of H with context [(match resolve_ino c ?ff src true with inl di => log_read di | inr _ => ret tt end) ?sX] =>
          destruct (log_dir_reads ff src sX (tg_ctx _ _ _ _ _ _ _ _ T5) Hsn) as (s7 & E7 & F7 & EL7 & Pa7 & Rd7); rewrite E7 in H end.
        cbn [s_fs s_links s_parents s6 setp] in F7, EL7, Pa7.
        assert (Rk7 : rok s7) by (apply Rd7; exact Rk5).
        assert (Hc7 : chain (s_fs s7) dr (cs2 ++ [x]) d1) by (rewrite F7; eapply chain_snoc; eauto; apply T5).
        assert (Hq7 : chain (s_fs s7) d2 [x] d1) by (rewrite F7; econstructor; eauto; constructor; auto).
        assert (S57 : stays d2 s5 s7 -> True) by auto. clear S57.
        rewrite bind_run in H.
        (* the children: everything pending has been made, the stack does not change *)
        set (I := fun s0 : cst => Ctx (s_fs s0) /\ chain (s_fs s0) dr (cs2 ++ [x]) d1 /\ s_parents s0 = Pst).
        assert (HI : forall s0, I s0 -> Ctx (s_fs s0) /\ is_dir (s_fs s0) d1 = true).
        { intros s0 (C0 & Hc0 & _). split; auto. eapply chain_end_dir; eauto. }
        assert (HpkP : pok Pst).
        { unfold Pst. apply pok_app. split; [rewrite (stays_parents _ _ _ S5), Pa4; exact Hpk3|]. constructor; [exact Hsn|constructor]. }
        set (PK := fun n : bytes => okn n /\ SP (join2 src n)).
        assert (Hg : forall n sa sb rb, PK n -> I sa -> lok sa -> rok sa ->
                  copy_rec k c o sl (join2 src n) (join2 comps n) (join2 (tpath cs2 x) n) true (snd ri) (snd re) sa = (sb, rb) ->
                  stays_ok d1 sa sb rb /\ (ok_res rb -> I sb) /\ rok sb).
        { intros n sa sb rb [Hn Hspk] (Ca & Hca & Pa) La Rka Ha.
          rewrite <- Etgt in Ha. rewrite (Hj n Hn) in Ha.
          replace (dcs ++ cs ++ pend ++ [x] ++ [n]) with (dcs ++ (cs2 ++ [x]) ++ [] ++ [n]) in Ha
            by (unfold cs2; rewrite <- !app_assoc; reflexivity).
          destruct (IH o sl (join2 src n) (join2 comps n) (cs2 ++ [x]) d1 [] n true (snd ri) (snd re) sa sb rb Ca Hca) as ((Sb & Pb) & Rkb); auto;
            try (apply Forall_app; split; auto); try apply Hn.
          { rewrite Pa. exact HPst. }
          { rewrite Pa. exact HpkP. }
          split; auto. split; [|exact Rkb]. intros Hr. destruct Sb as (Cb & Ab & _).
          split; auto. split; [apply (Ab dr (cs2 ++ [x]) d1 []); auto; constructor; eapply chain_end_dir; eauto|].
          destruct (Pb Hr) as [Eq|[Eq _]]; rewrite Eq, Pa; auto. apply allc_id. exact HPst. }
        assert (I7 : I s7) by (split; [rewrite F7; apply T5|split; [exact Hc7|rewrite Pa7; reflexivity]]).
        assert (L7 : lok s7) by (unfold CopyFsP.lok; rewrite F7, EL7; exact Lok5).
        assert (S57 : stays_ok d2 s5 s7 (@inl unit N tt)).
        { split; [rewrite F7; apply T5|]. split; [rewrite F7; apply above_refl|]. split; [intros _ _; exact L7|rewrite F7; apply keeps_new_refl]. }
        assert (HPK : Forall PK (sorted_names names)).
        { apply sorted_names_forall. apply Forall_forall. intros n Hn. rewrite Forall_forall in Hnames, Hkids. split; auto. }
        destruct (each_m (fun n => copy_rec k c o sl (join2 src n) (join2 comps n) (join2 (tpath cs2 x) n) true (snd ri) (snd re)) (sorted_names names) s7)
          as [s8 [[]|e]] eqn:E8.
        2:{ injection H as <- <-.
            destruct (each_m_inv_r c f0 dr dcs R PK I _ d1 HI Hg _ HPK s7 s8 _ I7 L7 Rk7 E8) as (S8 & _ & Rk8).
            split; [|exact Rk8].
            apply Hout; [|intros [a Ha]; discriminate].
            eapply (stays_ok_seq c f0 dr dcs d2 s5 s7 s8 tt); [eapply tgt_dir; eauto|exact S57|].
            eapply stays_ok_below; [exact Hq7|exact S8]. }
        destruct (each_m_inv_r c f0 dr dcs R PK I _ d1 HI Hg _ HPK s7 s8 _ I7 L7 Rk7 E8) as (S8 & I8 & Rk8).
        destruct (I8 (ex_intro _ tt eq_refl)) as (C8 & Hc8 & Pa8).
        rewrite bind_run, pop_parent_run in H. rewrite Pa8 in H. unfold Pst in H. rewrite removelast_last in H.
        set (s9 := setp s8 (s_parents s5)) in H.
        assert (Rk9 : rok s9) by exact Rk8.
        assert (S59 : stays_ok d2 s5 s9 (@inl unit N tt)).
        { eapply (stays_ok_seq c f0 dr dcs d2 s5 s7 s9 tt); [eapply tgt_dir; eauto|exact S57|].
          eapply (stays_ok_seq c f0 dr dcs d2 s7 s8 s9 tt); [rewrite F7; eapply tgt_dir; eauto|eapply stays_ok_below; [exact Hq7|exact S8]|].
          apply stays_ok_setp. exact C8. }
        assert (S59' : stays d2 s5 s9).
        { destruct S59 as (C9 & A9 & L9 & K9). split; auto. split; auto. split; [intros Lx; apply L9; auto; exists tt; reflexivity|]. split; auto. }
        assert (T9 : Tgt (s_fs s9) cs2 d2 x) by (eapply tgt_stays; eauto).
        assert (Hc9 : chain (s_fs s9) dr (cs2 ++ [x]) d1) by exact Hc8.
        destruct (chain_last dr (s_fs s9) cs2 d2 x d1 d2 Hc9 (tg_chain _ _ _ _ _ _ _ _ T9) eq_refl) as [Hb9 Hi9].
        assert (Hn9 : names_ss (s_fs s9) d2 x d1).
        { split; auto. eapply (chain_SS f0 dr (s_fs s9)); [eapply tgt_inv; eauto|exact Hc9|eapply ctx_dr_SS; apply T9]. }
        assert (Hl9 : FsP.is_link (s_fs s9) d1 = false).
        { unfold FsP.is_link. unfold is_dir, dir_of in Hi9. destruct (get (s_fs s9) d1) as [[[? ?|?|?|? ?] ?]|]; auto; discriminate. }
        assert (S49 : stays d2 s4 s9) by (eapply stays_trans; eauto).
        destruct (ow || created).
        * eapply (Hfin s9 d1); eauto.
        * destruct tfi.
          -- destruct (copy_file_timestamp c o fi (tpath cs2 x) s9) as [s10 r10] eqn:E10.
             pose proof (copy_file_timestamp_spec c f0 dr dcs s9 s10 r10 cs2 d2 x d1 o fi T9 Hn9 E10) as M10.
             injection H as <- <-. assert (S910 : stays d2 s9 s10) by (apply mstep_stays; exact M10).
             split; [|eapply rok_nr; [apply NR_copy_file_timestamp|exact E10|exact Rk9]].
             apply Hfrom4; [apply stays_stays_ok; eapply stays_trans; eauto|].
             intros _. rewrite (stays_parents _ _ _ S910). apply (stays_parents _ _ _ S49).
          -- cbn [ret] in H. injection H as <- <-. split; [|exact Rk9].
             apply Hfrom4; [apply stays_stays_ok; exact S49|]. intros _. apply (stays_parents _ _ _ S49).
      + (* regular file *)
        assert (Hkd : kind_is_dir fi = false) by (unfold kind_is_dir; rewrite Ek; reflexivity).
        assert (Hkl : kind_is_link fi = false) by (unfold kind_is_link; rewrite Ek; reflexivity).
        pose proof (P4 eq_refl Hkd) as Hab.
        rewrite bind_run in H.
        destruct (copy_regular c src (tpath cs2 x) ino (N.ltb 1 (nlink (s_fs s) ino)) s4) as [s5 [[]|e]] eqn:E5.
        * destruct (copy_regular_spec c f0 dr dcs s4 s5 _ cs2 d2 x src ino _ T4 Hab Lok4 E5) as (S5 & Pa5 & P5).
          assert (Rk5 : rok s5) by (eapply (copy_regular_reads c f0 dr dcs R SPN HC); [apply T4|apply Hspn; exact Hkl|exact E5|exact Rk4]).
          destruct (P5 eq_refl) as (i & Hn & _ & Hl).
          assert (S5' : stays d2 s4 s5).
          { destruct S5 as (C5 & A5 & L5 & K5). split; auto. split; auto. split; [intros Lx; apply L5; auto; exists tt; reflexivity|]. split; auto. }
          eapply (Hfin s5 i); eauto.
        * injection H as <- <-. destruct (copy_regular_spec c f0 dr dcs s4 s5 _ cs2 d2 x src ino _ T4 Hab Lok4 E5) as (S5 & Pa5 & _).
          split; [|eapply (copy_regular_reads c f0 dr dcs R SPN HC); [apply T4|apply Hspn; exact Hkl|exact E5|exact Rk4]].
          apply Hfrom4; [exact S5|intros [a Ha]; discriminate].
      + (* symlink *)
        assert (Hkl : kind_is_link fi = true) by (unfold kind_is_link; rewrite Ek; reflexivity).
        rewrite bind_run, sys_run in H. cbn [fst snd] in H. rewrite sys_readlink_fs in H.
        destruct (snd (sys_readlink c (s_fs s4) src)) as [|e|i0 n0|tgt|l0|i0];
          try (unfold fail in H; injection H as <- <-; split; [|exact Rk4]; apply Hfrom4; [apply stays_stays_ok, stays_same; auto; apply T4|intros [a Ha]; discriminate]).
        set (s5 := {| s_fs := s_fs s4; s_links := s_links s4; s_parents := s_parents s4; s_reads := s_reads s4 |}) in H.
        assert (T5 : Tgt (s_fs s5) cs2 d2 x) by exact T4.
        rewrite bind_run, sys_run in H. cbn [fst snd] in H.
        destruct (sys_symlink c (s_fs s5) tgt (tpath cs2 x)) as [f6 r6] eqn:E6. cbn [fst snd] in H.
        pose proof (g_symlink c f0 dr dcs _ cs2 d2 x _ f6 r6 T5 E6) as G6.
        pose proof (k_symlink c f0 dr dcs _ cs2 d2 x _ f6 r6 T5 E6) as K6.
        destruct (t_symlink c f0 dr dcs _ cs2 d2 x _ f6 r6 T5 E6) as (C6 & A6 & P6).
        fold (mk s5 f6) in H.
        assert (S6 : stays d2 s4 (mk s5 f6)).
        { destruct (stays_grows c f0 dr dcs d2 s5 f6 C6 A6 G6 K6) as (X1 & X2 & X3 & X4 & X5). split; auto. }
        rewrite bind_run, expect_ok_run in H.
        destruct P6 as [[e ->]|[-> Hcr]].
        * injection H as <- <-. split; [|exact Rk4]. apply Hfrom4; [apply stays_stays_ok; exact S6|intros [a Ha]; discriminate].
        * eapply (Hfin (mk s5 f6) (f_next (s_fs s5))); eauto.
          -- split; [apply Hcr|right; apply Hcr].
          -- intros E. congruence.
      + (* device, fifo, socket *)
        assert (Hkl : kind_is_link fi = false) by (unfold kind_is_link; rewrite Ek; reflexivity).
        rewrite bind_run in H.
        destruct (copy_device c (tpath cs2 x) fi s4) as [s5 [[]|e]] eqn:E5.
        * destruct (copy_device_spec c f0 dr dcs s4 s5 _ cs2 d2 x fi T4 E5) as (S5 & _ & P5).
          assert (Rk5 : rok s5) by (eapply rok_nr; [apply NR_copy_device|exact E5|exact Rk4]).
          destruct (P5 eq_refl) as (i & Hn & _ & Hl).
          eapply (Hfin s5 i); eauto.
        * injection H as <- <-. destruct (copy_device_spec c f0 dr dcs s4 s5 _ cs2 d2 x fi T4 E5) as (S5 & _).
          split; [|eapply rok_nr; [apply NR_copy_device|exact E5|exact Rk4]].
          apply Hfrom4; [apply stays_stays_ok; exact S5|intros [a Ha]; discriminate].
    - (* not selected *)
      destruct (i_kind fi) as [pp es|data|t|typ rdev] eqn:Ek;
        try (cbn [ret] in H; injection H as <- <-; split; [|exact Rk2]; split; [apply stays_stays_ok; exact S02|intros _; left; exact P2]).
      assert (Hsn : SPN src) by (apply Hspn; unfold kind_is_link; rewrite Ek; reflexivity).
      rewrite bind_run, push_parent_run in H.
      set (Pst := s_parents s2 ++ [(src, target, false)]) in H.
      set (s3 := setp s2 Pst) in H.
      assert (HuP : uncopied Pst = pend_paths cs (pend ++ [x])).
      { unfold Pst. rewrite uncopied_app, P2, Hu, pend_paths_app. f_equal. simpl. unfold target. rewrite <- !app_assoc. reflexivity. }
      rewrite bind_run, sys_run in H. cbn [fst snd] in H. rewrite sys_readdir_fs in H.
      assert (Hout : forall s9 (r9 : unit + N), stays_ok d s2 s9 r9 -> (ok_res r9 -> stack_post cs pend s2 s9) ->
                stays_ok d s s9 r9 /\ (ok_res r9 -> stack_post cs pend s s9)).
      { intros s9 r9 S9 P9. split; [eapply stays_ok_pre; eauto|]. intros Hr.
        destruct (P9 Hr) as [Eq|[Eq Hch]]; [left|right]; rewrite Eq, P2; auto. }
      destruct (snd (sys_readdir c (s_fs s3) src)) as [|e|i0 n0|b0|names|i0] eqn:Er;
        try (unfold fail in H; injection H as <- <-; split; [|exact Rk2]; apply Hout; [apply stays_ok_setp; exact C2|intros [a Ha]; discriminate]).
      pose proof (readdir_names c f0 dr (s_fs s3) src names (cx_inv _ _ _ _ _ C2) Er) as Hnames.
      pose proof (readdir_children (s_fs s3) src names C2 Hsn Er) as Hkids.
      rewrite bind_run in H. unfold get_fs at 1 in H. rewrite bind_run in H.
      match type of H with context [(match resolve_ino c ?ff src true with inl di => log_read di | inr _ => ret tt end) ?sX] =>
        destruct (log_dir_reads ff src sX C2 Hsn) as (s7 & E7 & F7 & EL7 & Pa7 & Rd7); rewrite E7 in H end.
      cbn [s_fs s_links s_parents s3 setp] in F7, EL7, Pa7.
      assert (Rk7 : rok s7) by (apply Rd7; exact Rk2).
      assert (HpkP : pok Pst).
      { unfold Pst. apply pok_app. split; [exact Hpk2|]. constructor; [exact Hsn|constructor]. }
      set (PK := fun n : bytes => okn n /\ SP (join2 src n)).
      rewrite bind_run in H.
      (* the children: the stack is as pushed, or a selected descendant has had every parent made *)
      set (I := fun s0 : cst => Ctx (s_fs s0) /\ chain (s_fs s0) dr cs d /\
                 (s_parents s0 = Pst \/ (s_parents s0 = allc Pst /\ exists d', chain (s_fs s0) dr (cs ++ pend ++ [x]) d'))).
      assert (HI : forall s0, I s0 -> Ctx (s_fs s0) /\ is_dir (s_fs s0) d = true).
      { intros s0 (C0 & Hc0 & _). split; auto. eapply chain_end_dir; eauto. }
      assert (Hg : forall n sa sb rb, PK n -> I sa -> lok sa -> rok sa ->
                copy_rec k c o sl (join2 src n) (join2 comps n) (join2 target n) true (snd ri) (snd re) sa = (sb, rb) ->
                stays_ok d sa sb rb /\ (ok_res rb -> I sb) /\ rok sb).
      { intros n sa sb rb [Hn Hspk] (Ca & Hca & Pa) La Rka Ha. rewrite (Hj n Hn) in Ha.
        destruct Pa as [Pa|[Pa (d' & Hd')]].
        - (* still pending *)
          replace (dcs ++ cs ++ pend ++ [x] ++ [n]) with (dcs ++ cs ++ (pend ++ [x]) ++ [n]) in Ha by (rewrite <- !app_assoc; reflexivity).
          destruct (IH o sl (join2 src n) (join2 comps n) cs d (pend ++ [x]) n true (snd ri) (snd re) sa sb rb Ca Hca) as ((Sb & Pb) & Rkb); auto;
            try (apply Forall_app; split; auto); try apply Hn.
          { rewrite Pa. exact HuP. }
          { rewrite Pa. exact HpkP. }
          split; auto. split; [|exact Rkb]. intros Hr. destruct Sb as (Cb & Ab & _).
          split; auto. split; [apply (Ab dr cs d []); auto; constructor; eapply chain_end_dir; eauto|].
          destruct (Pb Hr) as [Eq|[Eq Hch]]; [left|right]; rewrite Eq, Pa; auto.
        - (* all parents exist *)
          replace (dcs ++ cs ++ pend ++ [x] ++ [n]) with (dcs ++ (cs ++ pend ++ [x]) ++ [] ++ [n]) in Ha by (rewrite <- !app_assoc; reflexivity).
          assert (Hq' : chain (s_fs sa) d (pend ++ [x]) d').
          { destruct (chain_split (s_fs sa) cs dr (pend ++ [x]) d' Hd') as (m & P & Q). rewrite (chain_fun _ _ _ _ P _ Hca) in Q. exact Q. }
          destruct (IH o sl (join2 src n) (join2 comps n) (cs ++ pend ++ [x]) d' [] n true (snd ri) (snd re) sa sb rb Ca Hd') as ((Sb & Pb) & Rkb); auto;
            try (repeat (apply Forall_app; split; auto)); try apply Hn.
          { rewrite Pa. apply uncopied_allc. }
          { rewrite Pa. apply pok_allc. exact HpkP. }
          split; [eapply stays_ok_below; eauto|]. split; [|exact Rkb]. intros Hr. destruct Sb as (Cb & Ab & _).
          split; auto. split; [apply (Ab dr cs d (pend ++ [x])); auto|].
          right. split.
          + destruct (Pb Hr) as [Eq|[Eq _]]; rewrite Eq, Pa; auto. apply allc_idem.
          + exists d'. apply (Ab dr (cs ++ pend ++ [x]) d' []); auto. constructor. eapply chain_end_dir; eauto. }
      assert (I7 : I s7) by (split; [rewrite F7; exact C2|split; [rewrite F7; exact Hc2|left; rewrite Pa7; reflexivity]]).
      assert (L7 : lok s7) by (unfold CopyFsP.lok; rewrite F7, EL7; exact Lk2).
      assert (S27 : stays_ok d s2 s7 (@inl unit N tt)).
      { split; [rewrite F7; exact C2|]. split; [rewrite F7; apply above_refl|]. split; [intros _ _; exact L7|rewrite F7; apply keeps_new_refl]. }
      assert (Hd2 : is_dir (s_fs s2) d = true) by (rewrite F2; exact Hd).
      assert (HPK : Forall PK (sorted_names names)).
      { apply sorted_names_forall. apply Forall_forall. intros n Hn. rewrite Forall_forall in Hnames, Hkids. split; auto. }
      destruct (each_m (fun n => copy_rec k c o sl (join2 src n) (join2 comps n) (join2 target n) true (snd ri) (snd re)) (sorted_names names) s7)
        as [s8 [[]|e]] eqn:E8.
      2:{ injection H as <- <-.
          destruct (each_m_inv_r c f0 dr dcs R PK I _ d HI Hg _ HPK s7 s8 _ I7 L7 Rk7 E8) as (S8 & _ & Rk8).
          split; [|exact Rk8].
          apply Hout; [|intros [a Ha]; discriminate].
          eapply (stays_ok_seq c f0 dr dcs d s2 s7 s8 tt); [exact Hd2|exact S27|exact S8]. }
      destruct (each_m_inv_r c f0 dr dcs R PK I _ d HI Hg _ HPK s7 s8 _ I7 L7 Rk7 E8) as (S8 & I8 & Rk8).
      destruct (I8 (ex_intro _ tt eq_refl)) as (C8 & Hc8 & Pa8).
      rewrite pop_parent_run in H. injection H as <- <-.
      split; [|exact Rk8].
      apply Hout.
      + eapply (stays_ok_seq c f0 dr dcs d s2 s7 _ tt); [exact Hd2|exact S27|].
        eapply (stays_ok_seq c f0 dr dcs d s7 s8 _ tt); [rewrite F7; exact Hd2|exact S8|]. apply stays_ok_setp. exact C8.
      + intros _. cbn [s_parents setp s_fs]. destruct Pa8 as [Pa8|[Pa8 (d' & Hd')]]; rewrite Pa8.
        * left. unfold Pst. rewrite removelast_last. reflexivity.
        * right. split; [unfold Pst; rewrite removelast_allc, removelast_last; reflexivity|].
          rewrite app_assoc in Hd'. destruct (chain_split (s_fs s8) (cs ++ pend) dr [x] d' Hd') as (m & P & _). eauto.
  Qed.
  End Reads.

  Lemma copy_rec_spec fuel : forall o sl src comps cs d pend x ow pinc pexc s s' r,
    Ctx (s_fs s) -> chain (s_fs s) dr cs d ->
    Forall nm cs -> Forall nonul cs -> Forall nm pend -> Forall nonul pend -> nm x -> nonul x ->
    uncopied (s_parents s) = pend_paths cs pend -> lok s ->
    copy_rec fuel c o sl src comps (render (dcs ++ cs ++ pend ++ [x])) ow pinc pexc s = (s', r) ->
    stays_ok d s s' r /\ (ok_res r -> stack_post cs pend s s').
  Proof.
    intros o sl src comps cs d pend x ow pinc pexc s s' r C Hc Hcs Hcn Hp Hpn Hx Hxn Hu L H.
    pose proof (copy_rec_spec_r (fun _ => True) (fun _ => True) (fun _ => True)) as G.
    eapply G; eauto; try (intros; exact I).
    - apply Forall_forall. intros; exact I.
    - intros i _. exact I.
  Qed.
End Rec2.
