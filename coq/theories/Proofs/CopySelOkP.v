(* The copier's selection side never fails on a type-compatible destination: every source path
   that exists in the destination has the same kind (directory / non-directory) there.  In
   particular a mkdir / create never misses its parent directory (ENoParent): creating parents on
   demand is enough.  Independent of the patterns and of the matcher. *)
From Coq Require Import List NArith Lia Bool.
From FS Require Import Sx Model.Path Model.Stat Model.Tree Model.Pattern Model.FilterWalk Model.CopierSel
  Proofs.Lex Proofs.PathP Proofs.PatternP Proofs.FilterP Proofs.FlatRefP Proofs.CopySelP Proofs.CopySelThmP.
Import ListNotations.
Open Scope bool_scope.

Notation epath e := (st_path (fst e)) (only parsing).

Lemma e_dir_meta src e : e_dir (xattr_entry src (info_entry src e)) = e_dir e.
Proof.
  unfold e_dir, xattr_entry, info_entry. cbn [fst].
  change (st_is_dir (set_xattrs (chmod_stat src (chown_stat src (fst e))) _)) with (st_is_dir (chmod_stat src (chown_stat src (fst e)))).
  rewrite isdir_chmod. reflexivity.
Qed.

Section Ok.
Variable view : list node.
Hypothesis Hwf : wf_tree view = true.
Notation all := (walk_root view).

(* every destination entry at a source path has the kind of the source entry *)
Definition compat (fs : dfs) : Prop :=
  forall e o, In e all -> fs (epath e) = Some o -> e_dir o = st_is_dir (fst e).

(* fs' differs from fs only at source paths, where it holds entries of the source's kind *)
Definition ext (fs fs' : dfs) : Prop :=
  forall q, fs' q = fs q \/ exists x o, In x all /\ epath x = q /\ fs' q = Some o /\ e_dir o = st_is_dir (fst x).

Lemma ext_refl fs : ext fs fs.
Proof. intros q. left. reflexivity. Qed.

Lemma ext_trans a b c' : ext a b -> ext b c' -> ext a c'.
Proof.
  intros H1 H2 q. destruct (H2 q) as [E|X]; [|right; exact X].
  rewrite E. apply H1.
Qed.

Lemma same_path_same_entry e x : In e all -> In x all -> epath e = epath x -> e = x.
Proof.
  intros He Hx E. eapply (NoDup_map_inj (fun y : Tree.entry => st_path (fst y))); eauto. apply walk_root_nodup; auto.
Qed.

Lemma ext_compat fs fs' : compat fs -> ext fs fs' -> compat fs'.
Proof.
  intros HG Hx e o He Ho. destruct (Hx (epath e)) as [E|(x & o' & Hxin & Ex & Eo & Ed)].
  - rewrite E in Ho. eapply HG; eauto.
  - rewrite Eo in Ho. inversion Ho; subst o'. rewrite (same_path_same_entry e x He Hxin (eq_sym Ex)). exact Ed.
Qed.

Lemma ext_root fs fs' : parent_ok [] fs = true -> ext fs fs' -> parent_ok [] fs' = true.
Proof.
  intros H Hx. unfold parent_ok in *. destruct (Hx []) as [E|(x & o' & Hxin & Ex & _)].
  - rewrite E. exact H.
  - exfalso. exact (walk_root_nonempty view x Hwf Hxin Ex).
Qed.

Lemma ext_pok fs fs' st ct : In (st, ct) all -> st_is_dir st = true ->
  parent_ok (st_path st) fs = true -> ext fs fs' -> parent_ok (st_path st) fs' = true.
Proof.
  intros Hin Hd H Hx. unfold parent_ok in *. destruct (Hx (st_path st)) as [E|(x & o' & Hxin & Ex & Eo & Ed)].
  - rewrite E. exact H.
  - rewrite Eo. rewrite Ed. rewrite <- (same_path_same_entry (st, ct) x Hin Hxin (eq_sym Ex)). exact Hd.
Qed.

Lemma ext_put fs p e st ct : In (st, ct) all -> st_path st = p -> e_dir e = st_is_dir st -> ext fs (fput p e fs).
Proof.
  intros Hin Hp He q. rewrite fput_at. destruct (bytes_eqb q p) eqn:Eq; [|left; reflexivity].
  apply bytes_eqb_eq in Eq. subst q. right. exists (st, ct), e. auto.
Qed.

Lemma ext_meta fs p st ct : In (st, ct) all -> st_path st = p ->
  (forall o, fs p = Some o -> e_dir o = st_is_dir st) -> ext fs (copy_meta st p fs).
Proof.
  intros Hin Hp Ho q. rewrite copy_meta_at. destruct (bytes_eqb q p) eqn:Eq; [|left; reflexivity].
  apply bytes_eqb_eq in Eq. subst q. destruct (fs p) as [o|] eqn:E; [|left; reflexivity].
  right. exists (st, ct), (xattr_entry st (info_entry st o)). cbn [option_map]. repeat split; auto.
  rewrite e_dir_meta. apply Ho. reflexivity.
Qed.

(* ---------- the stack ---------- *)
Definition item_ok (d : pdir) : Prop := In (pd_st d, pd_ct d) all /\ st_is_dir (pd_st d) = true.
Definition items_ok (S : list pdir) : Prop := Forall item_ok S.
Definition exist_copied (S : list pdir) (fs : dfs) : Prop :=
  Forall (fun d => pd_copied d = true -> parent_ok (st_path (pd_st d)) fs = true) S.
Definition exist_all (S : list pdir) (fs : dfs) : Prop :=
  Forall (fun d => parent_ok (st_path (pd_st d)) fs = true) S.

Fixpoint linked (prev : bytes) (S : list pdir) (dir : bytes) : Prop :=
  match S with
  | [] => prev = dir
  | d :: r => pd_dir d = prev /\ linked (st_path (pd_st d)) r dir
  end.

Lemma linked_mark S : forall prev dir, linked prev S dir -> linked prev (mark S) dir.
Proof. induction S as [|d r IH]; intros prev dir H; [exact H|]. destruct H as [H1 H2]. split; [exact H1|]. apply IH. exact H2. Qed.

Lemma linked_snoc S : forall prev dir d, linked prev S dir -> pd_dir d = dir -> linked prev (S ++ [d]) (st_path (pd_st d)).
Proof.
  induction S as [|x r IH]; intros prev dir d H Hd.
  - cbn in *. subst. auto.
  - destruct H as [H1 H2]. split; [exact H1|]. eapply IH; eauto.
Qed.

Lemma items_ok_mark S : items_ok S -> items_ok (mark S).
Proof. unfold items_ok, mark. intros H. apply Forall_map. eapply Forall_impl; [|exact H]. intros d Hd. exact Hd. Qed.

Lemma exist_all_ext S fs fs' : items_ok S -> exist_all S fs -> ext fs fs' -> exist_all S fs'.
Proof.
  unfold items_ok, exist_all. intros HI HE Hx. rewrite Forall_forall in *. intros d Hd.
  destruct (HI d Hd) as [Hin Hdir]. eapply ext_pok; eauto.
Qed.

Lemma exist_copied_ext S fs fs' : items_ok S -> exist_copied S fs -> ext fs fs' -> exist_copied S fs'.
Proof.
  unfold items_ok, exist_copied. intros HI HE Hx. rewrite Forall_forall in *. intros d Hd Hc.
  destruct (HI d Hd) as [Hin Hdir]. eapply ext_pok; eauto.
Qed.

Lemma exist_all_copied S fs : exist_all S fs -> exist_copied (mark S) fs.
Proof. unfold exist_all, exist_copied, mark. intros H. apply Forall_map. eapply Forall_impl; [|exact H]. intros d Hd _. exact Hd. Qed.

Lemma exist_all_mark S fs : exist_all S fs -> exist_all (mark S) fs.
Proof. unfold exist_all, mark. intros H. apply Forall_map. eapply Forall_impl; [|exact H]. intros d Hd. exact Hd. Qed.

Lemma copy_dir_only_ok dirp st ct fs :
  In (st, ct) all -> st_is_dir st = true -> compat fs -> parent_ok dirp fs = true ->
  exists fs2 cr, copy_dir_only dirp (st_path st) st fs = (fs2, None, cr) /\ ext fs fs2
                 /\ parent_ok (st_path st) fs2 = true
                 /\ ext fs (if cr then copy_meta st (st_path st) fs2 else fs2)
                 /\ parent_ok (st_path st) (if cr then copy_meta st (st_path st) fs2 else fs2) = true.
Proof.
  intros Hin Hd HG Hp. unfold copy_dir_only.
  destruct (fs (st_path st)) as [o|] eqn:E.
  - pose proof (HG (st, ct) o Hin E) as Ho. cbn [fst] in Ho. rewrite Hd in Ho. rewrite Ho.
    assert (Hx : ext fs (fput (st_path st) (chmod_stat st (fst o), snd o) fs)).
    { eapply ext_put; eauto. unfold e_dir. cbn [fst]. rewrite isdir_chmod. rewrite Hd. exact Ho. }
    assert (Hk : parent_ok (st_path st) (fput (st_path st) (chmod_stat st (fst o), snd o) fs) = true).
    { unfold parent_ok. rewrite fput_at, bytes_eqb_refl. unfold e_dir. cbn [fst]. rewrite isdir_chmod. exact Ho. }
    eexists. exists false. repeat split; auto.
  - rewrite Hp.
    assert (Hx : ext fs (fput (st_path st) (blank_dir (st_path st)) fs)).
    { eapply ext_put; eauto; rewrite Hd; reflexivity. }
    assert (Hk : parent_ok (st_path st) (fput (st_path st) (blank_dir (st_path st)) fs) = true).
    { unfold parent_ok. rewrite fput_at, bytes_eqb_refl. reflexivity. }
    assert (Hx2 : ext (fput (st_path st) (blank_dir (st_path st)) fs)
                      (copy_meta st (st_path st) (fput (st_path st) (blank_dir (st_path st)) fs))).
    { eapply ext_meta; eauto. intros o. rewrite fput_at, bytes_eqb_refl. intros X. inversion X; subst. rewrite Hd. reflexivity. }
    eexists. exists true. repeat split; auto.
    + eapply ext_trans; eauto.
    + eapply ext_pok; eauto.
Qed.

Lemma create_parents_succeeds S : forall prev dir fs fs' S' em err,
  create_parents S fs = (fs', S', em, err) ->
  items_ok S -> linked prev S dir -> parent_ok prev fs = true -> exist_copied S fs -> compat fs ->
  err = None /\ ext fs fs' /\ exist_all S fs' /\ parent_ok dir fs' = true.
Proof.
  induction S as [|d r IH]; intros prev dir fs fs' S' em err H HI HL Hp HE HG.
  - cbn in H. inversion H; subst. cbn in HL. subst. repeat split; auto using ext_refl. constructor.
  - inversion HI as [|? ? [Hin Hd] HIr]; subst. destruct HL as [HL1 HL2]. inversion HE as [|? ? HEd HEr]; subst.
    cbn [create_parents] in H. destruct (pd_copied d) eqn:Ec.
    + destruct (create_parents r fs) as [[[f1 r1] e1] er] eqn:E1. inversion H; subst.
      destruct (IH _ _ _ _ _ _ _ E1 HIr HL2 (HEd eq_refl) HEr HG) as (-> & Hx & Ha & Hdir).
      repeat split; auto. constructor; auto. eapply ext_pok; eauto.
    + destruct (copy_dir_only_ok (pd_dir d) (pd_st d) (pd_ct d) fs Hin Hd HG Hp) as (fs2 & cr & E0 & Hx0 & Hk0 & Hx1 & Hk1).
      rewrite E0 in H.
      destruct (create_parents r (if cr then copy_meta (pd_st d) (st_path (pd_st d)) fs2 else fs2)) as [[[f3 r3] e3] er] eqn:E1.
      inversion H; subst.
      destruct (IH _ _ _ _ _ _ _ E1 HIr HL2 Hk1 (exist_copied_ext _ _ _ HIr HEr Hx1) (ext_compat _ _ HG Hx1)) as (-> & Hx & Ha & Hdir).
      repeat split; auto.
      * eapply ext_trans; eauto.
      * constructor; auto. eapply ext_pok; eauto.
Qed.

(* ---------- nodes ---------- *)
Variable pmatch : bytes -> bytes -> bool.
Variable c : cfg.
Notation cnode := (copy_node pmatch c).
Notation cforest := (copy_forest pmatch c).

Record inv (S : list pdir) (dir : bytes) (fs : dfs) : Prop := {
  inv_items : items_ok S;
  inv_linked : linked [] S dir;
  inv_root : parent_ok [] fs = true;
  inv_exist : exist_copied S fs;
  inv_compat : compat fs
}.

Definition after (S S' : list pdir) (fs' : dfs) : Prop := S' = S \/ (S' = mark S /\ exist_all S fs').

Lemma inv_step S dir fs fs' S' : inv S dir fs -> ext fs fs' -> after S S' fs' -> inv S' dir fs'.
Proof.
  intros [H1 H2 H3 H4 H5] Hx [->|[-> Ha]].
  - constructor; auto. eapply ext_root; eauto. eapply exist_copied_ext; eauto. eapply ext_compat; eauto.
  - constructor.
    + apply items_ok_mark; auto.
    + apply linked_mark; auto.
    + eapply ext_root; eauto.
    + apply exist_all_copied; auto.
    + eapply ext_compat; eauto.
Qed.

Definition succ_node (n : node) : Prop :=
  wf_tree_node n = true ->
  forall dir pinc pexc S fs fs' S' em err,
    cnode dir n pinc pexc S fs = (fs', S', em, err) ->
    (forall e, In e (walk_node dir n) -> In e all) -> inv S dir fs ->
    err = None /\ ext fs fs' /\ after S S' fs'.

Lemma succ_forest l : Forall succ_node l -> forallb wf_tree_node l = true ->
  forall dir pinc pexc S fs fs' S' em err,
    cforest dir l pinc pexc S fs = (fs', S', em, err) ->
    (forall e, In e (walk_forest dir l) -> In e all) -> inv S dir fs ->
    err = None /\ ext fs fs' /\ after S S' fs'.
Proof.
  induction l as [|k r IH]; intros HF Hw dir pinc pexc S fs fs' S' em err H Hall HI.
  - cbn in H. inversion H; subst. repeat split; auto using ext_refl. left. reflexivity.
  - inversion HF as [|? ? Hk Hr]; subst. cbn [forallb] in Hw. apply andb_true_iff in Hw. destruct Hw as [Hwk Hwr].
    cbn [copy_forest] in H.
    destruct (cnode dir k pinc pexc S fs) as [[[f1 S1] e1] x1] eqn:E1.
    destruct (Hk Hwk _ _ _ _ _ _ _ _ _ E1) as (-> & Hx1 & Ha1); auto.
    { intros e He. apply Hall. cbn [walk_forest]. apply in_or_app. left; auto. }
    destruct (cforest dir r pinc pexc S1 f1) as [[[f2 S2] e2] x2] eqn:E2. inversion H; subst.
    pose proof (inv_step _ _ _ _ _ HI Hx1 Ha1) as HI1.
    destruct (IH Hr Hwr _ _ _ _ _ _ _ _ _ E2) as (-> & Hx2 & Ha2); auto.
    { intros e He. apply Hall. cbn [walk_forest]. apply in_or_app. right; auto. }
    repeat split; auto. { eapply ext_trans; eauto. }
    destruct Ha1 as [->|[-> Ha1]]; [exact Ha2|].
    right. destruct Ha2 as [->|[-> Ha2]].
    + split; [reflexivity|]. eapply exist_all_ext; eauto. apply (inv_items _ _ _ HI).
    + rewrite mark_idem. split; [reflexivity|].
      unfold exist_all, mark in Ha2. rewrite Forall_map in Ha2. exact Ha2.
Qed.

Lemma child_ne_dir dir name : name <> [] -> bytes_eqb dir (child_path dir name) = false.
Proof.
  intros Hne. apply bytes_eqb_neq. unfold child_path. destruct dir as [|a d]; [congruence|].
  intros E. apply (f_equal (@length N)) in E. rewrite app_length in E. cbn in E. lia.
Qed.

Lemma linked_last_exists S : forall prev dir fs, linked prev S dir -> parent_ok prev fs = true -> exist_all S fs ->
  parent_ok dir fs = true.
Proof.
  induction S as [|d r IH]; intros prev dir fs HL Hp Ha.
  - cbn in HL. subst. exact Hp.
  - destruct HL as [_ HL]. inversion Ha; subst. eapply IH; eauto.
Qed.

Lemma succ_node_all : forall n, succ_node n.
Proof.
  induction n as [name st0 ct kids IHk] using node_ind2.
  intros Hwfn dir pinc pexc S fs fs' S' em err H Hall HI.
  apply wf_tree_node_inv in Hwfn. destruct Hwfn as (Hne & Hns & Hdk & _ & Hkids).
  rewrite copy_node_eq in H. cbv zeta in H.
  set (p := child_path dir name) in *.
  set (incl := fst (sel_inc pmatch c p pinc) && negb (fst (sel_exc pmatch c p pexc))) in *.
  assert (Hself : In (set_path st0 p, ct) all) by (apply Hall; rewrite walk_node_eq; left; reflexivity).
  assert (Hkidsall : forall e, In e (walk_forest p kids) -> In e all) by (intros e He; apply Hall; rewrite walk_node_eq; right; exact He).
  destruct HI as [H1 H2 H3 H4 H5].
  destruct incl eqn:Einc.
  - (* selected *)
    destruct (create_parents S fs) as [[[fs1 S1] em1] er] eqn:E1.
    destruct (create_parents_succeeds S [] dir _ _ _ _ _ E1 H1 H2 H3 H4 H5) as (-> & Hx1 & Ha1 & Hdir1).
    destruct (create_parents_ok _ _ _ _ _ (Forall_impl _ (fun d (X : item_ok d) => proj2 X) H1) E1) as (-> & _ & _).
    pose proof (ext_compat _ _ H5 Hx1) as HG1.
    destruct (st_is_dir st0) eqn:Ed.
    + destruct (copy_dir_only_ok dir (set_path st0 p) ct fs1 Hself Ed HG1 Hdir1) as (fs2 & cr & E2 & Hx2 & Hk2 & _ & _).
      cbn [st_path set_path] in E2, Hk2. rewrite E2 in H.
      set (d := {| pd_st := set_path st0 p; pd_ct := ct; pd_dir := dir; pd_copied := true |}) in *.
      destruct (cforest p kids _ _ (mark S ++ [d]) fs2) as [[[fs3 S3] em3] e3] eqn:E3.
      assert (HI2 : inv (mark S ++ [d]) p fs2).
      { constructor.
        - apply Forall_app. split; [apply items_ok_mark; auto|]. constructor; [split; [exact Hself|exact Ed]|constructor].
        - apply (linked_snoc (mark S) [] dir d); [apply linked_mark; auto|reflexivity].
        - eapply ext_root; [|exact Hx2]. eapply ext_root; eauto.
        - apply Forall_app. split.
          + apply exist_all_copied. eapply exist_all_ext; eauto.
          + constructor; [intros _; exact Hk2|constructor].
        - eapply ext_compat; eauto. }
      destruct (succ_forest kids IHk Hkids _ _ _ _ _ _ _ _ _ E3 Hkidsall HI2) as (-> & Hx3 & Ha3).
      inversion H; subst; clear H.
      assert (HS3 : removelast S3 = mark S).
      { destruct Ha3 as [->|[-> _]]; [apply removelast_last|].
        rewrite mark_app, mark_idem. cbn [mark map]. apply removelast_last. }
      rewrite HS3.
      assert (Hx4 : ext fs3 (copy_meta (set_path st0 p) p fs3)).
      { eapply ext_meta; eauto. intros o Ho.
        pose proof (ext_compat _ _ (ext_compat _ _ HG1 Hx2) Hx3) as HG3. exact (HG3 _ o Hself Ho). }
      assert (Hxall : ext fs (copy_meta (set_path st0 p) p fs3)) by (repeat (eapply ext_trans; eauto)).
      repeat split; auto. right. split; [reflexivity|].
      eapply exist_all_ext; [exact H1|exact Ha1|]. repeat (eapply ext_trans; eauto).
    + cbn [negb] in H.
      assert (Hdp : parent_ok dir (fdel p fs1) = true).
      { unfold parent_ok, fdel. unfold p. rewrite child_ne_dir by exact Hne. exact Hdir1. }
      destruct (fs1 p) as [o|] eqn:Ep.
      * pose proof (HG1 _ o Hself Ep) as Ho. cbn [fst] in Ho. change (st_is_dir (set_path st0 p)) with (st_is_dir st0) in Ho.
        rewrite Ed in Ho. rewrite Ho in H. rewrite Hdp in H. inversion H; subst; clear H.
        assert (Hx2 : ext fs1 (fput p (set_path st0 p, ct) (fdel p fs1))).
        { intros q. rewrite fput_at. unfold fdel. destruct (bytes_eqb q p) eqn:Eq; [|left; reflexivity].
          apply bytes_eqb_eq in Eq. subst q. right. exists (set_path st0 p, ct), (set_path st0 p, ct). auto. }
        repeat split; auto. { eapply ext_trans; eauto. }
        right. split; [reflexivity|]. eapply exist_all_ext; eauto.
      * rewrite Hdir1 in H. inversion H; subst; clear H.
        assert (Hx2 : ext fs1 (fput p (set_path st0 p, ct) fs1)) by (eapply ext_put; eauto).
        repeat split; auto. { eapply ext_trans; eauto. }
        right. split; [reflexivity|]. eapply exist_all_ext; eauto.
  - (* not selected *)
    destruct (st_is_dir st0) eqn:Ed.
    + set (d := {| pd_st := set_path st0 p; pd_ct := ct; pd_dir := dir; pd_copied := false |}) in *.
      destruct (cforest p kids _ _ (S ++ [d]) fs) as [[[fs3 S3] em3] e3] eqn:E3.
      assert (HI2 : inv (S ++ [d]) p fs).
      { constructor; auto.
        - apply Forall_app. split; [auto|]. constructor; [split; [exact Hself|exact Ed]|constructor].
        - apply (linked_snoc S [] dir d); [auto|reflexivity].
        - apply Forall_app. split; [auto|]. constructor; [intros X; discriminate|constructor]. }
      destruct (succ_forest kids IHk Hkids _ _ _ _ _ _ _ _ _ E3 Hkidsall HI2) as (-> & Hx3 & Ha3).
      inversion H; subst; clear H. repeat split; auto.
      destruct Ha3 as [->|[-> Ha3]].
      * left. apply removelast_last.
      * right. rewrite mark_app. cbn [mark map]. rewrite removelast_last. split; [reflexivity|].
        unfold exist_all in *. apply Forall_app in Ha3. tauto.
    + cbn [negb] in H. inversion H; subst. repeat split; auto using ext_refl. left. reflexivity.
Qed.

Theorem copy_succeeds_proof rootst fs0 :
  compat fs0 -> (forall o, fs0 [] = Some o -> e_dir o = true) ->
  exists fs' log, copy_sel pmatch c (SrcDir rootst view) fs0 = (fs', log, None).
Proof.
  intros HG Hroot. cbn [copy_sel]. unfold copy_dir_top.
  assert (Hw : forallb wf_tree_node view = true).
  { unfold wf_tree in Hwf. apply andb_true_iff in Hwf. tauto. }
  assert (HF : Forall succ_node view) by (apply Forall_forall; intros n _; apply succ_node_all).
  assert (Hall : forall e, In e (walk_forest [] view) -> In e all) by (intros e He; exact He).
  destruct (fs0 []) as [o|] eqn:E0.
  - rewrite (Hroot o eq_refl).
    destruct (cforest [] view [] [] [] fs0) as [[[fs2 S2] em] er] eqn:E.
    assert (HI : inv [] [] fs0).
    { constructor; auto; try constructor. unfold parent_ok. rewrite E0. apply Hroot. reflexivity. }
    destruct (succ_forest view HF Hw _ _ _ _ _ _ _ _ _ E Hall HI) as (-> & _ & _). eauto.
  - destruct (cforest [] view [] [] [] (fput [] (blank_dir []) fs0)) as [[[fs2 S2] em] er] eqn:E.
    assert (HI : inv [] [] (fput [] (blank_dir []) fs0)).
    { constructor; auto; try constructor.
      intros e o He Ho. rewrite fput_at in Ho. destruct (bytes_eqb (st_path (fst e)) []) eqn:Eq.
      - apply bytes_eqb_eq in Eq. exfalso. exact (walk_root_nonempty view e Hwf He Eq).
      - eapply HG; eauto. }
    destruct (succ_forest view HF Hw _ _ _ _ _ _ _ _ _ E Hall HI) as (-> & _ & _). eauto.
Qed.
End Ok.
