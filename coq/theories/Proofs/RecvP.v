(* C03 — the receive loop (Model/DiskWriterFs.v: recv_loop) keeps everything outside the
   destination directory D as it is.  Part 1: the invariant, content packets, Wait. *)
From Coq Require Import List Arith NArith Bool Lia ZifyN ZifyNat ZifyBool.
From FS Require Import Sx Model.Path Model.Stat Model.Validator Model.Fs Model.DiskWriterFs.
From FS Require Import Proofs.Lex Proofs.PathP Proofs.ValidatorP Proofs.FsP Proofs.FsReachP Proofs.FsFrameP
     Proofs.FsSysP Proofs.FsTreeP Proofs.DwP.
Import ListNotations.
Open Scope N_scope.
Open Scope bool_scope.

Lemma aset_In {A} k (v : A) l x : In x (aset k v l) -> x = (k, v) \/ In x l.
Proof.
  induction l as [|[k' v'] l IH]; simpl; intros H.
  - destruct H as [H|[]]; auto.
  - destruct (N.eqb k k'); simpl in H; destruct H as [H|H]; auto. apply IH in H. tauto.
Qed.

Section Recv.
Variables (D root : N) (f0 : fs) (tmps0 : list bytes) (dl : bool).
Notation reach := (reach D).
Notation wf := (wf D).
Notation step := (step D).

Let c : ctx := {| c_root := root; c_cwd := D |}.
Let b0 : N := f_next f0.

Hypothesis W0 : wf f0.

(* ReceiveOpt.Filter: what it does to the stat copy keeps type bits and link name; what it
   rejects it rejects with everything below *)
Variable fl : rfilter.
Hypothesis Hmap_mode : forall s, st_mode (f_map fl s) = st_mode s.
Hypothesis Hmap_link : forall s, st_linkname (f_map fl s) = st_linkname s.
Hypothesis Hclosed : forall p q, ok_path p = true -> ok_path q = true ->
  f_rej fl p = true -> is_prefix (comps p) (comps q) -> f_rej fl q = true.

(* the temporary names the disk writer may use *)
Definition tmpname (t : bytes) : Prop := t = default_tmp \/ In t tmps0.
Hypothesis tmp_ok : forall t, tmpname t -> okname t.

(* a path none of whose components is a temporary name *)
Definition clean_path (p : bytes) : Prop := forall t, tmpname t -> ~ In t (comps p).

Definition TAll : N -> bytes -> Prop := fun _ _ => True.

Lemma glob_step (T : N -> bytes -> Prop) b f g :
  step TAll b0 f0 f -> step T b f g -> b0 <= b -> step TAll b0 f0 g.
Proof.
  intros G S Hb. apply (step_trans D TAll b0 f0 f g G).
  apply (step_weaken D T TAll b0 f g); [unfold TAll; auto|].
  apply (step_rebase D T b b0 f g S Hb).
Qed.

(* the entry a path names, if any, was made by this transfer *)
Definition fresh_at (f : fs) (cs : list bytes) : Prop :=
  forall dd i, rwalk f D (removelast cs) = Some dd -> blookup (last cs []) (ents f dd) = Some i -> b0 <= i.

Definition pipe_ok (f : fs) (pp : pipe) : Prop :=
  ok_path (pp_path pp) = true /\ clean_path (pp_path pp)
  /\ safe f D (comps (pp_path pp)) /\ fresh_at f (comps (pp_path pp))
  /\ (forall i, pp_fd pp = Some i -> b0 <= i /\ i < f_next f).

Record alive_inv (st : rstate) : Prop := {
  a_tmpfree : forall j t, reach (r_fs st) j -> tmpname t -> blookup t (ents (r_fs st) j) = None;
  (* what the filter rejects never reaches the disk: nothing is claimed about it *)
  a_stack : forall d l, In (d, l) (r_vstk st) -> f_rej fl d = false -> safe (r_fs st) D (pcomps d);
  a_seen : forall q, In q (r_seen st) -> f_rej fl q = false -> safe (r_fs st) D (comps q)
}.

Definition accpaths (acc : list vitem) : list bytes := map vpath acc.

Record GBase (st : rstate) (acc : list vitem) : Prop := {
  g_step : step TAll b0 f0 (r_fs st);
  g_R : R (r_vstk st);
  g_vinv : Inv (map ce (r_vstk st)) (map citem_of acc);
  g_acc : Forall (fun it => ok_path (vpath it) = true /\ clean_path (vpath it)) acc;
  g_seen : forall q, In q (r_seen st) -> In q (accpaths acc);
  g_pipes : forall id pp, In (id, pp) (r_pipes st) -> In (pp_path pp) (accpaths acc) /\ pipe_ok (r_fs st) pp;
  g_tmps : forall t, In t (r_tmps st) -> tmpname t
}.

Definition GInv (st : rstate) (acc : list vitem) : Prop :=
  GBase st acc /\ (live st = true -> alive_inv st).

Lemma g_wf st acc : GBase st acc -> wf (r_fs st).
Proof. intros G. apply (st_wf _ _ _ _ _ (g_step st acc G)). Qed.
Lemma g_next st acc : GBase st acc -> b0 <= f_next (r_fs st).
Proof. intros G. pose proof (st_next _ _ _ _ _ (g_step st acc G)). unfold b0. lia. Qed.

(* ---- transport along a step that touches no entry ---- *)
Lemma quiet_fresh_at b f g cs : wf f -> step TNone b f g -> fresh_at f cs -> fresh_at g cs.
Proof.
  intros W S H dd i Hw Hb. rewrite (quiet_rwalk D b f g _ W S) in Hw.
  rewrite (quiet_blookup D b f g dd _ S) in Hb.
  - apply (H dd i); auto.
  - apply (reach_lt D f dd W). apply (rwalk_reach D f (removelast cs) D dd); [constructor|auto].
Qed.

Lemma quiet_pipe_ok b f g pp : wf f -> step TNone b f g -> pipe_ok f pp -> pipe_ok g pp.
Proof.
  intros W S (A & B & C & E & F). repeat split; auto.
  - apply (quiet_safe D b f g); auto.
  - apply (quiet_fresh_at b f g); auto.
  - apply (F i H).
  - destruct (F i H). pose proof (st_next _ _ _ _ _ S). lia.
Qed.

(* states that differ in bookkeeping only *)
Definition same_core (st st' : rstate) : Prop :=
  r_vstk st' = r_vstk st /\ r_seen st' = r_seen st /\ r_tmps st' = r_tmps st.

Lemma alive_quiet st st' b : wf (r_fs st) -> same_core st st' -> step TNone b (r_fs st) (r_fs st') ->
  alive_inv st -> alive_inv st'.
Proof.
  intros W (E1 & E2 & E3) S [A1 A2 A3]. constructor.
  - intros j t Rj Ht. pose proof (quiet_reach D b _ _ j W S Rj) as Rj0.
    rewrite (quiet_blookup D b _ _ j t S (reach_lt D _ j W Rj0)). apply A1; auto.
  - intros d l Hin Hr. rewrite E1 in Hin. apply (quiet_safe D b (r_fs st)); auto. apply (A2 d l Hin Hr).
  - intros q Hin Hr. rewrite E2 in Hin. apply (quiet_safe D b (r_fs st)); auto.
Qed.


Lemma GBase_quiet st st' acc b :
  GBase st acc -> b0 <= b -> step TNone b (r_fs st) (r_fs st') -> same_core st st' ->
  (forall id pp, In (id, pp) (r_pipes st') -> In (pp_path pp) (accpaths acc) /\ pipe_ok (r_fs st') pp) ->
  GBase st' acc.
Proof.
  intros G Hb S C Hp. pose proof C as (E1 & E2 & E3). constructor.
  - apply (glob_step TNone b (r_fs st)); auto. apply G.
  - rewrite E1. apply G.
  - rewrite E1. apply G.
  - apply G.
  - intros q Hq. rewrite E2 in Hq. apply (g_seen st acc G q Hq).
  - exact Hp.
  - intros t Ht. rewrite E3 in Ht. apply (g_tmps st acc G t Ht).
Qed.

Lemma GInv_quiet st st' acc b :
  GInv st acc -> b0 <= b -> step TNone b (r_fs st) (r_fs st') -> same_core st st' ->
  (live st' = true -> live st = true) ->
  (forall id pp, In (id, pp) (r_pipes st') -> In (pp_path pp) (accpaths acc) /\ pipe_ok (r_fs st') pp) ->
  GInv st' acc.
Proof.
  intros [G A] Hb S C Hl Hp. split.
  - apply (GBase_quiet st st' acc b); auto.
  - intros L. apply (alive_quiet st st' b (g_wf st acc G) C S). apply (A (Hl L)).
Qed.

Lemma live_set_out st o : o <> Running -> live (set_out st o) = false.
Proof. intros H. unfold live, running. simpl. destruct o; try reflexivity. congruence. Qed.

Lemma step_same b f : wf f -> b <= f_next f -> step TNone b f f.
Proof. intros. apply step_refl; auto. Qed.

Lemma GInv_stop st acc o : GInv st acc -> o <> Running -> GInv (set_out st o) acc.
Proof.
  intros G Ho. apply (GInv_quiet st (set_out st o) acc b0 G); try (unfold b0; lia).
  - simpl. apply step_same; [apply (g_wf st acc (proj1 G))|apply (g_next st acc (proj1 G))].
  - repeat split.
  - rewrite (live_set_out st o Ho). discriminate.
  - simpl. apply (proj1 G).
Qed.

Lemma spend_core st st1 : spend st = Some st1 ->
  r_fs st1 = r_fs st /\ same_core st st1 /\ live st1 = live st /\ r_pipes st1 = r_pipes st /\ r_asyncerr st1 = r_asyncerr st
  /\ r_files st1 = r_files st /\ r_old st1 = r_old st /\ r_dirtimes st1 = r_dirtimes st /\ r_closed st1 = r_closed st
  /\ r_waited st1 = r_waited st /\ r_rmdir st1 = r_rmdir st /\ r_dead st1 = r_dead st /\ r_out st1 = r_out st.
Proof.
  unfold spend. destruct (r_budget st) as [[|n]|]; intros H; inversion H; subst; simpl; repeat split.
Qed.

Lemma GInv_spend st st1 acc : GInv st acc -> spend st = Some st1 -> GInv st1 acc.
Proof.
  intros G H. destruct (spend_core st st1 H) as (E & C & L & P & _).
  apply (GInv_quiet st st1 acc b0 G); try (unfold b0; lia); auto.
  - rewrite E. apply step_same; [apply (g_wf st acc (proj1 G))|apply (g_next st acc (proj1 G))].
  - rewrite P, E. apply (proj1 G).
Qed.

Lemma alookup_In {A} k (l : list (N * A)) v : alookup k l = Some v -> In (k, v) l.
Proof.
  induction l as [|[k' v'] l IH]; simpl; [discriminate|].
  destruct (N.eqb k k') eqn:E; intros H.
  - apply N.eqb_eq in E. subst. inversion H. left. reflexivity.
  - right. auto.
Qed.

(* the path of an open pipe, split *)
Lemma pipe_path_split f pp : pipe_ok f pp ->
  let cs := comps (pp_path pp) in
  relpath (pp_path pp) (removelast cs ++ [last cs []]) /\ cs = removelast cs ++ [last cs []].
Proof.
  intros (A & _). cbv zeta. pose proof (split_comps _ A) as E. split; auto. rewrite <- E. apply ok_path_relpath. exact A.
Qed.

Lemma pipe_target_ok f pp : pipe_ok f pp ->
  target_ok D b0 f (removelast (comps (pp_path pp))) (last (comps (pp_path pp)) []).
Proof. intros (_ & _ & _ & F & _) dd i Hw Hb. left. apply (F dd i Hw Hb). Qed.

Definition DQ (st st' : rstate) (acc : list vitem) : Prop :=
  GInv st' acc /\ step TNone b0 (r_fs st) (r_fs st') /\ (live st' = true -> live st = true).

Lemma DQ_quiet st st' acc :
  GInv st acc -> step TNone b0 (r_fs st) (r_fs st') -> same_core st st' ->
  (live st' = true -> live st = true) ->
  (forall id pp, In (id, pp) (r_pipes st') -> In (pp_path pp) (accpaths acc) /\ pipe_ok (r_fs st') pp) ->
  DQ st st' acc.
Proof.
  intros G S C Hl Hp. split; [|split; auto]. apply (GInv_quiet st st' acc b0 G); auto. unfold b0. lia.
Qed.

Lemma DQ_stop st acc o : GInv st acc -> o <> Running -> DQ st (set_out st o) acc.
Proof.
  intros G Ho. split; [apply GInv_stop; auto|]. split.
  - simpl. apply step_same; [apply (g_wf st acc (proj1 G))|apply (g_next st acc (proj1 G))].
  - rewrite (live_set_out st o Ho). discriminate.
Qed.

Lemma DQ_same st acc : GInv st acc -> DQ st st acc.
Proof. intros G. split; auto. split; auto. apply step_same; [apply (g_wf st acc (proj1 G))|apply (g_next st acc (proj1 G))]. Qed.

Lemma DQ_via st st1 st' acc : r_fs st1 = r_fs st -> live st1 = live st -> DQ st1 st' acc -> DQ st st' acc.
Proof. intros E E2 (A & B & C). split; auto. rewrite <- E, <- E2. auto. Qed.

Lemma recv_data_dq idx id d st acc : GInv st acc -> DQ st (recv_data c idx id d st) acc.
Proof.
  intros G. unfold recv_data.
  destruct (alookup id (r_pipes st)) as [pp|] eqn:Ea; [|apply DQ_stop; [auto|discriminate]].
  destruct (pp_closed pp); [apply DQ_stop; [auto|discriminate]|].
  destruct (spend st) as [st1|] eqn:Es; [|apply DQ_stop; [auto|discriminate]].
  pose proof (GInv_spend st st1 acc G Es) as G1.
  destruct (spend_core st st1 Es) as (Ef & _ & El & Ep & _).
  apply (DQ_via st st1 _ acc Ef El).
  assert (Hin : In (id, pp) (r_pipes st1)) by (rewrite Ep; apply alookup_In; auto).
  destruct (g_pipes st1 acc (proj1 G1) id pp Hin) as [Hacc Hpo].
  pose proof (g_wf st1 acc (proj1 G1)) as W1. pose proof (g_next st1 acc (proj1 G1)) as Hb1.
  destruct (pipe_path_split _ pp Hpo) as [Hrel Ecs].
  set (pre := removelast (comps (pp_path pp))) in *. set (n := last (comps (pp_path pp)) []) in *.
  assert (Hc : c_cwd c = D) by reflexivity.
  pose proof Hpo as (Hok & Hcl & Hsf & Hfr & Hfd).
  assert (Hsp : safe (r_fs st1) D pre) by (apply (safe_prefix (r_fs st1) D pre [n]); rewrite <- Ecs; exact Hsf).
  destruct (is_nil d).
  - (* end of the file *)
    destruct (r_asyncerr st1).
    + destruct (pp_fd pp) eqn:Efd; [|apply DQ_same; exact G1].
      apply (DQ_quiet st1 _ acc G1).
      * simpl. apply step_same; auto.
      * repeat split.
      * auto.
      * simpl. intros id' pp' Hin'. apply aset_In in Hin'. destruct Hin' as [E|Hin'].
        -- inversion E; subst. split; auto. split; [exact Hok|]. split; [exact Hcl|]. split; [exact Hsf|]. split; [exact Hfr|].
           simpl. intros i' Hi'. apply Hfd. exact Hi'.
        -- apply (g_pipes st1 acc (proj1 G1) id' pp' Hin').
    + assert (S1 : step TNone b0 (r_fs st1)
                 (fst (if has_bits (st_mode (pp_stat pp)) ModeSetuid || has_bits (st_mode (pp_stat pp)) ModeSetgid
                       then sys_chmod c (r_fs st1) (pp_path pp) (unix_perm (st_mode (pp_stat pp))) else (r_fs st1, ROk)))).
      { destruct (has_bits (st_mode (pp_stat pp)) ModeSetuid || has_bits (st_mode (pp_stat pp)) ModeSetgid).
        - apply (sys_chmod_step D TNone b0 c (r_fs st1) (pp_path pp) pre n W1 Hb1 Hc Hrel Hsp).
          + rewrite <- Ecs. exact Hsf.
          + apply pipe_target_ok. exact Hpo.
        - apply step_same; auto. }
      destruct (if has_bits (st_mode (pp_stat pp)) ModeSetuid || has_bits (st_mode (pp_stat pp)) ModeSetgid
                then sys_chmod c (r_fs st1) (pp_path pp) (unix_perm (st_mode (pp_stat pp))) else (r_fs st1, ROk)) as [f1 r1].
      cbn [fst] in S1.
      assert (S2 : step TNone b0 f1 (fst (if is_err r1 then (f1, r1) else sys_utimens c f1 (pp_path pp) (st_mtime (pp_stat pp))))).
      { pose proof (quiet_pipe_ok b0 _ f1 pp W1 S1 Hpo) as Hpo1.
        pose proof (st_wf _ _ _ _ _ S1) as Wf1. pose proof (st_next _ _ _ _ _ S1) as Hn1.
        destruct (is_err r1); [cbn [fst]; apply step_same; [exact Wf1|lia]|].
        apply (sys_utimens_step D TNone b0 c f1 (pp_path pp) pre n Wf1 ltac:(lia) Hc Hrel).
        - apply (quiet_safe D b0 (r_fs st1) f1); auto.
        - apply pipe_target_ok. exact Hpo1. }
      destruct (if is_err r1 then (f1, r1) else sys_utimens c f1 (pp_path pp) (st_mtime (pp_stat pp))) as [f2 r2].
      cbn [fst] in S2.
      pose proof (step_trans D TNone b0 _ _ _ S1 S2) as S12.
      apply (DQ_quiet st1 _ acc G1); simpl; auto.
      * repeat split.
      * intros id' pp' Hin'. apply filter_In in Hin'. destruct Hin' as [Hin' _].
        destruct (g_pipes st1 acc (proj1 G1) id' pp' Hin') as [A B]. split; auto.
        apply (quiet_pipe_ok b0 (r_fs st1) f2 pp' W1 S12 B).
  - (* a chunk *)
    assert (X : exists i, (match pp_fd pp with Some i => (r_fs st1, RFd i) | None => sys_open_wronly c (r_fs st1) (pp_path pp) false 0 end)
                          = (r_fs st1, RFd i) /\ b0 <= i /\ i < f_next (r_fs st1)
            \/ (exists r, (match pp_fd pp with Some i => (r_fs st1, RFd i) | None => sys_open_wronly c (r_fs st1) (pp_path pp) false 0 end)
                          = (r_fs st1, r) /\ (forall i, r <> RFd i))).
    { destruct (pp_fd pp) as [i|] eqn:Efd.
      - exists i. left. split; auto.
      - pose proof (sys_open_nocreat_fs c (r_fs st1) (pp_path pp) 0) as Efs.
        destruct (sys_open_wronly c (r_fs st1) (pp_path pp) false 0) as [f1 r] eqn:Eo. cbn [fst] in Efs. subst f1.
        destruct r as [| | | | |i]; try (exists 0; right; eexists; split; [reflexivity|intros; discriminate]).
        exists i. left. split; auto.
        destruct (sys_open_nocreat_fd D c (r_fs st1) (pp_path pp) pre n Hc Hrel 0 i) as (dd & Hw & Hbl).
        + rewrite <- Ecs. exact Hsf.
        + rewrite Eo. reflexivity.
        + split; [apply (Hfr dd i Hw Hbl)|].
          destruct (dentry_reach D (r_fs st1) pre dd n i Hw Hbl) as [_ Ri]. apply (reach_lt D _ i W1 Ri). }
    destruct X as (i & [(Eo & Hbi & Hlt)|(r & Eo & Hr)]); rewrite Eo.
    + assert (HiD : i <> D).
      { pose proof (reach_lt D f0 D W0 (reach_refl D f0)). unfold b0 in Hbi. lia. }
      pose proof (fd_pwrite_step D TNone b0 (r_fs st1) i (pp_off pp) d W1 Hb1 Hlt HiD Hbi) as S.
      destruct (fd_pwrite (r_fs st1) i (pp_off pp) d) as [f2 r2]. cbn [fst] in S.
      apply (DQ_quiet st1 _ acc G1); simpl; auto.
      * repeat split.
      * intros id' pp' Hin'. apply aset_In in Hin'. destruct Hin' as [E|Hin'].
        -- inversion E; subst. split; auto.
           destruct (quiet_pipe_ok b0 (r_fs st1) f2 pp W1 S Hpo) as (A1 & A2 & A3 & A4 & A5).
           split; [exact A1|]. split; [exact A2|]. split; [exact A3|]. split; [exact A4|].
           simpl. intros i' Hi'. inversion Hi'; subst i'. split; auto.
           pose proof (st_next _ _ _ _ _ S). lia.
        -- destruct (g_pipes st1 acc (proj1 G1) id' pp' Hin') as [A B]. split; auto.
           apply (quiet_pipe_ok b0 (r_fs st1) f2 pp' W1 S B).
    + assert (Gu : GInv (upd st1 (r_fs st1)) acc).
      { apply (GInv_quiet st1 _ acc b0 G1); try (unfold b0; lia); simpl; auto;
          [apply step_same; auto|repeat split|apply (proj1 G1)]. }
      destruct r; try (exfalso; eapply Hr; reflexivity);
        (split; [apply GInv_stop; [exact Gu|discriminate]|split; [simpl; apply step_same; auto|
          intros L'; rewrite live_set_out in L'; [discriminate|discriminate]]]).
Qed.

Lemma recv_data_inv idx id d st acc : GInv st acc -> GInv (recv_data c idx id d st) acc.
Proof. intros G. apply (recv_data_dq idx id d st acc G). Qed.


(* ---------------- DiskWriter.Wait: mtimes of the directories the transfer made ---------------- *)
Lemma wait_entry_step b g0 f p i n t :
  wf g0 -> step TNone b g0 f -> In (p, i, n) (tree_below 64 g0 D []) -> is_dir g0 i = true ->
  step TNone b f (fst (sys_utimens c f p t)).
Proof.
  intros Wg S Hin Hdi.
  destruct (tree_below_spec D g0 Wg 64 D [] (reach_refl D g0) (or_introl eq_refl) p i n Hin)
    as (cs & Hne & Hok & Hp & Hw & Hg).
  simpl in Hp.
  assert (Wf : wf f) by (apply (st_wf _ _ _ _ _ S)).
  assert (Hb : b <= f_next f) by (pose proof (st_base _ _ _ _ _ S); pose proof (st_next _ _ _ _ _ S); lia).
  assert (Hwf : rwalk f D cs = Some i) by (rewrite (quiet_rwalk D b g0 f cs Wg S); exact Hw).
  assert (Ri : reach g0 i) by (apply (rwalk_reach D g0 cs D i); [constructor|auto]).
  assert (Hdf : is_dir f i = true) by (rewrite (is_dir_step D TNone b g0 f i S (reach_lt D g0 i Wg Ri)); exact Hdi).
  assert (Hkc : okc cs).
  { apply okname_forall in Hok. destruct Hok. repeat split; auto. }
  destruct (exists_last Hne) as (pre & nm & Ecs). subst cs.
  assert (Hrel : relpath p (pre ++ [nm])) by (rewrite Hp; apply relpath_joinc; auto).
  apply (sys_utimens_step D TNone b c f p pre nm Wf Hb eq_refl Hrel).
  - pose proof (rwalk_prefix_safe f (pre ++ [nm]) D i Hwf) as H. rewrite removelast_last in H. exact H.
  - intros dd i' Hw' Hb'. right. apply rwalk_snoc in Hwf.
    destruct Hwf as (d & H1 & H2 & _). rewrite Hw' in H1. inversion H1; subst d. rewrite Hb' in H2. inversion H2; subst.
    exact Hdf.
Qed.

Lemma wait_pass_quiet st : wf (r_fs st) ->
  step TNone (f_next (r_fs st)) (r_fs st) (wait_pass c D st).
Proof.
  intros Wg. unfold wait_pass. set (g0 := r_fs st). set (b := f_next g0).
  assert (G : forall l, (forall e, In e l -> In e (tree_below 64 g0 D [])) ->
          forall f, step TNone b g0 f ->
          step TNone b g0 (fold_left (fun f (e : bytes * N * inode) =>
               match e with
               | (p, _, {| i_kind := KDir _ _ |}) =>
                 match blookup p (r_dirtimes st) with
                 | Some t => fst (sys_utimens c f p t)
                 | None => f
                 end
               | _ => f
               end) l f)).
  { induction l as [|[[p i] n] l IH]; intros Hl f S; [exact S|].
    simpl. apply IH; [intros e He; apply Hl; right; auto|].
    destruct n as [k m]. destruct k; auto.
    destruct (blookup p (r_dirtimes st)) as [t|]; auto.
    apply (step_trans D TNone b g0 f _ S).
    apply (wait_entry_step b g0 f p i {| i_kind := KDir parent ents; i_meta := m |} t Wg S).
    - apply Hl. left. reflexivity.
    - destruct (tree_below_spec D g0 Wg 64 D [] (reach_refl D g0) (or_introl eq_refl) p i _ (Hl _ (or_introl eq_refl)))
        as (cs & _ & _ & _ & _ & Hg).
      unfold is_dir, dir_of. rewrite Hg. reflexivity. }
  apply G; auto. apply step_refl; auto. unfold b. lia.
Qed.

Lemma live_set_dead st idx : live (set_dead st idx) = false.
Proof. unfold live, is_dead. simpl. apply andb_false_r. Qed.

Lemma maybe_wait_inv idx st acc : GInv st acc -> GInv (maybe_wait c dl idx st) acc.
Proof.
  intros G. unfold maybe_wait.
  destruct ((running st || match r_out st with Drained _ => true | _ => false end) && negb (is_dead st)); [|exact G].
  destruct (r_closed st && negb (r_waited st)); [|exact G].
  pose proof (g_wf st acc (proj1 G)) as Wg. pose proof (g_next st acc (proj1 G)) as Hb.
  destruct (r_asyncerr st).
  - apply (GInv_quiet st _ acc b0 G); try (unfold b0; lia); simpl.
    + apply step_same; auto.
    + repeat split.
    + rewrite live_set_dead. discriminate.
    + apply (proj1 G).
  - destruct (is_nil (r_pipes st)); [|exact G].
    destruct (spend st) as [st1|] eqn:Es; [|apply GInv_stop; [auto|discriminate]].
    pose proof (GInv_spend st st1 acc G Es) as G1.
    pose proof (g_wf st1 acc (proj1 G1)) as W1. pose proof (g_next st1 acc (proj1 G1)) as Hb1.
    assert (S : step TNone (f_next (r_fs st1)) (r_fs st1) (if dl then r_fs st1 else wait_pass c (c_cwd c) st1)).
    { destruct dl; [apply step_same; auto; lia|]. apply wait_pass_quiet. exact W1. }
    apply (GInv_quiet st1 _ acc (f_next (r_fs st1)) G1); auto; simpl; auto.
    + repeat split.
    + intros id pp Hin. destruct (g_pipes st1 acc (proj1 G1) id pp Hin) as [A B]. split; auto.
      apply (quiet_pipe_ok (f_next (r_fs st1)) (r_fs st1) _ pp W1 S B).
Qed.


(* ---------------- one HandleChange call issued by the diff ---------------- *)
Definition change_pre (kind : N) (st : rstate) (p : bytes) (s : stat) (acc : list vitem) : Prop :=
  ok_path p = true /\ clean_path p /\ safe (r_fs st) D (removelast (comps p))
  /\ (forall j t, reach (r_fs st) j -> tmpname t -> blookup t (ents (r_fs st) j) = None)
  /\ (N.eqb kind 2 = false -> hardlink_branch s = true ->
        ok_path (st_linkname s) = true /\ safe (r_fs st) D (removelast (comps (st_linkname s))))
  /\ (forall id pp, In (id, pp) (r_pipes st) -> ~ is_prefix (comps p) (comps (pp_path pp)))
  /\ (N.eqb kind 2 = false -> In p (accpaths acc)).

(* the call itself, once the filter has let the change pass *)
Definition apply_change0 (c : ctx) (idx : nat) (kind : N) (p : bytes) (s : stat) (st : rstate) : rstate :=
  if negb (live st) then st else
  match spend st with
  | None => set_out st Halted
  | Some st1 =>
    let tmp := hd default_tmp (r_tmps st1) in
    let st2 := set_tmps st1 (tl (r_tmps st1)) (r_dirtimes st1) in
    match dw_handle c (r_fs st2) tmp kind p s with
    | (f', DwErr) => set_dead (upd st2 f') idx
    | (f', DwOk async newdir) =>
      let st3 := upd st2 f' in
      let st4 := if newdir then set_tmps st3 (r_tmps st3) (bset p (st_mtime s) (r_dirtimes st3)) else st3 in
      if async then
        match blookup p (r_files st4) with
        | None => set_maps st4 (r_files st4) (r_pipes st4) true
        | Some id =>
          set_maps st4 (bremove p (r_files st4))
                   (aset id {| pp_path := p; pp_stat := s; pp_off := O; pp_fd := None; pp_closed := false |} (r_pipes st4))
                   (r_asyncerr st4)
        end
      else st4
    end
  end.

Lemma apply_change_unfold idx kind p s st :
  apply_change fl c idx kind p s st =
  if f_rej fl p then st else apply_change0 c idx kind p (if N.eqb kind 2 then s else f_map fl s) st.
Proof. reflexivity. Qed.

Definition change_post0 (kind : N) (p : bytes) (s : stat) (st st' : rstate) : Prop :=
  live st' = true ->
    live st = true
    /\ (forall j t, reach (r_fs st') j -> tmpname t -> blookup t (ents (r_fs st') j) = None)
    /\ (forall cs, ~ is_prefix (comps p) cs -> (forall t, tmpname t -> ~ In t cs) ->
           (safe (r_fs st) D cs -> safe (r_fs st') D cs) /\ rwalk (r_fs st') D cs = rwalk (r_fs st) D cs)
    /\ (kind <> 2 -> solid s = true -> safe (r_fs st') D (comps p)).

Definition change_post (kind : N) (p : bytes) (s : stat) (st st' : rstate) : Prop :=
  live st' = true ->
    live st = true
    /\ (forall j t, reach (r_fs st') j -> tmpname t -> blookup t (ents (r_fs st') j) = None)
    /\ (forall cs, ~ is_prefix (comps p) cs -> (forall t, tmpname t -> ~ In t cs) ->
           (safe (r_fs st) D cs -> safe (r_fs st') D cs) /\ rwalk (r_fs st') D cs = rwalk (r_fs st) D cs)
    /\ (kind <> 2 -> solid s = true -> f_rej fl p = false -> safe (r_fs st') D (comps p)).

Definition same_diff (st st' : rstate) : Prop :=
  r_vstk st' = r_vstk st /\ r_seen st' = r_seen st /\ r_old st' = r_old st /\ r_rmdir st' = r_rmdir st
  /\ r_closed st' = r_closed st /\ r_waited st' = r_waited st.

Lemma pipe_kept f f' tmp p pp :
  wf f -> ok_path p = true ->
  (forall cs', off tmp (removelast (comps p)) (last (comps p) []) cs' ->
               (safe f D cs' -> safe f' D cs') /\ rwalk f' D cs' = rwalk f D cs') ->
  (forall pre' n' dd', off tmp (removelast (comps p)) (last (comps p) []) (pre' ++ [n']) -> rwalk f D pre' = Some dd' ->
               blookup n' (ents f' dd') = blookup n' (ents f dd')) ->
  f_next f <= f_next f' -> tmpname tmp ->
  ~ is_prefix (comps p) (comps (pp_path pp)) -> pipe_ok f pp -> pipe_ok f' pp.
Proof.
  intros W Hok K1 K2 Hn Ht Hnp (A & B & C & E & F).
  pose proof (split_comps p Hok) as Ep.
  assert (Ho : off tmp (removelast (comps p)) (last (comps p) []) (comps (pp_path pp))).
  { apply off_of; [rewrite <- Ep; exact Hnp|apply B; exact Ht]. }
  pose proof (split_comps _ A) as Eq.
  repeat split; auto.
  - apply (proj1 (K1 _ Ho)). exact C.
  - intros dd i Hw Hb. rewrite (proj2 (K1 _ (off_removelast _ _ _ _ Ho))) in Hw.
    rewrite (K2 (removelast (comps (pp_path pp))) (last (comps (pp_path pp)) []) dd) in Hb; auto.
    + apply (E dd i Hw Hb).
    + rewrite <- Eq. exact Ho.
  - apply (F i H).
  - destruct (F i H). lia.
Qed.

Lemma apply_change_inv0 idx kind p s st acc :
  GBase st acc -> (live st = true -> change_pre kind st p s acc) ->
  let st' := apply_change0 c idx kind p s st in
  GBase st' acc /\ same_diff st st' /\ change_post0 kind p s st st'.
Proof.
  intros G Hpre. cbv zeta. unfold apply_change0.
  destruct (live st) eqn:L; cbn [negb].
  2:{ split; auto. split; [repeat split|]. intros L'. congruence. }
  destruct (Hpre eq_refl) as (Hok & Hcl & Hsafe & Hfree & Hlink & Hpipes & Hacc).
  pose proof (g_wf st acc G) as Wg. pose proof (g_next st acc G) as Hb.
  destruct (spend st) as [st1|] eqn:Es.
  2:{ split; [|split; [repeat split|intros L'; rewrite live_set_out in L'; [discriminate|discriminate]]].
      apply (GBase_quiet st _ acc b0 G); try (unfold b0; lia); simpl.
      - apply step_same; auto.
      - repeat split.
      - apply G. }
  destruct (spend_core st st1 Es) as (Ef & (Ev & Ese & Et) & El & Ep & Eae & Efi & Eo & Edt & Ecl & Ewa & Erm & Ede & Eout).
  set (tmp := hd default_tmp (r_tmps st1)).
  assert (Htn : tmpname tmp).
  { unfold tmp. rewrite Et. destruct (r_tmps st) as [|t0 r] eqn:E; [left; reflexivity|].
    apply (g_tmps st acc G). rewrite E. left. reflexivity. }
  pose proof (split_comps p Hok) as Ecs.
  set (pre := removelast (comps p)) in *. set (bn := last (comps p) []) in *.
  assert (Hfree' : forall dd, rwalk (r_fs st) D pre = Some dd -> blookup tmp (ents (r_fs st) dd) = None).
  { intros dd Hw. apply Hfree; auto. apply (rwalk_reach D _ pre D dd); [constructor|auto]. }
  pose proof (dw_handle_contained' D c (r_fs st) tmp kind p s Wg eq_refl Hok (tmp_ok tmp Htn) (Hcl tmp Htn)
                Hsafe Hfree' Hlink) as DW.
  cbv zeta in DW. fold pre bn in DW.
  cbn [r_fs set_tmps]. rewrite Ef.
  destruct (dw_handle c (r_fs st) tmp kind p s) as [f' res] eqn:Edw. cbn [fst snd] in DW.
  destruct DW as (S & K1 & K2 & P).
  assert (Hnext : f_next (r_fs st) <= f_next f') by (apply (st_next _ _ _ _ _ S)).
  assert (Gstep : step TAll b0 f0 f').
  { apply (glob_step (Tp D (r_fs st) tmp pre bn) (f_next (r_fs st)) (r_fs st)); auto. apply G. }
  assert (Hpk : forall id pp, In (id, pp) (r_pipes st) -> In (pp_path pp) (accpaths acc) /\ pipe_ok f' pp).
  { intros id pp Hin. destruct (g_pipes st acc G id pp Hin) as [A B]. split; auto.
    apply (pipe_kept (r_fs st) f' tmp p pp Wg Hok K1 K2 Hnext Htn (Hpipes id pp Hin) B). }
  assert (Htl : forall t, In t (tl (r_tmps st1)) -> tmpname t).
  { intros t Ht. apply (g_tmps st acc G). rewrite <- Et. destruct (r_tmps st1); [destruct Ht|right; exact Ht]. }
  destruct res as [|async newdir].
  - (* HandleChange failed: the writer is cancelled *)
    split; [|split; [cbn; repeat split; auto|intros L'; rewrite live_set_dead in L'; discriminate]].
    constructor; cbn; try (rewrite ?Ev, ?Ese; apply G); auto.
    rewrite Ep. exact Hpk.
  - (* it succeeded *)
    destruct (P async newdir eq_refl) as (P1 & P2 & P3).
    assert (Hsolidsafe : kind <> 2 -> solid s = true -> safe f' D (comps p)) by exact P2.
    assert (Halive : forall j t, reach f' j -> tmpname t -> blookup t (ents f' j) = None).
    { intros j t Rj Ht.
      assert (Htb : t <> bn).
      { intro E. apply (Hcl t Ht). rewrite Ecs. apply in_or_app. right. left. auto. }
      destruct (st_enter _ _ _ _ _ S j Rj) as [Rj0|Hge].
      - destruct (rwalk (r_fs st) D pre) as [dd|] eqn:Ew.
        + destruct (N.eq_dec dd j) as [->|Hne].
          * destruct (list_eq_dec N.eq_dec t tmp) as [->|Htt]; [apply P1; reflexivity|].
            rewrite (st_dent _ _ _ _ _ S j t (reach_lt D _ j Wg Rj0)); [apply Hfree; auto|].
            intros (_ & _ & [E|E]); congruence.
          * rewrite (st_dent _ _ _ _ _ S j t (reach_lt D _ j Wg Rj0)); [apply Hfree; auto|].
            intros (E & _). congruence.
        + rewrite (st_dent _ _ _ _ _ S j t (reach_lt D _ j Wg Rj0)); [apply Hfree; auto|].
          intros (E & _). congruence.
      - apply (st_fresh _ _ _ _ _ S j t Hge). intros (E & _).
        assert (Hlt : j < f_next (r_fs st)).
        { apply (reach_lt D (r_fs st) j Wg). apply (rwalk_reach D (r_fs st) pre D j (reach_refl D (r_fs st)) E). }
        apply (N.lt_irrefl j). apply (N.lt_le_trans _ _ _ Hlt Hge). }
    assert (Hkept : forall cs, ~ is_prefix (comps p) cs -> (forall t, tmpname t -> ~ In t cs) ->
                      (safe (r_fs st) D cs -> safe f' D cs) /\ rwalk f' D cs = rwalk (r_fs st) D cs).
    { intros cs H1 H2. apply (K1 cs (off_of tmp pre bn cs ltac:(rewrite <- Ecs; exact H1) (H2 tmp Htn))). }
    assert (Hpost : forall st', r_fs st' = f' -> live st' = true -> change_post0 kind p s st st').
    { intros st' E1 E2 _. rewrite E1. split; [exact L|]. split; [exact Halive|]. split; [exact Hkept|exact Hsolidsafe]. }
    set (st4 := if newdir
                then set_tmps (upd (set_tmps st1 (tl (r_tmps st1)) (r_dirtimes st1)) f')
                       (r_tmps (upd (set_tmps st1 (tl (r_tmps st1)) (r_dirtimes st1)) f'))
                       (bset p (st_mtime s) (r_dirtimes (upd (set_tmps st1 (tl (r_tmps st1)) (r_dirtimes st1)) f')))
                else upd (set_tmps st1 (tl (r_tmps st1)) (r_dirtimes st1)) f').
    assert (F4 : r_fs st4 = f' /\ r_vstk st4 = r_vstk st /\ r_seen st4 = r_seen st /\ r_pipes st4 = r_pipes st
                 /\ r_tmps st4 = tl (r_tmps st1) /\ r_old st4 = r_old st /\ r_rmdir st4 = r_rmdir st
                 /\ r_closed st4 = r_closed st /\ r_waited st4 = r_waited st /\ live st4 = true).
    { unfold st4. destruct newdir; cbn; rewrite ?Ev, ?Ese, ?Ep, ?Eo, ?Erm, ?Ecl, ?Ewa; repeat split; auto;
        unfold live, running, is_dead; cbn; rewrite Eout, Ede; exact L. }
    destruct F4 as (F1 & F2 & F3 & F5 & F6 & F7 & F8 & F9 & F10 & F11).
    assert (G4 : GBase st4 acc).
    { constructor; rewrite ?F1, ?F2, ?F3, ?F5, ?F6; try apply G; auto. }
    fold st4.
    destruct async.
    + destruct (P3 eq_refl) as (Hsol & dd & i & Hw & Hbl & Hbi).
      assert (Hk2 : kind <> 2).
      { intro E. subst kind. pose proof (dw_handle_delete_res c (r_fs st) tmp p s true newdir) as H.
        rewrite Edw in H. specialize (H eq_refl). discriminate. }
      assert (Hacc' : In p (accpaths acc)) by (apply Hacc; apply N.eqb_neq; exact Hk2).
      destruct (blookup p (r_files st4)) as [id|] eqn:Ebl.
      * split; [|split].
        -- constructor; cbn; rewrite ?F1, ?F2, ?F3; try apply G; auto.
           ++ intros id' pp' Hin'. apply aset_In in Hin'. destruct Hin' as [E|Hin'].
              ** injection E as E1 E2. subst id' pp'. cbn. split; [exact Hacc'|]. repeat split; cbn; auto.
                 --- intros dd' i' Hw' Hb'. fold pre in Hw'. fold bn in Hb'.
                     rewrite (proj2 (K1 pre (off_short tmp pre bn pre (le_n _)))) in Hw'.
                     rewrite Hw in Hw'. injection Hw' as <-. rewrite Hbl in Hb'. injection Hb' as <-.
                     apply (N.le_trans _ _ _ Hb Hbi).
                 --- discriminate.
                 --- discriminate.
              ** rewrite F5 in Hin'. apply (Hpk id' pp' Hin').
           ++ rewrite F6. exact Htl.
        -- unfold same_diff. cbn [r_vstk r_seen r_old r_rmdir r_closed r_waited set_maps]. rewrite F2, F3, F7, F8, F9, F10. repeat split.
        -- apply Hpost; [cbn [r_fs set_maps]; exact F1|]. unfold live, running, is_dead in *. cbn [r_out r_dead set_maps]. exact F11.
      * split; [|split].
        -- constructor; cbn; rewrite ?F1, ?F2, ?F3, ?F5; try apply G; auto. rewrite F6. exact Htl.
        -- unfold same_diff. cbn [r_vstk r_seen r_old r_rmdir r_closed r_waited set_maps]. rewrite F2, F3, F7, F8, F9, F10. repeat split.
        -- apply Hpost; [cbn [r_fs set_maps]; exact F1|]. unfold live, running, is_dead in *. cbn [r_out r_dead set_maps]. exact F11.
    + split; [exact G4|]. split.
      * unfold same_diff. rewrite F2, F3, F7, F8, F9, F10. repeat split.
      * apply Hpost; auto.
Qed.


Lemma map_branch s : hardlink_branch (f_map fl s) = hardlink_branch s /\ solid (f_map fl s) = solid s.
Proof. unfold hardlink_branch, solid. rewrite Hmap_mode, Hmap_link. split; reflexivity. Qed.

(* with the filter in front: a rejected change is no change *)
Lemma apply_change_inv idx kind p s st acc :
  GBase st acc ->
  (live st = true -> f_rej fl p = false -> change_pre kind st p s acc) ->
  (live st = true -> forall j t, reach (r_fs st) j -> tmpname t -> blookup t (ents (r_fs st) j) = None) ->
  let st' := apply_change fl c idx kind p s st in
  GBase st' acc /\ same_diff st st' /\ change_post kind p s st st'.
Proof.
  intros G Hpre Hfree0. cbv zeta. rewrite apply_change_unfold. destruct (f_rej fl p) eqn:Er.
  - split; [exact G|]. split; [repeat split|]. intros L. split; [exact L|]. split; [exact (Hfree0 L)|]. split.
    + intros cs _ _. split; auto.
    + intros _ _ H. congruence.
  - set (s' := if N.eqb kind 2 then s else f_map fl s).
    assert (Hs' : hardlink_branch s' = hardlink_branch s /\ solid s' = solid s /\ st_linkname s' = st_linkname s).
    { unfold s'. destruct (N.eqb kind 2); [repeat split|]. destruct (map_branch s) as [A B]. rewrite Hmap_link. auto. }
    destruct Hs' as (Hb1 & Hb2 & Hb3).
    assert (Hpre' : live st = true -> change_pre kind st p s' acc).
    { intros L. destruct (Hpre L eq_refl) as (H1 & H2 & H3 & H4 & H5 & H6 & H7).
      unfold change_pre. rewrite Hb1, Hb3. repeat split; auto; apply H5; auto. }
    destruct (apply_change_inv0 idx kind p s' st acc G Hpre') as (G' & Sd & Hpost).
    split; [exact G'|]. split; [exact Sd|].
    intros L. destruct (Hpost L) as (P0 & P1 & P2 & P3). split; [exact P0|]. split; [exact P1|]. split; [exact P2|].
    intros Hk Hsol _. apply P3; auto. rewrite Hb2. exact Hsol.
Qed.

(* ---------------- the validator's stack after an accepted entry ---------------- *)
Lemma cvstep_shape stk it stk' : chain stk -> cvstep stk it = Some stk' ->
  (exists l, In (removelast (ipath it), l) stk) /\
  (forall d0 l0, In (d0, l0) stk' ->
     (is_prefix d0 (removelast (ipath it)) /\ exists l, In (d0, l) stk)
     \/ (d0 = ipath it /\ isdir it = true /\ del it = false)).
Proof.
  intros Hc Hs. unfold cvstep in Hs.
  destruct (rev (ipath it)) as [|b rd] eqn:Er; [discriminate|].
  pose proof (rev_decomp _ _ _ Er) as Hp. rewrite Hp, removelast_last.
  remember (rev rd) as d eqn:Hdd. clear Hdd.
  destruct (cpop d stk) as [|[d' l] rest] eqn:Ep; [discriminate|].
  destruct (lex d' d) eqn:El; try discriminate. apply lex_eq in El. subst d'.
  destruct (cmpb l b); try discriminate.
  assert (Hin : In (d, l) stk) by (apply (pop_in d stk); rewrite Ep; left; reflexivity).
  assert (Hch : chain ((d, l) :: rest)).
  { pose proof (pop_chain d stk Hc) as H. rewrite Ep in H. apply H. discriminate. }
  split; [exists l; exact Hin|].
  assert (Hrest : forall d0 l0, In (d0, l0) ((d, b) :: rest) -> is_prefix d0 d /\ exists l', In (d0, l') stk).
  { intros d0 l0 [E|H].
    - inversion E; subst. split; [exists []; rewrite app_nil_r; reflexivity|exists l; exact Hin].
    - destruct (chain_below _ _ _ Hch d0 l0 H) as [_ [y Hy]]. split.
      + exists ([l0] ++ y). rewrite Hy, <- app_assoc. reflexivity.
      + exists l0. apply (pop_in d stk). rewrite Ep. right. exact H. }
  inversion Hs; subst stk'. intros d0 l0 H.
  destruct (negb (del it) && isdir it) eqn:Eb.
  - destruct H as [E|H]; [|left; apply (Hrest d0 l0 H)].
    inversion E; subst. right. apply andb_true_iff in Eb. destruct Eb as [E1 E2].
    apply negb_true_iff in E1. auto.
  - left. apply (Hrest d0 l0 H).
Qed.

Lemma is_prefix_not_longer (a b : list bytes) x : is_prefix a b -> ~ is_prefix (b ++ [x]) a.
Proof.
  intros [y Hy] [z Hz]. subst b. rewrite <- !app_assoc in Hz.
  assert (length a = length (a ++ y ++ [x] ++ z)) by (rewrite <- Hz; reflexivity).
  rewrite !app_length in H. simpl in H. lia.
Qed.

Lemma In_map_ce (stk : list ventry) d l : In (d, l) (map ce stk) -> exists ds, In (ds, l) stk /\ pcomps ds = d.
Proof.
  intros H. apply in_map_iff in H. destruct H as ([ds l'] & E & Hin). unfold ce in E. simpl in E.
  inversion E; subst. eauto.
Qed.

Lemma mem_bytes_In p l : mem_bytes p l = true -> In p l.
Proof.
  induction l as [|q l IH]; simpl; [discriminate|]. intros H. apply orb_true_iff in H. destruct H as [H|H].
  - apply bytes_eqb_eq in H. left. auto.
  - right. auto.
Qed.

Lemma accpaths_app acc it : accpaths (acc ++ [it]) = accpaths acc ++ [vpath it].
Proof. unfold accpaths. rewrite map_app. reflexivity. Qed.

(* paths accepted earlier are not at or below a later one, nor does one run through a temporary name *)
Lemma earlier_not_below acc it q :
  spec_ok (map citem_of acc) (citem_of it) -> In q (accpaths acc) -> ~ is_prefix (comps (vpath it)) (comps q).
Proof.
  intros (_ & Hlt & _) Hq Hp. unfold accpaths in Hq. apply in_map_iff in Hq. destruct Hq as (x & Ex & Hx).
  assert (Hin : In (citem_of x) (map citem_of acc)) by (apply in_map; exact Hx).
  pose proof (Hlt _ Hin) as H. cbn [ipath citem_of] in H. rewrite Ex in H.
  pose proof (prefix_le _ _ Hp) as H2. rewrite lex_opp, H in H2. simpl in H2. congruence.
Qed.


(* ---------------- a STAT packet (ReceiveOpt.Merge: nothing of the old content is listed) ---------------- *)
Lemma vstep_ok_path stk it stk' : vstep stk it = Some stk' -> ok_path (vpath it) = true.
Proof.
  intros H. destruct (ok_path (vpath it)) eqn:E; auto.
  unfold vstep in H. rewrite (vsplit_bad _ E) in H. discriminate.
Qed.

Lemma In_accpaths_clean acc q :
  Forall (fun it => ok_path (vpath it) = true /\ clean_path (vpath it)) acc -> In q (accpaths acc) ->
  ok_path q = true /\ clean_path q.
Proof.
  intros H Hq. unfold accpaths in Hq. apply in_map_iff in Hq. destruct Hq as (x & <- & Hx).
  rewrite Forall_forall in H. apply (H x Hx).
Qed.

(* the state after both validators accepted the entry: stack and seen list updated *)
Lemma GBase_ext st st' acc it v' :
  GBase st acc -> r_fs st' = r_fs st -> r_vstk st' = v' -> r_pipes st' = r_pipes st -> r_tmps st' = r_tmps st ->
  (forall q, In q (r_seen st') -> In q (r_seen st) \/ q = vpath it) ->
  R v' -> Inv (map ce v') (map citem_of (acc ++ [it])) ->
  ok_path (vpath it) = true -> clean_path (vpath it) ->
  GBase st' (acc ++ [it]).
Proof.
  intros G E1 E2 E3 E4 Hs HR HI Hok Hcl. constructor.
  - rewrite E1. apply G.
  - rewrite E2. exact HR.
  - rewrite E2. exact HI.
  - apply Forall_app. split; [apply G|]. constructor; auto.
  - intros q Hq. rewrite accpaths_app. apply in_or_app. destruct (Hs q Hq) as [H|H].
    + left. apply (g_seen st acc G q H).
    + right. left. auto.
  - intros id pp Hin. rewrite E3 in Hin. rewrite E1. destruct (g_pipes st acc G id pp Hin) as [A B]. split; auto.
    rewrite accpaths_app. apply in_or_app. left. exact A.
  - intros t Ht. rewrite E4 in Ht. apply (g_tmps st acc G t Ht).
Qed.

Lemma prefix_In (a b : list bytes) x : is_prefix a b -> In x a -> In x b.
Proof. intros [y ->] H. apply in_or_app. left. exact H. Qed.

Lemma removelast_In {A} (l : list A) x : In x (removelast l) -> In x l.
Proof.
  destruct l as [|a r] using rev_ind; [simpl; tauto|]. rewrite removelast_last. intros H. apply in_or_app. left. exact H.
Qed.

Definition MInv (st : rstate) (acc : list vitem) : Prop := GInv st acc /\ r_old st = [].

Lemma MInv_stop (st st' : rstate) acc o :
  GBase st' acc -> r_old st' = [] -> o <> Running -> MInv (set_out st' o) acc.
Proof.
  intros G Ho Hr. split; [|exact Ho]. split.
  - apply (GBase_quiet st' _ acc b0 G); try (unfold b0; lia); simpl.
    + apply step_same; [apply (g_wf st' acc G)|apply (g_next st' acc G)].
    + repeat split.
    + apply G.
  - intros L. rewrite live_set_out in L; [discriminate|exact Hr].
Qed.

Lemma hl_step_seen seen s seen' : hl_step seen s = Some seen' ->
  (forall q, In q seen' -> In q seen \/ (q = st_path s /\ solid s = true))
  /\ (hardlink_branch s = true -> In (st_linkname s) seen).
Proof.
  unfold hl_step, hardlink_branch, solid, st_is_dir.
  destruct (mode_is_dir (st_mode s)) eqn:Ed; cbn [orb negb andb].
  - intros H. inversion H; subst. split; [auto|discriminate].
  - destruct (mode_is_symlink (st_mode s)) eqn:Es; cbn [orb negb andb].
    + intros H. inversion H; subst. split; [auto|]. discriminate.
    + destruct (is_nil (st_linkname s)) eqn:En; cbn [negb andb].
      * intros H. inversion H; subst. split.
        -- intros q [E|Hq]; auto. right. split; auto. rewrite orb_true_r. reflexivity.
        -- discriminate.
      * destruct (mem_bytes (st_linkname s) seen) eqn:Em; intros H; inversion H; subst.
        split; [auto|]. intros _. apply mem_bytes_In. exact Em.
Qed.

(* a directory on the validator's stack lies above every later path: accepted with it *)
Lemma dir_accepted vstk ds l p : R vstk -> In (ds, l) vstk -> ok_path p = true ->
  is_prefix (pcomps ds) (comps p) -> f_rej fl p = false -> pcomps ds = [] \/ f_rej fl ds = false.
Proof.
  intros HR Hin Hok Hpre Hrej. destruct (pcomps ds) as [|a r] eqn:E; [left; reflexivity|right].
  unfold R in HR. rewrite Forall_forall in HR. pose proof (HR _ Hin) as Hd. cbn [fst] in Hd.
  destruct Hd as [Hd|Hd]; [subst ds; discriminate|].
  assert (Hokd : ok_path ds = true) by (rewrite <- (joinc_comps ds); apply okc_ok_path; exact Hd).
  destruct (f_rej fl ds) eqn:Er; [|reflexivity]. exfalso.
  assert (E2 : pcomps ds = comps ds) by (destruct ds; [discriminate|reflexivity]).
  rewrite <- E, E2 in Hpre. rewrite (Hclosed ds p Hokd Hok Er Hpre) in Hrej. discriminate.
Qed.

(* a transferred hard link names a path the filter lets pass *)
Definition link_ok (s : stat) : Prop :=
  hardlink_branch s = true -> f_rej fl (st_path s) = false -> f_rej fl (st_linkname s) = false.

(* the same for an entry both validators have accepted, whatever the bookkeeping of ids: the
   metadata branch of the receive loop (Model/RecvMeta.v) hands entries to the walker this way *)
Lemma feed_merge idx s st acc v' seen' files next :
  MInv st acc -> clean_path (st_path s) -> link_ok s ->
  vstep (r_vstk st) (item_of s) = Some v' -> hl_step (r_seen st) s = Some seen' ->
  let st1 := set_valid st v' seen' files next in
  GBase st1 (acc ++ [item_of s]) /\ r_old st1 = []
  /\ MInv (diff_feed fl c idx s (r_old st1) st1) (acc ++ [item_of s]).
Proof.
  intros [[G A] Hold] Hcl Hlk Ev Eh. cbv zeta.
  set (it := item_of s) in *.
  pose proof (vstep_ok_path _ _ _ Ev) as Hok. change (vpath it) with (st_path s) in Hok.
  pose proof (vstep_refines (r_vstk st) it (g_R st acc G) Hok) as Hr. rewrite Ev in Hr. destruct Hr as [Hcv HR'].
  destruct (cvstep_sound _ _ _ _ (g_vinv st acc G) (okitem_names it Hok) Hcv) as [Hspec HI'].
  change [citem_of it] with (map citem_of [it]) in HI'. rewrite <- map_app in HI'.
  destruct (cvstep_shape _ _ _ (inv_chain _ _ (g_vinv st acc G)) Hcv) as [Hparent Hshape].
  cbn [ipath citem_of it item_of vpath] in Hparent, Hshape.
  destruct (hl_step_seen _ _ _ Eh) as [Hseen' Hlinkseen].
  set (st1 := set_valid st v' seen' files next).
  assert (G1 : GBase st1 (acc ++ [it])).
  { apply (GBase_ext st st1 acc it v'); simpl; auto. intros q Hq. destruct (Hseen' q Hq) as [H|[H _]]; auto. }
  split; [exact G1|]. split; [exact Hold|].
  assert (Eold : r_old st1 = []) by (simpl; exact Hold). rewrite Eold. cbn [diff_feed].
  set (st2 := set_diff st1 [] []).
  assert (G2 : GBase st2 (acc ++ [it])).
  { apply (GBase_quiet st1 st2 _ b0 G1); try (unfold b0; lia); simpl.
    - apply step_same; [apply (g_wf st acc G)|apply (g_next st acc G)].
    - repeat split.
    - apply G1. }
  assert (Ecs : comps (st_path s) = removelast (comps (st_path s)) ++ [last (comps (st_path s)) []]) by (apply split_comps; auto).
  assert (Hpre : live st2 = true -> f_rej fl (st_path s) = false -> change_pre 0 st2 (st_path s) s (acc ++ [it])).
  { intros L Hrej. assert (L0 : live st = true) by exact L. destruct (A L0) as [A1 A2 A3].
    unfold change_pre. cbn [r_fs st2 st1 set_diff set_valid r_pipes].
    split; [exact Hok|]. split; [exact Hcl|]. split.
    - destruct Hparent as [l Hl]. apply In_map_ce in Hl. destruct Hl as (ds & Hin & Eds).
      rewrite <- Eds.
      destruct (dir_accepted (r_vstk st) ds l (st_path s) (g_R st acc G) Hin Hok) as [E|E]; auto.
      + rewrite Eds. exists [last (comps (st_path s)) []]. rewrite <- Ecs. reflexivity.
      + rewrite E. exact I.
      + apply (A2 ds l Hin E).
    - split; [exact A1|]. split.
      + intros _ Hhb. pose proof (Hlinkseen Hhb) as Hin.
        destruct (In_accpaths_clean acc _ (g_acc st acc G) (g_seen st acc G _ Hin)) as [Hokl _].
        split; auto. pose proof (A3 _ Hin (Hlk Hhb Hrej)) as Hs. rewrite (split_comps _ Hokl) in Hs. apply safe_prefix in Hs. exact Hs.
      + split.
        * intros id pp Hin. apply (earlier_not_below acc it (pp_path pp) Hspec). apply (g_pipes st acc G id pp Hin).
        * intros _. rewrite accpaths_app. apply in_or_app. right. left. reflexivity. }
  assert (Hfree0 : live st2 = true -> forall j t, reach (r_fs st2) j -> tmpname t -> blookup t (ents (r_fs st2) j) = None).
  { intros L. assert (L0 : live st = true) by exact L. destruct (A L0) as [A1 _ _]. exact A1. }
  destruct (apply_change_inv idx 0 (st_path s) s st2 (acc ++ [it]) G2 Hpre Hfree0) as (G3 & (F1 & F2 & F3 & _) & Hpost).
  set (st3 := apply_change fl c idx 0 (st_path s) s st2) in *.
  split; [|rewrite F3; reflexivity]. split; [exact G3|].
  intros L3. destruct (Hpost L3) as (L2 & P1 & P2 & P3).
  assert (L0 : live st = true) by exact L2. destruct (A L0) as [A1 A2 A3].
  assert (Hkeep : forall q, In q (accpaths acc) -> safe (r_fs st) D (comps q) -> safe (r_fs st3) D (comps q)).
  { intros q Hq Hs. apply (proj1 (P2 (comps q) ltac:(apply (earlier_not_below acc it q Hspec Hq)) ltac:(apply (In_accpaths_clean acc q (g_acc st acc G) Hq)))). exact Hs. }
  constructor.
  - exact P1.
  - intros ds l Hin Hrj. rewrite F1 in Hin. cbn [r_vstk st2 st1 set_diff set_valid] in Hin.
    assert (Hin' : In (pcomps ds, l) (map ce v')).
    { apply in_map_iff. exists (ds, l). split; auto. }
    destruct (Hshape _ _ Hin') as [(Hp & l' & Hl')|(E1 & E2 & _)].
    + apply In_map_ce in Hl'. destruct Hl' as (ds' & Hin2 & Eds).
      apply pcomps_inj_ok in Eds. subst ds'.
      refine (proj1 (P2 (pcomps ds) _ _) _).
      * rewrite Ecs. apply is_prefix_not_longer. exact Hp.
      * intros t Ht Hint. apply (Hcl t Ht). apply removelast_In. apply (prefix_In _ _ t Hp Hint).
      * apply (A2 ds l' Hin2 Hrj).
    + rewrite E1.
      assert (Eds : ds = st_path s).
      { apply pcomps_inj_ok. rewrite E1. symmetry. apply pcomps_nonempty. intro E0. rewrite E0 in Hok. discriminate. }
      apply P3; [discriminate| |rewrite <- Eds; exact Hrj]. unfold solid. cbn [isdir citem_of it item_of visdir] in E2.
      unfold st_is_dir in E2. rewrite E2. reflexivity.
  - intros q Hq Hrj. rewrite F2 in Hq. cbn [r_seen st2 st1 set_diff set_valid] in Hq.
    destruct (Hseen' q Hq) as [H|[-> Hsol]].
    + apply Hkeep; [apply (g_seen st acc G q H)|apply (A3 q H Hrj)].
    + apply P3; [discriminate|exact Hsol|exact Hrj].
Qed.

Lemma recv_stat_inv idx s st acc :
  MInv st acc -> clean_path (st_path s) -> link_ok s -> exists acc', MInv (recv_stat fl c idx s st) acc'.
Proof.
  intros M Hcl Hlk. pose proof M as [[G A] Hold]. unfold recv_stat.
  set (files := if mode_is_regular (st_mode s) then bset (st_path s) (r_next st) (r_files st) else r_files st).
  set (it := item_of s).
  destruct (vstep (r_vstk st) it) as [v'|] eqn:Ev.
  2:{ exists acc. apply (MInv_stop st); [|simpl; exact Hold|discriminate].
      apply (GBase_quiet st _ acc b0 G); try (unfold b0; lia); simpl.
      - apply step_same; [apply (g_wf st acc G)|apply (g_next st acc G)].
      - repeat split.
      - apply G. }
  pose proof (vstep_ok_path _ _ _ Ev) as Hok. change (vpath it) with (st_path s) in Hok.
  pose proof (vstep_refines (r_vstk st) it (g_R st acc G) Hok) as Hr. rewrite Ev in Hr. destruct Hr as [Hcv HR'].
  destruct (cvstep_sound _ _ _ _ (g_vinv st acc G) (okitem_names it Hok) Hcv) as [Hspec HI'].
  change [citem_of it] with (map citem_of [it]) in HI'. rewrite <- map_app in HI'.
  exists (acc ++ [it]).
  destruct (hl_step (r_seen st) s) as [seen'|] eqn:Eh.
  2:{ apply (MInv_stop st); [|simpl; exact Hold|discriminate].
      apply (GBase_ext st _ acc it v'); simpl; auto. }
  destruct (feed_merge idx s st acc v' seen' files (r_next st + 1) M Hcl Hlk Ev Eh) as (G1 & Eold & M1).
  set (st1 := set_valid (set_valid st (r_vstk st) (r_seen st) files (r_next st + 1)) v' seen' files (r_next st + 1)).
  change (set_valid st v' seen' files (r_next st + 1)) with st1 in G1, Eold, M1.
  destruct (is_dead st1 && negb (r_closed st1)); [apply (MInv_stop st1); [exact G1|exact Eold|discriminate]|].
  destruct (r_closed st1); [apply (MInv_stop st1); [exact G1|exact Eold|discriminate]|].
  exact M1.
Qed.

(* ---------------- the loop ---------------- *)
Lemma recv_data_old idx id d st : r_old (recv_data c idx id d st) = r_old st.
Proof.
  unfold recv_data. destruct (alookup id (r_pipes st)) as [pp|]; [|reflexivity].
  destruct (pp_closed pp); [reflexivity|].
  destruct (spend st) as [st1|] eqn:Es; [|reflexivity].
  destruct (spend_core st st1 Es) as (_ & _ & _ & _ & _ & _ & Eo & _).
  destruct (is_nil d).
  - destruct (r_asyncerr st1); [destruct (pp_fd pp); simpl; auto|].
    destruct (if has_bits (st_mode (pp_stat pp)) ModeSetuid || has_bits (st_mode (pp_stat pp)) ModeSetgid
              then sys_chmod c (r_fs st1) (pp_path pp) (unix_perm (st_mode (pp_stat pp))) else (r_fs st1, ROk)) as [f1 r1].
    destruct (if is_err r1 then (f1, r1) else sys_utimens c f1 (pp_path pp) (st_mtime (pp_stat pp))) as [f2 r2].
    simpl. exact Eo.
  - destruct (match pp_fd pp with Some i => (r_fs st1, RFd i) | None => sys_open_wronly c (r_fs st1) (pp_path pp) false 0 end) as [f1 r].
    destruct r; simpl; auto. destruct (fd_pwrite f1 i (pp_off pp) d) as [f2 r2]. simpl. exact Eo.
Qed.

Lemma maybe_wait_old idx st : r_old (maybe_wait c dl idx st) = r_old st.
Proof.
  unfold maybe_wait.
  destruct ((running st || match r_out st with Drained _ => true | _ => false end) && negb (is_dead st)); [|reflexivity].
  destruct (r_closed st && negb (r_waited st)); [|reflexivity].
  destruct (r_asyncerr st); [reflexivity|].
  destruct (is_nil (r_pipes st)); [|reflexivity].
  destruct (spend st) as [st1|] eqn:Es; [|reflexivity].
  destruct (spend_core st st1 Es) as (_ & _ & _ & _ & _ & _ & Eo & _). simpl. exact Eo.
Qed.

Definition clean_packet (pk : packet) : Prop :=
  match pk with PStat (Some s) => clean_path (st_path s) /\ link_ok s | _ => True end.

Lemma recv_packet_inv idx pk st acc :
  MInv st acc -> clean_packet pk -> exists acc', MInv (recv_packet fl c dl idx pk st) acc'.
Proof.
  intros M Hc. unfold recv_packet. destruct (negb (running st)); [exists acc; exact M|].
  assert (X : exists acc', MInv (match pk with
                                 | PErr => set_out st (Failed idx)
                                 | PFin => set_out st (Drained idx)
                                 | POther => st
                                 | PStat None =>
                                   if r_closed st then set_out st (Panicked idx)
                                   else if is_dead st then set_out st (Failed idx)
                                   else diff_flush fl c idx (r_old st) (set_flags st true (r_waited st))
                                 | PStat (Some s) => recv_stat fl c idx s st
                                 | PData id d => recv_data c idx id d st
                                 end) acc').
  { destruct M as [[G A] Ho]. destruct pk as [[s|]|id d| | |].
    - apply (recv_stat_inv idx s st acc); [split; [split|]; auto|exact (proj1 Hc)|exact (proj2 Hc)].
    - exists acc. destruct (r_closed st); [apply (MInv_stop st); auto; discriminate|].
      destruct (is_dead st); [apply (MInv_stop st); auto; discriminate|].
      rewrite Ho. cbn [diff_flush]. split; [|reflexivity].
      apply (GInv_quiet st _ acc b0 (conj G A)); try (unfold b0; lia); simpl; auto.
      + apply step_same; [apply (g_wf st acc G)|apply (g_next st acc G)].
      + repeat split.
      + apply G.
    - exists acc. split; [apply recv_data_inv; split; auto|]. rewrite recv_data_old. exact Ho.
    - exists acc. apply (MInv_stop st); auto; discriminate.
    - exists acc. apply (MInv_stop st); auto; discriminate.
    - exists acc. split; [split|]; auto. }
  destruct X as [acc' [G' Ho']]. exists acc'. split; [apply maybe_wait_inv; exact G'|].
  rewrite maybe_wait_old. exact Ho'.
Qed.

(* packets other than a non-empty STAT accept nothing new *)
Lemma recv_packet_inv_other idx pk st acc :
  MInv st acc -> (forall s, pk <> PStat (Some s)) -> MInv (recv_packet fl c dl idx pk st) acc.
Proof.
  intros M Hpk. unfold recv_packet. destruct (negb (running st)); [exact M|].
  assert (X : MInv (match pk with
                    | PErr => set_out st (Failed idx)
                    | PFin => set_out st (Drained idx)
                    | POther => st
                    | PStat None =>
                      if r_closed st then set_out st (Panicked idx)
                      else if is_dead st then set_out st (Failed idx)
                      else diff_flush fl c idx (r_old st) (set_flags st true (r_waited st))
                    | PStat (Some s) => recv_stat fl c idx s st
                    | PData id d => recv_data c idx id d st
                    end) acc).
  { destruct M as [[G A] Ho]. destruct pk as [[s|]|id d| | |].
    - exfalso. apply (Hpk s). reflexivity.
    - destruct (r_closed st); [apply (MInv_stop st); auto; discriminate|].
      destruct (is_dead st); [apply (MInv_stop st); auto; discriminate|].
      rewrite Ho. cbn [diff_flush]. split; [|reflexivity].
      apply (GInv_quiet st _ acc b0 (conj G A)); try (unfold b0; lia); simpl; auto.
      + apply step_same; [apply (g_wf st acc G)|apply (g_next st acc G)].
      + repeat split.
      + apply G.
    - split; [apply recv_data_inv; split; auto|]. rewrite recv_data_old. exact Ho.
    - apply (MInv_stop st); auto; discriminate.
    - apply (MInv_stop st); auto; discriminate.
    - split; [split|]; auto. }
  destruct X as [G' Ho']. split; [apply maybe_wait_inv; exact G'|].
  rewrite maybe_wait_old. exact Ho'.
Qed.

(* the bookkeeping of ids is no concern of the invariant *)
Lemma MInv_files st acc files next :
  MInv st acc -> MInv (set_valid st (r_vstk st) (r_seen st) files next) acc.
Proof.
  intros [G Ho]. split; [|exact Ho].
  apply (GInv_quiet st _ acc b0 G); try (unfold b0; lia); simpl; auto.
  - apply step_same; [apply (g_wf st acc (proj1 G))|apply (g_next st acc (proj1 G))].
  - repeat split.
  - apply (proj1 G).
Qed.

Lemma recv_loop_inv : forall pks idx st acc,
  MInv st acc -> Forall clean_packet pks -> exists acc', MInv (recv_loop fl c dl idx pks st) acc'.
Proof.
  induction pks as [|pk pks IH]; intros idx st acc M Hc; simpl; [exists acc; exact M|].
  inversion Hc; subst. destruct (recv_packet_inv idx pk st acc M H1) as [acc1 M1].
  apply (IH (S idx) _ acc1 M1 H2).
Qed.

(* no temporary name is in use inside D when the transfer starts *)
Definition tmp_unused : Prop := forall j t, reach f0 j -> tmpname t -> blookup t (ents f0 j) = None.

Lemma MInv_init budget : tmp_unused -> MInv (rstate_init f0 D true tmps0 budget) [].
Proof.
  intros Hu. split; [|reflexivity]. split.
  - constructor; simpl.
    + apply step_refl; auto. unfold b0. lia.
    + constructor; [left; reflexivity|constructor].
    + apply inv_init.
    + constructor.
    + intros q [].
    + intros id pp [].
    + intros t Ht. right. exact Ht.
  - intros _. constructor; simpl.
    + exact Hu.
    + intros d l [E|[]] _. inversion E; subst. exact I.
    + intros q [].
Qed.

Theorem recv_merge_step pks budget :
  tmp_unused -> Forall clean_packet pks ->
  step TAll b0 f0 (r_fs (recv_run_f fl f0 root D dl true tmps0 pks budget)).
Proof.
  intros Hu Hc. unfold recv_run_f.
  destruct (recv_loop_inv pks 0 _ [] (MInv_init budget Hu) Hc) as [acc [[G _] _]]. apply G.
Qed.

End Recv.
