(* C14 — the destination root itself as a target, prepareTargetDir, Copy's loop, the deferred
   fixCreatedParentDirs. *)
From Coq Require Import List Arith NArith Lia Bool ZifyN ZifyNat ZifyBool.
From FS Require Import Sx Model.Path Model.Fs Model.RootPath Model.CopyFs Model.CopyFsSpec
  Proofs.Lex Proofs.PathP Proofs.FsP Proofs.RootPathStrP Proofs.FsCopyFrameP Proofs.FsCopyInvP
  Proofs.FsCopySafeP Proofs.FsCopyLinksP Proofs.FsCopySysP Proofs.CopyFsP Proofs.CopyFsNrP Proofs.CopyRecP Proofs.CopyFsRec2P Proofs.CopyFsTopP.
Import ListNotations.
Open Scope N_scope.
Open Scope bool_scope.

Local Opaque rfuel.

(* ---- strings: Base, Dir, Join on rendered paths ---- *)
Lemma comps_nonul p : has_nul p = false -> Forall nonul (comps p).
Proof.
  induction p as [|a p IH]; intros H; [constructor; [reflexivity|constructor]|].
  unfold has_nul in H. simpl in H. apply orb_false_iff in H. destruct H as [Ha Hp].
  specialize (IH Hp). simpl. destruct (N.eqb a sep); [constructor; [reflexivity|auto]|].
  destruct (comps p) as [|x xs]; [constructor; [|constructor]|].
  - unfold nonul, has_nul. simpl. rewrite Ha. reflexivity.
  - inversion IH; subst. constructor; auto. unfold nonul, has_nul in *. simpl. rewrite Ha. auto.
Qed.

Lemma cstep_nonul stk x : Forall nonul stk -> nonul x -> Forall nonul (cstep true stk x).
Proof.
  intros Hs Hx. unfold cstep. destruct (bytes_eqb x [] || bytes_eqb x s_dot); auto.
  destruct (bytes_eqb x s_dotdot); [|constructor; auto].
  destruct stk as [|t r]; auto. inversion Hs; subst. destruct (bytes_eqb t s_dotdot); auto.
Qed.

Lemma stk_from_nonul stk s : Forall nonul stk -> has_nul s = false -> Forall nonul (stk_from stk s).
Proof.
  intros Hs Hn. unfold stk_from. pose proof (comps_nonul s Hn) as Hc.
  revert stk Hs. induction Hc as [|x cs Hx _ IH]; intros stk Hs; [exact Hs|].
  simpl. apply IH. apply cstep_nonul; auto.
Qed.

Lemma join_sep_names src : has_nul src = false ->
  exists l, join2 [sep] src = render l /\ Forall nm l /\ Forall nonul l.
Proof.
  intros H. exists (rev (stk_from [] src)). split; [apply join2_root|].
  split; apply Forall_rev; [apply stk_from_nm; constructor|apply stk_from_nonul; auto; constructor].
Qed.

Lemma base_render l x : Forall nm (l ++ [x]) -> base (render (l ++ [x])) = x.
Proof.
  intros H. unfold base. rewrite strip_render by auto. unfold render. cbn [split_last].
  rewrite split_last_joinc by (apply Forall_nm_nosep; auto).
  destruct l as [|y l]; [rewrite N.eqb_refl; reflexivity|reflexivity].
Qed.

Lemma base_render_nil : base (render []) = [sep].
Proof. reflexivity. Qed.

Lemma join2_render_sep m : Forall nm m -> join2 (render m) [sep] = render m.
Proof.
  intros H. rewrite join2_render by auto. unfold stk_from. cbn [comps]. rewrite N.eqb_refl. cbn [fold_left].
  rewrite !cstep_nil, rev_involutive. reflexivity.
Qed.

Lemma join2_render_name m x : Forall nm m -> nm x -> join2 (render m) x = render (m ++ [x]).
Proof.
  intros H Hx. rewrite join2_render by auto. rewrite stk_from_single by (destruct Hx; auto).
  rewrite cstep_normal by (destruct Hx; auto). simpl rev. rewrite rev_involutive. reflexivity.
Qed.

Lemma dir_render m x : Forall nm (m ++ [x]) -> dir (render (m ++ [x])) = render m.
Proof.
  intros H. assert (Hm : Forall nm m) by (apply Forall_app in H; apply H).
  unfold dir, render. cbn [split_last]. rewrite split_last_joinc by (apply Forall_nm_nosep; auto).
  destruct m as [|y m].
  - rewrite N.eqb_refl. reflexivity.
  - change (clean (sep :: joinc (y :: m) ++ [sep]) = render (y :: m)). rewrite clean_abs.
    unfold stk_from. rewrite comps_snoc_sep, fold_left_app.
    fold (stk_from [] (joinc (y :: m))). rewrite stk_from_joinc by auto. cbn [fold_left]. rewrite cstep_nil, app_nil_r, rev_involutive. reflexivity.
Qed.

Lemma dir_render_nil : dir (render []) = render [].
Proof. reflexivity. Qed.

Section Top2.
  Variables (c : ctx) (f0 : fs) (dr : N) (dcs : list bytes).
  Notation Ctx := (Ctx c f0 dr dcs).
  Notation tpath := (tpath dcs).
  Notation SS := (SS f0 dr).
  Notation Tgt := (Tgt c f0 dr dcs).
  Notation names_ss := (names_ss f0 dr).
  Notation stays := (stays c f0 dr dcs).
  Notation stays_ok := (stays_ok c f0 dr dcs).
  Notation mstep := (mstep c f0 dr dcs).
  Notation meta_post := (meta_post c f0 dr dcs).
  Notation lok := (lok f0 dr dcs).
  Notation keeps_new := (keeps_new dr (f_next f0)).
  Notation gnew := (gnew dr (f_next f0)).
  Notation created_ok := (created_ok f0 dr dcs).
  Let rt := c_root c.
  Let b := f_next f0.

  (* ---- the root path ---- *)
  Lemma resolve_root_ino f fl i : Ctx f -> resolve_ino c f (render dcs) fl = inl i -> i = dr.
  Proof.
    intros C H. destruct (resolve_root c f0 dr dcs f fl C) as (r & E & Hi).
    unfold resolve_ino in H. rewrite E, Hi in H. inversion H; auto.
  Qed.

  Lemma lstat_root f : Ctx f -> exists n, snd (sys_lstat c f (render dcs)) = RStat dr n /\ kind_is_dir n = true.
  Proof.
    intros C. destruct (resolve_root c f0 dr dcs f false C) as (r & E & Hi).
    unfold sys_lstat, resolve_ino. rewrite E, Hi.
    pose proof (chain_end_dir _ _ _ _ (cx_root _ _ _ _ f C)) as Hd. unfold is_dir, dir_of in Hd.
    destruct (get f dr) as [[[p es|?|?|? ?] m]|] eqn:Eg; try discriminate.
    eexists. split; reflexivity.
  Qed.

  Lemma utimens_root f t f' res : Ctx f -> sys_utimens c f (render dcs) t = (f', res) -> meta_post f f'.
  Proof.
    intros C H. destruct (sys_utimens_inv _ _ _ _ _ _ H) as [[-> _]|(j & n & m & E & Hg & -> & ->)].
    - apply meta_post_refl; auto.
    - rewrite (resolve_root_ino f false j C E) in *. apply t_put_meta; auto. eapply ctx_dr_SS; eauto.
  Qed.

  Lemma join_root_child n : Forall nm dcs -> nm n -> join2 (render dcs) n = tpath [] n.
  Proof.
    intros Hd Hn. unfold FsCopySafeP.tpath. rewrite join2_render by auto.
    rewrite stk_from_single by (destruct Hn; auto). rewrite cstep_normal by (destruct Hn; auto).
    simpl rev. rewrite rev_involutive. reflexivity.
  Qed.

  Lemma lstat_opt_root s : Ctx (s_fs s) -> exists n, kind_is_dir n = true /\
    lstat_opt c (render dcs) s = ({| s_fs := s_fs s; s_links := s_links s; s_parents := s_parents s; s_reads := s_reads s |}, inl (Some (dr, n))) /\
    lstat_opt_nd c (render dcs) s = ({| s_fs := s_fs s; s_links := s_links s; s_parents := s_parents s; s_reads := s_reads s |}, inl (Some (dr, n))).
  Proof.
    intros C. destruct (lstat_root (s_fs s) C) as (n & E & Hk). exists n. split; auto.
    unfold lstat_opt, lstat_opt_nd. rewrite !bind_run, !sys_run. cbn [fst snd]. rewrite sys_lstat_fs, E. split; reflexivity.
  Qed.

  (* ---- copier.copy onto the destination root: the source must be a directory ---- *)
  Section Reads.
    Variable R : N -> Prop.
    Variables SP SPN : bytes -> Prop.
    Hypothesis HA : forall f p i, Ctx f -> SP p -> resolve_ino c f p false = inl i -> R i.
    Hypothesis HB : forall f p i n, Ctx f -> SP p -> resolve_ino c f p false = inl i -> get f i = Some n ->
      kind_is_link n = false -> SPN p.
    Hypothesis HC : forall f p j, Ctx f -> SPN p -> resolve_ino c f p true = inl j -> R j.
    Hypothesis HD : forall f p j pp es n, Ctx f -> SPN p -> resolve_ino c f p true = inl j ->
      dir_of f j = Some (pp, es) -> In n (map fst es) -> SP (join2 p n).
    Hypothesis HN : forall p, SPN p -> SP p.
    Notation rok := (CopyRecP.rok R).
    Notation pok := (CopyRecP.pok SPN).

  Lemma copy_rec_root_spec_r k o sl src s s' r :
    Ctx (s_fs s) -> lok s -> s_parents s = [] ->
    (forall ino fi, snd (sys_lstat c (s_fs s) src) = RStat ino fi -> kind_is_dir fi = true) ->
    SP src -> rok s ->
    copy_rec (S k) c o sl src [] (render dcs) false [] [] s = (s', r) ->
    (stays_ok dr s s' r /\ (ok_res r -> s_parents s' = [])) /\ rok s'.
  Proof.
    intros C L Hst Hsrc Hsp Rk H. cbn [copy_rec] in H. rewrite bind_run in H. unfold get_fs at 1 in H.
    rewrite bind_run, sys_run in H. cbn [fst snd] in H. rewrite sys_lstat_fs in H.
    assert (Hdr : is_dir (s_fs s) dr = true) by (eapply chain_end_dir; apply (cx_root _ _ _ _ _ C)).
    assert (Hsame : forall s1 (r1 : unit + N), s_fs s1 = s_fs s -> s_links s1 = s_links s -> s_parents s1 = s_parents s ->
              stays_ok dr s s1 r1 /\ (ok_res r1 -> s_parents s1 = [])).
    { intros s1 r1 E1 E2 E3. split; [apply stays_stays_ok; apply stays_same; auto|]. intros _. congruence. }
    destruct (snd (sys_lstat c (s_fs s) src)) as [|e|ino fi| | |] eqn:Esrc;
      try (unfold fail in H; injection H as <- <-; split; [apply Hsame; reflexivity|exact Rk]).
    pose proof (Hsrc ino fi eq_refl) as Hkd.
    destruct (sys_lstat_ino c _ _ _ _ Esrc) as [Elr Elg].
    assert (Hsn : SPN src).
    { eapply HB; eauto. unfold kind_is_dir in Hkd. unfold kind_is_link. destruct (i_kind fi); auto; discriminate. }
    rewrite bind_run, log_read_run in H. cbn [s_fs s_links s_parents s_reads] in H.
    set (s1 := {| s_fs := s_fs s; s_links := s_links s; s_parents := s_parents s; s_reads := ino :: s_reads s |}) in *.
    assert (Rk1 : rok s1) by (eapply rok_cons; [reflexivity| |exact Rk]; eapply HA; eauto).
    assert (C1 : Ctx (s_fs s1)) by exact C.
    destruct (lstat_opt_root s1 C1) as (n & Hkn & El & Eln).
    rewrite bind_run, Eln in H. cbv zeta in H. cbn [is_nil fst snd andb negb] in H.
    set (s2 := {| s_fs := s_fs s1; s_links := s_links s1; s_parents := s_parents s1; s_reads := s_reads s1 |}) in H.
    (* createParentDirs: the stack is empty *)
    assert (Ecp : create_parent_dirs c o false s2 = (CopyRecP.setp s2 [], inl tt)).
    { unfold create_parent_dirs. rewrite bind_run, get_parents_run. cbn [s_parents s2 s1]. rewrite Hst. reflexivity. }
    rewrite bind_run, Ecp in H.
    set (s3 := CopyRecP.setp s2 []) in H.
    (* prep_rest does nothing: both are directories *)
    assert (Epr : prep_rest c o (render dcs) fi (Some (dr, n)) s3 = (s3, inl tt)).
    { unfold prep_rest. rewrite bind_run.
      assert (E2 : remove_target_if_needed c o (render dcs) fi (Some (dr, n)) s3 = (s3, inl tt)).
      { unfold remove_target_if_needed. destruct (negb (o_always_replace o)); [reflexivity|]. rewrite Hkd, Hkn. reflexivity. }
      rewrite E2. rewrite Hkd. reflexivity. }
    rewrite bind_run, Epr in H.
    assert (C3 : Ctx (s_fs s3)) by exact C.
    assert (Rk3 : rok s3) by exact Rk1.
    unfold kind_is_dir in Hkd. destruct (i_kind fi) as [pp es|?|?|? ?] eqn:Ek; try discriminate.
    (* copy_directory_only does nothing *)
    destruct (lstat_opt_root s3 C3) as (n2 & Hkn2 & El2 & _).
    rewrite bind_run in H. unfold copy_directory_only in H. rewrite bind_run, El2 in H. rewrite Hkn2 in H. cbn [negb ret] in H.
    rewrite bind_run, push_parent_run in H. cbn [s_parents s3 CopyRecP.setp app] in H.
    set (Pst := [(src, render dcs, true)]) in H.
    rewrite bind_run, sys_run in H. cbn [fst snd] in H. rewrite sys_readdir_fs in H.
    match type of H with context [sys_readdir c (s_fs ?sX) src] => set (s4 := sX) in H end.
    assert (F4 : s_fs s4 = s_fs s) by reflexivity. assert (EL4 : s_links s4 = s_links s) by reflexivity.
    assert (C4 : Ctx (s_fs s4)) by exact C.
    assert (Rk4 : rok s4) by exact Rk1.
    assert (Hany : forall s9 (r9 : unit + N), s_fs s9 = s_fs s -> s_links s9 = s_links s ->
              stays_ok dr s s9 r9).
    { intros s9 r9 E1 E2. split; [rewrite E1; exact C|]. split; [rewrite E1; apply above_refl|].
      split; [intros _ Lx; unfold CopyFsP.lok; rewrite E1, E2; exact Lx|rewrite E1; apply keeps_new_refl]. }
    destruct (snd (sys_readdir c (s_fs s4) src)) as [|e|i0 n0|b0|names|i0] eqn:Er;
      try (unfold fail in H; injection H as <- <-; split; [|exact Rk4]; split; [apply Hany; reflexivity|intros [a Ha]; discriminate]).
    pose proof (readdir_names c f0 dr (s_fs s4) src names (cx_inv _ _ _ _ _ C4) Er) as Hnames.
    pose proof (readdir_children c f0 dr dcs SP SPN HD (s_fs s4) src names C4 Hsn Er) as Hkids.
    rewrite bind_run in H. unfold get_fs at 1 in H. rewrite bind_run in H.
    match type of H with context [(match resolve_ino c ?ff src true with inl di => log_read di | inr _ => ret tt end) ?sX] =>
      destruct (log_dir_reads c f0 dr dcs R SPN HC ff src sX C4 Hsn) as (s5 & E5 & F5 & EL5 & Pa5 & Rd5); rewrite E5 in H end.
    cbn [s_fs s_links s_parents s4 s3 s2 s1 CopyRecP.setp] in F5, EL5, Pa5.
    assert (Rk5 : rok s5) by (apply Rd5; exact Rk4).
    assert (C5 : Ctx (s_fs s5)) by (rewrite F5; auto).
    assert (L5 : lok s5) by (unfold CopyFsP.lok; rewrite F5, EL5; exact L).
    assert (S05 : stays_ok dr s s5 (@inl unit N tt)) by (apply Hany; auto).
    assert (Hd5 : is_dir (s_fs s5) dr = true) by (rewrite F5; auto).
    pose proof (cx_dcs _ _ _ _ _ C) as Hdn.
    rewrite bind_run in H.
    set (I := fun s0 : cst => Ctx (s_fs s0) /\ s_parents s0 = Pst).
    assert (HI : forall s0, I s0 -> Ctx (s_fs s0) /\ is_dir (s_fs s0) dr = true).
    { intros s0 (C0 & _). split; auto. eapply chain_end_dir. apply (cx_root _ _ _ _ _ C0). }
    assert (HpkP : pok Pst) by (constructor; [exact Hsn|constructor]).
    set (PK := fun n : bytes => okn n /\ SP (join2 src n)).
    assert (Hg : forall n1 sa sb rb, PK n1 -> I sa -> lok sa -> rok sa ->
              copy_rec k c o sl (join2 src n1) (join2 [] n1) (join2 (render dcs) n1) true [] [] sa = (sb, rb) ->
              stays_ok dr sa sb rb /\ (ok_res rb -> I sb) /\ rok sb).
    { intros n1 sa sb rb [Hn Hspk] (Ca & Pa) La Rka Ha.
      rewrite (join2_names dcs n1 Hdn (proj1 Hn)) in Ha.
      replace (dcs ++ [n1]) with (dcs ++ [] ++ [] ++ [n1]) in Ha by reflexivity.
      assert (Hca : chain (s_fs sa) dr [] dr) by (constructor; eapply chain_end_dir; apply (cx_root _ _ _ _ _ Ca)).
      destruct (copy_rec_spec_r c f0 dr dcs R SP SPN HA HB HC HD HN k o sl (join2 src n1) (join2 [] n1) [] dr [] n1 true [] [] sa sb rb Ca Hca) as ((Sb & Pb) & Rkb); auto;
        try apply Hn.
      { rewrite Pa. reflexivity. }
      { rewrite Pa. exact HpkP. }
      split; auto. split; [|exact Rkb]. intros Hr. split; [apply Sb|].
      destruct (Pb Hr) as [Eq|[Eq _]]; rewrite Eq, Pa; reflexivity. }
    assert (I5 : I s5) by (split; [exact C5|rewrite Pa5; reflexivity]).
    assert (HPK : Forall PK (sorted_names names)).
    { apply sorted_names_forall. apply Forall_forall. intros n1 Hn1. rewrite Forall_forall in Hnames, Hkids. split; auto. }
    destruct (each_m (fun n1 => copy_rec k c o sl (join2 src n1) (join2 [] n1) (join2 (render dcs) n1) true [] []) (sorted_names names) s5)
      as [s6 [[]|e]] eqn:E6.
    2:{ injection H as <- <-.
        destruct (each_m_inv_r c f0 dr dcs R PK I _ dr HI Hg _ HPK s5 s6 _ I5 L5 Rk5 E6) as (S6 & _ & Rk6).
        split; [|exact Rk6].
        split; [|intros [a Ha]; discriminate].
        eapply (stays_ok_seq c f0 dr dcs dr s s5 s6 tt); eauto. }
    destruct (each_m_inv_r c f0 dr dcs R PK I _ dr HI Hg _ HPK s5 s6 _ I5 L5 Rk5 E6) as (S6 & I6 & Rk6).
    destruct (I6 (ex_intro _ tt eq_refl)) as (C6 & Pa6).
    rewrite bind_run, pop_parent_run in H. rewrite Pa6 in H. cbn [removelast Pst] in H.
    set (s7 := CopyRecP.setp s6 []) in H.
    assert (S07 : stays_ok dr s s7 (@inl unit N tt)).
    { eapply (stays_ok_seq c f0 dr dcs dr s s5 s7 tt); [exact Hdr|exact S05|].
      eapply (stays_ok_seq c f0 dr dcs dr s5 s6 s7 tt); [exact Hd5|exact S6|]. apply stays_ok_setp. exact C6. }
    assert (Rk7 : rok s7) by exact Rk6.
    cbn [orb] in H. unfold copy_file_timestamp in H. cbv zeta in H.
    rewrite bind_run, sys_run in H. cbn [fst snd] in H.
    destruct (sys_utimens c (s_fs s7) (render dcs) _) as [f8 r8] eqn:E8. cbn [fst snd] in H.
    pose proof (utimens_root (s_fs s7) _ f8 r8 C6 E8) as M8.
    rewrite expect_ok_run in H. injection H as <- <-.
    split; [|exact Rk7].
    split; [|intros _; reflexivity].
    eapply (stays_ok_seq c f0 dr dcs dr s s7 _ tt); [exact Hdr|exact S07|].
    apply stays_stays_ok. apply (stays_meta c f0 dr dcs dr s7 f8 M8).
  Qed.
  End Reads.

  Lemma copy_rec_root_spec k o sl src s s' r :
    Ctx (s_fs s) -> lok s -> s_parents s = [] ->
    (forall ino fi, snd (sys_lstat c (s_fs s) src) = RStat ino fi -> kind_is_dir fi = true) ->
    copy_rec (S k) c o sl src [] (render dcs) false [] [] s = (s', r) ->
    stays_ok dr s s' r /\ (ok_res r -> s_parents s' = []).
  Proof.
    intros C L Hst Hsrc H.
    pose proof (copy_rec_root_spec_r (fun _ => True) (fun _ => True) (fun _ => True)) as G.
    eapply G; eauto; try (intros; exact I). intros i _. exact I.
  Qed.

  (* ---- a path above (or at) the root: MkdirAll finds it and does nothing ---- *)
  Lemma resolve_chain f p m fl : chain f rt p m -> Forall nm p -> Forall nonul p -> (length p < rfuel)%nat ->
    exists r, resolve c f (render p) fl = inl r /\ l_ino r = Some m.
  Proof.
    intros Hc Hd Hn Hl. destruct p as [|y l] eqn:E.
    - inversion Hc; subst. destruct rfuel_S as [k Ek].
      unfold resolve, render. cbn [joinc has_nul existsb ends_with_sep rev app is_abs pcs comps filter nonempty].
      change (N.eqb 0 sep) with false. cbn [orb]. rewrite N.eqb_refl. cbn [filter nonempty orb].
      rewrite orb_true_r. rewrite Ek. cbn [walk]. unfold is_dir in H. fold rt.
      destruct (dir_of f rt) as [[par ents]|] eqn:Ed; [|discriminate].
      cbn [l_ino]. unfold is_dir. rewrite Ed. eexists. split; reflexivity.
    - rewrite <- E in *. rewrite resolve_render by (auto; rewrite E; discriminate).
      apply walk_chain_full; auto; [rewrite E; discriminate|lia].
  Qed.

  Lemma mkdir_all_above k o f p m s s' r : s_fs s = f -> chain f rt p m -> Forall nm p -> Forall nonul p -> (length p < rfuel)%nat ->
    mkdir_all k c o (render p) s = (s', r) -> s_fs s' = f /\ s_links s' = s_links s /\ s_parents s' = s_parents s /\ (forall cr, r = inl cr -> cr = []).
  Proof.
    intros <- Hc Hd Hn Hl H. destruct k as [|k].
    - cbn [mkdir_all] in H. unfold fail in H. injection H as <- <-. repeat split; auto. discriminate.
    - cbn [mkdir_all] in H. rewrite bind_run, sys_run in H. cbn [fst snd] in H. rewrite sys_stat_fs in H.
      destruct (resolve_chain (s_fs s) p m true Hc Hd Hn Hl) as (r0 & E & Hi).
      unfold sys_stat, resolve_ino in H. rewrite E, Hi in H.
      pose proof (chain_end_dir _ _ _ _ Hc) as Hdm. unfold is_dir, dir_of in Hdm.
      destruct (get (s_fs s) m) as [[[pp es|?|?|? ?] mm]|] eqn:Eg; try discriminate.
      cbn [snd kind_is_dir i_kind ret] in H. injection H as <- <-. repeat split; auto. intros cr Hcr. inversion Hcr; auto.
  Qed.

  (* ---- prepareTargetDir ---- *)
  (* what copier.copy is then called on: the root itself (only for a source that is a directory),
     or a name in a directory reached through real directories *)
  Inductive tdesc (f : fs) (sf dest1 : bytes) : Prop :=
  | td_root : dest1 = render dcs ->
      (forall ino fi, snd (sys_lstat c f sf) = RStat ino fi -> kind_is_dir fi = true) -> tdesc f sf dest1
  | td_below : forall cs1 x d1, dest1 = tpath cs1 x -> Forall nm cs1 -> Forall nonul cs1 -> nm x -> nonul x ->
      chain f dr cs1 d1 -> tdesc f sf dest1.

  Lemma link_free_prefix_app f : forall a d bb, link_free f d (a ++ bb) = true -> link_free f d a = true.
  Proof.
    induction a as [|y a IH]; intros d bb H; [reflexivity|].
    simpl app in H. cbn [link_free] in *. destruct (dir_of f d) as [[p es]|]; auto.
    destruct (blookup y es) as [i|]; auto. destruct (get f i) as [[[? ?|?|?|? ?] ?]|]; eauto.
  Qed.

  Lemma ptd_tail k o sf L1 (tflag : bool) s s' r :
    Ctx (s_fs s) -> Forall nm L1 -> Forall nonul L1 ->
    link_free (s_fs s) dr (removelast L1) = true -> (tflag = true -> link_free (s_fs s) dr L1 = true) ->
    (L1 = [] -> forall ino fi, snd (sys_lstat c (s_fs s) sf) = RStat ino fi -> kind_is_dir fi = true) ->
    (created <~ mkdir_all k c o (if tflag then render (dcs ++ L1) else dir (render (dcs ++ L1))) ;;
     ret (render (dcs ++ L1), created)) s = (s', r) ->
    stays dr s s' /\ s_links s' = s_links s /\
    (forall d1 created, r = inl (d1, created) -> tdesc (s_fs s') sf d1 /\ Forall (created_ok (s_fs s')) created).
  Proof.
    intros C Hn Hnul Hlf Hlft Hroot H. rewrite bind_run in H.
    pose proof (cx_dcs _ _ _ _ _ C) as Hd. pose proof (cx_dnul _ _ _ _ _ C) as Hdn.
    pose proof (cx_len _ _ _ _ _ C) as Hl. pose proof (cx_root _ _ _ _ _ C) as Hrc. fold rt in Hrc.
    destruct L1 as [|x0 L0 _] using rev_ind.
    - (* the root: nothing is created *)
      rewrite app_nil_r in H.
      assert (Habove : exists p m, (if tflag then render dcs else dir (render dcs)) = render p /\
                chain (s_fs s) rt p m /\ Forall nm p /\ Forall nonul p /\ (length p < rfuel)%nat).
      { destruct tflag; [exists dcs, dr; auto|].
        destruct dcs as [|y0 l0 _] using rev_ind.
        - exists [], dr. rewrite dir_render_nil. auto.
        - rewrite dir_render by auto. destruct (chain_split (s_fs s) l0 rt [y0] dr Hrc) as (m & P & _).
          apply Forall_app in Hd, Hdn. exists l0, m. repeat split; try tauto. rewrite app_length in Hl. simpl in Hl. lia. }
      destruct Habove as (p & m & Ep & Hc & Hp1 & Hp2 & Hp3). rewrite Ep in H.
      destruct (mkdir_all k c o (render p) s) as [s1 [cr|e]] eqn:E1.
      + destruct (mkdir_all_above k o (s_fs s) p m s s1 _ eq_refl Hc Hp1 Hp2 Hp3 E1) as (F1 & L1 & Q1 & P1).
        cbn [ret] in H. injection H as <- <-. rewrite (P1 cr eq_refl).
        split; [apply stays_same; auto|]. split; auto. intros d1 created Hr. inversion Hr; subst.
        split; [|constructor]. apply td_root; auto. rewrite F1. apply Hroot. reflexivity.
      + destruct (mkdir_all_above k o (s_fs s) p m s s1 _ eq_refl Hc Hp1 Hp2 Hp3 E1) as (F1 & L1 & Q1 & _).
        injection H as <- <-. split; [apply stays_same; auto|]. split; auto. discriminate.
    - (* below the root *)
      clear Hroot. rewrite removelast_last in Hlf.
      apply Forall_app in Hn. destruct Hn as [Hn0 Hx0]. inversion Hx0 as [|? ? Hx1 _]; subst.
      apply Forall_app in Hnul. destruct Hnul as [Hnul0 Hxn0]. inversion Hxn0 as [|? ? Hxn1 _]; subst.
      assert (Hdir : dir (render (dcs ++ L0 ++ [x0])) = render (dcs ++ L0)).
      { rewrite app_assoc. apply dir_render. rewrite <- app_assoc. repeat (apply Forall_app; split; auto). }
      destruct tflag.
      + specialize (Hlft eq_refl).
        destruct (mkdir_all k c o (render (dcs ++ L0 ++ [x0])) s) as [s1 [cr|e]] eqn:E1.
        * assert (Hn1 : Forall nm (L0 ++ [x0])) by (apply Forall_app; split; auto).
          assert (Hnul1 : Forall nonul (L0 ++ [x0])) by (apply Forall_app; split; auto).
          destruct (mkdir_all_spec c f0 dr dcs k o (L0 ++ [x0]) s s1 _ C Hn1 Hnul1 Hlft E1) as (S1 & EL1 & P1).
          cbn [ret] in H. injection H as <- <-. split; auto. split; auto.
          intros d1 created Hr. inversion Hr; subst. destruct (P1 created eq_refl) as ((d & Hcd) & Hcr).
          split; auto. destruct (chain_split (s_fs s1) L0 dr [x0] d Hcd) as (m & P & _).
          eapply (td_below _ _ _ L0 x0 m); eauto.
        * assert (Hn1 : Forall nm (L0 ++ [x0])) by (apply Forall_app; split; auto).
          assert (Hnul1 : Forall nonul (L0 ++ [x0])) by (apply Forall_app; split; auto).
          destruct (mkdir_all_spec c f0 dr dcs k o (L0 ++ [x0]) s s1 _ C Hn1 Hnul1 Hlft E1) as (S1 & EL1 & _).
          injection H as <- <-. split; auto. split; auto. discriminate.
      + rewrite Hdir in H.
        destruct (mkdir_all k c o (render (dcs ++ L0)) s) as [s1 [cr|e]] eqn:E1.
        * destruct (mkdir_all_spec c f0 dr dcs k o L0 s s1 _ C Hn0 Hnul0 Hlf E1) as (S1 & EL1 & P1).
          cbn [ret] in H. injection H as <- <-. split; auto. split; auto.
          intros d1 created Hr. inversion Hr; subst. destruct (P1 created eq_refl) as ((d & Hcd) & Hcr).
          split; auto. eapply (td_below _ _ _ L0 x0 d); eauto.
        * destruct (mkdir_all_spec c f0 dr dcs k o L0 s s1 _ C Hn0 Hnul0 Hlf E1) as (S1 & EL1 & _).
          injection H as <- <-. split; auto. split; auto. discriminate.
  Qed.

  Lemma link_free_removelast_gen f d cs : link_free f d cs = true -> link_free f d (removelast cs) = true.
  Proof.
    intros H. destruct cs as [|y cs _] using rev_ind; [reflexivity|].
    rewrite removelast_last. eapply link_free_prefix_app; eauto.
  Qed.

  Lemma ptd_spec k o sf src cs s s' r :
    Ctx (s_fs s) -> Forall nm cs -> Forall nonul cs -> link_free (s_fs s) dr cs = true -> has_nul src = false ->
    (join2 [sep] src = [sep] -> forall ino fi, snd (sys_lstat c (s_fs s) sf) = RStat ino fi -> kind_is_dir fi = true) ->
    prepare_target_dir k c o sf src (render (dcs ++ cs)) s = (s', r) ->
    stays dr s s' /\ s_links s' = s_links s /\
    (forall d1 created, r = inl (d1, created) -> tdesc (s_fs s') sf d1 /\ Forall (created_ok (s_fs s')) created).
  Proof.
    intros C Hn Hnul Hlf Hsn Hsrc H. unfold prepare_target_dir in H.
    rewrite bind_run, sys_run in H. cbn [fst snd] in H. rewrite sys_lstat_fs in H.
    assert (Hdr : is_dir (s_fs s) dr = true) by (eapply chain_end_dir; apply (cx_root _ _ _ _ _ C)).
    assert (Hfail : forall s1 (r1 : (bytes * list bytes) + N), s_fs s1 = s_fs s -> s_links s1 = s_links s -> s_parents s1 = s_parents s -> (forall a, r1 <> inl a) ->
              stays dr s s1 /\ s_links s1 = s_links s /\
              (forall d1 created, r1 = inl (d1, created) -> tdesc (s_fs s1) sf d1 /\ Forall (created_ok (s_fs s1)) created)).
    { intros s1 r1 E1 E2 E3 Hr. split; [apply stays_same; auto|]. split; auto. intros d1 cr Hx. exfalso. eapply Hr; eauto. }
    destruct (snd (sys_lstat c (s_fs s) sf)) as [|e|sino sfi| | |] eqn:Esf;
      try (unfold fail in H; injection H as <- <-; apply Hfail; auto; discriminate).
    rewrite bind_run, log_read_run in H. cbn [s_fs s_links s_parents s_reads] in H.
    rewrite bind_run in H. unfold stat_opt in H. rewrite bind_run, sys_run in H. cbn [fst snd s_fs s_links s_parents s_reads] in H.
    rewrite sys_stat_fs in H.
    set (s2 := {| s_fs := s_fs s; s_links := s_links s; s_parents := s_parents s; s_reads := sino :: s_reads s |}) in H.
    assert (C2 : Ctx (s_fs s2)) by exact C.
    (* what Stat(dest) said *)
    assert (Hst : (exists dfi : option (N * inode),
              (match snd (sys_stat c (s_fs s) (render (dcs ++ cs))) with
               | RStat i n => ret (Some (i, n)) | RErr ENOENT => ret None | _ => fail E_SYS end) s2 = (s2, inl dfi) /\
              (cs = [] -> exists n, dfi = Some (dr, n) /\ kind_is_dir n = true))
            \/ exists e, (match snd (sys_stat c (s_fs s) (render (dcs ++ cs))) with
               | RStat i n => ret (Some (i, n)) | RErr ENOENT => ret None | _ => fail E_SYS end) s2 = (s2, inr e)).
    { destruct (snd (sys_stat c (s_fs s) (render (dcs ++ cs)))) as [|e|i n| | |] eqn:Est; try (right; eexists; reflexivity).
      - destruct e; try (right; eexists; reflexivity). left. exists None. split; [reflexivity|].
        intros ->. rewrite app_nil_r in Est. destruct (stat_root c f0 dr dcs (s_fs s) C) as (n' & E' & _). congruence.
      - left. exists (Some (i, n)). split; [reflexivity|]. intros ->. rewrite app_nil_r in Est.
        destruct (stat_root c f0 dr dcs (s_fs s) C) as (n' & E' & Hk). rewrite E' in Est. inversion Est; subst. eauto. }
    destruct Hst as [(dfi & Est & Hdfi)|(e & Est)]; rewrite Est in H;
      [|injection H as <- <-; apply Hfail; auto; discriminate].
    cbv zeta in H.
    set (sdir := kind_is_dir sfi) in *.
    set (dexists := match dfi with Some _ => true | None => false end) in *.
    set (ddir := match dfi with Some (_, n) => kind_is_dir n | None => false end) in *.
    set (cond := (negb (o_dir_contents o) && sdir && dexists) || (negb sdir && dexists && ddir)) in *.
    set (tflag := o_dir_contents o && sdir && negb dexists) in *.
    destruct (join_sep_names src Hsn) as (l & El & Hl1 & Hl2). rewrite El in H.
    assert (Hall : Forall nm (dcs ++ cs)) by (apply Forall_app; split; [apply (cx_dcs _ _ _ _ _ C)|auto]).
    (* the components of dest1 below the root *)
    assert (HL : exists L1, (if cond then join2 (render (dcs ++ cs)) (base (render l)) else render (dcs ++ cs)) = render (dcs ++ L1)
              /\ Forall nm L1 /\ Forall nonul L1 /\ (L1 = cs \/ (cond = true /\ exists xb, L1 = cs ++ [xb]))
              /\ (L1 = [] -> sdir = true)).
    { assert (Hcs0 : cs = [] -> cond = false -> sdir = true).
      { intros E0 Hc0. destruct (Hdfi E0) as (n & -> & Hk). unfold cond, dexists, ddir in Hc0. rewrite Hk in Hc0.
        destruct sdir; auto. simpl in Hc0. rewrite !andb_true_r in Hc0. destruct (negb (o_dir_contents o)); discriminate. }
      destruct cond eqn:Ec.
      - destruct l as [|xb l' _] using rev_ind.
        + rewrite base_render_nil, join2_render_sep by auto. exists cs. repeat split; auto.
          intros E0. (* src is lexically the root: sf is a directory *)
          apply (Hsrc El sino sfi). reflexivity.
        + pose proof Hl1 as Hl1'. apply Forall_app in Hl1, Hl2. destruct Hl1 as [_ Hx1], Hl2 as [_ Hx2]. inversion Hx1; inversion Hx2; subst.
          rewrite base_render by exact Hl1'.
          rewrite join2_render_name by auto. exists (cs ++ [xb]). rewrite <- app_assoc.
          repeat split; auto; try (apply Forall_app; split; auto).
          * right. split; auto. eauto.
          * intros E0. destruct cs; discriminate.
      - exists cs. repeat split; auto. }
    destruct HL as (L1 & EL1 & HL1 & HL2 & HLc & HLr). rewrite EL1 in H.
    assert (Hlf1 : link_free (s_fs s2) dr (removelast L1) = true).
    { destruct HLc as [->|(_ & xb & ->)]; [apply link_free_removelast_gen; auto|rewrite removelast_last; auto]. }
    assert (Hlf2 : tflag = true -> link_free (s_fs s2) dr L1 = true).
    { intros Ht. destruct HLc as [->|(Hc1 & xb & ->)]; auto. exfalso.
      unfold tflag, cond in *. destruct dexists.
      - rewrite !andb_false_r in Ht. discriminate.
      - destruct (negb (o_dir_contents o)), sdir, ddir; simpl in Hc1; discriminate. }
    assert (Hroot : L1 = [] -> forall ino fi, snd (sys_lstat c (s_fs s2) sf) = RStat ino fi -> kind_is_dir fi = true).
    { intros E0 ino fi Hx. cbn [s_fs s2] in Hx. rewrite Esf in Hx. inversion Hx; subst. apply HLr; auto. }
    destruct (ptd_tail k o sf L1 tflag s2 s' r C2 HL1 HL2 Hlf1 Hlf2 Hroot H) as (S & EL & P).
    split; [eapply stays_trans; [exact Hdr|apply (stays_same c f0 dr dcs dr s s2); auto|exact S]|]. split; auto.
  Qed.
End Top2.
