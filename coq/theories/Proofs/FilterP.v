(* filterFS.Walk: (1) the parentDirs stack with prefix popping is the stack of ancestors
   (structural walk [sw_node]); (2) both SkipDir shortcuts are unobservable. *)
From Coq Require Import List NArith Lia Bool.
From FS Require Import Sx Model.Path Model.Stat Model.Tree Model.Pattern Model.FilterWalk
  Proofs.Lex Proofs.PathP Proofs.PatternP.
Import ListNotations.
Open Scope bool_scope.

(* ---------- induction on trees ---------- *)
Section NodeInd.
Variable P : node -> Prop.
Hypothesis H : forall name st ct kids, Forall P kids -> P (Node name st ct kids).
Fixpoint node_ind2 (n : node) : P n :=
  match n with
  | Node name st ct kids =>
    H name st ct kids
      ((fix go (l : list node) : Forall P l :=
          match l with
          | [] => Forall_nil P
          | k :: r => Forall_cons k (node_ind2 k) (go r)
          end) kids)
  end.
End NodeInd.

Lemma wf_node_inv name st ct kids : wf_node (Node name st ct kids) = true ->
  name <> [] /\ nosep name /\ forallb wf_node kids = true.
Proof.
  cbn [wf_node]. intros H. apply andb_true_iff in H. destruct H as [H H3]. apply andb_true_iff in H. destruct H as [H1 H2].
  repeat split; auto.
  - destruct name; [discriminate|discriminate].
  - apply no_sep_nosep; auto.
Qed.

Lemma child_path_nonempty dir name : name <> [] -> child_path dir name <> [].
Proof. intros H. unfold child_path. destruct dir; auto. destruct name; [congruence|]. intro E. apply app_eq_nil in E. destruct E; discriminate. Qed.

Lemma child_path_cons dir name : dir <> [] -> child_path dir name = dir ++ sep :: name.
Proof. destruct dir; [congruence|reflexivity]. Qed.

(* ---------- unfolding of the generic walker ---------- *)
Section WD.
Variable S : Type.
Variable cb : S -> bytes -> stat -> bool -> S * list stat * bool.

Lemma wd_node_eq dir name st ct kids s :
  wd_node S cb dir (Node name st ct kids) s =
  let p := child_path dir name in
  let isd := st_is_dir st in
  let '(s1, em, skip) := cb s p (set_path st p) isd in
  if skip then (s1, em, negb isd)
  else if isd then let '(s2, em2) := wd_forest S cb p kids s1 in (s2, em ++ em2, false)
  else (s1, em, false).
Proof.
  cbn [wd_node]. cbv zeta.
  destruct (cb s (child_path dir name) (set_path st (child_path dir name)) (st_is_dir st)) as [[s1 em] skip].
  destruct skip; auto. destruct (st_is_dir st); auto.
  match goal with |- (let '(_, _) := ?f kids s1 in _) = _ =>
    assert (E : forall l s, f l s = wd_forest S cb (child_path dir name) l s) end.
  { induction l as [|k r IH]; intros s0; [reflexivity|]. cbn [wd_forest].
    destruct (wd_node S cb (child_path dir name) k s0) as [[s' e] rest]. destruct rest; auto. rewrite IH. reflexivity. }
  rewrite E. reflexivity.
Qed.
End WD.

(* ---------- the structural walk: the stack is the list of ancestors ---------- *)
Section SW.
Variable pmatch : bytes -> bytes -> bool.
Variable mapfn : bytes -> stat -> mres * stat.
Variable c : cfg.

Notation core := (cb_core pmatch mapfn c).

Fixpoint sw_node (anc : list vdir) (dir : bytes) (n : node) {struct n} : list vdir * list stat * bool :=
  match n with
  | Node name st _ kids =>
    let p := child_path dir name in
    let isd := st_is_dir st in
    let r := core anc p (set_path st p) isd in
    if r_skip r then (r_stack r, r_em r, negb isd)
    else if isd then
      let '(a2, em2) :=
        (fix kids_go (l : list node) (a : list vdir) : list vdir * list stat :=
           match l with
           | [] => (a, [])
           | k :: rest =>
             let '(a', e, cut) := sw_node a p k in
             if cut then (a', e) else let '(a'', e') := kids_go rest a' in (a'', e ++ e')
           end) kids (pushed r) in
      (match r_push r with Some _ => tl a2 | None => a2 end, r_em r ++ em2, false)
    else (r_stack r, r_em r, false)
  end.

Fixpoint sw_forest (anc : list vdir) (dir : bytes) (l : list node) : list vdir * list stat :=
  match l with
  | [] => (anc, [])
  | k :: rest =>
    let '(a', e, cut) := sw_node anc dir k in
    if cut then (a', e) else let '(a'', e') := sw_forest a' dir rest in (a'', e ++ e')
  end.

Lemma sw_node_eq anc dir name st ct kids :
  sw_node anc dir (Node name st ct kids) =
  let p := child_path dir name in
  let isd := st_is_dir st in
  let r := core anc p (set_path st p) isd in
  if r_skip r then (r_stack r, r_em r, negb isd)
  else if isd then
    let '(a2, em2) := sw_forest (pushed r) p kids in
    (match r_push r with Some _ => tl a2 | None => a2 end, r_em r ++ em2, false)
  else (r_stack r, r_em r, false).
Proof.
  cbn [sw_node]. cbv zeta.
  destruct (r_skip _); auto. destruct (st_is_dir st); auto.
  match goal with |- (let '(_, _) := ?f kids _ in _) = _ =>
    assert (E : forall l a0, f l a0 = sw_forest a0 (child_path dir name) l) end.
  { induction l as [|k r IH]; intros a0; [reflexivity|]. cbn [sw_forest].
    destruct (sw_node a0 (child_path dir name) k) as [[a' e] cut]. destruct cut; auto. rewrite IH. reflexivity. }
  rewrite E. reflexivity.
Qed.

(* ---------- cb_core by cases ---------- *)
Definition new_dir (pd1 : list vdir) (path : bytes) (st : stat) : vdir :=
  let ri := eval_inc pmatch c path pd1 in
  let re := eval_exc pmatch c path pd1 in
  {| vd_stat := st; vd_pws := path ++ [sep]; vd_inc := snd ri; vd_exc := snd re;
     vd_called := negb (negb (fst ri) || fst re); vd_skip := false |}.
Definition push_of (pd1 : list vdir) (path : bytes) (st : stat) (isd : bool) : option vdir :=
  if isd && use_match c then Some (new_dir pd1 path st) else None.
Definition is_skip (pd1 : list vdir) (path : bytes) : bool :=
  negb (fst (eval_inc pmatch c path pd1)) || fst (eval_exc pmatch c path pd1).
Definition pruned (pd1 : list vdir) (path : bytes) (isd : bool) : bool :=
  prune_inc c path isd (fst (eval_inc pmatch c path pd1))
  || prune_exc c path isd (fst (eval_exc pmatch c path pd1)).

Lemma core_pruned pd1 p st isd : pruned pd1 p isd = true ->
  core pd1 p st isd = {| r_stack := pd1; r_push := None; r_em := []; r_skip := true |}.
Proof.
  unfold pruned, cb_core. intros H. destruct (prune_inc c p isd _); [reflexivity|].
  simpl in H. rewrite H. reflexivity.
Qed.

Lemma core_skip pd1 p st isd : pruned pd1 p isd = false -> is_skip pd1 p = true ->
  core pd1 p st isd = {| r_stack := pd1; r_push := push_of pd1 p st isd; r_em := []; r_skip := false |}.
Proof.
  unfold pruned, is_skip, cb_core, push_of, new_dir. intros H Hs. apply orb_false_iff in H. destruct H as [H1 H2].
  cbv zeta. rewrite H1, H2, !Hs. reflexivity.
Qed.

Lemma core_map pd1 p st isd : pruned pd1 p isd = false -> is_skip pd1 p = false ->
  core pd1 p st isd =
    match mapfn p st with
    | (MSkipDir, _) => {| r_stack := pd1; r_push := push_of pd1 p st isd; r_em := []; r_skip := true |}
    | (MExclude, _) => {| r_stack := pd1; r_push := push_of pd1 p st isd; r_em := []; r_skip := false |}
    | (MKeep, st') =>
      let '(pd2, em, ab) := lazy_parents mapfn pd1 in
      if ab then {| r_stack := pd2; r_push := push_of pd1 p st isd; r_em := em; r_skip := true |}
      else {| r_stack := pd2; r_push := push_of pd1 p st isd; r_em := em ++ [st']; r_skip := false |}
    end.
Proof.
  unfold pruned, is_skip, cb_core, push_of, new_dir. intros H Hs. apply orb_false_iff in H. destruct H as [H1 H2].
  cbv zeta. rewrite H1, H2, !Hs. reflexivity.
Qed.

Lemma pruned_isdir pd1 p isd : pruned pd1 p isd = true -> isd = true.
Proof.
  unfold pruned, prune_inc, prune_exc. destruct isd; auto. intros H.
  destruct (c_inc c), (c_exc c); rewrite ?andb_false_r in H; simpl in H; rewrite ?andb_false_r in H; discriminate.
Qed.

(* shapes *)
Definition shape (l : list vdir) : list bytes := map vd_pws l.

Lemma lazy_go_shape l : shape (fst (fst (lazy_go mapfn l))) = shape l.
Proof.
  induction l as [|v r IH]; [reflexivity|]. cbn [lazy_go].
  destruct (vd_skip v); [reflexivity|].
  destruct (vd_called v).
  - destruct (lazy_go mapfn r) as [[r' em] ab]. simpl in *. congruence.
  - destruct (mapfn (st_path (vd_stat v)) (vd_stat v)) as [[| |] s'].
    + destruct (lazy_go mapfn r) as [[r' em] ab]. simpl in *. congruence.
    + destruct (lazy_go mapfn r) as [[r' em] ab]. simpl in *. congruence.
    + reflexivity.
Qed.

Lemma lazy_parents_shape pd : shape (fst (fst (lazy_parents mapfn pd))) = shape pd.
Proof.
  unfold lazy_parents. pose proof (lazy_go_shape (rev pd)) as H.
  destruct (lazy_go mapfn (rev pd)) as [[l em] ab]. simpl in *.
  unfold shape in *. rewrite map_rev, H, map_rev, rev_involutive. reflexivity.
Qed.

Lemma core_shape pd1 p st isd : shape (r_stack (core pd1 p st isd)) = shape pd1.
Proof.
  destruct (pruned pd1 p isd) eqn:Hp; [rewrite core_pruned by auto; reflexivity|].
  destruct (is_skip pd1 p) eqn:Hs; [rewrite core_skip by auto; reflexivity|].
  rewrite core_map by auto.
  destruct (mapfn p st) as [[| |] st']; try reflexivity.
  pose proof (lazy_parents_shape pd1) as H.
  destruct (lazy_parents mapfn pd1) as [[pd2 em] ab]. simpl in H. destruct ab; exact H.
Qed.

Lemma core_push pd1 p st isd d : r_push (core pd1 p st isd) = Some d ->
  vd_pws d = p ++ [sep] /\ isd = true /\ use_match c = true.
Proof.
  assert (X : push_of pd1 p st isd = Some d -> vd_pws d = p ++ [sep] /\ isd = true /\ use_match c = true).
  { unfold push_of. destruct isd, (use_match c); simpl; try discriminate. intros [= <-]. auto. }
  destruct (pruned pd1 p isd) eqn:Hp; [rewrite core_pruned by auto; discriminate|].
  destruct (is_skip pd1 p) eqn:Hs; [rewrite core_skip by auto; exact X|].
  rewrite core_map by auto.
  destruct (mapfn p st) as [[| |] st']; try exact X.
  destruct (lazy_parents mapfn pd1) as [[pd2 em] ab]. destruct ab; exact X.
Qed.

Lemma core_push_none pd1 p st : r_skip (core pd1 p st true) = false ->
  r_push (core pd1 p st true) = None -> use_match c = false.
Proof.
  assert (X : push_of pd1 p st true = None -> use_match c = false).
  { unfold push_of. destruct (use_match c); simpl; [discriminate|auto]. }
  destruct (pruned pd1 p true) eqn:Hp; [rewrite core_pruned by auto; discriminate|].
  destruct (is_skip pd1 p) eqn:Hs; [rewrite core_skip by auto; intros _; exact X|].
  rewrite core_map by auto.
  destruct (mapfn p st) as [[| |] st']; try (intros _; exact X).
  destruct (lazy_parents mapfn pd1) as [[pd2 em] ab]. destruct ab; intros _; exact X.
Qed.

Lemma core_push_file pd1 p st : r_push (core pd1 p st false) = None.
Proof.
  destruct (r_push (core pd1 p st false)) eqn:E; auto. apply core_push in E. destruct E as (_ & E & _). discriminate.
Qed.

(* ---------- popping ---------- *)
Lemma pop_junk p J A : Forall (fun v => has_prefix (vd_pws v) p = false) J -> pop p (J ++ A) = pop p A.
Proof. induction 1 as [|v J Hv _ IH]; [reflexivity|]. simpl. rewrite Hv. exact IH. Qed.

Definition top_ok (dir : bytes) (A : list vdir) : Prop :=
  match A with [] => True | v :: _ => vd_pws v = dir ++ [sep] /\ dir <> [] end.

Lemma pop_top dir name A : top_ok dir A -> pop (child_path dir name) A = A.
Proof.
  destruct A as [|v A]; [reflexivity|]. intros [H1 H2]. simpl. rewrite H1, child_path_cons by auto.
  replace (dir ++ sep :: name) with ((dir ++ [sep]) ++ name) by (rewrite <- app_assoc; reflexivity).
  rewrite has_prefix_app_r. reflexivity.
Qed.

Definition junk (dir : bytes) (J : list vdir) : Prop :=
  Forall (fun v => exists nm, has_prefix (child_path dir nm ++ [sep]) (vd_pws v) = true) J.

Lemma junk_not_prefix dir nm pws name : nosep name ->
  has_prefix (child_path dir nm ++ [sep]) pws = true -> has_prefix pws (child_path dir name) = false.
Proof.
  intros Hn H. destruct (has_prefix pws (child_path dir name)) eqn:E; auto. exfalso.
  pose proof (has_prefix_trans _ _ _ H E) as X.
  assert (Y : has_prefix (nm ++ [sep]) name = true).
  { unfold child_path in X. destruct dir as [|a dir]; [exact X|].
    replace ((a :: dir) ++ sep :: nm) with ((a :: dir) ++ [sep] ++ nm) in X by reflexivity.
    replace ((a :: dir) ++ sep :: name) with (((a :: dir) ++ [sep]) ++ name) in X by (rewrite <- app_assoc; reflexivity).
    rewrite app_assoc, <- app_assoc in X. rewrite has_prefix_app_same in X. exact X. }
  apply has_prefix_iff in Y. destruct Y as [r ->]. apply Hn. apply in_or_app. left. apply in_or_app. right. left. reflexivity.
Qed.

Lemma junk_pop dir J A name : junk dir J -> top_ok dir A -> nosep name ->
  pop (child_path dir name) (J ++ A) = A.
Proof.
  intros HJ HA Hn. rewrite pop_junk.
  - apply pop_top; auto.
  - eapply Forall_impl; [|exact HJ]. intros v [nm Hv]. eapply junk_not_prefix; eauto.
Qed.

Lemma shape_nil A : shape A = [] -> A = [].
Proof. destruct A; [auto|discriminate]. Qed.

(* ---------- faithful walk = structural walk ---------- *)
Notation cbk := (cb pmatch mapfn c).

Definition sim (dir : bytes) (A : list vdir) (rf rs : list vdir * list stat) : Prop :=
  snd rf = snd rs /\
  (exists J, fst rf = J ++ fst rs /\ junk dir J) /\
  shape (fst rs) = shape A /\
  (use_match c = false -> fst rf = []).

Lemma cb_unfold pd path st isd :
  cbk pd path st isd =
  (pushed (core (if use_match c then pop path pd else pd) path st isd),
   r_em (core (if use_match c then pop path pd else pd) path st isd),
   r_skip (core (if use_match c then pop path pd else pd) path st isd)).
Proof. reflexivity. Qed.

Lemma sim_node : forall n, wf_node n = true -> forall dir F J A,
  F = J ++ A -> junk dir J -> top_ok dir A -> (use_match c = false -> F = []) ->
  let rf := wd_node _ cbk dir n F in
  let rs := sw_node A dir n in
  sim dir A (fst rf) (fst rs) /\ snd rf = snd rs.
Proof.
  induction n as [name st ct kids IHk] using node_ind2.
  intros Hwf dir F J A HF HJ HA Hnm.
  apply wf_node_inv in Hwf. destruct Hwf as (Hne & Hns & Hkids).
  cbv zeta. rewrite wd_node_eq, sw_node_eq. cbv zeta.
  set (p := child_path dir name). set (st' := set_path st p). set (isd := st_is_dir st).
  rewrite cb_unfold.
  assert (Hpd : (if use_match c then pop p F else F) = A).
  { destruct (use_match c) eqn:Eu.
    - subst F p. apply junk_pop; auto.
    - pose proof (Hnm eq_refl) as X. rewrite X. rewrite HF in X. apply app_eq_nil in X. destruct X; subst. reflexivity. }
  rewrite Hpd. clear Hpd.
  set (r := core A p st' isd).
  assert (Hsh : shape (r_stack r) = shape A) by apply core_shape.
  assert (HAnil : use_match c = false -> A = []).
  { intros Eu. pose proof (Hnm Eu) as X. rewrite HF in X. apply app_eq_nil in X. tauto. }
  assert (Hpush_nm : use_match c = false -> pushed r = []) .
  { intros Eu. unfold pushed. destruct (r_push r) eqn:Ep.
    - apply core_push in Ep. destruct Ep as (_ & _ & Ep). congruence.
    - apply shape_nil. rewrite Hsh, (HAnil Eu). reflexivity. }
  (* the junk a finished directory leaves behind *)
  assert (Hskipcase : sim dir A (pushed r, r_em r) (r_stack r, r_em r)).
  { unfold sim. cbn [fst snd]. repeat split; auto.
    unfold pushed. destruct (r_push r) as [d|] eqn:Ep.
    - exists [d]. split; [reflexivity|]. constructor; [|constructor]. exists name.
      apply core_push in Ep. destruct Ep as (Ep & _). rewrite Ep. apply has_prefix_refl.
    - exists []. split; [reflexivity|constructor]. }
  destruct (r_skip r) eqn:Esk.
  { cbn [fst snd]. split; auto. }
  destruct isd eqn:Eisd.
  2:{ cbn [fst snd]. split; auto. }
  (* directory whose contents are walked *)
  assert (Hforest : forall l, Forall (fun n => wf_node n = true -> forall dir F J A,
             F = J ++ A -> junk dir J -> top_ok dir A -> (use_match c = false -> F = []) ->
             let rf := wd_node _ cbk dir n F in let rs := sw_node A dir n in
             sim dir A (fst rf) (fst rs) /\ snd rf = snd rs) l ->
           forallb wf_node l = true -> forall F J A, F = J ++ A -> junk p J -> top_ok p A ->
           (use_match c = false -> F = []) ->
           sim p A (wd_forest _ cbk p l F) (sw_forest A p l)).
  { clear. induction l as [|k rest IHl]; intros HF Hwf F J A -> HJ HA Hnm.
    - cbn [wd_forest sw_forest]. unfold sim. cbn [fst snd]. repeat split; auto. exists J. auto.
    - cbn [wd_forest sw_forest]. inversion HF as [|? ? Hk Hrest]; subst.
      cbn [forallb] in Hwf. apply andb_true_iff in Hwf. destruct Hwf as [Hwk Hwr].
      specialize (Hk Hwk p (J ++ A) J A eq_refl HJ HA Hnm). cbv zeta in Hk.
      destruct (wd_node _ cbk p k (J ++ A)) as [[F1 e1] c1].
      destruct (sw_node A p k) as [[A1 e1'] c1']. cbn [fst snd] in Hk.
      destruct Hk as [(He & (J1 & HF1 & HJ1) & Hsh1 & Hnm1) Hc]. cbn [fst snd] in *. subst e1' c1'.
      destruct c1.
      + unfold sim. cbn [fst snd]. repeat split; auto. exists J1. auto.
      + assert (HA1 : top_ok p A1).
        { unfold top_ok in *. destruct A as [|v A], A1 as [|v1 A1]; try discriminate; auto.
          inversion Hsh1. destruct HA. split; congruence. }
        specialize (IHl Hrest Hwr F1 J1 A1 HF1 HJ1 HA1 Hnm1).
        destruct (wd_forest _ cbk p rest F1) as [F2 e2]. destruct (sw_forest A1 p rest) as [A2 e2'].
        unfold sim in *. cbn [fst snd] in *. destruct IHl as (-> & HJ2 & Hsh2 & Hnm2).
        repeat split; auto. congruence. }
  specialize (Hforest kids IHk Hkids (pushed r) [] (pushed r) eq_refl (Forall_nil _)).
  assert (Htop : top_ok p (pushed r)).
  { unfold pushed. destruct (r_push r) as [d|] eqn:Ep.
    - apply core_push in Ep. destruct Ep as (Ep & _). split; [exact Ep|]. apply child_path_nonempty; auto.
    - subst r. apply core_push_none in Ep; auto. rewrite (shape_nil _ (eq_trans Hsh (f_equal shape (HAnil Ep)))). exact I. }
  specialize (Hforest Htop Hpush_nm).
  destruct (wd_forest _ cbk p kids (pushed r)) as [F2 e2].
  destruct (sw_forest (pushed r) p kids) as [A2 e2'].
  unfold sim in Hforest. cbn [fst snd] in *. destruct Hforest as (-> & (J2 & HF2 & HJ2) & Hsh2 & Hnm2).
  split; auto. unfold sim. cbn [fst snd].
  assert (Hp_ne : p <> []) by (apply child_path_nonempty; auto).
  assert (HJ2' : junk dir J2).
  { eapply Forall_impl; [|exact HJ2]. intros v [nm Hv]. exists name. eapply has_prefix_trans; [|exact Hv].
    fold p. rewrite (child_path_cons p nm Hp_ne).
    replace ((p ++ sep :: nm) ++ [sep]) with ((p ++ [sep]) ++ nm ++ [sep]) by (rewrite <- !app_assoc; reflexivity).
    apply has_prefix_app_r. }
  unfold pushed in *. destruct (r_push r) as [d|] eqn:Ep.
  - destruct A2 as [|d' A3]; [discriminate|]. cbn [tl]. inversion Hsh2 as [[Hd Hsh3]].
    repeat split; auto.
    + exists (J2 ++ [d']). split; [rewrite <- app_assoc; exact HF2|].
      apply Forall_app. split; auto. constructor; [|constructor]. exists name.
      apply core_push in Ep. destruct Ep as (Ep & _). rewrite Hd, Ep. apply has_prefix_refl.
    + unfold shape in *. congruence.
  - repeat split; auto.
    + exists J2. auto.
    + unfold shape in *. congruence.
Qed.

Lemma sim_forest dir l : forallb wf_node l = true -> forall F J A,
  F = J ++ A -> junk dir J -> top_ok dir A -> (use_match c = false -> F = []) ->
  sim dir A (wd_forest _ cbk dir l F) (sw_forest A dir l).
Proof.
  induction l as [|k rest IHl]; intros Hwf F J A -> HJ HA Hnm.
  - cbn [wd_forest sw_forest]. unfold sim. cbn [fst snd]. repeat split; auto. exists J. auto.
  - cbn [wd_forest sw_forest].
    cbn [forallb] in Hwf. apply andb_true_iff in Hwf. destruct Hwf as [Hwk Hwr].
    pose proof (sim_node k Hwk dir (J ++ A) J A eq_refl HJ HA Hnm) as Hk. cbv zeta in Hk.
    destruct (wd_node _ cbk dir k (J ++ A)) as [[F1 e1] c1].
    destruct (sw_node A dir k) as [[A1 e1'] c1']. cbn [fst snd] in Hk.
    destruct Hk as [(He & (J1 & HF1 & HJ1) & Hsh1 & Hnm1) Hc]. cbn [fst snd] in *. subst e1' c1'.
    destruct c1.
    + unfold sim. cbn [fst snd]. repeat split; auto. exists J1. auto.
    + assert (HA1 : top_ok dir A1).
      { unfold top_ok in *. destruct A as [|v A], A1 as [|v1 A1]; try discriminate; auto.
        inversion Hsh1. destruct HA. split; congruence. }
      specialize (IHl Hwr F1 J1 A1 HF1 HJ1 HA1 Hnm1).
      destruct (wd_forest _ cbk dir rest F1) as [F2 e2]. destruct (sw_forest A1 dir rest) as [A2 e2'].
      unfold sim in *. cbn [fst snd] in *. destruct IHl as (-> & HJ2 & Hsh2 & Hnm2).
      repeat split; auto. congruence.
Qed.

(* the walk, structurally *)
Definition sw_walk (view : list node) : list stat := snd (sw_forest [] [] view).

Theorem filter_walk_structural view : wf_view view = true ->
  filter_walk pmatch mapfn c view = sw_walk view.
Proof.
  intros Hwf. unfold filter_walk, sw_walk.
  pose proof (sim_forest [] view Hwf [] [] [] eq_refl (Forall_nil _) I (fun _ => eq_refl)) as H.
  unfold sim in H. tauto.
Qed.

End SW.
