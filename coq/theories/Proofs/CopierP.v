(* C13 / C15 — basic facts about the copier model (Model/Copier.v) and the overlay
   specification (Model/CopySpec.v): paths, the kernel operations, the invariant [Inv]
   tying a destination file system to an expected view, and its preservation by every
   kernel operation the copier performs. *)
From Coq Require Import List NArith Bool Lia ZifyN ZifyNat ZifyBool.
From FS Require Import Sx Model.Path Model.SymMode Model.Copier Model.CopySpec Proofs.Lex.
Import ListNotations.
Open Scope N_scope.
Open Scope bool_scope.

(* ------------------------------------------------------------------ paths *)
Lemma path_eqb_eq a b : path_eqb a b = true <-> a = b.
Proof.
  revert b; induction a as [|x a IH]; intros [|y b]; simpl; split; intro H; try discriminate; auto.
  - apply andb_true_iff in H as [H1 H2]. apply bytes_eqb_eq in H1. apply IH in H2. congruence.
  - inversion H; subst. rewrite bytes_eqb_refl. simpl. apply IH; auto.
Qed.
Lemma path_eqb_refl a : path_eqb a a = true. Proof. apply path_eqb_eq; auto. Qed.
Lemma path_eqb_neq a b : path_eqb a b = false <-> a <> b.
Proof.
  split; intro H.
  - intro E. apply path_eqb_eq in E. congruence.
  - destruct (path_eqb a b) eqn:E; auto. apply path_eqb_eq in E. congruence.
Qed.
Lemma path_dec (a b : list (list N)) : a = b \/ a <> b.
Proof. destruct (path_eqb a b) eqn:E; [left; apply path_eqb_eq|right; apply path_eqb_neq]; auto. Qed.

Lemma strip_prefix_some T p r : strip_prefix T p = Some r <-> p = T ++ r.
Proof.
  revert p; induction T as [|x T IH]; intros p; simpl.
  - split; intro H; congruence.
  - destruct p as [|y p]; [split; intro H; discriminate|].
    destruct (bytes_eqb x y) eqn:E.
    + apply bytes_eqb_eq in E. subst y. rewrite IH. split; intro H; congruence.
    + apply bytes_eqb_neq in E. split; intro H; [discriminate|]. inversion H; congruence.
Qed.
Lemma strip_prefix_app T r : strip_prefix T (T ++ r) = Some r.
Proof. apply strip_prefix_some; auto. Qed.
Lemma strip_prefix_none T p : strip_prefix T p = None <-> forall r, p <> T ++ r.
Proof.
  split.
  - intros H r E. subst. rewrite strip_prefix_app in H. discriminate.
  - intros H. destruct (strip_prefix T p) eqn:E; auto. apply strip_prefix_some in E. exfalso; eapply H; eauto.
Qed.
Lemma is_prefix_strip T p : is_prefix T p = match strip_prefix T p with Some _ => true | None => false end.
Proof.
  revert p; induction T as [|x T IH]; intros p; simpl; auto.
  destruct p as [|y p]; auto. destruct (bytes_eqb x y); simpl; auto.
Qed.
Lemma is_prefix_app T r : is_prefix T (T ++ r) = true.
Proof. rewrite is_prefix_strip, strip_prefix_app. auto. Qed.
Lemma is_prefix_true T p : is_prefix T p = true <-> exists r, p = T ++ r.
Proof.
  rewrite is_prefix_strip. destruct (strip_prefix T p) eqn:E.
  - apply strip_prefix_some in E. split; eauto.
  - split; [discriminate|]. intros (r & ->). rewrite strip_prefix_app in E. discriminate.
Qed.
Lemma path_cases T p : (exists r, p = T ++ r) \/ strip_prefix T p = None.
Proof. destruct (strip_prefix T p) eqn:E; auto. left. apply strip_prefix_some in E. eauto. Qed.

Lemma parent_snoc (P : list (list N)) a : parent (P ++ [a]) = P.
Proof. apply removelast_last. Qed.
Lemma snoc_ne_nil (P : list (list N)) a : P ++ [a] <> [].
Proof. destruct P; discriminate. Qed.
Lemma snoc_ne_self (P : list (list N)) a r : P ++ a :: r <> P.
Proof. intro E. apply (f_equal (@length _)) in E. rewrite app_length in E. simpl in E. lia. Qed.
Lemma app_snoc_assoc (T : list (list N)) a r : T ++ a :: r = (T ++ [a]) ++ r.
Proof. rewrite <- app_assoc. reflexivity. Qed.
Lemma path_snoc_cases (p : list (list N)) : p = [] \/ exists P a, p = P ++ [a].
Proof. destruct p using rev_ind; eauto. Qed.

Lemma strip_snoc_below T a b r :
  strip_prefix (T ++ [a]) (T ++ b :: r) = if bytes_eqb a b then Some r else None.
Proof.
  destruct (bytes_eqb a b) eqn:E.
  - apply bytes_eqb_eq in E. subst. rewrite (app_snoc_assoc T b r). apply strip_prefix_app.
  - apply bytes_eqb_neq in E. apply strip_prefix_none. intros r' H. rewrite <- app_assoc in H.
    apply app_inv_head in H. simpl in H. congruence.
Qed.
Lemma strip_snoc_self T a : strip_prefix (T ++ [a]) T = None.
Proof.
  apply strip_prefix_none. intros r H. rewrite <- app_assoc in H. symmetry in H. revert H. apply snoc_ne_self.
Qed.
Lemma strip_snoc_unrel T a p : strip_prefix T p = None -> strip_prefix (T ++ [a]) p = None.
Proof.
  rewrite !strip_prefix_none. intros H r E. rewrite <- app_assoc in E. eapply H; eauto.
Qed.

(* ------------------------------------------------------------------ bits *)
Ltac bitwise :=
  apply N.bits_inj; intro;
  repeat (rewrite ?N.land_spec, ?N.lor_spec, ?N.ldiff_spec);
  repeat match goal with |- context [N.testbit ?a ?n] => destruct (N.testbit a n); simpl end; auto.

Lemma land_ldiff_comm a b c : N.land (N.ldiff a b) c = N.ldiff (N.land a c) b.
Proof. bitwise. Qed.
Lemma land_lor_distr a b c : N.land (N.lor a b) c = N.lor (N.land a c) (N.land b c).
Proof. bitwise. Qed.
Lemma land_idem2 a b : N.land (N.land a b) b = N.land a b.
Proof. bitwise. Qed.
Lemma all_fmt : N.land allBits S_IFMT = 0. Proof. reflexivity. Qed.
Lemma land_all_fmt m : N.land (N.land m allBits) S_IFMT = 0.
Proof. rewrite <- N.land_assoc, all_fmt. apply N.land_0_r. Qed.
Lemma land_fmt_all m : N.land (N.land m S_IFMT) allBits = 0.
Proof. rewrite <- N.land_assoc. replace (N.land S_IFMT allBits) with 0 by reflexivity. apply N.land_0_r. Qed.

(* type and permission bits of  type | perm *)
Lemma ftype_mk t m : N.land t S_IFMT = t -> N.land m S_IFMT = 0 ->
  N.land (N.lor t m) S_IFMT = t.
Proof. intros H1 H2. rewrite land_lor_distr, H1, H2. apply N.lor_0_r. Qed.
Lemma perm_mk t m : N.land t allBits = 0 -> N.land m allBits = m ->
  N.land (N.lor t m) allBits = m.
Proof. intros H1 H2. rewrite land_lor_distr, H1, H2. apply N.lor_0_l. Qed.

Lemma ftype_set_perm m d : ftype (set_perm m d) = ftype d.
Proof. unfold ftype, set_perm; simpl. apply ftype_mk; [apply land_idem2|apply land_all_fmt]. Qed.
Lemma perm_set_perm m d : perm12 (set_perm m d) = N.land m allBits.
Proof. unfold perm12, set_perm; simpl. apply perm_mk; [apply land_fmt_all|apply land_idem2]. Qed.
Lemma ftype_set_owner u g d : ftype (set_owner u g d) = ftype d. Proof. reflexivity. Qed.
Lemma ftype_set_mtime t d : ftype (set_mtime t d) = ftype d. Proof. reflexivity. Qed.
Lemma ftype_set_xattrs x d : ftype (set_xattrs x d) = ftype d. Proof. reflexivity. Qed.

Lemma is_dir_ftype d d' : ftype d = ftype d' -> is_dir d = is_dir d'.
Proof. unfold is_dir. intros ->. auto. Qed.
Lemma is_lnk_ftype d d' : ftype d = ftype d' -> is_lnk d = is_lnk d'.
Proof. unfold is_lnk. intros ->. auto. Qed.
Lemma ftype_mode d d' : d_mode d = d_mode d' -> ftype d = ftype d'.
Proof. unfold ftype. intros ->. auto. Qed.

(* ------------------------------------------------------------------ file systems up to extensionality *)
Record fs_eqv (a b : fsys) : Prop := {
  fe_names : forall p, names a p = names b p;
  fe_inodes : forall i, inodes a i = inodes b i;
  fe_next : next a = next b
}.
Lemma fs_eqv_refl a : fs_eqv a a. Proof. split; auto. Qed.
Lemma fs_eqv_sym a b : fs_eqv a b -> fs_eqv b a. Proof. intros [A B C]; split; auto. Qed.
Lemma fs_eqv_trans a b c : fs_eqv a b -> fs_eqv b c -> fs_eqv a c.
Proof. intros [A B C] [A' B' C']; split; intros; congruence. Qed.

Lemma lstat_eqv a b p : fs_eqv a b -> lstat a p = lstat b p.
Proof. intros [A B _]. unfold lstat. rewrite A. destruct (names b p); auto. rewrite B. auto. Qed.

Lemma touch_parent_snoc P a fs :
  touch_parent (P ++ [a]) fs =
  match names fs P with Some i => upd_inode i (set_mtime NOW) fs | None => fs end.
Proof.
  unfold touch_parent. rewrite parent_snoc. destruct P; reflexivity.
Qed.

(* ------------------------------------------------------------------ expected views *)
Definition xrm (T : list (list N)) (X : xview) : xview := fun q => if is_prefix T q then None else X q.

Lemma xupd_same p v X : xupd p v X p = v.
Proof. unfold xupd. rewrite path_eqb_refl. auto. Qed.
Lemma xupd_other p q v X : q <> p -> xupd p v X q = X q.
Proof. intro H. unfold xupd. apply path_eqb_neq in H. rewrite H. auto. Qed.

Section Inv.
  Variable o : copts.

  Definition utset : bool := match o_utime o with Some _ => true | None => false end.
  (* directories made above the target are re-stamped at the very end of the call: until then
     their time is not claimed *)
  Definition eff_known (e : xdent) : bool := x_known e && negb (x_mk e && utset).

  Definition dm (d : dent) (e : xdent) : Prop :=
    d_mode d = d_mode (x_d e) /\ d_uid d = d_uid (x_d e) /\ d_gid d = d_gid (x_d e) /\
    (eff_known e = true -> d_mtime d = d_mtime (x_d e)) /\ d_rdev d = d_rdev (x_d e) /\
    d_target d = d_target (x_d e) /\ d_xattrs d = d_xattrs (x_d e) /\ d_content d = d_content (x_d e).

  (* what a directory made above the target carries whenever the options ask for it *)
  Definition mkfacts (d : dent) : Prop :=
    (forall t, o_utime o = Some t -> d_mtime d = t) /\
    (forall u g, o_chown o = Some (u, g) -> d_uid d = u /\ d_gid d = g).

  Definition xex (d : dent) (k : ikey) (m : bool) : xdent := {| x_d := d; x_known := true; x_key := k; x_mk := m |}.
  Lemma dm_xex d k m : dm d (xex d k m).
  Proof. unfold dm; simpl; repeat split; auto. Qed.

  Lemma dm_ftype d e : dm d e -> ftype d = ftype (x_d e).
  Proof. intros (H & _). apply ftype_mode; auto. Qed.
  Lemma dm_is_dir d e : dm d e -> is_dir d = is_dir (x_d e).
  Proof. intros H. apply is_dir_ftype, dm_ftype; auto. Qed.

  Definition keyok (fs : fsys) (p : list (list N)) (i : N) (k : ikey) : Prop :=
    match k with
    | KDst j => j = i
    | KNew q => q = p /\ forall p', names fs p' = Some i -> p' = p
    | KSrc _ => True   (* link groups: see Lk in CopyLinkP.v *)
    end.

  Record Inv (fs : fsys) (X : xview) : Prop := {
    i_lt : forall p i, names fs p = Some i -> i < next fs;
    i_par : forall p a i, names fs (p ++ [a]) = Some i ->
            exists j, names fs p = Some j /\ is_dir (inodes fs j) = true;
    i_diru : forall p q i, names fs p = Some i -> names fs q = Some i -> is_dir (inodes fs i) = true -> p = q;
    i_none : forall p, names fs p = None -> X p = None;
    i_some : forall p i, names fs p = Some i -> exists e, X p = Some e /\ dm (inodes fs i) e /\ keyok fs p i (x_key e)
  }.

  Lemma Inv_ext fs X X' : (forall p, X' p = X p) -> Inv fs X -> Inv fs X'.
  Proof.
    intros E [A B C D F]. split; auto.
    - intros p H. rewrite E; auto.
    - intros p i H. destruct (F p i H) as (e & H1 & H2). exists e. rewrite E; auto.
  Qed.

  Lemma Inv_fs_ext fs fs' X : fs_eqv fs fs' -> Inv fs X -> Inv fs' X.
  Proof.
    intros [En Ei Nx] [A B C D F]. split.
    - intros p i H. rewrite <- En in H. rewrite <- Nx. eauto.
    - intros p a i H. rewrite <- En in H. destruct (B _ _ _ H) as (j & H1 & H2). exists j. rewrite <- En, <- Ei. auto.
    - intros p q i H1 H2 H3. rewrite <- En in H1, H2. rewrite <- Ei in H3. eauto.
    - intros p H. rewrite <- En in H. auto.
    - intros p i H. rewrite <- En in H. destruct (F p i H) as (e & H1 & H2 & H3). exists e. rewrite <- Ei.
      split; [auto|split; [auto|]]. destruct (x_key e); simpl in *; auto. destruct H3 as [H3 H4]. split; auto.
      intros p' Hp. rewrite <- En in Hp. auto.
  Qed.

  (* nothing exists below a free path *)
  Lemma none_below fs X p r : Inv fs X -> names fs p = None -> names fs (p ++ r) = None.
  Proof.
    intros I H. induction r as [|a r IH] using rev_ind.
    - rewrite app_nil_r; auto.
    - rewrite app_assoc. destruct (names fs ((p ++ r) ++ [a])) eqn:E; auto.
      destruct (i_par _ _ I _ _ _ E) as (j & H1 & _). congruence.
  Qed.
  (* nothing exists below a non-directory *)
  Lemma none_below_nondir fs X p i a r : Inv fs X -> names fs p = Some i -> is_dir (inodes fs i) = false ->
    names fs (p ++ a :: r) = None.
  Proof.
    intros I H Hd. rewrite app_snoc_assoc. eapply none_below; eauto.
    destruct (names fs (p ++ [a])) eqn:E; auto.
    destruct (i_par _ _ I _ _ _ E) as (j & H1 & H2). congruence.
  Qed.

  Lemma inv_x_none fs X p : Inv fs X -> X p = None -> names fs p = None.
  Proof.
    intros I H. destruct (names fs p) eqn:E; auto.
    destruct (i_some _ _ I _ _ E) as (e & H1 & _). congruence.
  Qed.
  Lemma inv_x_some fs X p e : Inv fs X -> X p = Some e ->
    exists i, names fs p = Some i /\ dm (inodes fs i) e /\ keyok fs p i (x_key e).
  Proof.
    intros I H. destruct (names fs p) eqn:E.
    - destruct (i_some _ _ I _ _ E) as (e' & H1 & H2). exists n. split; auto. congruence.
    - rewrite (i_none _ _ I _ E) in H. discriminate.
  Qed.
  Lemma inv_lstat fs X p : Inv fs X ->
    match lstat fs p, X p with
    | Some d, Some e => dm d e
    | None, None => True
    | _, _ => False
    end.
  Proof.
    intros I. unfold lstat. destruct (names fs p) eqn:E.
    - destruct (i_some _ _ I _ _ E) as (e & H1 & H2 & _). rewrite H1. auto.
    - rewrite (i_none _ _ I _ E). auto.
  Qed.
  Lemma inv_x_isdir fs X p : Inv fs X -> x_isdir (X p) = true ->
    exists j, names fs p = Some j /\ is_dir (inodes fs j) = true.
  Proof.
    intros I H. unfold x_isdir in H. destruct (X p) eqn:E; [|discriminate].
    destruct (inv_x_some _ _ _ _ I E) as (i & H1 & H2 & _). exists i. split; auto.
    rewrite (dm_is_dir _ _ H2); auto.
  Qed.
  Lemma x_none_below fs X p r : Inv fs X -> X p = None -> X (p ++ r) = None.
  Proof. intros I H. apply (i_none _ _ I). eapply none_below; eauto. eapply inv_x_none; eauto. Qed.
  Lemma x_none_below_nondir fs X p e a r : Inv fs X -> X p = Some e -> is_dir (x_d e) = false ->
    X (p ++ a :: r) = None.
  Proof.
    intros I H Hd. destruct (inv_x_some _ _ _ _ I H) as (i & H1 & H2 & _).
    apply (i_none _ _ I). eapply none_below_nondir; eauto. rewrite (dm_is_dir _ _ H2); auto.
  Qed.

  (* ---- touch ---- *)
  Lemma touch_other p q X : q <> p -> touch o p X q = X q.
  Proof.
    intro H. unfold touch. destruct (X p); auto. destruct (x_mk x && _); auto. apply xupd_other; auto.
  Qed.
  Definition touched (e : xdent) : xdent :=
    if x_mk e && utset then e else {| x_d := x_d e; x_known := false; x_key := x_key e; x_mk := x_mk e |}.
  Lemma touch_same p X : touch o p X p = option_map touched (X p).
  Proof.
    unfold touch, touched, utset. destruct (X p) eqn:E; simpl; auto.
    destruct (x_mk x && _); [auto|apply xupd_same].
  Qed.
  Lemma touched_key e : x_key (touched e) = x_key e.
  Proof. unfold touched. destruct (x_mk e && utset); auto. Qed.
  Lemma touched_d e : x_d (touched e) = x_d e.
  Proof. unfold touched. destruct (x_mk e && utset); auto. Qed.
  Lemma touched_mk e : x_mk (touched e) = x_mk e.
  Proof. unfold touched. destruct (x_mk e && utset); auto. Qed.
  Lemma touched_eff e : eff_known (touched e) = false.
  Proof.
    unfold touched, eff_known. destruct (x_mk e && utset) eqn:E; simpl; auto.
    rewrite E. simpl. apply andb_false_r.
  Qed.
  Lemma touched_idem e : touched (touched e) = touched e.
  Proof.
    unfold touched at 1. rewrite touched_mk. destruct (x_mk e && utset) eqn:E; auto.
    unfold touched. rewrite E. reflexivity.
  Qed.
  Lemma dm_touched d e t : dm d e -> dm (set_mtime t d) (touched e).
  Proof.
    unfold dm. rewrite touched_d, touched_eff. simpl. intuition discriminate.
  Qed.
  Lemma dm_touched' d e : dm d e -> dm d (touched e).
  Proof. unfold dm. rewrite touched_d, touched_eff. intuition discriminate. Qed.
  Lemma touch_isdir p q X : x_isdir (touch o p X q) = x_isdir (X q).
  Proof.
    destruct (path_dec q p) as [->|H].
    - rewrite touch_same. destruct (X p); simpl; auto. rewrite touched_d; auto.
    - rewrite touch_other; auto.
  Qed.
  Lemma touch_idem p X q : touch o p (touch o p X) q = touch o p X q.
  Proof.
    destruct (path_dec q p) as [->|H].
    - rewrite !touch_same. destruct (X p); simpl; auto. rewrite touched_idem; auto.
    - rewrite !touch_other; auto.
  Qed.

  (* ---- generic preservation lemmas ---- *)
  Lemma inv_upd fs X X' i f :
    Inv fs X ->
    ftype (f (inodes fs i)) = ftype (inodes fs i) ->
    (forall p e, names fs p = Some i -> X p = Some e ->
       exists e', X' p = Some e' /\ dm (f (inodes fs i)) e' /\ x_key e' = x_key e) ->
    (forall p, names fs p <> Some i -> X' p = X p) ->
    Inv (upd_inode i f fs) X'.
  Proof.
    intros I Ht Hs Ho.
    assert (Hd : forall j, is_dir (inodes (upd_inode i f fs) j) = is_dir (inodes fs j)).
    { intro j. simpl. destruct (N.eqb j i) eqn:E; auto. apply N.eqb_eq in E. subst. apply is_dir_ftype; auto. }
    split; simpl names; simpl next.
    - apply (i_lt _ _ I).
    - intros p a j H. destruct (i_par _ _ I _ _ _ H) as (k & H1 & H2). exists k. rewrite Hd. auto.
    - intros p q j H1 H2 H3. rewrite Hd in H3. eapply (i_diru _ _ I); eauto.
    - intros p H. rewrite Ho; [apply (i_none _ _ I); auto|congruence].
    - intros p j H. destruct (i_some _ _ I _ _ H) as (e & H1 & H2 & H3).
      destruct (N.eq_dec j i) as [->|Hne].
      + destruct (Hs _ _ H H1) as (e' & E1 & E2 & E3). exists e'. simpl. rewrite N.eqb_refl.
        split; [auto|split; [auto|]]. rewrite E3. auto.
      + exists e. rewrite Ho by congruence. simpl. apply N.eqb_neq in Hne. rewrite Hne. auto.
  Qed.

  (* an inode reachable through one name only *)
  Lemma inv_upd1 fs X T i f e e' :
    Inv fs X -> names fs T = Some i -> (forall q, names fs q = Some i -> q = T) ->
    X T = Some e -> ftype (f (inodes fs i)) = ftype (inodes fs i) ->
    dm (f (inodes fs i)) e' -> x_key e' = x_key e ->
    Inv (upd_inode i f fs) (xupd T (Some e') X).
  Proof.
    intros I H U HX Ht Hm Hk. eapply inv_upd; eauto.
    - intros p e0 Hp He0. apply U in Hp. subst p. rewrite xupd_same. exists e'. split; [auto|split; [auto|congruence]].
    - intros p Hp. apply xupd_other. intro; subst; congruence.
  Qed.

  Lemma dir_unique fs X T i : Inv fs X -> names fs T = Some i -> is_dir (inodes fs i) = true ->
    forall q, names fs q = Some i -> q = T.
  Proof. intros I H Hd q Hq. eapply (i_diru _ _ I); eauto. Qed.

  Lemma inv_touch fs X P j : Inv fs X -> names fs P = Some j -> is_dir (inodes fs j) = true ->
    Inv (upd_inode j (set_mtime NOW) fs) (touch o P X).
  Proof.
    intros I H Hd. eapply inv_upd; eauto.
    - intros p e Hp He. assert (p = P) by (eapply dir_unique; eauto). subst p.
      rewrite touch_same, He. simpl. exists (touched e). split; auto. split; [|apply touched_key].
      destruct (i_some _ _ I _ _ H) as (e0 & E1 & E2 & _). rewrite He in E1. inversion E1; subst e0.
      apply dm_touched; auto.
    - intros p Hp. apply touch_other. intro; subst; congruence.
  Qed.

  Lemma inv_touch_weak fs X P : Inv fs X -> Inv fs (touch o P X).
  Proof.
    intros I. split; try apply I.
    - intros p H. destruct (path_dec p P) as [->|Hn].
      + rewrite touch_same, (i_none _ _ I _ H). auto.
      + rewrite touch_other; auto. apply (i_none _ _ I); auto.
    - intros p i H. destruct (i_some _ _ I _ _ H) as (e & H1 & H2 & H3).
      destruct (path_dec p P) as [->|Hn].
      + rewrite touch_same, H1. simpl. exists (touched e). rewrite touched_key. split; [auto|split; [apply dm_touched'; auto|auto]].
      + rewrite touch_other; eauto.
  Qed.

  (* binding a fresh inode *)
  Definition bind_new (T : list (list N)) (d : dent) (fs : fsys) : fsys :=
    {| names := fun q => if path_eqb q T then Some (next fs) else names fs q;
       inodes := fun j => if N.eqb j (next fs) then d else inodes fs j;
       next := next fs + 1; dom := T :: dom fs |}.

  Lemma inv_bind fs X P a j d e :
    Inv fs X -> names fs (P ++ [a]) = None -> names fs P = Some j -> is_dir (inodes fs j) = true ->
    dm d e -> (x_key e = KNew (P ++ [a]) \/ exists s, x_key e = KSrc s) ->
    Inv (bind_new (P ++ [a]) d fs) (xupd (P ++ [a]) (Some e) X).
  Proof.
    intros I Hn HP Hd Hm Hk. set (T := P ++ [a]) in *.
    assert (Hold : forall p i, names fs p = Some i -> N.eqb i (next fs) = false).
    { intros p i H. apply (i_lt _ _ I) in H. apply N.eqb_neq. lia. }
    assert (Hnm : forall p i, names (bind_new T d fs) p = Some i ->
                  (p = T /\ i = next fs) \/ (p <> T /\ names fs p = Some i)).
    { intros p i. simpl. destruct (path_eqb p T) eqn:E.
      - apply path_eqb_eq in E. intro H. inversion H. auto.
      - apply path_eqb_neq in E. auto. }
    split.
    - intros p i H. simpl next. destruct (Hnm _ _ H) as [[_ ->]|[_ H1]]; [lia|]. apply (i_lt _ _ I) in H1. lia.
    - intros p b i H. destruct (Hnm _ _ H) as [[E _]|[Hne H1]].
      + unfold T in E. apply app_inj_tail in E as [-> ->]. exists j. simpl.
        assert (path_eqb P T = false) as ->.
        { apply path_eqb_neq. unfold T. intro E. symmetry in E. revert E. apply snoc_ne_self. }
        rewrite (Hold _ _ HP). auto.
      + destruct (i_par _ _ I _ _ _ H1) as (k & K1 & K2). exists k. simpl.
        assert (path_eqb p T = false) as ->.
        { apply path_eqb_neq. intro; subst p. congruence. }
        rewrite (Hold _ _ K1). auto.
    - intros p q i H1 H2 H3.
      destruct (Hnm _ _ H1) as [[-> ->]|[Hp H1']]; destruct (Hnm _ _ H2) as [[E2 E3]|[Hq H2']]; auto.
      + apply (i_lt _ _ I) in H2'. lia.
      + subst. apply (i_lt _ _ I) in H1'. lia.
      + simpl in H3. rewrite (Hold _ _ H1') in H3. eapply (i_diru _ _ I); eauto.
    - intros p. simpl. destruct (path_eqb p T) eqn:E; [discriminate|]. intro H.
      apply path_eqb_neq in E. rewrite xupd_other; auto. apply (i_none _ _ I); auto.
    - intros p i H. destruct (Hnm _ _ H) as [[-> ->]|[Hp H1]].
      + exists e. rewrite xupd_same. simpl inodes. rewrite N.eqb_refl. split; [auto|split; [auto|]].
        destruct Hk as [Hk|(s0 & Hk)]; rewrite Hk; simpl; auto.
        split; auto. intros p' H'. destruct (Hnm _ _ H') as [[-> _]|[_ H2]]; auto.
        apply (i_lt _ _ I) in H2. lia.
      + destruct (i_some _ _ I _ _ H1) as (e0 & E1 & E2 & E3). exists e0. rewrite xupd_other by auto.
        simpl inodes. rewrite (Hold _ _ H1). split; [auto|split; [auto|]].
        destruct (x_key e0); simpl in *; auto. destruct E3 as [E3 E4]. split; auto.
        intros p' H'. destruct (Hnm _ _ H') as [[-> ->]|[_ H2]]; auto. apply (i_lt _ _ I) in H1. lia.
  Qed.

  (* removing a set of names closed under extension *)
  Definition unbind (T : list (list N)) (fs : fsys) (dm' : list (list (list N))) : fsys :=
    {| names := fun q => if is_prefix T q then None else names fs q; inodes := inodes fs; next := next fs; dom := dm' |}.

  Lemma is_prefix_snoc_false T p a : is_prefix T (p ++ [a]) = false -> is_prefix T p = false.
  Proof.
    intro H. destruct (is_prefix T p) eqn:E; auto. apply is_prefix_true in E as (r & ->).
    rewrite <- app_assoc, is_prefix_app in H. discriminate.
  Qed.

  Lemma inv_unbind fs X T dm' : Inv fs X -> Inv (unbind T fs dm') (xrm T X).
  Proof.
    intros I. split; simpl.
    - intros p i. destruct (is_prefix T p); [discriminate|]. apply (i_lt _ _ I).
    - intros p a i. destruct (is_prefix T (p ++ [a])) eqn:E; [discriminate|]. intro H.
      rewrite (is_prefix_snoc_false _ _ _ E). apply (i_par _ _ I _ _ _ H).
    - intros p q i. destruct (is_prefix T p); [discriminate|]. destruct (is_prefix T q); [discriminate|].
      apply (i_diru _ _ I).
    - intros p. unfold xrm. destruct (is_prefix T p); auto. apply (i_none _ _ I).
    - intros p i. unfold xrm. destruct (is_prefix T p) eqn:E; [discriminate|]. intro H.
      destruct (i_some _ _ I _ _ H) as (e & H1 & H2 & H3). exists e. split; [auto|split; [auto|]].
      destruct (x_key e); simpl in *; auto. destruct H3 as [H3 H4]. split; auto.
      intros p'. destruct (is_prefix T p'); [discriminate|]. auto.
  Qed.

  (* unlinking a non-directory: the same as removing everything below it *)
  Lemma set_name_none_eqv fs X T i : Inv fs X -> names fs T = Some i -> is_dir (inodes fs i) = false ->
    fs_eqv (set_name T None fs) (unbind T fs (T :: dom fs)).
  Proof.
    intros I H Hd. split; simpl; auto. intros p.
    destruct (path_eqb p T) eqn:E.
    - apply path_eqb_eq in E. subst. assert (is_prefix T T = true) as ->; auto.
      apply is_prefix_true. exists []. rewrite app_nil_r; auto.
    - destruct (is_prefix T p) eqn:E2; auto. apply is_prefix_true in E2 as (r & ->).
      destruct r as [|b r]; [rewrite app_nil_r, path_eqb_refl in E; discriminate|].
      eapply none_below_nondir; eauto.
  Qed.
End Inv.
