(* The notifications of a transfer may be replayed in any ancestors-first order (in
   particular: with the notification of every regular file delayed to any later position,
   whatever the order in which file contents complete): the result is the view of the new
   destination (honest sender: hard-link entries carry the metadata of the entry they name). *)
From Coq Require Import List NArith Lia Bool Sorting.Sorted Sorting.Permutation.
From FS Require Import Sx Model.Path Model.Stat Model.Diff Model.AbsDest
  Proofs.Lex Proofs.PathP Proofs.DiffP Proofs.AbsDestP Proofs.ReceiveP Proofs.ReplayP.
Import ListNotations.
Open Scope N_scope.

Lemma StronglySorted_map {X Y} (f : X -> Y) (R : Y -> Y -> Prop) l :
  StronglySorted (fun a b => R (f a) (f b)) l -> StronglySorted R (map f l).
Proof.
  induction 1 as [|a l S IH F]; simpl; constructor; auto.
  rewrite Forall_forall in *. intros y Hy. apply in_map_iff in Hy. destruct Hy as (x & <- & Hx). auto.
Qed.

Theorem notify_order_independent_proof (H : bytes -> bytes) (hdr : stat -> bytes) d A B :
  wf_listing (map fst A) -> wf_listing (map fst B) -> links_ok B -> identity_faithful d A B ->
  links_meta B -> link_xattrs_kept d A B ->
  let r := receive_abs H hdr Fresh d A B in
  forall ns', Permutation (ds_notifs r) ns' -> ancestors_first ns' ->
  forall p, alookup p (replay ns' (nview H hdr (dest_of A))) = alookup p (nview H hdr (ds_map r)).
Proof.
  intros HwA HwB Hl Hf Hm Hxk. cbv zeta. intros ns' HP Haf p.
  destruct (notify_exact_proof H hdr d A B HwA HwB Hl Hf) as (_ & En & _).
  assert (HS : StronglySorted (fun a b => compare_path (npath a) (npath b) = Lt)
                 (ds_notifs (receive_abs H hdr Fresh d A B))).
  { rewrite En. apply StronglySorted_map.
    pose proof (diff_sorted_proof (fun s => s) d (map fst A) (map fst B) (proj1 HwA) (proj1 HwB) (proj2 HwB)
                  (fun s => eq_refl)) as Hd.
    eapply StronglySorted_ind with (P := fun l => StronglySorted _ l); [constructor| |exact Hd].
    intros c l _ IH F. constructor; auto. rewrite Forall_forall in *. intros c' Hc'.
    specialize (F c' Hc'). unfold clt in F.
    change (npath (notif_of (src_of B) H hdr c)) with (notif_path (notif_of (src_of B) H hdr c)).
    change (npath (notif_of (src_of B) H hdr c')) with (notif_path (notif_of (src_of B) H hdr c')).
    rewrite !notif_of_path. exact F. }
  destruct (sorted_ancestors_first _ HS) as [Haf0 Hnd].
  rewrite (replay_order_independent _ ns' Hnd Haf0 HP Haf).
  rewrite (ReceiveP.notify_replays_any H hdr d A B Fresh (receive_fresh_honest H hdr d A B HwA HwB Hl Hf Hm Hxk)). reflexivity.
Qed.
