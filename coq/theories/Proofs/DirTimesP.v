(* C01 — directory mtimes (Model/ConvergeA.v, section DirTimes): the map component of the
   extended run is the map of receive_abs; every directory created by this transfer (Mkdir
   branch) is recorded in dirModTimes, so that after the Wait pass it shows the mtime of its
   stat, i.e. the source's; hence the convergence relation holds of the view WITH the mtimes the
   directories really show ([view_t]).  Nothing is claimed for pre-existing directories
   ([preexisting_dir_mtime_not_restored]: the relation would be false if it did). *)
From Coq Require Import List NArith Lia Bool Sorting.Sorted.
From FS Require Import Sx Model.Path Model.Stat Model.Diff Model.AbsDest Model.Converge Model.ConvergeA
  Proofs.Lex Proofs.PathP Proofs.DiffP Proofs.AbsDestP Proofs.ReceiveP Proofs.ApplyInoP Proofs.OracleP
  Proofs.ConvergeP Proofs.MergeP.
Import ListNotations.
Open Scope N_scope.
Open Scope bool_scope.

Section Plain.
Variable src : bytes -> bytes.
Variable now : N -> N.

Lemma apply_all_t_plain : forall cs D n i ov dmt D' n' ov' dmt' e,
  apply_all_t src now cs D n i ov dmt = (D', n', ov', dmt', e) ->
  exists dn, apply_all src cs D n = (D', n', dn, e).
Proof.
  induction cs as [|c cs IH]; intros D n i ov dmt D' n' ov' dmt' e E; simpl in E.
  - inversion E; subst. exists []. reflexivity.
  - simpl. destruct (apply_map src D n c) as [[D1 n1]|] eqn:Ea.
    + destruct (IH _ _ _ _ _ _ _ _ _ _ E) as [dn Hd]. rewrite Hd. eauto.
    + inversion E; subst. eauto.
Qed.

(* dirModTimes only grows, and holds the path of every directory change that found no directory *)
Lemma dmt_collects : forall cs D n i ov dmt D' n' ov' dmt',
  apply_all_t src now cs D n i ov dmt = (D', n', ov', dmt', false) -> StronglySorted clt cs ->
  (forall x, In x dmt -> In x dmt') /\
  (forall k p st, In (k, p, Some st) cs -> k <> KDelete -> st_is_dir st = true -> is_dir_at D p = false ->
                  In p dmt').
Proof.
  induction cs as [|c cs IH]; intros D n i ov dmt D' n' ov' dmt' E HS; simpl in E.
  - inversion E; subst. split; auto. intros k p st [].
  - destruct (apply_map src D n c) as [[D1 n1]|] eqn:Ea; [|inversion E].
    apply StronglySorted_inv in HS. destruct HS as [HS Hc]. rewrite Forall_forall in Hc.
    destruct (IH _ _ _ _ _ _ _ _ _ E HS) as [Hmono Hcol]. split.
    + intros x Hx. apply Hmono. destruct (mkdir_case D c); [right|]; auto.
    + intros k p st [->|Hin] Hk Hd Hnd.
      * apply Hmono. assert (Hm : mkdir_case D (k, p, Some st) = true).
        { unfold mkdir_case. destruct k; try congruence; rewrite Hd, Hnd; reflexivity. }
        rewrite Hm. left. reflexivity.
      * apply (Hcol k p st Hin Hk Hd). unfold is_dir_at in *.
        destruct (alookup p D1) as [e|] eqn:Ee; auto.
        destruct (apply_map_old src _ _ _ _ _ _ _ Ea Ee) as [Ep|Ho].
        { specialize (Hc _ Hin). unfold clt in Hc. change (ch_path (k, p, Some st)) with p in Hc.
          rewrite Ep, compare_path_refl in Hc. discriminate. }
        rewrite Ho in Hnd. exact Hnd.
Qed.
End Plain.

(* ---------------------------------------------------------------- the relation under re-timing *)
Lemma retime_path ov d : o_path (retime ov d) = o_path d.
Proof. unfold retime. destruct (N.eqb (o_type d) S_IFDIR); auto. destruct (alookup (o_path d) ov); auto. Qed.

Lemma find_obs_retime ov p l : find_obs p (map (retime ov) l) = option_map (retime ov) (find_obs p l).
Proof.
  induction l as [|d l IH]; [reflexivity|]. simpl. rewrite retime_path.
  destruct (bytes_eqb p (o_path d)); auto.
Qed.

Lemma retime_ino ov d : o_ino (retime ov d) = o_ino d.
Proof. unfold retime. destruct (N.eqb (o_type d) S_IFDIR); auto. destruct (alookup (o_path d) ov); auto. Qed.

Lemma retime_nondir ov d : o_type d <> S_IFDIR -> retime ov d = d.
Proof. intros Hn. unfold retime. apply N.eqb_neq in Hn. rewrite Hn. reflexivity. Qed.

Lemma retime_none ov d : alookup (o_path d) ov = None -> retime ov d = d.
Proof. intros E. unfold retime. rewrite E. destruct (N.eqb (o_type d) S_IFDIR); reflexivity. Qed.

Lemma entry_ok_retime ov created s c d :
  (created = true -> unix_type_of_gomode (st_mode s) = S_IFDIR -> alookup (st_path s) ov = None) ->
  entry_ok created s c d -> entry_ok created s c (retime ov d).
Proof.
  intros Hcr Hok. pose proof Hok as (H1 & H2 & _).
  destruct (N.eq_dec (o_type d) S_IFDIR) as [Ed|Ed]; [|rewrite retime_nondir; auto].
  destruct created.
  - rewrite retime_none; auto. rewrite H1. apply Hcr; auto. congruence.
  - destruct (alookup (o_path d) ov) as [t|] eqn:Eo; [|rewrite retime_none; auto].
    destruct Hok as (_ & _ & H3 & H4 & H5 & H6 & H7 & H8 & H9 & H10 & H11).
    unfold retime. apply N.eqb_eq in Ed. rewrite Ed, Eo. apply N.eqb_eq in Ed.
    unfold entry_ok. cbv zeta. simpl.
    split; [exact H1|]. split; [exact H2|]. split; [exact H3|]. split; [exact H4|]. split; [exact H5|].
    split; [intros Hn; exfalso; apply Hn; congruence|].
    split; [intros _ Hf; discriminate|].
    split; [exact H8|]. split; [exact H9|]. split; [exact H10|]. intros Hf; discriminate.
Qed.

Lemma prior_ok_retime ov ps c d : prior_ok ps c d -> prior_ok ps c (retime ov d).
Proof.
  intros Hok. destruct (N.eq_dec (o_type d) S_IFDIR) as [Ed|Ed]; [|rewrite retime_nondir; auto].
  destruct (alookup (o_path d) ov) as [t|] eqn:Eo; [|rewrite retime_none; auto].
  destruct Hok as (H1 & H2 & H3 & H4 & H5 & H6).
  unfold retime. apply N.eqb_eq in Ed. rewrite Ed, Eo. apply N.eqb_eq in Ed.
  unfold prior_ok. cbv zeta. simpl.
  split; [exact H1|]. split; [exact H2|]. split; [exact H3|]. split; [exact H4|].
  split; [|exact H6]. intros Hr. exfalso. rewrite Ed in H1. rewrite <- H1 in Hr. discriminate.
Qed.

Lemma link_partition_retime ov B dest : link_partition B dest -> link_partition B (map (retime ov) dest).
Proof.
  intros Hl e1 e2 d1 d2 H1 H2 R1 R2 F1 F2. rewrite find_obs_retime in F1, F2.
  destruct (find_obs (st_path (fst e1)) dest) as [x1|] eqn:X1; [|discriminate].
  destruct (find_obs (st_path (fst e2)) dest) as [x2|] eqn:X2; [|discriminate].
  simpl in F1, F2. inversion F1; inversion F2; subst. rewrite !retime_ino. eapply Hl; eauto.
Qed.

Lemma approx_retime ov A B dest :
  (forall s c, In (s, c) B -> inode_created A B s = true -> unix_type_of_gomode (st_mode s) = S_IFDIR ->
               alookup (st_path s) ov = None) ->
  approx A B dest -> approx A B (map (retime ov) dest).
Proof.
  intros Hcr (Hp & He & Hl). split; [|split].
  - intros p. rewrite find_obs_retime. rewrite <- (Hp p).
    destruct (find_obs p dest); simpl; split; intros [x Hx]; eauto; discriminate.
  - intros s c Hin. destruct (He s c Hin) as (dd & Hd & Hok). exists (retime ov dd).
    rewrite find_obs_retime, Hd. split; [reflexivity|]. apply entry_ok_retime; auto. intros; eapply Hcr; eauto.
  - apply link_partition_retime; auto.
Qed.

Lemma approx_merge_retime ov A B dest :
  (forall s c, In (s, c) B -> inode_created A B s = true -> unix_type_of_gomode (st_mode s) = S_IFDIR ->
               alookup (st_path s) ov = None) ->
  approx_merge A B dest -> approx_merge A B (map (retime ov) dest).
Proof.
  intros Hcr (He & H2 & H3 & Hl). split; [|split; [|split]].
  - intros s c Hin. destruct (He s c Hin) as (dd & Hd & Hok). exists (retime ov dd).
    rewrite find_obs_retime, Hd. split; [reflexivity|]. apply entry_ok_retime; auto. intros; eapply Hcr; eauto.
  - intros dd Hd. apply in_map_iff in Hd. destruct Hd as (d0 & <- & Hd0). rewrite retime_path.
    destruct (H2 d0 Hd0) as [Hl'|(Hk & ps & c & Hf & Hok)]; [left; auto|right].
    split; auto. exists ps, c. split; auto. apply prior_ok_retime; auto.
  - intros e He' Hk. destruct (H3 e He' Hk) as [dd Hd]. rewrite find_obs_retime, Hd. simpl. eauto.
  - apply link_partition_retime; auto.
Qed.

(* a directory that the transfer creates finds no directory at its path in the old destination *)
Lemma created_not_dir_at A s :
  sorted (map fst A) -> created_by_transfer A s = true -> unix_type_of_gomode (st_mode s) = S_IFDIR ->
  is_dir_at (dest_of A) (st_path s) = false.
Proof.
  intros HsA Hc Hd. unfold is_dir_at. destruct (alookup (st_path s) (dest_of A)) as [o|] eqn:Eo; auto.
  apply D0_some in Eo. destruct Eo as [Ho Ep]. unfold created_by_transfer in Hc.
  destruct (find_entry (st_path s) A) as [[ps pc]|] eqn:Ef.
  - apply find_entry_some in Ef. destruct Ef as [Hps Epp]. simpl in Epp.
    assert (ps = de_stat o).
    { apply (sorted_unique (map fst A)); auto; [apply (in_map fst _ _ Hps)|apply (in_map fst _ _ Ho)|simpl; congruence]. }
    subst ps. apply negb_true_iff in Hc. unfold same_type in Hc. rewrite Hd in Hc.
    unfold st_is_dir. destruct (mode_is_dir (st_mode (de_stat o))) eqn:Em; auto.
    apply unix_type_dir in Em. rewrite Em, N.eqb_refl in Hc. discriminate.
  - exfalso. eapply (find_entry_none _ _ Ef); eauto.
Qed.

Section Top.
Variable H : bytes -> bytes.
Variable hdr : stat -> bytes.
Variable now : N -> N.
Variable d : differ.
Variables A B : list AbsDest.entry.

Lemma receive_t_plain m :
  ts_map (receive_t now m d A B) = ds_map (receive_abs H hdr m d A B) /\
  ts_err (receive_t now m d A B) = ds_err (receive_abs H hdr m d A B).
Proof.
  unfold receive_t.
  set (cs := diff idf d (match m with Fresh => map fst A | Merge => [] end) (map fst B)).
  destruct (apply_all_t (src_of B) now cs (dest_of A) (N.of_nat (length A)) 0 [] []) as [[[[D n] ov] dmt] e] eqn:E.
  destruct (apply_all_t_plain _ _ _ _ _ _ _ _ _ _ _ _ _ E) as [dn Hd].
  rewrite (receive_abs_unfold H hdr d A B m D n dn e Hd). simpl. auto.
Qed.

(* after Wait, a directory that was the subject of an add/modify and found no directory in the
   old destination shows the mtime of its stat *)
Lemma created_dir_restored m k s :
  let cs := diff idf d (match m with Fresh => map fst A | Merge => [] end) (map fst B) in
  StronglySorted clt cs -> ts_err (receive_t now m d A B) = false ->
  In (k, st_path s, Some s) cs -> k <> KDelete -> st_is_dir s = true ->
  is_dir_at (dest_of A) (st_path s) = false ->
  alookup (st_path s) (ts_ov (receive_t now m d A B)) = None.
Proof.
  cbv zeta. unfold receive_t.
  set (cs := diff idf d (match m with Fresh => map fst A | Merge => [] end) (map fst B)).
  destruct (apply_all_t (src_of B) now cs (dest_of A) (N.of_nat (length A)) 0 [] []) as [[[[D n] ov] dmt] e] eqn:E.
  simpl. intros HS He Hin Hk Hd Hnd. subst e.
  destruct (dmt_collects _ _ _ _ _ _ _ _ _ _ _ _ E HS) as [_ Hcol].
  pose proof (Hcol k (st_path s) s Hin Hk Hd Hnd) as Hp.
  unfold wait_pass. rewrite alookup_aremove_if.
  assert (Hex : existsb (bytes_eqb (st_path s)) dmt = true).
  { apply existsb_exists. exists (st_path s). split; auto. apply bytes_eqb_refl. }
  rewrite Hex. reflexivity.
Qed.

Theorem dir_mtimes_fresh_proof :
  wf_entries A -> wf_entries B -> AbsDest.identity_faithful d A B ->
  let s := receive_t now Fresh d A B in
  ts_err s = false /\ ts_map s = ds_map (receive_abs H hdr Fresh d A B) /\ approx A B (view_t s).
Proof.
  intros [HwA HlA] [HwB HlB] Hf. cbv zeta.
  destruct (receive_t_plain Fresh) as [Em Ee].
  destruct (diff_apply_converges_proof H hdr d A B HwA HwB HlA HlB Hf) as [Herr Happ].
  split; [congruence|]. split; [exact Em|].
  unfold view_t. rewrite Em. apply approx_retime; auto.
  intros s c Hin Hc Hd. unfold inode_created in Hc. apply andb_true_iff in Hc. destruct Hc as [Hc _].
  destruct (fresh_created_change d A B HwA HwB s c Hin Hc) as (k & Hk & Hch).
  destruct HwA as [HsA HcA]. destruct HwB as [HsB HcB].
  apply (created_dir_restored Fresh k s); auto.
  - apply diff_sorted_proof; auto.
  - congruence.
  - unfold st_is_dir. apply unix_type_dir; auto.
  - apply created_not_dir_at; auto.
Qed.

Theorem dir_mtimes_merge_proof :
  wf_listing (map fst A) -> wf_entries B ->
  let s := receive_t now Merge d A B in
  ts_err s = false /\ ts_map s = ds_map (receive_abs H hdr Merge d A B) /\ approx_merge A B (view_t s).
Proof.
  intros HwA [HwB HlB]. cbv zeta.
  destruct (receive_t_plain Merge) as [Em Ee].
  destruct (merge_is_overlay_proof H hdr d A B HwA HwB HlB) as (Herr & Happ & _).
  split; [congruence|]. split; [exact Em|].
  unfold view_t. rewrite Em. apply approx_merge_retime; auto.
  intros s c Hin Hc Hd. unfold inode_created in Hc. apply andb_true_iff in Hc. destruct Hc as [Hc _].
  destruct HwA as [HsA HcA]. destruct HwB as [HsB HcB].
  apply (created_dir_restored Merge KAdd s); auto.
  - rewrite diff_nil_l. apply adds_sorted; auto.
  - congruence.
  - rewrite diff_nil_l. apply (in_map add_of _ s). apply (in_map fst _ _ Hin).
  - discriminate.
  - unfold st_is_dir. apply unix_type_dir; auto.
  - apply created_not_dir_at; auto.
Qed.

End Top.
