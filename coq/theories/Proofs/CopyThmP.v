(* C13 / C15 — the theorems in their final form (over [copy_top] and [overlay_all]). *)
From Coq Require Import List NArith Bool Lia ZifyN ZifyNat ZifyBool.
From FS Require Import Sx Model.Path Model.SymMode Model.Copier Model.CopySpec Proofs.Lex
  Proofs.CopierP Proofs.CopyOpsP Proofs.CopyDentP Proofs.CopyLinkP Proofs.CopyNodeP Proofs.CopyMkdirP Proofs.CopyConflictP
  Proofs.CopyTopP.
Import ListNotations.
Open Scope N_scope.
Open Scope bool_scope.

Definition sel_all (p : list (list N)) : bool := true.

(* sources without multiply-linked files (link groups are the gap of the _partial theorems) *)
Definition no_link_groups (sroot : snode) : Prop := forall i, multi_of sroot i = false.
Definition wf_src (sroot : snode) : Prop := wf_s sroot /\ is_dir (sdent sroot) = true.
(* all names of a multiply-linked regular file carry one dentry (as the names of one inode do) *)
Definition links_consistent (sroot : snode) : Prop := exists sdof, cons_s (multi_of sroot) sdof sroot.

Lemma cons_s_nolinks multi sdof : (forall i, multi i = false) -> forall n, cons_s multi sdof n.
Proof.
  intros Hn. induction n as [nm ino d kids IH] using snode_ind2. apply cons_s_unfold. split; auto.
  intros _ H. rewrite Hn in H. discriminate.
Qed.
Lemma links_consistent_nolinks sroot : no_link_groups sroot -> links_consistent sroot.
Proof. intro H. exists (fun _ => sdent sroot). apply cons_s_nolinks. auto. Qed.

Lemma xattrs_eqb_refl a : xattrs_eqb a a = true.
Proof. induction a as [|[k v] a IH]; simpl; auto. rewrite !bytes_eqb_refl, IH. auto. Qed.

Lemma dent_match_of_dm o d e : dm o d e -> (x_known e = true -> d_mtime d = d_mtime (x_d e)) ->
  dent_match d e = true.
Proof.
  intros (A1 & A2 & A3 & _ & A5 & A6 & A7 & A8) Hk. unfold dent_match.
  rewrite A1, A2, A3, A5, A6, A7, A8, !N.eqb_refl, !bytes_eqb_refl, xattrs_eqb_refl. cbn [andb].
  destruct (x_known e); cbn [negb orb]; auto. rewrite (Hk eq_refl), N.eqb_refl. auto.
Qed.

(* what is kept of the inode partition in every mode: two non-directories that share an inode
   carry the same key (a copy is never linked to a file of another group or to a foreign file) *)
Definition keys_sound (V : view) (X : xview) : Prop :=
  forall p q i d1 d2 e1 e2, V p = Some (i, d1) -> V q = Some (i, d2) -> X p = Some e1 -> X q = Some e2 ->
    is_dir d1 = false -> ikey_eqb (x_key e1) (x_key e2) = true.

Lemma match_of_inv o fs X : Inv o fs X -> strict fs X -> forall p, match_at (view_of_fs fs) X p = true.
Proof.
  intros I S p. unfold match_at, view_of_fs. destruct (names fs p) as [i|] eqn:E.
  - destruct (i_some _ _ _ I _ _ E) as (e & E1 & E2 & _). rewrite E1. eapply dent_match_of_dm; eauto.
  - rewrite (i_none _ _ _ I _ E). auto.
Qed.

Lemma keys_sound_of_inv o ms multi sdof SS fs X im :
  Inv o fs X -> Lk o ms multi sdof SS fs X im -> keys_sound (view_of_fs fs) X.
Proof.
  intros I L p q i d1 d2 e1 e2 Hp Hq H1 H2 Hd. unfold view_of_fs in Hp, Hq.
  destruct (names fs p) as [i1|] eqn:Ep; [|discriminate]. destruct (names fs q) as [i2|] eqn:Eq; [|discriminate].
  inversion Hp; subst. inversion Hq; subst.
  destruct (i_some _ _ _ I _ _ Ep) as (e1' & A1 & _ & A3). rewrite H1 in A1. inversion A1; subst e1'.
  destruct (i_some _ _ _ I _ _ Eq) as (e2' & B1 & _ & B3). rewrite H2 in B1. inversion B1; subst e2'.
  destruct (x_key e1) as [a|p1|s1] eqn:K1; simpl in A3.
  - subst a. destruct (x_key e2) as [b|q1|s2] eqn:K2; simpl in B3; simpl.
    + subst. apply N.eqb_refl.
    + destruct B3 as [-> B3]. apply B3 in Ep. subst. congruence.
    + destruct (lk_grp _ _ _ _ _ _ _ _ L _ _ _ H2 K2) as (_ & _ & _ & _ & G5).
      destruct (G5 _ _ Eq Ep) as (e' & C1 & C2). rewrite H1 in C1. inversion C1; subst. congruence.
  - destruct A3 as [-> A3]. apply A3 in Eq. subst q. rewrite H1 in H2. inversion H2; subst. rewrite K1. simpl. apply path_eqb_refl.
  - destruct (lk_grp _ _ _ _ _ _ _ _ L _ _ _ H1 K1) as (_ & _ & _ & _ & G5).
    destruct (G5 _ _ Ep Eq) as (e' & C1 & C2). rewrite H2 in C1. inversion C1; subst. rewrite C2. simpl. apply N.eqb_refl.
Qed.

Lemma view_matches_of_inv o ms multi sdof fs X im :
  Inv o fs X -> Lk o ms multi sdof True fs X im -> strict fs X -> view_matches (view_of_fs fs) X.
Proof.
  intros I L S. split.
  - intro p. unfold match_at, view_of_fs. destruct (names fs p) as [i|] eqn:E.
    + destruct (i_some _ _ _ I _ _ E) as (e & E1 & E2 & _). rewrite E1. eapply dent_match_of_dm; eauto.
    + rewrite (i_none _ _ _ I _ E). auto.
  - intros p q. unfold keys_at, view_of_fs.
    destruct (names fs p) as [i|] eqn:Ep; auto. destruct (names fs q) as [j|] eqn:Eq; auto.
    destruct (i_some _ _ _ I _ _ Ep) as (e1 & A1 & _ & A3). destruct (i_some _ _ _ I _ _ Eq) as (e2 & B1 & _ & B3).
    rewrite A1, B1. destruct (is_dir (inodes fs i) || is_dir (inodes fs j)); auto.
    destruct (x_key e1) as [a|p1|s1] eqn:K1, (x_key e2) as [b|q1|s2] eqn:K2; simpl in A3, B3; simpl ikey_eqb.
    + subst. destruct (N.eqb i j); auto.
    + subst. destruct B3 as [-> B3]. destruct (N.eqb i j) eqn:E; auto. apply N.eqb_eq in E. subst j.
      apply B3 in Ep. subst. congruence.
    + (* KDst / KSrc *)
      subst a. destruct (N.eqb i j) eqn:E; auto. apply N.eqb_eq in E. subst j.
      destruct (lk_src _ _ _ _ _ _ _ _ L Logic.I _ _ _ B1 K2) as (l & i' & R1 & R2). rewrite Eq in R2. inversion R2; subst i'.
      destruct (lk_mem _ _ _ _ _ _ _ _ L _ _ _ _ R1 Ep) as (e0 & C1 & C2 & _). rewrite A1 in C1. inversion C1; subst. congruence.
    + subst. destruct A3 as [-> A3]. destruct (N.eqb i j) eqn:E; auto. apply N.eqb_eq in E. subst j.
      apply A3 in Eq. subst. congruence.
    + destruct A3 as [-> A3], B3 as [-> B3]. destruct (N.eqb i j) eqn:E.
      * apply N.eqb_eq in E. subst j. apply A3 in Eq. subst. rewrite path_eqb_refl. auto.
      * destruct (path_eqb p q) eqn:E2; auto. apply path_eqb_eq in E2. subst. rewrite Ep in Eq. inversion Eq; subst.
        rewrite N.eqb_refl in E. discriminate.
    + destruct A3 as [-> A3]. destruct (N.eqb i j) eqn:E; auto. apply N.eqb_eq in E. subst j.
      apply A3 in Eq. subst. congruence.
    + (* KSrc / KDst *)
      subst b. destruct (N.eqb i j) eqn:E; auto. apply N.eqb_eq in E. subst j.
      destruct (lk_src _ _ _ _ _ _ _ _ L Logic.I _ _ _ A1 K1) as (l & i' & R1 & R2). rewrite Ep in R2. inversion R2; subst i'.
      destruct (lk_mem _ _ _ _ _ _ _ _ L _ _ _ _ R1 Eq) as (e0 & C1 & C2 & _). rewrite B1 in C1. inversion C1; subst. congruence.
    + destruct B3 as [-> B3]. destruct (N.eqb i j) eqn:E; auto. apply N.eqb_eq in E. subst j.
      apply B3 in Ep. subst. congruence.
    + (* KSrc / KSrc *)
      destruct (lk_src _ _ _ _ _ _ _ _ L Logic.I _ _ _ A1 K1) as (l1 & i1 & R1 & R2). rewrite Ep in R2. inversion R2; subst i1.
      destruct (lk_src _ _ _ _ _ _ _ _ L Logic.I _ _ _ B1 K2) as (l2 & i2 & R3 & R4). rewrite Eq in R4. inversion R4; subst i2.
      destruct (N.eqb s1 s2) eqn:Es.
      * apply N.eqb_eq in Es. subst s2. rewrite R1 in R3. inversion R3; subst. rewrite N.eqb_refl. auto.
      * destruct (N.eqb i j) eqn:E; auto. apply N.eqb_eq in E. subst j.
        destruct (lk_mem _ _ _ _ _ _ _ _ L _ _ _ _ R3 Ep) as (e0 & C1 & C2 & _). rewrite A1 in C1. inversion C1; subst.
        rewrite K1 in C2. inversion C2; subst. rewrite N.eqb_refl in Es. discriminate.
Qed.

(* ---- what errors the specification can report ---- *)
Lemma spec_resolve_err V p x : spec_resolve V p = inr x -> x = XScope \/ x = XOther 4.
Proof.
  rewrite spec_resolve_fold.
  assert (J0 : forall x, (@inl (list (list N)) xerr []) = inr x -> x = XScope \/ x = XOther 4) by discriminate.
  revert J0. generalize (@inl (list (list N)) xerr []) as acc.
  induction (comps p) as [|c l IH]; intros acc Hacc; cbn [fold_left]; [apply Hacc|].
  apply IH. intros x1. destruct acc as [stk|x2]; [|apply Hacc]. cbn [sr_step]. cbv zeta.
  destruct (lex_step stk c); [discriminate|].
  destruct (V (parent (l0 :: l1))) as [pe|]; [|discriminate].
  destruct (is_dir (x_d pe)).
  - destruct (match V (l0 :: l1) with Some e => is_lnk (x_d e) | None => false end); [|discriminate].
    intro H; inversion H; auto.
  - destruct (is_lnk (x_d pe)); intro H; inversion H; auto.
Qed.

Lemma make_dirs_err o r : forall pre V x, make_dirs o pre r V = inr x -> x = XScope \/ x = XOther 4.
Proof.
  induction r as [|c r IH]; intros pre V x.
  - rewrite make_dirs_nil. destruct (V pre) as [e|]; [|intro H; inversion H; auto].
    destruct (negb (is_dir (x_d e))); [|discriminate]. destruct (is_lnk (x_d e)); intro H; inversion H; auto.
  - rewrite make_dirs_cons. destruct (V pre) as [e|]; [|intro H; inversion H; auto].
    destruct (negb (is_dir (x_d e))); [destruct (is_lnk (x_d e)); intro H; inversion H; auto|].
    destruct (V (pre ++ [c])); apply IH.
Qed.

Lemma first_conflict_shape V : forall n p cls q bef, first_conflict V p n = Some (XConflict cls q bef) ->
  exists e, bef = Some e /\ V q = Some e /\
            ((cls = 1 /\ is_dir (x_d e) = false) \/ (cls = 2 /\ is_dir (x_d e) = true)).
Proof.
  induction n as [nm ino sd kids IH] using snode_ind2. intros p cls q bef. cbn [first_conflict].
  destruct (V p) as [e|] eqn:E; [|discriminate].
  destruct (is_dir sd && negb (is_dir (x_d e))) eqn:E1.
  { intro H; inversion H; subst. exists e. split; auto. split; auto. left. split; auto.
    apply andb_true_iff in E1 as [_ E1]. apply negb_true_iff in E1. auto. }
  destruct (negb (is_dir sd) && is_dir (x_d e)) eqn:E2.
  { intro H; inversion H; subst. exists e. split; auto. split; auto. right. split; auto.
    apply andb_true_iff in E2 as [_ E2]. auto. }
  destruct (is_dir sd); [|discriminate].
  induction kids as [|k r IHr]; [discriminate|]. inversion IH as [|? ? Hk Hr]; subst.
  destruct (first_conflict V (p ++ [sname k]) k) eqn:Ek; auto. intro H; inversion H; subst. eapply Hk; eauto.
Qed.

Section Thm.
  Variable o : copts.
  Variable sroot : snode.
  Hypothesis Hsrc : wf_src sroot.
  Hypothesis Hlc : links_consistent sroot.
  (* link groups are handled for one literal source; several (wildcard) sources only without them *)
  Hypothesis Hmode : no_link_groups sroot \/ o_wild o = false.

  Lemma sel_all_true : forall p, sel_all p = true. Proof. reflexivity. Qed.

  Lemma top fs src dst : wf_fs fs ->
    exists sdof, top_ok o sroot sdof True (overlay_all o sroot (view_of_fs fs) src dst) (copy_top o sel_all sroot fs src dst).
  Proof. destruct Hsrc. destruct Hlc as (sdof & Hc). exists sdof. apply copy_top_ok; auto. Qed.

  (* every source, wildcards together with link groups included (no exact partition) *)
  Lemma topg fs src dst : wf_fs fs ->
    exists sdof, top_ok o sroot sdof False (overlay_all o sroot (view_of_fs fs) src dst) (copy_top o sel_all sroot fs src dst).
  Proof. clear Hmode. destruct Hsrc. destruct Hlc as (sdof & Hc). exists sdof. apply copy_top_ok; auto; intros []. Qed.

  (* C15, all sources: dentry by dentry the result is the overlay, and no two names share an
     inode unless the specification puts them into one group *)
  Theorem copy_overlay_links_proof fs src dst r :
    wf_fs fs -> overlay_all o sroot (view_of_fs fs) src dst = inl r ->
    exists st', copy_top o sel_all sroot fs src dst = (st', None) /\
                (forall p, match_at (view_of_fs (c_fs st')) (xr_view r) p = true) /\
                keys_sound (view_of_fs (c_fs st')) (xr_view r) /\
                rev (c_notifs st') = xr_notifs r.
  Proof.
    intros Hfs E. destruct (topg fs src dst Hfs) as (sdof & H). rewrite E in H.
    destruct H as (st' & H1 & H2 & H3 & H4 & _ & _ & _ & H9). exists st'. split; auto. split; [|split; auto].
    - apply (match_of_inv o); auto.
    - eapply keys_sound_of_inv; eauto.
  Qed.

  (* C15: the result of a successful Copy is the overlay of the source(s) over the destination *)
  Theorem copy_overlay_partial_proof fs src dst r :
    wf_fs fs -> overlay_all o sroot (view_of_fs fs) src dst = inl r ->
    exists st', copy_top o sel_all sroot fs src dst = (st', None) /\
                view_matches (view_of_fs (c_fs st')) (xr_view r) /\
                rev (c_notifs st') = xr_notifs r.
  Proof.
    intros Hfs E. destruct (top fs src dst Hfs) as (sdof & H). rewrite E in H.
    destruct H as (st' & H1 & H2 & H3 & H4 & _ & _ & _ & H9). exists st'. split; auto. split; auto.
    eapply view_matches_of_inv; eauto.
  Qed.

  (* every error the specification predicts is the error Copy reports (by class) *)
  Theorem copy_error_partial_proof fs src dst xe :
    wf_fs fs -> overlay_all o sroot (view_of_fs fs) src dst = inr xe ->
    exists st' e, copy_top o sel_all sroot fs src dst = (st', Some e) /\ err_cls e = xerr_cls xe.
  Proof.
    intros Hfs E. destruct (topg fs src dst Hfs) as (sdof & H). rewrite E in H.
    destruct H as (st' & e & H1 & H2 & _). eauto.
  Qed.

  (* where a conflict comes from *)
  Lemma overlay_one_conflict ms sn src dst V cls p bef :
    overlay_one o ms (multi_of sroot) sn src dst V = inr (XConflict cls p bef) ->
    o_replace o = false /\
    exists e, bef = Some e /\ ((cls = 1 /\ is_dir (x_d e) = false) \/ (cls = 2 /\ is_dir (x_d e) = true)).
  Proof.
    unfold overlay_one. destruct (spec_resolve V (clean dst)) as [D|x] eqn:E1.
    2:{ intro H; inversion H; subst. destruct (spec_resolve_err _ _ _ E1); discriminate. }
    destruct (make_dirs o [] _ V) as [V1|x] eqn:E2.
    2:{ intro H; inversion H; subst. destruct (make_dirs_err _ _ _ _ _ E2); discriminate. }
    destruct (o_replace o); [discriminate|].
    destruct (first_conflict V1 _ sn) as [c|] eqn:E3; [|discriminate].
    intro H; inversion H; subst. split; auto.
    destruct (first_conflict_shape _ _ _ _ _ _ E3) as (e & A & _ & B). eauto.
  Qed.

  Lemma overlay_srcs_conflict ms dst : forall srcs V cls p bef,
    overlay_srcs o sroot ms dst srcs V = inr (XConflict cls p bef) ->
    o_replace o = false /\
    exists e, bef = Some e /\ ((cls = 1 /\ is_dir (x_d e) = false) \/ (cls = 2 /\ is_dir (x_d e) = true)).
  Proof.
    induction srcs as [|s r IH]; intros V cls p bef; cbn [overlay_srcs]; [discriminate|].
    destruct (s_resolve sroot (rooted s)) as [sn|[]]; try discriminate.
    destruct (overlay_one o ms (multi_of sroot) sn s dst V) as [r1|x] eqn:E1.
    - destruct (overlay_srcs o sroot ms dst r (xr_view r1)) as [r2|x] eqn:E2; [discriminate|].
      intro H; inversion H; subst. eapply IH; eauto.
    - intro H; inversion H; subst. eapply overlay_one_conflict; eauto.
  Qed.

  Lemma overlay_all_conflict V0 src dst cls p bef :
    overlay_all o sroot V0 src dst = inr (XConflict cls p bef) ->
    o_replace o = false /\
    exists e, bef = Some e /\ ((cls = 1 /\ is_dir (x_d e) = false) \/ (cls = 2 /\ is_dir (x_d e) = true)).
  Proof.
    unfold overlay_all.
    destruct (ensure_arg dst) as [|c0 e0] eqn:Een.
    2:{ destruct (spec_resolve (xview_of V0) (c0 :: e0)) as [ep|x] eqn:E1.
        2:{ intro H; inversion H; subst. destruct (spec_resolve_err _ _ _ E1); discriminate. }
        destruct (make_dirs o [] ep (xview_of V0)) as [X1|x] eqn:E2.
        2:{ intro H; inversion H; subst. destruct (make_dirs_err _ _ _ _ _ E2); discriminate. }
        destruct (match o_modestr o with [] => Some None | _ :: _ => _ end) as [ms|]; [|discriminate].
        destruct (if o_wild o then resolve_wild sroot src else inl [src]) as [srcs|[]]; try discriminate.
        destruct srcs as [|s0 srcs]; [discriminate|].
        destruct (overlay_srcs o sroot ms dst (s0 :: srcs) X1) as [r|x] eqn:E3; [discriminate|].
        intro H; inversion H; subst. eapply overlay_srcs_conflict; eauto. }
    destruct (match o_modestr o with [] => Some None | _ :: _ => _ end) as [ms|]; [|discriminate].
    destruct (if o_wild o then resolve_wild sroot src else inl [src]) as [srcs|[]]; try discriminate.
    destruct srcs as [|s0 srcs]; [discriminate|].
    destruct (overlay_srcs o sroot ms dst (s0 :: srcs) (xview_of V0)) as [r|x] eqn:E3; [discriminate|].
    intro H; inversion H; subst. eapply overlay_srcs_conflict; eauto.
  Qed.

  (* C15: a directory meeting a non-directory (either way) without always-replace is an error
     of the matching class, and the obstacle is still there: same dentry, same inode *)
  Theorem conflict_is_error_and_keeps_obstacle_partial_proof fs src dst cls p bef :
    wf_fs fs -> overlay_all o sroot (view_of_fs fs) src dst = inr (XConflict cls p bef) ->
    o_replace o = false /\
    exists st' e be i,
      copy_top o sel_all sroot fs src dst = (st', Some e) /\ err_cls e = cls /\
      bef = Some be /\
      ((cls = 1 /\ is_dir (x_d be) = false) \/ (cls = 2 /\ is_dir (x_d be) = true)) /\
      names (c_fs st') p = Some i /\ dent_match (inodes (c_fs st') i) be = true /\
      (forall j, x_key be = KDst j -> i = j).
  Proof.
    intros Hfs E. destruct (topg fs src dst Hfs) as (sdof & H). rewrite E in H.
    destruct (overlay_all_conflict _ _ _ _ _ _ E) as (Hr & be & Hb & Hcls). split; auto.
    destruct H as (st' & e & H1 & H2 & (X' & I' & S' & HX & _)).
    rewrite Hb in HX. destruct (inv_x_some _ _ _ _ _ I' HX) as (i & Hi & Hm & Hk).
    exists st', e, be, i. repeat split; auto.
    - eapply dent_match_of_dm; eauto.
    - intros j Hj. rewrite Hj in Hk. simpl in Hk. auto.
  Qed.

  (* C15: with always-replace no clash is ever reported *)
  Theorem always_replace_never_conflicts_proof V0 src dst cls p bef :
    o_replace o = true -> overlay_all o sroot V0 src dst <> inr (XConflict cls p bef).
  Proof. intros Hr E. destruct (overlay_all_conflict _ _ _ _ _ _ E) as (H & _). congruence. Qed.
End Thm.

(* ---- auxiliary facts used by the property files ---- *)
Lemma count_N_notin i l : ~ In i l -> count_N i l = O.
Proof.
  induction l as [|j r IH]; simpl; auto. intro H. destruct (N.eqb i j) eqn:E.
  - apply N.eqb_eq in E. subst. exfalso. apply H. left; auto.
  - apply IH. intro Hin. apply H. right; auto.
Qed.
Lemma no_link_groups_of_nodup sroot : NoDup (s_inos sroot) -> no_link_groups sroot.
Proof.
  intros H i. unfold multi_of. induction H as [|j l Hni Hnd IH]; simpl; auto.
  destruct (N.eqb i j) eqn:E.
  - apply N.eqb_eq in E. subst. rewrite (count_N_notin _ _ Hni). auto.
  - exact IH.
Qed.

Section Wf.
  Variable o : copts.
  Variable sroot : snode.
  Hypothesis Hsrc : wf_src sroot.
  Hypothesis Hlc : links_consistent sroot.

  (* a successful Copy leaves a well-formed file system (so it can be copied onto again) *)
  Theorem copy_preserves_wf_proof fs src dst st' :
    wf_fs fs -> copy_top o sel_all sroot fs src dst = (st', None) -> wf_fs (c_fs st').
  Proof.
    intros Hfs E. destruct (topg o sroot Hsrc Hlc fs src dst Hfs) as (sdof & H).
    destruct (overlay_all o sroot (view_of_fs fs) src dst) as [r|xe].
    - destruct H as (st'' & E1 & I & _ & _ & _ & _ & Hroot & _). rewrite E in E1. inversion E1; subst st''.
      split; [apply (i_lt _ _ _ I)|]. split; [apply (i_par _ _ _ I)|]. split; [apply (i_diru _ _ _ I)|].
      eapply inv_x_isdir; eauto.
    - destruct H as (st'' & e & E1 & _). rewrite E in E1. discriminate.
  Qed.
End Wf.
