(* C12 — the validator accepts exactly the ordered, parent-closed, contained
   sequences.  Part 1: component-level core (stack invariant, soundness and
   completeness of one step).  Part 2: bridge from the string-level model of
   validator.go to the component level.  Part 3: the theorem. *)
From Coq Require Import List NArith Lia Bool.
From FS Require Import Sx Model.Path Model.Validator Proofs.Lex Proofs.PathP.
Import ListNotations.

(* ================= Part 1: component level ================= *)
Record item := { del : bool; ipath : cpath; isdir : bool }.
Definition entry := (list (list N) * list N)%type.

Fixpoint cpop (d : cpath) (stk : list entry) : list entry :=
  match stk with
  | [] => []
  | (d', l) :: rest => match lex d' d with Gt => cpop d rest | _ => stk end
  end.

Definition cvstep (stk : list entry) (it : item) : option (list entry) :=
  match rev (ipath it) with
  | [] => None
  | b :: rd =>
    let d := rev rd in
    match cpop d stk with
    | [] => None
    | (d', l) :: rest =>
      match lex d' d, cmpb l b with
      | Eq, Lt =>
        let stk' := (d', b) :: rest in
        Some (if negb (del it) && isdir it then (ipath it, []) :: stk' else stk')
      | _, _ => None
      end
    end
  end.

(* specification of one step *)
Definition spec_ok (acc : list item) (it : item) : Prop :=
  ipath it <> [] /\
  (forall q, In q acc -> lex (ipath q) (ipath it) = Lt) /\
  (removelast (ipath it) = [] \/
   exists q, In q acc /\ ipath q = removelast (ipath it) /\ del q = false /\ isdir q = true).

Definition names_ok (p : cpath) := Forall (fun n => n <> []) p.

(* stack shape, top first *)
Inductive chain : list entry -> Prop :=
| chain_root l : chain [([], l)]
| chain_push d l rest l' : chain ((d, l) :: rest) -> l <> [] -> chain ((d ++ [l], l') :: (d, l) :: rest).

Definition top_path (stk : list entry) : cpath :=
  match stk with
  | (d, []) :: _ => d
  | (d, l) :: _ => d ++ [l]
  | [] => []
  end.

Definition is_prefix (a b : cpath) := exists y, b = a ++ y.

Record Inv (stk : list entry) (acc : list item) : Prop := {
  inv_chain : chain stk;
  inv_le : forall q, In q acc -> lex (ipath q) (top_path stk) <> Gt;
  inv_last : top_path stk = [] \/ exists q, In q acc /\ ipath q = top_path stk;
  inv_dirs : forall d l, In (d, l) stk -> d <> [] ->
             exists q, In q acc /\ ipath q = d /\ del q = false /\ isdir q = true;
  inv_open : forall q, In q acc -> del q = false -> isdir q = true ->
             is_prefix (ipath q) (top_path stk) -> exists l, In (ipath q, l) stk
}.

(* ---- chain facts ---- *)
Lemma chain_set_top d l l' rest : chain ((d, l) :: rest) -> chain ((d, l') :: rest).
Proof. intros H. inversion H; subst; constructor; auto. Qed.

Lemma chain_tail e rest : chain (e :: rest) -> rest <> [] -> chain rest.
Proof. intros H Hn. inversion H; subst; auto. exfalso; apply Hn; reflexivity. Qed.

Lemma chain_has_root stk : chain stk -> exists l, In ([], l) stk.
Proof. induction 1. - exists l. left; auto. - destruct IHchain as [l0 H1]. exists l0. right; auto. Qed.

(* every entry (d,l) strictly below the top has l <> [] and d ++ [l] prefix of the top dir *)
Lemma chain_below d0 l0 rest : chain ((d0, l0) :: rest) ->
  forall d l, In (d, l) rest -> l <> [] /\ is_prefix (d ++ [l]) d0.
Proof.
  remember ((d0, l0) :: rest) as s. intros H. revert d0 l0 rest Heqs.
  induction H; intros d0 l0 rest0 E; inversion E; subst.
  - intros d l [].
  - intros d1 l1 [H1|H1].
    + inversion H1; subst. split; auto. exists []. rewrite app_nil_r. auto.
    + destruct (IHchain _ _ _ eq_refl d1 l1 H1) as [Hn [y Hy]]. split; auto.
      exists (y ++ [l]). rewrite Hy. rewrite <- !app_assoc. reflexivity.
Qed.

Lemma prefix_top_path d0 l0 rest : is_prefix d0 (top_path ((d0, l0) :: rest)).
Proof. simpl. destruct l0. - exists []. rewrite app_nil_r; auto. - exists [n :: l0]. auto. Qed.

Lemma prefix_trans a b c : is_prefix a b -> is_prefix b c -> is_prefix a c.
Proof. intros [x ->] [y ->]. exists (x ++ y). rewrite app_assoc. auto. Qed.

(* each stack dir is a prefix of the top path *)
Lemma chain_dir_prefix stk : chain stk -> forall d l, In (d, l) stk -> is_prefix d (top_path stk).
Proof.
  intros H d l Hin. destruct stk as [|[d0 l0] rest]; [destruct Hin|].
  destruct Hin as [E|Hin].
  - inversion E; subst. apply prefix_top_path.
  - destruct (chain_below _ _ _ H _ _ Hin) as [_ [y Hy]].
    eapply prefix_trans; [|apply prefix_top_path]. exists ([l] ++ y). rewrite Hy, <- app_assoc. auto.
Qed.

(* ---- cpop facts ---- *)
Lemma pop_suffix d stk : exists pre, stk = pre ++ cpop d stk.
Proof.
  induction stk as [|[d' l] rest IH]; simpl. - exists []. auto.
  - destruct (lex d' d); try (exists []; reflexivity). destruct IH as [pre E]. exists ((d', l) :: pre). simpl. congruence.
Qed.

Lemma pop_in d stk e : In e (cpop d stk) -> In e stk.
Proof. destruct (pop_suffix d stk) as [pre E]. intros H. rewrite E. apply in_or_app. auto. Qed.

Lemma pop_top_le d stk d' l rest : cpop d stk = (d', l) :: rest -> lex d' d <> Gt.
Proof.
  induction stk as [|[d1 l1] r IH]; simpl; try discriminate.
  destruct (lex d1 d) eqn:E; intros H; try (inversion H; subst; congruence). auto.
Qed.

Lemma pop_keeps d stk e : In e stk -> lex (fst e) d <> Gt -> In e (cpop d stk).
Proof.
  induction stk as [|[d1 l1] r IH]; simpl; auto. intros [E|Hin] Hle.
  - subst e. simpl in Hle. destruct (lex d1 d); try congruence; left; auto.
  - destruct (lex d1 d); try (right; auto; fail). auto.
Qed.

Lemma pop_chain d stk : chain stk -> cpop d stk <> [] -> chain (cpop d stk).
Proof.
  induction stk as [|[d1 l1] r IH]; simpl; intros H Hn; auto.
  destruct (lex d1 d); auto. apply IH; auto. apply chain_tail in H; auto. intro; subst; simpl in Hn; congruence.
Qed.

(* ---- small list facts ---- *)
Lemma rev_decomp {A} (p : list A) b rd : rev p = b :: rd -> p = rev rd ++ [b].
Proof. intros H. rewrite <- (rev_involutive p), H. reflexivity. Qed.

Lemma prefix_le a b : is_prefix a b -> lex a b <> Gt.
Proof. intros [y ->]. destruct y. - rewrite app_nil_r, lex_refl. discriminate. - rewrite lex_prefix_lt; discriminate. Qed.

Lemma prefix_of_snoc (a d : cpath) b : is_prefix a (d ++ [b]) -> a <> d ++ [b] -> is_prefix a d.
Proof.
  intros [y Hy] Hne. destruct y as [|c y' _] using rev_ind.
  - rewrite app_nil_r in Hy. congruence.
  - rewrite app_assoc in Hy. apply app_inj_tail in Hy. destruct Hy as [-> _]. exists y'. auto.
Qed.

Lemma lex_cons_single l y b : lex (l :: y) [b] = Lt -> cmpb l b = Lt.
Proof.
  unfold lex. simpl. fold cmpb. destruct (cmpb l b); auto; try discriminate. destruct y; discriminate.
Qed.

Lemma cmpb_nil_lt b : b <> [] -> cmpb [] b = Lt.
Proof. destruct b; [congruence|reflexivity]. Qed.

(* position of a stack entry relative to the top path *)
Lemma entry_vs_top stk d l : chain stk -> In (d, l) stk ->
  (l = [] /\ top_path stk = d) \/ (l <> [] /\ is_prefix (d ++ [l]) (top_path stk)).
Proof.
  intros Hc Hin. destruct stk as [|[d0 l0] rest]; [destruct Hin|]. destruct Hin as [E|Hin].
  - inversion E; subst. destruct l as [|n l]. + left; auto. + right. split; [discriminate|]. simpl. exists []. rewrite app_nil_r; auto.
  - right. destruct (chain_below _ _ _ Hc _ _ Hin) as [Hn Hp]. split; auto.
    eapply prefix_trans; [exact Hp|apply prefix_top_path].
Qed.

Lemma top_lt stk d l b : chain stk -> In (d, l) stk -> cmpb l b = Lt -> b <> [] ->
  lex (top_path stk) (d ++ [b]) = Lt.
Proof.
  intros Hc Hin Hl Hb. destruct (entry_vs_top _ _ _ Hc Hin) as [[-> ->]|[Hn [y ->]]].
  - apply lex_prefix_lt. discriminate.
  - rewrite <- app_assoc. rewrite lex_app_same. simpl. unfold lex. simpl. fold cmpb. rewrite Hl. reflexivity.
Qed.

Lemma last_lt_from_top stk d l b : chain stk -> In (d, l) stk -> b <> [] ->
  lex (top_path stk) (d ++ [b]) = Lt -> cmpb l b = Lt.
Proof.
  intros Hc Hin Hb Hlt. destruct (entry_vs_top _ _ _ Hc Hin) as [[-> _]|[Hn [y Hy]]].
  - apply cmpb_nil_lt; auto.
  - rewrite Hy, <- app_assoc, lex_app_same in Hlt. simpl in Hlt. eapply lex_cons_single; eauto.
Qed.

Lemma names_last p d b : names_ok p -> p = d ++ [b] -> b <> [].
Proof. intros H ->. unfold names_ok in H. rewrite Forall_forall in H. apply H. apply in_or_app. right. left. auto. Qed.

Lemma top_path_push p stk : top_path ((p, []) :: stk) = p. Proof. reflexivity. Qed.
Lemma top_path_set d b rest : b <> [] -> top_path ((d, b) :: rest) = d ++ [b].
Proof. destruct b; [congruence|reflexivity]. Qed.

(* ---- soundness of one step ---- *)
Lemma cvstep_sound stk acc it stk' :
  Inv stk acc -> names_ok (ipath it) -> cvstep stk it = Some stk' ->
  spec_ok acc it /\ Inv stk' (acc ++ [it]).
Proof.
  intros I Hn Hs. unfold cvstep in Hs.
  destruct (rev (ipath it)) as [|b rd] eqn:Er; [discriminate|].
  pose proof (rev_decomp _ _ _ Er) as Hp. remember (rev rd) as d eqn:Hdd. clear Hdd.
  assert (Hb : b <> []) by (eapply names_last; eauto).
  destruct (cpop d stk) as [|[d' l] rest] eqn:Ep; [discriminate|].
  destruct (lex d' d) eqn:Ed; try discriminate. destruct (cmpb l b) eqn:El; try discriminate.
  apply lex_eq in Ed. subst d'.
  assert (Hin : In (d, l) stk) by (apply (pop_in d); rewrite Ep; left; auto).
  assert (Htop : lex (top_path stk) (ipath it) = Lt) by (rewrite Hp; eapply top_lt; eauto using inv_chain).
  assert (Hall : forall q, In q acc -> lex (ipath q) (ipath it) = Lt).
  { intros q Hq. eapply lex_le_lt_trans; [eapply inv_le; eauto|exact Htop]. }
  assert (Hchain : chain ((d, b) :: rest)).
  { assert (Hc0 : chain (cpop d stk)) by (apply pop_chain; [eapply inv_chain; eauto|rewrite Ep; discriminate]).
    rewrite Ep in Hc0. apply chain_set_top with l. exact Hc0. }
  split.
  - split; [rewrite Hp; destruct d; discriminate|]. split; auto.
    rewrite Hp, removelast_last. destruct d as [|n0 d0] eqn:Dd; [left; auto|right].
    destruct (inv_dirs _ _ I _ _ Hin) as (q & Hq1 & Hq2 & Hq3 & Hq4); [discriminate|]. exists q. auto.
  - set (pushdir := negb (del it) && isdir it) in *.
    assert (Htp : top_path stk' = ipath it).
    { inversion Hs. destruct pushdir; [apply top_path_push|rewrite top_path_set; auto]. }
    assert (Hsub : forall e, In e stk' -> e = (ipath it, []) /\ pushdir = true \/ e = (d, b) \/ In e rest).
    { inversion Hs. intros e He. destruct pushdir; simpl in He; intuition. }
    constructor.
    + inversion Hs. destruct pushdir; auto. rewrite Hp. apply chain_push; auto.
    + intros q Hq. rewrite Htp. apply in_app_or in Hq. destruct Hq as [Hq|[<-|[]]].
      * rewrite Hall; auto. discriminate. * rewrite lex_refl. discriminate.
    + right. exists it. split; [apply in_or_app; right; left; auto|auto].
    + intros d1 l1 H1 Hne. destruct (Hsub _ H1) as [[E Hpd]|[E|Hr]].
      * inversion E; subst d1 l1. exists it. unfold pushdir in Hpd. apply andb_true_iff in Hpd. destruct Hpd as [Hd1 Hd2].
        apply negb_true_iff in Hd1. split; [apply in_or_app; right; left; auto|auto].
      * inversion E; subst d1 l1. destruct (inv_dirs _ _ I _ _ Hin Hne) as (q & Hq1 & Hq2). exists q. split; [apply in_or_app; auto|auto].
      * assert (In (d1, l1) stk) by (apply (pop_in d); rewrite Ep; right; auto).
        destruct (inv_dirs _ _ I _ _ H Hne) as (q & Hq1 & Hq2). exists q. split; [apply in_or_app; auto|auto].
    + intros q Hq Hd1 Hd2 Hpre. rewrite Htp in Hpre. apply in_app_or in Hq. destruct Hq as [Hq|[<-|[]]].
      * assert (Hne : ipath q <> ipath it) by (intro E; specialize (Hall _ Hq); rewrite E, lex_refl in Hall; discriminate).
        rewrite Hp in Hpre, Hne. pose proof (prefix_of_snoc _ _ _ Hpre Hne) as Hpd.
        assert (Hpt : is_prefix (ipath q) (top_path stk)).
        { eapply prefix_trans; [exact Hpd|]. eapply chain_dir_prefix; eauto using inv_chain. }
        destruct (inv_open _ _ I q Hq Hd1 Hd2 Hpt) as [l1 Hl1].
        assert (Hk : In (ipath q, l1) (cpop d stk)) by (apply pop_keeps; auto; simpl; apply prefix_le; auto).
        rewrite Ep in Hk. inversion Hs. destruct Hk as [E|Hk].
        -- inversion E. exists b. destruct pushdir; simpl; auto.
        -- exists l1. destruct pushdir; simpl; auto.
      * exists []. inversion Hs. unfold pushdir. rewrite Hd1, Hd2. simpl. auto.
Qed.

(* ---- completeness of one step ---- *)
Lemma lex_nil_r_not_gt (d : cpath) : lex d [] <> Gt -> d = [].
Proof. destruct d; auto. simpl. congruence. Qed.

Lemma cvstep_complete stk acc it :
  Inv stk acc -> names_ok (ipath it) -> spec_ok acc it -> cvstep stk it <> None.
Proof.
  intros I Hn (Hne & Hall & Hpar). unfold cvstep.
  destruct (rev (ipath it)) as [|b rd] eqn:Er.
  { exfalso. apply Hne. rewrite <- (rev_involutive (ipath it)), Er. reflexivity. }
  pose proof (rev_decomp _ _ _ Er) as Hp. remember (rev rd) as d eqn:Hdd. clear Hdd.
  assert (Hb : b <> []) by (eapply names_last; eauto).
  rewrite Hp, removelast_last in Hpar.
  pose proof (inv_chain _ _ I) as Hc.
  (* L < p *)
  assert (Htop : lex (top_path stk) (d ++ [b]) = Lt).
  { destruct (inv_last _ _ I) as [E|(qL & HqL & EL)].
    - rewrite E. destruct d; reflexivity.
    - rewrite <- EL, <- Hp. auto. }
  (* step 1: d is on the stack *)
  assert (H1 : exists l0, In (d, l0) stk).
  { destruct Hpar as [->|(qd & Hqd & Eqd & Hd1 & Hd2)]; [apply chain_has_root; auto|].
    assert (Hpre : is_prefix d (top_path stk)).
    { pose proof (inv_le _ _ I _ Hqd) as Hle. rewrite Eqd in Hle.
      destruct (lex d (top_path stk)) eqn:E; try congruence.
      - apply lex_eq in E. rewrite <- E. exists []. rewrite app_nil_r; auto.
      - destruct (lex_between _ _ _ E Htop) as (l & y & Hy & _). exists (l :: y). auto. }
    rewrite <- Eqd in Hpre. destruct (inv_open _ _ I _ Hqd Hd1 Hd2 Hpre) as [l0 Hl0]. rewrite Eqd in Hl0. eauto. }
  destruct H1 as [l0 Hl0].
  (* step 2: after popping, d is the top *)
  assert (Hk : In (d, l0) (cpop d stk)) by (apply pop_keeps; auto; simpl; rewrite lex_refl; discriminate).
  destruct (cpop d stk) as [|[d' l] rest] eqn:Ep; [destruct Hk|].
  pose proof (pop_top_le _ _ _ _ _ Ep) as Hle.
  assert (Hc0 : chain (cpop d stk)) by (apply pop_chain; auto; rewrite Ep; discriminate).
  rewrite Ep in Hc0.
  assert (Ed : d' = d).
  { destruct Hk as [E|Hk]; [inversion E; auto|].
    destruct (chain_below _ _ _ Hc0 _ _ Hk) as [_ [y Hy]].
    exfalso. apply Hle. rewrite lex_opp. rewrite Hy, <- app_assoc, lex_prefix_lt; [reflexivity|discriminate]. }
  subst d'. rewrite lex_refl.
  (* step 3: last child < b *)
  assert (Hin : In (d, l) stk) by (apply (pop_in d); rewrite Ep; left; auto).
  rewrite (last_lt_from_top _ _ _ _ Hc Hin Hb Htop). discriminate.
Qed.

(* ---- whole sequences ---- *)
Fixpoint crun (stk : list entry) (its : list item) (i : nat) : option nat :=
  match its with
  | [] => None
  | it :: r => match cvstep stk it with None => Some i | Some stk' => crun stk' r (S i) end
  end.

Inductive cspec_run : list item -> list item -> nat -> option nat -> Prop :=
| sr_nil acc i : cspec_run acc [] i None
| sr_bad acc it r i : ~ spec_ok acc it -> cspec_run acc (it :: r) i (Some i)
| sr_ok acc it r i res : spec_ok acc it -> cspec_run (acc ++ [it]) r (S i) res -> cspec_run acc (it :: r) i res.

Lemma inv_init : Inv [([], [])] [].
Proof.
  constructor; simpl.
  - constructor. - intros q []. - left; auto.
  - intros d l [E|[]] Hne. inversion E; congruence. - intros q [].
Qed.

Theorem validator_iff_spec_core : forall its stk acc i,
  Inv stk acc -> Forall (fun it => names_ok (ipath it)) its ->
  cspec_run acc its i (crun stk its i).
Proof.
  induction its as [|it r IH]; intros stk acc i I Hn; simpl; [constructor|].
  inversion Hn as [|? ? Hn1 Hn2]; subst.
  destruct (cvstep stk it) as [stk'|] eqn:E.
  - destruct (cvstep_sound _ _ _ _ I Hn1 E) as [Hs I']. apply sr_ok; auto.
  - apply sr_bad. intro Hs. eapply cvstep_complete; eauto.
Qed.

Corollary validator_iff_spec : forall its,
  Forall (fun it => names_ok (ipath it)) its -> cspec_run [] its 0 (crun [([], [])] its 0).
Proof. intros. apply validator_iff_spec_core; auto. apply inv_init. Qed.

(* ================= Part 2: string level -> component level ================= *)
Open Scope bool_scope.

Definition citem_of (it : vitem) : item :=
  {| del := vdel it; ipath := comps (vpath it); isdir := visdir it |}.

Definition ce (e : ventry) : entry := (pcomps (fst e), snd e).
Definition okdir (d : list N) : Prop := d = [] \/ okc (comps d).
Definition R (s : list ventry) : Prop := Forall (fun e => okdir (fst e)) s.

Lemma ok_path_okc p : ok_path p = true -> okc (comps p).
Proof.
  unfold ok_path. intros H. repeat (apply andb_true_iff in H; destruct H as [H ?]).
  apply negb_true_iff in H0, H1, H2, H3.
  apply bytes_eqb_eq in H. apply bytes_eqb_neq in H1, H2.
  apply clean_fixpoint_normal; auto.
Qed.

Lemma okc_ok_path cs : okc cs -> ok_path (joinc cs) = true.
Proof.
  intros H. destruct (okc_clean cs H) as [Hc Ha]. destruct (okc_not_special cs H) as (_ & H1 & H2 & H3).
  unfold ok_path. rewrite Hc, bytes_eqb_refl, Ha, H3. apply bytes_eqb_neq in H1, H2. rewrite H1, H2. reflexivity.
Qed.

Lemma okc_snoc_split cs : okc cs -> exists d b, cs = d ++ [b].
Proof. intros (Hne & _). destruct cs as [|x l _] using rev_ind; [congruence|eauto]. Qed.

Lemma okc_single b : okc [b] -> clean b = b.
Proof. intros H. apply (okc_clean [b] H). Qed.

Lemma okc_joinc_nonempty d : d <> [] -> okc d -> joinc d <> [].
Proof. intros _ H. apply (okc_not_special d H). Qed.

Lemma okc_last d b : okc (d ++ [b]) -> normal b /\ nosep b.
Proof.
  intros (_ & Hn & Hs). apply Forall_app in Hn, Hs. destruct Hn as [_ Hn], Hs as [_ Hs].
  inversion Hn; inversion Hs; auto.
Qed.

(* what the lexical part of HandleChange computes on an admissible path *)
Lemma vsplit_ok p : ok_path p = true ->
  exists d b, comps p = d ++ [b] /\ okc (d ++ [b]) /\ p = joinc (d ++ [b]) /\
    vsplit p = Some (joinc d, b) /\ join2 (joinc d) b = p /\ parent_of p = joinc d.
Proof.
  intros Hok. pose proof (ok_path_okc p Hok) as Hc.
  destruct (okc_snoc_split _ Hc) as (d & b & Ed). exists d, b.
  assert (Ep : p = joinc (d ++ [b])) by (rewrite <- Ed, joinc_comps; reflexivity).
  rewrite Ed in Hc. split; auto. split; auto. split; auto.
  destruct (okc_last _ _ Hc) as [(Hbne & Hbd & Hbdd) Hbs].
  assert (Hdir : dir p = match d with [] => s_dot | _ => joinc d end) by (rewrite Ep; apply dir_joinc; auto).
  assert (Hbase : base p = b) by (rewrite Ep; apply base_joinc; auto).
  assert (Hd' : (if bytes_eqb (dir p) s_dot then [] else dir p) = joinc d /\ bytes_eqb (joinc d) s_dotdot = false).
  { rewrite Hdir. destruct d as [|c d']; [split; reflexivity|].
    assert (Hokd : okc (c :: d')) by (eapply okc_prefix; eauto; discriminate).
    destruct (okc_not_special _ Hokd) as (_ & H1 & H2 & _).
    apply bytes_eqb_neq in H1, H2. rewrite H1, H2. split; reflexivity. }
  destruct Hd' as [Hd' Hdd].
  unfold ok_path in Hok. repeat (apply andb_true_iff in Hok; destruct Hok as [Hok ?]).
  match goal with H : negb (has_prefix _ _) = true |- _ => apply negb_true_iff in H; rename H into Hpre end.
  match goal with H : negb (bytes_eqb p s_dotdot) = true |- _ => apply negb_true_iff in H; rename H into Hpdd end.
  match goal with H : negb (bytes_eqb p s_dot) = true |- _ => apply negb_true_iff in H; rename H into Hpd end.
  match goal with H : negb (is_abs p) = true |- _ => apply negb_true_iff in H; rename H into Habs end.
  split; [|split].
  - unfold vsplit. rewrite Hok, Habs. cbn [negb]. rewrite Hd', Hbase, Hpd, Hpdd, Hdd, Hpre. reflexivity.
  - destruct d as [|c d'].
    + simpl joinc in *. unfold join2. destruct b as [|b0 b']; [congruence|].
      rewrite Ep. apply okc_single. auto.
    + assert (Hokd : okc (c :: d')) by (eapply okc_prefix; eauto; discriminate).
      pose proof (okc_joinc_nonempty (c :: d') ltac:(discriminate) Hokd) as Hj.
      unfold join2. destruct (joinc (c :: d')) as [|j0 j] eqn:Ej; [congruence|].
      destruct b as [|b0 b']; [congruence|]. rewrite <- Ej.
      rewrite <- joinc_snoc by discriminate. rewrite <- Ep. apply bytes_eqb_eq in Hok. congruence.
  - unfold parent_of. rewrite Ep. destruct Hc as (_ & _ & Hs). rewrite split_last_joinc by auto.
    destruct d as [|c d']; [reflexivity|]. apply removelast_last.
Qed.

Lemma vsplit_bad p : ok_path p = false -> vsplit p = None.
Proof.
  unfold ok_path, vsplit. intros H.
  destruct (bytes_eqb p (clean p)); [|reflexivity]. cbn [negb].
  destruct (is_abs p); [reflexivity|].
  destruct (bytes_eqb p s_dot); [reflexivity|].
  destruct (bytes_eqb p s_dotdot); [reflexivity|].
  destruct (has_prefix s_dotdotsep p); [|discriminate].
  rewrite !orb_true_r. reflexivity.
Qed.

(* comparison of stack directories *)
Lemma pcomps_joinc d : d = [] \/ okc d -> pcomps (joinc d) = d.
Proof.
  intros [->|H]; [reflexivity|]. pose proof H as (Hne & _ & Hs).
  pose proof (okc_joinc_nonempty d Hne H) as Hj. unfold pcomps.
  destruct (joinc d) eqn:E; [congruence|]. rewrite <- E. apply comps_joinc; auto.
Qed.

Lemma joinc_pcomps d : joinc (pcomps d) = d.
Proof. destruct d; [reflexivity|]. unfold pcomps. apply joinc_comps. Qed.

Lemma okdir_pcomps d : okdir d -> pcomps d = [] \/ okc (pcomps d).
Proof. intros [->|H]; [left; reflexivity|]. right. destruct d; [destruct H as (_ & Hn & _); inversion Hn as [|? ? (Hx & _) _]; congruence|exact H]. Qed.

Lemma compare_path_pcomps d1 d2 : compare_path d1 d2 = lex (pcomps d1) (pcomps d2).
Proof.
  destruct d1 as [|a d1], d2 as [|b d2]; try reflexivity.
  - unfold pcomps. destruct (comps (b :: d2)) eqn:E; [exfalso; eapply comps_nonempty; eauto|reflexivity].
  - unfold pcomps. destruct (comps (a :: d1)) eqn:E; [exfalso; eapply comps_nonempty; eauto|reflexivity].
  - apply compare_path_lex.
Qed.

Lemma vpop_map d s : map ce (vpop d s) = cpop (pcomps d) (map ce s).
Proof.
  induction s as [|[d' l] r IH]; [reflexivity|].
  simpl. rewrite compare_path_pcomps. destruct (lex (pcomps d') (pcomps d)); auto.
Qed.

Lemma vpop_R d s : R s -> R (vpop d s).
Proof.
  induction s as [|[d' l] r IH]; intros H; [constructor|].
  simpl. destruct (compare_path d' d); auto. inversion H; auto.
Qed.

Lemma pcomps_inj_ok d1 d2 : pcomps d1 = pcomps d2 -> d1 = d2.
Proof. intros H. apply (f_equal joinc) in H. rewrite !joinc_pcomps in H. exact H. Qed.

Lemma bytes_geb_cmpb l b : bytes_geb l b = match cmpb l b with Lt => false | _ => true end.
Proof. unfold bytes_geb. pose proof (cmpb_is_cmp_bytes l b) as E. rewrite <- E. reflexivity. Qed.

Lemma pcomps_nonempty p : p <> [] -> pcomps p = comps p.
Proof. destruct p; [congruence|reflexivity]. Qed.

Lemma cpop_vpop d s : d = [] \/ okc d -> cpop d (map ce s) = map ce (vpop (joinc d) s).
Proof. intros Hd. rewrite vpop_map, (pcomps_joinc d Hd). reflexivity. Qed.

(* one step of the string-level validator is one step of the component-level one *)
Lemma vstep_refines s it : R s -> ok_path (vpath it) = true ->
  match vstep s it with
  | Some s' => cvstep (map ce s) (citem_of it) = Some (map ce s') /\ R s'
  | None => cvstep (map ce s) (citem_of it) = None
  end.
Proof.
  intros HR Hok. destruct (vsplit_ok _ Hok) as (d & b & Ec & Hokc & Ep & Hsp & Hj & _).
  unfold vstep, cvstep. rewrite Hsp. cbn [ipath citem_of]. rewrite Ec, rev_app_distr. cbn [rev app].
  rewrite rev_involutive.
  assert (Hd : d = [] \/ okc d).
  { destruct d as [|c d']; [left; auto|right; eapply okc_prefix; eauto; discriminate]. }
  rewrite (cpop_vpop d s Hd).
  pose proof (vpop_R (joinc d) s HR) as HR'.
  destruct (vpop (joinc d) s) as [|[d' l] rest]; [reflexivity|].
  cbn [map ce fst snd].
  destruct (bytes_eqb (joinc d) d') eqn:Ed.
  - apply bytes_eqb_eq in Ed. subst d'. rewrite (pcomps_joinc d Hd), lex_refl. cbn [negb orb].
    rewrite bytes_geb_cmpb. destruct (cmpb l b); try reflexivity.
    cbn [del isdir citem_of]. rewrite Hj.
    inversion HR' as [|? ? Hd1 Hrest]; subst.
    destruct (negb (vdel it) && visdir it).
    + split.
      * unfold ce. cbn [map fst snd]. rewrite (pcomps_joinc d Hd).
        assert (Hne : vpath it <> []) by (rewrite Ep; apply (okc_not_special _ Hokc)).
        rewrite (pcomps_nonempty _ Hne), Ec. reflexivity.
      * constructor; [|constructor; auto]. cbn [fst]. right. rewrite Ec. exact Hokc.
    + split; [unfold ce; cbn [map fst snd]; rewrite (pcomps_joinc d Hd); reflexivity|constructor; auto].
  - cbn [negb orb].
    destruct (lex (pcomps d') d) eqn:El; try reflexivity.
    apply lex_eq in El. exfalso. apply bytes_eqb_neq in Ed. apply Ed.
    rewrite <- El. apply joinc_pcomps.
Qed.

(* ================= Part 3: the executable specification and the theorem ================= *)
Definition okitem (it : vitem) : Prop := ok_path (vpath it) = true.

Lemma okitem_names it : okitem it -> names_ok (ipath (citem_of it)).
Proof.
  intros H. apply ok_path_okc in H. destruct H as (_ & Hn & _). unfold names_ok. cbn [ipath citem_of].
  eapply Forall_impl; [|exact Hn]. intros c (Hc & _). exact Hc.
Qed.

Lemma path_ltb_lex p q : path_ltb p q = true <-> lex (comps p) (comps q) = Lt.
Proof. unfold path_ltb. rewrite compare_path_lex. destruct (lex (comps p) (comps q)); split; congruence. Qed.

Lemma spec_reflect acc it : okitem it ->
  (spec_ok_b acc it = true <-> spec_ok (map citem_of acc) (citem_of it)).
Proof.
  intros Hok. destruct (vsplit_ok _ Hok) as (d & b & Ec & Hokc & Ep & _ & _ & Hpar).
  assert (Hd : d = [] \/ okc d).
  { destruct d as [|c d']; [left; auto|right; eapply okc_prefix; eauto; discriminate]. }
  assert (Hrl : removelast (ipath (citem_of it)) = d) by (cbn [ipath citem_of]; rewrite Ec; apply removelast_last).
  unfold spec_ok_b, spec_ok. rewrite Hok, Hrl, Hpar. cbn [andb]. split.
  - intros H. apply andb_true_iff in H. destruct H as [H1 H2]. split; [|split].
    + cbn [ipath citem_of]. apply comps_nonempty.
    + intros q Hq. apply in_map_iff in Hq. destruct Hq as (q0 & <- & Hq0).
      rewrite forallb_forall in H1. cbn [ipath citem_of]. apply path_ltb_lex. auto.
    + destruct Hd as [->|Hd]; [left; reflexivity|].
      apply orb_true_iff in H2. destruct H2 as [H2|H2].
      * exfalso. apply bytes_eqb_eq in H2. eapply okc_joinc_nonempty; eauto. destruct Hd; auto.
      * right. apply existsb_exists in H2. destruct H2 as (q0 & Hq0 & H2).
        apply andb_true_iff in H2. destruct H2 as [H2 H3]. apply andb_true_iff in H2. destruct H2 as [H2 H4].
        apply bytes_eqb_eq in H2. apply negb_true_iff in H4.
        exists (citem_of q0). split; [apply in_map; auto|]. cbn [ipath del isdir citem_of].
        split; [|auto]. rewrite H2. apply comps_joinc; apply Hd.
  - intros (_ & H1 & H2). apply andb_true_iff. split.
    + apply forallb_forall. intros q Hq. apply path_ltb_lex.
      apply (H1 (citem_of q)). apply in_map; auto.
    + apply orb_true_iff. destruct H2 as [->|(q & Hq & Hq1 & Hq2 & Hq3)]; [left; reflexivity|].
      right. apply in_map_iff in Hq. destruct Hq as (q0 & <- & Hq0). cbn [ipath del isdir citem_of] in *.
      apply existsb_exists. exists q0. split; auto.
      rewrite Hq2, Hq3. cbn [negb andb]. rewrite !andb_true_r. apply bytes_eqb_eq.
      rewrite <- Hq1. symmetry. apply joinc_comps.
Qed.

Lemma validator_eq_spec_gen its : forall s acc i,
  R s -> Inv (map ce s) (map citem_of acc) -> vrun s its i = spec_run acc its i.
Proof.
  induction its as [|it r IH]; intros s acc i HR HI; [reflexivity|].
  cbn [vrun spec_run].
  destruct (ok_path (vpath it)) eqn:Hok.
  - pose proof (vstep_refines s it HR Hok) as Href.
    pose proof (spec_reflect acc it Hok) as Hspec.
    pose proof (okitem_names it Hok) as Hnames.
    destruct (vstep s it) as [s'|] eqn:Es.
    + destruct Href as [Hcv HR'].
      destruct (cvstep_sound _ _ _ _ HI Hnames Hcv) as [Hs HI'].
      apply Hspec in Hs. rewrite Hs. apply IH; auto. rewrite map_app. exact HI'.
    + destruct (spec_ok_b acc it) eqn:Eb; [|reflexivity].
      exfalso. destruct Hspec as [Hs1 _]. specialize (Hs1 eq_refl). eapply cvstep_complete; eauto.
  - unfold vstep. rewrite (vsplit_bad _ Hok). unfold spec_ok_b. rewrite Hok. reflexivity.
Qed.

Theorem validator_accepts_iff_spec_proof its : run_validator its = spec_first_bad its.
Proof.
  unfold run_validator, spec_first_bad. apply validator_eq_spec_gen.
  - constructor; [left; reflexivity|constructor].
  - exact inv_init.
Qed.
