(* Refinement LTS (sender side) -> sender acceptor, part 1: list / association-list helpers,
   the bookkeeping of requested ids ("tasks"), and the simulation invariant. *)
From Coq Require Import List NArith Bool Arith PeanoNat Lia ZifyN ZifyNat ZifyBool Permutation.
From FS Require Import Model.Lts.
From FS Require Import Sx Model.Path Model.Stat Model.Tree Model.AccEvents Model.SenderAcc Model.LtsAcc
     Proofs.AccEventsP.
Import ListNotations.
Local Open Scope nat_scope.

(* ---------- small helpers ---------- *)
Lemma xattrs_eqb_refl : forall a, xattrs_eqb a a = true.
Proof. induction a as [|[k v] a IH]; cbn; [reflexivity|]. rewrite !bytes_eqb_refl, IH. reflexivity. Qed.

Lemma stat_eqb_refl : forall s, stat_eqb s s = true.
Proof. intros s. unfold stat_eqb. rewrite !bytes_eqb_refl, !N.eqb_refl, xattrs_eqb_refl. reflexivity. Qed.

Lemma split_nth : forall A (l : list A) j w, nth_error l j = Some w ->
  exists l1 l2, l = l1 ++ w :: l2 /\ forall x, set_nth j x l = l1 ++ x :: l2.
Proof.
  induction l as [|a l IH]; destruct j; cbn; intros w H; try discriminate.
  - inversion H; subst. exists [], l. split; [reflexivity|]. intros; reflexivity.
  - destruct (IH _ _ H) as (l1 & l2 & E & F). exists (a :: l1), l2. split.
    + cbn. f_equal. exact E.
    + intros x. cbn. f_equal. apply F.
Qed.

Lemma skipn_nth_cons : forall A (l : list A) c d, c < length l -> skipn c l = nth c l d :: skipn (S c) l.
Proof.
  induction l as [|a l IH]; intros c d H; cbn in H; [lia|].
  destruct c; [reflexivity|]. cbn [skipn nth]. apply IH. lia.
Qed.

Lemma memb_cons : forall x y l, memb x (y :: l) = (x =? y) || memb x l.
Proof. reflexivity. Qed.

Lemma memb_remb : forall x y l, memb x (remb y l) = negb (y =? x) && memb x l.
Proof.
  intros x y l. unfold memb, remb. induction l as [|a l IH]; cbn; [rewrite andb_false_r; reflexivity|].
  destruct (Nat.eqb_spec y a); cbn.
  - subst. rewrite IH. destruct (Nat.eqb_spec x a); cbn.
    + subst. rewrite Nat.eqb_refl. reflexivity.
    + reflexivity.
  - rewrite IH. destruct (Nat.eqb_spec x a); cbn.
    + subst. destruct (Nat.eqb_spec y a); [congruence|reflexivity].
    + reflexivity.
Qed.

(* key-unique association lists *)
Lemma nlookup_all_done : forall (m : list (N * fstatus)),
  NoDup (map fst m) -> (forall n rem, nlookup n m <> Some (Sending rem)) -> SenderAcc.all_done m = true.
Proof.
  induction m as [|[k s] m IH]; intros Hd H; cbn; [reflexivity|].
  inversion Hd as [|? ? Hn Hd']; subst.
  destruct s as [rem|].
  - exfalso. apply (H k rem). cbn. rewrite N.eqb_refl. reflexivity.
  - apply IH; [assumption|]. intros n rem E. apply (H n rem). cbn.
    destruct (N.eqb_spec n k); [|assumption]. subst. apply nlookup_in in E.
    exfalso. apply Hn. apply (in_map fst) in E. exact E.
Qed.

(* ---------- tasks: the requested ids that are on their way through the sender ---------- *)
Inductive stage := Full | AtRead (c : nat) | AtLock (c : nat) | AtSend (c : nat) | AtFin | AtSendFin.

Definition wk_task (w : wkpc) : list (nat * stage) :=
  match w with
  | WK_Ctx h | WK_Open h => [(h, Full)]
  | WK_Read h c => [(h, AtRead c)]
  | WK_Lock h c => [(h, AtLock c)]
  | WK_Send h c => [(h, AtSend c)]
  | WK_LockFin h => [(h, AtFin)]
  | WK_SendFin h => [(h, AtSendFin)]
  | WK_Idle | WK_Done => []
  end.
Definition rq_task (q : rqpc) : list (nat * stage) :=
  match q with RQ_Push id => [(id, Full)] | _ => [] end.
Definition pipe_tasks (l : list nat) : list (nat * stage) := map (fun id => (id, Full)) l.
Definition tasks (st : Lts.state) : list (nat * stage) :=
  rq_task (rq_pc st) ++ pipe_tasks (pipe st) ++ flat_map wk_task (wks st).

Section Tasks.
  Variable ch : nat -> list bytes.

  Definition stage_ok (h : nat) (s : stage) (f : fstatus) : Prop :=
    match s with
    | Full => f = Sending (concat (ch h))
    | AtRead c => c <= length (ch h) /\ f = Sending (concat (skipn c (ch h)))
    | AtLock c => c < length (ch h) /\ f = Sending (concat (skipn c (ch h)))
    | AtSend c => c < length (ch h) /\ f = Sending (concat (skipn (S c) (ch h)))
    | AtFin => f = Sending []
    | AtSendFin => f = Done
    end.
  Definition task_ok (m : list (N * fstatus)) (t : nat * stage) : Prop :=
    exists f, nlookup (N.of_nat (fst t)) m = Some f /\ stage_ok (fst t) (snd t) f.

  Lemma task_ok_cons : forall m n f t, nlookup n m = None -> task_ok m t -> task_ok ((n, f) :: m) t.
  Proof.
    intros m n f t Hn (g & Hl & Hs). exists g. split; [|assumption]. cbn.
    destruct (N.eqb_spec (N.of_nat (fst t)) n); [|assumption]. subst. congruence.
  Qed.

  Lemma task_ok_upd : forall m h f t, fst t <> h -> task_ok m t -> task_ok (nupdate (N.of_nat h) f m) t.
  Proof.
    intros m h f t Hne (g & Hl & Hs). exists g. split; [|assumption].
    rewrite nlookup_nupdate_other; [assumption|]. intros E. apply Nat2N.inj in E. congruence.
  Qed.

  Definition tasks_ok (m : list (N * fstatus)) (T : list (nat * stage)) : Prop :=
    Forall (task_ok m) T /\ NoDup (map fst T).

  Lemma tasks_ok_perm : forall m T T', Permutation T T' -> tasks_ok m T -> tasks_ok m T'.
  Proof.
    intros m T T' HP [HF HN]. split.
    - eapply Permutation_Forall; eauto.
    - eapply Permutation_NoDup; [apply Permutation_map; exact HP|assumption].
  Qed.

  Lemma tasks_ok_in_some : forall m T h s, tasks_ok m T -> In (h, s) T -> nlookup (N.of_nat h) m <> None.
  Proof.
    intros m T h s [HF _] Hin. rewrite Forall_forall in HF. destruct (HF _ Hin) as (f & Hl & _).
    cbn in Hl. congruence.
  Qed.

  (* a new request *)
  Lemma tasks_ok_add : forall m T h f,
    tasks_ok m T -> nlookup (N.of_nat h) m = None -> f = Sending (concat (ch h)) ->
    tasks_ok ((N.of_nat h, f) :: m) ((h, Full) :: T).
  Proof.
    intros m T h f HT Hn Hf. pose proof HT as [HF HN]. split.
    - constructor.
      + exists f. cbn. rewrite N.eqb_refl. split; [reflexivity|exact Hf].
      + eapply Forall_impl; [|exact HF]. intros t. apply task_ok_cons. exact Hn.
    - cbn. constructor; [|assumption]. intros Hin. apply in_map_iff in Hin. destruct Hin as ([h' s] & E & Hin).
      cbn in E. subst h'. eapply tasks_ok_in_some in Hin; eauto.
  Qed.

  (* the acceptor learns about an id that is not on its way (a request the LTS refused) *)
  Lemma tasks_ok_cons_other : forall m T n f, tasks_ok m T -> nlookup n m = None -> tasks_ok ((n, f) :: m) T.
  Proof.
    intros m T n f [HF HN] Hn. split; [|assumption].
    eapply Forall_impl; [|exact HF]. intros t. apply task_ok_cons. exact Hn.
  Qed.

  (* the task of h moves to another stage, the acceptor's entry for h changes accordingly *)
  Lemma tasks_ok_replace : forall m T1 T2 h s s' f',
    tasks_ok m (T1 ++ (h, s) :: T2) -> stage_ok h s' f' ->
    tasks_ok (nupdate (N.of_nat h) f' m) (T1 ++ (h, s') :: T2).
  Proof.
    intros m T1 T2 h s s' f' [HF HN] Hs.
    rewrite map_app in HN. cbn in HN. pose proof (NoDup_remove_2 _ _ _ HN) as Hnot.
    assert (Hl : nlookup (N.of_nat h) m <> None).
    { rewrite Forall_forall in HF. destruct (HF (h, s)) as (f & Hl & _); [apply in_or_app; right; left; reflexivity|].
      cbn in Hl. congruence. }
    split.
    - apply Forall_app in HF. destruct HF as [HF1 HF2]. inversion HF2 as [|? ? _ HF2']; subst.
      apply Forall_app. split; [|constructor].
      + rewrite Forall_forall in *. intros t Hin. apply task_ok_upd; [|auto].
        intros E. apply Hnot. apply in_or_app. left. rewrite <- E. apply in_map. exact Hin.
      + exists f'. cbn. split; [apply nlookup_nupdate_same; exact Hl|exact Hs].
      + rewrite Forall_forall in *. intros t Hin. apply task_ok_upd; [|auto].
        intros E. apply Hnot. apply in_or_app. right. rewrite <- E. apply in_map. exact Hin.
    - rewrite map_app. cbn. exact HN.
  Qed.

  (* the task of h moves to another stage with the same acceptor entry *)
  Lemma tasks_ok_restage : forall m T1 T2 h s s',
    tasks_ok m (T1 ++ (h, s) :: T2) ->
    (forall f, stage_ok h s f -> stage_ok h s' f) ->
    tasks_ok m (T1 ++ (h, s') :: T2).
  Proof.
    intros m T1 T2 h s s' [HF HN] Hs. split.
    - apply Forall_app in HF. destruct HF as [HF1 HF2]. inversion HF2 as [|? ? (f & Hl & Hf) HF2']; subst.
      apply Forall_app. split; [assumption|constructor; [|assumption]].
      exists f. split; [exact Hl|apply Hs; exact Hf].
    - rewrite map_app in *. cbn in *. exact HN.
  Qed.

  Lemma tasks_ok_remove : forall m T1 T2 t, tasks_ok m (T1 ++ t :: T2) -> tasks_ok m (T1 ++ T2).
  Proof.
    intros m T1 T2 t [HF HN]. split.
    - apply Forall_app in HF. destruct HF as [HF1 HF2]. inversion HF2; subst. apply Forall_app. split; assumption.
    - rewrite map_app in *. cbn in HN. eapply NoDup_remove_1; eauto.
  Qed.

  Lemma tasks_ok_lookup : forall m T1 T2 h s, tasks_ok m (T1 ++ (h, s) :: T2) ->
    exists f, nlookup (N.of_nat h) m = Some f /\ stage_ok h s f.
  Proof.
    intros m T1 T2 h s [HF _]. rewrite Forall_forall in HF. apply (HF (h, s)). apply in_or_app. right. left. reflexivity.
  Qed.

  (* once the task of h is gone, h is not on its way any more *)
  Lemma tasks_ok_removed_notin : forall m T1 T2 h s, tasks_ok m (T1 ++ (h, s) :: T2) -> ~ In h (map fst (T1 ++ T2)).
  Proof. intros m T1 T2 h s [_ HN]. rewrite map_app in *. cbn in HN. apply NoDup_remove_2 in HN. exact HN. Qed.
End Tasks.

(* the workers' part of the task list when worker j changes *)
Lemma wks_tasks_split : forall (l : list wkpc) j w, nth_error l j = Some w ->
  exists l1 l2, l = l1 ++ w :: l2 /\ (forall x, set_nth j x l = l1 ++ x :: l2) /\
    (forall x, flat_map wk_task (l1 ++ x :: l2) = flat_map wk_task l1 ++ wk_task x ++ flat_map wk_task l2).
Proof.
  intros l j w H. destruct (split_nth _ l j w H) as (l1 & l2 & E & F). exists l1, l2. split; [exact E|]. split; [exact F|].
  intros x. rewrite flat_map_app. reflexivity.
Qed.

(* ---------- the simulation invariant ---------- *)
Section Inv.
  Variable p : Lts.params.
  Variable exp : list Tree.entry.
  Variable ch : nat -> list bytes.

  Definition acc_bad (a : sstate) : Prop := SenderAcc.s_err a = true \/ s_soft a = true.

  (* number of STATs whose SendMsg has been called / number of entries registered in files[] *)
  Definition acc_k (st : Lts.state) : nat :=
    match sw_pc st with SW_Send KStat => S (sw_i st) | _ => sw_i st end.
  Definition reg (st : Lts.state) : nat :=
    match sw_pc st with SW_Lock KStat | SW_Send KStat => S (sw_i st) | _ => sw_i st end.
  Definition rq_live (st : Lts.state) : bool :=
    match rq_pc st with RQ_Top | RQ_Recv | RQ_Push _ => true | _ => false end.
  Definition rq_failed (st : Lts.state) : bool :=
    match rq_pc st with RQ_Close false | RQ_Ret false => true | _ => false end.
  Definition lts_bad (st : Lts.state) : Prop := Lts.s_err st = true \/ rq_failed st = true.

  Definition walker_rel (st : Lts.state) (a : sstate) : Prop :=
    sw_i st <= length exp /\
    match sw_pc st with
    | SW_Next => s_endm a = false
    | SW_Lock KStat | SW_Send KStat => s_endm a = false /\ sw_i st < length exp
    | SW_Lock KEnd => s_endm a = false /\ sw_i st = length exp
    | SW_Send KEnd => s_endm a = true /\ sw_i st = length exp
    | SW_Lock KErr | SW_Send KErr => acc_bad a
    | SW_Done => s_endm a = true \/ Lts.s_err st = true
    end.

  Definition req_rel (st : Lts.state) (a : sstate) : Prop :=
    match rq_pc st with
    | RQ_Top | RQ_Recv | RQ_Push _ => s_rdclosed a = false /\ s_fin_in a = false /\ s_fin_out a = false
    | RQ_LockFin => s_fin_in a = true /\ s_fin_out a = false
    | RQ_SendFin | RQ_Close true | RQ_Ret true => s_fin_in a = true /\ s_fin_out a = true
    | RQ_Close false | RQ_Ret false => acc_bad a
    | RQ_Done => (s_fin_in a = true /\ s_fin_out a = true) \/ Lts.s_err st = true
    end.

  Definition unrequested (a : sstate) (id : nat) : bool :=
    match nlookup (N.of_nat id) (s_req a) with None => true | Some _ => false end.

  (* files[] while the reader goroutine is alive: registered, requestable, not yet requested *)
  Definition files_rel (st : Lts.state) (a : sstate) : Prop :=
    rq_live st = true ->
    (forall id, memb id (sfiles st) = (id <? reg st) && is_file p id && unrequested a id) /\
    (forall id, reg st <= id -> nlookup (N.of_nat id) (s_req a) = None).

  Record live_inv (st : Lts.state) (a : sstate) : Prop := {
    li_k : s_k a = acc_k st;
    li_walk : walker_rel st a;
    li_req : req_rel st a;
    li_files : files_rel st a;
    li_tasks : tasks_ok ch (s_req a) (tasks st);
    li_keys : NoDup (map fst (s_req a));
    li_sending : forall n rem, nlookup n (s_req a) = Some (Sending rem) ->
                 (exists id, n = N.of_nat id /\ In id (map fst (tasks st))) \/ lts_bad st;
    li_cancel : s_cancel st = true -> acc_bad a;
    li_err : Lts.s_err st = true -> acc_bad a;
    li_acc_err : SenderAcc.s_err a = true -> lts_bad st;
    li_closed : pipe_closed st = true -> match rq_pc st with RQ_Ret _ | RQ_Done => True | _ => False end;
    li_wdone : (exists j, nth_error (wks st) j = Some WK_Done) ->
               (pipe st = [] /\ pipe_closed st = true) \/ Lts.s_err st = true;
    li_nwk : length (wks st) = p_W p;
    li_prog : s_prog a = 0%N /\ s_final a = false /\ s_ret a = None
  }.

  Definition inv (st : Lts.state) (a : sstate) : Prop :=
    s_broken st = false /\
    match send_ret st with
    | None => live_inv st a
    | Some b => s_ret a = Some b /\ sender_quiet st = true
    end.

  (* the invariant only looks at the sender's part of the state *)
  Definition same_sender (st st' : Lts.state) : Prop :=
    sw_pc st' = sw_pc st /\ sw_i st' = sw_i st /\ wks st' = wks st /\ rq_pc st' = rq_pc st /\
    pipe st' = pipe st /\ pipe_closed st' = pipe_closed st /\ sfiles st' = sfiles st /\
    s_cancel st' = s_cancel st /\ Lts.s_err st' = Lts.s_err st /\ send_ret st' = send_ret st /\
    s_broken st' = s_broken st.

  Lemma inv_frame : forall st st' a, same_sender st st' -> inv st a -> inv st' a.
  Proof.
    intros st st' a (E1 & E2 & E3 & E4 & E5 & E6 & E7 & E8 & E9 & E10 & E11) [Hb H].
    split; [rewrite E11; exact Hb|]. rewrite E10. destruct (send_ret st).
    - destruct H as [H1 H2]. split; [exact H1|].
      unfold sender_quiet, sw_is_done, rq_is_done in *. rewrite E1, E4, E3. exact H2.
    - destruct H. constructor;
        unfold acc_k, walker_rel, req_rel, files_rel, reg, rq_live, tasks, lts_bad, rq_failed in *;
        rewrite ?E1, ?E2, ?E3, ?E4, ?E5, ?E6, ?E7, ?E8, ?E9; assumption.
  Qed.
End Inv.
