(* Facts about the pattern model: string helpers, the classification of prefix-only
   patterns, the key lemma behind both SkipDir shortcuts, stability of the incremental
   verdict below a directory. *)
From Coq Require Import List NArith Lia Bool.
From FS Require Import Sx Model.Path Model.Pattern Proofs.Lex Proofs.PathP.
Import ListNotations.
Open Scope N_scope.
Open Scope bool_scope.

(* ---------- prefixes / suffixes ---------- *)
Lemma has_prefix_app_r pre r : has_prefix pre (pre ++ r) = true.
Proof. induction pre as [|a pre IH]; simpl; auto. rewrite N.eqb_refl. exact IH. Qed.

Lemma has_prefix_iff pre s : has_prefix pre s = true <-> exists r, s = pre ++ r.
Proof. split; [apply has_prefix_app|]. intros [r ->]. apply has_prefix_app_r. Qed.

Lemma has_prefix_refl s : has_prefix s s = true.
Proof. rewrite <- (app_nil_r s) at 2. apply has_prefix_app_r. Qed.

Lemma has_prefix_trans a b s : has_prefix a b = true -> has_prefix b s = true -> has_prefix a s = true.
Proof.
  intros H1 H2. apply has_prefix_iff in H1, H2. destruct H1 as [r1 ->], H2 as [r2 ->].
  rewrite <- app_assoc. apply has_prefix_app_r.
Qed.

(* two prefixes of one string are comparable *)
Lemma app_eq_split {A} (a b c d : list A) : a ++ b = c ++ d ->
  (exists r, c = a ++ r /\ b = r ++ d) \/ (exists r, a = c ++ r /\ d = r ++ b).
Proof.
  revert c; induction a as [|x a IH]; intros c H.
  - left. exists c. auto.
  - destruct c as [|y c].
    + right. exists (x :: a). auto.
    + simpl in H. inversion H; subst. destruct (IH _ H2) as [(r & -> & ->)|(r & -> & ->)].
      * left. exists r. auto.
      * right. exists r. auto.
Qed.

Lemma prefix_comparable a b s : has_prefix a s = true -> has_prefix b s = true ->
  has_prefix a b = true \/ has_prefix b a = true.
Proof.
  intros H1 H2. apply has_prefix_iff in H1, H2. destruct H1 as [r1 ->], H2 as [r2 H].
  destruct (app_eq_split _ _ _ _ H) as [(r & -> & _)|(r & -> & _)].
  - left. apply has_prefix_app_r.
  - right. apply has_prefix_app_r.
Qed.

Lemma has_prefix_app_same d a b : has_prefix (d ++ a) (d ++ b) = has_prefix a b.
Proof. induction d as [|x d IH]; simpl; auto. rewrite N.eqb_refl. exact IH. Qed.

Lemma strip_suffix_spec suf s pre : strip_suffix suf s = Some pre <-> s = pre ++ suf.
Proof.
  revert pre; induction s as [|a s IH]; intros pre.
  - simpl. destruct suf as [|b suf]; simpl.
    + split; [intros [= <-]; reflexivity|]. intros H. destruct pre; [reflexivity|discriminate].
    + split; [discriminate|]. intros H. destruct pre; discriminate.
  - cbn [strip_suffix]. destruct (bytes_eqb (a :: s) suf) eqn:E.
    + apply bytes_eqb_eq in E. split.
      * intros [= <-]. auto.
      * intros H. rewrite <- E in H. destruct pre as [|x pre]; [reflexivity|].
        exfalso. apply (f_equal (@length N)) in H. rewrite app_length in H. simpl in H. lia.
    + apply bytes_eqb_neq in E. destruct (strip_suffix suf s) as [pre'|] eqn:Es.
      * assert (Es' : s = pre' ++ suf) by (apply IH; reflexivity). split.
        -- intros [= <-]. simpl. congruence.
        -- intros H. destruct pre as [|x pre]; [simpl in H; congruence|].
           simpl in H. inversion H; subst. f_equal. f_equal.
           apply app_inv_tail in H2. auto.
      * split; [discriminate|]. intros H. destruct pre as [|x pre]; [simpl in H; congruence|].
        simpl in H. inversion H; subst. assert (X : None = Some pre) by (apply IH; auto).
        discriminate.
Qed.

Lemma strip_suffix_none suf s : strip_suffix suf s = None <-> forall pre, s <> pre ++ suf.
Proof.
  split.
  - intros H pre E. apply strip_suffix_spec in E. congruence.
  - intros H. destruct (strip_suffix suf s) eqn:E; auto. apply strip_suffix_spec in E. exfalso. eapply H; eauto.
Qed.

Lemma strip_prefix_spec pre s r : strip_prefix pre s = Some r <-> s = pre ++ r.
Proof.
  revert s; induction pre as [|a pre IH]; intros s; simpl.
  - split; [intros [= <-]|intros ->]; reflexivity.
  - destruct s as [|b s]; [split; discriminate|].
    destruct (N.eqb a b) eqn:E.
    + apply N.eqb_eq in E. subst b. rewrite IH. split; [intros ->; reflexivity|intros [= ->]; reflexivity].
    + apply N.eqb_neq in E. split; [discriminate|]. intros [= -> _]. congruence.
Qed.

Lemma no_sep_nosep s : no_sep s = true <-> nosep s.
Proof.
  unfold no_sep, nosep. rewrite negb_true_iff. split.
  - intros H Hin. assert (X : existsb (N.eqb sep) s = true) by (apply existsb_exists; exists sep; split; auto; apply N.eqb_refl). congruence.
  - intros H. destruct (existsb (N.eqb sep) s) eqn:E; auto. apply existsb_exists in E. destruct E as (x & Hin & Hx).
    apply N.eqb_eq in Hx. subst x. contradiction.
Qed.

(* splitting at the last separator is unique *)
Lemma split_first_unique (s : N) r1 r2 a b : ~ In s r1 -> ~ In s r2 -> r1 ++ s :: a = r2 ++ s :: b -> r1 = r2 /\ a = b.
Proof.
  revert r2; induction r1 as [|x r1 IH]; intros r2 H1 H2 E.
  - destruct r2 as [|y r2]; simpl in E.
    + inversion E. auto.
    + inversion E; subst. exfalso. apply H2. left; auto.
  - destruct r2 as [|y r2]; simpl in E.
    + inversion E; subst. exfalso. apply H1. left; auto.
    + inversion E; subst. destruct (IH r2) as [-> ->]; auto.
      * intro; apply H1; right; auto.
      * intro; apply H2; right; auto.
Qed.

Lemma split_last_unique (s : N) a b r1 r2 : ~ In s r1 -> ~ In s r2 -> a ++ s :: r1 = b ++ s :: r2 -> a = b /\ r1 = r2.
Proof.
  intros H1 H2 E. apply (f_equal (@rev N)) in E. rewrite !rev_app_distr in E. simpl in E.
  rewrite <- !app_assoc in E. simpl in E.
  destruct (split_first_unique s (rev r1) (rev r2) (rev a) (rev b)) as [E1 E2]; auto.
  - rewrite <- in_rev; auto.
  - rewrite <- in_rev; auto.
  - split.
    + rewrite <- (rev_involutive a), <- (rev_involutive b), E2. reflexivity.
    + rewrite <- (rev_involutive r1), <- (rev_involutive r2), E1. reflexivity.
Qed.

(* ---------- classification ---------- *)
Definition kind_lit (k : pkind) : bytes :=
  match k with Lit L | LitStar L | LitStarStar L => L | Glob => [] end.

Lemma trim_suffix_some s suf pre : s = pre ++ suf -> trim_suffix s suf = pre.
Proof. intros H. unfold trim_suffix. apply strip_suffix_spec in H. rewrite H. reflexivity. Qed.

Lemma trim_suffix_none s suf : strip_suffix suf s = None -> trim_suffix s suf = s.
Proof. intros H. unfold trim_suffix. rewrite H. reflexivity. Qed.

Lemma pat_kind_wtg P : pat_kind P <> Glob -> without_trailing_glob P = kind_lit (pat_kind P).
Proof.
  unfold pat_kind. destruct (contains_pattern_chars (without_trailing_glob P)) eqn:Ec; [congruence|].
  intros _. unfold without_trailing_glob.
  destruct (strip_suffix s_sep_starstar P) as [L|] eqn:E1.
  - apply strip_suffix_spec in E1. rewrite (trim_suffix_some _ _ _ E1). simpl.
    assert (Hne : bytes_eqb L P = false).
    { apply bytes_eqb_neq. intro H. apply (f_equal (@length N)) in E1. rewrite H, app_length in E1. simpl in E1. lia. }
    rewrite Hne. reflexivity.
  - rewrite (trim_suffix_none _ _ E1). rewrite bytes_eqb_refl. simpl.
    destruct (strip_suffix s_sep_star P) as [L|] eqn:E2.
    + apply strip_suffix_spec in E2. rewrite (trim_suffix_some _ _ _ E2). reflexivity.
    + rewrite (trim_suffix_none _ _ E2). reflexivity.
Qed.

Lemma prefix_only_kind P : prefix_only P = true <-> pat_kind P <> Glob.
Proof.
  unfold prefix_only, pat_kind. destruct (contains_pattern_chars (without_trailing_glob P)); simpl.
  - split; [discriminate|congruence].
  - split; auto. intros _.
    destruct (strip_suffix s_sep_starstar P); [discriminate|]. destruct (strip_suffix s_sep_star P); discriminate.
Qed.

(* ---------- the key lemma of both shortcuts ----------
   d: the directory the shortcut looks at; x: d or a directory below it; name: a child of x.
   If the literal part of a prefix-only pattern does not reach into d, then the pattern
   cannot start matching at x/name: if it matches there, it already matched x. *)
Definition below (d x : bytes) : Prop := has_prefix (d ++ [sep]) (x ++ [sep]) = true.

Lemma below_refl d : below d d.
Proof. apply has_prefix_refl. Qed.

Lemma below_child d x name : below d x -> below d (x ++ sep :: name).
Proof.
  unfold below. intros H. eapply has_prefix_trans; [exact H|].
  replace ((x ++ sep :: name) ++ [sep]) with ((x ++ [sep]) ++ name ++ [sep]) by (rewrite <- !app_assoc; reflexivity).
  apply has_prefix_app_r.
Qed.

Lemma key_lemma k d x name :
  k <> Glob -> below d x -> nosep name ->
  has_prefix (d ++ [sep]) (kind_lit k ++ [sep]) = false ->
  prefix_match k (x ++ sep :: name) = true -> prefix_match k x = true.
Proof.
  intros Hk Hb Hn Hreach Hm. unfold below in Hb.
  assert (He : has_prefix (d ++ [sep]) (x ++ sep :: name) = true).
  { eapply has_prefix_trans; [exact Hb|].
    replace (x ++ sep :: name) with ((x ++ [sep]) ++ name) by (rewrite <- app_assoc; reflexivity).
    apply has_prefix_app_r. }
  destruct k as [L|L|L|]; [| | |congruence]; simpl in *.
  - (* literal: x/name = L, so L/ = x/name/ has prefix d/ *)
    apply bytes_eqb_eq in Hm. subst L. exfalso.
    assert (X : has_prefix (d ++ [sep]) ((x ++ sep :: name) ++ [sep]) = true).
    { eapply has_prefix_trans; [exact He|]. apply has_prefix_app_r. }
    congruence.
  - (* L/* : x/name = L/c with c separator-free, so L = x *)
    destruct (strip_prefix (L ++ [sep]) (x ++ sep :: name)) as [rest|] eqn:E; [|discriminate].
    apply strip_prefix_spec in E. apply no_sep_nosep in Hm.
    rewrite <- app_assoc in E. simpl in E.
    destruct (split_last_unique sep x L name rest Hn Hm E) as [-> _]. congruence.
  - (* L/** : L/ and d/ are both prefixes of x/name; d/ is not a prefix of L/, so L/ is a
       proper prefix of d/, hence a prefix of x *)
    destruct (prefix_comparable _ _ _ Hm He) as [H|H]; [|congruence].
    assert (H2 : has_prefix (L ++ [sep]) (x ++ [sep]) = true) by (eapply has_prefix_trans; eauto).
    apply has_prefix_iff in H2. destruct H2 as [r Hr].
    destruct r as [|y r] using rev_ind.
    + rewrite app_nil_r in Hr. apply app_inj_tail in Hr. destruct Hr as [-> _]. congruence.
    + rewrite app_assoc in Hr. apply app_inj_tail in Hr. destruct Hr as [-> _]. apply has_prefix_app_r.
Qed.

(* ---------- hypotheses on the external matcher ---------- *)
(* what the proofs assume about Pattern.match for the strings filter.go classifies as
   prefix-only (validated against the real library by harness kind 1003): *)
Definition pmatch_lit (pmatch : bytes -> bytes -> bool) : Prop :=
  forall P q, pat_kind P = Lit P -> pmatch P q = bytes_eqb q P.
Definition pmatch_starstar (pmatch : bytes -> bytes -> bool) : Prop :=
  forall P L q, pat_kind P = LitStarStar L -> pmatch P q = has_prefix (L ++ [sep]) q.
Definition pmatch_star (pmatch : bytes -> bytes -> bool) : Prop :=
  forall P L q, pat_kind P = LitStar L -> regex_safe L = true ->
    pmatch P q = match strip_prefix (L ++ [sep]) q with Some rest => no_sep rest | None => false end.

Definition prefix_semantics (pmatch : bytes -> bytes -> bool) : Prop :=
  pmatch_lit pmatch /\ pmatch_starstar pmatch /\ pmatch_star pmatch.

Lemma pat_kind_lit_self P L : pat_kind P = Lit L -> L = P.
Proof.
  unfold pat_kind. destruct (contains_pattern_chars _); [discriminate|].
  destruct (strip_suffix s_sep_starstar P); [discriminate|]. destruct (strip_suffix s_sep_star P); [discriminate|].
  intros [= <-]. reflexivity.
Qed.

Lemma prefix_semantics_eq pmatch P q : prefix_semantics pmatch ->
  pat_kind P <> Glob -> kind_safe (pat_kind P) = true -> pmatch P q = prefix_match (pat_kind P) q.
Proof.
  intros (H1 & H2 & H3) Hk Hs. destruct (pat_kind P) as [L|L|L|] eqn:E; [| | |congruence]; simpl in *.
  - pose proof (pat_kind_lit_self _ _ E) as ->. apply H1; auto.
  - apply H3; auto.
  - apply H2; auto.
Qed.

Lemma lit_pmatch_prefix_semantics g : prefix_semantics (lit_pmatch g).
Proof.
  unfold lit_pmatch. repeat split.
  - intros P q E. rewrite E. reflexivity.
  - intros P L q E. rewrite E. reflexivity.
  - intros P L q E _. rewrite E. reflexivity.
Qed.

(* key lemma phrased for the matcher *)
Lemma pmatch_key pmatch P d x name : prefix_semantics pmatch ->
  prefix_only P = true -> kind_safe (pat_kind P) = true ->
  below d x -> nosep name ->
  has_prefix (d ++ [sep]) (without_trailing_glob P ++ [sep]) = false ->
  pmatch P (x ++ sep :: name) = true -> pmatch P x = true.
Proof.
  intros Hsem Hpo Hsafe Hb Hn Hreach Hm. apply prefix_only_kind in Hpo.
  rewrite (prefix_semantics_eq pmatch P (x ++ sep :: name) Hsem Hpo Hsafe) in Hm.
  rewrite (prefix_semantics_eq pmatch P x Hsem Hpo Hsafe).
  rewrite (pat_kind_wtg P Hpo) in Hreach. exact (key_lemma (pat_kind P) d x name Hpo Hb Hn Hreach Hm).
Qed.

(* ---------- stability of the incremental verdict ---------- *)
Section Incr.
Variable pmatch : bytes -> bytes -> bool.

Lemma incr_go_length pats : forall parent hi file m, length (snd (incr_go pmatch pats parent hi file m)) = length pats.
Proof.
  induction pats as [|P ps IH]; intros; simpl; auto.
  destruct (incr_go pmatch ps (tl parent) hi file _) eqn:E. simpl.
  specialize (IH (tl parent) hi file (if incr_m pmatch P (hi && hd false parent) hi file m then negb (p_excl P) else m)).
  rewrite E in IH. simpl in IH. congruence.
Qed.

(* x evaluated somehow (parent info px, flag hx); e evaluated with x's info.  If the final
   verdict at x is b and no pattern with exclusion flag b matches e without matching x,
   the final verdict at e is b. *)
Lemma incr_go_stable (b : bool) x e pats : forall px hx mx me,
  (forall P, In P pats -> p_excl P = b -> pmatch (p_str P) e = true -> pmatch (p_str P) x = true) ->
  (mx = b -> me = b) ->
  fst (incr_go pmatch pats px hx x mx) = b ->
  fst (incr_go pmatch pats (snd (incr_go pmatch pats px hx x mx)) true e me) = b.
Proof.
  induction pats as [|P ps IH]; intros px hx mx me Hd Hinv Hx.
  - simpl in *. auto.
  - cbn [incr_go] in *.
    set (m_x := incr_m pmatch P (hx && hd false px) hx x mx) in *.
    set (mx' := if m_x then negb (p_excl P) else mx) in *.
    destruct (incr_go pmatch ps (tl px) hx x mx') as [rx infox] eqn:Ex.
    cbn [snd fst hd tl] in *. rewrite andb_true_l.
    set (m_e := incr_m pmatch P m_x true e me).
    set (me' := if m_e then negb (p_excl P) else me).
    specialize (IH (tl px) hx mx' me').
    rewrite Ex in IH. cbn [snd fst] in IH.
    destruct (incr_go pmatch ps infox true e me') as [re infoe] eqn:Ee. cbn [fst] in *.
    apply IH; auto.
    + intros Q HQ. apply Hd. right; auto.
    + (* invariant step *)
      subst mx' me' m_e. unfold incr_m at 1. destruct m_x eqn:Emx.
      * auto.
      * intros Hmx. specialize (Hinv Hmx). subst me.
        destruct (negb (eqb (p_excl P) b)) eqn:Esk; [reflexivity|].
        rewrite negb_false_iff in Esk. apply eqb_prop in Esk.
        cbn [negb andb orb]. rewrite orb_false_r.
        destruct (pmatch (p_str P) e) eqn:Epe; [|reflexivity].
        (* then P matches x and was evaluated at x: contradiction with m_x = false *)
        exfalso. assert (Hpx : pmatch (p_str P) x = true) by (apply Hd; auto; left; auto).
        subst m_x. unfold incr_m in Emx.
        destruct (hx && hd false px); [discriminate|].
        rewrite Hmx, Esk, eqb_reflx in Emx. simpl in Emx. rewrite Hpx in Emx. discriminate.
Qed.

Lemma incr_eval_info_nonempty pats x px : pats <> [] -> is_nil (snd (incr_eval pmatch pats x px)) = false.
Proof.
  intros H. unfold incr_eval.
  pose proof (incr_go_length pats px (negb (is_nil px)) x false) as L.
  destruct (snd (incr_go pmatch pats px (negb (is_nil px)) x false)); [|reflexivity].
  destruct pats; [congruence|discriminate].
Qed.

Lemma incr_stable (b : bool) pats x px e :
  (forall P, In P pats -> p_excl P = b -> pmatch (p_str P) e = true -> pmatch (p_str P) x = true) ->
  fst (incr_eval pmatch pats x px) = b ->
  fst (incr_eval pmatch pats e (snd (incr_eval pmatch pats x px))) = b.
Proof.
  intros Hd Hx. destruct pats as [|P ps].
  - unfold incr_eval in *. simpl in *. auto.
  - unfold incr_eval at 1. rewrite incr_eval_info_nonempty by discriminate. cbn [negb].
    unfold incr_eval in *. apply incr_go_stable; auto.
Qed.
End Incr.
