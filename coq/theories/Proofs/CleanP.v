(* Lexical clamping: Clean of a rooted path never contains a ".." component
   (rule 4 of filepath.Clean).  Used by C14: copy.rootPath starts with
   filepath.Join("/", p), so no path argument can climb above its root lexically. *)
From Coq Require Import List NArith Lia Bool.
From FS Require Import Sx Model.Path Proofs.Lex Proofs.PathP.
Import ListNotations.
Open Scope bool_scope.

Definition good_comp (c : list N) : Prop := c <> s_dotdot /\ nosep c.

Lemma cstep_rooted_good stk c :
  Forall good_comp stk -> nosep c -> Forall good_comp (cstep true stk c).
Proof.
  intros Hs Hc. unfold cstep.
  destruct (bytes_eqb c [] || bytes_eqb c s_dot); auto.
  destruct (bytes_eqb c s_dotdot) eqn:E.
  - destruct stk as [|t r]; auto. inversion Hs; subst.
    destruct (bytes_eqb t s_dotdot) eqn:Et; auto.
    apply bytes_eqb_eq in Et. destruct H1 as [H1 _]. congruence.
  - constructor; auto. split; auto. apply bytes_eqb_neq; auto.
Qed.

Lemma fold_cstep_rooted_good cs stk :
  Forall good_comp stk -> Forall nosep cs -> Forall good_comp (fold_left (cstep true) cs stk).
Proof.
  revert stk; induction cs as [|c cs IH]; intros stk Hs Hc; [exact Hs|].
  inversion Hc; subst. simpl. apply IH; auto. apply cstep_rooted_good; auto.
Qed.

Theorem clean_rooted_no_dotdot_proof p :
  is_abs (clean (sep :: p)) = true /\
  forall c, In c (comps (clean (sep :: p))) -> c <> s_dotdot.
Proof.
  unfold clean. assert (Habs : is_abs (sep :: p) = true) by reflexivity.
  rewrite Habs. split; [reflexivity|].
  set (stk := fold_left (cstep true) (comps (sep :: p)) []).
  assert (Hg : Forall good_comp stk).
  { apply fold_cstep_rooted_good; [constructor|apply comps_all_nosep]. }
  intros c Hin.
  change (sep :: joinc (rev stk)) with ([] ++ sep :: joinc (rev stk)) in Hin.
  rewrite comps_app_sep in Hin by (intros []).
  destruct Hin as [<-|Hin]; [discriminate|].
  destruct (rev stk) as [|x xs] eqn:Er.
  - simpl in Hin. destruct Hin as [<-|[]]. discriminate.
  - rewrite comps_joinc in Hin.
    + rewrite <- Er in Hin. apply in_rev in Hin. rewrite Forall_forall in Hg. apply (Hg c Hin).
    + discriminate.
    + rewrite <- Er. apply Forall_rev. eapply Forall_impl; [|exact Hg]. intros a [_ H]; exact H.
Qed.
