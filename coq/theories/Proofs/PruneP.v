(* Both SkipDir shortcuts of filterFS.Walk are unobservable: the walk with the shortcuts
   makes exactly the calls the walk without them makes.  Uses, about the external matcher,
   only [prefix_semantics] (literal reading of the patterns filter.go calls prefix-only). *)
From Coq Require Import List NArith Lia Bool.
From FS Require Import Sx Model.Path Model.Stat Model.Tree Model.Pattern Model.FilterWalk
  Proofs.Lex Proofs.PathP Proofs.PatternP Proofs.FilterP.
Import ListNotations.
Open Scope bool_scope.

Lemma existsb_false_forall {A} (f : A -> bool) l : existsb f l = false -> forall x, In x l -> f x = false.
Proof.
  intros H x Hin. destruct (f x) eqn:E; auto.
  assert (existsb f l = true) by (apply existsb_exists; eauto). congruence.
Qed.

Lemma below_nonempty d x : d <> [] -> below d x -> x <> [].
Proof.
  unfold below. intros Hd H ->. simpl in H. destruct d as [|a d]; [congruence|].
  simpl in H. apply andb_true_iff in H. destruct H as [_ H]. destruct d; discriminate.
Qed.

Section Prune.
Variable pmatch : bytes -> bytes -> bool.
Variable mapfn : bytes -> stat -> mres * stat.
Hypothesis Hsem : prefix_semantics pmatch.
Variable c : cfg.
Hypothesis Hsafe : cfg_star_safe c = true.

Notation c' := (no_prune c).

Lemma pruned_np pd p isd : pruned pmatch c' pd p isd = false.
Proof.
  unfold pruned, prune_inc, prune_exc. cbn [no_prune c_inc c_exc c_prune].
  destruct (c_inc c), (c_exc c); rewrite ?andb_false_r; reflexivity.
Qed.

Lemma core_np_eq pd p st isd : pruned pmatch c pd p isd = false ->
  cb_core pmatch mapfn c' pd p st isd = cb_core pmatch mapfn c pd p st isd.
Proof.
  intros Hp. destruct (is_skip pmatch c pd p) eqn:Hs.
  - rewrite (core_skip pmatch mapfn c) by auto. rewrite (core_skip pmatch mapfn c') by (auto using pruned_np). reflexivity.
  - rewrite (core_map pmatch mapfn c) by auto. rewrite (core_map pmatch mapfn c') by (auto using pruned_np). reflexivity.
Qed.

(* ---- a directory below which nothing can be selected ---- *)
Definition dead_inc (d x : bytes) (v : vdir) : Prop :=
  exists pats px, c_inc c = Some pats /\ incr_eval pmatch pats x px = (false, vd_inc v) /\
    only_prefix_includes pats = true /\ reaches_into false pats d = false.
Definition dead_exc (d x : bytes) (v : vdir) : Prop :=
  exists pats px, c_exc c = Some pats /\ incr_eval pmatch pats x px = (true, vd_exc v) /\
    only_prefix_exclude_exceptions pats = true /\
    (exclusions pats = false \/ reaches_into true pats d = false).
Definition dead (d x : bytes) (v : vdir) : Prop :=
  d <> [] /\ below d x /\ (dead_inc d x v \/ dead_exc d x v).

Lemma dead_step d x v A name st :
  dead d x v -> nosep name ->
  let p := x ++ sep :: name in
  is_skip pmatch c' (v :: A) p = true /\ dead d p (new_dir pmatch c' (v :: A) p st).
Proof.
  intros (Hd & Hb & Hdead) Hn p.
  destruct Hdead as [(pats & px & Hc & Hx & Hop & Hreach)|(pats & px & Hc & Hx & Hop & Hreach)].
  - (* include side: verdict stays false *)
    assert (Hss : star_safe false pats = true).
    { unfold cfg_star_safe in Hsafe. rewrite Hc in Hsafe. apply andb_true_iff in Hsafe. tauto. }
    assert (Hst : fst (incr_eval pmatch pats p (vd_inc v)) = false).
    { replace (vd_inc v) with (snd (incr_eval pmatch pats x px)) by (rewrite Hx; reflexivity).
      apply incr_stable; [|rewrite Hx; reflexivity].
      intros P HP He Hm. unfold p in Hm.
      unfold only_prefix_includes in Hop. rewrite forallb_forall in Hop. specialize (Hop P HP). rewrite He in Hop. simpl in Hop.
      unfold star_safe in Hss. rewrite forallb_forall in Hss. specialize (Hss P HP). rewrite He in Hss. simpl in Hss.
      pose proof (existsb_false_forall _ _ Hreach P HP) as Hr. cbv beta in Hr. rewrite He in Hr. simpl in Hr.
      eapply pmatch_key; eauto. }
    assert (He : eval_inc pmatch c' p (v :: A) = incr_eval pmatch pats p (vd_inc v)).
    { unfold eval_inc. cbn [no_prune c_inc]. rewrite Hc. reflexivity. }
    split.
    + unfold is_skip. rewrite He, Hst. reflexivity.
    + split; auto. split; [apply below_child; auto|]. left.
      exists pats, (vd_inc v). repeat split; auto.
      unfold new_dir. cbn [vd_inc]. rewrite He. rewrite <- Hst. apply surjective_pairing.
  - (* exclude side: verdict stays true *)
    assert (Hss : star_safe true pats = true).
    { unfold cfg_star_safe in Hsafe. rewrite Hc in Hsafe. apply andb_true_iff in Hsafe. tauto. }
    assert (Hst : fst (incr_eval pmatch pats p (vd_exc v)) = true).
    { replace (vd_exc v) with (snd (incr_eval pmatch pats x px)) by (rewrite Hx; reflexivity).
      apply incr_stable; [|rewrite Hx; reflexivity].
      intros P HP He Hm. unfold p in Hm.
      unfold only_prefix_exclude_exceptions in Hop. rewrite forallb_forall in Hop. specialize (Hop P HP). rewrite He in Hop. simpl in Hop.
      unfold star_safe in Hss. rewrite forallb_forall in Hss. specialize (Hss P HP). rewrite He in Hss. simpl in Hss.
      destruct Hreach as [Hnx|Hreach].
      { exfalso. unfold exclusions in Hnx. pose proof (existsb_false_forall _ _ Hnx P HP). congruence. }
      pose proof (existsb_false_forall _ _ Hreach P HP) as Hr. cbv beta in Hr. rewrite He in Hr. simpl in Hr.
      eapply pmatch_key; eauto. }
    assert (He : eval_exc pmatch c' p (v :: A) = incr_eval pmatch pats p (vd_exc v)).
    { unfold eval_exc. cbn [no_prune c_exc]. rewrite Hc. reflexivity. }
    split.
    + unfold is_skip. rewrite He, Hst. apply orb_true_r.
    + split; auto. split; [apply below_child; auto|]. right.
      exists pats, (vd_exc v). repeat split; auto.
      unfold new_dir. cbn [vd_exc]. rewrite He. rewrite <- Hst. apply surjective_pairing.
Qed.

Lemma dead_use_match d x v : dead d x v -> use_match c' = true.
Proof.
  intros (_ & _ & [(pats & px & Hc & _)|(pats & px & Hc & _)]); unfold use_match; cbn [no_prune c_inc c_exc]; rewrite Hc.
  - reflexivity.
  - apply orb_true_r.
Qed.

Lemma dead_node : forall n, wf_node n = true -> forall d x v A, dead d x v ->
  sw_node pmatch mapfn c' (v :: A) x n = (v :: A, [], false).
Proof.
  induction n as [name st ct kids IHk] using node_ind2.
  intros Hwf d x v A Hdead. apply wf_node_inv in Hwf. destruct Hwf as (Hne & Hns & Hkids).
  rewrite sw_node_eq. cbv zeta.
  assert (Hx : x <> []) by (destruct Hdead as (Hd & Hb & _); eapply below_nonempty; eauto).
  rewrite (child_path_cons x name Hx).
  set (p := x ++ sep :: name). set (st' := set_path st p).
  destruct (dead_step d x v A name st' Hdead Hns) as [Hskip Hnd]. fold p in Hskip, Hnd.
  rewrite (core_skip pmatch mapfn c') by (auto using pruned_np). cbn [r_skip r_stack r_em r_push].
  destruct (st_is_dir st) eqn:Eisd; [|reflexivity].
  unfold pushed. cbn [r_push r_stack]. unfold push_of. rewrite (dead_use_match _ _ _ Hdead). cbn [andb].
  assert (Hf : forall l, Forall (fun n => wf_node n = true -> forall d x v A, dead d x v ->
                 sw_node pmatch mapfn c' (v :: A) x n = (v :: A, [], false)) l ->
               forallb wf_node l = true -> forall v0 A0, dead d p v0 ->
               sw_forest pmatch mapfn c' (v0 :: A0) p l = (v0 :: A0, [])).
  { clear. induction l as [|k r IHl]; intros HF Hwf v0 A0 Hd0; [reflexivity|].
    cbn [sw_forest]. inversion HF as [|? ? Hk Hr]; subst.
    cbn [forallb] in Hwf. apply andb_true_iff in Hwf. destruct Hwf as [Hwk Hwr].
    rewrite (Hk Hwk d p v0 A0 Hd0). rewrite (IHl Hr Hwr v0 A0 Hd0). reflexivity. }
  rewrite (Hf kids IHk Hkids _ _ Hnd). reflexivity.
Qed.

(* ---- the structural walks agree ---- *)
Lemma prune_sw_node : forall n, wf_node n = true -> forall A dir,
  sw_node pmatch mapfn c A dir n = sw_node pmatch mapfn c' A dir n.
Proof.
  induction n as [name st ct kids IHk] using node_ind2.
  intros Hwf A dir. pose proof Hwf as Hwf0. apply wf_node_inv in Hwf. destruct Hwf as (Hne & Hns & Hkids).
  rewrite !sw_node_eq. cbv zeta.
  set (p := child_path dir name). set (st' := set_path st p). remember (st_is_dir st) as isd eqn:Eisd.
  assert (Hp : p <> []) by (apply child_path_nonempty; auto).
  assert (Hforest : forall l, Forall (fun n => wf_node n = true -> forall A dir,
               sw_node pmatch mapfn c A dir n = sw_node pmatch mapfn c' A dir n) l ->
             forallb wf_node l = true -> forall A0,
             sw_forest pmatch mapfn c A0 p l = sw_forest pmatch mapfn c' A0 p l).
  { clear. induction l as [|k r IHl]; intros HF Hwf A0; [reflexivity|].
    cbn [sw_forest]. inversion HF as [|? ? Hk Hr]; subst.
    cbn [forallb] in Hwf. apply andb_true_iff in Hwf. destruct Hwf as [Hwk Hwr].
    rewrite (Hk Hwk A0 p). destruct (sw_node pmatch mapfn c' A0 p k) as [[a' e] cut].
    destruct cut; auto. rewrite (IHl Hr Hwr a'). reflexivity. }
  destruct (pruned pmatch c A p isd) eqn:Epr.
  - (* a shortcut fires: the un-pruned walk finds nothing below *)
    pose proof (pruned_isdir _ _ _ _ _ Epr) as Hisd.
    rewrite (core_pruned pmatch mapfn c) by auto. cbn [r_skip r_stack r_em]. rewrite Hisd. cbn [negb].
    (* the un-pruned callback: skip *)
    assert (Hskip_dead : is_skip pmatch c' A p = true /\ dead p p (new_dir pmatch c' A p st')).
    { unfold pruned in Epr. apply orb_true_iff in Epr. destruct Epr as [Epr|Epr].
      - unfold prune_inc in Epr. destruct (c_inc c) as [pats|] eqn:Hc; [|discriminate].
        repeat (apply andb_true_iff in Epr; destruct Epr as [Epr ?]).
        apply negb_true_iff in Epr. rewrite negb_true_iff in *.
        assert (He : eval_inc pmatch c' p A = eval_inc pmatch c p A) by reflexivity.
        split.
        + unfold is_skip. rewrite He, Epr. reflexivity.
        + split; auto. split; [apply below_refl|]. left.
          exists pats, (top_inc A). repeat split; auto.
          unfold new_dir. cbn [vd_inc]. rewrite He. unfold eval_inc in *. rewrite Hc in *.
          rewrite <- Epr. apply surjective_pairing.
      - unfold prune_exc in Epr. destruct (c_exc c) as [pats|] eqn:Hc; [|discriminate].
        repeat (apply andb_true_iff in Epr; destruct Epr as [Epr ?]).
        assert (He : eval_exc pmatch c' p A = eval_exc pmatch c p A) by reflexivity.
        split.
        + unfold is_skip. rewrite He, Epr. apply orb_true_r.
        + split; auto. split; [apply below_refl|]. right.
          exists pats, (top_exc A). repeat split; auto.
          * unfold new_dir. cbn [vd_exc]. rewrite He. unfold eval_exc in *. rewrite Hc in *.
            rewrite <- Epr. apply surjective_pairing.
          * match goal with H : _ || _ = true |- _ => apply orb_true_iff in H; destruct H as [H|H];
              apply negb_true_iff in H; auto end. }
    destruct Hskip_dead as [Hskip Hdead].
    rewrite (core_skip pmatch mapfn c') by (auto using pruned_np). cbn [r_skip r_stack r_em r_push].
    unfold pushed. cbn [r_push r_stack]. unfold push_of. rewrite (dead_use_match _ _ _ Hdead). cbn [andb].
    assert (Hf : forall l, forallb wf_node l = true -> forall v0 A0, dead p p v0 ->
               sw_forest pmatch mapfn c' (v0 :: A0) p l = (v0 :: A0, [])).
    { clear - Hsem Hsafe. induction l as [|k r IHl]; intros Hwf v0 A0 Hd0; [reflexivity|].
      cbn [sw_forest]. cbn [forallb] in Hwf. apply andb_true_iff in Hwf. destruct Hwf as [Hwk Hwr].
      rewrite (dead_node k Hwk p p v0 A0 Hd0). rewrite (IHl Hwr v0 A0 Hd0). reflexivity. }
    rewrite (Hf kids Hkids _ _ Hdead). reflexivity.
  - rewrite (core_np_eq A p st' isd Epr).
    destruct (r_skip _); auto. destruct isd; auto.
    rewrite (Hforest kids IHk Hkids). reflexivity.
Qed.

Lemma prune_sw_forest l : forallb wf_node l = true -> forall A dir,
  sw_forest pmatch mapfn c A dir l = sw_forest pmatch mapfn c' A dir l.
Proof.
  induction l as [|k r IHl]; intros Hwf A dir; [reflexivity|].
  cbn [sw_forest]. cbn [forallb] in Hwf. apply andb_true_iff in Hwf. destruct Hwf as [Hwk Hwr].
  rewrite (prune_sw_node k Hwk A dir). destruct (sw_node pmatch mapfn c' A dir k) as [[a' e] cut].
  destruct cut; auto. rewrite (IHl Hwr a' dir). reflexivity.
Qed.

Theorem prune_unobservable_proof view : wf_view view = true ->
  filter_walk pmatch mapfn c view = filter_walk pmatch mapfn c' view.
Proof.
  intros Hwf. rewrite !filter_walk_structural by auto. unfold sw_walk.
  rewrite (prune_sw_forest view Hwf). reflexivity.
Qed.

End Prune.
