(* C13 / C15 — link groups: the invariant [Lk] tying copier.inodes (c_imap) to the destination
   file system and the expected view, and its preservation by the steps of the copier.
   (Inv of CopierP.v says nothing about KSrc keys; everything about them is here.) *)
From Coq Require Import List NArith Bool Lia ZifyN ZifyNat ZifyBool.
From FS Require Import Sx Model.Path Model.SymMode Model.Copier Model.CopySpec Proofs.Lex
  Proofs.CopierP Proofs.CopyOpsP Proofs.CopyDentP.
Import ListNotations.
Open Scope N_scope.
Open Scope bool_scope.

Section Link.
  Variable o : copts.
  Variable ms : option (list bitcmd).
  Variable multi : N -> bool.
  Variable sdof : N -> dent.      (* the dentry of a multiply-linked source inode *)
  Notation Inv := (Inv o).
  Notation touch := (touch o).

  (* the dentry of a fresh copy of a source entry *)
  Definition ne_d (sd : dent) : dent :=
    {| d_mode := N.lor (copy_type sd) (if is_lnk sd then perm12 sd else info_mode o ms sd);
       d_uid := fst (info_owner o sd); d_gid := snd (info_owner o sd);
       d_mtime := info_time o sd; d_rdev := if is_dev sd then d_rdev sd else 0;
       d_target := d_target sd; d_xattrs := d_xattrs sd;
       d_content := if is_reg sd then d_content sd else [] |}.
  Lemma new_entry_d s p : x_d (new_entry o ms multi s p) = ne_d (sdent s).
  Proof. reflexivity. Qed.

  Lemma ne_d_nondir sd : is_reg sd = true -> is_dir (ne_d sd) = false.
  Proof.
    intro H. unfold is_dir, ftype, ne_d. cbn [d_mode].
    assert (Hc : copy_type sd = S_IFREG).
    { unfold copy_type. destruct (is_sock sd); auto. unfold is_reg in H. apply N.eqb_eq in H. auto. }
    rewrite Hc. rewrite ftype_mk; [reflexivity|reflexivity|].
    destruct (is_lnk sd); [rewrite <- perm12_idem|rewrite <- info_mode_idem]; apply land_all_fmt.
  Qed.

  (* [S]: the exact-partition mode.  With S the invariant also says that every entry keyed
     KSrc s has the inode currently recorded for s (so "same key <-> same inode"); it is
     maintained as long as no record with surviving names is forgotten, which is the case for one
     literal source and for sources without link groups.  Without S (wildcards together with
     link groups) only "same inode -> same group" is kept. *)
  Variable S : Prop.

  Record Lk (fs : fsys) (X : xview) (im : list (N * (list (list N) * N))) : Prop := {
    lk_nodup : NoDup (map fst im);
    lk_rec : forall s l i, imap_find s im = Some (l, i) ->
               names fs l = Some i /\ multi s = true /\ is_reg (sdof s) = true;
    lk_mem : forall s l i p, imap_find s im = Some (l, i) -> names fs p = Some i ->
               exists e, X p = Some e /\ x_key e = KSrc s /\ x_d e = ne_d (sdof s) /\ x_known e = true /\ x_mk e = false;
    lk_grp : forall p e s, X p = Some e -> x_key e = KSrc s ->
               is_reg (sdof s) = true /\ x_d e = ne_d (sdof s) /\ x_known e = true /\ x_mk e = false /\
               forall i q, names fs p = Some i -> names fs q = Some i -> exists e', X q = Some e' /\ x_key e' = KSrc s;
    lk_src : S -> forall p e s, X p = Some e -> x_key e = KSrc s ->
               exists l i, imap_find s im = Some (l, i) /\ names fs p = Some i
  }.

  (* no recorded copy lies at or below T *)
  Definition PC (T : list (list N)) (im : list (N * (list (list N) * N))) : Prop :=
    forall s l i, imap_find s im = Some (l, i) -> is_prefix T l = false.
  (* every record of im' is one of im or lies at or below T *)
  Definition IM (im im' : list (N * (list (list N) * N))) (T : list (list N)) : Prop :=
    forall s l i, imap_find s im' = Some (l, i) -> imap_find s im = Some (l, i) \/ is_prefix T l = true.

  (* ---- forgetLinkSources ---- *)
  Lemma imap_find_none_notin s im : imap_find s im = None -> ~ In s (map fst im).
  Proof.
    induction im as [|[j x] r IH]; simpl; auto. destruct (N.eqb s j) eqn:E; [discriminate|].
    intros H [H1|H1]; [subst; rewrite N.eqb_refl in E; discriminate|]. apply IH; auto.
  Qed.
  Lemma imap_find_notin s im : ~ In s (map fst im) -> imap_find s im = None.
  Proof.
    induction im as [|[j x] r IH]; simpl; auto. intro H. destruct (N.eqb s j) eqn:E.
    - apply N.eqb_eq in E. subst. tauto.
    - apply IH. tauto.
  Qed.
  Lemma forget_keys T im s : In s (map fst (imap_forget T im)) -> In s (map fst im).
  Proof.
    unfold imap_forget. induction im as [|[j x] r IH]; simpl; auto.
    destruct (negb (is_prefix T (fst x))); simpl; tauto.
  Qed.
  Lemma forget_nodup T im : NoDup (map fst im) -> NoDup (map fst (imap_forget T im)).
  Proof.
    unfold imap_forget. induction im as [|[j x] r IH]; simpl; intro H; auto. inversion H; subst.
    destruct (negb (is_prefix T (fst x))); simpl; auto. constructor; auto.
    intro Hin. apply (forget_keys T r) in Hin. auto.
  Qed.
  Lemma imap_find_forget T im s : NoDup (map fst im) ->
    imap_find s (imap_forget T im) =
    match imap_find s im with
    | Some (l, i) => if is_prefix T l then None else Some (l, i)
    | None => None
    end.
  Proof.
    unfold imap_forget. induction im as [|[j [l i]] r IH]; simpl; intro H; auto. inversion H; subst.
    destruct (N.eqb s j) eqn:E.
    - apply N.eqb_eq in E. subst j. destruct (is_prefix T l); simpl.
      + apply imap_find_notin. intro Hin. apply (forget_keys T r) in Hin. auto.
      + rewrite N.eqb_refl. auto.
    - destruct (is_prefix T l); simpl; [|rewrite E]; apply IH; auto.
  Qed.
  Lemma PC_forget T im : NoDup (map fst im) -> PC T (imap_forget T im).
  Proof.
    intros Hn s l i H. rewrite imap_find_forget in H by auto.
    destruct (imap_find s im) as [[l0 i0]|]; [|discriminate]. destruct (is_prefix T l0) eqn:E; [discriminate|].
    inversion H; subst. auto.
  Qed.
  Lemma IM_forget T im T' : NoDup (map fst im) -> IM im (imap_forget T im) T'.
  Proof.
    intros Hn s l i H. rewrite imap_find_forget in H by auto.
    destruct (imap_find s im) as [[l0 i0]|]; [|discriminate]. destruct (is_prefix T l0); [discriminate|]. auto.
  Qed.
  Lemma PC_imap_forget_same T im s : NoDup (map fst im) -> PC T im -> imap_find s (imap_forget T im) = imap_find s im.
  Proof.
    intros Hn Hpc. rewrite imap_find_forget by auto. destruct (imap_find s im) as [[l i]|] eqn:E; auto.
    rewrite (Hpc _ _ _ E). auto.
  Qed.

  Lemma Lk_forget fs X im T : Lk fs X im -> (S -> PC T im) -> Lk fs X (imap_forget T im).
  Proof.
    intros [N A B C D] Hpc. split.
    - apply forget_nodup; auto.
    - intros s l i H. rewrite imap_find_forget in H by auto.
      destruct (imap_find s im) as [[l0 i0]|] eqn:E; [|discriminate]. destruct (is_prefix T l0); [discriminate|].
      inversion H; subst. eauto.
    - intros s l i p H. rewrite imap_find_forget in H by auto.
      destruct (imap_find s im) as [[l0 i0]|] eqn:E; [|discriminate]. destruct (is_prefix T l0); [discriminate|].
      inversion H; subst. eauto.
    - exact C.
    - intros HS p e s H1 H2. destruct (D HS _ _ _ H1 H2) as (l & i & H3 & H4). exists l, i.
      rewrite PC_imap_forget_same; auto.
  Qed.

  Lemma Lk_ext fs X X' im : (forall p, X' p = X p) -> Lk fs X im -> Lk fs X' im.
  Proof.
    intros E [N A B C D]. split; auto.
    - intros s l i p H1 H2. rewrite E. eauto.
    - intros p e s H1 H2. rewrite E in H1. destruct (C _ _ _ H1 H2) as (C1 & C2 & C3 & C4 & C5).
      repeat split; auto. intros i q Hp Hq. rewrite E. eauto.
    - intros HS p e s H1 H2. rewrite E in H1. eauto.
  Qed.
  Lemma Lk_names_ext fs fs' X im : (forall q, names fs' q = names fs q) -> Lk fs X im -> Lk fs' X im.
  Proof.
    intros En [N A B C D]. split; auto.
    - intros s l i H. rewrite En. eauto.
    - intros s l i p H1 H2. rewrite En in H2. eauto.
    - intros p e s H1 H2. destruct (C _ _ _ H1 H2) as (C1 & C2 & C3 & C4 & C5).
      repeat split; auto. intros i q Hp Hq. rewrite En in Hp, Hq. eauto.
    - intros HS p e s H1 H2. destruct (D HS _ _ _ H1 H2) as (l & i & H3 & H4). exists l, i. rewrite En. auto.
  Qed.
  Lemma Lk_fs_ext fs fs' X im : fs_eqv fs fs' -> Lk fs X im -> Lk fs' X im.
  Proof. intros [En _ _]. apply Lk_names_ext. intro q. symmetry. apply En. Qed.

  (* an entry of a link group is not a directory *)
  Lemma lk_src_not_dir fs X im p e s : Lk fs X im -> X p = Some e -> x_key e = KSrc s -> is_dir (x_d e) = false.
  Proof.
    intros L H1 H2. destruct (lk_grp _ _ _ L _ _ _ H1 H2) as (A & B & _). rewrite B. apply ne_d_nondir; auto.
  Qed.
  Lemma lk_not_dir fs X im s l i p : Lk fs X im -> imap_find s im = Some (l, i) -> names fs p = Some i ->
    x_isdir (X p) = false.
  Proof.
    intros L H1 H2. destruct (lk_mem _ _ _ L _ _ _ _ H1 H2) as (e & E1 & E2 & _).
    unfold x_isdir. rewrite E1. eapply lk_src_not_dir; eauto.
  Qed.
  Lemma lk_key_not_dir fs X im p e s : Lk fs X im -> X p = Some e -> x_key e = KSrc s -> x_isdir (X p) = false.
  Proof. intros L H1 H2. unfold x_isdir. rewrite H1. eapply lk_src_not_dir; eauto. Qed.

  (* ---- names at and below T removed (unlink, RemoveAll), after forgetLinkSources(T) ---- *)
  Lemma Lk_removed fs fs' X im P a :
    Lk fs X im -> PC (P ++ [a]) im -> x_isdir (X P) = true ->
    (forall q, names fs' q = if is_prefix (P ++ [a]) q then None else names fs q) ->
    Lk fs' (touch P (xrm (P ++ [a]) X)) im.
  Proof.
    intros L Hpc HP Hn. set (T := P ++ [a]) in *.
    assert (Hsame : forall p, is_prefix T p = false -> x_isdir (X p) = false ->
                    touch P (xrm T X) p = X p).
    { intros p H1 H2. assert (p <> P) by (intro; subst; congruence).
      rewrite touch_other by auto. unfold xrm. rewrite H1. auto. }
    assert (Hback : forall p e s, touch P (xrm T X) p = Some e -> x_key e = KSrc s ->
                    is_prefix T p = false /\ X p = Some e).
    { intros p e s H1 H2.
      assert (Hp : p <> P).
      { intro; subst p. rewrite touch_same in H1. unfold xrm in H1. unfold T in H1. rewrite is_prefix_snoc_self in H1.
        unfold x_isdir in HP. destruct (X P) as [eP|] eqn:EP; [|discriminate]. simpl in H1. inversion H1; subst e.
        rewrite touched_key in H2. pose proof (lk_src_not_dir _ _ _ _ _ _ L EP H2). congruence. }
      rewrite touch_other in H1 by auto. unfold xrm in H1. destruct (is_prefix T p) eqn:E; [discriminate|]. auto. }
    split.
    - apply (lk_nodup _ _ _ L).
    - intros s l i H. destruct (lk_rec _ _ _ L _ _ _ H) as (A & B & C). rewrite Hn, (Hpc _ _ _ H). auto.
    - intros s l i p H1 H2. rewrite Hn in H2. destruct (is_prefix T p) eqn:E; [discriminate|].
      rewrite Hsame; auto; [eapply lk_mem; eauto|eapply lk_not_dir; eauto].
    - intros p e s H1 H2. destruct (Hback _ _ _ H1 H2) as (Hp & HX).
      destruct (lk_grp _ _ _ L _ _ _ HX H2) as (C1 & C2 & C3 & C4 & C5). repeat split; auto.
      intros i q Hpi Hqi. rewrite Hn in Hpi, Hqi. rewrite Hp in Hpi. destruct (is_prefix T q) eqn:Eq; [discriminate|].
      destruct (C5 _ _ Hpi Hqi) as (e' & E1 & E2). exists e'. split; auto.
      rewrite Hsame; auto. eapply lk_key_not_dir; eauto.
    - intros HS p e s H1 H2. destruct (Hback _ _ _ H1 H2) as (Hp & HX).
      destruct (lk_src _ _ _ L HS _ _ _ HX H2) as (l & i & A & B). exists l, i. rewrite Hn, Hp. auto.
  Qed.

  (* ---- a new name with a fresh inode and a per-path key ---- *)
  Lemma Lk_new fs fs' X im P a e :
    Inv fs X -> Lk fs X im -> x_isdir (X P) = true -> X (P ++ [a]) = None ->
    (forall q, q <> P ++ [a] -> names fs' q = names fs q) -> names fs' (P ++ [a]) = Some (next fs) ->
    x_key e = KNew (P ++ [a]) ->
    Lk fs' (xupd (P ++ [a]) (Some e) (touch P X)) im.
  Proof.
    intros I L HP HT Hn HnT Hk. set (T := P ++ [a]) in *.
    assert (HnT0 : names fs T = None) by (eapply inv_x_none; eauto).
    assert (Hsame : forall p, p <> T -> x_isdir (X p) = false -> xupd T (Some e) (touch P X) p = X p).
    { intros p H1 H2. assert (p <> P) by (intro; subst; congruence).
      rewrite xupd_other, touch_other; auto. }
    assert (Hback : forall p e0 s, xupd T (Some e) (touch P X) p = Some e0 -> x_key e0 = KSrc s -> p <> T /\ X p = Some e0).
    { intros p e0 s H1 H2. destruct (path_dec p T) as [->|Hne].
      - rewrite xupd_same in H1. inversion H1; subst. congruence.
      - rewrite xupd_other in H1 by auto. split; auto.
        assert (Hp : p <> P).
        { intro; subst p. rewrite touch_same in H1.
          unfold x_isdir in HP. destruct (X P) as [eP|] eqn:EP; [|discriminate]. simpl in H1. inversion H1; subst e0.
          rewrite touched_key in H2. pose proof (lk_src_not_dir _ _ _ _ _ _ L EP H2). congruence. }
        rewrite touch_other in H1 by auto. auto. }
    split.
    - apply (lk_nodup _ _ _ L).
    - intros s l i H. destruct (lk_rec _ _ _ L _ _ _ H) as (A & B & C). split; auto.
      rewrite Hn; auto. intro; subst. congruence.
    - intros s l i p H1 H2. destruct (lk_rec _ _ _ L _ _ _ H1) as (A & _).
      assert (p <> T).
      { intro; subst p. rewrite HnT in H2. inversion H2; subst i. apply (i_lt _ _ _ I) in A. lia. }
      rewrite Hn in H2 by auto. rewrite Hsame; auto; [eapply lk_mem; eauto|eapply lk_not_dir; eauto].
    - intros p e0 s H1 H2. destruct (Hback _ _ _ H1 H2) as (Hp & HX).
      destruct (lk_grp _ _ _ L _ _ _ HX H2) as (C1 & C2 & C3 & C4 & C5). repeat split; auto.
      intros i q Hpi Hqi. rewrite Hn in Hpi by auto.
      assert (q <> T).
      { intro; subst q. rewrite HnT in Hqi. inversion Hqi; subst i. apply (i_lt _ _ _ I) in Hpi. lia. }
      rewrite Hn in Hqi by auto. destruct (C5 _ _ Hpi Hqi) as (e' & E1 & E2). exists e'. split; auto.
      rewrite Hsame; auto. eapply lk_key_not_dir; eauto.
    - intros HS p e0 s H1 H2. destruct (Hback _ _ _ H1 H2) as (Hp & HX).
      destruct (lk_src _ _ _ L HS _ _ _ HX H2) as (l & i & A & B). exists l, i. rewrite Hn; auto.
  Qed.

  (* ---- an entry without a link-group key replaced in the view, names unchanged ---- *)
  Lemma Lk_upd fs fs' X im T e e' :
    Lk fs X im -> (forall q, names fs' q = names fs q) -> X T = Some e ->
    (forall s, x_key e <> KSrc s) -> (forall s, x_key e' <> KSrc s) ->
    Lk fs' (xupd T (Some e') X) im.
  Proof.
    intros L Hn HT Hk Hk'.
    assert (Hback : forall p e0 s, xupd T (Some e') X p = Some e0 -> x_key e0 = KSrc s -> p <> T /\ X p = Some e0).
    { intros p e0 s H1 H2. destruct (path_dec p T) as [->|Hne].
      - rewrite xupd_same in H1. inversion H1; subst. exfalso. eapply Hk'; eauto.
      - rewrite xupd_other in H1 by auto. auto. }
    split.
    - apply (lk_nodup _ _ _ L).
    - intros s l i H. rewrite Hn. eapply lk_rec; eauto.
    - intros s l i p H1 H2. rewrite Hn in H2. destruct (lk_mem _ _ _ L _ _ _ _ H1 H2) as (e0 & A & B & C).
      assert (p <> T) by (intro; subst; rewrite HT in A; inversion A; subst; eapply Hk; eauto).
      rewrite xupd_other by auto. eauto.
    - intros p e0 s H1 H2. destruct (Hback _ _ _ H1 H2) as (Hp & HX).
      destruct (lk_grp _ _ _ L _ _ _ HX H2) as (C1 & C2 & C3 & C4 & C5). repeat split; auto.
      intros i q Hpi Hqi. rewrite Hn in Hpi, Hqi. destruct (C5 _ _ Hpi Hqi) as (e1 & E1 & E2). exists e1. split; auto.
      rewrite xupd_other; auto. intro; subst q. rewrite HT in E1. inversion E1; subst. eapply Hk; eauto.
    - intros HS p e0 s H1 H2. destruct (Hback _ _ _ H1 H2) as (Hp & HX). rewrite Hn. eapply (lk_src _ _ _ L HS); eauto.
  Qed.

  Lemma Lk_touch fs X im P : Lk fs X im -> x_isdir (X P) = true -> Lk fs (touch P X) im.
  Proof.
    intros L HP.
    assert (Hback : forall p e s, touch P X p = Some e -> x_key e = KSrc s -> p <> P /\ X p = Some e).
    { intros p e s H1 H2. destruct (path_dec p P) as [->|Hne].
      - rewrite touch_same in H1. unfold x_isdir in HP. destruct (X P) as [eP|] eqn:EP; [|discriminate].
        simpl in H1. inversion H1; subst e. rewrite touched_key in H2.
        pose proof (lk_src_not_dir _ _ _ _ _ _ L EP H2). congruence.
      - rewrite touch_other in H1 by auto. auto. }
    split.
    - apply (lk_nodup _ _ _ L).
    - apply (lk_rec _ _ _ L).
    - intros s l i p H1 H2. assert (p <> P).
      { intro; subst. rewrite (lk_not_dir _ _ _ _ _ _ _ L H1 H2) in HP. discriminate. }
      rewrite touch_other by auto. eapply lk_mem; eauto.
    - intros p e s H1 H2. destruct (Hback _ _ _ H1 H2) as (Hp & HX).
      destruct (lk_grp _ _ _ L _ _ _ HX H2) as (C1 & C2 & C3 & C4 & C5). repeat split; auto.
      intros i q Hpi Hqi. destruct (C5 _ _ Hpi Hqi) as (e1 & E1 & E2). exists e1. split; auto.
      rewrite touch_other; auto. intro; subst q. rewrite (lk_key_not_dir _ _ _ _ _ _ L E1 E2) in HP. discriminate.
    - intros HS p e s H1 H2. destruct (Hback _ _ _ H1 H2) as (Hp & HX). eapply (lk_src _ _ _ L HS); eauto.
  Qed.

  (* ---- the copy of a link group member recorded (no record for its inode at this point) ---- *)
  Lemma Lk_record fs fs' X im P a e ino :
    Inv fs X -> Lk fs X im -> x_isdir (X P) = true -> X (P ++ [a]) = None ->
    (forall q, q <> P ++ [a] -> names fs' q = names fs q) -> names fs' (P ++ [a]) = Some (next fs) ->
    imap_find ino im = None -> multi ino = true -> is_reg (sdof ino) = true ->
    x_key e = KSrc ino -> x_d e = ne_d (sdof ino) -> x_known e = true -> x_mk e = false ->
    Lk fs' (xupd (P ++ [a]) (Some e) (touch P X)) ((ino, (P ++ [a], next fs)) :: im).
  Proof.
    intros I L HP HT Hn HnT Hnone Hm Hr Hk Hd Hkn Hmk. set (T := P ++ [a]) in *.
    assert (HnT0 : names fs T = None) by (eapply inv_x_none; eauto).
    assert (Hsame : forall p, p <> T -> x_isdir (X p) = false -> xupd T (Some e) (touch P X) p = X p).
    { intros p H1 H2. assert (p <> P) by (intro; subst; congruence).
      rewrite xupd_other, touch_other; auto. }
    assert (Hold : forall s l i, imap_find s im = Some (l, i) -> N.eqb s ino = false /\ i <> next fs).
    { intros s l i H. split.
      - destruct (N.eqb s ino) eqn:E; auto. apply N.eqb_eq in E. subst. congruence.
      - destruct (lk_rec _ _ _ L _ _ _ H) as (A & _). apply (i_lt _ _ _ I) in A. lia. }
    assert (Hback : forall p e0 s, p <> T -> xupd T (Some e) (touch P X) p = Some e0 -> x_key e0 = KSrc s -> X p = Some e0).
    { intros p e0 s Hne H1 H2. rewrite xupd_other in H1 by auto.
      assert (Hp : p <> P).
      { intro; subst p. rewrite touch_same in H1.
        unfold x_isdir in HP. destruct (X P) as [eP|] eqn:EP; [|discriminate]. simpl in H1. inversion H1; subst e0.
        rewrite touched_key in H2. pose proof (lk_src_not_dir _ _ _ _ _ _ L EP H2). congruence. }
      rewrite touch_other in H1 by auto. auto. }
    assert (Hfresh : forall q, names fs' q = Some (next fs) -> q = T).
    { intros q Hq. destruct (path_dec q T); auto. rewrite Hn in Hq by auto. apply (i_lt _ _ _ I) in Hq. lia. }
    split.
    - simpl. constructor; [apply imap_find_none_notin; auto|apply (lk_nodup _ _ _ L)].
    - intros s l i. cbn [imap_find]. destruct (N.eqb s ino) eqn:E.
      + apply N.eqb_eq in E. subst s. intro H; inversion H; subst. auto.
      + intro H. destruct (lk_rec _ _ _ L _ _ _ H) as (A & B & C). split; auto.
        rewrite Hn; auto. intro; subst. congruence.
    - intros s l i p. cbn [imap_find]. destruct (N.eqb s ino) eqn:E.
      + apply N.eqb_eq in E. subst s. intros H H2; inversion H; subst.
        rewrite (Hfresh _ H2), xupd_same. exists e. auto.
      + intros H1 H2. destruct (Hold _ _ _ H1) as (_ & Hi).
        assert (p <> T) by (intro; subst p; rewrite HnT in H2; inversion H2; congruence).
        rewrite Hn in H2 by auto. rewrite Hsame; auto; [eapply lk_mem; eauto|eapply lk_not_dir; eauto].
    - intros p e0 s H1 H2. destruct (path_dec p T) as [->|Hne].
      + rewrite xupd_same in H1. inversion H1; subst e0. rewrite Hk in H2. inversion H2; subst s.
        repeat split; auto. intros i q Hpi Hqi. rewrite HnT in Hpi. inversion Hpi; subst i.
        rewrite (Hfresh _ Hqi), xupd_same. eauto.
      + pose proof (Hback _ _ _ Hne H1 H2) as HX.
        destruct (lk_grp _ _ _ L _ _ _ HX H2) as (C1 & C2 & C3 & C4 & C5). repeat split; auto.
        intros i q Hpi Hqi. rewrite Hn in Hpi by auto.
        assert (q <> T).
        { intro; subst q. rewrite HnT in Hqi. inversion Hqi; subst i. apply (i_lt _ _ _ I) in Hpi. lia. }
        rewrite Hn in Hqi by auto. destruct (C5 _ _ Hpi Hqi) as (e' & E1 & E2). exists e'. split; auto.
        rewrite Hsame; auto. eapply lk_key_not_dir; eauto.
    - intros HS p e0 s H1 H2. destruct (path_dec p T) as [->|Hne].
      + rewrite xupd_same in H1. inversion H1; subst e0. rewrite Hk in H2. inversion H2; subst s.
        exists T, (next fs). cbn [imap_find]. rewrite N.eqb_refl. auto.
      + pose proof (Hback _ _ _ Hne H1 H2) as HX.
        destruct (lk_src _ _ _ L HS _ _ _ HX H2) as (l & i & A & B). exists l, i.
        cbn [imap_find]. destruct (Hold _ _ _ A) as (-> & _). rewrite Hn; auto.
  Qed.

  (* ---- a further member linked to the recorded copy ---- *)
  Lemma Lk_link fs fs' X im P a e ino l id :
    Lk fs X im -> x_isdir (X P) = true -> names fs (P ++ [a]) = None ->
    (forall q, names fs' q = if path_eqb q (P ++ [a]) then Some id else names fs q) ->
    imap_find ino im = Some (l, id) ->
    x_key e = KSrc ino -> x_d e = ne_d (sdof ino) -> x_known e = true -> x_mk e = false ->
    Lk fs' (xupd (P ++ [a]) (Some e) (touch P X)) im.
  Proof.
    intros L HP HT Hn Hrec Hk Hd Hkn Hmk. set (T := P ++ [a]) in *.
    assert (Hsame : forall p, p <> T -> x_isdir (X p) = false -> xupd T (Some e) (touch P X) p = X p).
    { intros p H1 H2. assert (p <> P) by (intro; subst; congruence).
      rewrite xupd_other, touch_other; auto. }
    assert (HnO : forall q, q <> T -> names fs' q = names fs q).
    { intros q Hq. rewrite Hn. apply path_eqb_neq in Hq. rewrite Hq. auto. }
    assert (HnT : names fs' T = Some id) by (rewrite Hn, path_eqb_refl; auto).
    assert (Hback : forall p e0 s, p <> T -> xupd T (Some e) (touch P X) p = Some e0 -> x_key e0 = KSrc s -> X p = Some e0).
    { intros p e0 s Hne H1 H2. rewrite xupd_other in H1 by auto.
      assert (Hp : p <> P).
      { intro; subst p. rewrite touch_same in H1.
        unfold x_isdir in HP. destruct (X P) as [eP|] eqn:EP; [|discriminate]. simpl in H1. inversion H1; subst e0.
        rewrite touched_key in H2. pose proof (lk_src_not_dir _ _ _ _ _ _ L EP H2). congruence. }
      rewrite touch_other in H1 by auto. auto. }
    destruct (lk_rec _ _ _ L _ _ _ Hrec) as (Hl & Hmul & Hreg).
    (* the names of the recorded inode are keyed KSrc ino *)
    assert (Hgrp : forall q, names fs q = Some id -> exists e', X q = Some e' /\ x_key e' = KSrc ino).
    { intros q Hq. destruct (lk_mem _ _ _ L _ _ _ _ Hrec Hq) as (e1 & A1 & A2 & _). eauto. }
    split.
    - apply (lk_nodup _ _ _ L).
    - intros s l0 i H. destruct (lk_rec _ _ _ L _ _ _ H) as (A & B & C). split; auto.
      rewrite HnO; auto. intro; subst. congruence.
    - intros s l0 i p H1 H2. destruct (path_dec p T) as [->|Hne].
      + rewrite HnT in H2. inversion H2; subst i. rewrite xupd_same.
        destruct (lk_mem _ _ _ L _ _ _ _ H1 Hl) as (e1 & B1 & B2 & _).
        destruct (Hgrp _ Hl) as (e2 & C1 & C2). rewrite B1 in C1. inversion C1; subst e2. rewrite B2 in C2. inversion C2; subst s.
        exists e. auto.
      + rewrite HnO in H2 by auto. rewrite Hsame; auto; [eapply lk_mem; eauto|eapply lk_not_dir; eauto].
    - intros p e0 s H1 H2. destruct (path_dec p T) as [->|Hne].
      + rewrite xupd_same in H1. inversion H1; subst e0. rewrite Hk in H2. inversion H2; subst s.
        repeat split; auto. intros i q Hpi Hqi. rewrite HnT in Hpi. inversion Hpi; subst i.
        destruct (path_dec q T) as [->|Hq]; [rewrite xupd_same; eauto|].
        rewrite HnO in Hqi by auto. destruct (Hgrp _ Hqi) as (e' & E1 & E2). exists e'. split; auto.
        rewrite Hsame; auto. eapply lk_key_not_dir; eauto.
      + pose proof (Hback _ _ _ Hne H1 H2) as HX.
        destruct (lk_grp _ _ _ L _ _ _ HX H2) as (C1 & C2 & C3 & C4 & C5). repeat split; auto.
        intros i q Hpi Hqi. rewrite HnO in Hpi by auto.
        destruct (path_dec q T) as [->|Hq].
        * rewrite HnT in Hqi. inversion Hqi; subst i. rewrite xupd_same.
          destruct (Hgrp _ Hpi) as (e1 & D1 & D2). rewrite HX in D1. inversion D1; subst e1.
          rewrite H2 in D2. inversion D2; subst s. eauto.
        * rewrite HnO in Hqi by auto. destruct (C5 _ _ Hpi Hqi) as (e' & E1 & E2). exists e'. split; auto.
          rewrite Hsame; auto. eapply lk_key_not_dir; eauto.
    - intros HS p e0 s H1 H2. destruct (path_dec p T) as [->|Hne].
      + rewrite xupd_same in H1. inversion H1; subst e0. rewrite Hk in H2. inversion H2; subst s.
        exists l, id. auto.
      + pose proof (Hback _ _ _ Hne H1 H2) as HX.
        destruct (lk_src _ _ _ L HS _ _ _ HX H2) as (l0 & i & A & B). exists l0, i. rewrite HnO; auto.
  Qed.

  (* ---- the metadata phase on an inode that already is a finished copy changes nothing ---- *)
  Lemma finfo_fix sd d : xsorted (d_xattrs sd) -> is_lnk sd = false ->
    d_mode d = d_mode (ne_d sd) -> d_uid d = d_uid (ne_d sd) -> d_gid d = d_gid (ne_d sd) ->
    d_rdev d = d_rdev (ne_d sd) -> d_target d = d_target (ne_d sd) -> d_xattrs d = d_xattrs (ne_d sd) ->
    d_content d = d_content (ne_d sd) ->
    forall e, x_d e = ne_d sd -> dm o (finfo o ms sd d) e.
  Proof.
    intros Hx Hl A1 A2 A3 A5 A6 A7 A8 e He. unfold dm, finfo. rewrite He, Hl.
    unfold ne_d in *. rewrite Hl in *.
    cbn [set_xattrs set_mtime set_perm set_owner d_mode d_uid d_gid d_mtime d_rdev d_target d_xattrs d_content] in *.
    change (ftype (set_owner (fst (info_owner o sd)) (snd (info_owner o sd)) d)) with (ftype d).
    repeat split; auto.
    - unfold ftype. rewrite A1, info_mode_idem. f_equal. apply ftype_mk.
      + unfold copy_type. destruct (is_sock sd); [reflexivity|apply ftype_idem].
      + rewrite <- info_mode_idem. apply land_all_fmt.
    - rewrite A7. apply merge_self; auto.
  Qed.
End Link.
