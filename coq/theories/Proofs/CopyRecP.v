(* C14 — copier.copy / copyDirectory (copy_rec) keep the containment invariant: induction on the
   recursion bound. *)
From Coq Require Import List NArith Lia Bool ZifyN ZifyNat ZifyBool.
From FS Require Import Sx Model.Path Model.Fs Model.RootPath Model.CopyFs Model.CopyFsSpec
  Proofs.Lex Proofs.PathP Proofs.FsP Proofs.RootPathStrP Proofs.FsCopyFrameP Proofs.FsCopyInvP
  Proofs.FsCopySafeP Proofs.FsCopyLinksP Proofs.FsCopySysP Proofs.CopyFsP.
Import ListNotations.
Open Scope N_scope.
Open Scope bool_scope.

Section Rec.
  Variables (c : ctx) (f0 : fs) (dr : N) (dcs : list bytes).
  Notation Ctx := (Ctx c f0 dr dcs).
  Notation tpath := (tpath dcs).
  Notation SS := (SS f0 dr).
  Notation Tgt := (Tgt c f0 dr dcs).
  Notation names_ss := (names_ss f0 dr).
  Notation stays := (stays c f0 dr dcs).
  Notation stays_ok := (stays_ok c f0 dr dcs).
  Notation mstep := (mstep c f0 dr dcs).
  Notation lok := (lok f0 dr dcs).
  Notation made := (made f0 dr).
  Notation forgotten := CopyFsP.forgotten.
  Let b := f_next f0.

  Lemma mstep_stays_ok {A} d s s' (r : A + N) : mstep s s' -> stays_ok d s s' r.
  Proof. intros M. apply stays_stays_ok. apply mstep_stays. exact M. Qed.

  (* ---- finish_meta ---- *)
  Lemma finish_meta_spec s s' r cs d x i o fi src : Tgt (s_fs s) cs d x -> names_ss (s_fs s) d x i ->
    (kind_is_link fi = false -> FsP.is_link (s_fs s) i = false) ->
    finish_meta c o fi src (tpath cs x) s = (s', r) -> mstep s s'.
  Proof.
    intros T Hn Hl H. unfold finish_meta in H. rewrite bind_run in H.
    destruct (copy_file_info c o fi (tpath cs x) s) as [s1 [[]|e]] eqn:E1.
    - pose proof (copy_file_info_spec c f0 dr dcs s s1 _ cs d x i o fi T Hn Hl E1) as M1.
      eapply mstep_trans; [exact M1|].
      eapply copy_xattrs_spec; [eapply mstep_tgt; eauto|eapply mstep_names; eauto|eauto].
    - injection H as <- <-. eapply copy_file_info_spec; eauto.
  Qed.

  (* ---- prep_target ---- *)
  Lemma prep_target_spec s s' r cs d x o fi : Tgt (s_fs s) cs d x ->
    prep_target c o (tpath cs x) fi s = (s', r) ->
    stays d s s' /\
    (forall tfi, r = inl tfi -> kind_is_dir fi = false -> absent (s_fs s') d x).
  Proof.
    intros T H. unfold prep_target in H. rewrite bind_run in H.
    destruct (lstat_opt_nd c (tpath cs x) s) as [s1 [tfi|e]] eqn:E1.
    2:{ injection H as <- <-. destruct (lstat_opt_nd_spec c f0 dr dcs s s1 _ cs d x T E1) as (F1 & L1 & _).
        split; [apply stays_same; auto; apply T|discriminate]. }
    destruct (lstat_opt_nd_spec c f0 dr dcs s s1 _ cs d x T E1) as (F1 & L1 & P1).
    assert (Hd : is_dir (s_fs s) d = true) by (eapply tgt_dir; eauto).
    assert (S1 : stays d s s1) by (apply stays_same; auto; apply T).
    assert (T1 : Tgt (s_fs s1) cs d x) by (rewrite F1; auto).
    rewrite bind_run in H.
    destruct (remove_target_if_needed c o (tpath cs x) fi tfi s1) as [s2 [[]|e]] eqn:E2.
    2:{ injection H as <- <-. destruct (remove_target_spec c f0 dr dcs s1 s2 _ cs d x o fi tfi T1 E2) as (S2 & _).
        split; [eapply stays_trans; eauto|discriminate]. }
    destruct (remove_target_spec c f0 dr dcs s1 s2 _ cs d x o fi tfi T1 E2) as (S2 & F2).
    assert (S12 : stays d s s2) by (eapply stays_trans; eauto).
    assert (T2 : Tgt (s_fs s2) cs d x) by (eapply tgt_stays; eauto).
    rewrite bind_run in H.
    destruct (kind_is_dir fi) eqn:Ek.
    - cbn [ret] in H. injection H as <- <-. split; auto. intros; discriminate.
    - rewrite bind_run in H.
      (* the name is absent before remove_target_if_needed did nothing, or forgotten now *)
      assert (Hpre : forall s3, (match tfi with Some _ => forget_links (tpath cs x) | None => ret tt end) s2 = (s3, inl tt) ->
                stays d s2 s3 /\ s_fs s3 = s_fs s2 /\ (forgotten s3 (tpath cs x) \/ absent (s_fs s3) d x)).
      { intros s3 E3. destruct tfi as [ti|].
        - destruct (forget_links_spec c f0 dr dcs (tpath cs x) s2 d (tg_ctx _ _ _ _ _ _ _ _ T2)) as (G1 & G2 & G3).
          rewrite E3 in G1, G2, G3. cbn [fst] in *. auto.
        - cbn [ret] in E3. injection E3 as <-. split; [apply stays_refl; apply T2|]. split; auto. right.
          (* tfi = None: remove_target_if_needed returned at once *)
          unfold remove_target_if_needed in E2.
          destruct (negb (o_always_replace o)); cbn [ret] in E2; injection E2 as <-; rewrite F1; exact P1. }
      destruct ((match tfi with Some _ => forget_links (tpath cs x) | None => ret tt end) s2) as [s3 [[]|e]] eqn:E3.
      2:{ exfalso. destruct tfi; [rewrite forget_links_run in E3|cbn [ret] in E3]; discriminate. }
      destruct (Hpre s3 eq_refl) as (S3 & F3 & Hor).
      assert (T3 : Tgt (s_fs s3) cs d x) by (rewrite F3; auto).
      destruct (ensure_empty_file_target c (tpath cs x) s3) as [s4 [[]|e]] eqn:E4.
      + destruct (ensure_empty_spec c f0 dr dcs s3 s4 _ cs d x T3 Hor E4) as (S4 & _ & P4).
        cbn [ret] in H. injection H as <- <-.
        split; [eapply stays_trans; [exact Hd|exact S12|]; eapply stays_trans; [eapply tgt_dir; eauto|exact S3|exact S4]|].
        intros _ _ _. auto.
      + destruct (ensure_empty_spec c f0 dr dcs s3 s4 _ cs d x T3 Hor E4) as (S4 & _ & _).
        injection H as <- <-.
        split; [eapply stays_trans; [exact Hd|exact S12|]; eapply stays_trans; [eapply tgt_dir; eauto|exact S3|exact S4]|].
        intros; discriminate.
  Qed.

  (* ---- the loop over the children ---- *)
  Lemma each_m_spec g d1 cs1 :
    (forall n s s' r, okn n -> Tgt (s_fs s) cs1 d1 n -> lok s -> g n s = (s', r) -> stays_ok d1 s s' r) ->
    forall ns, Forall okn ns -> forall s s' r,
      Ctx (s_fs s) -> chain (s_fs s) dr cs1 d1 -> Forall nm cs1 -> Forall nonul cs1 -> lok s ->
      each_m g ns s = (s', r) -> stays_ok d1 s s' r.
  Proof.
    intros Hg. induction 1 as [|n ns Hn Hns IH]; intros s s' r C Hc H1 H2 L H.
    - cbn [each_m ret] in H. injection H as <- <-. apply stays_stays_ok. apply stays_refl; auto.
    - cbn [each_m] in H. rewrite bind_run in H.
      destruct (g n s) as [s1 [[]|e]] eqn:E1.
      + assert (T : Tgt (s_fs s) cs1 d1 n) by (constructor; auto; apply Hn).
        pose proof (Hg n s s1 _ Hn T L E1) as S1.
        assert (Hd : is_dir (s_fs s) d1 = true) by (eapply chain_end_dir; eauto).
        destruct S1 as (C1 & A1 & L1 & K1).
        eapply (stays_ok_seq c f0 dr dcs d1 s s1 s' tt); auto; [split; auto|].
        apply IH; auto.
        * apply (A1 dr cs1 d1 []); auto. constructor; auto.
        * apply L1; auto. exists tt. reflexivity.
      + injection H as <- <-.
        assert (T : Tgt (s_fs s) cs1 d1 n) by (constructor; auto; apply Hn).
        eapply stays_ok_fail. eapply (Hg n s s1 _ Hn T L E1).
  Qed.

  Lemma chain_last f cs d x d1 d' : chain f dr (cs ++ [x]) d1 -> chain f dr cs d' -> d' = d ->
    blookup x (dents f d) = Some d1 /\ is_dir f d1 = true.
  Proof.
    intros H Hc ->. destruct (chain_split f cs dr [x] d1 H) as (m & P & Q).
    rewrite (chain_fun _ _ _ _ P _ Hc) in Q. inversion Q as [|? ? i ? ? Bx Dx Rx]; subst. inversion Rx; subst. auto.
  Qed.

  (* ---- copier.copy ---- *)
  Lemma copy_rec_spec fuel : forall o src cs d x ow s s' r,
    Tgt (s_fs s) cs d x -> lok s -> copy_rec fuel c o src (tpath cs x) ow s = (s', r) -> stays_ok d s s' r.
  Proof.
    induction fuel as [|k IH]; intros o src cs d x ow s s' r T L H.
    { cbn [copy_rec] in H. unfold fail in H. injection H as <- <-. apply stays_stays_ok, stays_refl. apply T. }
    cbn [copy_rec] in H. rewrite bind_run, sys_run in H. cbn [fst snd] in H. rewrite sys_lstat_fs in H.
    assert (Hd : is_dir (s_fs s) d = true) by (eapply tgt_dir; eauto).
    assert (Hsame : forall s1 (r1 : unit + N), s_fs s1 = s_fs s -> s_links s1 = s_links s -> stays_ok d s s1 r1).
    { intros s1 r1 E1 E2. apply stays_stays_ok. apply stays_same; auto. apply T. }
    destruct (snd (sys_lstat c (s_fs s) src)) as [|e|ino fi| | |];
      try (unfold fail in H; injection H as <- <-; apply Hsame; reflexivity).
    rewrite bind_run, log_read_run in H. cbn [s_fs s_links s_reads] in H.
    set (s1 := {| s_fs := s_fs s; s_links := s_links s; s_reads := ino :: s_reads s |}) in *.
    assert (T1 : Tgt (s_fs s1) cs d x) by exact T.
    assert (L1 : lok s1) by exact L.
    rewrite bind_run in H.
    destruct (prep_target c o (tpath cs x) fi s1) as [s2 [tfi|e]] eqn:E2.
    2:{ injection H as <- <-. destruct (prep_target_spec s1 s2 _ cs d x o fi T1 E2) as (S2 & _).
        apply stays_stays_ok. exact S2. }
    destruct (prep_target_spec s1 s2 _ cs d x o fi T1 E2) as (S2 & P2).
    assert (T2 : Tgt (s_fs s2) cs d x) by (eapply tgt_stays; eauto).
    assert (L2 : lok s2) by (apply S2; auto).
    (* everything below runs from s2 *)
    eapply (stays_ok_pre c f0 dr dcs d s s2 s'); [exact Hd|exact S2|].
    assert (Hd2 : is_dir (s_fs s2) d = true) by (eapply tgt_dir; eauto).
    (* the common tail: finish_meta after a creation step *)
    assert (Hfin : forall s3 (r3 : unit + N) i, stays_ok d s2 s3 r3 -> r3 = inl tt ->
              names_ss (s_fs s3) d x i -> (kind_is_link fi = false -> FsP.is_link (s_fs s3) i = false) ->
              forall s4 r4, finish_meta c o fi src (tpath cs x) s3 = (s4, r4) -> stays_ok d s2 s4 r4).
    { intros s3 r3 i S3 -> Hn Hl s4 r4 H4.
      assert (T3 : Tgt (s_fs s3) cs d x) by (destruct S3 as (C3 & A3 & _); eapply tgt_step; eauto).
      pose proof (finish_meta_spec s3 s4 r4 cs d x i o fi src T3 Hn Hl H4) as M4.
      eapply (stays_ok_seq c f0 dr dcs d s2 s3 s4 tt); auto. apply mstep_stays_ok. exact M4. }
    destruct (i_kind fi) as [pp es|data|t|typ rdev] eqn:Ek.
    - (* directory *)
      assert (Hkd : kind_is_dir fi = true) by (unfold kind_is_dir; rewrite Ek; reflexivity).
      rewrite bind_run in H.
      destruct (copy_directory_only c (tpath cs x) fi ow s2) as [s3 [created|e]] eqn:E3.
      2:{ injection H as <- <-. destruct (copy_directory_only_spec c f0 dr dcs s2 s3 _ cs d x fi ow T2 E3) as (S3 & _).
          apply stays_stays_ok. exact S3. }
      destruct (copy_directory_only_spec c f0 dr dcs s2 s3 _ cs d x fi ow T2 E3) as (S3 & EL3 & P3).
      destruct (P3 created eq_refl) as (d1 & Hb1 & Hd1).
      assert (T3 : Tgt (s_fs s3) cs d x) by (eapply tgt_stays; eauto).
      assert (L3 : lok s3) by (apply S3; auto).
      eapply (stays_ok_pre c f0 dr dcs d s2 s3 s'); [exact Hd2|exact S3|].
      assert (Hd3 : is_dir (s_fs s3) d = true) by (eapply tgt_dir; eauto).
      rewrite bind_run, sys_run in H. cbn [fst snd] in H. rewrite sys_readdir_fs in H.
      assert (Hsame3 : forall s4 (r4 : unit + N), s_fs s4 = s_fs s3 -> s_links s4 = s_links s3 -> stays_ok d s3 s4 r4).
      { intros s4 r4 G1 G2. apply stays_stays_ok. apply stays_same; auto. apply T3. }
      destruct (snd (sys_readdir c (s_fs s3) src)) as [|e|i0 n0|b0|names|i0] eqn:Er;
        try (unfold fail in H; injection H as <- <-; apply Hsame3; reflexivity).
      pose proof (readdir_names c f0 dr (s_fs s3) src names (tgt_inv _ _ _ _ _ _ _ _ T3) Er) as Hnames.
      rewrite bind_run in H. unfold get_fs at 1 in H. cbn [s_fs] in H.
      rewrite bind_run in H.
      set (s4 := {| s_fs := s_fs s3; s_links := s_links s3; s_reads := s_reads s3 |}) in H.
      (* the optional log entry does not change the file system *)
      assert (Hlog : exists s5, (match resolve_ino c (s_fs s3) src true with inl di => log_read di | inr _ => ret tt end) s4 = (s5, inl tt)
                                /\ s_fs s5 = s_fs s3 /\ s_links s5 = s_links s3).
      { destruct (resolve_ino c (s_fs s3) src true); [rewrite log_read_run|cbn [ret]];
          eexists; (split; [reflexivity|split; reflexivity]). }
      destruct Hlog as (s5 & E5 & F5 & EL5). rewrite E5 in H.
      assert (T5 : Tgt (s_fs s5) cs d x) by (rewrite F5; auto).
      assert (L5 : lok s5) by (unfold CopyFsP.lok; rewrite F5, EL5; exact L3).
      eapply (stays_ok_pre c f0 dr dcs d s3 s5 s'); [exact Hd3|apply stays_same; auto; apply T3|].
      assert (Hc5 : chain (s_fs s5) dr (cs ++ [x]) d1).
      { rewrite F5. eapply chain_snoc; eauto. apply T3. }
      assert (Hq5 : chain (s_fs s5) d [x] d1).
      { rewrite F5. econstructor; eauto. constructor; auto. }
      assert (Hj : forall n, okn n -> join2 (tpath cs x) n = tpath (cs ++ [x]) n).
      { intros n [Hn1 _]. apply tpath_join; [apply (cx_dcs _ _ _ _ _ (tg_ctx _ _ _ _ _ _ _ _ T))|apply T|apply T|exact Hn1]. }
      rewrite bind_run in H.
      destruct (each_m (fun n => copy_rec k c o (join2 src n) (join2 (tpath cs x) n) true) (sorted_names names) s5)
        as [s6 [[]|e]] eqn:E6.
      2:{ injection H as <- <-. eapply stays_ok_below; [exact Hq5|]. eapply stays_ok_fail.
          eapply (each_m_spec _ d1 (cs ++ [x])); try exact E6; auto.
          - intros n sa sb rb Hn Ta La Ha. cbv beta in Ha.
            rewrite (Hj n Hn) in Ha. eapply IH; eauto.
          - apply sorted_names_forall; auto.
          - apply T5.
          - apply Forall_app; split; [apply T|constructor; [apply T|constructor]].
          - apply Forall_app; split; [apply T|constructor; [apply T|constructor]]. }
      assert (S6 : stays_ok d1 s5 s6 (@inl unit N tt)).
      { eapply (each_m_spec _ d1 (cs ++ [x])); try exact E6; auto.
        - intros n sa sb rb Hn Ta La Ha. cbv beta in Ha.
          rewrite (Hj n Hn) in Ha. eapply IH; eauto.
        - apply sorted_names_forall; auto.
        - apply T5.
        - apply Forall_app; split; [apply T|constructor; [apply T|constructor]].
        - apply Forall_app; split; [apply T|constructor; [apply T|constructor]]. }
      assert (S6d : stays_ok d s5 s6 (@inl unit N tt)) by (eapply stays_ok_below; eauto).
      assert (Hd5 : is_dir (s_fs s5) d = true) by (eapply tgt_dir; eauto).
      eapply (stays_ok_seq c f0 dr dcs d s5 s6 s' tt); [exact Hd5|exact S6d|].
      destruct S6 as (C6 & A6 & L6 & K6).
      assert (T6 : Tgt (s_fs s6) cs d x) by (destruct S6d as (? & A6d & _); eapply tgt_step; eauto).
      assert (Hc6 : chain (s_fs s6) dr (cs ++ [x]) d1).
      { apply (A6 dr (cs ++ [x]) d1 []); auto. apply chain_nil. rewrite F5. exact Hd1. }
      destruct (chain_last (s_fs s6) cs d x d1 d Hc6 (tg_chain _ _ _ _ _ _ _ _ T6) eq_refl) as [Hb6 Hi6].
      assert (Hn6 : names_ss (s_fs s6) d x d1).
      { split; auto. eapply (chain_SS f0 dr (s_fs s6)); [eapply tgt_inv; eauto|exact Hc6|eapply ctx_dr_SS; apply T6]. }
      assert (Hl6 : FsP.is_link (s_fs s6) d1 = false).
      { unfold FsP.is_link. unfold is_dir, dir_of in Hi6. destruct (get (s_fs s6) d1) as [[[? ?|?|?|? ?] ?]|]; auto; discriminate. }
      destruct (ow || created).
      + apply mstep_stays_ok. eapply finish_meta_spec; eauto.
      + destruct tfi.
        * apply mstep_stays_ok. eapply copy_file_timestamp_spec; eauto.
        * cbn [ret] in H. injection H as <- <-. apply stays_stays_ok, stays_refl. apply T6.
    - (* regular file *)
      assert (Hkd : kind_is_dir fi = false) by (unfold kind_is_dir; rewrite Ek; reflexivity).
      assert (Hkl : kind_is_link fi = false) by (unfold kind_is_link; rewrite Ek; reflexivity).
      pose proof (P2 tfi eq_refl Hkd) as Hab.
      rewrite bind_run in H.
      destruct (copy_regular c src (tpath cs x) ino s2) as [s3 [[]|e]] eqn:E3.
      + destruct (copy_regular_spec c f0 dr dcs s2 s3 _ cs d x src ino T2 Hab L2 E3) as (S3 & P3).
        destruct (P3 eq_refl) as (i & Hn & _ & Hl).
        eapply (Hfin s3 _ i S3 eq_refl Hn); eauto.
      + injection H as <- <-. eapply (copy_regular_spec c f0 dr dcs s2 s3 _ cs d x src ino T2 Hab L2 E3).
    - (* symlink *)
      assert (Hkl : kind_is_link fi = true) by (unfold kind_is_link; rewrite Ek; reflexivity).
      rewrite bind_run, sys_run in H. cbn [fst snd] in H. rewrite sys_readlink_fs in H.
      assert (Hsame2 : forall s3 (r3 : unit + N), s_fs s3 = s_fs s2 -> s_links s3 = s_links s2 -> stays_ok d s2 s3 r3).
      { intros s3 r3 G1 G2. apply stays_stays_ok. apply stays_same; auto. apply T2. }
      destruct (snd (sys_readlink c (s_fs s2) src)) as [|e|i0 n0|tgt|l0|i0];
        try (unfold fail in H; injection H as <- <-; apply Hsame2; reflexivity).
      set (s3 := {| s_fs := s_fs s2; s_links := s_links s2; s_reads := s_reads s2 |}) in H.
      assert (T3 : Tgt (s_fs s3) cs d x) by exact T2.
      rewrite bind_run, sys_run in H. cbn [fst snd] in H.
      destruct (sys_symlink c (s_fs s3) tgt (tpath cs x)) as [f4 r4] eqn:E4. cbn [fst snd] in H.
      pose proof (g_symlink c f0 dr dcs _ cs d x _ f4 r4 T3 E4) as G4.
      pose proof (k_symlink c f0 dr dcs _ cs d x _ f4 r4 T3 E4) as K4.
      destruct (t_symlink c f0 dr dcs _ cs d x _ f4 r4 T3 E4) as (C4 & A4 & P4).
      fold (mk s3 f4) in H.
      assert (S4 : stays d s2 (mk s3 f4)).
      { destruct (stays_grows c f0 dr dcs d s3 f4 C4 A4 G4 K4) as (X1 & X2 & X3 & X4). split; auto. }
      rewrite bind_run, expect_ok_run in H.
      destruct P4 as [[e ->]|[-> Hc]].
      + injection H as <- <-. apply stays_stays_ok. exact S4.
      + eapply (Hfin (mk s3 f4) (inl tt) (f_next (s_fs s3))); eauto.
        * apply stays_stays_ok. exact S4.
        * split; [apply Hc|right; apply Hc].
        * intros E. congruence.
    - (* device, fifo, socket *)
      assert (Hkl : kind_is_link fi = false) by (unfold kind_is_link; rewrite Ek; reflexivity).
      rewrite bind_run in H.
      destruct (copy_device c (tpath cs x) fi s2) as [s3 [[]|e]] eqn:E3.
      + destruct (copy_device_spec c f0 dr dcs s2 s3 _ cs d x fi T2 E3) as (S3 & _ & P3).
        destruct (P3 eq_refl) as (i & Hn & _ & Hl).
        eapply (Hfin s3 (inl tt) i); eauto. apply stays_stays_ok. exact S3.
      + injection H as <- <-. destruct (copy_device_spec c f0 dr dcs s2 s3 _ cs d x fi T2 E3) as (S3 & _).
        apply stays_stays_ok. exact S3.
  Qed.
End Rec.
