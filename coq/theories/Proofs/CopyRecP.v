(* C14 — copier.copy / copyDirectory (copy_rec) keep the containment invariant: induction on the
   recursion bound. *)
From Coq Require Import List NArith Lia Bool ZifyN ZifyNat ZifyBool.
From FS Require Import Sx Model.Path Model.Fs Model.RootPath Model.CopyFs Model.CopyFsSpec
  Proofs.Lex Proofs.PathP Proofs.FsP Proofs.RootPathStrP Proofs.FsCopyFrameP Proofs.FsCopyInvP
  Proofs.FsCopySafeP Proofs.FsCopyLinksP Proofs.FsCopySysP Proofs.CopyFsP Proofs.CopyFsNrP.
Import ListNotations.
Open Scope N_scope.
Open Scope bool_scope.

Section Rec.
  Variables (c : ctx) (f0 : fs) (dr : N) (dcs : list bytes).
  Notation Ctx := (Ctx c f0 dr dcs).
  Notation tpath := (tpath dcs).
  Notation SS := (SS f0 dr).
  Notation Tgt := (Tgt c f0 dr dcs).
  Notation names_ss := (names_ss f0 dr).
  Notation stays := (stays c f0 dr dcs).
  Notation stays_ok := (stays_ok c f0 dr dcs).
  Notation mstep := (mstep c f0 dr dcs).
  Notation lok := (lok f0 dr dcs).
  Notation made := (made f0 dr).
  Notation forgotten := CopyFsP.forgotten.
  Let b := f_next f0.

  Lemma mstep_stays_ok {A} d s s' (r : A + N) : mstep s s' -> stays_ok d s s' r.
  Proof. intros M. apply stays_stays_ok. apply mstep_stays. exact M. Qed.

  (* ---- finish_meta ---- *)
  Lemma finish_meta_spec s s' r cs d x i o fi src : Tgt (s_fs s) cs d x -> names_ss (s_fs s) d x i ->
    (kind_is_link fi = false -> FsP.is_link (s_fs s) i = false) ->
    finish_meta c o fi src (tpath cs x) s = (s', r) -> mstep s s'.
  Proof.
    intros T Hn Hl H. unfold finish_meta in H. rewrite bind_run in H.
    destruct (copy_file_info c o fi (tpath cs x) s) as [s1 [[]|e]] eqn:E1.
    - pose proof (copy_file_info_spec c f0 dr dcs s s1 _ cs d x i o fi T Hn Hl E1) as M1.
      eapply mstep_trans; [exact M1|].
      eapply copy_xattrs_spec; [eapply mstep_tgt; eauto|eapply mstep_names; eauto|eauto].
    - injection H as <- <-. eapply copy_file_info_spec; eauto.
  Qed.

  (* ---- strings: a path at or below another one, component-wise ---- *)
  Lemma forget_path_inv l m : Forall nm l -> Forall nm m -> forget_path (render l) (render m) = true ->
    exists r, m = l ++ r.
  Proof.
    intros Hl Hm H. unfold forget_path in H. apply orb_true_iff in H. destruct H as [H|H].
    - apply bytes_eqb_eq in H. apply render_inj in H; auto. exists []. rewrite app_nil_r. auto.
    - apply has_prefix_app in H. destruct H as [rest E]. unfold render in E.
      assert (Ej : joinc m = joinc l ++ sep :: rest).
      { simpl in E. rewrite <- app_assoc in E. simpl in E. injection E as E. exact E. }
      destruct m as [|m0 m'].
      + exfalso. simpl in Ej. destruct (joinc l); discriminate.
      + assert (Ec : comps (joinc (m0 :: m')) = comps (joinc l ++ sep :: rest)) by (rewrite Ej; reflexivity).
        rewrite comps_app_sep_gen in Ec.
        rewrite comps_joinc in Ec by (try discriminate; apply Forall_nm_nosep; auto).
        destruct l as [|l0 l'].
        * exfalso. simpl in Ec. inversion Ec; subst. inversion Hm as [|? ? Hx _]; subst. apply (nm_nonempty _ Hx). reflexivity.
        * rewrite comps_joinc in Ec by (try discriminate; apply Forall_nm_nosep; auto).
          exists (comps rest). exact Ec.
  Qed.

  (* ---- the parentDirs stack ---- *)
  Definition uncopied (l : list (bytes * bytes * bool)) : list bytes :=
    map (fun e => snd (fst e)) (filter (fun e => negb (snd e)) l).
  Fixpoint pend_paths (cs pend : list bytes) : list bytes :=
    match pend with
    | [] => []
    | p :: r => render (dcs ++ cs ++ [p]) :: pend_paths (cs ++ [p]) r
    end.
  Definition allc (l : list (bytes * bytes * bool)) : list (bytes * bytes * bool) := map (fun e => (fst e, true)) l.

  Lemma uncopied_app l1 l2 : uncopied (l1 ++ l2) = uncopied l1 ++ uncopied l2.
  Proof. unfold uncopied. rewrite filter_app, map_app. reflexivity. Qed.
  Lemma uncopied_allc l : uncopied (allc l) = [].
  Proof. induction l as [|e l IH]; auto. Qed.
  Lemma allc_app l1 l2 : allc (l1 ++ l2) = allc l1 ++ allc l2.
  Proof. apply map_app. Qed.
  Lemma allc_idem l : allc (allc l) = allc l.
  Proof. unfold allc. rewrite map_map. reflexivity. Qed.
  Lemma removelast_allc l : removelast (allc l) = allc (removelast l).
  Proof. induction l as [|e l IH]; auto. simpl. destruct l; auto. simpl in *. rewrite IH. reflexivity. Qed.
  Lemma allc_id l : uncopied l = [] -> allc l = l.
  Proof.
    induction l as [|[[a b0] [|]] l IH]; intros H; auto.
    - simpl. rewrite IH; auto.
    - discriminate.
  Qed.
  Lemma pend_paths_app cs p1 p2 : pend_paths cs (p1 ++ p2) = pend_paths cs p1 ++ pend_paths (cs ++ p1) p2.
  Proof.
    revert cs. induction p1 as [|p p1 IH]; intros cs; simpl; [rewrite app_nil_r; auto|].
    rewrite IH. rewrite <- app_assoc. reflexivity.
  Qed.

  (* ---- removeTargetIfNeeded + forgetLinkSources + ensureEmptyFileTarget ---- *)
  Lemma prep_rest_spec s s' r cs d x o fi tfi : Tgt (s_fs s) cs d x ->
    (tfi = None -> forgotten s (tpath cs x)) ->
    prep_rest c o (tpath cs x) fi tfi s = (s', r) ->
    stays d s s' /\ s_parents s' = s_parents s /\
    (r = inl tt -> kind_is_dir fi = false -> absent (s_fs s') d x).
  Proof.
    intros T Hf H. unfold prep_rest in H. rewrite bind_run in H.
    assert (Hd : is_dir (s_fs s) d = true) by (eapply tgt_dir; eauto).
    assert (Hpar : forall a b0, stays d a b0 -> s_parents b0 = s_parents a) by (intros a b0 (_ & _ & _ & _ & Q); exact Q).
    destruct (remove_target_if_needed c o (tpath cs x) fi tfi s) as [s2 [[]|e]] eqn:E2.
    2:{ injection H as <- <-. destruct (remove_target_spec c f0 dr dcs s s2 _ cs d x o fi tfi T E2) as (S2 & P2).
        split; auto. split; [apply Hpar; auto|discriminate]. }
    destruct (remove_target_spec c f0 dr dcs s s2 _ cs d x o fi tfi T E2) as (S2 & P2).
    assert (T2 : Tgt (s_fs s2) cs d x) by (eapply tgt_stays; eauto).
    destruct (kind_is_dir fi) eqn:Ek.
    - cbn [ret] in H. injection H as <- <-. split; auto. split; [apply Hpar; auto|]. intros; discriminate.
    - rewrite bind_run in H.
      assert (Hpre : forall s3, (match tfi with Some _ => forget_links (tpath cs x) | None => ret tt end) s2 = (s3, inl tt) ->
                stays d s2 s3 /\ s_fs s3 = s_fs s2 /\ forgotten s3 (tpath cs x)).
      { intros s3 E3. destruct tfi as [ti|].
        - destruct (forget_links_spec c f0 dr dcs (tpath cs x) s2 d (tg_ctx _ _ _ _ _ _ _ _ T2)) as (G1 & G2 & G3).
          rewrite E3 in G1, G2, G3. cbn [fst] in *. auto.
        - cbn [ret] in E3. injection E3 as <-. split; [apply stays_refl; apply T2|]. split; auto. }
      destruct ((match tfi with Some _ => forget_links (tpath cs x) | None => ret tt end) s2) as [s3 [[]|e]] eqn:E3.
      2:{ exfalso. destruct tfi; [rewrite forget_links_run in E3|cbn [ret] in E3]; discriminate. }
      destruct (Hpre s3 eq_refl) as (S3 & F3 & Hfg).
      assert (T3 : Tgt (s_fs s3) cs d x) by (rewrite F3; auto).
      destruct (ensure_empty_file_target c (tpath cs x) s3) as [s4 [[]|e]] eqn:E4.
      + destruct (ensure_empty_spec c f0 dr dcs s3 s4 _ cs d x T3 (or_introl Hfg) E4) as (S4 & _ & P4).
        injection H as <- <-.
        assert (S24 : stays d s s4) by (eapply stays_trans; [exact Hd|exact S2|]; eapply stays_trans; [eapply tgt_dir; eauto|exact S3|exact S4]).
        split; [exact S24|]. split; [apply Hpar; exact S24|]. intros _ _. apply P4. reflexivity.
      + destruct (ensure_empty_spec c f0 dr dcs s3 s4 _ cs d x T3 (or_introl Hfg) E4) as (S4 & _ & _).
        injection H as <- <-.
        assert (S24 : stays d s s4) by (eapply stays_trans; [exact Hd|exact S2|]; eapply stays_trans; [eapply tgt_dir; eauto|exact S3|exact S4]).
        split; [exact S24|]. split; [apply Hpar; exact S24|]. intros; discriminate.
  Qed.

  (* the target Lstat said "nothing there": no recorded hard-link path lies at or below the target *)
  Lemma tfi_none_forgotten s s1 L x : Ctx (s_fs s) -> lok s ->
    Forall nm L -> Forall nonul L -> nm x -> nonul x ->
    lstat_opt_nd c (render (dcs ++ L ++ [x])) s = (s1, inl None) -> forgotten s (render (dcs ++ L ++ [x])).
  Proof.
    intros C Lk HL HLn Hx Hxn H e He. destruct (forget_path (render (dcs ++ L ++ [x])) (snd e)) eqn:E; auto. exfalso.
    pose proof (cx_dcs _ _ _ _ _ C) as Hd.
    destruct (link_ok_tgt c f0 dr dcs _ _ C (Lk e He)) as (cs1 & x1 & d1 & i1 & Ep & T1 & Hb1 & Hi1 & (data & m & Hg1)).
    rewrite Ep in E. unfold FsCopySafeP.tpath in E.
    assert (Hm : Forall nm (dcs ++ cs1 ++ [x1])).
    { apply Forall_app; split; auto. apply Forall_app; split; [apply T1|constructor; [apply T1|constructor]]. }
    assert (Hl : Forall nm (dcs ++ L ++ [x])) by (apply Forall_app; split; auto; apply Forall_app; split; auto).
    destruct (forget_path_inv _ _ Hl Hm E) as (r & Er).
    rewrite <- !app_assoc in Er. apply app_inv_head in Er.
    (* the target names something that exists *)
    assert (Hex : exists dL i n, chain (s_fs s) dr L dL /\ blookup x (dents (s_fs s) dL) = Some i /\ get (s_fs s) i = Some n).
    { destruct r as [|r0 r' _] using rev_ind.
      - rewrite app_nil_r in Er. apply app_inj_tail in Er. destruct Er as [-> ->].
        exists d1, i1. eexists. split; [apply T1|]. split; eauto.
      - rewrite !app_assoc in Er. apply app_inj_tail in Er. destruct Er as [Ec _].
        pose proof (tg_chain _ _ _ _ _ _ _ _ T1) as Hc1. rewrite Ec in Hc1. rewrite <- app_assoc in Hc1.
        destruct (chain_split _ L dr ([x] ++ r') d1 Hc1) as (dL & P & Q).
        inversion Q as [|? ? i ? ? Bx Dx Rx]; subst.
        unfold is_dir, dir_of in Dx. destruct (get (s_fs s) i) as [n|] eqn:Eg; [|discriminate].
        exists dL, i, n. auto. }
    destruct Hex as (dL & i & n & HcL & Hb & Hg).
    assert (T : Tgt (s_fs s) L dL x) by (constructor; auto).
    destruct (lstat_opt_nd_spec c f0 dr dcs s s1 _ L dL x T H) as (_ & _ & Hab).
    eapply absent_not_some; eauto.
  Qed.

  (* ---- createParentDirs ---- *)
  Lemma stays_below d d1 q s s' : chain (s_fs s) d q d1 -> stays d1 s s' -> stays d s s'.
  Proof. intros Hq (C & A & L & K & P). split; auto. split; auto. eapply above_mono; eauto. Qed.

  Lemma stays_chain d s s' a p e q : stays d s s' -> chain (s_fs s) a p e -> chain (s_fs s) e q d -> chain (s_fs s') a p e.
  Proof. intros (_ & A & _) H1 H2. eapply A; eauto. Qed.

  Lemma pend_paths_nil cs pend : pend_paths cs pend = [] -> pend = [].
  Proof. destruct pend; [auto|discriminate]. Qed.

  Definition setp (s : cst) (l : list (bytes * bytes * bool)) : cst :=
    {| s_fs := s_fs s; s_links := s_links s; s_parents := l; s_reads := s_reads s |}.
  Lemma get_parents_run s : get_parents s = (s, inl (s_parents s)). Proof. reflexivity. Qed.
  Lemma set_parents_run l s : set_parents l s = (setp s l, inl tt). Proof. reflexivity. Qed.
  Lemma push_parent_run sp dp cp s : push_parent sp dp cp s = (setp s (s_parents s ++ [(sp, dp, cp)]), inl tt).
  Proof. reflexivity. Qed.
  Lemma pop_parent_run s : pop_parent s = (setp s (removelast (s_parents s)), inl tt).
  Proof. reflexivity. Qed.

  (* a step that may rewrite the parentDirs stack *)
  Lemma stays_ok_setp {A} d s l (r : A + N) : Ctx (s_fs s) -> stays_ok d s (setp s l) r.
  Proof. intros C. split; [exact C|]. split; [apply above_refl|]. split; [auto|apply keeps_new_refl]. Qed.

  (* ---- the reads of the source side ----
     R: the inodes a source read may name; SP: source paths; SPN: source paths that name something
     that is not a symlink (in every state).  The five facts are proved for disjoint roots in
     CopyFsSrcP.v; with R, SP, SPN := True they are trivial (the lemmas without "_r" below). *)
  Section Reads.
    Variable R : N -> Prop.
    Variables SP SPN : bytes -> Prop.
    Hypothesis HA : forall f p i, Ctx f -> SP p -> resolve_ino c f p false = inl i -> R i.
    Hypothesis HB : forall f p i n, Ctx f -> SP p -> resolve_ino c f p false = inl i -> get f i = Some n ->
      kind_is_link n = false -> SPN p.
    Hypothesis HC : forall f p j, Ctx f -> SPN p -> resolve_ino c f p true = inl j -> R j.
    Hypothesis HD : forall f p j pp es n, Ctx f -> SPN p -> resolve_ino c f p true = inl j ->
      dir_of f j = Some (pp, es) -> In n (map fst es) -> SP (join2 p n).
    Hypothesis HN : forall p, SPN p -> SP p.

    Definition rok (s : cst) : Prop := forall i, In i (s_reads s) -> R i.
    (* the source paths on the parentDirs stack name real directories *)
    Definition pok (l : list (bytes * bytes * bool)) : Prop := Forall (fun e => SPN (fst (fst e))) l.

    Lemma rok_same s s' : s_reads s' = s_reads s -> rok s -> rok s'.
    Proof. intros E H i Hi. rewrite E in Hi. auto. Qed.
    Lemma rok_cons s s' i : s_reads s' = i :: s_reads s -> R i -> rok s -> rok s'.
    Proof. intros E Hr H j Hj. rewrite E in Hj. destruct Hj as [<-|Hj]; auto. Qed.
    Lemma rok_nr {A} (m : M A) s s' r : NR m -> m s = (s', r) -> rok s -> rok s'.
    Proof. intros Hm E. apply rok_same. eapply Hm; eauto. Qed.

    Lemma sys_lstat_ino f p i n : snd (sys_lstat c f p) = RStat i n -> resolve_ino c f p false = inl i /\ get f i = Some n.
    Proof.
      unfold sys_lstat. destruct (resolve_ino c f p false) as [j|e]; [|discriminate].
      destruct (get f j) as [m|] eqn:Eg; [|discriminate]. cbn [snd]. intros H. inversion H; subst. auto.
    Qed.
    Lemma sys_stat_ino f p i n : snd (sys_stat c f p) = RStat i n -> resolve_ino c f p true = inl i /\ get f i = Some n.
    Proof.
      unfold sys_stat. destruct (resolve_ino c f p true) as [j|e]; [|discriminate].
      destruct (get f j) as [m|] eqn:Eg; [|discriminate]. cbn [snd]. intros H. inversion H; subst. auto.
    Qed.

    Lemma pok_allc l : pok l -> pok (allc l).
    Proof. unfold pok, allc. intros H. rewrite Forall_map. exact H. Qed.
    Lemma pok_app l1 l2 : pok (l1 ++ l2) <-> pok l1 /\ pok l2.
    Proof. apply Forall_app. Qed.

    (* copyXAttrs: Lstat-like reads of the source entry *)
    Lemma copy_xattrs_reads s s' r dst src : Ctx (s_fs s) -> SP src ->
      copy_xattrs c dst src s = (s', r) -> rok s -> rok s'.
    Proof.
      intros C Hs H Rk. unfold copy_xattrs in H. rewrite bind_run, sys_run in H. cbn [fst snd] in H.
      rewrite sys_lstat_fs in H.
      destruct (snd (sys_lstat c (s_fs s) src)) as [|e|j n| | |] eqn:El;
        try (unfold fail in H; injection H as <- <-; exact Rk).
      destruct (sys_lstat_ino _ _ _ _ El) as [Er _].
      rewrite bind_run, log_read_run in H. cbn [s_fs s_links s_parents s_reads] in H.
      match type of H with set_xattrs _ _ _ ?sx = _ => assert (Rx : rok sx) end.
      { eapply rok_cons; [reflexivity| |exact Rk]. eapply HA; eauto. }
      eapply rok_nr; [apply NR_set_xattrs|exact H|exact Rx].
    Qed.

    Lemma finish_meta_reads s s' r cs d x i o fi src : Tgt (s_fs s) cs d x -> names_ss (s_fs s) d x i ->
      (kind_is_link fi = false -> FsP.is_link (s_fs s) i = false) -> SP src ->
      finish_meta c o fi src (tpath cs x) s = (s', r) -> rok s -> rok s'.
    Proof.
      intros T Hn Hl Hs H Rk. unfold finish_meta in H. rewrite bind_run in H.
      destruct (copy_file_info c o fi (tpath cs x) s) as [s1 [[]|e]] eqn:E1.
      - pose proof (copy_file_info_spec c f0 dr dcs s s1 _ cs d x i o fi T Hn Hl E1) as M1.
        assert (C1 : Ctx (s_fs s1)) by (destruct M1 as (M1 & _); apply M1).
        eapply copy_xattrs_reads; [exact C1|exact Hs|exact H|]. eapply rok_nr; [apply NR_copy_file_info|exact E1|exact Rk].
      - injection H as <- <-. eapply rok_nr; [apply NR_copy_file_info|exact E1|exact Rk].
    Qed.

    (* copyFile: os.Open(source) *)
    Lemma copy_file_reads s s' r src target : Ctx (s_fs s) -> SPN src ->
      copy_file c src target s = (s', r) -> rok s -> rok s'.
    Proof.
      intros C Hs H Rk. unfold copy_file in H. rewrite bind_run in H. unfold get_fs at 1 in H.
      destruct (resolve_ino c (s_fs s) src true) as [j|e] eqn:Er; [|unfold fail in H; injection H as <- <-; exact Rk].
      destruct (get (s_fs s) j) as [[[pp es|data|t|ty rd] m]|]; try (unfold fail in H; injection H as <- <-; exact Rk).
      rewrite bind_run, log_read_run in H.
      match type of H with bind _ _ ?sx = _ => assert (Rx : rok sx) end.
      { eapply rok_cons; [reflexivity| |exact Rk]. eapply HC; eauto. }
      revert H. match goal with |- ?m ?sx = _ -> _ => intros H; eapply (rok_nr m); [|exact H|exact Rx] end.
      nr.
    Qed.

    Lemma copy_regular_reads s s' r src target ino multi : Ctx (s_fs s) -> SPN src ->
      copy_regular c src target ino multi s = (s', r) -> rok s -> rok s'.
    Proof.
      intros C Hs H Rk. unfold copy_regular in H.
      destruct multi; [|eapply copy_file_reads; eauto].
      rewrite bind_run in H. unfold get_links at 1 in H.
      destruct (assoc_N ino (s_links s)) as [first|].
      - revert H. match goal with |- ?m s = _ -> _ => intros H; eapply (rok_nr m); [|exact H|exact Rk] end. nr.
      - rewrite bind_run in H. unfold add_link at 1 in H.
        eapply copy_file_reads; [| |exact H|]; auto.
    Qed.

    (* createParentDirs: os.Stat of the source directories whose copy was deferred *)
    Lemma create_parents_go_spec_r o ow : forall todo done cs d pend s s' r,
      Ctx (s_fs s) -> chain (s_fs s) dr cs d -> Forall nm cs -> Forall nonul cs -> Forall nm pend -> Forall nonul pend ->
      uncopied todo = pend_paths cs pend ->
      create_parents_go c o ow todo done s = (s', r) ->
      (stays d s s' /\ s_links s' = s_links s /\
       (forall ps', r = inl ps' -> ps' = done ++ allc todo /\ exists d', chain (s_fs s') dr (cs ++ pend) d')) /\
      (pok todo -> rok s -> rok s').
    Proof.
      induction todo as [|[[sp dp] copied] rest IH]; intros done cs d pend s s' r C Hc Hcs Hcn Hp Hpn Hu H.
      - cbn [create_parents_go ret] in H. injection H as <- <-. simpl in Hu. symmetry in Hu. apply pend_paths_nil in Hu. subst pend.
        split; [|auto].
        split; [apply stays_refl; auto|]. split; [reflexivity|]. intros ps' E. inversion E; subst. rewrite !app_nil_r. split; auto. eauto.
      - cbn [create_parents_go] in H. destruct copied.
        + assert (Hu' : uncopied rest = pend_paths cs pend) by exact Hu.
          destruct (IH _ cs d pend s s' r C Hc Hcs Hcn Hp Hpn Hu' H) as ((S & EL & P) & Rd).
          split; [|intros Hpk; inversion Hpk; subst; auto].
          split; auto. split; auto.
          intros ps' E. destruct (P ps' E) as (-> & Hd'). split; auto. rewrite <- app_assoc. reflexivity.
        + assert (Hd : is_dir (s_fs s) d = true) by (eapply chain_end_dir; eauto).
          destruct pend as [|p pend']; [discriminate|]. simpl in Hu. injection Hu as Edp Hu'.
          inversion Hp as [|? ? Hp1 Hp']; subst. inversion Hpn as [|? ? Hpn1 Hpn']; subst.
          rewrite bind_run, sys_run in H. cbn [fst snd] in H. rewrite sys_stat_fs in H.
          assert (Hfail : forall s1 (r1 : list (bytes * bytes * bool) + N), s_fs s1 = s_fs s -> s_links s1 = s_links s -> s_parents s1 = s_parents s ->
                    (forall a, r1 <> inl a) ->
                    stays d s s1 /\ s_links s1 = s_links s /\ (forall ps', r1 = inl ps' -> ps' = done ++ allc ((sp, render (dcs ++ cs ++ [p]), false) :: rest) /\
                                       exists d', chain (s_fs s1) dr (cs ++ p :: pend') d')).
          { intros s1 r1 E1 E2 E3 Hr. split; [apply stays_same; auto|]. split; auto. intros ps' E. exfalso. eapply Hr; eauto. }
          destruct (snd (sys_stat c (s_fs s) sp)) as [|e|si sfi| | |] eqn:Est;
            try (unfold fail in H; injection H as <- <-; split; [apply Hfail; auto; discriminate|intros _ Rk; exact Rk]).
          rewrite bind_run, log_read_run in H. cbn [s_fs s_links s_parents s_reads] in H.
          set (s1 := {| s_fs := s_fs s; s_links := s_links s; s_parents := s_parents s; s_reads := si :: s_reads s |}) in H.
          assert (Rd1 : pok ((sp, render (dcs ++ cs ++ [p]), false) :: rest) -> rok s -> rok s1).
          { intros Hpk Rk. inversion Hpk as [|? ? Hsp _]; subst. cbn [fst] in Hsp.
            eapply rok_cons; [reflexivity| |exact Rk]. destruct (sys_stat_ino _ _ _ _ Est) as [Er _]. eapply HC; eauto. }
          destruct (negb (kind_is_dir sfi)); [unfold fail in H; injection H as <- <-; split; [apply Hfail; auto; discriminate|exact Rd1]|].
          rewrite bind_run in H.
          assert (T1 : Tgt (s_fs s1) cs d p) by (constructor; auto).
          assert (S1 : stays d s s1) by (apply stays_same; auto).
          change (render (dcs ++ cs ++ [p])) with (tpath cs p) in *.
          destruct (copy_directory_only c (tpath cs p) sfi ow s1) as [s2 [created|e]] eqn:E2.
          2:{ injection H as <- <-. destruct (copy_directory_only_spec c f0 dr dcs s1 s2 _ cs d p sfi ow T1 E2) as (S2 & EL2 & _).
              split; [split; [eapply stays_trans; [exact Hd|exact S1|exact S2]|split; [exact EL2|discriminate]]|].
              intros Hpk Rk. eapply rok_nr; [apply NR_copy_directory_only|exact E2|auto]. }
          destruct (copy_directory_only_spec c f0 dr dcs s1 s2 _ cs d p sfi ow T1 E2) as (S2 & EL2 & P2).
          assert (Rd2 : pok ((sp, tpath cs p, false) :: rest) -> rok s -> rok s2).
          { intros Hpk Rk. eapply rok_nr; [apply NR_copy_directory_only|exact E2|auto]. }
          destruct (P2 created eq_refl) as (d1 & Hb1 & Hd1).
          assert (T2 : Tgt (s_fs s2) cs d p) by (eapply tgt_stays; eauto).
          assert (Hc2 : chain (s_fs s2) dr (cs ++ [p]) d1) by (eapply chain_snoc; eauto; apply T2).
          assert (Hq2 : chain (s_fs s2) d [p] d1) by (econstructor; eauto; constructor; auto).
          assert (S12 : stays d s s2) by (eapply stays_trans; [exact Hd|exact S1|exact S2]).
          rewrite bind_run in H.
          (* metadata of a created parent *)
          assert (Hmeta : forall s3 r3, (if created then copy_file_info c o sfi (tpath cs p) ;;; copy_xattrs c (tpath cs p) sp else ret tt) s2 = (s3, r3) ->
                    mstep s2 s3 /\ (SP sp -> rok s2 -> rok s3)).
          { intros s3 r3 E3. destruct created; [|cbn [ret] in E3; inversion E3; subst; split; [apply mstep_refl; apply T2|auto]].
            assert (Hn : names_ss (s_fs s2) d p d1).
            { split; auto. eapply (chain_SS f0 dr (s_fs s2)); [eapply tgt_inv; eauto|exact Hc2|eapply ctx_dr_SS; apply T2]. }
            assert (Hl : kind_is_link sfi = false -> FsP.is_link (s_fs s2) d1 = false).
            { intros _. unfold FsP.is_link. unfold is_dir, dir_of in Hd1. destruct (get (s_fs s2) d1) as [[[? ?|?|?|? ?] ?]|]; auto; discriminate. }
            split.
            - rewrite bind_run in E3.
              destruct (copy_file_info c o sfi (tpath cs p) s2) as [s2' [[]|e]] eqn:E4.
              + pose proof (copy_file_info_spec c f0 dr dcs s2 s2' _ cs d p d1 o sfi T2 Hn Hl E4) as M4.
                eapply mstep_trans; [exact M4|].
                eapply copy_xattrs_spec; [eapply mstep_tgt; eauto|eapply mstep_names; eauto|eauto].
              + inversion E3; subst. eapply copy_file_info_spec; eauto.
            - intros Hsp Rk. eapply (finish_meta_reads s2 s3 r3 cs d p d1 o sfi sp); eauto. }
          destruct ((if created then copy_file_info c o sfi (tpath cs p) ;;; copy_xattrs c (tpath cs p) sp else ret tt) s2) as [s3 [[]|e]] eqn:E3.
          2:{ injection H as <- <-. destruct (Hmeta s3 _ eq_refl) as (M3 & Rd3).
              split; [split; [eapply stays_trans; [exact Hd|exact S12|apply mstep_stays; eauto]|]|].
              - split; [|discriminate]. destruct M3 as (_ & E & _). rewrite E. exact EL2.
              - intros Hpk Rk. apply Rd3; auto. inversion Hpk as [|? ? Hsp _]; subst. apply HN. exact Hsp. }
          destruct (Hmeta s3 _ eq_refl) as (M3 & Rd3).
          assert (S23 : stays d s2 s3) by (apply mstep_stays; auto).
          assert (Hc3 : chain (s_fs s3) dr (cs ++ [p]) d1).
          { eapply (stays_chain d1 s2 s3); [apply mstep_stays; exact M3|exact Hc2|]. constructor; auto. }
          assert (C3 : Ctx (s_fs s3)) by apply S23.
          assert (Hu3 : uncopied rest = pend_paths (cs ++ [p]) pend') by exact Hu'.
          destruct (IH (done ++ [(sp, tpath cs p, true)]) (cs ++ [p]) d1 pend' s3 s' r C3 Hc3) as ((S4 & EL4 & P4) & Rd4); auto;
            try (apply Forall_app; split; auto).
          assert (Hq3 : chain (s_fs s3) d [p] d1).
          { eapply (stays_chain d1 s2 s3); [apply mstep_stays; exact M3|exact Hq2|]. constructor; auto. }
          split; [split; [|split]|].
          * eapply stays_trans; [exact Hd|exact S12|]. eapply stays_trans; [eapply tgt_dir; eauto|exact S23|].
            eapply stays_below; eauto.
          * destruct M3 as (_ & E & _). rewrite EL4, E. exact EL2.
          * intros ps' E. destruct (P4 ps' E) as (-> & d' & Hd'). split.
            -- rewrite <- app_assoc. reflexivity.
            -- exists d'. rewrite <- app_assoc in Hd'. exact Hd'.
          * intros Hpk Rk. inversion Hpk as [|? ? Hsp Hrest]; subst. cbn [fst] in Hsp.
            apply Rd4; auto; apply Rd3; auto.
    Qed.

    Lemma create_parent_dirs_spec_r o ow cs d pend s s' r :
      Ctx (s_fs s) -> chain (s_fs s) dr cs d -> Forall nm cs -> Forall nonul cs -> Forall nm pend -> Forall nonul pend ->
      uncopied (s_parents s) = pend_paths cs pend ->
      create_parent_dirs c o ow s = (s', r) ->
      (stays_ok d s s' r /\ (lok s -> lok s') /\ s_links s' = s_links s /\
       (r = inl tt -> s_parents s' = allc (s_parents s) /\ exists d', chain (s_fs s') dr (cs ++ pend) d')) /\
      (pok (s_parents s) -> rok s -> rok s').
    Proof.
      intros C Hc H1 H2 H3 H4 Hu H. unfold create_parent_dirs in H. rewrite bind_run, get_parents_run in H. rewrite bind_run in H.
      destruct (create_parents_go c o ow (s_parents s) [] s) as [s1 [ps'|e]] eqn:E1.
      - destruct (create_parents_go_spec_r o ow _ [] cs d pend s s1 _ C Hc H1 H2 H3 H4 Hu E1) as ((S1 & EL1 & P1) & Rd1).
        destruct (P1 ps' eq_refl) as (-> & d' & Hd'). rewrite set_parents_run in H. injection H as <- <-.
        destruct S1 as (C1 & A1 & L1 & K1 & Q1).
        split; [|exact Rd1].
        split; [split; auto; split; auto; split; auto|]. split; [exact L1|]. split; [exact EL1|].
        intros _. split; [reflexivity|eauto].
      - destruct (create_parents_go_spec_r o ow _ [] cs d pend s s1 _ C Hc H1 H2 H3 H4 Hu E1) as ((S1 & EL1 & _) & Rd1).
        injection H as <- <-. destruct S1 as (C1 & A1 & L1 & K1 & Q1).
        split; [|exact Rd1].
        split; [split; auto; split; auto; split; auto|]. split; [exact L1|]. split; [exact EL1|discriminate].
    Qed.

    (* the loop over the children, with an invariant, the reads included *)
    Lemma each_m_inv_r (P : bytes -> Prop) (I : cst -> Prop) g d :
      (forall s, I s -> Ctx (s_fs s) /\ is_dir (s_fs s) d = true) ->
      (forall n s s' r, P n -> I s -> lok s -> rok s -> g n s = (s', r) -> stays_ok d s s' r /\ (ok_res r -> I s') /\ rok s') ->
      forall ns, Forall P ns -> forall s s' r, I s -> lok s -> rok s ->
        each_m g ns s = (s', r) -> stays_ok d s s' r /\ (ok_res r -> I s') /\ rok s'.
    Proof.
      intros HI Hg ns Hall. induction Hall as [|n ns Hn Hns IH]; intros s s' r Is L Rk H.
      - cbn [each_m ret] in H. injection H as <- <-. split; [|auto]. apply stays_stays_ok. apply stays_refl. apply HI; auto.
      - cbn [each_m] in H. rewrite bind_run in H. destruct (HI s Is) as [C Hd].
        destruct (g n s) as [s1 [[]|e]] eqn:E1.
        + destruct (Hg n s s1 _ Hn Is L Rk E1) as (S1 & I1 & Rk1). specialize (I1 (ex_intro _ tt eq_refl)).
          assert (L1 : lok s1) by (destruct S1 as (_ & _ & L1 & _); apply L1; auto; exists tt; reflexivity).
          destruct (IH s1 s' r I1 L1 Rk1 H) as (S2 & I2 & Rk2). split; [|auto].
          eapply (stays_ok_seq c f0 dr dcs d s s1 s' tt); eauto.
        + injection H as <- <-. destruct (Hg n s s1 _ Hn Is L Rk E1) as (S1 & _ & Rk1). split; [|split; [intros [a Ha]; discriminate|exact Rk1]].
          eapply stays_ok_fail; eauto.
      Qed.
  End Reads.

  Lemma create_parents_go_spec o ow : forall todo done cs d pend s s' r,
    Ctx (s_fs s) -> chain (s_fs s) dr cs d -> Forall nm cs -> Forall nonul cs -> Forall nm pend -> Forall nonul pend ->
    uncopied todo = pend_paths cs pend ->
    create_parents_go c o ow todo done s = (s', r) ->
    stays d s s' /\ s_links s' = s_links s /\
    (forall ps', r = inl ps' -> ps' = done ++ allc todo /\ exists d', chain (s_fs s') dr (cs ++ pend) d').
  Proof.
    intros todo done cs d pend s s' r C Hc H1 H2 H3 H4 Hu H.
    pose proof (create_parents_go_spec_r (fun _ => True) (fun _ => True) (fun _ => True)) as G.
    eapply G; eauto; intros; exact I.
  Qed.

  Lemma create_parent_dirs_spec o ow cs d pend s s' r :
    Ctx (s_fs s) -> chain (s_fs s) dr cs d -> Forall nm cs -> Forall nonul cs -> Forall nm pend -> Forall nonul pend ->
    uncopied (s_parents s) = pend_paths cs pend ->
    create_parent_dirs c o ow s = (s', r) ->
    stays_ok d s s' r /\ (lok s -> lok s') /\ s_links s' = s_links s /\
    (r = inl tt -> s_parents s' = allc (s_parents s) /\ exists d', chain (s_fs s') dr (cs ++ pend) d').
  Proof.
    intros C Hc H1 H2 H3 H4 Hu H.
    pose proof (create_parent_dirs_spec_r (fun _ => True) (fun _ => True) (fun _ => True)) as G.
    eapply G; eauto; intros; exact I.
  Qed.

  (* ---- the loop over the children, with an invariant ---- *)
  Lemma each_m_inv (I : cst -> Prop) g d :
    (forall s, I s -> Ctx (s_fs s) /\ is_dir (s_fs s) d = true) ->
    (forall n s s' r, okn n -> I s -> lok s -> g n s = (s', r) -> stays_ok d s s' r /\ (ok_res r -> I s')) ->
    forall ns, Forall okn ns -> forall s s' r, I s -> lok s ->
      each_m g ns s = (s', r) -> stays_ok d s s' r /\ (ok_res r -> I s').
  Proof.
    intros HI Hg ns Hall. induction Hall as [|n ns Hn Hns IH]; intros s s' r Is L H.
    - cbn [each_m ret] in H. injection H as <- <-. split; auto. apply stays_stays_ok. apply stays_refl. apply HI; auto.
    - cbn [each_m] in H. rewrite bind_run in H. destruct (HI s Is) as [C Hd].
      destruct (g n s) as [s1 [[]|e]] eqn:E1.
      + destruct (Hg n s s1 _ Hn Is L E1) as (S1 & I1). specialize (I1 (ex_intro _ tt eq_refl)).
        assert (L1 : lok s1) by (destruct S1 as (_ & _ & L1 & _); apply L1; auto; exists tt; reflexivity).
        destruct (IH s1 s' r I1 L1 H) as (S2 & I2). split; auto.
        eapply (stays_ok_seq c f0 dr dcs d s s1 s' tt); eauto.
      + injection H as <- <-. destruct (Hg n s s1 _ Hn Is L E1) as (S1 & _). split; [|intros [a Ha]; discriminate].
        eapply stays_ok_fail; eauto.
  Qed.

  Lemma lstat_opt_nd_pure p s s' r : lstat_opt_nd c p s = (s', r) ->
    s_fs s' = s_fs s /\ s_links s' = s_links s /\ s_parents s' = s_parents s.
  Proof.
    unfold lstat_opt_nd. rewrite bind_run, sys_run. cbn [fst snd]. rewrite sys_lstat_fs.
    destruct (snd (sys_lstat c (s_fs s) p)) as [|e|i n| | |]; try (intros H; inversion H; subst; auto; fail).
    destruct e; intros H; inversion H; subst; auto.
  Qed.

  Lemma chain_last f cs d x d1 d' : chain f dr (cs ++ [x]) d1 -> chain f dr cs d' -> d' = d ->
    blookup x (dents f d) = Some d1 /\ is_dir f d1 = true.
  Proof.
    intros H Hc ->. destruct (chain_split f cs dr [x] d1 H) as (m & P & Q).
    rewrite (chain_fun _ _ _ _ P _ Hc) in Q. inversion Q as [|? ? i ? ? Bx Dx Rx]; subst. inversion Rx; subst. auto.
  Qed.

  Lemma join2_names L n : Forall nm L -> nm n -> join2 (render L) n = render (L ++ [n]).
  Proof.
    intros HL Hn. rewrite join2_render by auto. rewrite stk_from_single by (destruct Hn; auto).
    rewrite cstep_normal by (destruct Hn; auto). simpl rev. rewrite rev_involutive. reflexivity.
  Qed.

  (* what a copier.copy leaves of the stack: untouched, or every pending parent made *)
  Definition stack_post (cs pend : list bytes) (s s' : cst) : Prop :=
    s_parents s' = s_parents s \/
    (s_parents s' = allc (s_parents s) /\ exists d', chain (s_fs s') dr (cs ++ pend) d').
End Rec.
