(* The walk as the code runs it = the reference over the NAIVE verdict, for views on which
   no late shadow occurs. *)
From Coq Require Import List NArith Lia Bool.
From FS Require Import Sx Model.Path Model.Stat Model.Tree Model.Pattern Model.FilterWalk
  Proofs.Lex Proofs.PathP Proofs.ValidatorP Proofs.PatternP Proofs.FilterP Proofs.IncrNaiveP
  Proofs.RefP Proofs.PruneP.
Import ListNotations.
Open Scope bool_scope.

Lemma name_ok_inv name : name_ok name = true -> name <> [] /\ nosep name /\ normal name.
Proof.
  unfold name_ok. intros H. repeat (apply andb_true_iff in H; destruct H as [H ?]).
  assert (Hne : name <> []) by (destruct name; [discriminate|discriminate]).
  repeat split; auto.
  - apply no_sep_nosep; auto.
  - apply bytes_eqb_neq. apply negb_true_iff. auto.
  - apply bytes_eqb_neq. apply negb_true_iff. auto.
Qed.

Lemma wf_strict_node_wf : forall n, wf_strict_node n = true -> wf_node n = true.
Proof.
  induction n as [name st ct kids IHk] using node_ind2. cbn [wf_strict_node wf_node]. intros H.
  apply andb_true_iff in H. destruct H as [H1 H2].
  unfold name_ok in H1. repeat (apply andb_true_iff in H1; destruct H1 as [H1 ?]).
  rewrite H1. match goal with H : no_sep name = true |- _ => rewrite H end. cbn [andb].
  rewrite forallb_forall in *. rewrite Forall_forall in IHk. auto.
Qed.

Lemma wf_strict_wf view : wf_strict view = true -> wf_view view = true.
Proof.
  unfold wf_strict, wf_view. rewrite !forallb_forall. intros H n Hin. apply wf_strict_node_wf; auto.
Qed.

Section Ext.
Variable mapfn : bytes -> stat -> mres * stat.
Variables V1 V2 : bytes -> bool.
Let Q := fun p => eqb (V1 p) (V2 p).

Lemma ref_node_ext : forall n dir blocked, all_paths_node Q dir n = true ->
  ref_node V1 mapfn blocked dir n = ref_node V2 mapfn blocked dir n.
Proof.
  induction n as [name st ct kids IHk] using node_ind2. intros dir blocked H.
  cbn [all_paths_node] in H. apply andb_true_iff in H. destruct H as [HQ Hk].
  unfold Q in HQ. apply eqb_prop in HQ.
  rewrite !ref_node_eq. cbv zeta. rewrite HQ.
  assert (Hf : forall b, ref_forest V1 mapfn b (child_path dir name) kids = ref_forest V2 mapfn b (child_path dir name) kids).
  { intros b. clear -IHk Hk. induction kids as [|k r IH]; [reflexivity|]. cbn [ref_forest].
    inversion IHk as [|? ? H1 H2]; subst. cbn [forallb] in Hk. apply andb_true_iff in Hk. destruct Hk as [Hk1 Hk2].
    rewrite (H1 _ b Hk1). rewrite (IH H2 Hk2). reflexivity. }
  assert (Hb : forall b isd, ref_below V1 mapfn b isd (child_path dir name) kids = ref_below V2 mapfn b isd (child_path dir name) kids).
  { intros b isd. unfold ref_below. destruct isd; auto. }
  rewrite !Hb. reflexivity.
Qed.

Lemma reference_ext view : all_paths Q view = true -> reference V1 mapfn view = reference V2 mapfn view.
Proof.
  unfold all_paths, reference. intros H. f_equal.
  induction view as [|k r IH]; [reflexivity|]. cbn [ref_forest].
  cbn [forallb] in H. apply andb_true_iff in H. destruct H as [H1 H2].
  rewrite (ref_node_ext k [] false H1). rewrite (IH H2). reflexivity.
Qed.
End Ext.

Section NaiveRef.
Variable pmatch : bytes -> bytes -> bool.
Variable c : cfg.

Lemma keep_incr_naive p : okc (pcomps p) -> nls_path pmatch c p = true ->
  keep_incr pmatch c p = keep_naive pmatch c p.
Proof.
  intros Hok Hn. unfold nls_path in Hn. apply andb_true_iff in Hn. destruct Hn as [H1 H2].
  unfold keep_incr, keep_naive. f_equal; [|f_equal].
  - destruct (c_inc c) as [pats|]; auto. rewrite (incr_eq_naive_proof pmatch pats _ Hok H1). rewrite joinc_pcomps. reflexivity.
  - destruct (c_exc c) as [pats|]; auto. rewrite (incr_eq_naive_proof pmatch pats _ Hok H2). rewrite joinc_pcomps. reflexivity.
Qed.

Lemma okc_child cs name : cs = [] \/ okc cs -> nosep name -> normal name -> okc (cs ++ [name]).
Proof.
  intros Hcs Hn Hnm. split; [destruct cs; discriminate|].
  destruct Hcs as [->|(_ & H1 & H2)].
  - split; constructor; auto.
  - split; apply Forall_app; split; auto.
Qed.

Lemma all_paths_keep : forall n dir, wf_strict_node n = true -> (pcomps dir = [] \/ okc (pcomps dir)) ->
  all_paths_node (nls_path pmatch c) dir n = true ->
  all_paths_node (fun p => eqb (keep_incr pmatch c p) (keep_naive pmatch c p)) dir n = true.
Proof.
  induction n as [name st ct kids IHk] using node_ind2. intros dir Hwf Hdir H.
  cbn [wf_strict_node] in Hwf. apply andb_true_iff in Hwf. destruct Hwf as [Hname Hkids].
  apply name_ok_inv in Hname. destruct Hname as (Hne & Hns & Hnm).
  cbn [all_paths_node] in *. apply andb_true_iff in H. destruct H as [HQ Hk].
  assert (Hok : okc (pcomps (child_path dir name))).
  { rewrite pcomps_child by auto. apply okc_child; auto. }
  apply andb_true_iff. split.
  - rewrite (keep_incr_naive _ Hok HQ). apply eqb_reflx.
  - rewrite forallb_forall in *. rewrite Forall_forall in IHk. intros k Hin. apply IHk; auto.
Qed.

Lemma all_paths_keep_view view : wf_strict view = true -> all_paths (nls_path pmatch c) view = true ->
  all_paths (fun p => eqb (keep_incr pmatch c p) (keep_naive pmatch c p)) view = true.
Proof.
  unfold wf_strict, all_paths. rewrite !forallb_forall. intros Hwf H n Hin.
  apply all_paths_keep; auto.
Qed.

Theorem filter_walk_naive_reference_proof mapfn view :
  prefix_semantics pmatch -> cfg_star_safe c = true -> wf_strict view = true ->
  all_paths (nls_path pmatch c) view = true ->
  filter_walk pmatch mapfn c view = reference (keep_naive pmatch c) mapfn view.
Proof.
  intros Hsem Hsafe Hwf Hnls. pose proof (wf_strict_wf view Hwf) as Hwf'.
  rewrite (prune_unobservable_proof pmatch mapfn Hsem c Hsafe view Hwf').
  rewrite filter_walk_reference_proof by auto.
  apply reference_ext. apply all_paths_keep_view; auto.
Qed.
End NaiveRef.
