(* transfer_resolves_same for requests whose last component is a bare star (the include set
   then holds patterns L/star, the one non-literal pattern shape C10's prefix_semantics gives a
   meaning to).  Part 1: shape of the resolved keys - a star can only be the last component. *)
From Coq Require Import List NArith Bool Lia Arith.
From FS Require Import Sx Model.Path Model.Stat Model.Tree Model.FollowLinks Model.Pattern Model.FilterWalk Model.FollowTransfer
     Proofs.Lex Proofs.PathP Proofs.ValidatorP Proofs.PatternP Proofs.IncrNaiveP
     Proofs.FilterP Proofs.PruneP Proofs.RefP Proofs.FlatRefP
     Proofs.FollowLinksP Proofs.FollowLinksClosedP Proofs.FollowLinksWildP Proofs.FollowTransferP.
Import ListNotations.
Open Scope N_scope.
Open Scope bool_scope.

Definition psafe (c : bytes) : Prop := psafe_comp c = true.

Fixpoint slast (q : list bytes) : Prop :=
  match q with
  | [] => True
  | c :: r => match r with [] => psafe c \/ c = s_star | _ => psafe c /\ slast r end
  end.

Lemma star_last_c_slast q : star_last_c q = true -> slast q.
Proof.
  induction q as [|c r IH]; intros H; [exact I|]. cbn [star_last_c slast] in *. destruct r as [|c2 r].
  - apply orb_true_iff in H. destruct H as [H|H]; [left; exact H|right; apply bytes_eqb_eq; exact H].
  - apply andb_true_iff in H. destruct H as [H1 H2]. split; [exact H1|apply IH; exact H2].
Qed.

Lemma slast_tail c r : slast (c :: r) -> slast r.
Proof. destruct r; [intros; exact I|intros [_ H]; exact H]. Qed.
Lemma slast_head c r : r <> [] -> slast (c :: r) -> psafe c.
Proof. destruct r; [congruence|intros _ [H _]; exact H]. Qed.
Lemma slast_single c : slast [c] -> psafe c \/ c = s_star.
Proof. intros H; exact H. Qed.
Lemma slast_all q : Forall psafe q -> slast q.
Proof. induction 1 as [|c r Hc Hr IH]; [exact I|]. cbn [slast]. destruct r; [left; exact Hc|split; auto]. Qed.
Lemma slast_app a b : Forall psafe a -> slast b -> slast (a ++ b).
Proof.
  induction a as [|c a IH]; intros Ha Hb; [exact Hb|]. inversion Ha as [|? ? Hc Ha']; subst.
  cbn [app slast]. specialize (IH Ha' Hb). destruct (a ++ b) eqn:E; [left; exact Hc|]. split; [exact Hc|exact IH].
Qed.

Section StarShape.
Variable gmatch : bytes -> bytes -> bool.
Variable view : list node.
Variable reqs : list bytes.
Hypothesis Hlinks : forall l, In l (forest_links view) -> Forall psafe (comps l).

(* a resolved key: the root, or literal components followed by a literal one or a star *)
Definition skey (k : bytes) : Prop :=
  k = s_dot \/ exists cs c, PCN view reqs (cs ++ [c]) /\ Forall psafe cs /\ (psafe c \/ c = s_star) /\ k = joinc (cs ++ [c]).

Definition newsk (a b : fstate) : Prop := forall k, In k (resolved b) -> In k (resolved a) \/ skey k.
Lemma newsk_refl a : newsk a a. Proof. intros q H; left; exact H. Qed.
Lemma newsk_trans a b c : newsk a b -> newsk b c -> newsk a c.
Proof. intros H1 H2 q Hq. destruct (H2 q Hq) as [H|H]; [apply H1; exact H|right; exact H]. Qed.
Lemma newsk_add k st : skey k -> newsk st (add_resolved k st).
Proof. intros Hk q [<-|Hq]; [right; exact Hk|left; exact Hq]. Qed.

Definition star_rec (rec : rec_t) : Prop :=
  forall st p st', PCN view reqs p -> slast p -> rec st p = Ok st' -> newsk st st'.

Lemma read_symlink1_psafe dirc name : Forall psafe dirc -> Forall (Forall psafe) (read_symlink1 view dirc name).
Proof.
  intros Hd. unfold read_symlink1. destruct (stat_node view (dirc ++ [name])) as [n|] eqn:E; [|constructor].
  destruct (node_is_symlink n); [|constructor]. constructor; [|constructor].
  unfold link_target. apply norm_clamp_forall. apply Forall_app. split.
  - destruct (is_abs (node_link n)); [constructor|exact Hd].
  - apply Hlinks. unfold stat_node in E. eapply lookup_link; eauto.
Qed.

Lemma read_symlink_psafe dirc c : Forall psafe dirc -> Forall (Forall psafe) (read_symlink gmatch view dirc c).
Proof.
  intros Hd. unfold read_symlink. destruct (contains_wildcards c); [|apply read_symlink1_psafe; exact Hd].
  destruct (read_dir view dirc) as [kids|]; [|constructor]. apply Forall_forall. intros t Ht.
  apply in_flat_map in Ht. destruct Ht as (k & _ & Hk). destruct (gmatch c (node_name k)); [|destruct Hk].
  pose proof (read_symlink1_psafe dirc (node_name k) Hd) as H. rewrite Forall_forall in H. auto.
Qed.

Lemma each_target_star rec rest ts : star_rec rec -> PCN view reqs rest -> slast rest ->
  Forall (PCN view reqs) ts -> Forall (Forall psafe) ts -> forall st st',
  each_target rec rest ts st = Ok st' -> newsk st st'.
Proof.
  intros Hrec Hrest Hsl. induction ts as [|t ts IH]; intros Hts Hps st st' H; simpl in H.
  - inversion H; subst. apply newsk_refl.
  - inversion Hts as [|? ? Ht Hts']; subst. inversion Hps as [|? ? Hp Hps']; subst.
    destruct (rec st (norm_clamp (t ++ rest))) as [st1|] eqn:E; [|discriminate].
    assert (Hid : norm_clamp (t ++ rest) = t ++ rest).
    { apply norm_clamp_normal_id. apply Forall_app. split; apply (PCN_normal view reqs); auto. }
    rewrite Hid in E.
    assert (X : newsk st st1).
    { apply (Hrec _ _ _ (PCN_app view reqs _ _ Ht Hrest) (slast_app _ _ Hp Hsl) E). }
    eapply newsk_trans; [exact X|]. apply (IH Hts' Hps' _ _ H).
Qed.

Lemma loop_star rec : star_rec rec -> forall p cur st st', PCN view reqs cur -> Forall psafe cur ->
  PCN view reqs p -> slast p -> loop gmatch view rec cur p st = Ok st' -> newsk st st'.
Proof.
  intros Hrec. induction p as [|c rest IH]; intros cur st st' Hcur Hpc Hp Hsl H.
  - simpl in H. inversion H; subst. apply newsk_refl.
  - inversion Hp as [|? ? Hc Hrest]; subst. cbn [loop] in H.
    assert (Hcur' : PCN view reqs (cur ++ [c])) by (apply PCN_app; auto; constructor; auto).
    assert (Hlast : rest = [] -> psafe c \/ c = s_star) by (intros ->; exact Hsl).
    assert (Hmid : rest <> [] -> psafe c) by (intros Hne; apply (slast_head c rest Hne Hsl)).
    assert (Hk : skey (key (cur ++ [c]))).
    { right. exists cur, c. split; [exact Hcur'|]. split; [exact Hpc|]. split.
      - destruct rest; [apply Hlast; reflexivity|left; apply Hmid; discriminate].
      - destruct cur; reflexivity. }
    set (k := key (cur ++ [c])) in *. set (ts := read_symlink gmatch view cur c) in *.
    destruct (mem k (resolved st)) eqn:Em.
    + destruct (FollowLinks.is_nil rest || negb (FollowLinks.is_nil ts)) eqn:Eo; cbn [andb] in H.
      * inversion H; subst. intros q Hq. left. rewrite resolved_note_revisit in Hq. exact Hq.
      * apply orb_false_iff in Eo. destruct Eo as [E1 E2]. rewrite E2, E1 in H.
        apply (IH _ _ _ Hcur'); auto.
        -- apply Forall_app. split; [exact Hpc|]. constructor; [|constructor]. apply Hmid. destruct rest; discriminate.
        -- apply (slast_tail c). exact Hsl.
    + rewrite andb_false_r in H. destruct (negb (FollowLinks.is_nil ts)) eqn:Eh.
      * eapply newsk_trans; [apply (newsk_add k st Hk)|].
        refine (each_target_star rec rest ts Hrec Hrest (slast_tail c rest Hsl) _ _ _ _ H).
        -- apply read_symlink_PCN. exact Hcur.
        -- apply read_symlink_psafe. exact Hpc.
      * destruct (FollowLinks.is_nil rest) eqn:El.
        -- inversion H; subst. apply newsk_add. exact Hk.
        -- apply (IH _ _ _ Hcur'); auto.
           ++ apply Forall_app. split; [exact Hpc|]. constructor; [|constructor]. apply Hmid. destruct rest; discriminate.
           ++ apply (slast_tail c). exact Hsl.
Qed.

Lemma append_star fuel : star_rec (append gmatch view fuel).
Proof.
  induction fuel as [|f IH]; intros st p st' Hp Hsl H; [discriminate|].
  cbn [append] in H. destruct p as [|c r].
  - inversion H; subst. change (resolved (add_call [] st)) with (resolved st).
    destruct (mem s_dot (resolved st)).
    + intros q Hq; left; exact Hq.
    + intros q [<-|Hq]; [right; left; reflexivity|left; exact Hq].
  - intros q Hq. destruct (loop_star _ IH _ _ _ _ (Forall_nil _) (Forall_nil _) Hp Hsl H q Hq) as [X|X]; [left; exact X|right; exact X].
Qed.

Lemma follow_reqs_star fuel rs : (forall r, In r rs -> In r reqs /\ slast (norm_clamp (comps r))) -> forall st st',
  follow_reqs gmatch view fuel st rs = Ok st' -> newsk st st'.
Proof.
  induction rs as [|r rs IH]; intros Hin st st' H; simpl in H.
  - inversion H; subst. apply newsk_refl.
  - destruct (append gmatch view fuel st (norm_clamp (comps r))) as [st1|] eqn:E; [|discriminate].
    destruct (Hin r (or_introl eq_refl)) as [Hr Hs].
    assert (Hp : PCN view reqs (norm_clamp (comps r))).
    { apply norm_clamp_PCN. apply Forall_forall. intros c Hc. unfold comp_pool. apply in_or_app. left.
      apply in_flat_map. exists r. split; auto. }
    eapply newsk_trans; [apply (append_star _ _ _ _ Hp Hs E)|].
    apply (IH (fun r0 Hr0 => Hin r0 (or_intror Hr0)) _ _ H).
Qed.

Lemma final_state_star fuel st :
  (forall r, In r reqs -> slast (norm_clamp (comps r))) ->
  follow_state gmatch view fuel reqs = Ok st -> forall k, In k (resolved st) -> skey k.
Proof.
  intros Hs H k Hk. destruct (follow_reqs_star fuel reqs (fun r Hr => conj Hr (Hs r Hr)) _ _ H k Hk) as [[]|X]. exact X.
Qed.

End StarShape.

(* ------------------------------------------------------------------ Part 2: L/star is a LitStar pattern *)
Lemma psafe_inv c : psafe c -> plain_comp c = true /\ regex_safe c = true.
Proof. unfold psafe, psafe_comp. intros H. apply andb_true_iff in H. exact H. Qed.

Lemma star_normal : normal s_star.
Proof. repeat split; discriminate. Qed.
Lemma star_nosep : nosep s_star.
Proof. intros [H|[]]. discriminate. Qed.

Lemma regex_safe_joinc cs : Forall (fun c => regex_safe c = true) cs -> regex_safe (joinc cs) = true.
Proof.
  induction 1 as [|c cs Hc Hcs IH]; [reflexivity|]. destruct cs as [|c2 cs]; [cbn [joinc]; exact Hc|].
  rewrite joinc_cons by discriminate. unfold regex_safe in *. rewrite forallb_app, Hc. cbn [forallb andb].
  rewrite IH. reflexivity.
Qed.

Section StarKey.
Variable cs : list bytes.
Hypothesis Hne : cs <> [].
Hypothesis Hpl : Forall plainc cs.

Let L := joinc cs.
Let e := joinc (cs ++ [s_star]).

Lemma star_key_eq : e = L ++ s_sep_star.
Proof. unfold e, L. rewrite joinc_snoc by exact Hne. reflexivity. Qed.

Lemma star_key_okc : okc (cs ++ [s_star]).
Proof.
  split; [destruct cs; discriminate|]. split; apply Forall_app; split.
  - eapply Forall_impl; [|exact Hpl]. intros c (_ & H & _); exact H.
  - constructor; [exact star_normal|constructor].
  - eapply Forall_impl; [|exact Hpl]. intros c (_ & _ & H); exact H.
  - constructor; [exact star_nosep|constructor].
Qed.

Lemma star_key_kind : pat_kind e = LitStar L.
Proof.
  destruct (plain_key_facts cs Hne Hpl) as (_ & Hcpc & _).
  rewrite star_key_eq.
  assert (H2 : strip_suffix s_sep_starstar (L ++ s_sep_star) = None).
  { apply strip_suffix_none. intros pre E. unfold s_sep_star, s_sep_starstar in E.
    change (L ++ [sep; star]) with (L ++ [sep] ++ [star]) in E.
    change (pre ++ [sep; star; star]) with (pre ++ [sep; star] ++ [star]) in E.
    rewrite !app_assoc in E. apply app_inj_tail in E. destruct E as [E _].
    change (pre ++ [sep; star]) with (pre ++ [sep] ++ [star]) in E. rewrite app_assoc in E.
    apply app_inj_tail in E. destruct E as [_ E]. discriminate. }
  assert (H1 : strip_suffix s_sep_star (L ++ s_sep_star) = Some L) by (apply strip_suffix_spec; reflexivity).
  assert (Hw : without_trailing_glob (L ++ s_sep_star) = L).
  { unfold without_trailing_glob. rewrite (trim_suffix_none _ _ H2), bytes_eqb_refl. cbn [negb].
    apply trim_suffix_some. reflexivity. }
  unfold pat_kind. rewrite Hw. fold L in Hcpc. rewrite Hcpc, H2, H1. reflexivity.
Qed.

Lemma star_key_normalize : normalize1 e = NPat (lit_pat e).
Proof.
  pose proof star_key_okc as Hok.
  (* first byte *)
  assert (Hfirst : exists a r, e = a :: r /\ N.eqb a bang = false /\ is_space a = false).
  { unfold e. destruct cs as [|c cs']; [congruence|]. inversion Hpl as [|? ? (Hp & (Hc & _) & _) _]; subst.
    destruct (plain_comp_inv c Hp Hc) as (_ & _ & a & r & -> & Hb & Hs).
    cbn [app]. rewrite joinc_cons by (destruct cs'; discriminate). exists a. eexists. split; [reflexivity|auto]. }
  destruct Hfirst as (a & r & Ee & Hb & Hs).
  assert (Ht : trim_space e = e).
  { rewrite Ee. apply trim_space_id; [exact Hs|]. rewrite <- Ee. unfold e.
    destruct (last_joinc cs s_star) as [-> | H]; [reflexivity|discriminate]. }
  unfold normalize1. rewrite Ht. destruct (okc_clean _ Hok) as [Hc _]. fold e in Hc. rewrite Ee in *.
  rewrite Hc, Hb. reflexivity.
Qed.

Lemma star_key_match pmatch n : prefix_semantics pmatch -> regex_safe L = true -> nosep n ->
  pmatch e (joinc (cs ++ [n])) = true.
Proof.
  intros (_ & _ & Hstar) Hrs Hn. rewrite (Hstar e L _ star_key_kind Hrs).
  rewrite joinc_snoc by exact Hne. fold L.
  assert (E : strip_prefix (L ++ [sep]) (L ++ sep :: n) = Some n).
  { apply strip_prefix_spec. rewrite <- app_assoc. reflexivity. }
  rewrite E. apply no_sep_nosep. exact Hn.
Qed.

End StarKey.

Lemma normalize_all keys : Forall (fun e => normalize1 e = NPat (lit_pat e)) keys ->
  normalize keys = Some (map lit_pat keys).
Proof.
  induction 1 as [|e keys He _ IH]; [reflexivity|]. cbn [normalize map]. rewrite He, IH. reflexivity.
Qed.

Lemma pat_prefix_app_lit gmatch a b : (forall c, In c a -> contains_wildcards c = false) ->
  forall y, pat_prefix gmatch (a ++ b) y = true -> exists y', y = a ++ y' /\ pat_prefix gmatch b y' = true.
Proof.
  induction a as [|c a IH]; intros Hl y H; [exists y; split; [reflexivity|exact H]|].
  destruct y as [|d y]; [discriminate|]. cbn [app pat_prefix] in H. rewrite (Hl c (or_introl eq_refl)) in H.
  apply andb_true_iff in H. destruct H as [H1 H2]. apply bytes_eqb_eq in H1. subst d.
  destruct (IH (fun c0 Hc0 => Hl c0 (or_intror Hc0)) y H2) as (y' & -> & Hb). exists y'. split; [reflexivity|exact Hb].
Qed.

(* ------------------------------------------------------------------ Part 3: the composition *)
Section TransferStar.
Variable pmatch : bytes -> bytes -> bool.
Variable gmatch : bytes -> bytes -> bool.
Variable view : list node.
Variable reqs : list bytes.
Hypothesis Hsem : prefix_semantics pmatch.
Hypothesis Hwf : FollowLinks.wf_view view = true.

(* the walk with an include-only list of patterns the library reads as themselves *)
Lemma walk_contains_gen (keys : list bytes) (c : cfg) :
  (forall e, In e keys -> kind_safe (pat_kind e) = true) ->
  c = {| c_inc := match keys with [] => None | _ => Some (map lit_pat keys) end; c_exc := None; c_prune := true |} ->
  forall x, valid view x ->
    (keys = [] \/ exists e pre z, In e keys /\ pre <> [] /\ x = pre ++ z /\ pmatch e (joinc pre) = true) ->
    In (joinc x) (map st_path (filter_walk pmatch id_map c view)).
Proof.
  intros Hks -> x (n & Hn) Hcov.
  destruct (fl_wf_view_tree view Hwf) as [Hwfw Hwft].
  pose proof (wf_view_forallb view Hwf) as Hwf'.
  set (c := {| c_inc := match keys with [] => None | _ => Some (map lit_pat keys) end; c_exc := None; c_prune := true |}).
  assert (Hsafe : cfg_star_safe c = true).
  { unfold cfg_star_safe, c. cbn [c_inc c_exc]. rewrite andb_true_r. destruct keys as [|k0 ks]; [reflexivity|].
    unfold star_safe. apply forallb_forall. intros P HP. apply in_map_iff in HP. destruct HP as (e & <- & He).
    cbn [lit_pat p_excl p_str]. rewrite (Hks e He). reflexivity. }
  rewrite (prune_unobservable_proof pmatch id_map Hsem c Hsafe view Hwfw).
  rewrite (filter_walk_reference_proof pmatch id_map c view Hwfw).
  rewrite (reference_nomap_flat_proof (keep_incr pmatch c) view Hwft).
  destruct (lookup_walked x view [] n Hwf' Hn) as (e & He & Hp). cbn [child_path] in Hp.
  unfold flat_reference. rewrite map_map. apply in_map_iff. exists e. split; [exact Hp|].
  apply filter_In. split; [exact He|]. unfold selected_or_above. rewrite Hp. apply orb_true_iff. left.
  pose proof (lookup_okc x view n Hwf' Hn) as Hokx.
  unfold keep_incr, c. cbn [c_inc c_exc]. rewrite andb_true_r.
  destruct Hcov as [->|(e0 & pre & z & Hin & Hne & -> & Hm)]; [reflexivity|].
  destruct keys as [|k0 ks] eqn:Ek; [destruct Hin|]. rewrite <- Ek in *.
  rewrite (pcomps_joinc (pre ++ z) (or_intror Hokx)). unfold incr_path.
  apply (incr_chain_hit pmatch (map lit_pat keys) pre).
  - unfold inc_only. apply Forall_forall. intros P HP. apply in_map_iff in HP. destruct HP as (e1 & <- & _). reflexivity.
  - exact Hne.
  - exists (lit_pat e0). split; [apply in_map; exact Hin|exact Hm].
Qed.

Hypothesis Hstar : star_inputs view reqs = true.

Lemma star_reqs r : In r reqs -> slast (norm_clamp (comps r)).
Proof.
  unfold star_inputs in Hstar. apply andb_true_iff in Hstar. destruct Hstar as [H _].
  rewrite forallb_forall in H. intros Hr. apply star_last_c_slast. apply H. exact Hr.
Qed.
Lemma star_links l : In l (forest_links view) -> Forall psafe (comps l).
Proof.
  unfold star_inputs in Hstar. apply andb_true_iff in Hstar. destruct Hstar as [_ H].
  rewrite forallb_forall in H. intros Hl. specialize (H l Hl). rewrite forallb_forall in H.
  apply Forall_forall. exact H.
Qed.

Lemma psafe_nowild c : psafe c -> contains_wildcards c = false.
Proof.
  intros H. destruct (psafe_inv c H) as [Hp _]. unfold plain_comp in Hp. rewrite !andb_true_iff in Hp.
  destruct Hp as [[Hp _] _]. apply negb_true_iff in Hp. apply contains_wildcards_plain. exact Hp.
Qed.
Lemma psafe_elit c : psafe c -> elit gmatch view c.
Proof. intros H. unfold elit, quasi_literal. rewrite (psafe_nowild c H). reflexivity. Qed.
Lemma slast_abl q : slast q -> abl gmatch view q.
Proof.
  induction q as [|c r IH]; intros H; [exact I|]. cbn [abl]. destruct r as [|c2 r]; [exact I|].
  destruct H as [H1 H2]. split; [apply psafe_elit; exact H1|apply IH; exact H2].
Qed.

Theorem transfer_resolves_same_star_proof : forall (fuel : nat) (follow : option (list bytes)),
  follow_links_opt gmatch view fuel reqs = Ok follow ->
  no_revisit gmatch view fuel reqs = true ->
  lexical_safe view reqs = true ->
  (forall res, follow = Some res -> ~ In s_star res) ->
  exists c, follow_cfg follow = Some c /\
    forall r o x, In r reqs -> In o (chroot_resolve_all gmatch view r) -> needed o x ->
      In (joinc x) (map st_path (filter_walk pmatch id_map c view)).
Proof.
  intros fuel follow Hres Hnr Hls Hnostar.
  pose proof (wf_view_forallb view Hwf) as Hwf'.
  assert (Hclosed : closed_b gmatch view (match follow with None => true | _ => false end)
                             (match follow with Some l => l | None => [] end) reqs = true).
  { apply (result_closed_general gmatch view reqs fuel); auto.
    - destruct follow; exact Hres.
    - intros r Hr. apply slast_abl. apply star_reqs. exact Hr.
    - intros l Hl. eapply Forall_impl; [|apply (star_links l Hl)]. intros c Hc. apply psafe_elit. exact Hc. }
  assert (Hvalid : forall r o x, In o (chroot_resolve_all gmatch view r) -> needed o x -> valid view x).
  { intros r o x Ho Hx. rewrite chroot_resolve_all_eqW in Ho.
    destruct (cresolve_valid gmatch view 40 _ [] [] o (or_introl eq_refl) (Forall_nil _) Ho) as [V1 V2].
    destruct Hx as [Hx|[Hx Hne]]; [rewrite Forall_forall in V1; auto|].
    destruct (V2 x Hx) as [->|Hv]; [congruence|exact Hv]. }
  unfold follow_links_opt in Hres. destruct (follow_state gmatch view fuel reqs) as [F|] eqn:EF; [|discriminate].
  inversion Hres as [Hfin]. clear Hres. subst follow.
  pose proof (final_state_star gmatch view reqs star_links fuel F star_reqs EF) as HK.
  destruct (finish F) as [res|] eqn:Efin; cbv beta iota in Hclosed.
  - specialize (Hnostar res eq_refl).
    (* every element of the result is a literal key or L/star *)
    assert (Hkeys : forall e, In e res ->
              exists cs c, e = joinc (cs ++ [c]) /\ Forall plainc cs /\ Forall (fun c => regex_safe c = true) cs /\
                           Forall nosep (cs ++ [c]) /\
                           ((plainc c /\ regex_safe c = true) \/ (c = s_star /\ cs <> []))).
    { intros e He. pose proof (finish_subset F res Efin e He) as HeR.
      destruct (HK e HeR) as [->|(cs & c & Hp & Hps & Hc & ->)].
      { exfalso. assert (Hn : finish F = None) by (apply finish_none_iff; exact HeR). congruence. }
      pose proof (PCN_normal view reqs _ Hp) as Hnorm. pose proof (PCN_nosep view reqs _ Hp) as Hns.
      apply Forall_app in Hnorm. destruct Hnorm as [Hn1 Hn2]. pose proof Hns as Hns'. apply Forall_app in Hns'. destruct Hns' as [Hs1 Hs2].
      exists cs, c. split; [reflexivity|]. split.
      { apply Forall_forall. intros c0 Hc0. rewrite Forall_forall in Hps, Hn1, Hs1.
        split; [apply (psafe_inv c0 (Hps c0 Hc0))|]. split; auto. }
      split; [eapply Forall_impl; [|exact Hps]; intros c0 Hc0; apply (psafe_inv c0 Hc0)|]. split; [exact Hns|].
      destruct Hc as [Hc| ->].
      - left. inversion Hn2; inversion Hs2; subst. split; [|apply (psafe_inv c Hc)].
        split; [apply (psafe_inv c Hc)|split; auto].
      - right. split; [reflexivity|]. intros ->. apply Hnostar. exact He. }
    assert (Hfacts : forall e, In e res -> normalize1 e = NPat (lit_pat e) /\ kind_safe (pat_kind e) = true).
    { intros e He. destruct (Hkeys e He) as (cs & c & -> & Hpl & Hrs & _ & [[Hc Hcr]|[-> Hne]]).
      - assert (Hall : Forall plainc (cs ++ [c])) by (apply Forall_app; split; [exact Hpl|constructor; [exact Hc|constructor]]).
        assert (Hne : cs ++ [c] <> []) by (destruct cs; discriminate).
        split; [apply normalize1_plain; auto|].
        rewrite (no_pattern_chars_lit _ (proj1 (proj2 (plain_key_facts _ Hne Hall)))). reflexivity.
      - split; [apply star_key_normalize; auto|]. rewrite (star_key_kind cs Hne Hpl). cbn [kind_safe].
        apply regex_safe_joinc. exact Hrs. }
    assert (Hnorm : normalize res = Some (map lit_pat res)).
    { apply normalize_all. apply Forall_forall. intros e He. apply (Hfacts e He). }
    eexists. split.
    { unfold follow_cfg, follow_includes, mk_cfg. rewrite (side_normalized res _ Hnorm). cbn [side]. reflexivity. }
    intros r o x Hr Ho Hx.
    pose proof (Hvalid r o x Ho Hx) as Hv.
    apply (walk_contains_gen res); [intros e He; apply (Hfacts e He)|destruct res; reflexivity|exact Hv|].
    right.
    unfold closed_b in Hclosed. rewrite forallb_forall in Hclosed. specialize (Hclosed r Hr).
    rewrite forallb_forall in Hclosed. specialize (Hclosed o Ho). unfold closed_for in Hclosed.
    apply andb_true_iff in Hclosed. destruct Hclosed as [C1 C2].
    assert (Hcov : covered gmatch res x = true).
    { destruct Hx as [Hx|[Hx Hne]]; [rewrite forallb_forall in C1; auto|].
      rewrite Hx in C2. destruct x; [congruence|exact C2]. }
    unfold covered in Hcov. apply existsb_exists in Hcov. destruct Hcov as (e & He & Hpp).
    destruct (Hkeys e He) as (cs & c & -> & Hpl & Hrs & Hns & Hc).
    assert (Hne0 : cs ++ [c] <> []) by (destruct cs; discriminate).
    rewrite (comps_joinc _ Hne0 Hns) in Hpp.
    assert (Hlitcs : forall c0, In c0 cs -> contains_wildcards c0 = false).
    { intros c0 Hc0. rewrite Forall_forall in Hpl. destruct (Hpl c0 Hc0) as (Hp0 & _).
      unfold plain_comp in Hp0. rewrite !andb_true_iff in Hp0. destruct Hp0 as [[Hp0 _] _].
      apply negb_true_iff in Hp0. apply contains_wildcards_plain. exact Hp0. }
    destruct Hc as [[Hc Hcr]|[-> Hne]].
    + (* literal key *)
      assert (Hall : Forall plainc (cs ++ [c])) by (apply Forall_app; split; [exact Hpl|constructor; [exact Hc|constructor]]).
      destruct (pat_prefix_lit_inv gmatch (cs ++ [c])) with (2 := Hpp) as [z ->].
      { intros c0 Hc0. apply in_app_or in Hc0. destruct Hc0 as [Hc0|[<-|[]]]; [apply Hlitcs; exact Hc0|].
        destruct Hc as (Hp0 & _). unfold plain_comp in Hp0. rewrite !andb_true_iff in Hp0. destruct Hp0 as [[Hp0 _] _].
        apply negb_true_iff in Hp0. apply contains_wildcards_plain. exact Hp0. }
      exists (joinc (cs ++ [c])), (cs ++ [c]), z. split; [exact He|]. split; [exact Hne0|]. split; [reflexivity|].
      destruct Hsem as (Hl & _).
      rewrite (Hl _ _ (no_pattern_chars_lit _ (proj1 (proj2 (plain_key_facts _ Hne0 Hall))))). apply bytes_eqb_refl.
    + (* L/star *)
      destruct (pat_prefix_app_lit gmatch cs [s_star] Hlitcs x Hpp) as (y' & -> & Hy).
      destruct y' as [|n z]; [discriminate|].
      destruct Hv as (nd & Hnd). pose proof (lookup_okc _ view nd Hwf' Hnd) as (_ & _ & Hxs).
      assert (Hn : nosep n).
      { rewrite Forall_forall in Hxs. apply Hxs. apply in_or_app. right. left. reflexivity. }
      exists (joinc (cs ++ [s_star])), (cs ++ [n]), z. split; [exact He|]. split; [destruct cs; discriminate|].
      split; [rewrite <- app_assoc; reflexivity|].
      apply (star_key_match cs Hne Hpl pmatch n Hsem); [apply regex_safe_joinc; exact Hrs|exact Hn].
  - eexists. split; [reflexivity|]. intros r o x Hr Ho Hx.
    apply (walk_contains_gen []); [intros e []|reflexivity|apply (Hvalid r o x Ho Hx)|left; reflexivity].
Qed.

End TransferStar.
