(* C03 — DiskWriter.HandleChange (Model/DiskWriterFs.v: dw_handle) is a step that touches at most
   the entry it was given and the temporary name next to it, provided the parent chain of the
   path meets no symlink and the temporary name is free. *)
From Coq Require Import List Arith NArith Bool Lia ZifyN ZifyNat ZifyBool.
From FS Require Import Sx Model.Path Model.Stat Model.Validator Model.Fs Model.DiskWriterFs.
From FS Require Import Proofs.Lex Proofs.PathP Proofs.ValidatorP Proofs.FsP Proofs.FsReachP Proofs.FsFrameP Proofs.FsSysP.
Import ListNotations.
Open Scope N_scope.
Open Scope bool_scope.

Section Dw.
Variable D : N.
Notation reach := (reach D).
Notation wf := (wf D).
Notation step := (step D).
Notation TNone := (TNone).

Lemma reach_dd f pre dd : rwalk f D pre = Some dd -> reach f dd.
Proof. intros H. apply (rwalk_reach D f pre D dd); [constructor|auto]. Qed.

(* ---------------- rewriteMetadata ---------------- *)
Section Meta.
Variables (b : N) (c : ctx) (p : bytes) (pre : list bytes) (n : bytes) (st : stat).
Hypothesis Hc : c_cwd c = D.
Hypothesis Hrel : relpath p (pre ++ [n]).

Definition meta_pre (f : fs) : Prop :=
  wf f /\ b <= f_next f /\ safe f D pre /\ target_ok D b f pre n
  /\ (mode_is_symlink (st_mode st) = false -> safe f D (pre ++ [n])).

Lemma meta_pre_step f f' : meta_pre f -> step TNone b f f' -> meta_pre f'.
Proof.
  intros (W & Hb & Hs & Ht & Hf) S.
  split; [apply (st_wf _ _ _ _ _ S)|]. split; [pose proof (st_next _ _ _ _ _ S); lia|].
  split; [apply (quiet_safe D b f f'); auto|]. split.
  - intros dd i Hw Hbl. rewrite (quiet_rwalk D b f f' pre W S) in Hw.
    pose proof (reach_dd f pre dd Hw) as Rdd.
    rewrite (quiet_blookup D b f f' dd n S (reach_lt D f dd W Rdd)) in Hbl.
    destruct (dentry_reach D f pre dd n i Hw Hbl) as [_ Ri].
    rewrite (is_dir_step D TNone b f f' i S (reach_lt D f i W Ri)). apply (Ht dd i); auto.
  - intros Hm. apply (quiet_safe D b f f'); auto.
Qed.

Lemma xattrs_step : forall xs f, meta_pre f ->
  let f' := fold_left (fun g kv => fst (sys_lsetxattr c g p (fst kv) (snd kv))) xs f in
  step TNone b f f' /\ meta_pre f'.
Proof.
  induction xs as [|kv xs IH]; intros f M; simpl.
  - split; [destruct M as (W & Hb & _); apply step_refl; auto|exact M].
  - pose proof M as (W & Hb & Hs & Ht & Hf).
    pose proof (sys_lsetxattr_step D TNone b c f p pre n W Hb Hc Hrel Hs (fst kv) (snd kv) Ht) as S1.
    pose proof (meta_pre_step f _ M S1) as M1.
    destruct (IH _ M1) as [S2 M2]. split; auto.
    apply (step_trans D TNone b f _ _ S1 S2).
Qed.

Lemma rewrite_meta_step f : meta_pre f -> step TNone b f (fst (rewrite_meta c f p st)).
Proof.
  intros M. unfold rewrite_meta.
  destruct (xattrs_step (st_xattrs st) f M) as [S1 M1].
  set (f1 := fold_left (fun g kv => fst (sys_lsetxattr c g p (fst kv) (snd kv))) (st_xattrs st) f) in *.
  pose proof M1 as (W1 & Hb1 & Hs1 & Ht1 & Hf1).
  pose proof (sys_lchown_step D TNone b c f1 p pre n W1 Hb1 Hc Hrel Hs1 (st_uid st) (st_gid st) Ht1) as S2.
  destruct (sys_lchown c f1 p (st_uid st) (st_gid st)) as [f2 r2] eqn:E2. cbn [fst] in S2.
  pose proof (meta_pre_step f1 f2 M1 S2) as M2.
  assert (S12 : step TNone b f f2) by (apply (step_trans D TNone b f f1 f2); auto).
  destruct (is_err r2); [exact S12|].
  pose proof M2 as (W2 & Hb2 & Hs2 & Ht2 & Hf2).
  assert (S3 : step TNone b f2 (fst (if mode_is_symlink (st_mode st) then (f2, ROk) else sys_chmod c f2 p (unix_perm (st_mode st))))).
  { destruct (mode_is_symlink (st_mode st)) eqn:Em; [apply step_refl; auto|].
    apply (sys_chmod_step D TNone b c f2 p pre n W2 Hb2 Hc Hrel Hs2); auto. }
  destruct (if mode_is_symlink (st_mode st) then (f2, ROk) else sys_chmod c f2 p (unix_perm (st_mode st))) as [f3 r3].
  cbn [fst] in S3.
  pose proof (meta_pre_step f2 f3 M2 S3) as M3.
  assert (S13 : step TNone b f f3) by (apply (step_trans D TNone b f f2 f3); auto).
  destruct (is_err r3); [exact S13|].
  pose proof M3 as (W3 & Hb3 & Hs3 & Ht3 & Hf3).
  pose proof (sys_utimens_step D TNone b c f3 p pre n W3 Hb3 Hc Hrel Hs3 (st_mtime st) Ht3) as S4.
  destruct (sys_utimens c f3 p (st_mtime st)) as [f4 r4]. cbn [fst] in *.
  apply (step_trans D TNone b f f3 f4); auto.
Qed.

End Meta.


(* ---------------- HandleChange ---------------- *)
(* the creation switch makes something that is no symlink and no hard link *)
Definition solid (st : stat) : bool :=
  let m := st_mode st in
  mode_is_dir m || ((has_bits m ModeDevice || has_bits m ModeNamedPipe) && is_nil (st_linkname st))
  || (negb (mode_is_symlink m) && is_nil (st_linkname st)).

Lemma nth_split_prefix (pre cs : list bytes) k n : firstn k cs = pre -> nth_error cs k = Some n -> is_prefix (pre ++ [n]) cs.
Proof.
  intros H1 H2. rewrite <- (firstn_skipn k cs). rewrite H1.
  assert (E : exists r, skipn k cs = n :: r).
  { clear H1. revert cs H2. induction k as [|k IH]; intros cs H2.
    - destruct cs; simpl in *; [discriminate|]. inversion H2; subst. eauto.
    - destruct cs; simpl in *; [discriminate|]. apply IH. exact H2. }
  destruct E as [r ->]. exists r. rewrite <- app_assoc. reflexivity.
Qed.

(* the creation switch takes the os.Link arm *)
Definition hardlink_branch (st : stat) : bool :=
  let m := st_mode st in
  negb (mode_is_dir m) && negb (mode_is_symlink m) && negb (is_nil (st_linkname st)).

Section Handle.
Variables (c : ctx) (f : fs) (tmp : bytes) (p : bytes) (pre : list bytes) (bn : bytes) (st : stat).
Hypothesis W : wf f.
Hypothesis Hc : c_cwd c = D.
Hypothesis Hp : relpath p (pre ++ [bn]).
Hypothesis Hnp : relpath (tmp_path p tmp) (pre ++ [tmp]).
Hypothesis Hne : tmp <> bn.
Hypothesis Hsafe : safe f D pre.
Hypothesis Hfree : forall dd, rwalk f D pre = Some dd -> blookup tmp (ents f dd) = None.
(* the source of a hard link: a path whose parent chain is safe *)
Hypothesis Hlink : hardlink_branch st = true ->
  exists pre1 n1, relpath (st_linkname st) (pre1 ++ [n1]) /\ safe f D pre1.

Let b := f_next f.

Definition Tn (nm : bytes) : N -> bytes -> Prop :=
  fun d m => rwalk f D pre = Some d /\ is_dir f d = true /\ m = nm.
Definition Tp : N -> bytes -> Prop :=
  fun d m => rwalk f D pre = Some d /\ is_dir f d = true /\ (m = bn \/ m = tmp).

Lemma Tn_Tp nm : nm = bn \/ nm = tmp -> forall d m, Tn nm d m -> Tp d m.
Proof. intros H d m (A & B & C). subst m. split; auto. Qed.
Lemma TNone_Tp : forall d m, TNone d m -> Tp d m.
Proof. intros d m []. Qed.

Lemma pre_avoids : avoids Tp f D pre.
Proof.
  apply (avoids_by_path D Tp f W pre).
  - intros d m (A & B & _). auto.
  - intros k m _ Hk. apply firstn_all_ge in Hk. intro E.
    assert (nth_error pre k = None) by (apply nth_error_None; exact Hk). congruence.
Qed.

(* what holds in every intermediate state of the call *)
Record mid (g : fs) : Prop := {
  mid_step : step Tp b f g;
  mid_wf : wf g;
  mid_b : b <= f_next g;
  mid_safe : safe g D pre;
  mid_walk : rwalk g D pre = rwalk f D pre;
  mid_dir : forall dd, rwalk f D pre = Some dd -> is_dir g dd = is_dir f dd
}.

Lemma mid_of_step g : step Tp b f g -> mid g.
Proof.
  intros S. constructor; auto.
  - apply (st_wf _ _ _ _ _ S).
  - pose proof (st_next _ _ _ _ _ S). unfold b. lia.
  - apply (safe_step D Tp b f g W S pre D (reach_refl D f) pre_avoids Hsafe).
  - apply (rwalk_step D Tp b f g W S pre D (reach_refl D f) pre_avoids).
  - intros dd Hw. apply (is_dir_step D Tp b f g dd S). apply (reach_lt D f dd W (reach_dd f pre dd Hw)).
Qed.

Lemma mid_refl : mid f.
Proof. apply mid_of_step. apply step_refl; auto. unfold b. lia. Qed.

Lemma mid_next g g' (T' : N -> bytes -> Prop) : mid g -> (forall d m, T' d m -> Tp d m) -> step T' b g g' -> mid g'.
Proof.
  intros M HT S. apply mid_of_step. apply (step_trans D Tp b f g g'); [apply M|].
  apply (step_weaken D T' Tp b g g' HT S).
Qed.

Lemma mid_names g nm : mid g -> forall dd, rwalk g D pre = Some dd -> is_dir g dd = true -> Tn nm dd nm.
Proof.
  intros M dd Hw Hd. rewrite (mid_walk g M) in Hw. rewrite (mid_dir g M dd Hw) in Hd. repeat split; auto.
Qed.

Lemma mid_dd_lt g dd : mid g -> rwalk f D pre = Some dd -> dd < f_next g.
Proof.
  intros M Hw. pose proof (reach_lt D f dd W (reach_dd f pre dd Hw)). pose proof (mid_b g M). unfold b in *. lia.
Qed.

(* an entry of the directory at [pre] is the same in g' as in g when the step did not name it *)
Lemma mid_dent g g' (T' : N -> bytes -> Prop) dd nm :
  mid g -> step T' b g g' -> rwalk f D pre = Some dd -> ~ T' dd nm ->
  blookup nm (ents g' dd) = blookup nm (ents g dd).
Proof. intros M S Hw HT. apply (st_dent _ _ _ _ _ S dd nm (mid_dd_lt g dd M Hw) HT). Qed.

Lemma not_Tn nm nm' dd : nm <> nm' -> ~ Tn nm dd nm'.
Proof. intros H (_ & _ & E). congruence. Qed.

(* ---- the creation switch, always run on the file system the call started with ---- *)
Lemma dw_create_spec q nm :
  relpath q (pre ++ [nm]) -> (nm = bn \/ nm = tmp) ->
  (forall dd i, rwalk f D pre = Some dd -> blookup nm (ents f dd) = Some i -> get f i = None) ->
  let r := dw_create c f q st in
  let f1 := fst (fst r) in let ok := snd (fst r) in let mk := snd r in
  step (Tn nm) b f f1 /\
  (ok = true -> exists dd i, rwalk f D pre = Some dd /\ is_dir f dd = true /\ blookup nm (ents f1 dd) = Some i
      /\ (mk <> MHardlink -> b <= i /\ (mode_is_symlink (st_mode st) = false -> is_link f1 i = false)
                                     /\ (solid st = true -> is_link f1 i = false))
      /\ (solid st = true -> mk <> MHardlink)
      /\ (mk = MRegular -> b <= i /\ solid st = true)).
Proof.
  intros Hq Hnm Habs. cbv zeta. unfold dw_create.
  assert (HT : forall dd, rwalk f D pre = Some dd -> is_dir f dd = true -> Tn nm dd nm) by (intros; repeat split; auto).
  assert (Hb : b <= f_next f) by (unfold b; lia).
  assert (Hfull : safe f D (pre ++ [nm])).
  { apply safe_app. split; auto. intros j Hj. apply safe_unfold.
    destruct (blookup nm (ents f j)) as [i|] eqn:Eb; auto. split; [|exact I].
    unfold is_link. rewrite (Habs j i Hj Eb). reflexivity. }
  assert (Hfresh : forall f' k, created D f pre nm f' k -> exists dd i, rwalk f D pre = Some dd /\ is_dir f dd = true
             /\ blookup nm (ents f' dd) = Some i /\ b <= i /\ (ktag k <> 2 -> is_link f' i = false)).
  { intros f' k (dd & m & A1 & A2 & A3 & A4 & A5). exists dd, (f_next f). repeat split; auto; try (unfold b; lia).
    intros Hk. unfold is_link. rewrite A5. destruct k; simpl in *; congruence. }
  destruct (mode_is_dir (st_mode st)) eqn:Edir.
  { destruct (sys_mkdir_step D (Tn nm) b c f q pre nm W Hb Hc Hq Hsafe HT (unix_perm (st_mode st))) as [S P].
    destruct (sys_mkdir c f q (unix_perm (st_mode st))) as [g r] eqn:E. cbn [fst snd] in *.
    split; auto. intros Hok. apply negb_true_iff in Hok.
    destruct (P Hok) as [d0 Cr]. destruct (Hfresh g _ Cr) as (dd & i & B1 & B2 & B3 & B4 & B5).
    exists dd, i. repeat split; auto; try discriminate; intros; apply B5; simpl; discriminate. }
  destruct ((has_bits (st_mode st) ModeDevice || has_bits (st_mode st) ModeNamedPipe) && is_nil (st_linkname st)) eqn:Edev.
  { match goal with |- context [sys_mknod c f q ?t ?m ?rd] =>
      destruct (sys_mknod_step D (Tn nm) b c f q pre nm W Hb Hc Hq Hsafe HT t m rd) as [S P];
      destruct (sys_mknod c f q t m rd) as [g r] eqn:E end. cbn [fst snd] in *.
    split; auto. intros Hok. apply negb_true_iff in Hok.
    destruct (P Hok) as (t0 & r0 & Cr). destruct (Hfresh g _ Cr) as (dd & i & B1 & B2 & B3 & B4 & B5).
    exists dd, i. repeat split; auto; try discriminate; intros; apply B5; simpl; discriminate. }
  destruct (mode_is_symlink (st_mode st)) eqn:Esym.
  { destruct (sys_symlink_step D (Tn nm) b c f q pre nm W Hb Hc Hq Hsafe HT (st_linkname st)) as [S P].
    destruct (sys_symlink c f (st_linkname st) q) as [g r] eqn:E. cbn [fst snd] in *.
    split; auto. intros Hok. apply negb_true_iff in Hok.
    pose proof (P Hok) as Cr. destruct (Hfresh g _ Cr) as (dd & i & B1 & B2 & B3 & B4 & B5).
    exists dd, i. repeat split; auto; try discriminate.
    unfold solid. rewrite Edir, Edev, Esym. simpl. discriminate. }
  destruct (is_nil (st_linkname st)) eqn:Eln; cbn [negb].
  - destruct (sys_open_creat_step D (Tn nm) b c f q pre nm W Hb Hc Hq HT (unix_perm (st_mode st)) Hfull) as [S P].
    destruct (sys_open_wronly c f q true (unix_perm (st_mode st))) as [g r] eqn:E. cbn [fst snd] in *.
    split; auto. intros Hok. apply negb_true_iff in Hok.
    destruct (P Hok) as (i & _ & [(_ & dd & nd & A1 & A2 & A3 & _)|(_ & Cr)]).
    + rewrite (Habs dd i A1 A2) in A3. discriminate.
    + destruct (Hfresh g _ Cr) as (dd & i' & B1 & B2 & B3 & B4 & B5).
      assert (Hsolid : solid st = true) by (unfold solid; rewrite Edir, Esym, Eln, Edev; reflexivity).
      exists dd, i'. repeat split; auto; try discriminate; intros; apply B5; simpl; discriminate.
  - assert (Hhb : hardlink_branch st = true) by (unfold hardlink_branch; rewrite Edir, Esym, Eln; reflexivity).
    destruct (Hlink Hhb) as (pre1 & n1 & Hrel1 & Hs1).
    destruct (sys_link_step D (Tn nm) b c f (st_linkname st) q pre1 n1 pre nm W Hb Hc Hrel1 Hq Hs1 Hsafe HT) as [S P].
    destruct (sys_link c f (st_linkname st) q) as [g r] eqn:E. cbn [fst snd] in *.
    split; auto. intros Hok. apply negb_true_iff in Hok.
    destruct (P Hok) as (dd & dd1 & i & A1 & Hd & A2 & A3 & A4 & A5).
    exists dd, i. repeat split; auto; try congruence.
    unfold solid. rewrite Edir, Eln. rewrite !andb_false_r. simpl. discriminate.
Qed.


Definition tmpfree (g : fs) : Prop := forall dd, rwalk f D pre = Some dd -> blookup tmp (ents g dd) = None.

(* what a successful HandleChange leaves behind *)
Definition post (r : fs * dwres) : Prop :=
  step Tp b f (fst r) /\
  forall a nd, snd r = DwOk a nd ->
    tmpfree (fst r)
    /\ (solid st = true -> safe (fst r) D (pre ++ [bn]))
    /\ (a = true -> solid st = true /\ exists dd i, rwalk f D pre = Some dd /\ blookup bn (ents (fst r) dd) = Some i /\ b <= i).

Lemma post_err g : step Tp b f g -> post (g, DwErr).
Proof. intros S. split; auto. intros a nd H. discriminate. Qed.

Lemma is_dir_not_link g i : is_dir g i = true -> is_link g i = false.
Proof.
  intros H. apply is_dir_dir_of in H. destruct H as (q & es & H). apply dir_of_tag in H.
  destruct (is_link g i) eqn:E; auto. apply is_link_tag in E. congruence.
Qed.

Lemma safe_snoc g nm : safe g D pre ->
  (forall dd i, rwalk g D pre = Some dd -> blookup nm (ents g dd) = Some i -> is_link g i = false) ->
  safe g D (pre ++ [nm]).
Proof.
  intros Hs H. apply safe_app. split; auto. intros j Hj. apply safe_unfold.
  destruct (blookup nm (ents g j)) as [i|] eqn:Eb; auto. split; [|exact I]. apply (H j i); auto.
Qed.

(* ---- delete ---- *)
Lemma dw_delete_spec :
  let f1 := fst (sys_remove_all c f p) in step Tp b f f1 /\ tmpfree f1.
Proof.
  assert (Hb : b <= f_next f) by (unfold b; lia).
  destruct (sys_remove_all_step D (Tn bn) b c f p pre bn W Hb Hc Hp Hsafe (mid_names f bn mid_refl)) as [S _].
  cbv zeta. split; [apply (step_weaken D (Tn bn) Tp); auto; apply Tn_Tp; auto|].
  intros dd Hw. rewrite (mid_dent f _ (Tn bn) dd tmp mid_refl S Hw (not_Tn bn tmp dd (not_eq_sym Hne))).
  apply Hfree. exact Hw.
Qed.

(* ---- directory over directory: metadata in place ---- *)
Lemma dw_inplace_spec dd oi :
  rwalk f D pre = Some dd -> blookup bn (ents f dd) = Some oi -> is_dir f oi = true ->
  let f1 := fst (rewrite_meta c f p st) in
  step Tp b f f1 /\ tmpfree f1 /\ safe f1 D (pre ++ [bn]).
Proof.
  intros Hw Hbl Hdo. cbv zeta.
  assert (Hb : b <= f_next f) by (unfold b; lia).
  assert (Hfull : safe f D (pre ++ [bn])).
  { apply safe_snoc; auto. intros dd' i' Hw' Hb'. rewrite Hw in Hw'. inversion Hw'; subst dd'.
    rewrite Hbl in Hb'. inversion Hb'; subst i'. apply is_dir_not_link. exact Hdo. }
  assert (M : meta_pre b pre bn st f).
  { unfold meta_pre. split; [exact W|]. split; [exact Hb|]. split; [exact Hsafe|]. split; [|intros _; exact Hfull].
    intros dd' i' Hw' Hb'. rewrite Hw in Hw'. inversion Hw'; subst dd'.
    rewrite Hbl in Hb'. inversion Hb'; subst i'. right. exact Hdo. }
  pose proof (rewrite_meta_step b c p pre bn st Hc Hp f M) as S.
  split; [apply (step_weaken D TNone Tp); auto; apply TNone_Tp|]. split.
  - intros dd' Hw'. rewrite (mid_dent f _ TNone dd' tmp mid_refl S Hw') by (unfold TNone; tauto). apply Hfree. exact Hw'.
  - apply (quiet_safe D b f); auto.
Qed.

(* ---- metadata of what the creation switch made ---- *)
Lemma dw_meta_spec q nm f1 mk dd i :
  relpath q (pre ++ [nm]) -> mid f1 -> rwalk f D pre = Some dd -> blookup nm (ents f1 dd) = Some i ->
  (mk <> MHardlink -> b <= i /\ (mode_is_symlink (st_mode st) = false -> is_link f1 i = false)) ->
  step TNone b f1 (fst (dw_meta c f1 q st mk)).
Proof.
  intros Hq M Hw Hbl Hmk. unfold dw_meta.
  destruct mk; try (apply step_refl; [apply M|apply M]).
  - assert (P : meta_pre b pre nm st f1).
    { destruct (Hmk ltac:(discriminate)) as [Hbi Hl].
      split; [apply M|]. split; [apply M|]. split; [apply M|]. split.
      - intros dd' i' Hw' Hb'. rewrite (mid_walk f1 M), Hw in Hw'. inversion Hw'; subst dd'.
        rewrite Hbl in Hb'. inversion Hb'; subst i'. left. exact Hbi.
      - intros Hm. apply safe_snoc; [apply M|]. intros dd' i' Hw' Hb'.
        rewrite (mid_walk f1 M), Hw in Hw'. inversion Hw'; subst dd'.
        rewrite Hbl in Hb'. inversion Hb'; subst i'. auto. }
    apply (rewrite_meta_step b c q pre nm st Hc Hq f1 P).
  - assert (P : meta_pre b pre nm st f1).
    { destruct (Hmk ltac:(discriminate)) as [Hbi Hl].
      split; [apply M|]. split; [apply M|]. split; [apply M|]. split.
      - intros dd' i' Hw' Hb'. rewrite (mid_walk f1 M), Hw in Hw'. inversion Hw'; subst dd'.
        rewrite Hbl in Hb'. inversion Hb'; subst i'. left. exact Hbi.
      - intros Hm. apply safe_snoc; [apply M|]. intros dd' i' Hw' Hb'.
        rewrite (mid_walk f1 M), Hw in Hw'. inversion Hw'; subst dd'.
        rewrite Hbl in Hb'. inversion Hb'; subst i'. auto. }
    apply (rewrite_meta_step b c q pre nm st Hc Hq f1 P).
Qed.

(* ---- no entry yet: create in place ---- *)
Lemma dw_direct_spec : snd (sys_lstat c f p) = RErr ENOENT ->
  post (match dw_create c f p st with
        | (f1, false, _) => (f1, DwErr)
        | (f1, true, mk) =>
          let reg := made_regular mk in
          let (f2, ok) := dw_meta c f1 p st mk in
          if negb ok then (f2, DwErr) else (f2, DwOk reg (mode_is_dir (st_mode st) && negb reg))
        end).
Proof.
  intros Hl.
  pose proof (dw_create_spec p bn Hp (or_introl eq_refl)
                (lstat_enoent_dangling D c f p pre bn Hc Hp Hsafe Hl)) as C. cbv zeta in C.
  destruct (dw_create c f p st) as [[f1 ok] mk]. cbn [fst snd] in C. destruct C as [S1 P1].
  assert (S1' : step Tp b f f1) by (apply (step_weaken D (Tn bn) Tp); auto; apply Tn_Tp; auto).
  destruct ok; [|apply post_err; auto].
  destruct (P1 eq_refl) as (dd & i & Hw & Hd & Hbl & Hmk & Hsol & Hreg).
  pose proof (mid_of_step f1 S1') as M1.
  pose proof (dw_meta_spec p bn f1 mk dd i Hp M1 Hw Hbl (fun H => let (A, B) := Hmk H in conj A (proj1 B))) as S2.
  cbv zeta. destruct (dw_meta c f1 p st mk) as [f2 ok2]. cbn [fst] in S2.
  pose proof (mid_next f1 f2 TNone M1 TNone_Tp S2) as M2.
  destruct ok2; cbn [negb]; [|apply post_err; apply M2].
  assert (Hbl2 : blookup bn (ents f2 dd) = Some i).
  { rewrite (mid_dent f1 f2 TNone dd bn M1 S2 Hw) by (unfold TNone; tauto). exact Hbl. }
  split; [apply M2|]. intros a nd Hres. cbn [fst snd] in *. inversion Hres; subst a nd. split; [|split].
  - intros dd' Hw'.
    rewrite (mid_dent f1 f2 TNone dd' tmp M1 S2 Hw') by (unfold TNone; tauto).
    rewrite (mid_dent f f1 (Tn bn) dd' tmp mid_refl S1 Hw' (not_Tn bn tmp dd' (not_eq_sym Hne))).
    apply Hfree. exact Hw'.
  - intros Hs. apply safe_snoc; [apply M2|]. intros dd' i' Hw' Hb'.
    rewrite (mid_walk f2 M2), Hw in Hw'. inversion Hw'; subst dd'. rewrite Hbl2 in Hb'. inversion Hb'; subst i'.
    destruct (Hmk (Hsol Hs)) as (_ & _ & Hl3).
    rewrite (is_link_step D TNone b f1 f2 i S2).
    + apply Hl3. exact Hs.
    + destruct (dentry_reach D f1 pre dd bn i) as [_ Ri]; auto; [rewrite (mid_walk f1 M1); auto|].
      apply (reach_lt D f1 i (mid_wf f1 M1) Ri).
  - intros Ha. assert (Emk : mk = MRegular) by (destruct mk; try discriminate; reflexivity).
    destruct (Hreg Emk) as [Hbi Hso]. split; auto. exists dd, i. repeat split; auto.
Qed.


Lemma T2_Tp dd : rwalk f D pre = Some dd -> is_dir f dd = true -> forall d m, T2 dd tmp bn d m -> Tp d m.
Proof. intros Hw Hd d m [-> H]. split; auto. split; auto. tauto. Qed.

Lemma islink_next g g' (T' : N -> bytes -> Prop) dd nm i : mid g -> step T' b g g' ->
  rwalk f D pre = Some dd -> blookup nm (ents g dd) = Some i -> is_link g' i = is_link g i.
Proof.
  intros M S Hw Hbl. apply (is_link_step D T' b g g' i S).
  destruct (dentry_reach D g pre dd nm i) as [_ Ri]; auto; [rewrite (mid_walk g M); auto|].
  apply (reach_lt D g i (mid_wf g M) Ri).
Qed.

(* ---- an entry exists and is not handled in place: make the new one next to it, swap ---- *)
Lemma dw_replace_spec dd oi ond (xdir ndir : bool) :
  rwalk f D pre = Some dd -> is_dir f dd = true -> blookup bn (ents f dd) = Some oi -> get f oi = Some ond ->
  post (match dw_create c f (tmp_path p tmp) st with
        | (f1, false, _) => (f1, DwErr)
        | (f1, true, mk) =>
          let reg := made_regular mk in
          let (f2, ok) := dw_meta c f1 (tmp_path p tmp) st mk in
          if negb ok then (f2, DwErr) else
          let (f3, r3) := if xdir then sys_remove_all c f2 p else (f2, ROk) in
          if is_err r3 then (f3, DwErr) else
          let same := match stat_ino (snd (sys_lstat c f3 (tmp_path p tmp))) with
                      | Some ni => N.eqb ni oi | None => false end in
          let (f4, r4) := if same then sys_unlink c f3 (tmp_path p tmp) else sys_rename c f3 (tmp_path p tmp) p in
          if is_err r4 then (f4, DwErr) else (f4, DwOk reg (ndir && negb reg))
        end).
Proof.
  intros Hw Hd Hbn Hgo. set (np := tmp_path p tmp) in *.
  assert (Hoi : oi < b).
  { destruct (dentry_reach D f pre dd bn oi Hw Hbn) as [_ R]. apply (reach_lt D f oi W R). }
  assert (Habs : forall dd' i, rwalk f D pre = Some dd' -> blookup tmp (ents f dd') = Some i -> get f i = None).
  { intros dd' i Hw' Hb'. rewrite (Hfree dd' Hw') in Hb'. discriminate. }
  pose proof (dw_create_spec np tmp Hnp (or_intror eq_refl) Habs) as C. cbv zeta in C.
  destruct (dw_create c f np st) as [[f1 ok] mk]. cbn [fst snd] in C. destruct C as [S1 P1].
  assert (S1' : step Tp b f f1) by (apply (step_weaken D (Tn tmp) Tp); auto; apply Tn_Tp; auto).
  destruct ok; [|apply post_err; auto].
  destruct (P1 eq_refl) as (dd1 & i & Hw1 & _ & Hbl1 & Hmk & Hsol & Hreg).
  rewrite Hw in Hw1. inversion Hw1; subst dd1. clear Hw1.
  pose proof (mid_of_step f1 S1') as M1.
  assert (Hbn1 : blookup bn (ents f1 dd) = Some oi).
  { rewrite (mid_dent f f1 (Tn tmp) dd bn mid_refl S1 Hw (not_Tn tmp bn dd Hne)). exact Hbn. }
  pose proof (dw_meta_spec np tmp f1 mk dd i Hnp M1 Hw Hbl1 (fun H => let (A, B) := Hmk H in conj A (proj1 B))) as S2.
  cbv zeta. destruct (dw_meta c f1 np st mk) as [f2 ok2]. cbn [fst] in S2.
  pose proof (mid_next f1 f2 TNone M1 TNone_Tp S2) as M2.
  destruct ok2; cbn [negb]; [|apply post_err; apply M2].
  assert (Hbl2 : blookup tmp (ents f2 dd) = Some i).
  { rewrite (mid_dent f1 f2 TNone dd tmp M1 S2 Hw) by (unfold TNone; tauto). exact Hbl1. }
  assert (Hbn2 : blookup bn (ents f2 dd) = Some oi).
  { rewrite (mid_dent f1 f2 TNone dd bn M1 S2 Hw) by (unfold TNone; tauto). exact Hbn1. }
  (* the optional RemoveAll *)
  assert (X : exists f3 r3, (if xdir then sys_remove_all c f2 p else (f2, ROk)) = (f3, r3)
            /\ step (Tn bn) b f2 f3
            /\ (blookup bn (ents f3 dd) = Some oi \/ blookup bn (ents f3 dd) = None)).
  { destruct xdir.
    - destruct (sys_remove_all_step D (Tn bn) b c f2 p pre bn (mid_wf f2 M2) (mid_b f2 M2) Hc Hp (mid_safe f2 M2)
                  (mid_names f2 bn M2)) as [S3 Q3].
      destruct (sys_remove_all c f2 p) as [f3 r3]. cbn [fst] in *. exists f3, r3. split; auto. split; auto.
      destruct Q3 as [->|Q3]; [left; exact Hbn2|right]. apply Q3. rewrite (mid_walk f2 M2). exact Hw.
    - exists f2, ROk. split; auto. split; [apply step_refl; [apply M2|apply M2]|left; exact Hbn2]. }
  destruct X as (f3 & r3 & E3 & S3 & Hbn3). rewrite E3.
  pose proof (mid_next f2 f3 (Tn bn) M2 (Tn_Tp bn (or_introl eq_refl)) S3) as M3.
  destruct (is_err r3); [apply post_err; apply M3|].
  assert (Hbl3 : blookup tmp (ents f3 dd) = Some i).
  { rewrite (mid_dent f2 f3 (Tn bn) dd tmp M2 S3 Hw (not_Tn bn tmp dd (not_eq_sym Hne))). exact Hbl2. }
  assert (Hw3 : rwalk f3 D pre = Some dd) by (rewrite (mid_walk f3 M3); exact Hw).
  assert (Hl13 : is_link f3 i = is_link f1 i).
  { rewrite (islink_next f2 f3 (Tn bn) dd tmp i M2 S3 Hw Hbl2). apply (islink_next f1 f2 TNone dd tmp i M1 S2 Hw Hbl1). }
  destruct (match stat_ino (snd (sys_lstat c f3 np)) with Some ni => N.eqb ni oi | None => false end) eqn:Esame.
  - (* the old entry already names the inode of the new one: drop the temporary name *)
    assert (Eio : i = oi).
    { destruct (snd (sys_lstat c f3 np)) as [| |ni nd| | |] eqn:El; simpl in Esame; try discriminate.
      apply N.eqb_eq in Esame. subst ni.
      destruct (lstat_stat D c f3 np pre tmp Hc Hnp (mid_safe f3 M3) oi nd El) as (dd3 & A1 & _ & A2 & _).
      rewrite Hw3 in A1. inversion A1; subst dd3. rewrite Hbl3 in A2. inversion A2. reflexivity. }
    destruct (sys_unlink_step D (Tn tmp) b c f3 np pre tmp (mid_wf f3 M3) (mid_b f3 M3) Hc Hnp (mid_safe f3 M3)
                (mid_names f3 tmp M3)) as [S4 Q4].
    destruct (sys_unlink c f3 np) as [f4 r4]. cbn [fst snd] in *.
    pose proof (mid_next f3 f4 (Tn tmp) M3 (Tn_Tp tmp (or_intror eq_refl)) S4) as M4.
    destruct (is_err r4) eqn:Er4; [apply post_err; apply M4|].
    split; [apply M4|]. intros a nd Hres. cbn [fst snd] in *. inversion Hres; subst a nd. split; [|split].
    + intros dd' Hw'. apply (Q4 Er4). rewrite (mid_walk f3 M3). exact Hw'.
    + intros Hs. exfalso. destruct (Hmk (Hsol Hs)) as (Hbi & _). lia.
    + intros Ha. exfalso. assert (Hbi : b <= i) by (apply Hreg; destruct mk; try discriminate; reflexivity). lia.
  - (* rename the new entry over the old one *)
    destruct (sys_rename_step D b c f3 np p pre tmp bn (mid_wf f3 M3) (mid_b f3 M3) Hc Hnp Hp (mid_safe f3 M3) Hne dd Hw3)
      as [S4 Q4].
    destruct (sys_rename c f3 np p) as [f4 r4]. cbn [fst snd] in *.
    pose proof (mid_next f3 f4 (T2 dd tmp bn) M3 (T2_Tp dd Hw Hd) S4) as M4.
    destruct (is_err r4) eqn:Er4; [apply post_err; apply M4|].
    destruct (Q4 Er4) as (i' & B1 & B2 & B3 & B4). rewrite Hbl3 in B1. inversion B1; subst i'. clear B1.
    assert (Hio : i <> oi).
    { intro E. subst oi. pose proof (lstat_of_resolve c f3 np tmp dd i B4) as L.
      change (stat_ino_of (snd (sys_lstat c f3 np))) with (stat_ino (snd (sys_lstat c f3 np))) in L.
      rewrite L in Esame. destruct (get f3 i) eqn:Eg.
      - rewrite N.eqb_refl in Esame. discriminate.
      - pose proof (st_tag _ _ _ _ _ (mid_step f3 M3) i Hoi) as Ht. rewrite Eg, Hgo in Ht. discriminate. }
    split; [apply M4|]. intros a nd Hres. cbn [fst snd] in *. inversion Hres; subst a nd. split; [|split].
    + intros dd' Hw'. rewrite Hw in Hw'. inversion Hw'; subst dd'. apply B3.
      destruct Hbn3 as [E|E]; rewrite E; congruence.
    + intros Hs. apply safe_snoc; [apply M4|]. intros dd' i' Hw' Hb'.
      rewrite (mid_walk f4 M4), Hw in Hw'. inversion Hw'; subst dd'. rewrite B2 in Hb'. inversion Hb'; subst i'.
      destruct (Hmk (Hsol Hs)) as (_ & _ & Hl3).
      rewrite (islink_next f3 f4 (T2 dd tmp bn) dd tmp i M3 S4 Hw Hbl3), Hl13. apply Hl3. exact Hs.
    + intros Ha. assert (Emk : mk = MRegular) by (destruct mk; try discriminate; reflexivity).
      destruct (Hreg Emk) as [Hbi Hso]. split; auto. exists dd, i. repeat split; auto.
Qed.


Definition post2 (kind : N) (r : fs * dwres) : Prop :=
  step Tp b f (fst r) /\
  forall a nd, snd r = DwOk a nd ->
    tmpfree (fst r)
    /\ (kind <> 2 -> solid st = true -> safe (fst r) D (pre ++ [bn]))
    /\ (a = true -> solid st = true /\ exists dd i, rwalk f D pre = Some dd /\ blookup bn (ents (fst r) dd) = Some i /\ b <= i).

Lemma post_post2 kind r : post r -> post2 kind r.
Proof.
  intros [S P]. split; auto. intros a nd H. destruct (P a nd H) as (A & B & C). split; [exact A|]. split; [intros _; exact B|exact C].
Qed.

Lemma post2_err kind : post2 kind (f, DwErr).
Proof. apply post_post2. apply post_err. apply step_refl; auto. unfold b. lia. Qed.

Theorem dw_handle_spec kind : post2 kind (dw_handle c f tmp kind p st).
Proof.
  unfold dw_handle. destruct (N.eqb kind 2) eqn:Ek.
  - destruct dw_delete_spec as [S F]. destruct (sys_remove_all c f p) as [f1 r]. cbn [fst] in *.
    split; auto. intros a nd H. cbn [fst snd] in *. destruct (is_err r); [discriminate|]. inversion H; subst.
    split; [exact F|]. split; [intros Hk; apply N.eqb_eq in Ek; congruence|discriminate].
  - destruct (sys_lstat c f p) as [f0 rl] eqn:El.
    assert (Esnd : snd (sys_lstat c f p) = rl) by (rewrite El; reflexivity).
    destruct rl as [|e|oi ond| | |]; try apply post2_err.
    + destruct e; try apply post2_err.
      destruct (negb (N.eqb kind 0)); [apply post2_err|].
      apply post_post2. exact (dw_direct_spec Esnd).
    + destruct (lstat_stat D c f p pre bn Hc Hp Hsafe oi ond Esnd) as (dd & Hw & Hd & Hbl & Hg).
      destruct (mode_is_dir (st_mode st) && match i_kind ond with KDir _ _ => true | _ => false end) eqn:Einp.
      * apply andb_true_iff in Einp. destruct Einp as [_ Eold].
        assert (Hdo : is_dir f oi = true).
        { unfold is_dir, dir_of. rewrite Hg. destruct ond as [k m]. simpl in Eold. destruct k; try discriminate. reflexivity. }
        destruct (dw_inplace_spec dd oi Hw Hbl Hdo) as (S & F & Sf).
        destruct (rewrite_meta c f p st) as [f1 ok]. cbn [fst] in *.
        split; auto. intros a nd H. cbn [fst snd] in *. destruct ok; [|discriminate]. inversion H; subst.
        split; [exact F|]. split; [intros _ _; exact Sf|discriminate].
      * apply post_post2.
        exact (dw_replace_spec dd oi ond
                 (negb (Bool.eqb (match i_kind ond with KDir _ _ => true | _ => false end) (mode_is_dir (st_mode st))))
                 (mode_is_dir (st_mode st)) Hw Hd Hbl Hg).
Qed.


(* ---- paths that do not run through the two entries are left alone ---- *)
Definition off (cs : list bytes) : Prop := ~ is_prefix (pre ++ [bn]) cs /\ ~ is_prefix (pre ++ [tmp]) cs.

Lemma off_avoids cs : off cs -> avoids Tp f D cs.
Proof.
  intros [H1 H2]. apply (avoids_by_path D Tp f W pre).
  - intros d m (A & B & _). auto.
  - intros k m HT Hk E. destruct (rwalk f D pre) as [dd|] eqn:Ew.
    + destruct HT as (_ & _ & [->| ->]); [apply H1|apply H2]; apply (nth_split_prefix pre cs k); auto.
    + destruct HT as (A & _). congruence.
Qed.

Lemma kept_safe g cs : step Tp b f g -> off cs -> safe f D cs -> safe g D cs.
Proof. intros S Ho Hs. apply (safe_step D Tp b f g W S cs D (reach_refl D f) (off_avoids cs Ho) Hs). Qed.

Lemma kept_rwalk g cs : step Tp b f g -> off cs -> rwalk g D cs = rwalk f D cs.
Proof. intros S Ho. apply (rwalk_step D Tp b f g W S cs D (reach_refl D f) (off_avoids cs Ho)). Qed.

(* an entry (dd', n') met on such a path is not one of the two *)
Lemma kept_dent g pre' n' dd' : step Tp b f g -> off (pre' ++ [n']) -> rwalk f D pre' = Some dd' ->
  blookup n' (ents g dd') = blookup n' (ents f dd').
Proof.
  intros S [H1 H2] Hw. apply (st_dent _ _ _ _ _ S dd' n').
  - apply (reach_lt D f dd' W (reach_dd f pre' dd' Hw)).
  - intros (A & B & C). assert (E : pre' = pre) by (apply (rwalk_unique D f W pre' pre dd'); auto). subst pre'.
    destruct C as [->| ->]; [apply H1|apply H2]; exists []; rewrite app_nil_r; reflexivity.
Qed.

End Handle.


(* ---------------- the same, stated on validated path strings ---------------- *)
Lemma ok_path_relpath p : ok_path p = true -> relpath p (comps p).
Proof.
  intros H. pose proof (ok_path_okc p H) as Hk. rewrite <- (joinc_comps p) at 1. apply relpath_joinc. exact Hk.
Qed.

Lemma okc_snoc_okname pre t n : okc (pre ++ [n]) -> okname t -> okc (pre ++ [t]).
Proof.
  intros (_ & Hn & Hs) [Ht1 Ht2]. apply Forall_app in Hn, Hs. destruct Hn as [Hn _], Hs as [Hs _].
  repeat split.
  - destruct pre; discriminate.
  - apply Forall_app; auto.
  - apply Forall_app; auto.
Qed.

Lemma tmp_path_joinc pre n t : okc (pre ++ [n]) -> tmp_path (joinc (pre ++ [n])) t = joinc (pre ++ [t]).
Proof.
  intros H. pose proof H as (_ & _ & Hs). unfold tmp_path, parent_of. rewrite split_last_joinc by auto.
  destruct pre as [|c0 pre0]; [reflexivity|].
  rewrite removelast_last.
  assert (Hk : okc (c0 :: pre0)) by (apply (okc_prefix _ n); [discriminate|exact H]).
  destruct (joinc (c0 :: pre0)) eqn:E.
  - exfalso. destruct (okc_not_special _ Hk) as (H1 & _). congruence.
  - rewrite <- E. rewrite joinc_snoc by discriminate. reflexivity.
Qed.

Lemma split_comps p : ok_path p = true -> comps p = removelast (comps p) ++ [last (comps p) []].
Proof.
  intros H. apply app_removelast_last. pose proof (ok_path_okc p H) as (Hne & _). exact Hne.
Qed.

Theorem dw_handle_contained c f tmp kind p st :
  wf f -> c_cwd c = D -> ok_path p = true -> okname tmp -> ~ In tmp (comps p) ->
  let pre := removelast (comps p) in
  let bn := last (comps p) [] in
  safe f D pre ->
  (forall dd, rwalk f D pre = Some dd -> blookup tmp (ents f dd) = None) ->
  (hardlink_branch st = true ->
     ok_path (st_linkname st) = true /\ safe f D (removelast (comps (st_linkname st)))) ->
  let r := dw_handle c f tmp kind p st in
  let g := fst r in
  step (Tp f tmp pre bn) (f_next f) f g
  /\ (forall cs', off tmp pre bn cs' -> (safe f D cs' -> safe g D cs') /\ rwalk g D cs' = rwalk f D cs')
  /\ (forall pre' n' dd', off tmp pre bn (pre' ++ [n']) -> rwalk f D pre' = Some dd' ->
         blookup n' (ents g dd') = blookup n' (ents f dd'))
  /\ (forall a nd, snd r = DwOk a nd ->
        (forall dd, rwalk f D pre = Some dd -> blookup tmp (ents g dd) = None)
        /\ (kind <> 2 -> solid st = true -> safe g D (comps p))
        /\ (a = true -> solid st = true /\ exists dd i, rwalk f D pre = Some dd /\ blookup bn (ents g dd) = Some i /\ f_next f <= i)).
Proof.
  intros W Hc Hok Htmp Hnin pre bn Hsafe Hfree Hlink r g.
  pose proof (split_comps p Hok) as Ecs. fold pre bn in Ecs.
  pose proof (ok_path_okc p Hok) as Hk. rewrite Ecs in Hk.
  assert (Hp : relpath p (pre ++ [bn])) by (rewrite <- Ecs; apply ok_path_relpath; auto).
  assert (Hnp : relpath (tmp_path p tmp) (pre ++ [tmp])).
  { rewrite <- (joinc_comps p) at 1. rewrite Ecs. rewrite (tmp_path_joinc pre bn tmp Hk).
    apply relpath_joinc. apply (okc_snoc_okname pre tmp bn); auto. }
  assert (Hne : tmp <> bn).
  { intro E. apply Hnin. rewrite Ecs. apply in_or_app. right. left. auto. }
  assert (Hlink' : hardlink_branch st = true ->
            exists pre1 n1, relpath (st_linkname st) (pre1 ++ [n1]) /\ safe f D pre1).
  { intros Hb. destruct (Hlink Hb) as [Hokl Hsl].
    exists (removelast (comps (st_linkname st))), (last (comps (st_linkname st)) []).
    rewrite <- (split_comps _ Hokl). split; auto. apply ok_path_relpath; auto. }
  pose proof (dw_handle_spec c f tmp p pre bn st W Hc Hp Hnp Hne Hsafe Hfree Hlink' kind) as [S P].
  fold r in S, P. fold g in S, P.
  split; [exact S|]. split; [|split].
  - intros cs' Ho. split.
    + apply (kept_safe f tmp pre bn W Hfree g cs' S Ho).
    + apply (kept_rwalk f tmp pre bn W Hfree g cs' S Ho).
  - intros pre' n' dd' Ho Hw. apply (kept_dent f tmp pre bn W g pre' n' dd' S Ho Hw).
  - intros a nd Hres. destruct (P a nd Hres) as (A & B & C). split; [exact A|]. split; [|exact C].
    intros Hk2 Hs. rewrite Ecs. apply B; auto.
Qed.


Lemma dw_handle_delete_res c f tmp p st a nd : snd (dw_handle c f tmp 2 p st) = DwOk a nd -> a = false.
Proof.
  unfold dw_handle. simpl. destruct (sys_remove_all c f p) as [f1 r]. simpl.
  destruct (is_err r); intros H; inversion H. reflexivity.
Qed.

Lemma is_prefix_len (a b : list bytes) : is_prefix a b -> (length a <= length b)%nat.
Proof. intros [y ->]. rewrite app_length. lia. Qed.

Lemma off_short tmp pre bn cs : (length cs <= length pre)%nat -> off tmp pre bn cs.
Proof.
  intros H. split; intro P; apply is_prefix_len in P; rewrite app_length in P; simpl in P; lia.
Qed.

Lemma off_of tmp pre bn cs : ~ is_prefix (pre ++ [bn]) cs -> ~ In tmp cs -> off tmp pre bn cs.
Proof.
  intros H1 H2. split; auto. intros [y E]. apply H2. rewrite E. apply in_or_app. left. apply in_or_app. right. left. auto.
Qed.

Lemma off_removelast tmp pre bn cs : off tmp pre bn cs -> off tmp pre bn (removelast cs).
Proof.
  intros [H1 H2].
  assert (G : forall x, is_prefix x (removelast cs) -> is_prefix x cs).
  { intros x [y E]. destruct cs as [|c0 r0] using rev_ind; [exists y; exact E|].
    rewrite removelast_last in E. exists (y ++ [c0]). rewrite E, app_assoc. reflexivity. }
  split; intro P; [apply H1|apply H2]; apply G; exact P.
Qed.


(* a delete does not look at the stat it is given *)
Lemma dw_handle_del_stat c f tmp p s s' : dw_handle c f tmp 2 p s = dw_handle c f tmp 2 p s'.
Proof. reflexivity. Qed.

Definition no_link_stat (s : stat) : stat := set_linkname s [].
Lemma no_link_branch s : hardlink_branch (no_link_stat s) = false.
Proof. unfold hardlink_branch, no_link_stat. simpl. rewrite andb_false_r. reflexivity. Qed.

(* the same theorem; the hard-link source only matters when something is created *)
Theorem dw_handle_contained' c f tmp kind p st :
  wf f -> c_cwd c = D -> ok_path p = true -> okname tmp -> ~ In tmp (comps p) ->
  let pre := removelast (comps p) in
  let bn := last (comps p) [] in
  safe f D pre ->
  (forall dd, rwalk f D pre = Some dd -> blookup tmp (ents f dd) = None) ->
  (N.eqb kind 2 = false -> hardlink_branch st = true ->
     ok_path (st_linkname st) = true /\ safe f D (removelast (comps (st_linkname st)))) ->
  let r := dw_handle c f tmp kind p st in
  let g := fst r in
  step (Tp f tmp pre bn) (f_next f) f g
  /\ (forall cs', off tmp pre bn cs' -> (safe f D cs' -> safe g D cs') /\ rwalk g D cs' = rwalk f D cs')
  /\ (forall pre' n' dd', off tmp pre bn (pre' ++ [n']) -> rwalk f D pre' = Some dd' ->
         blookup n' (ents g dd') = blookup n' (ents f dd'))
  /\ (forall a nd, snd r = DwOk a nd ->
        (forall dd, rwalk f D pre = Some dd -> blookup tmp (ents g dd) = None)
        /\ (kind <> 2 -> solid st = true -> safe g D (comps p))
        /\ (a = true -> solid st = true /\ exists dd i, rwalk f D pre = Some dd /\ blookup bn (ents g dd) = Some i /\ f_next f <= i)).
Proof.
  intros W Hc Hok Htmp Hnin pre bn Hsafe Hfree Hlink.
  destruct (N.eqb kind 2) eqn:Ek.
  - apply N.eqb_eq in Ek. subst kind. cbv zeta. rewrite (dw_handle_del_stat c f tmp p st (no_link_stat st)).
    destruct (dw_handle_contained c f tmp 2 p (no_link_stat st) W Hc Hok Htmp Hnin Hsafe Hfree) as (A & B & C0 & E).
    + rewrite no_link_branch. discriminate.
    + split; [exact A|]. split; [exact B|]. split; [exact C0|].
      intros a nd Hres. destruct (E a nd Hres) as (E1 & E2 & E3). split; [exact E1|]. split; [intros H; congruence|].
      intros Ha. subst a. pose proof (dw_handle_delete_res c f tmp p (no_link_stat st) true nd Hres). discriminate.
  - apply (dw_handle_contained c f tmp kind p st W Hc Hok Htmp Hnin Hsafe Hfree). intros H. apply Hlink; auto.
Qed.

(* ---- a directory entry that stays a directory: only its metadata is rewritten ---- *)
Lemma dw_inplace_quiet c f tmp kind p st :
  wf f -> c_cwd c = D -> ok_path p = true ->
  let pre := removelast (comps p) in
  let bn := last (comps p) [] in
  safe f D pre -> N.eqb kind 2 = false -> mode_is_dir (st_mode st) = true ->
  (exists dd i, rwalk f D pre = Some dd /\ blookup bn (ents f dd) = Some i /\ is_dir f i = true /\ get f i <> None) ->
  step TNone (f_next f) f (fst (dw_handle c f tmp kind p st))
  /\ forall a nd, snd (dw_handle c f tmp kind p st) = DwOk a nd -> a = false.
Proof.
  intros W Hc Hok pre bn Hsafe Hk Hdir (dd & i & Hw & Hbl & Hdi & Hex).
  pose proof (split_comps p Hok) as Ecs. fold pre bn in Ecs.
  assert (Hp : relpath p (pre ++ [bn])) by (rewrite <- Ecs; apply ok_path_relpath; auto).
  unfold dw_handle. rewrite Hk.
  assert (Hb : f_next f <= f_next f) by lia.
  destruct (sys_lstat c f p) as [f0 rl] eqn:El.
  assert (Esnd : snd (sys_lstat c f p) = rl) by (rewrite El; reflexivity).
  assert (Hsame : step TNone (f_next f) f f /\ forall a nd, DwErr = DwOk a nd -> a = false).
  { split; [apply step_refl; auto|discriminate]. }
  destruct rl as [|e|oi ond| | |]; try exact Hsame.
  - destruct e; try exact Hsame. exfalso.
    apply Hex. apply (lstat_enoent_dangling D c f p pre bn Hc Hp Hsafe Esnd dd i Hw Hbl).
  - destruct (lstat_stat D c f p pre bn Hc Hp Hsafe oi ond Esnd) as (dd' & Hw' & _ & Hbl' & Hg).
    rewrite Hw in Hw'. inversion Hw'; subst dd'. rewrite Hbl in Hbl'. inversion Hbl'; subst oi.
    assert (Hkd : match i_kind ond with KDir _ _ => true | _ => false end = true).
    { unfold is_dir, dir_of in Hdi. rewrite Hg in Hdi. destruct ond as [k m]. simpl. destruct k; try discriminate. reflexivity. }
    rewrite Hdir, Hkd. cbn [andb].
    assert (Hfull : safe f D (pre ++ [bn])).
    { apply safe_app. split; auto. intros j Hj. rewrite Hw in Hj. inversion Hj; subst j. apply safe_unfold.
      rewrite Hbl. split; [|exact I]. destruct (is_link f i) eqn:E; auto.
      apply is_link_tag in E. apply is_dir_dir_of in Hdi. destruct Hdi as (q & es & Hd). apply dir_of_tag in Hd. congruence. }
    assert (M : meta_pre (f_next f) pre bn st f).
    { unfold meta_pre. split; [exact W|]. split; [exact Hb|]. split; [exact Hsafe|]. split; [|intros _; exact Hfull].
      intros dd' i' Hw'' Hb'. rewrite Hw in Hw''. inversion Hw''; subst dd'. rewrite Hbl in Hb'. inversion Hb'; subst i'. right. exact Hdi. }
    pose proof (rewrite_meta_step (f_next f) c p pre bn st Hc Hp f M) as S.
    destruct (rewrite_meta c f p st) as [f1 ok]. cbn [fst snd] in *. split; auto.
    intros a nd H. destruct ok; inversion H. reflexivity.
Qed.

End Dw.
