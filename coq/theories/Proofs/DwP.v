(* C03 — DiskWriter.HandleChange (Model/DiskWriterFs.v: dw_handle) is a step that touches at most
   the entry it was given and the temporary name next to it, provided the parent chain of the
   path meets no symlink and the temporary name is free. *)
From Coq Require Import List Arith NArith Bool Lia ZifyN ZifyNat ZifyBool.
From FS Require Import Sx Model.Path Model.Stat Model.Validator Model.Fs Model.DiskWriterFs.
From FS Require Import Proofs.Lex Proofs.PathP Proofs.FsP Proofs.FsReachP Proofs.FsFrameP Proofs.FsSysP.
Import ListNotations.
Open Scope N_scope.
Open Scope bool_scope.

Section Dw.
Variable D : N.
Notation reach := (reach D).
Notation wf := (wf D).
Notation step := (step D).
Notation TNone := (TNone).

Lemma reach_dd f pre dd : rwalk f D pre = Some dd -> reach f dd.
Proof. intros H. apply (rwalk_reach D f pre D dd); [constructor|auto]. Qed.

(* ---------------- rewriteMetadata ---------------- *)
Section Meta.
Variables (b : N) (c : ctx) (p : bytes) (pre : list bytes) (n : bytes) (st : stat).
Hypothesis Hc : c_cwd c = D.
Hypothesis Hrel : relpath p (pre ++ [n]).

Definition meta_pre (f : fs) : Prop :=
  wf f /\ b <= f_next f /\ safe f D pre /\ target_ok D b f pre n
  /\ (mode_is_symlink (st_mode st) = false -> safe f D (pre ++ [n])).

Lemma meta_pre_step f f' : meta_pre f -> step TNone b f f' -> meta_pre f'.
Proof.
  intros (W & Hb & Hs & Ht & Hf) S.
  split; [apply (st_wf _ _ _ _ _ S)|]. split; [pose proof (st_next _ _ _ _ _ S); lia|].
  split; [apply (quiet_safe D b f f'); auto|]. split.
  - intros dd i Hw Hbl. rewrite (quiet_rwalk D b f f' pre W S) in Hw.
    pose proof (reach_dd f pre dd Hw) as Rdd.
    rewrite (quiet_blookup D b f f' dd n S (reach_lt D f dd W Rdd)) in Hbl.
    destruct (dentry_reach D f pre dd n i Hw Hbl) as [_ Ri].
    rewrite (is_dir_step D TNone b f f' i S (reach_lt D f i W Ri)). apply (Ht dd i); auto.
  - intros Hm. apply (quiet_safe D b f f'); auto.
Qed.

Lemma xattrs_step : forall xs f, meta_pre f ->
  let f' := fold_left (fun g kv => fst (sys_lsetxattr c g p (fst kv) (snd kv))) xs f in
  step TNone b f f' /\ meta_pre f'.
Proof.
  induction xs as [|kv xs IH]; intros f M; simpl.
  - split; [destruct M as (W & Hb & _); apply step_refl; auto|exact M].
  - pose proof M as (W & Hb & Hs & Ht & Hf).
    pose proof (sys_lsetxattr_step D TNone b c f p pre n W Hb Hc Hrel Hs (fst kv) (snd kv) Ht) as S1.
    pose proof (meta_pre_step f _ M S1) as M1.
    destruct (IH _ M1) as [S2 M2]. split; auto.
    apply (step_trans D TNone b f _ _ S1 S2).
Qed.

Lemma rewrite_meta_step f : meta_pre f -> step TNone b f (fst (rewrite_meta c f p st)).
Proof.
  intros M. unfold rewrite_meta.
  destruct (xattrs_step (st_xattrs st) f M) as [S1 M1].
  set (f1 := fold_left (fun g kv => fst (sys_lsetxattr c g p (fst kv) (snd kv))) (st_xattrs st) f) in *.
  pose proof M1 as (W1 & Hb1 & Hs1 & Ht1 & Hf1).
  pose proof (sys_lchown_step D TNone b c f1 p pre n W1 Hb1 Hc Hrel Hs1 (st_uid st) (st_gid st) Ht1) as S2.
  destruct (sys_lchown c f1 p (st_uid st) (st_gid st)) as [f2 r2] eqn:E2. cbn [fst] in S2.
  pose proof (meta_pre_step f1 f2 M1 S2) as M2.
  assert (S12 : step TNone b f f2) by (apply (step_trans D TNone b f f1 f2); auto).
  destruct (is_err r2); [exact S12|].
  pose proof M2 as (W2 & Hb2 & Hs2 & Ht2 & Hf2).
  assert (S3 : step TNone b f2 (fst (if mode_is_symlink (st_mode st) then (f2, ROk) else sys_chmod c f2 p (unix_perm (st_mode st))))).
  { destruct (mode_is_symlink (st_mode st)) eqn:Em; [apply step_refl; auto|].
    apply (sys_chmod_step D TNone b c f2 p pre n W2 Hb2 Hc Hrel Hs2); auto. }
  destruct (if mode_is_symlink (st_mode st) then (f2, ROk) else sys_chmod c f2 p (unix_perm (st_mode st))) as [f3 r3].
  cbn [fst] in S3.
  pose proof (meta_pre_step f2 f3 M2 S3) as M3.
  assert (S13 : step TNone b f f3) by (apply (step_trans D TNone b f f2 f3); auto).
  destruct (is_err r3); [exact S13|].
  pose proof M3 as (W3 & Hb3 & Hs3 & Ht3 & Hf3).
  pose proof (sys_utimens_step D TNone b c f3 p pre n W3 Hb3 Hc Hrel Hs3 (st_mtime st) Ht3) as S4.
  destruct (sys_utimens c f3 p (st_mtime st)) as [f4 r4]. cbn [fst] in *.
  apply (step_trans D TNone b f f3 f4); auto.
Qed.

End Meta.


(* ---------------- HandleChange ---------------- *)
(* the creation switch makes something that is no symlink and no hard link *)
Definition solid (st : stat) : bool :=
  let m := st_mode st in
  mode_is_dir m || (has_bits m ModeDevice || has_bits m ModeNamedPipe)
  || (negb (mode_is_symlink m) && is_nil (st_linkname st)).

Section Handle.
Variables (c : ctx) (f : fs) (tmp : bytes) (p : bytes) (pre : list bytes) (bn : bytes) (st : stat).
Hypothesis W : wf f.
Hypothesis Hc : c_cwd c = D.
Hypothesis Hp : relpath p (pre ++ [bn]).
Hypothesis Hnp : relpath (tmp_path p tmp) (pre ++ [tmp]).
Hypothesis Hne : tmp <> bn.
Hypothesis Hsafe : safe f D pre.
Hypothesis Hfree : forall dd, rwalk f D pre = Some dd -> blookup tmp (ents f dd) = None.
(* the source of a hard link: a path whose parent chain is safe *)
Hypothesis Hlink : is_nil (st_linkname st) = false ->
  exists pre1 n1, relpath (st_linkname st) (pre1 ++ [n1]) /\ safe f D pre1.

Let b := f_next f.

Definition Tn (nm : bytes) : N -> bytes -> Prop :=
  fun d m => rwalk f D pre = Some d /\ is_dir f d = true /\ m = nm.
Definition Tp : N -> bytes -> Prop :=
  fun d m => rwalk f D pre = Some d /\ is_dir f d = true /\ (m = bn \/ m = tmp).

Lemma Tn_Tp nm : nm = bn \/ nm = tmp -> forall d m, Tn nm d m -> Tp d m.
Proof. intros H d m (A & B & C). subst m. split; auto. Qed.
Lemma TNone_Tp : forall d m, TNone d m -> Tp d m.
Proof. intros d m []. Qed.

Lemma pre_avoids : avoids Tp f D pre.
Proof.
  apply (avoids_by_path D Tp f W pre).
  - intros d m (A & B & _). auto.
  - intros k m _ Hk. apply firstn_all_ge in Hk. intro E.
    assert (nth_error pre k = None) by (apply nth_error_None; exact Hk). congruence.
Qed.

(* what holds in every intermediate state of the call *)
Record mid (g : fs) : Prop := {
  mid_step : step Tp b f g;
  mid_wf : wf g;
  mid_b : b <= f_next g;
  mid_safe : safe g D pre;
  mid_walk : rwalk g D pre = rwalk f D pre;
  mid_dir : forall dd, rwalk f D pre = Some dd -> is_dir g dd = is_dir f dd
}.

Lemma mid_of_step g : step Tp b f g -> mid g.
Proof.
  intros S. constructor; auto.
  - apply (st_wf _ _ _ _ _ S).
  - pose proof (st_next _ _ _ _ _ S). unfold b. lia.
  - apply (safe_step D Tp b f g W S pre D (reach_refl D f) pre_avoids Hsafe).
  - apply (rwalk_step D Tp b f g W S pre D (reach_refl D f) pre_avoids).
  - intros dd Hw. apply (is_dir_step D Tp b f g dd S). apply (reach_lt D f dd W (reach_dd f pre dd Hw)).
Qed.

Lemma mid_refl : mid f.
Proof. apply mid_of_step. apply step_refl; auto. unfold b. lia. Qed.

Lemma mid_next g g' (T' : N -> bytes -> Prop) : mid g -> (forall d m, T' d m -> Tp d m) -> step T' b g g' -> mid g'.
Proof.
  intros M HT S. apply mid_of_step. apply (step_trans D Tp b f g g'); [apply M|].
  apply (step_weaken D T' Tp b g g' HT S).
Qed.

Lemma mid_names g nm : mid g -> forall dd, rwalk g D pre = Some dd -> is_dir g dd = true -> Tn nm dd nm.
Proof.
  intros M dd Hw Hd. rewrite (mid_walk g M) in Hw. rewrite (mid_dir g M dd Hw) in Hd. repeat split; auto.
Qed.

Lemma mid_dd_lt g dd : mid g -> rwalk f D pre = Some dd -> dd < f_next g.
Proof.
  intros M Hw. pose proof (reach_lt D f dd W (reach_dd f pre dd Hw)). pose proof (mid_b g M). unfold b in *. lia.
Qed.

(* an entry of the directory at [pre] is the same in g' as in g when the step did not name it *)
Lemma mid_dent g g' (T' : N -> bytes -> Prop) dd nm :
  mid g -> step T' b g g' -> rwalk f D pre = Some dd -> ~ T' dd nm ->
  blookup nm (ents g' dd) = blookup nm (ents g dd).
Proof. intros M S Hw HT. apply (st_dent _ _ _ _ _ S dd nm (mid_dd_lt g dd M Hw) HT). Qed.

Lemma not_Tn nm nm' dd : nm <> nm' -> ~ Tn nm dd nm'.
Proof. intros H (_ & _ & E). congruence. Qed.

(* ---- the creation switch, always run on the file system the call started with ---- *)
Lemma dw_create_spec q nm :
  relpath q (pre ++ [nm]) -> (nm = bn \/ nm = tmp) ->
  (forall dd i, rwalk f D pre = Some dd -> blookup nm (ents f dd) = Some i -> get f i = None) ->
  let r := dw_create c f q st in
  let f1 := fst (fst r) in let ok := snd (fst r) in let mk := snd r in
  step (Tn nm) b f f1 /\
  (ok = true -> exists dd i, rwalk f D pre = Some dd /\ is_dir f dd = true /\ blookup nm (ents f1 dd) = Some i
      /\ (mk <> MHardlink -> b <= i /\ (mode_is_symlink (st_mode st) = false -> is_link f1 i = false)
                                     /\ (solid st = true -> is_link f1 i = false))
      /\ (solid st = true -> mk <> MHardlink)
      /\ (mk = MRegular -> b <= i)).
Proof.
  intros Hq Hnm Habs. cbv zeta. unfold dw_create.
  assert (HT : forall dd, rwalk f D pre = Some dd -> is_dir f dd = true -> Tn nm dd nm) by (intros; repeat split; auto).
  assert (Hb : b <= f_next f) by (unfold b; lia).
  assert (Hfull : safe f D (pre ++ [nm])).
  { apply safe_app. split; auto. intros j Hj. apply safe_unfold.
    destruct (blookup nm (ents f j)) as [i|] eqn:Eb; auto. split; [|exact I].
    unfold is_link. rewrite (Habs j i Hj Eb). reflexivity. }
  assert (Hfresh : forall f' k, created D f pre nm f' k -> exists dd i, rwalk f D pre = Some dd /\ is_dir f dd = true
             /\ blookup nm (ents f' dd) = Some i /\ b <= i /\ (ktag k <> 2 -> is_link f' i = false)).
  { intros f' k (dd & m & A1 & A2 & A3 & A4 & A5). exists dd, (f_next f). repeat split; auto; try (unfold b; lia).
    intros Hk. unfold is_link. rewrite A5. destruct k; simpl in *; congruence. }
  destruct (mode_is_dir (st_mode st)) eqn:Edir.
  { destruct (sys_mkdir_step D (Tn nm) b c f q pre nm W Hb Hc Hq Hsafe HT (unix_perm (st_mode st))) as [S P].
    destruct (sys_mkdir c f q (unix_perm (st_mode st))) as [g r] eqn:E. cbn [fst snd] in *.
    split; auto. intros Hok. apply negb_true_iff in Hok.
    destruct (P Hok) as [d0 Cr]. destruct (Hfresh g _ Cr) as (dd & i & B1 & B2 & B3 & B4 & B5).
    exists dd, i. repeat split; auto; try discriminate; intros; apply B5; simpl; discriminate. }
  destruct (has_bits (st_mode st) ModeDevice || has_bits (st_mode st) ModeNamedPipe) eqn:Edev.
  { match goal with |- context [sys_mknod c f q ?t ?m ?rd] =>
      destruct (sys_mknod_step D (Tn nm) b c f q pre nm W Hb Hc Hq Hsafe HT t m rd) as [S P];
      destruct (sys_mknod c f q t m rd) as [g r] eqn:E end. cbn [fst snd] in *.
    split; auto. intros Hok. apply negb_true_iff in Hok.
    destruct (P Hok) as (t0 & r0 & Cr). destruct (Hfresh g _ Cr) as (dd & i & B1 & B2 & B3 & B4 & B5).
    exists dd, i. repeat split; auto; try discriminate; intros; apply B5; simpl; discriminate. }
  destruct (mode_is_symlink (st_mode st)) eqn:Esym.
  { destruct (sys_symlink_step D (Tn nm) b c f q pre nm W Hb Hc Hq Hsafe HT (st_linkname st)) as [S P].
    destruct (sys_symlink c f (st_linkname st) q) as [g r] eqn:E. cbn [fst snd] in *.
    split; auto. intros Hok. apply negb_true_iff in Hok.
    pose proof (P Hok) as Cr. destruct (Hfresh g _ Cr) as (dd & i & B1 & B2 & B3 & B4 & B5).
    exists dd, i. repeat split; auto; try discriminate.
    unfold solid. rewrite Edir, Edev, Esym. simpl. discriminate. }
  destruct (is_nil (st_linkname st)) eqn:Eln; cbn [negb].
  - destruct (sys_open_creat_step D (Tn nm) b c f q pre nm W Hb Hc Hq HT (unix_perm (st_mode st)) Hfull) as [S P].
    destruct (sys_open_wronly c f q true (unix_perm (st_mode st))) as [g r] eqn:E. cbn [fst snd] in *.
    split; auto. intros Hok. apply negb_true_iff in Hok.
    destruct (P Hok) as (i & _ & [(_ & dd & nd & A1 & A2 & A3 & _)|(_ & Cr)]).
    + rewrite (Habs dd i A1 A2) in A3. discriminate.
    + destruct (Hfresh g _ Cr) as (dd & i' & B1 & B2 & B3 & B4 & B5).
      exists dd, i'. repeat split; auto; try discriminate; intros; apply B5; simpl; discriminate.
  - destruct (Hlink eq_refl) as (pre1 & n1 & Hrel1 & Hs1).
    destruct (sys_link_step D (Tn nm) b c f (st_linkname st) q pre1 n1 pre nm W Hb Hc Hrel1 Hq Hs1 Hsafe HT) as [S P].
    destruct (sys_link c f (st_linkname st) q) as [g r] eqn:E. cbn [fst snd] in *.
    split; auto. intros Hok. apply negb_true_iff in Hok.
    destruct (P Hok) as (dd & dd1 & i & A1 & Hd & A2 & A3 & A4 & A5).
    exists dd, i. repeat split; auto; try congruence.
    unfold solid. rewrite Edir, Edev, Eln. rewrite andb_false_r. simpl. discriminate.
Qed.

End Handle.

End Dw.
